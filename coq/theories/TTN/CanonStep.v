(* The local effect of one canonicalisation step `qr_to_neighbour s n nb m rid`
   (= split_nodes by QR, Q keeps the identifier n, R gets the temporary identifier rid;
   then contract_nodes of R into the neighbour nb) on the store. *)
From Coq Require Import List Arith Bool Lia Permutation.
From PTN Require Import TTN.Store TTN.StoreProofs TTN.Canon TTN.Inv TTN.InvProofs TTN.InvNode TTN.CanonTree TTN.CanonMore.
Import ListNotations.

(* ---- small helpers -------------------------------------------------------------------------------- *)
Lemma aset_same_id {V} k (v : V) l : aget k l = Some v -> aset k v l = l.
Proof.
  induction l as [|[k' v'] t IH]; cbn; [discriminate|].
  destruct (Nat.eqb_spec k k') as [->|Hne]; [intros [= ->]; reflexivity|]. intros H. f_equal. apply IH. exact H.
Qed.

Lemma replace_first_same x l : replace_first x x l = l.
Proof. induction l as [|y t IH]; cbn; [reflexivity|]. destruct (Nat.eqb_spec x y) as [->|]; [reflexivity|]. f_equal. exact IH. Qed.

Lemma replace_first_notin x y l : ~ In x l -> replace_first x y l = l.
Proof.
  induction l as [|z t IH]; cbn; [reflexivity|]. intros H. destruct (Nat.eqb_spec x z) as [->|Hne].
  - exfalso. apply H. left. reflexivity.
  - f_equal. apply IH. intros Hin. apply H. right. exact Hin.
Qed.

Lemma remove_replace_first x y l : ~ In y l -> remove_first y (replace_first x y l) = remove_first x l.
Proof.
  induction l as [|z t IH]; cbn; [reflexivity|]. intros H.
  destruct (Nat.eqb_spec x z) as [->|Hne]; cbn.
  - rewrite Nat.eqb_refl. reflexivity.
  - destruct (Nat.eqb_spec y z) as [->|Hne2]; [exfalso; apply H; left; reflexivity|].
    f_equal. apply IH. intros Hin. apply H. right. exact Hin.
Qed.

Lemma replace_first_perm x y l : In x l -> Permutation (replace_first x y l) (y :: remove_first x l).
Proof.
  induction l as [|z t IH]; [intros []|]. intros Hin. cbn. destruct (Nat.eqb_spec x z) as [->|Hne]; [reflexivity|].
  destruct Hin as [->|Hin]; [congruence|]. rewrite (IH Hin). apply perm_swap.
Qed.

Lemma with_parent_same n : with_parent n (parent n) = n.
Proof. destruct n; reflexivity. Qed.
Lemma with_children_same n : with_children n (children n) = n.
Proof. destruct n; reflexivity. Qed.

Lemma replace_neighbour_same xn x xn' : replace_neighbour xn x x = Some xn' -> xn' = xn.
Proof.
  unfold replace_neighbour. destruct (parent xn) as [p|] eqn:Hp.
  - destruct (Nat.eqb_spec p x) as [->|_].
    + intros [= <-]. rewrite <- Hp. apply with_parent_same.
    + destruct (memb x (children xn)); [|discriminate]. intros [= <-]. rewrite replace_first_same. apply with_children_same.
  - destruct (memb x (children xn)); [|discriminate]. intros [= <-]. rewrite replace_first_same. apply with_children_same.
Qed.

Lemma ris_none new old ns : fold_left (fun acc x => match acc with
                          | None => None
                          | Some l' => match aget x l' with
                                       | Some xn => match replace_neighbour xn old new with
                                                    | Some xn' => Some (aset x xn' l')
                                                    | None => None
                                                    end
                                       | None => None
                                       end
                          end) ns (@None (list (id * node))) = None.
Proof. induction ns as [|x t IH]; cbn; [reflexivity|exact IH]. Qed.

Lemma ris_same ns : forall l x l', replace_in_some_neighbours l x x ns = Some l' -> l' = l.
Proof.
  unfold replace_in_some_neighbours. induction ns as [|y t IH]; intros l x l' H; cbn in H; [congruence|].
  destruct (aget y l) as [yn|] eqn:Ey; [|rewrite ris_none in H; discriminate].
  destruct (replace_neighbour yn x x) as [yn'|] eqn:Er; [|rewrite ris_none in H; discriminate].
  apply replace_neighbour_same in Er. subst yn'. rewrite (aset_same_id _ _ _ Ey) in H. eapply IH; eauto.
Qed.

Lemma ris_single l new old x l' : replace_in_some_neighbours l new old [x] = Some l' ->
  exists xn xn', aget x l = Some xn /\ replace_neighbour xn old new = Some xn' /\ l' = aset x xn' l.
Proof.
  unfold replace_in_some_neighbours. cbn. destruct (aget x l) as [xn|]; [|discriminate].
  destruct (replace_neighbour xn old new) as [xn'|] eqn:E; [|discriminate]. intros [= <-]. exists xn, xn'. auto.
Qed.

(* structure (parent, children) produced by the leg-moving primitives, without side conditions *)
Lemma olc_loop_struct orig l : forall n n', olc_loop orig n l = Some n' ->
  parent n' = parent n /\ children n' = children n ++ map (fun x => fst (fst x)) l.
Proof.
  induction l as [|[[cid leg] val] t IH]; intros n n' H; cbn [olc_loop] in H.
  - injection H as <-. cbn. rewrite app_nil_r. auto.
  - destruct (Nat.ltb leg orig); [discriminate|]. apply IH in H. cbn in H. destruct H as [H1 H2].
    split; [exact H1|]. rewrite H2, <- app_assoc. reflexivity.
Qed.

Lemma olc_struct n d n' : open_legs_to_children n d = Some n' ->
  parent n' = parent n /\ children n' = children n ++ map fst d.
Proof.
  unfold open_legs_to_children. destruct (forallb _ d); [|discriminate]. intros H.
  apply olc_loop_struct in H. rewrite map_map in H. exact H.
Qed.

Lemma oltp_struct n pid leg n' : open_leg_to_parent n pid leg = Some n' ->
  parent n' = Some pid /\ children n' = children n.
Proof.
  unfold open_leg_to_parent. destruct (negb (is_root n)); [discriminate|].
  destruct (negb (open_leg_ok n leg)); [discriminate|]. destruct (move leg 0 (perm n)); [|discriminate].
  intros [= <-]. auto.
Qed.

Lemma eolr_struct n a b c d n' : exchange_open_leg_ranges n a b c d = Some n' ->
  parent n' = parent n /\ children n' = children n.
Proof.
  unfold exchange_open_leg_ranges. destruct (Nat.ltb c a).
  - destruct (Nat.ltb a (c + d)); [discriminate|]. destruct (pop_n b a (perm n)) as [[v2 p1]|]; [|discriminate].
    destruct (pop_n d c p1) as [[v1 p2]|]; [|discriminate]. intros [= <-]. auto.
  - destruct (Nat.ltb c (a + b)); [discriminate|]. destruct (pop_n d c (perm n)) as [[v2 p1]|]; [|discriminate].
    destruct (pop_n b a p1) as [[v1 p2]|]; [|discriminate]. intros [= <-]. auto.
Qed.

Lemma ccn_struct shp pn cn c first nn : create_contracted_node shp pn cn c first = Some nn ->
  parent nn = parent pn /\
  children nn = if first then remove_first c (children pn) ++ children cn
                else children cn ++ remove_first c (children pn).
Proof.
  unfold create_contracted_node.
  destruct (match parent pn with Some pp => open_leg_to_parent (new_node shp) pp 0 | None => Some (new_node shp) end)
    as [n1|] eqn:E1; [|discriminate].
  assert (H1 : parent n1 = parent pn /\ children n1 = []).
  { destruct (parent pn) as [pp|]; [apply oltp_struct in E1; destruct E1; split; assumption|]. injection E1 as <-. auto. }
  destruct H1 as [P1 C1].
  match goal with |- match open_legs_to_children n1 ?d with _ => _ end = _ -> _ =>
    destruct (open_legs_to_children n1 d) as [n2|] eqn:E2; [|discriminate] end.
  apply olc_struct in E2. destruct E2 as [P2 C2]. rewrite C1 in C2. cbn [app] in C2.
  destruct first.
  - intros [= <-]. split; [congruence|]. rewrite C2, map_app, !enum_from_fst. reflexivity.
  - intros H. apply eolr_struct in H. destruct H as [P3 C3]. split; [congruence|].
    rewrite C3, C2, map_app, !enum_from_fst. reflexivity.
Qed.

Lemma rnin_same s new del : replace_node_in_neighbours s new new del = Some s.
Proof. unfold replace_node_in_neighbours. rewrite Nat.eqb_refl. reflexivity. Qed.

Lemma nth0_firstn_app {A} k (l r : list A) d : 1 <= k -> l <> [] -> nth 0 (firstn k l ++ r) d = nth 0 l d.
Proof. intros Hk Hl. destruct k; [lia|]. destruct l; [congruence|]. reflexivity. Qed.

Lemma eqb_false x y : x <> y -> Nat.eqb x y = false.
Proof. apply Nat.eqb_neq. Qed.

Lemma aget_snoc_other {V} k k' (v : V) l : k <> k' -> aget k (l ++ [(k', v)]) = aget k l.
Proof. intros H. rewrite aget_app. cbn. rewrite (eqb_false _ _ H). destruct (aget k l); reflexivity. Qed.

(* ---- the effect of one step ------------------------------------------------------------------------- *)
Record step_effect (s : store) (n nb rid : id) (s' : store) (nd : node) : Prop := {
  (* (a) n is now exactly the fresh Q atom, whose bond wire sits on n's leg toward nb *)
  se_node : exists nd' t' leg,
      aget n (nodes s') = Some nd' /\ aget n (tensors s') = Some t' /\ atoms t' = [next_atom s] /\
      neighbour_index nd' nb = Some leg /\ nth (nth leg (perm nd') 0) (axes t') 0 = next_wire s /\
      parent nd' = parent nd /\
      children nd' = (if match parent nd with Some p => Nat.eqb p nb | None => false end
                      then children nd else nb :: remove_first nb (children nd));
  se_defs : exists df, defs s' = defs s ++ [df] /\ kq df = next_atom s /\ kkind df = 0 /\ kbond df = next_wire s;
  (* (b) every other node but the neighbour is untouched *)
  se_other_n : forall k, k <> n -> k <> nb -> aget k (nodes s') = aget k (nodes s);
  se_other_t : forall k, k <> n -> k <> nb -> k <> rid -> aget k (tensors s') = aget k (tensors s);
  (* (c) the neighbour keeps its parent; its children change order only *)
  se_nb : exists nbn nbn', aget nb (nodes s) = Some nbn /\ aget nb (nodes s') = Some nbn' /\
      parent nbn' = parent nbn /\
      children nbn' = (if match parent nd with Some p => Nat.eqb p nb | None => false end
                       then remove_first n (children nbn) ++ [n] else children nbn);
  se_keys : akeys (nodes s') = akeys (nodes s);
  se_root : root s' = if is_root nd then Some n else root s;
  (* (d) the temporary identifier is gone from the tensor dictionary too (from the node dictionary: se_other_n) *)
  se_rid_t : NoDup (akeys (tensors s)) -> aget rid (tensors s') = None /\ NoDup (akeys (tensors s'))
}.

Lemma td_final (T : list (id * sarr)) x y nb nt rid :
  NoDup (akeys T) -> (x = nb /\ y = rid) \/ (x = rid /\ y = nb) -> nb <> rid ->
  aget rid (adel x (adel y T) ++ [(nb, nt)]) = None /\ NoDup (akeys (adel x (adel y T) ++ [(nb, nt)])).
Proof.
  intros HT Hxy Hne.
  assert (N1 : NoDup (akeys (adel y T))) by (apply NoDup_akeys_adel; exact HT).
  assert (N2 : NoDup (akeys (adel x (adel y T)))) by (apply NoDup_akeys_adel; exact N1).
  split.
  - rewrite aget_snoc_other by congruence. destruct Hxy as [[-> ->]|[-> ->]].
    + rewrite aget_adel_other by congruence. apply aget_adel_same. exact HT.
    + apply aget_adel_same. exact N1.
  - apply NoDup_akeys_snoc; [exact N2|]. destruct Hxy as [[-> ->]|[-> ->]].
    + apply aget_adel_same. exact N1.
    + rewrite aget_adel_other by congruence. apply aget_adel_same. exact HT.
Qed.

Lemma replace_neighbour_child xn old new xn' : parent xn <> Some old ->
  replace_neighbour xn old new = Some xn' ->
  xn' = with_children xn (replace_first old new (children xn)) /\ In old (children xn).
Proof.
  unfold replace_neighbour. intros Hp. destruct (parent xn) as [p|].
  - destruct (Nat.eqb_spec p old) as [->|_]; [congruence|].
    destruct (memb old (children xn)) eqn:Hm; [|discriminate]. intros [= <-]. split; [reflexivity|]. apply memb_In. exact Hm.
  - destruct (memb old (children xn)) eqn:Hm; [|discriminate]. intros [= <-]. split; [reflexivity|]. apply memb_In. exact Hm.
Qed.

Lemma replace_neighbour_parent xn old new xn' : parent xn = Some old ->
  replace_neighbour xn old new = Some xn' -> xn' = with_parent xn (Some new).
Proof. unfold replace_neighbour. intros ->. rewrite Nat.eqb_refl. intros [= <-]. reflexivity. Qed.

Lemma akeys_adel {V} k (l : list (nat * V)) : akeys (adel k l) = remove_first k (akeys l).
Proof.
  induction l as [|[k' v] t IH]; cbn; [reflexivity|]. destruct (Nat.eqb k k'); [reflexivity|]. cbn. f_equal. exact IH.
Qed.

Lemma akeys_aset_in {V} k (v : V) l : In k (akeys l) -> akeys (aset k v l) = akeys l.
Proof. intros H. rewrite akeys_aset. apply amem_true in H. rewrite H. reflexivity. Qed.

Lemma akeys_aset_notin {V} k (v : V) l : ~ In k (akeys l) -> akeys (aset k v l) = akeys l ++ [k].
Proof.
  intros H. rewrite akeys_aset. destruct (amem k l) eqn:E; [|reflexivity]. apply amem_true in E. contradiction.
Qed.

Lemma remove_first_snoc x l : ~ In x l -> remove_first x (l ++ [x]) = l.
Proof. intros H. rewrite remove_first_app_r by exact H. cbn. rewrite Nat.eqb_refl. apply app_nil_r. Qed.

Lemma nth_app_len {A} (l : list A) x d : nth (length l) (l ++ [x]) d = x.
Proof. rewrite app_nth2 by lia. rewrite Nat.sub_diag. reflexivity. Qed.

(* ---- case 1: the neighbour is the parent of n ------------------------------------------------------- *)
Lemma qr_step_parent s n nb m rid s' nd0 :
  tstruct (nodes s) -> aget rid (nodes s) = None ->
  aget n (nodes s) = Some nd0 -> parent nd0 = Some nb ->
  qr_to_neighbour s n nb m rid = Some s' -> step_effect s n nb rid s' nd0.
Proof.
  intros T Hrid E0 Hp H.
  (* basic facts about the three identifiers *)
  destruct (ts_par _ T n nd0 nb E0 Hp) as (nbn & Enb & Hnin).
  assert (Nnb : n <> nb) by (intros ->; exact (ts_not_self_parent _ _ _ T E0 Hp)).
  assert (Nnr : n <> rid) by (intros ->; congruence).
  assert (Nbr : nb <> rid) by (intros ->; congruence).
  assert (Hr : is_root nd0 = false) by (unfold is_root; rewrite Hp; reflexivity).
  unfold qr_to_neighbour in H. rewrite E0 in H.
  unfold build_qr_leg_specs in H. rewrite Hp, Nat.eqb_refl in H. cbv iota beta in H.
  destruct (split_nodes _ _ _ _ _ _ _ _ _) as [s1|] eqn:Es; [|discriminate].
  unfold split_nodes in Es.
  destruct (access s n) as [[[sa nd] t]|] eqn:Ea; [|discriminate].
  match type of Es with match ?x with _ => _ end = _ => destruct x as [ol|] eqn:Eo; [|discriminate] end.
  match type of Es with match ?x with _ => _ end = _ => destruct x as [il|] eqn:Ei; [|discriminate] end.
  match type of Es with (if ?c then _ else _) = _ => destruct c eqn:Eperm; [discriminate|] end.
  match type of Es with (if ?c then _ else _) = _ => destruct c eqn:Eni; [discriminate|] end.
  match type of Es with (if ?c then _ else _) = _ => destruct c eqn:Ekeep; [discriminate|] end.
  cbv zeta in Es.
  cbn [fresh_wires fresh_atom upd_tensors upd_nodes set_root nodes tensors root dims next_wire next_atom defs atab hd
       ls_root ls_parent ls_children ls_open] in Es.
  set (b := next_wire sa) in Es. set (qa := next_atom sa) in Es.
  set (ow := permute 0 ol (axes t)) in Es. set (iw := permute 0 il (axes t)) in Es.
  set (df := Build_kdef _ _ _ _ _ _) in Es.
  set (s5 := add_def _ df) in Es.
  set (ot := {| axes := ow ++ [b]; atoms := [qa]; bnd := [] |}) in Es.
  set (it := {| axes := b :: iw; atoms := [S qa]; bnd := [] |}) in Es.
  set (on0 := new_node (map (wdim s5) (axes ot))) in Es.
  set (in0 := new_node (map (wdim s5) (axes it))) in Es.
  rewrite Hr, Nat.eqb_refl in Es. cbn [andb orb negb app] in Es.
  destruct (open_leg_to_parent in0 nb 1) as [in1|] eqn:Ein1; [|discriminate].
  destruct (open_legs_to_children in1 _) as [in2|] eqn:Ein2; [|discriminate].
  destruct (open_leg_to_parent on0 rid _) as [on1|] eqn:Eon1; [|discriminate].
  destruct (open_legs_to_children on1 _) as [on2|] eqn:Eon2; [|discriminate].
  destruct (replace_in_some_neighbours _ n n _) as [l1|] eqn:El1; [|discriminate].
  destruct (replace_in_some_neighbours l1 rid n _) as [l2|] eqn:El2; [|discriminate].
  injection Es as Es.
  (* the access *)
  destruct (access_inv _ _ _ _ _ Ea) as (nd0' & t0 & E0' & Et0 & Hnd & Ht & Hsa).
  rewrite E0 in E0'. injection E0' as <-.
  assert (Hsa_n : nodes sa = aset n nd (nodes s)) by (rewrite Hsa; reflexivity).
  assert (Hsa_t : tensors sa = aset n t (tensors s)) by (rewrite Hsa; reflexivity).
  assert (Hsa_r : root sa = root s) by (rewrite Hsa; reflexivity).
  assert (Hsa_w : next_wire sa = next_wire s) by (rewrite Hsa; reflexivity).
  assert (Hsa_a : next_atom sa = next_atom s) by (rewrite Hsa; reflexivity).
  assert (Hsa_d : defs sa = defs s) by (rewrite Hsa; reflexivity).
  (* the Q node *)
  assert (Hon0 : node_wf on0) by apply new_node_wf.
  destruct (open_leg_to_parent_wf _ _ _ _ Hon0 Eon1) as (Won1 & Pon1 & Con1 & _ & Lon1 & Non1 & _).
  assert (Klen : nlegs on0 = S (length ow)).
  { unfold nlegs, on0. cbn [new_node perm axes ot]. rewrite seq_length, map_length, app_length. cbn. nlia. }
  assert (Non1' : nth 0 (perm on1) 0 = length ow).
  { rewrite Non1. unfold on0 at 2. cbn [new_node perm]. rewrite Klen.
    replace (S (length ow) - 1) with (length ow) by lia. rewrite seq_nth; [reflexivity|].
    rewrite map_length. cbn [axes ot]. rewrite app_length. cbn. nlia. }
  assert (Von1 : nvirt on1 = 1).
  { unfold nvirt, nparents. rewrite Pon1, Con1. reflexivity. }
  destruct (open_legs_to_children_spec on1 _ on2 Won1 ltac:(rewrite enum_from_snd; apply seq_NoDup) Eon2) as (Pon2 & _ & Con2 & Lon2 & _).
  rewrite enum_from_fst, Con1 in Con2. cbn [on0 new_node children app] in Con2.
  assert (Non2 : nth 0 (perm on2) 0 = length ow).
  { rewrite Lon2, Von1. rewrite nth0_firstn_app; [exact Non1'|lia|].
    intros Hnil. apply Permutation_length in Lon1. fold (nlegs on0) in Lon1. rewrite Klen, Hnil in Lon1. discriminate Lon1. }
  (* the R node *)
  destruct (oltp_struct _ _ _ _ Ein1) as [Pin1 Cin1].
  destruct (olc_struct _ _ _ Ein2) as [Pin2 Cin2]. rewrite Cin1 in Cin2. cbn in Cin2. rewrite Pin1 in Pin2.
  (* the neighbours *)
  apply ris_same in El1. subst l1.
  unfold find_all_neighbour_ids in El2. cbn [ls_parent ls_children app] in El2.
  destruct (ris_single _ _ _ _ _ El2) as (nbn1 & nbn' & Enb1 & Ern & Hl2). clear El2.
  change (nodes s5) with (nodes sa) in *.
  rewrite Hsa_n in Enb1. rewrite !aget_aset, !(eqb_false nb rid), !(eqb_false nb n) in Enb1 by congruence.
  rewrite Enb in Enb1. injection Enb1 as <-.
  assert (Hpn : parent nbn <> Some n).
  { intros Hc. destruct (ts_acyc _ T) as [rank Hrk]. pose proof (Hrk _ _ _ E0 Hp). pose proof (Hrk _ _ _ Enb Hc). lia. }
  destruct (replace_neighbour_child _ _ _ _ Hpn Ern) as [Hnbn' _].
  assert (Hrc : ~ In rid (children nbn)).
  { intros Hc. destruct (ts_ch _ T _ _ _ Enb Hc) as (x & Ex & _). congruence. }
  (* the store after the split *)
  assert (Hn1 : nodes s1 = l2) by (rewrite <- Es; reflexivity).
  assert (Ht1 : tensors s1 = aset rid it (aset n ot (tensors sa))) by (rewrite <- Es; reflexivity).
  assert (Hr1 : root s1 = root sa) by (rewrite <- Es; reflexivity).
  assert (Hd1 : defs s1 = defs sa ++ [df]) by (rewrite <- Es; reflexivity).
  assert (G_nb : aget nb l2 = Some nbn') by (rewrite Hl2; apply aget_aset_same).
  assert (G_rid : aget rid l2 = Some in2).
  { rewrite Hl2, aget_aset, (eqb_false rid nb) by congruence. apply aget_aset_same. }
  assert (G_n : aget n l2 = Some on2).
  { rewrite Hl2, !aget_aset, (eqb_false n nb), (eqb_false n rid), Nat.eqb_refl by congruence. reflexivity. }
  (* the contraction *)
  unfold contract_nodes, determine_parentage in H. rewrite Hn1, G_nb, G_rid, Pin2, Nat.eqb_refl in H.
  destruct (access s1 nb) as [[[s1a pn] pt]|] eqn:Ea1; [|discriminate].
  destruct (access s1a rid) as [[[s2a cn] ct]|] eqn:Ea2; [|discriminate].
  destruct (neighbour_index pn rid) as [ax|] eqn:Eax; [|discriminate].
  destruct (s_tensordot pt ct ax 0) as [nt|] eqn:Etd; [|discriminate].
  cbv zeta in H. rewrite Nat.eqb_refl in H.
  destruct (create_contracted_node _ pn cn rid true) as [nn|] eqn:Ecc; [|discriminate].
  rewrite rnin_same in H.
  destruct (replace_node_in_neighbours _ nb rid true) as [s5'|] eqn:Ern2; [|discriminate].
  injection H as H.
  destruct (access_inv _ _ _ _ _ Ea1) as (x1 & pt0 & Ex1 & Ept0 & Hpn' & Hpt & Hs1a).
  rewrite Hn1, G_nb in Ex1. injection Ex1 as <-.
  assert (Hn1a : nodes s1a = aset nb pn l2) by (rewrite Hs1a, <- Hn1; reflexivity).
  destruct (access_inv _ _ _ _ _ Ea2) as (x2 & ct0 & Ex2 & Ect0 & Hcn & Hct & Hs2a).
  rewrite Hn1a, aget_aset, (eqb_false rid nb), G_rid in Ex2 by congruence. injection Ex2 as <-.
  assert (Hn2a : nodes s2a = aset rid cn (aset nb pn l2)) by (rewrite Hs2a, <- Hn1a; reflexivity).
  assert (Ht2a : tensors s2a = aset rid ct (aset nb pt (tensors s1))) by (rewrite Hs2a, Hs1a; reflexivity).
  assert (Hr2a : root s2a = root s1) by (rewrite Hs2a, Hs1a; reflexivity).
  assert (Hd2a : defs s2a = defs s1) by (rewrite Hs2a, Hs1a; reflexivity).
  set (s3 := upd_tensors s2a _) in Ern2.
  assert (Hn3 : nodes s3 = nodes s2a) by reflexivity.
  unfold replace_node_in_neighbours in Ern2. rewrite (eqb_false nb rid) in Ern2 by congruence.
  rewrite Hn3, Hn2a, aget_aset_same in Ern2.
  assert (Pcn : parent cn = Some nb) by (rewrite Hcn; exact Pin2).
  assert (Ccn : children cn = [n]) by (rewrite Hcn; exact Cin2).
  rewrite Pcn, Ccn, Nat.eqb_refl in Ern2. cbn [fold_left] in Ern2. rewrite (eqb_false n nb) in Ern2 by congruence.
  unfold set_parent_of in Ern2.
  rewrite !aget_aset, (eqb_false n rid), (eqb_false n nb), G_n in Ern2 by congruence.
  injection Ern2 as Ern2.
  set (on2' := with_parent on2 (Some nb)) in *.
  set (L := aset n on2' (aset rid cn (aset nb pn l2))) in *.
  assert (Hn' : nodes s' = aset nb nn (adel rid L)) by (rewrite <- H, <- Ern2; reflexivity).
  assert (Ht' : tensors s' = adel rid (adel nb (tensors s2a)) ++ [(nb, nt)]) by (rewrite <- H, <- Ern2; reflexivity).
  assert (Hr' : root s' = root s2a) by (rewrite <- H, <- Ern2; reflexivity).
  assert (Hd' : defs s' = defs s2a) by (rewrite <- H, <- Ern2; reflexivity).
  destruct (ccn_struct _ _ _ _ _ _ Ecc) as [Pnn Cnn].
  (* keys *)
  assert (Knd : NoDup (akeys (nodes s))) by apply (ts_nd _ T).
  assert (Kn : In n (akeys (nodes s))) by (eapply aget_Some_keys; eauto).
  assert (Kb : In nb (akeys (nodes s))) by (eapply aget_Some_keys; eauto).
  assert (Kr : ~ In rid (akeys (nodes s))) by (apply aget_None; exact Hrid).
  assert (KL : akeys L = akeys (nodes s) ++ [rid]).
  { unfold L. rewrite Hl2, Hsa_n.
    set (X1 := aset n nd (nodes s)). set (X2 := aset n on2 X1). set (X3 := aset rid in2 X2).
    set (X4 := aset nb nbn' X3). set (X5 := aset nb pn X4). set (X6 := aset rid cn X5).
    assert (K1 : akeys X1 = akeys (nodes s)) by (apply akeys_aset_in; exact Kn).
    assert (K2 : akeys X2 = akeys (nodes s)) by (unfold X2; rewrite akeys_aset_in; [exact K1|rewrite K1; exact Kn]).
    assert (K3 : akeys X3 = akeys (nodes s) ++ [rid]) by (unfold X3; rewrite akeys_aset_notin; rewrite K2; auto).
    assert (K4 : akeys X4 = akeys (nodes s) ++ [rid])
      by (unfold X4; rewrite akeys_aset_in; [exact K3|rewrite K3; apply in_or_app; left; exact Kb]).
    assert (K5 : akeys X5 = akeys (nodes s) ++ [rid])
      by (unfold X5; rewrite akeys_aset_in; [exact K4|rewrite K4; apply in_or_app; left; exact Kb]).
    assert (K6 : akeys X6 = akeys (nodes s) ++ [rid])
      by (unfold X6; rewrite akeys_aset_in; [exact K5|rewrite K5; apply in_or_app; right; left; reflexivity]).
    rewrite akeys_aset_in; [exact K6|rewrite K6; apply in_or_app; left; exact Kn]. }
  assert (NL : NoDup (akeys L)).
  { rewrite KL. apply NoDup_app_iff. repeat split; [exact Knd|constructor; [intros []|constructor]|].
    intros x Hx [<-|[]]. contradiction. }
  (* aget in the final node dictionary *)
  assert (GL : forall k, aget k (nodes s') =
                         if Nat.eqb k nb then Some nn else if Nat.eqb k rid then None
                         else if Nat.eqb k n then Some on2' else aget k (nodes s)).
  { intros k. rewrite Hn', aget_aset. destruct (Nat.eqb_spec k nb) as [->|Hkb]; [reflexivity|].
    rewrite aget_adel by exact NL. destruct (Nat.eqb_spec k rid) as [->|Hkr]; [reflexivity|].
    unfold L. rewrite !aget_aset. destruct (Nat.eqb_spec k n) as [->|Hkn]; [reflexivity|].
    rewrite (eqb_false k rid), (eqb_false k nb) by assumption.
    rewrite Hl2, !aget_aset, (eqb_false k rid), (eqb_false k nb), (eqb_false k n) by assumption.
    rewrite Hsa_n, aget_aset, (eqb_false k n) by assumption. reflexivity. }
  assert (GT : forall k, k <> nb -> k <> rid -> aget k (tensors s') =
                         if Nat.eqb k n then Some ot else aget k (tensors s)).
  { intros k Hkb Hkr. rewrite Ht', aget_snoc_other by exact Hkb.
    rewrite !aget_adel_other by assumption. rewrite Ht2a, !aget_aset, (eqb_false k rid), (eqb_false k nb) by assumption.
    rewrite Ht1, !aget_aset, (eqb_false k rid) by assumption.
    destruct (Nat.eqb_spec k n) as [->|Hkn]; [reflexivity|].
    rewrite Hsa_t, aget_aset, (eqb_false k n) by assumption. reflexivity. }
  constructor.
  - exists on2', ot, 0. rewrite GL, (eqb_false n nb), (eqb_false n rid), Nat.eqb_refl by assumption.
    rewrite GT, Nat.eqb_refl by assumption. split; [reflexivity|]. split; [reflexivity|].
    split; [cbn; unfold qa; rewrite Hsa_a; reflexivity|].
    split; [unfold neighbour_index, on2'; cbn; rewrite Nat.eqb_refl; reflexivity|].
    split.
    { unfold on2'. cbn [with_parent perm]. rewrite Non2. cbn [ot axes]. rewrite nth_app_len. unfold b. exact Hsa_w. }
    split; [unfold on2'; cbn; symmetry; exact Hp|].
    rewrite Hp, Nat.eqb_refl. unfold on2'. cbn. exact Con2.
  - exists df. rewrite Hd', Hd2a, Hd1, Hsa_d. split; [reflexivity|]. unfold df. cbn. unfold qa, b. auto.
  - intros k Hkn Hkb. rewrite GL, (eqb_false k nb), (eqb_false k n) by assumption.
    destruct (Nat.eqb_spec k rid) as [->|]; [symmetry; exact Hrid|reflexivity].
  - intros k Hkn Hkb Hkr. rewrite GT, (eqb_false k n) by assumption. reflexivity.
  - exists nbn, nn. split; [exact Enb|]. rewrite GL, Nat.eqb_refl. split; [reflexivity|].
    rewrite Hp, Nat.eqb_refl. split.
    + rewrite Pnn, Hpn', Hnbn'. reflexivity.
    + rewrite Cnn, Ccn, Hpn', Hnbn'. cbn [reset_permutation with_children children].
      rewrite remove_replace_first by exact Hrc. reflexivity.
  - rewrite Hn'. rewrite akeys_aset_in.
    + rewrite akeys_adel, KL. apply remove_first_snoc. exact Kr.
    + rewrite akeys_adel, KL, remove_first_snoc by exact Kr. exact Kb.
  - rewrite Hr, Hr', Hr2a, Hr1. exact Hsa_r.
  - intros HT. rewrite Ht'. apply td_final; [|right; auto|exact Nbr].
    rewrite Ht2a, Ht1, Hsa_t. repeat apply NoDup_akeys_aset. exact HT.
Qed.

(* ---- case 2: the neighbour is a child of n ---------------------------------------------------------- *)
Lemma all_some_length {A} (l : list (option A)) r : all_some l = Some r -> length r = length l.
Proof.
  revert r. induction l as [|[x|] t IH]; intros r H; cbn in H; [injection H as <-; reflexivity| |discriminate].
  destruct (all_some t) as [r'|]; [|discriminate]. injection H as <-. cbn. f_equal. apply IH. reflexivity.
Qed.

Lemma move_0_0' {A} (l l' : list A) : move 0 0 l = Some l' -> l' = l.
Proof. destruct l as [|x t]; cbn; [discriminate|]. intros [= <-]. reflexivity. Qed.

Lemma oltp0_perm n pid n' : open_leg_to_parent n pid 0 = Some n' -> perm n' = perm n.
Proof.
  unfold open_leg_to_parent. destruct (negb (is_root n)); [discriminate|].
  destruct (negb (open_leg_ok n 0)); [discriminate|]. destruct (move 0 0 (perm n)) as [p|] eqn:E; [|discriminate].
  intros [= <-]. cbn. apply move_0_0' in E. exact E.
Qed.

Lemma qr_step_child s n nb m rid s' nd0 :
  tstruct (nodes s) -> aget rid (nodes s) = None ->
  aget n (nodes s) = Some nd0 -> In nb (children nd0) ->
  qr_to_neighbour s n nb m rid = Some s' -> step_effect s n nb rid s' nd0.
Proof.
  intros T Hrid E0 Hc H.
  destruct (ts_ch _ T n nd0 nb E0 Hc) as (nbn & Enb & Hpnb).
  assert (Nnb : n <> nb) by (intros ->; exact (ts_not_self_child _ _ _ T E0 Hc)).
  assert (Nnr : n <> rid) by (intros ->; congruence).
  assert (Nbr : nb <> rid) by (intros ->; congruence).
  assert (Hpn0 : parent nd0 <> Some nb) by (intros Hp; exact (ts_parent_not_child _ _ _ _ T E0 Hp Hc)).
  assert (Hco : match parent nd0 with Some p => Nat.eqb p nb | None => false end = false).
  { destruct (parent nd0) as [p|]; [|reflexivity]. apply Nat.eqb_neq. congruence. }
  assert (Hrt : negb (is_root nd0) && match parent nd0 with Some _ => false | None => true end = false).
  { unfold is_root. destruct (parent nd0); reflexivity. }
  unfold qr_to_neighbour in H. rewrite E0 in H.
  unfold build_qr_leg_specs in H. rewrite Hco in H. cbv iota beta in H.
  destruct (split_nodes _ _ _ _ _ _ _ _ _) as [s1|] eqn:Es; [|discriminate].
  unfold split_nodes in Es.
  destruct (access s n) as [[[sa nd] t]|] eqn:Ea; [|discriminate].
  match type of Es with match ?x with _ => _ end = _ => destruct x as [ol|] eqn:Eo; [|discriminate] end.
  match type of Es with match ?x with _ => _ end = _ => destruct x as [il|] eqn:Ei; [|discriminate] end.
  match type of Es with (if ?c then _ else _) = _ => destruct c eqn:Eperm; [discriminate|] end.
  match type of Es with (if ?c then _ else _) = _ => destruct c eqn:Eni; [discriminate|] end.
  match type of Es with (if ?c then _ else _) = _ => destruct c eqn:Ekeep; [discriminate|] end.
  cbv zeta in Es.
  cbn [fresh_wires fresh_atom upd_tensors upd_nodes set_root nodes tensors root dims next_wire next_atom defs atab hd
       ls_root ls_parent ls_children ls_open] in Es.
  set (b := next_wire sa) in Es. set (qa := next_atom sa) in Es.
  set (ow := permute 0 ol (axes t)) in Es. set (iw := permute 0 il (axes t)) in Es.
  set (df := Build_kdef _ _ _ _ _ _) in Es.
  set (s5 := add_def _ df) in Es.
  set (ot := {| axes := ow ++ [b]; atoms := [qa]; bnd := [] |}) in Es.
  set (it := {| axes := b :: iw; atoms := [S qa]; bnd := [] |}) in Es.
  set (on0 := new_node (map (wdim s5) (axes ot))) in Es.
  set (in0 := new_node (map (wdim s5) (axes it))) in Es.
  rewrite Nat.eqb_refl in Es. cbn [andb orb negb app] in Es. rewrite Hrt in Es.
  destruct (open_leg_to_parent in0 n 0) as [in1|] eqn:Ein1; [|discriminate].
  destruct (open_legs_to_children in1 _) as [in2|] eqn:Ein2; [|discriminate].
  match type of Es with match ?x with _ => _ end = _ => destruct x as [on1|] eqn:Eon1; [|discriminate] end.
  destruct (open_legs_to_children on1 _) as [on2|] eqn:Eon2; [|discriminate].
  destruct (replace_in_some_neighbours _ n n _) as [l1|] eqn:El1; [|discriminate].
  destruct (replace_in_some_neighbours l1 rid n _) as [l2|] eqn:El2; [|discriminate].
  injection Es as Es.
  (* the access *)
  destruct (access_inv _ _ _ _ _ Ea) as (nd0' & t0 & E0' & Et0 & Hnd & Ht & Hsa).
  rewrite E0 in E0'. injection E0' as <-.
  assert (Hsa_n : nodes sa = aset n nd (nodes s)) by (rewrite Hsa; reflexivity).
  assert (Hsa_t : tensors sa = aset n t (tensors s)) by (rewrite Hsa; reflexivity).
  assert (Hsa_r : root sa = root s) by (rewrite Hsa; reflexivity).
  assert (Hsa_w : next_wire sa = next_wire s) by (rewrite Hsa; reflexivity).
  assert (Hsa_a : next_atom sa = next_atom s) by (rewrite Hsa; reflexivity).
  assert (Hsa_d : defs sa = defs s) by (rewrite Hsa; reflexivity).
  (* the Q node *)
  set (ch' := remove_first nb (children nd0)) in *.
  set (np := nparents nd0).
  assert (Hon0 : node_wf on0) by apply new_node_wf.
  assert (Klen : nlegs on0 = S (length ow)).
  { unfold nlegs, on0. cbn [new_node perm axes ot]. rewrite seq_length, map_length, app_length. cbn. nlia. }
  assert (Hon1 : node_wf on1 /\ parent on1 = parent nd0 /\ children on1 = [] /\ perm on1 = perm on0).
  { destruct (parent nd0) as [pp|] eqn:Hpp.
    - destruct (open_leg_to_parent_wf _ _ _ _ Hon0 Eon1) as (W & P & C & _).
      split; [exact W|]. split; [exact P|]. split; [exact C|]. eapply oltp0_perm; eauto.
    - unfold is_root in Eon1. rewrite Hpp in Eon1. injection Eon1 as <-. split; [exact Hon0|]. auto. }
  destruct Hon1 as (Won1 & Pon1 & Con1 & Lon1).
  assert (Von1 : nvirt on1 = np).
  { unfold nvirt, nparents. rewrite Pon1, Con1. cbn. unfold np, nparents. lia. }
  assert (Nl1 : nlegs on1 = S (length ow)) by (unfold nlegs; rewrite Lon1; exact Klen).
  assert (Hroot_e : (if is_root nd0 then 0 else 1) = np).
  { unfold is_root, np, nparents. destruct (parent nd0); reflexivity. }
  rewrite Hroot_e, Nl1 in Eon2. replace (S (length ow) - 1) with (length ow) in Eon2 by lia.
  assert (Hol : np + length ch' <= length ow).
  { unfold ow. rewrite permute_length. unfold find_leg_values in Eo. cbn [ls_parent ls_children ls_open] in Eo.
    destruct (all_some _) as [cl|] eqn:Ecl; [|discriminate]. injection Eo as <-.
    apply all_some_length in Ecl. rewrite map_length in Ecl. rewrite !app_length, Ecl.
    unfold np, nparents. destruct (parent nd0); cbn; nlia. }
  assert (HND : NoDup (map snd ((rid, length ow) :: enum_from np ch'))).
  { cbn [map snd]. rewrite enum_from_snd. constructor; [rewrite in_seq; nlia|apply seq_NoDup]. }
  destruct (open_legs_to_children_spec on1 _ on2 Won1 HND Eon2) as (Pon2 & _ & Con2 & Lon2 & _).
  cbn [map fst] in Con2. rewrite enum_from_fst, Con1 in Con2. cbn [app] in Con2. rewrite Pon1 in Pon2.
  assert (HK : nth (length ow) (perm on1) 0 = length ow).
  { rewrite Lon1. unfold on0. cbn [new_node perm]. rewrite seq_nth; [reflexivity|].
    rewrite map_length. cbn [axes ot]. rewrite app_length. cbn. nlia. }
  assert (Non2 : nth np (perm on2) 0 = length ow).
  { rewrite Lon2, Von1. cbn [map snd]. rewrite HK.
    assert (Hfl : length (firstn np (perm on1)) = np).
    { apply firstn_length_le. fold (nlegs on1). rewrite Nl1. unfold np, nparents. destruct (parent nd0); lia. }
    rewrite app_nth2 by lia. rewrite Hfl, Nat.sub_diag. reflexivity. }
  (* the R node *)
  destruct (oltp_struct _ _ _ _ Ein1) as [Pin1 Cin1].
  destruct (olc_struct _ _ _ Ein2) as [Pin2 Cin2]. rewrite Cin1 in Cin2. cbn in Cin2. rewrite Pin1 in Pin2.
  (* the neighbours *)
  apply ris_same in El1. subst l1.
  unfold find_all_neighbour_ids in El2. cbn [ls_parent ls_children app] in El2.
  destruct (ris_single _ _ _ _ _ El2) as (nbn1 & nbn' & Enb1 & Ern & Hl2). clear El2.
  change (nodes s5) with (nodes sa) in *. change (root s5) with (root sa) in *.
  rewrite Hsa_n in Enb1. rewrite !aget_aset, !(eqb_false nb rid), !(eqb_false nb n) in Enb1 by congruence.
  rewrite Enb in Enb1. injection Enb1 as <-.
  apply (replace_neighbour_parent _ _ _ _ Hpnb) in Ern. rename Ern into Hnbn'.
  (* the store after the split *)
  assert (Hn1 : nodes s1 = l2) by (rewrite <- Es; reflexivity).
  assert (Ht1 : tensors s1 = aset rid it (aset n ot (tensors sa))) by (rewrite <- Es; reflexivity).
  assert (Hr1 : root s1 = if is_root nd0 then Some n else root sa) by (rewrite <- Es; reflexivity).
  assert (Hd1 : defs s1 = defs sa ++ [df]) by (rewrite <- Es; reflexivity).
  assert (G_nb : aget nb l2 = Some nbn') by (rewrite Hl2; apply aget_aset_same).
  assert (G_rid : aget rid l2 = Some in2).
  { rewrite Hl2, aget_aset, (eqb_false rid nb) by congruence. apply aget_aset_same. }
  assert (G_n : aget n l2 = Some on2).
  { rewrite Hl2, !aget_aset, (eqb_false n nb), (eqb_false n rid), Nat.eqb_refl by congruence. reflexivity. }
  (* the contraction *)
  unfold contract_nodes, determine_parentage in H. rewrite Hn1, G_nb, G_rid, Pin2, (eqb_false n nb) in H by congruence.
  rewrite Hnbn' in H. cbn [with_parent parent] in H. rewrite Nat.eqb_refl in H.
  destruct (access s1 rid) as [[[s1a pn] pt]|] eqn:Ea1; [|discriminate].
  destruct (access s1a nb) as [[[s2a cn] ct]|] eqn:Ea2; [|discriminate].
  destruct (neighbour_index pn nb) as [ax|] eqn:Eax; [|discriminate].
  destruct (s_tensordot pt ct ax 0) as [nt|] eqn:Etd; [|discriminate].
  cbv zeta in H. rewrite (eqb_false rid nb) in H by congruence.
  destruct (create_contracted_node _ pn cn nb false) as [nn|] eqn:Ecc; [|discriminate].
  destruct (replace_node_in_neighbours _ nb rid true) as [s4|] eqn:Ern2; [|discriminate].
  rewrite rnin_same in H.
  injection H as H.
  destruct (access_inv _ _ _ _ _ Ea1) as (x1 & pt0 & Ex1 & Ept0 & Hpn' & Hpt & Hs1a).
  rewrite Hn1, G_rid in Ex1. injection Ex1 as <-.
  assert (Hn1a : nodes s1a = aset rid pn l2) by (rewrite Hs1a, <- Hn1; reflexivity).
  destruct (access_inv _ _ _ _ _ Ea2) as (x2 & ct0 & Ex2 & Ect0 & Hcn & Hct & Hs2a).
  rewrite Hn1a, aget_aset, (eqb_false nb rid), G_nb in Ex2 by congruence. injection Ex2 as <-.
  assert (Hn2a : nodes s2a = aset nb cn (aset rid pn l2)) by (rewrite Hs2a, <- Hn1a; reflexivity).
  assert (Ht2a : tensors s2a = aset nb ct (aset rid pt (tensors s1))) by (rewrite Hs2a, Hs1a; reflexivity).
  assert (Hr2a : root s2a = root s1) by (rewrite Hs2a, Hs1a; reflexivity).
  assert (Hd2a : defs s2a = defs s1) by (rewrite Hs2a, Hs1a; reflexivity).
  set (s3 := upd_tensors s2a _) in Ern2.
  assert (Hn3 : nodes s3 = nodes s2a) by reflexivity.
  unfold replace_node_in_neighbours in Ern2. rewrite (eqb_false nb rid) in Ern2 by congruence.
  rewrite Hn3, Hn2a in Ern2. rewrite aget_aset, (eqb_false rid nb), aget_aset_same in Ern2 by congruence.
  assert (Ppn : parent pn = Some n) by (rewrite Hpn'; exact Pin2).
  assert (Cpn : children pn = [nb]) by (rewrite Hpn'; exact Cin2).
  rewrite Ppn, Cpn in Ern2. cbn [fold_left] in Ern2. rewrite Nat.eqb_refl, (eqb_false n nb) in Ern2 by congruence.
  rewrite !aget_aset, (eqb_false n rid), (eqb_false n nb), G_n in Ern2 by congruence.
  rewrite Con2 in Ern2. cbn [memb existsb] in Ern2. rewrite Nat.eqb_refl in Ern2. cbn [orb replace_first] in Ern2.
  rewrite Nat.eqb_refl in Ern2. injection Ern2 as Ern2.
  set (on2' := with_children on2 (nb :: ch')) in *.
  set (L := aset n on2' (aset nb cn (aset rid pn l2))) in *.
  assert (Hn' : nodes s' = aset nb nn (adel rid L)) by (rewrite <- H, <- Ern2; reflexivity).
  assert (Ht' : tensors s' = adel nb (adel rid (tensors s2a)) ++ [(nb, nt)]) by (rewrite <- H, <- Ern2; reflexivity).
  assert (Hr' : root s' = root s2a) by (rewrite <- H, <- Ern2; reflexivity).
  assert (Hd' : defs s' = defs s2a) by (rewrite <- H, <- Ern2; reflexivity).
  destruct (ccn_struct _ _ _ _ _ _ Ecc) as [Pnn Cnn].
  (* keys *)
  assert (Knd : NoDup (akeys (nodes s))) by apply (ts_nd _ T).
  assert (Kn : In n (akeys (nodes s))) by (eapply aget_Some_keys; eauto).
  assert (Kb : In nb (akeys (nodes s))) by (eapply aget_Some_keys; eauto).
  assert (Kr : ~ In rid (akeys (nodes s))) by (apply aget_None; exact Hrid).
  assert (KL : akeys L = akeys (nodes s) ++ [rid]).
  { unfold L. rewrite Hl2, Hsa_n.
    set (X1 := aset n nd (nodes s)). set (X2 := aset n on2 X1). set (X3 := aset rid in2 X2).
    set (X4 := aset nb nbn' X3). set (X5 := aset rid pn X4). set (X6 := aset nb cn X5).
    assert (K1 : akeys X1 = akeys (nodes s)) by (apply akeys_aset_in; exact Kn).
    assert (K2 : akeys X2 = akeys (nodes s)) by (unfold X2; rewrite akeys_aset_in; [exact K1|rewrite K1; exact Kn]).
    assert (K3 : akeys X3 = akeys (nodes s) ++ [rid]) by (unfold X3; rewrite akeys_aset_notin; rewrite K2; auto).
    assert (K4 : akeys X4 = akeys (nodes s) ++ [rid])
      by (unfold X4; rewrite akeys_aset_in; [exact K3|rewrite K3; apply in_or_app; left; exact Kb]).
    assert (K5 : akeys X5 = akeys (nodes s) ++ [rid])
      by (unfold X5; rewrite akeys_aset_in; [exact K4|rewrite K4; apply in_or_app; right; left; reflexivity]).
    assert (K6 : akeys X6 = akeys (nodes s) ++ [rid])
      by (unfold X6; rewrite akeys_aset_in; [exact K5|rewrite K5; apply in_or_app; left; exact Kb]).
    rewrite akeys_aset_in; [exact K6|rewrite K6; apply in_or_app; left; exact Kn]. }
  assert (NL : NoDup (akeys L)).
  { rewrite KL. apply NoDup_app_iff. repeat split; [exact Knd|constructor; [intros []|constructor]|].
    intros x Hx [<-|[]]. contradiction. }
  assert (GL : forall k, aget k (nodes s') =
                         if Nat.eqb k nb then Some nn else if Nat.eqb k rid then None
                         else if Nat.eqb k n then Some on2' else aget k (nodes s)).
  { intros k. rewrite Hn', aget_aset. destruct (Nat.eqb_spec k nb) as [->|Hkb]; [reflexivity|].
    rewrite aget_adel by exact NL. destruct (Nat.eqb_spec k rid) as [->|Hkr]; [reflexivity|].
    unfold L. rewrite !aget_aset. destruct (Nat.eqb_spec k n) as [->|Hkn]; [reflexivity|].
    rewrite (eqb_false k rid), (eqb_false k nb) by assumption.
    rewrite Hl2, !aget_aset, (eqb_false k rid), (eqb_false k nb), (eqb_false k n) by assumption.
    rewrite Hsa_n, aget_aset, (eqb_false k n) by assumption. reflexivity. }
  assert (GT : forall k, k <> nb -> k <> rid -> aget k (tensors s') =
                         if Nat.eqb k n then Some ot else aget k (tensors s)).
  { intros k Hkb Hkr. rewrite Ht', aget_snoc_other by exact Hkb.
    rewrite !aget_adel_other by assumption. rewrite Ht2a, !aget_aset, (eqb_false k rid), (eqb_false k nb) by assumption.
    rewrite Ht1, !aget_aset, (eqb_false k rid) by assumption.
    destruct (Nat.eqb_spec k n) as [->|Hkn]; [reflexivity|].
    rewrite Hsa_t, aget_aset, (eqb_false k n) by assumption. reflexivity. }
  constructor.
  - exists on2', ot, np. rewrite GL, (eqb_false n nb), (eqb_false n rid), Nat.eqb_refl by assumption.
    rewrite GT, Nat.eqb_refl by assumption. split; [reflexivity|]. split; [reflexivity|].
    split; [cbn; unfold qa; rewrite Hsa_a; reflexivity|].
    split.
    { unfold neighbour_index, on2'. cbn [with_children parent children index_of]. rewrite Pon2, Nat.eqb_refl.
      unfold np, nparents. destruct (parent nd0) as [pp|]; [|reflexivity].
      rewrite (eqb_false nb pp) by congruence. reflexivity. }
    split.
    { unfold on2'. cbn [with_children perm]. rewrite Non2. cbn [ot axes]. rewrite nth_app_len. unfold b. exact Hsa_w. }
    split; [unfold on2'; cbn; exact Pon2|].
    rewrite Hco. unfold on2'. reflexivity.
  - exists df. rewrite Hd', Hd2a, Hd1, Hsa_d. split; [reflexivity|]. unfold df. cbn. unfold qa, b. auto.
  - intros k Hkn Hkb. rewrite GL, (eqb_false k nb), (eqb_false k n) by assumption.
    destruct (Nat.eqb_spec k rid) as [->|]; [symmetry; exact Hrid|reflexivity].
  - intros k Hkn Hkb Hkr. rewrite GT, (eqb_false k n) by assumption. reflexivity.
  - exists nbn, nn. split; [exact Enb|]. rewrite GL, Nat.eqb_refl. split; [reflexivity|].
    rewrite Hco. split.
    + rewrite Pnn, Ppn. symmetry. exact Hpnb.
    + rewrite Cnn, Cpn, Hcn, Hnbn'. cbn. rewrite Nat.eqb_refl. apply app_nil_r.
  - rewrite Hn'. rewrite akeys_aset_in.
    + rewrite akeys_adel, KL. apply remove_first_snoc. exact Kr.
    + rewrite akeys_adel, KL, remove_first_snoc by exact Kr. exact Kb.
  - rewrite Hr', Hr2a, Hr1, Hsa_r. reflexivity.
  - intros HT. rewrite Ht'. apply td_final; [|left; auto|exact Nbr].
    rewrite Ht2a, Ht1, Hsa_t. repeat apply NoDup_akeys_aset. exact HT.
Qed.

(* a successful step goes to a neighbour *)
Lemma qr_step_neighbour s n nb m rid s' nd :
  aget n (nodes s) = Some nd -> qr_to_neighbour s n nb m rid = Some s' -> In nb (neighbouring_nodes nd).
Proof.
  intros E0 H. unfold qr_to_neighbour in H. rewrite E0 in H. unfold build_qr_leg_specs in H.
  destruct (match parent nd with Some p => Nat.eqb p nb | None => false end) eqn:Hco.
  - destruct (parent nd) as [p|] eqn:Hp; [|discriminate]. apply Nat.eqb_eq in Hco. subst p.
    apply in_neighbouring. left. exact Hp.
  - destruct (split_nodes _ _ _ _ _ _ _ _ _) as [s1|] eqn:Es; [|discriminate].
    unfold split_nodes in Es.
    destruct (access s n) as [[[sa nd1] t]|] eqn:Ea; [|discriminate].
    destruct (access_inv _ _ _ _ _ Ea) as (nd0' & t0 & E0' & _ & Hnd & _). rewrite E0 in E0'. injection E0' as <-.
    match type of Es with match ?x with _ => _ end = _ => destruct x as [ol|] eqn:Eo; [|discriminate] end.
    match type of Es with match ?x with _ => _ end = _ => destruct x as [il|] eqn:Ei; [|discriminate] end.
    unfold find_leg_values in Ei. cbn [ls_children map all_some] in Ei.
    destruct (neighbour_index nd1 nb) as [leg|] eqn:El; [|discriminate].
    rewrite Hnd in El. apply (neighbour_index_In nd nb leg).
    rewrite <- El. apply neighbour_index_ext; reflexivity.
Qed.

Theorem qr_step_effect s n nb m rid s' :
  tstruct (nodes s) -> aget rid (nodes s) = None -> qr_to_neighbour s n nb m rid = Some s' ->
  exists nd, aget n (nodes s) = Some nd /\ In nb (neighbouring_nodes nd) /\ step_effect s n nb rid s' nd.
Proof.
  intros T Hrid H. destruct (aget n (nodes s)) as [nd|] eqn:E0.
  - exists nd. pose proof (qr_step_neighbour _ _ _ _ _ _ _ E0 H) as Hin. split; [reflexivity|]. split; [exact Hin|].
    apply in_neighbouring in Hin. destruct Hin as [Hp|Hc].
    + eapply qr_step_parent; eauto.
    + eapply qr_step_child; eauto.
  - unfold qr_to_neighbour in H. rewrite E0 in H. discriminate.
Qed.
