(* Lifting to operation sequences: every operation of the model preserves the store invariant under its
   documented precondition, hence so does `run`; from the empty store the invariant holds at every state
   from the first AddRoot on. *)
From Coq Require Import List Arith Bool Lia Permutation.
From PTN Require Import TTN.Store TTN.StoreProofs TTN.Inv TTN.InvProofs TTN.InvBuild TTN.InvEdit TTN.InvContract
  TTN.InvSplit.
Import ListNotations.

(* the documented precondition of each operation (everything else is checked by the code itself) *)
Definition op_ok (s : store) (o : op) : Prop :=
  match o with
  | Contract a b new => new = a \/ new = b \/ ~ In new (akeys (nodes s))
  | Split n o i oid iid _ _ _ => spec_ok s n o i /\ ids_ok s n oid iid
  | ReplaceTensor n q p => inverse_of (match p with Some p' => p' | None => seq 0 (length q) end) q
  | _ => True
  end.

Definition op_okb (s : store) (o : op) : bool :=
  match o with
  | Contract a b new => Nat.eqb new a || Nat.eqb new b || negb (amem new (nodes s))
  | Split n o i oid iid _ _ _ => spec_okb s n o i && ids_okb s n oid iid
  | ReplaceTensor n q p => list_eqb (permute 0 (match p with Some p' => p' | None => seq 0 (length q) end) q) (seq 0 (length q))
  | _ => true
  end.

Lemma op_okb_spec s o : op_okb s o = true -> op_ok s o.
Proof.
  destruct o; cbn; auto.
  - rewrite !orb_true_iff, !Nat.eqb_eq, negb_true_iff. intros [[H|H]|H]; auto. right. right.
    intros Hin. apply amem_true in Hin. congruence.
  - rewrite andb_true_iff. intros [H1 H2]. split; [apply spec_okb_spec; exact H1|apply ids_okb_spec; exact H2].
  - intros H. apply list_eqb_eq in H. exact H.
Qed.

Theorem step_preserves_wf s o s' : wf s -> op_ok s o -> step s o = Some s' -> wf s'.
Proof.
  intros W Hok Hs. destruct o; cbn [step op_ok] in *.
  - apply (step_build_wf s (AddRoot n shp) s' W eq_refl Hs).
  - apply (step_build_wf s (AddChild c shp cleg p pleg) s' W eq_refl Hs).
  - apply (contract_preserves_wf s a b new s' W Hs Hok).
  - destruct Hok as [H1 H2]. apply (split_preserves_wf s n o i oid iid kind m rbond s' W Hs H1 H2).
  - apply (insert_identity_preserves_wf s c p new s' W Hs).
  - apply (rename_preserves_wf s new old s' W Hs).
  - apply (replace_tensor_preserves_wf s n q p s' W Hs Hok).
  - destruct (access s n) as [[[s1 nd] t]|] eqn:Ea; [|discriminate]. cbn in Hs. injection Hs as <-.
    apply (access_preserves_wf s n s1 nd t W Ea).
Qed.

Theorem step_preserves_wfb s o s' : wfb s = true -> op_okb s o = true -> step s o = Some s' -> wfb s' = true.
Proof.
  intros W Hok Hs. apply wf_wfb. apply (step_preserves_wf s o s'); [apply wfb_wf; exact W|apply op_okb_spec; exact Hok|exact Hs].
Qed.

(* the preconditions along a run: needed only for the operations the code accepts (a rejected operation
   leaves the store unchanged) *)
Fixpoint ops_ok (s : store) (ops : list op) : Prop :=
  match ops with
  | [] => True
  | o :: t => match step s o with Some s' => op_ok s o /\ ops_ok s' t | None => ops_ok s t end
  end.

Fixpoint ops_okb (s : store) (ops : list op) : bool :=
  match ops with
  | [] => true
  | o :: t => match step s o with Some s' => op_okb s o && ops_okb s' t | None => ops_okb s t end
  end.

Lemma ops_okb_spec : forall ops s, ops_okb s ops = true -> ops_ok s ops.
Proof.
  induction ops as [|o t IH]; intros s H; cbn [ops_okb ops_ok] in *; [exact I|].
  destruct (step s o) as [s'|]; [|apply IH; exact H].
  apply andb_true_iff in H. destruct H as [H1 H2]. split; [apply op_okb_spec; exact H1|apply IH; exact H2].
Qed.

Theorem run_preserves_wf : forall ops s, wf s -> ops_ok s ops -> wf (fst (run s ops)).
Proof.
  induction ops as [|o t IH]; intros s W Hok; cbn [run ops_ok] in *; [exact W|].
  destruct (step s o) as [s'|] eqn:Es.
  - destruct Hok as [Ho Ht]. specialize (IH s' (step_preserves_wf s o s' W Ho Es) Ht). destruct (run s' t). exact IH.
  - specialize (IH s W Hok). destruct (run s t). exact IH.
Qed.

(* ... and the checker accepts every intermediate state *)
Theorem run_wfb_all : forall ops s, wf s -> ops_ok s ops -> run_wfb s ops = map (fun _ => true) ops.
Proof.
  induction ops as [|o t IH]; intros s W Hok; cbn [run_wfb ops_ok map] in *; [reflexivity|].
  destruct (step s o) as [s'|] eqn:Es.
  - destruct Hok as [Ho Ht]. pose proof (step_preserves_wf s o s' W Ho Es) as W'. rewrite (wf_wfb s' W'), (IH s' W' Ht). reflexivity.
  - rewrite (wf_wfb s W), (IH s W Hok). reflexivity.
Qed.

(* on a blank store everything but AddRoot is rejected *)
Lemma step_blank s o : blank s -> is_add_root o = false -> step s o = None.
Proof.
  intros (Bn & Bt & Br & _) Ho. destruct o; cbn in Ho; try discriminate; cbn [step].
  - unfold add_child. rewrite Bn. reflexivity.
  - unfold contract_nodes, determine_parentage. rewrite Bn. reflexivity.
  - unfold split_nodes, access. rewrite Bn. reflexivity.
  - unfold insert_identity. rewrite Bn. reflexivity.
  - unfold rename, access. rewrite Bn. reflexivity.
  - unfold replace_tensor. rewrite Bn. reflexivity.
  - unfold access. rewrite Bn. reflexivity.
Qed.

(* from a blank store (e.g. the empty one): nothing happens before the first AddRoot, and the checker
   accepts every state from then on *)
Theorem run_wfb_blank : forall ops s, blank s -> ops_ok s ops -> run_wfb s ops = after_root false ops.
Proof.
  induction ops as [|o t IH]; intros s B Hok; cbn [run_wfb ops_ok after_root] in *; [reflexivity|].
  destruct (is_add_root o) eqn:Hr.
  - destruct o; try discriminate. cbn [step] in *.
    destruct (add_root_accepted s n shp) as [s' Hs]; [apply B|]. rewrite Hs in *. destruct Hok as [_ Ht].
    pose proof (add_root_wf s n shp s' B Hs) as W'. cbn [orb].
    rewrite (wf_wfb s' W'), after_root_true, (run_wfb_all t s' W' Ht). reflexivity.
  - rewrite (step_blank s o B Hr) in *. cbn [orb]. rewrite (blank_wfb s B), (IH s B Hok). reflexivity.
Qed.

Corollary run_wfb_empty ops : ops_ok empty_store ops -> run_wfb empty_store ops = after_root false ops.
Proof. apply run_wfb_blank. apply blank_empty. Qed.

Theorem run_blank_wf : forall ops s, blank s -> ops_ok s ops -> existsb is_add_root ops = true -> wf (fst (run s ops)).
Proof.
  induction ops as [|o t IH]; intros s B Hok Hex; cbn [run ops_ok existsb] in *; [discriminate|].
  destruct (is_add_root o) eqn:Hr.
  - destruct o; try discriminate. cbn [step] in *.
    destruct (add_root_accepted s n shp) as [s' Hs]; [apply B|]. rewrite Hs in *. destruct Hok as [_ Ht].
    pose proof (run_preserves_wf t s' (add_root_wf s n shp s' B Hs) Ht) as Hw. destruct (run s' t). exact Hw.
  - rewrite (step_blank s o B Hr) in *. cbn [orb] in Hex. specialize (IH s B Hok Hex). destruct (run s t). exact IH.
Qed.

Corollary run_empty_wf ops : ops_ok empty_store ops -> existsb is_add_root ops = true -> wf (fst (run empty_store ops)).
Proof. apply run_blank_wf. apply blank_empty. Qed.

(* boolean form, directly usable on concrete sequences *)
Corollary run_wfb_empty_b ops : ops_okb empty_store ops = true -> run_wfb empty_store ops = after_root false ops.
Proof. intros H. apply run_wfb_empty. apply ops_okb_spec. exact H. Qed.

(* non-vacuity: the example run of Props/C02.v satisfies the preconditions *)
Example ops_okb_C02_example :
  ops_okb empty_store [AddRoot 0 [2; 3; 2]; AddChild 1 [2; 2] 1 0 0; AddChild 2 [3; 2] 0 0 1;
                       Contract 1 0 1;
                       Split 1 {| ls_parent := None; ls_children := [2]; ls_open := [1]; ls_root := true |}
                               {| ls_parent := None; ls_children := []; ls_open := [2]; ls_root := false |} 1 7 0 Reduced 0]
  = true.
Proof. vm_compute. reflexivity. Qed.
