(* Proofs about TTN/InvSem.v, part 6: lifting to operation sequences.
   - every operation preserves the extended invariant under its documented precondition, hence so does
     run; from the empty store the checker wfsb accepts every state from the first AddRoot on;
   - every editing operation (everything but the two constructors) preserves the value of the whole
     network at every wire assignment, under the kernel contracts of the splits and inserted identities;
     hence so does every sequence of editing operations;
   - the value of the network depends only on the indices given to the open wires. *)
From Coq Require Import List Arith Bool Lia Permutation.
From PTN Require Import TTN.Store TTN.StoreProofs TTN.Inv TTN.InvProofs TTN.InvNode TTN.InvContract TTN.InvEdit
  TTN.InvBuild TTN.InvSplit TTN.InvRun TTN.InvWires Wire.Sem Wire.SemProofs Wire.SemEntryProofs
  TTN.InvSem TTN.InvSemProofs TTN.InvSemWfs TTN.InvSemValue TTN.InvSemOps TTN.InvSemEye.
Import ListNotations.

(* ---- the invariant along a run ------------------------------------------------------------------------------------ *)
Theorem step_preserves_wfs s o s' : wfs s -> op_ok s o -> step s o = Some s' -> wfs s'.
Proof.
  intros WS Hok Hs. pose proof (ws_wf s WS) as W. destruct o; cbn [step op_ok] in *.
  - exfalso. rewrite (add_root_rejected s n shp (wf_root_some s W)) in Hs. discriminate.
  - apply (add_child_preserves_wfs s c shp cleg p pleg s' WS Hs).
  - apply (contract_preserves_wfs s a b new s' WS Hs Hok).
  - destruct Hok as [H1 H2]. apply (split_preserves_wfs s n o i oid iid kind m rbond s' WS Hs H1 H2).
  - apply (insert_identity_preserves_wfs s c p new s' WS Hs).
  - apply (rename_preserves_wfs s new old s' WS Hs).
  - apply (replace_tensor_preserves_wfs s n q p s' WS Hs Hok).
  - destruct (access s n) as [[[s1 nd] t]|] eqn:Ea; [|discriminate]. cbn in Hs. injection Hs as <-.
    apply (access_preserves_wfs s n s1 nd t WS Ea).
Qed.

Theorem step_preserves_wfsb s o s' : wfsb s = true -> op_okb s o = true -> step s o = Some s' -> wfsb s' = true.
Proof.
  intros W Hok Hs. apply wfs_wfsb. apply (step_preserves_wfs s o s'); [apply wfsb_wfs; exact W|apply op_okb_spec; exact Hok|exact Hs].
Qed.

Theorem run_preserves_wfs : forall ops s, wfs s -> ops_ok s ops -> wfs (fst (run s ops)).
Proof.
  induction ops as [|o t IH]; intros s W Hok; cbn [run ops_ok] in *; [exact W|].
  destruct (step s o) as [s'|] eqn:Es.
  - destruct Hok as [Ho Ht]. specialize (IH s' (step_preserves_wfs s o s' W Ho Es) Ht). destruct (run s' t). exact IH.
  - specialize (IH s W Hok). destruct (run s t). exact IH.
Qed.

Theorem run_wfsb_all : forall ops s, wfs s -> ops_ok s ops -> run_wfsb s ops = map (fun _ => true) ops.
Proof.
  induction ops as [|o t IH]; intros s W Hok; cbn [run_wfsb ops_ok map] in *; [reflexivity|].
  destruct (step s o) as [s'|] eqn:Es.
  - destruct Hok as [Ho Ht]. pose proof (step_preserves_wfs s o s' W Ho Es) as W'. rewrite (wfs_wfsb s' W'), (IH s' W' Ht). reflexivity.
  - rewrite (wfs_wfsb s W), (IH s W Hok). reflexivity.
Qed.

Lemma blank_wfsb s : blank s -> wfsb s = false.
Proof. intros B. unfold wfsb. rewrite (blank_wfb s B). reflexivity. Qed.

(* from a blank store with a clean atom table (e.g. the empty one): nothing happens before the first
   AddRoot, and the checker accepts every state from then on *)
Theorem run_wfsb_blank : forall ops s, blank_s s -> ops_ok s ops -> run_wfsb s ops = after_root false ops.
Proof.
  induction ops as [|o t IH]; intros s B Hok; cbn [run_wfsb ops_ok after_root] in *; [reflexivity|].
  destruct (is_add_root o) eqn:Hr.
  - destruct o; try discriminate. cbn [step] in *.
    destruct (add_root_accepted s n shp) as [s' Hs]; [apply B|]. rewrite Hs in *. destruct Hok as [_ Ht].
    pose proof (add_root_wfs s n shp s' B Hs) as W'. cbn [orb].
    rewrite (wfs_wfsb s' W'), after_root_true, (run_wfsb_all t s' W' Ht). reflexivity.
  - rewrite (step_blank s o (proj1 B) Hr) in *. cbn [orb]. rewrite (blank_wfsb s (proj1 B)), (IH s B Hok). reflexivity.
Qed.

Corollary run_wfsb_empty ops : ops_ok empty_store ops -> run_wfsb empty_store ops = after_root false ops.
Proof. apply run_wfsb_blank. apply blank_s_empty. Qed.

Corollary run_wfsb_empty_b ops : ops_okb empty_store ops = true -> run_wfsb empty_store ops = after_root false ops.
Proof. intros H. apply run_wfsb_empty. apply ops_okb_spec. exact H. Qed.

Theorem run_blank_wfs : forall ops s, blank_s s -> ops_ok s ops -> existsb is_add_root ops = true -> wfs (fst (run s ops)).
Proof.
  induction ops as [|o t IH]; intros s B Hok Hex; cbn [run ops_ok existsb] in *; [discriminate|].
  destruct (is_add_root o) eqn:Hr.
  - destruct o; try discriminate. cbn [step] in *.
    destruct (add_root_accepted s n shp) as [s' Hs]; [apply B|]. rewrite Hs in *. destruct Hok as [_ Ht].
    pose proof (run_preserves_wfs t s' (add_root_wfs s n shp s' B Hs) Ht) as Hw. destruct (run s' t). exact Hw.
  - rewrite (step_blank s o (proj1 B) Hr) in *. cbn [orb] in Hex. specialize (IH s B Hok Hex). destruct (run s t). exact IH.
Qed.

Corollary run_empty_wfs ops : ops_ok empty_store ops -> existsb is_add_root ops = true -> wfs (fst (run empty_store ops)).
Proof. apply run_blank_wfs. apply blank_s_empty. Qed.

(* ---- the value of the network along a run of editing operations ----------------------------------------------------- *)
Section RunValue.
  Variable R : Type.
  Variables (zero one : R) (add mul : R -> R -> R).
  Hypothesis SR : comm_semiring zero one add mul.
  Variable tbl : nat -> list nat -> R.

  Local Notation net_value := (net_value zero one add mul).

  (* the kernel contract of one step *)
  Definition step_contract (s : store) (o : op) (s' : store) : Prop :=
    match o with
    | Split _ _ _ _ _ _ _ _ => def_holds zero one add mul s' tbl (last (defs s') dflt_def)
    | InsertIdentity _ _ _ => eye_atom zero one tbl (next_atom s)
    | _ => True
    end.

  Theorem step_net_value s o s' :
    wfs s -> op_ok s o -> is_edit_op o = true -> step s o = Some s' -> step_contract s o s' ->
    Permutation (open_wires s') (open_wires s) /\ forall rho, net_value s' tbl rho = net_value s tbl rho.
  Proof.
    intros WS Hok He Hs Hc. pose proof (ws_wf s WS) as W. destruct o; cbn [step op_ok is_edit_op step_contract] in *; try discriminate.
    - exfalso. rewrite (add_root_rejected s n shp (wf_root_some s W)) in Hs. discriminate.
    - apply (contract_net_value R zero one add mul SR tbl s a b new s' W Hs Hok).
    - destruct Hok as [H1 H2]. apply (split_net_value R zero one add mul SR tbl s n o i oid iid kind m rbond s' WS Hs H1 H2 Hc).
    - destruct (insert_identity_net_value R zero one add mul SR tbl s c p new s' WS Hs Hc) as [E V]. rewrite E. split; [reflexivity|exact V].
    - apply (rename_net_value R zero one add mul SR tbl s new old s' W Hs).
    - destruct (replace_tensor_net_value R zero one add mul SR tbl s n q p s' W Hs Hok) as [E V]. rewrite E. split; [reflexivity|exact V].
    - destruct (access s n) as [[[s1 nd] t]|] eqn:Ea; [|discriminate]. cbn in Hs. injection Hs as <-.
      destruct (access_net_value R zero one add mul SR tbl s n s1 nd t W Ea) as [E V]. rewrite E. split; [reflexivity|exact V].
  Qed.

  Lemma contracts_hold_cons s o t :
    contracts_hold zero one add mul tbl s (o :: t) =
    match step s o with
    | Some s' => step_contract s o s' /\ contracts_hold zero one add mul tbl s' t
    | None => contracts_hold zero one add mul tbl s t
    end.
  Proof. cbn [contracts_hold]. destruct (step s o); [|reflexivity]. destruct o; reflexivity. Qed.

  (* any sequence of editing operations (rejected ones leave the store unchanged): the set of open wires
     and the value of the network at every wire assignment are those of the initial network *)
  Theorem run_net_value : forall ops s,
    wfs s -> ops_ok s ops -> forallb is_edit_op ops = true -> contracts_hold zero one add mul tbl s ops ->
    wfs (fst (run s ops)) /\
    Permutation (open_wires (fst (run s ops))) (open_wires s) /\
    forall rho, net_value (fst (run s ops)) tbl rho = net_value s tbl rho.
  Proof.
    induction ops as [|o t IH]; intros s WS Hok He Hc.
    - cbn. split; [exact WS|]. split; reflexivity.
    - rewrite contracts_hold_cons in Hc. cbn [run ops_ok forallb] in *. apply andb_true_iff in He. destruct He as [He1 He2].
      destruct (step s o) as [s'|] eqn:Es.
      + destruct Hok as [Ho Ht]. destruct Hc as [Hc1 Hc2].
        pose proof (step_preserves_wfs s o s' WS Ho Es) as WS'.
        destruct (step_net_value s o s' WS Ho He1 Es Hc1) as [P1 V1].
        specialize (IH s' WS' Ht He2 Hc2). destruct (run s' t) as [sf oks]. cbn [fst] in *.
        destruct IH as (WSf & P2 & V2). split; [exact WSf|]. split; [rewrite P2; exact P1|].
        intros rho. rewrite V2. apply V1.
      + specialize (IH s WS Hok He2 Hc). destruct (run s t) as [sf oks]. exact IH.
  Qed.

  (* the whole network is a closed diagram: its value depends only on the indices of the open wires *)
  Theorem net_diagram_closed s : wfs s -> closedd (atom_wires s) (net_diagram s).
  Proof.
    intros WS. pose proof (ws_wf s WS) as W.
    intros a Ha x Hx. cbn [atoms axes bnd net_diagram] in *.
    unfold total_atoms in Ha. apply in_flat_map in Ha. destruct Ha as ([k t] & Hk & Hak). cbn [snd] in Hak.
    pose proof (In_aget _ _ _ (wf_tnd s W) Hk) as Et.
    destruct (ws_closed s WS k t Et a Hak x Hx) as [Hax|Hbn].
    - assert (Hin : In x (total_axes s)) by (apply (total_axes_In' s k t x Hk Hax)).
      rewrite (total_axes_all_lax s W), (wf_all_lax_perm s W), own_wires_split, <- (edge_wires_ew s W) in Hin.
      unfold net_bnd. rewrite !in_app_iff in *. tauto.
    - right. unfold net_bnd. apply in_or_app. left. apply (total_bnd_In s k t x Hk Hbn).
  Qed.

  Theorem net_value_supp s r r' :
    wfs s -> (forall x, In x (open_wires s) -> r x = r' x) -> net_value s tbl r = net_value s tbl r'.
  Proof.
    intros WS E. unfold InvSem.net_value, value_s.
    apply (value_supp R zero one add mul (atom_wires s) (wdim s) tbl (net_diagram s) r r' (net_diagram_closed s WS) E).
  Qed.

  (* entries of the denoted tensor *)
  Local Notation net_entry := (net_entry zero one add mul).

  Lemma net_entry_value s rho0 idx : net_entry s tbl rho0 idx = net_value s tbl (assign rho0 (open_wires s) idx).
  Proof. reflexivity. Qed.

  (* a full multi-index determines the entry: the background assignment is irrelevant *)
  Theorem net_entry_rho0_irrelevant s rho0 rho0' idx :
    wfs s -> length idx = length (open_wires s) -> net_entry s tbl rho0 idx = net_entry s tbl rho0' idx.
  Proof.
    intros WS L. apply (entry_rho0_irrelevant R zero one add mul (atom_wires s) (wdim s) tbl (net_diagram s) rho0 rho0' idx
                          (net_diagram_closed s WS) L).
  Qed.

  (* two networks with the same value denote the same tensor: entries agree whenever the two multi-indices
     put the same index on every open wire *)
  Theorem net_entry_eq s s' rho0 idx idx' :
    wfs s -> (forall rho, net_value s' tbl rho = net_value s tbl rho) ->
    (forall x, In x (open_wires s) -> assign rho0 (open_wires s') idx' x = assign rho0 (open_wires s) idx x) ->
    net_entry s' tbl rho0 idx' = net_entry s tbl rho0 idx.
  Proof. intros WS V E. rewrite !net_entry_value, V. apply (net_value_supp s _ _ WS E). Qed.

  Corollary run_net_entry ops s rho0 idx idx' :
    wfs s -> ops_ok s ops -> forallb is_edit_op ops = true -> contracts_hold zero one add mul tbl s ops ->
    (forall x, In x (open_wires s) -> assign rho0 (open_wires (fst (run s ops))) idx' x = assign rho0 (open_wires s) idx x) ->
    net_entry (fst (run s ops)) tbl rho0 idx' = net_entry s tbl rho0 idx.
  Proof.
    intros WS Hok He Hc E. destruct (run_net_value ops s WS Hok He Hc) as (_ & _ & V). apply (net_entry_eq s _ rho0 idx idx' WS V E).
  Qed.
End RunValue.

(* non-vacuity: the example run of Props/C02.v, continued with an inserted identity, a rename and two
   contractions, keeps the extended checker true at every state *)
Example wfsb_C02_example :
  run_wfsb empty_store [AddRoot 0 [2; 3; 2]; AddChild 1 [2; 2] 1 0 0; AddChild 2 [3; 2] 0 0 1;
                        Contract 1 0 1;
                        Split 1 {| ls_parent := None; ls_children := [2]; ls_open := [1]; ls_root := true |}
                                {| ls_parent := None; ls_children := []; ls_open := [2]; ls_root := false |} 1 7 0 Reduced 0;
                        InsertIdentity 7 1 9; Rename 5 7; Access 5; Contract 9 5 9; Contract 1 9 3]
  = [true; true; true; true; true; true; true; true; true; true].
Proof. vm_compute. reflexivity. Qed.

(* ---- non-vacuity of the kernel contracts ------------------------------------------------------------------------------ *)
(* a 2x2 root tensor A (zero outside its index range), split into Q = A and R = identity over a bond of
   dimension 2, then renamed and contracted back: the preconditions and the contract hypothesis of
   run_net_value hold, so the final one-node network denotes the initial one *)
From PTN Require Import Wire.SemInst.

Definition exv_s0 : store := fst (run empty_store [AddRoot 0 [2; 2]]).
Definition exv_ops : list op :=
  [Split 0 {| ls_parent := None; ls_children := []; ls_open := [0]; ls_root := true |}
           {| ls_parent := None; ls_children := []; ls_open := [1]; ls_root := false |} 1 2 2 Reduced 2;
   Rename 5 1; Contract 2 5 7].
Definition exv_A (i j : nat) : nat := if Nat.ltb i 2 && Nat.ltb j 2 then 1 + i + 2 * j else 0.
Definition exv_tbl (a : nat) (idx : list nat) : nat :=
  match a, idx with
  | 0, [i; j] => exv_A i j
  | 1, [i; k] => exv_A i k
  | 2, [k; j] => if Nat.eqb k j && Nat.ltb j 2 then 1 else 0
  | _, _ => 0
  end.

Example exv_hyps :
  wfsb exv_s0 = true /\ ops_okb exv_s0 exv_ops = true /\ forallb is_edit_op exv_ops = true /\
  snd (run exv_s0 exv_ops) = [true; true; true] /\
  contracts_hold 0 1 Nat.add Nat.mul exv_tbl exv_s0 exv_ops.
Proof.
  split; [vm_compute; reflexivity|]. split; [vm_compute; reflexivity|]. split; [reflexivity|]. split; [vm_compute; reflexivity|].
  assert (E : step exv_s0 (hd (Access 0) exv_ops) <> None) by (vm_compute; discriminate).
  unfold exv_ops in *. rewrite contracts_hold_cons. cbn [hd] in *. destruct (step exv_s0 _) as [s1|] eqn:Es; [clear E|congruence].
  vm_compute in Es. injection Es as <-.
  split.
  - intros rho. cbn -[exv_tbl Nat.add Nat.mul]. unfold atom_val, atom_wires. cbn -[exv_tbl Nat.add Nat.mul]. unfold upd. cbn -[exv_tbl Nat.add Nat.mul].
    unfold exv_tbl, exv_A. destruct (rho 0) as [|[|i]]; destruct (rho 1) as [|[|j]]; reflexivity.
  - rewrite contracts_hold_cons.
    match goal with |- match ?X with _ => _ end => let v := eval vm_compute in X in change X with v end.
    cbv iota. split; [exact I|]. rewrite contracts_hold_cons.
    match goal with |- match ?X with _ => _ end => let v := eval vm_compute in X in change X with v end.
    cbv iota. split; exact I.
Qed.

Example exv_conclusion : forall rho,
  net_value 0 1 Nat.add Nat.mul (fst (run exv_s0 exv_ops)) exv_tbl rho = net_value 0 1 Nat.add Nat.mul exv_s0 exv_tbl rho.
Proof.
  destruct exv_hyps as (H1 & H2 & H3 & _ & H5).
  apply (run_net_value nat 0 1 Nat.add Nat.mul nat_csr exv_tbl exv_ops exv_s0 (wfsb_wfs _ H1) (ops_okb_spec _ _ H2) H3 H5).
Qed.
