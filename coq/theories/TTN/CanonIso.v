(* canonical_form establishes the isometry attribute checked by iso_check, on every tree. *)
From Coq Require Import List Arith Bool Lia Permutation Sorted.
From PTN Require Import TTN.Store TTN.StoreProofs TTN.Canon TTN.CanonProofs TTN.Inv TTN.InvProofs TTN.InvNode
  TTN.CanonTree TTN.CanonMore TTN.CanonStep TTN.CanonDist TTN.CanonPath.
Import ListNotations.

(* ---- consequences of one step for the tree -------------------------------------------------------- *)
Lemma length_akeys {V} (l : list (nat * V)) : length (akeys l) = length l.
Proof. apply map_length. Qed.

Lemma step_same_tree s n nb rid s' nd :
  tstruct (nodes s) -> aget n (nodes s) = Some nd -> In nb (neighbouring_nodes nd) ->
  step_effect s n nb rid s' nd ->
  same_tree (nodes s) (nodes s') /\ tstruct (nodes s').
Proof.
  intros T E0 Hin SE.
  assert (S : same_tree (nodes s) (nodes s')).
  { split.
    - transitivity (length (akeys (nodes s))); [symmetry; apply length_akeys|].
      rewrite <- (se_keys _ _ _ _ _ _ SE). apply length_akeys.
    - intros k. destruct (Nat.eq_dec k n) as [->|Hkn].
      + destruct (se_node _ _ _ _ _ _ SE) as (nd' & t' & leg & En' & _ & _ & _ & _ & Hp & Hc).
        rewrite E0, En'. split; [symmetry; exact Hp|]. rewrite Hc.
        destruct (match parent nd with Some p => Nat.eqb p nb | None => false end) eqn:Hco; [reflexivity|].
        apply remove_first_perm. apply in_neighbouring in Hin. destruct Hin as [Hpn|Hcn]; [|exact Hcn].
        rewrite Hpn, Nat.eqb_refl in Hco. discriminate.
      + destruct (Nat.eq_dec k nb) as [->|Hkb].
        * destruct (se_nb _ _ _ _ _ _ SE) as (nbn & nbn' & Eb & Eb' & Hp & Hc).
          rewrite Eb, Eb'. split; [symmetry; exact Hp|]. rewrite Hc.
          destruct (match parent nd with Some p => Nat.eqb p nb | None => false end) eqn:Hco; [|reflexivity].
          destruct (parent nd) as [p|] eqn:Hpn; [|discriminate]. apply Nat.eqb_eq in Hco. subst p.
          destruct (ts_par _ T _ _ _ E0 Hpn) as (pn & Epn & Hnin). rewrite Eb in Epn. injection Epn as <-.
          rewrite (remove_first_perm n (children nbn) Hnin) at 1. apply Permutation_cons_append.
        * rewrite (se_other_n _ _ _ _ _ _ SE k Hkn Hkb). destruct (aget k (nodes s)); auto. }
  split; [exact S|]. apply (tstruct_same_tree _ _ T S). rewrite (se_keys _ _ _ _ _ _ SE). apply (ts_nd _ T).
Qed.

(* ---- the sweep order --------------------------------------------------------------------------------- *)
Definition level (d : list (id * nat)) (v : nat) : list id := map fst (filter (fun kv => Nat.eqb (snd kv) v) d).
Definition sweep_order (d : list (id * nat)) : list id :=
  flat_map (level d) (rev (seq 1 (fold_right Nat.max 0 (map snd d)))).

Lemma in_level d v k : In k (level d v) <-> In (k, v) d.
Proof.
  unfold level. rewrite in_map_iff. split.
  - intros ([k' v'] & <- & H). apply filter_In in H. destruct H as [H1 H2]. cbn in *. apply Nat.eqb_eq in H2. subst. exact H1.
  - intros H. exists (k, v). split; [reflexivity|]. apply filter_In. split; [exact H|]. cbn. apply Nat.eqb_refl.
Qed.

Lemma in_d_dget d k v : NoDup (map fst d) -> In (k, v) d -> dget d k = v.
Proof. intros Hnd Hin. unfold dget. rewrite (In_aget _ _ _ Hnd Hin). reflexivity. Qed.

Lemma NoDup_map_fst_filter {A B} (f : A * B -> bool) l : NoDup (map fst l) -> NoDup (map fst (filter f l)).
Proof.
  induction l as [|x t IH]; cbn; [constructor|]. intros H. inversion H as [|? ? Hni Hnd]; subst.
  destruct (f x); cbn; [|apply IH; exact Hnd]. constructor; [|apply IH; exact Hnd].
  intros Hin. apply Hni. apply in_map_iff in Hin. destruct Hin as (y & Ey & Hy). apply filter_In in Hy.
  apply in_map_iff. exists y. tauto.
Qed.

Lemma le_fold_max v l : In v l -> v <= fold_right Nat.max 0 l.
Proof. induction l as [|x t IH]; [intros []|]. intros [->|H]; cbn; [lia|]. specialize (IH H). lia. Qed.

Lemma in_sweep_order d k : In k (sweep_order d) <-> exists v, 1 <= v /\ In (k, v) d.
Proof.
  unfold sweep_order. rewrite in_flat_map. split.
  - intros (v & Hv & Hk). apply in_rev, in_seq in Hv. apply in_level in Hk. exists v. split; [lia|exact Hk].
  - intros (v & Hv & Hk). exists v. split; [|apply in_level; exact Hk]. apply -> in_rev. apply in_seq.
    assert (v <= fold_right Nat.max 0 (map snd d)).
    { apply le_fold_max. apply in_map_iff. exists (k, v). auto. }
    lia.
Qed.

Lemma NoDup_sweep_order d : NoDup (map fst d) -> NoDup (sweep_order d).
Proof.
  intros Hnd. unfold sweep_order. apply NoDup_flat_map_disj.
  - apply NoDup_rev. apply seq_NoDup.
  - intros v _. apply NoDup_map_fst_filter. exact Hnd.
  - intros a b z _ _ Ha Hb. apply in_level in Ha, Hb.
    rewrite <- (in_d_dget d z a Hnd Ha). apply (in_d_dget d z b Hnd Hb).
Qed.

(* farthest first *)
Definition farther (d : list (id * nat)) (a b : id) : Prop := dget d b <= dget d a.

Lemma ss_app {A} (R : A -> A -> Prop) l1 l2 :
  StronglySorted R l1 -> StronglySorted R l2 -> (forall a b, In a l1 -> In b l2 -> R a b) -> StronglySorted R (l1 ++ l2).
Proof.
  induction l1 as [|x t IH]; cbn; intros H1 H2 H3; [exact H2|].
  inversion H1 as [|? ? Ht Hx]; subst. constructor.
  - apply IH; auto.
  - apply Forall_app. split; [exact Hx|]. apply Forall_forall. intros b Hb. apply H3; auto.
Qed.

Lemma ss_const {A} (R : A -> A -> Prop) l : (forall a b, In a l -> In b l -> R a b) -> StronglySorted R l.
Proof.
  induction l as [|x t IH]; intros H; constructor.
  - apply IH. intros a b Ha Hb. apply H; right; assumption.
  - apply Forall_forall. intros b Hb. apply H; [left; reflexivity|right; exact Hb].
Qed.

Lemma sorted_flat_levels d L : NoDup (map fst d) -> StronglySorted gt L ->
  StronglySorted (farther d) (flat_map (level d) L).
Proof.
  intros Hnd. induction L as [|v L IH]; intros HL; cbn; [constructor|].
  inversion HL as [|? ? HL' Hv]; subst. apply ss_app.
  - apply ss_const. intros a b Ha Hb. apply in_level in Ha, Hb. unfold farther.
    rewrite (in_d_dget d a v Hnd Ha), (in_d_dget d b v Hnd Hb). lia.
  - apply IH. exact HL'.
  - intros a b Ha Hb. apply in_flat_map in Hb. destruct Hb as (w & Hw & Hb). apply in_level in Ha, Hb.
    unfold farther. rewrite (in_d_dget d a v Hnd Ha), (in_d_dget d b w Hnd Hb).
    rewrite Forall_forall in Hv. specialize (Hv w Hw). lia.
Qed.

Lemma ss_rev_seq a m : StronglySorted gt (rev (seq a m)).
Proof.
  induction m as [|m IH]; [constructor|]. rewrite seq_S, rev_app_distr. cbn [rev app]. constructor; [exact IH|].
  apply Forall_forall. intros x Hx. apply in_rev, in_seq in Hx. lia.
Qed.

Lemma sorted_sweep_order d : NoDup (map fst d) -> StronglySorted (farther d) (sweep_order d).
Proof. intros H. apply sorted_flat_levels; [exact H|apply ss_rev_seq]. Qed.

(* ---- the sweep as a fold ------------------------------------------------------------------------------ *)
Definition canon_step (d : list (id * nat)) (m : mode) (rid : id) (acc : option store) (n : id) : option store :=
  match acc with
  | None => None
  | Some s' => match aget n (nodes s') with
               | None => None
               | Some nd => match first_min d (neighbouring_nodes nd) None with
                            | Some nb => qr_to_neighbour s' n nb m rid
                            | None => None
                            end
               end
  end.

Lemma canon_fold_none d m rid l : fold_left (canon_step d m rid) l None = None.
Proof. induction l as [|x t IH]; cbn; [reflexivity|exact IH]. Qed.

Lemma canonical_form_unfold cs c m rid : canonical_form cs c m rid =
  if negb (amem c (nodes (fst cs))) then None else
  match fold_left (canon_step (distance_to_node (fst cs) c) m rid)
                  (sweep_order (distance_to_node (fst cs) c)) (Some (fst cs)) with
  | Some s' => Some (s', Some c)
  | None => None
  end.
Proof. reflexivity. Qed.

(* node k is a single Q atom of a QR kernel call whose bond wire sits on k's leg toward the
   neighbour that is one step closer to the centre (w.r.t. the distance table d) *)
Definition good (d : list (id * nat)) (s : store) (k : id) : Prop :=
  exists nd t a leg nb df,
    aget k (nodes s) = Some nd /\ aget k (tensors s) = Some t /\ atoms t = [a] /\
    In nb (neighbouring_nodes nd) /\ S (dget d nb) = dget d k /\ neighbour_index nd nb = Some leg /\
    In df (defs s) /\ kq df = a /\ kkind df = 0 /\ kbond df = nth (nth leg (perm nd) 0) (axes t) 0.

Lemma good_preserved d s s' n nb rid nd k :
  step_effect s n nb rid s' nd -> aget rid (nodes s) = None -> good d s k -> k <> n -> k <> nb -> good d s' k.
Proof.
  intros SE Hrid (ndk & t & a & leg & x & df & G1 & G2 & G3 & G4 & G5 & G6 & G7 & G8) Hkn Hkb.
  assert (Hkr : k <> rid) by (intros ->; congruence).
  destruct (se_defs _ _ _ _ _ _ SE) as (df' & Hd & _).
  exists ndk, t, a, leg, x, df. rewrite (se_other_n _ _ _ _ _ _ SE k Hkn Hkb), (se_other_t _ _ _ _ _ _ SE k Hkn Hkb Hkr).
  repeat split; try tauto. rewrite Hd. apply in_or_app. left. tauto.
Qed.

Lemma good_new d s s' n nb rid nd :
  step_effect s n nb rid s' nd -> S (dget d nb) = dget d n -> good d s' n.
Proof.
  intros SE Hd. destruct (se_node _ _ _ _ _ _ SE) as (nd' & t' & leg & E1 & E2 & E3 & E4 & E5 & _).
  destruct (se_defs _ _ _ _ _ _ SE) as (df & Hdf & K1 & K2 & K3).
  exists nd', t', (next_atom s), leg, nb, df. repeat split; auto.
  - eapply neighbour_index_In; eauto.
  - rewrite Hdf. apply in_or_app. right. left. reflexivity.
  - rewrite E5. exact K3.
Qed.

Section Sweep.
  Variables (s0 : store) (c : id) (m : mode) (rid : id).
  Hypothesis T0 : tstruct (nodes s0).
  Hypothesis Hc : amem c (nodes s0) = true.
  Let d := distance_to_node s0 c.

  (* on any store with the same tree, min(..., key=distance.get) picks the unique closer neighbour *)
  Lemma choose_closer s k nd : same_tree (nodes s0) (nodes s) -> aget k (nodes s) = Some nd -> k <> c ->
    exists nb, first_min d (neighbouring_nodes nd) None = Some nb /\ In nb (neighbouring_nodes nd) /\
               S (dget d nb) = dget d k.
  Proof.
    intros S E Hk. destruct (same_tree_some _ _ _ _ (same_tree_sym _ _ S) E) as (nd0 & E0 & _).
    pose proof (same_tree_neighbours _ _ _ _ _ S E0 E) as Hperm.
    destruct (dist_step s0 c k nd0 T0 Hc E0 Hk) as (nb & Hin & Hd & Hoth). fold d in Hd, Hoth.
    exists nb. split; [|split; [apply (Permutation_in _ Hperm Hin)|exact Hd]].
    apply first_min_unique; [apply (Permutation_in _ Hperm Hin)|].
    intros y Hy Hne. rewrite (Hoth y (Permutation_in _ (Permutation_sym Hperm) Hy) Hne). lia.
  Qed.

  Lemma sweep : forall todo done s sf,
    tstruct (nodes s) -> same_tree (nodes s0) (nodes s) -> aget rid (nodes s) = None ->
    (forall k, In k done -> good d s k) ->
    StronglySorted (farther d) todo -> NoDup todo ->
    (forall n, In n todo -> n <> c) ->
    (forall k n, In k done -> In n todo -> k <> n /\ dget d n <= dget d k) ->
    fold_left (canon_step d m rid) todo (Some s) = Some sf ->
    tstruct (nodes sf) /\ same_tree (nodes s0) (nodes sf) /\ aget rid (nodes sf) = None /\
    forall k, In k (done ++ todo) -> good d sf k.
  Proof.
    induction todo as [|n todo IH]; intros done s sf T S Hrid Hgood Hss Hnd Hnc Hsep Hf.
    - cbn in Hf. injection Hf as <-. rewrite app_nil_r. auto.
    - cbn [fold_left] in Hf.
      destruct (canon_step d m rid (Some s) n) as [s1|] eqn:E1; [|rewrite canon_fold_none in Hf; discriminate].
      cbn [canon_step] in E1. destruct (aget n (nodes s)) as [nd|] eqn:En; [|discriminate].
      destruct (choose_closer s n nd S En (Hnc n (or_introl eq_refl))) as (nb & Hfm & Hin & Hd).
      rewrite Hfm in E1.
      destruct (qr_step_effect _ _ _ _ _ _ T Hrid E1) as (nd' & En' & _ & SE).
      rewrite En in En'. injection En' as <-.
      destruct (step_same_tree _ _ _ _ _ _ T En Hin SE) as [S1 T1].
      destruct (ts_neighbour_sym _ _ _ _ T En Hin) as (nbn & Enb & _ & Hnbn).
      assert (Hrn : rid <> n) by (intros ->; congruence).
      assert (Hrb : rid <> nb) by (intros ->; congruence).
      inversion Hss as [|? ? Hss' Hfar]; subst. inversion Hnd as [|? ? Hni Hnd']; subst.
      specialize (IH (done ++ [n]) s1 sf T1 (same_tree_trans _ _ _ S S1)).
      destruct IH as (Tf & Sf & Hrf & Gf); auto.
      + rewrite (se_other_n _ _ _ _ _ _ SE rid Hrn Hrb). exact Hrid.
      + intros k Hk. apply in_app_or in Hk. destruct Hk as [Hk|[<-|[]]].
        * destruct (Hsep k n Hk (or_introl eq_refl)) as [Hkn Hle].
          apply (good_preserved d s s1 n nb rid nd k SE Hrid (Hgood k Hk) Hkn). intros ->. lia.
        * apply (good_new d s s1 n nb rid nd SE Hd).
      + intros x Hx. apply Hnc. right. exact Hx.
      + intros k x Hk Hx. apply in_app_or in Hk. destruct Hk as [Hk|[<-|[]]].
        * apply Hsep; [exact Hk|right; exact Hx].
        * split; [intros ->; contradiction|]. rewrite Forall_forall in Hfar. apply (Hfar x Hx).
      + split; [exact Tf|]. split; [exact Sf|]. split; [exact Hrf|]. intros k Hk. apply Gf.
        rewrite <- app_assoc. exact Hk.
  Qed.
End Sweep.

Lemma same_tree_keys l l' k : same_tree l l' -> (In k (akeys l) <-> In k (akeys l')).
Proof.
  intros [_ H]. specialize (H k). split; intros Hin; apply keys_aget in Hin; destruct Hin as [v E]; rewrite E in H.
  - destruct (aget k l') eqn:E'; [eapply aget_Some_keys; eauto|contradiction].
  - destruct (aget k l) eqn:E'; [eapply aget_Some_keys; eauto|contradiction].
Qed.

(* the executable checker accepts a store in which every non-centre node is good w.r.t. the
   distances of a store with the same tree *)
Lemma good_iso s0 sf c :
  tstruct (nodes s0) -> amem c (nodes s0) = true -> tstruct (nodes sf) -> same_tree (nodes s0) (nodes sf) ->
  (forall k, In k (akeys (nodes sf)) -> k <> c -> good (distance_to_node s0 c) sf k) ->
  iso_check (sf, Some c) = true.
Proof.
  intros T0 Hc Tf S Hgood. unfold iso_check. cbn [fst snd]. apply forallb_forall. intros [k nd] Hin. cbn [fst].
  destruct (Nat.eqb_spec k c) as [->|Hk]; [reflexivity|]. cbn [orb].
  pose proof (ts_nd _ Tf) as Hnd.
  assert (E : aget k (nodes sf) = Some nd) by (apply In_aget; assumption).
  assert (Hcf : amem c (nodes sf) = true).
  { apply amem_true. apply (same_tree_keys _ _ c S). apply amem_true. exact Hc. }
  destruct (Hgood k (aget_Some_keys _ _ _ E) Hk) as (nd1 & t & a & leg & nb & df & G1 & G2 & G3 & G4 & G5 & G6 & G7 & G8 & G9 & G10).
  rewrite E in G1. injection G1 as <-.
  pose proof (dist_same_tree s0 sf c T0 S Hnd Hc) as Hsame.
  destruct (dist_step sf c k nd Tf Hcf E Hk) as (nb1 & Hin1 & Hd1 & Hoth).
  assert (nb = nb1).
  { destruct (Nat.eq_dec nb nb1) as [|Hne]; [assumption|]. exfalso.
    pose proof (Hoth nb G4 Hne) as H1. rewrite <- !Hsame in H1. lia. }
  subst nb1.
  unfold iso_node. rewrite G2. unfold toward.
  rewrite (first_min_unique (distance_to_node sf c) (neighbouring_nodes nd) nb Hin1).
  - rewrite G3, G6. apply existsb_exists. exists df. split; [exact G7|].
    rewrite G8, G9, G10, !Nat.eqb_refl. reflexivity.
  - intros y Hy Hne. rewrite (Hoth y Hy Hne). lia.
Qed.

(* ---- canonical_form establishes the isometry attribute on every tree ---------------------------------- *)
Theorem canonical_form_iso_tstruct s oc c m rid cs' :
  tstruct (nodes s) -> aget rid (nodes s) = None ->
  canonical_form (s, oc) c m rid = Some cs' ->
  iso_check cs' = true /\ tstruct (nodes (fst cs')) /\ same_tree (nodes s) (nodes (fst cs')) /\
  aget rid (nodes (fst cs')) = None.
Proof.
  intros T Hrid H. rewrite canonical_form_unfold in H. cbn [fst] in H.
  destruct (amem c (nodes s)) eqn:Hc; [|discriminate]. cbn [negb] in H.
  set (d := distance_to_node s c) in *.
  destruct (fold_left (canon_step d m rid) (sweep_order d) (Some s)) as [sf|] eqn:Hf; [|discriminate].
  injection H as <-. cbn [fst].
  pose proof (dist_nodup s c T) as Hnd. fold d in Hnd.
  destruct (sweep s c m rid T Hc (sweep_order d) [] s sf T (same_tree_refl _) Hrid) as (Tf & Sf & Hrf & Gf).
  - intros k [].
  - apply sorted_sweep_order. exact Hnd.
  - apply NoDup_sweep_order. exact Hnd.
  - intros n Hn ->. apply in_sweep_order in Hn. destruct Hn as (v & Hv & Hin).
    pose proof (in_d_dget d c v Hnd Hin) as E. unfold d in E. rewrite (dist_centre s c Hc) in E. lia.
  - intros k n [].
  - exact Hf.
  - split; [|auto]. apply (good_iso s sf c T Hc Tf Sf). intros k Hk Hkc. apply Gf. cbn [app].
    apply (same_tree_keys _ _ k Sf) in Hk. pose proof Hk as Hk2.
    apply (dist_cover s c k T Hc) in Hk. fold d in Hk. apply in_map_iff in Hk. destruct Hk as ([k' v] & <- & Hin).
    cbn [fst] in *. apply in_sweep_order. exists v. split; [|exact Hin].
    apply keys_aget in Hk2. destruct Hk2 as [nk Enk].
    pose proof (dist_pos s c k' nk T Hc Enk Hkc) as Hp. fold d in Hp. rewrite (in_d_dget d k' v Hnd Hin) in Hp. exact Hp.
Qed.

Theorem canonical_form_iso s oc c m rid cs' :
  wfb s = true -> amem rid (nodes s) = false ->
  canonical_form (s, oc) c m rid = Some cs' -> iso_check cs' = true.
Proof.
  intros W Hr H. apply (canonical_form_iso_tstruct s oc c m rid cs' (wfb_tstruct s W)); [|exact H].
  unfold amem in Hr. destruct (aget rid (nodes s)); [discriminate|reflexivity].
Qed.

(* ---- moving the centre ---------------------------------------------------------------------------------- *)
Lemma iso_good s a : tstruct (nodes s) -> amem a (nodes s) = true -> iso_check (s, Some a) = true ->
  forall k, In k (akeys (nodes s)) -> k <> a -> good (distance_to_node s a) s k.
Proof.
  intros T Ha H k Hk Hka. destruct (iso_check_sound _ H) as (c & Hc & Hall). cbn [fst snd] in *. injection Hc as <-.
  apply keys_aget in Hk. destruct Hk as [nd E].
  destruct (Hall k nd (aget_In _ _ _ E) Hka) as (t & nb & at_ & leg & df & G1 & G2 & G3 & G4 & G5 & G6 & G7 & G8).
  unfold toward in G2.
  destruct (dist_step s a k nd T Ha E Hka) as (nb1 & Hin1 & Hd1 & Hoth).
  assert (Hfm : first_min (distance_to_node s a) (neighbouring_nodes nd) None = Some nb1).
  { apply first_min_unique; [exact Hin1|]. intros y Hy Hne. rewrite (Hoth y Hy Hne). lia. }
  rewrite Hfm in G2. injection G2 as <-.
  exists nd, t, at_, leg, nb1, df. repeat split; auto.
Qed.

Lemma good_change_d d d' s k :
  good d s k ->
  (forall nd nb, aget k (nodes s) = Some nd -> In nb (neighbouring_nodes nd) ->
                 S (dget d nb) = dget d k -> S (dget d' nb) = dget d' k) -> good d' s k.
Proof.
  intros (nd & t & a & leg & nb & df & G1 & G2 & G3 & G4 & G5 & G6 & G7) H.
  exists nd, t, a, leg, nb, df. repeat split; try tauto. apply (H nd nb G1 G4 G5).
Qed.

(* one step of move_orthogonalization_center along an edge *)
Lemma move_step_iso s a b m rid s' :
  tstruct (nodes s) -> aget rid (nodes s) = None -> iso_check (s, Some a) = true ->
  qr_to_neighbour s a b m rid = Some s' ->
  iso_check (s', Some b) = true /\ tstruct (nodes s') /\ aget rid (nodes s') = None /\ same_tree (nodes s) (nodes s').
Proof.
  intros T Hrid Hiso H.
  destruct (qr_step_effect _ _ _ _ _ _ T Hrid H) as (na & Ea & Hin & SE).
  destruct (step_same_tree _ _ _ _ _ _ T Ea Hin SE) as [S1 T1].
  destruct (ts_neighbour_sym _ _ _ _ T Ea Hin) as (nbn & Eb & Hba & Hne).
  assert (Ha : amem a (nodes s) = true) by (apply amem_aget; eauto).
  assert (Hb : amem b (nodes s) = true) by (apply amem_aget; eauto).
  assert (Hra : rid <> a) by (intros ->; congruence).
  assert (Hrb : rid <> b) by (intros ->; congruence).
  assert (Hrid' : aget rid (nodes s') = None) by (rewrite (se_other_n _ _ _ _ _ _ SE rid Hra Hrb); exact Hrid).
  split; [|auto]. apply (good_iso s s' b T Hb T1 S1). intros k Hk Hkb.
  destruct (Nat.eq_dec k a) as [->|Hka].
  - apply (good_new _ s s' a b rid na SE).
    rewrite (dist_centre s b Hb), (dist_centre_nbrs s b nbn a T Eb Hba). reflexivity.
  - apply (same_tree_keys _ _ k S1) in Hk.
    apply (good_preserved _ s s' a b rid na k SE Hrid); [|exact Hka|exact Hkb].
    apply (good_change_d (distance_to_node s a)); [apply iso_good; assumption|].
    intros nk nb Ek Hnb Hd.
    apply (dist_move s a b na k nk nb T Ea Hin Ek Hka Hkb Hnb Hd).
Qed.

Definition move_step (m : mode) (rid : id) (acc : option cstore) (nb : id) : option cstore :=
  match acc with
  | Some (s', Some cur) => match qr_to_neighbour s' cur nb m rid with
                           | Some s'' => Some (s'', Some nb)
                           | None => None
                           end
  | _ => None
  end.

Lemma move_fold_none m rid l : fold_left (move_step m rid) l None = None.
Proof. induction l as [|x t IH]; cbn; [reflexivity|exact IH]. Qed.

Lemma move_fold_iso m rid : forall l s cur cs',
  tstruct (nodes s) -> aget rid (nodes s) = None -> iso_check (s, Some cur) = true ->
  fold_left (move_step m rid) l (Some (s, Some cur)) = Some cs' ->
  iso_check cs' = true /\ tstruct (nodes (fst cs')) /\ same_tree (nodes s) (nodes (fst cs')) /\
  aget rid (nodes (fst cs')) = None.
Proof.
  induction l as [|nb t IH]; intros s cur cs' T Hrid Hiso H; cbn [fold_left] in H.
  - injection H as <-. cbn [fst]. split; [exact Hiso|]. split; [exact T|]. split; [apply same_tree_refl|exact Hrid].
  - cbn [move_step] in H. destruct (qr_to_neighbour s cur nb m rid) as [s2|] eqn:E; [|rewrite move_fold_none in H; discriminate].
    destruct (move_step_iso _ _ _ _ _ _ T Hrid Hiso E) as (I2 & T2 & R2 & S2).
    destruct (IH s2 nb cs' T2 R2 I2 H) as (I3 & T3 & S3 & R3).
    split; [exact I3|]. split; [exact T3|]. split; [exact (same_tree_trans _ _ _ S2 S3)|exact R3].
Qed.

(* moving the orthogonality centre keeps the isometry attribute *)
Theorem move_center_iso_tstruct cs c m rid cs' :
  tstruct (nodes (fst cs)) -> aget rid (nodes (fst cs)) = None -> iso_check cs = true ->
  move_center cs c m rid = Some cs' ->
  iso_check cs' = true /\ tstruct (nodes (fst cs')) /\ same_tree (nodes (fst cs)) (nodes (fst cs')) /\
  aget rid (nodes (fst cs')) = None.
Proof.
  destruct cs as [s oc]. cbn [fst]. intros T Hrid Hiso H. unfold move_center in H. cbn [fst snd] in H.
  destruct oc as [c0|]; [|discriminate].
  destruct (Nat.eqb c0 c).
  - injection H as <-. cbn [fst]. split; [exact Hiso|]. split; [exact T|]. split; [apply same_tree_refl|exact Hrid].
  - apply (move_fold_iso m rid _ s c0 cs' T Hrid Hiso H).
Qed.

(* ... and really arrives at the requested node *)
Theorem move_center_reaches cs c0 c m rid cs' :
  tstruct (nodes (fst cs)) -> snd cs = Some c0 -> amem c0 (nodes (fst cs)) = true -> amem c (nodes (fst cs)) = true ->
  move_center cs c m rid = Some cs' -> snd cs' = Some c.
Proof.
  intros T Hc0 Ha Hb H. rewrite (move_center_center cs c m rid cs' c0 Hc0 H).
  destruct (Nat.eqb_spec c0 c) as [->|Hne]; [reflexivity|]. f_equal.
  destruct cs as [s oc]. cbn [fst snd] in *.
  destruct (path_from_to_head s c0 c T Ha Hb) as [t Ht].
  pose proof (path_from_to_last s c0 c c0 T Ha Hb) as Hl. rewrite Ht in Hl. rewrite Ht. cbn [tl].
  rewrite last_cons_default in Hl. exact Hl.
Qed.

Theorem move_center_iso cs c m rid cs' :
  wfb (fst cs) = true -> amem rid (nodes (fst cs)) = false -> iso_check cs = true ->
  move_center cs c m rid = Some cs' -> iso_check cs' = true.
Proof.
  intros W Hr Hiso H. apply (move_center_iso_tstruct cs c m rid cs' (wfb_tstruct _ W)); [|exact Hiso|exact H].
  unfold amem in Hr. destruct (aget rid (nodes (fst cs))); [discriminate|reflexivity].
Qed.

(* ---- the step theorem under the executable store invariant, all clauses spelled out ----------------------- *)
Theorem qr_to_neighbour_effect s n nb m rid s' :
  wfb s = true -> amem rid (nodes s) = false -> qr_to_neighbour s n nb m rid = Some s' ->
  exists nd nd' t' leg df nbn nbn',
    aget n (nodes s) = Some nd /\ In nb (neighbouring_nodes nd) /\
    (* (a) n is exactly the fresh Q atom; its bond wire sits on n's leg toward nb *)
    aget n (nodes s') = Some nd' /\ aget n (tensors s') = Some t' /\ atoms t' = [kq df] /\
    defs s' = defs s ++ [df] /\ kkind df = 0 /\ kq df = next_atom s /\ kbond df = next_wire s /\
    neighbour_index nd' nb = Some leg /\ nth (nth leg (perm nd') 0) (axes t') 0 = kbond df /\
    (* (b) every node other than n and nb is untouched *)
    (forall k, k <> n -> k <> nb ->
               aget k (nodes s') = aget k (nodes s) /\ aget k (tensors s') = aget k (tensors s)) /\
    (* (c) identifiers, root and parent pointers unchanged; only these child lists are reordered *)
    akeys (nodes s') = akeys (nodes s) /\ root s' = root s /\
    parent nd' = parent nd /\
    children nd' = (if match parent nd with Some p => Nat.eqb p nb | None => false end
                    then children nd else nb :: remove_first nb (children nd)) /\
    aget nb (nodes s) = Some nbn /\ aget nb (nodes s') = Some nbn' /\ parent nbn' = parent nbn /\
    children nbn' = (if match parent nd with Some p => Nat.eqb p nb | None => false end
                     then remove_first n (children nbn) ++ [n] else children nbn) /\
    (* (d) the temporary identifier is gone *)
    aget rid (nodes s') = None /\ aget rid (tensors s') = None.
Proof.
  intros Wb Hr H. pose proof (wfb_wf s Wb) as W. pose proof (wf_tstruct s W) as T.
  assert (Hrid : aget rid (nodes s) = None) by (unfold amem in Hr; destruct (aget rid (nodes s)); [discriminate|reflexivity]).
  destruct (qr_step_effect _ _ _ _ _ _ T Hrid H) as (nd & En & Hin & SE).
  destruct (se_node _ _ _ _ _ _ SE) as (nd' & t' & leg & A1 & A2 & A3 & A4 & A5 & A6 & A7).
  destruct (se_defs _ _ _ _ _ _ SE) as (df & D1 & D2 & D3 & D4).
  destruct (se_nb _ _ _ _ _ _ SE) as (nbn & nbn' & B1 & B2 & B3 & B4).
  destruct (se_rid_t _ _ _ _ _ _ SE (wf_tnd _ W)) as [R1 _].
  assert (Hrt : aget rid (tensors s) = None).
  { destruct (aget rid (tensors s)) eqn:E; [|reflexivity]. exfalso.
    assert (amem rid (tensors s) = true) by (unfold amem; rewrite E; reflexivity).
    apply (wf_tn _ W) in H0. congruence. }
  assert (Hrn : rid <> n) by (intros ->; congruence).
  assert (Hrb : rid <> nb) by (intros ->; congruence).
  exists nd, nd', t', leg, df, nbn, nbn'.
  split; [exact En|]. split; [exact Hin|]. split; [exact A1|]. split; [exact A2|]. split; [congruence|].
  split; [exact D1|]. split; [exact D3|]. split; [exact D2|]. split; [exact D4|]. split; [exact A4|].
  split; [congruence|]. split.
  { intros k Hkn Hkb. split; [apply (se_other_n _ _ _ _ _ _ SE k Hkn Hkb)|].
    destruct (Nat.eq_dec k rid) as [->|Hkr]; [congruence|]. apply (se_other_t _ _ _ _ _ _ SE k Hkn Hkb Hkr). }
  split; [apply (se_keys _ _ _ _ _ _ SE)|]. split.
  { rewrite (se_root _ _ _ _ _ _ SE). destruct (is_root nd) eqn:Hroot; [|reflexivity].
    destruct (wf_root _ W) as (r & rn & Er & _ & _ & Hu). rewrite Er. f_equal. apply (Hu n nd En).
    apply is_root_spec. exact Hroot. }
  split; [exact A6|]. split; [exact A7|]. split; [exact B1|]. split; [exact B2|]. split; [exact B3|].
  split; [exact B4|]. split; [|exact R1].
  rewrite (se_other_n _ _ _ _ _ _ SE rid Hrn Hrb). exact Hrid.
Qed.
