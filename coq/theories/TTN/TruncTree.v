(* Model of pytreenet/core/truncation/recursive_truncation.py and svd_truncation.py as programs
   over the store model (TTN/Store.v) and the canonical-form layer (TTN/Canon.v).
   Definitions only; proofs are in TruncTreeProofs.v.

   The kept bond dimension of every truncated bond is an INPUT (`kd child`): the singular values
   are kernel data, the scalar rule that selects the number is Trunc/Select.v.  A truncated SVD
   split and the explicit projector replacement are both `split_nodes` of kind 2 (two fresh atoms
   joined by a fresh bond wire of the given dimension).

   Identifiers.  `rid` is the uuid-named temporary of split_qr_contract_r_to_neighbour and of
   contract_and_split_with_parent (`contr_id = str(uuid1())`); it never survives a step, so one
   fresh identifier stands for all of them.  recursive_truncation names its temporaries after the
   bond: tmp 0 c n = identity_id(c, n) = "<c>_identity_<n>", tmp 1 c n = "<n>_projectorstar_<c>",
   tmp 2 c n = "<n>_projector_<c>" (projector_identifier is called with swapped arguments). *)
From Coq Require Import List Arith Bool.
From PTN Require Import TTN.Store TTN.Canon TTN.Inv.
Import ListNotations.

Definition tmpids := nat -> id -> id -> id.

(* ---- recursive_truncation.py --------------------------------------------------------------------- *)

(* insert_projection_operator_and_conjugate(child, node, projector, tree): an identity node on the
   bond, replaced (split_node_replace -> idiots_splitting) by projector.conj() with legs
   (parent = node, new) and projector.T with legs (new, child); k = projector.shape[1] *)
Definition insert_projector (tmp : tmpids) (s : store) (c n : id) (k : nat) : option store :=
  match insert_identity s c n (tmp 0 c n) with
  | None => None
  | Some s1 =>
      split_nodes s1 (tmp 0 c n)
        {| ls_parent := Some n; ls_children := []; ls_open := []; ls_root := false |}
        {| ls_parent := None; ls_children := [c]; ls_open := []; ls_root := false |}
        (tmp 1 c n) (tmp 2 c n) 2 Reduced k
  end.

(* one iteration of the first loop of truncate_node: tree.tensors[node_id] is an access (the
   projector itself is computed from it by truncated_tensor_svd: kernel data of width kd c) *)
Definition proj_step (tmp : tmpids) (kd : id -> nat) (n : id) (acc : option store) (c : id) : option store :=
  match acc with
  | None => None
  | Some s => match access s n with
              | Some (s1, _, _) => insert_projector tmp s1 c n (kd c)
              | None => None
              end
  end.

(* TreeTensorNetwork.contract_all_children(node_id, new_identifier) *)
Definition contract_all_children (s : store) (n new : id) : option store :=
  match aget n (nodes s) with
  | None => None
  | Some nd => fold_left (fun acc c => match acc with Some s' => contract_nodes s' n c new | None => None end)
                         (children nd) (Some s)
  end.

(* one iteration of the second loop: the projector node must have exactly one child (assert),
   which takes it over and keeps its own identifier *)
Definition absorb_step (acc : option store) (pj : id) : option store :=
  match acc with
  | None => None
  | Some s => match aget pj (nodes s) with
              | Some pn => match children pn with
                           | [oc] => contract_all_children s pj oc
                           | _ => None
                           end
              | None => None
              end
  end.

(* the non-recursive part of truncate_node(node_id) *)
Definition truncate_local (tmp : tmpids) (kd : id -> nat) (s : store) (n : id) : option (store * list id) :=
  match aget n (nodes s) with
  | None => None
  | Some nd =>
      let orig := children nd in                                        (* copy(node.children) *)
      match fold_left (proj_step tmp kd n) orig (Some s) with
      | None => None
      | Some s1 =>
          match contract_all_children s1 n n with
          | None => None
          | Some s2 =>
              match aget n (nodes s2) with
              | None => None
              | Some nd2 =>
                  match fold_left absorb_step (children nd2) (Some s2) with
                  | Some s3 => Some (s3, orig)
                  | None => None
                  end
              end
          end
      end
  end.

(* truncate_node: the recursion descends into the original children, in their original order *)
Fixpoint truncate_node (fuel : nat) (tmp : tmpids) (kd : id -> nat) (s : store) (n : id) : option store :=
  match fuel with
  | O => None
  | S f =>
      match truncate_local tmp kd s n with
      | None => None
      | Some (s3, orig) =>
          fold_left (fun acc c => match acc with Some s' => truncate_node f tmp kd s' c | None => None end)
                    orig (Some s3)
      end
  end.

(* recursive_truncation(tree, svd_params): canonical form at the root unless the root is the
   recorded centre; the recorded centre is not touched afterwards *)
Definition recursive_truncation (tmp : tmpids) (kd : id -> nat) (rid : id) (cs : cstore) : option cstore :=
  match root (fst cs) with
  | None => None
  | Some r =>
      let have := match snd cs with Some c => Nat.eqb r c | None => false end in
      match (if have then Some cs else canonical_form cs r Reduced rid) with
      | None => None
      | Some cs1 =>
          match truncate_node (length (nodes (fst cs1))) tmp kd (fst cs1) r with
          | Some s' => Some (s', snd cs1)
          | None => None
          end
      end
  end.

(* the order in which truncate_node reaches the bonds (child identifiers), read off a node dictionary *)
Fixpoint visit_order (fuel : nat) (l : list (id * node)) (n : id) : list id :=
  match fuel with
  | O => []
  | S f => match aget n l with
           | None => []
           | Some nd => children nd ++ flat_map (visit_order f l) (children nd)
           end
  end.

(* ---- svd_truncation.py ---------------------------------------------------------------------------- *)

(* TreeStructure.linearise: post-order, children in stored order *)
Fixpoint linearise_rec (fuel : nat) (l : list (id * node)) (n : id) : list id :=
  match fuel with
  | O => []
  | S f => match aget n l with
           | None => []
           | Some nd => flat_map (linearise_rec f l) (children nd) ++ [n]
           end
  end.
Definition linearise (s : store) : list id :=
  match root s with Some r => linearise_rec (length (nodes s)) (nodes s) r | None => [] end.

(* TreeTensorNetwork.legs_before_combination(node1_id, node2_id) *)
Definition legs_before_combination (s : store) (id1 id2 : id) : option (legspec * legspec) :=
  match aget id1 (nodes s), aget id2 (nodes s) with
  | Some n1, Some n2 =>
      let tv := nvirt n1 + nvirt n2 - 2 in
      let tl := nlegs n1 + nlegs n2 - 2 in
      let o1 := seq tv (nopen n1) in
      let o2 := seq (tv + nopen n1) (tl - (tv + nopen n1)) in
      let r1 := is_root n1 in
      let r2 := negb r1 && is_root n2 in
      if memb id1 (children n2) then            (* node2.is_parent_of(node1_id): temp reversed *)
        Some ({| ls_parent := None; ls_children := children n1; ls_open := o1; ls_root := r1 |},
              {| ls_parent := parent n2; ls_children := remove_first id1 (children n2); ls_open := o2; ls_root := r2 |})
      else if memb id2 (children n1) then
        Some ({| ls_parent := parent n1; ls_children := remove_first id2 (children n1); ls_open := o1; ls_root := r1 |},
              {| ls_parent := None; ls_children := children n2; ls_open := o2; ls_root := r2 |})
      else None                                  (* list.remove raises ValueError *)
  | _, _ => None
  end.

(* contract_and_split_with_parent(node_id, tree, params): the contracted node gets a uuid, the SVD
   gives the node (U legs) and its parent (V legs, absorbs the singular values) their identifiers
   back; the parent is recorded as the orthogonality centre *)
Definition contract_and_split (kd : id -> nat) (rid : id) (cs : cstore) (n : id) : option cstore :=
  let s := fst cs in
  match aget n (nodes s) with
  | None => None
  | Some nd =>
      match parent nd with
      | None => None
      | Some p =>
          match legs_before_combination s n p with
          | None => None
          | Some (cl, pl) =>
              match contract_nodes s n p rid with
              | None => None
              | Some s1 =>
                  match split_nodes s1 rid cl pl n p 2 Reduced (kd n) with
                  | None => None
                  | Some s2 => match aget n (nodes s2) with
                               | Some nd2 => Some (s2, parent nd2)
                               | None => None
                               end
                  end
              end
          end
      end
  end.

Definition svd_step (kd : id -> nat) (rid : id) (acc : option cstore) (n : id) : option cstore :=
  match acc with
  | None => None
  | Some cs => match move_center cs n Reduced rid with
               | Some cs1 => contract_and_split kd rid cs1 n
               | None => None
               end
  end.

(* svd_truncation(tree, params): the path is computed once, before the loop *)
Definition svd_truncation (kd : id -> nat) (rid : id) (cs : cstore) : option cstore :=
  fold_left (svd_step kd rid) (removelast (linearise (fst cs))) (Some cs).

(* ---- observation used by the correspondence ----------------------------------------------------------- *)
Definition crun (rid : id) (cs : cstore) (ops : list cop) : cstore :=
  fold_left (fun cs o => match cstep rid cs o with Some cs' => cs' | None => cs end) ops cs.

Definition cobs (ok : bool) (cs : cstore) :=
  (ok, observe (fst cs), match snd cs with Some c => [c] | None => [] end).

(* algo: true = recursive_truncation, false = svd_truncation; kd as an association list *)
Definition trunc_obs (algo : bool) (tmp : tmpids) (kdl : list (id * nat)) (rid : id) (cs : cstore) :=
  let kd := dget kdl in
  match (if algo then recursive_truncation tmp kd rid cs else svd_truncation kd rid cs) with
  | Some cs' => cobs true cs'
  | None => cobs false cs
  end.

(* bond dimension of the edge above node c: the dimension of the wire on c's parent leg *)
Definition bond_dim (s : store) (c : id) : nat :=
  match aget c (nodes s), aget c (tensors s) with
  | Some nd, Some t => wdim s (nth (nth 0 (perm nd) 0) (axes t) 0)
  | _, _ => 0
  end.

(* ---- vocabulary of the statements (TruncTreeProofs.v, Props/C10.v) ------------------------------------- *)
(* the view of a store: for every identifier its parent pointer and the dimension of the bond above it
   (the wire on leg 0 of a node that has a parent); None for an identifier that is not a node *)
Definition bdim (s : store) (k : id) (nk : node) : nat :=
  match parent nk with Some _ => wdim s (nth 0 (lax s k nk) 0) | None => 0 end.
Definition view (s : store) (k : id) : option (option id * nat) :=
  option_map (fun nk => (parent nk, bdim s k nk)) (aget k (nodes s)).
Definition pmap (s : store) (k : id) : option (option id) := option_map fst (view s k).

(* k is a proper descendant of a in the parent map pm *)
Inductive desc (pm : id -> option (option id)) (a : id) : id -> Prop :=
| desc_child k : pm k = Some (Some a) -> desc pm a k
| desc_step k q : pm k = Some (Some q) -> desc pm a q -> desc pm a k.

(* the bond-named temporaries of recursive_truncation are not identifiers of the tree, and differ for
   different bonds / roles (string formatting in the code: a precondition on the caller's identifiers) *)
Definition tmp_fresh (tmp : tmpids) (s : store) : Prop :=
  forall j c m, j <= 2 -> In c (akeys (nodes s)) -> In m (akeys (nodes s)) -> aget (tmp j c m) (nodes s) = None.
Definition tmp_inj (tmp : tmpids) : Prop :=
  forall j j' c c' m, j <= 2 -> j' <= 2 -> tmp j c m = tmp j' c' m -> j = j' /\ c = c'.
Definition tmp_freshb (tmp : tmpids) (s : store) : bool :=
  forallb (fun c => forallb (fun m => forallb (fun j => negb (amem (tmp j c m) (nodes s))) [0; 1; 2])
                            (akeys (nodes s))) (akeys (nodes s)).
(* executable hypotheses of the tree-level theorems, checked per explored instance *)
Definition trunc_hyps (tmp : tmpids) (rid : id) (cs : cstore) : bool :=
  wfb (fst cs) && negb (amem rid (nodes (fst cs))) && tmp_freshb tmp (fst cs).

(* truncate_node with a trace: the bonds (child identifiers) in the order their projector is computed *)
Definition tr_step (f : store -> id -> option (store * list id)) (acc : option (store * list id)) (c : id) :=
  match acc with
  | Some (s', tr) => match f s' c with Some (s'', tr') => Some (s'', tr ++ tr') | None => None end
  | None => None
  end.
Fixpoint truncate_node_tr (fuel : nat) (tmp : tmpids) (kd : id -> nat) (s : store) (n : id) : option (store * list id) :=
  match fuel with
  | O => None
  | S f => match truncate_local tmp kd s n with
           | None => None
           | Some (s3, orig) => fold_left (tr_step (truncate_node_tr f tmp kd)) orig (Some (s3, orig))
           end
  end.

Definition last_opt (L : list id) : option id := match L with [] => None | _ => Some (last L 0) end.

(* recursive_truncation with the trace of truncate_node (same control flow) *)
Definition recursive_truncation_trace (tmp : tmpids) (kd : id -> nat) (rid : id) (cs : cstore) : option (list id) :=
  match root (fst cs) with
  | None => None
  | Some r =>
      let have := match snd cs with Some c => Nat.eqb r c | None => false end in
      match (if have then Some cs else canonical_form cs r Reduced rid) with
      | None => None
      | Some cs1 => option_map snd (truncate_node_tr (length (nodes (fst cs1))) tmp kd (fst cs1) r)
      end
  end.

(* per-instance facts evaluated next to the correspondence: the hypotheses of the universal theorems on the
   store the routine starts from, the supplied dimensions on every truncated bond and the invariant afterwards,
   and the order in which the bonds are handled *)
Definition trunc_info (algo : bool) (tmp : tmpids) (kdl : list (id * nat)) (rid : id) (cs : cstore) :=
  let kd := dget kdl in
  let hyps := if algo then trunc_hyps tmp rid cs else wfb (fst cs) && negb (amem rid (nodes (fst cs))) in
  let res := if algo then recursive_truncation tmp kd rid cs else svd_truncation kd rid cs in
  let post := match res with
              | Some cs' => wfb (fst cs') && forallb (fun ck => Nat.eqb (bond_dim (fst cs') (fst ck)) (snd ck)) kdl
              | None => true
              end in
  let trace := if algo then match recursive_truncation_trace tmp kd rid cs with Some tr => tr | None => [] end
               else removelast (linearise (fst cs)) in
  (hyps, post, trace).
