(* The tree-level truncation programs of TTN/TruncTree.v preserve the VALUE of the network when nothing is
   discarded (property C10, clause "is the identity when nothing is discarded").

   Method.
   1. Every program of TruncTree.v / Canon.v is a RUN OF EDIT OPERATIONS of the store model (access,
      insert_identity, contract_nodes, split_nodes): for each program an executable trace function
      (`svd_truncation_ops`, `recursive_truncation_ops`, ...) lists the operations it performs, and on every
      well-formed store a successful program run equals `run` of its trace, every operation accepted and inside
      its documented precondition (`traced`; sections 1, 3-5).
   2. svd_truncation consists of contractions and factorisations only, so the value theorem of C02
      (TTN/InvSemRun.run_net_value) applies: under `contracts_hold` (every recorded factorisation multiplies back
      to its input over the new bond) the value of the whole network at every wire assignment, the open wires
      and the extended invariant `wfs` are those of the input (section 2, `svd_truncation_net_value`).
   3. recursive_truncation inserts an identity on a bond and replaces it at once by the pair
      (conj(P), P^T) of a projector P computed from the SVD of the tensor ABOVE the bond.  The contracts of C02
      (identity atom = identity matrix, pair . pair = identity atom at EVERY index) cannot hold for such a pair
      (over a field a product through a finite bond is not the unbounded identity) and are too strong anyway: with nothing discarded
      P has min(d, rest) columns and conj(P).P^T is only a projector when rest < d.  Section 2b proves the right
      statement: if the product of the pair ACTS AS THE IDENTITY ON THE UPPER TENSOR over the old edge wire
      (`proj_contract`: what P P^dagger A = A says), then insert_identity followed by the replacement preserves
      the value of the network (`insert_identity_net_value_ctx`, `proj_pair_net_value`).
   4. A trace is a sequence of plain operations and projector pairs (`blocks`, section 7); the value is preserved
      along any such trace under the per-step exactness contract `exact_step` (`blocks_net_value`, section 8).
   5. "Nothing discarded" is a checkable predicate on the trace (`nothing_discarded`, section 6): every
      truncating factorisation (kind-2 split) keeps the dimension of the untruncated factorisation:
      min(rows, columns) for the truncated SVD of svd_truncation, min(d, product of the other legs) for a
      projector.  The kernel contracts (`kernel_contracts`) promise exactness of a truncating factorisation
      only in that case.  Theorems: `svd_truncation_identity`, `recursive_truncation_identity`.
   6. Section 9: concrete tables over nat satisfying all hypotheses (non-vacuity), including a bond that goes from
      dimension 2 to 1 with nothing discarded. *)
From Coq Require Import List Arith Bool Lia Permutation.
From PTN Require Import TTN.Store TTN.StoreProofs TTN.Canon TTN.Inv TTN.InvProofs TTN.InvNode TTN.InvEdit TTN.InvContract
  TTN.InvBuild TTN.InvSplit TTN.InvRun TTN.InvWires TTN.CanonTree TTN.CanonMore TTN.CanonStep TTN.CanonIso TTN.CanonProofs
  TTN.TruncTree TTN.TruncTreeProofs Wire.Sem Wire.SemProofs TTN.InvSem TTN.InvSemProofs TTN.InvSemWfs
  TTN.InvSemValue TTN.InvSemOps TTN.InvSemEye TTN.InvSemRun.
Import ListNotations.

(* ==== 1. runs of edit operations ========================================================================== *)
(* the program state s goes to s' by the operations ops: all accepted, all inside their documented
   preconditions, none of them a constructor *)
Definition traced (s : store) (ops : list op) (s' : store) : Prop :=
  run s ops = (s', map (fun _ => true) ops) /\ ops_ok s ops /\ forallb is_edit_op ops = true.

Lemma traced_nil s : traced s [] s.
Proof. split; [reflexivity|]. split; [exact I|reflexivity]. Qed.

Lemma traced_cons s o t s1 s' :
  step s o = Some s1 -> op_ok s o -> is_edit_op o = true -> traced s1 t s' -> traced s (o :: t) s'.
Proof.
  intros Hs Hok He (R & O & E). split; [|split].
  - cbn [run map]. rewrite Hs, R. reflexivity.
  - cbn [ops_ok]. rewrite Hs. split; assumption.
  - cbn [forallb]. rewrite He, E. reflexivity.
Qed.

Lemma traced_cons_inv s o t s' :
  traced s (o :: t) s' -> exists s1, step s o = Some s1 /\ op_ok s o /\ is_edit_op o = true /\ traced s1 t s'.
Proof.
  intros (R & O & E). cbn [run map ops_ok forallb] in *. apply andb_true_iff in E. destruct E as [E1 E2].
  destruct (step s o) as [s1|] eqn:Hs.
  - exists s1. destruct (run s1 t) as [sf oks] eqn:Er. injection R as Q1 Q2. subst sf oks. destruct O as [O1 O2].
    split; [reflexivity|]. split; [exact O1|]. split; [exact E1|]. split; [exact Er|]. split; assumption.
  - destruct (run s t) as [sf oks]. discriminate.
Qed.

Lemma traced_one s o s' : step s o = Some s' -> op_ok s o -> is_edit_op o = true -> traced s [o] s'.
Proof. intros H1 H2 H3. apply (traced_cons s o [] s' s' H1 H2 H3). apply traced_nil. Qed.

Lemma traced_app : forall l1 s s1 l2 s2, traced s l1 s1 -> traced s1 l2 s2 -> traced s (l1 ++ l2) s2.
Proof.
  induction l1 as [|o t IH]; intros s s1 l2 s2 T1 T2.
  - destruct T1 as (R & _). cbn in R. injection R as <-. exact T2.
  - destruct (traced_cons_inv _ _ _ _ T1) as (sa & Hs & Hok & He & Tt). cbn [app].
    apply (traced_cons s o (t ++ l2) sa s2 Hs Hok He). apply (IH sa s1 l2 s2 Tt T2).
Qed.

Lemma traced_fst s ops s' : traced s ops s' -> fst (run s ops) = s'.
Proof. intros (R & _). rewrite R. reflexivity. Qed.

(* a predicate on every accepted step of a run *)
Fixpoint along (P : store -> op -> store -> Prop) (s : store) (ops : list op) : Prop :=
  match ops with
  | [] => True
  | o :: t => match step s o with Some s' => P s o s' /\ along P s' t | None => along P s t end
  end.

Lemma along_app P : forall l1 s s1 l2, traced s l1 s1 -> (along P s (l1 ++ l2) <-> along P s l1 /\ along P s1 l2).
Proof.
  induction l1 as [|o t IH]; intros s s1 l2 T.
  - destruct T as (R & _). cbn in R. injection R as <-. cbn. tauto.
  - destruct (traced_cons_inv _ _ _ _ T) as (sa & Hs & _ & _ & Tt). cbn [app along]. rewrite Hs.
    rewrite (IH sa s1 l2 Tt). tauto.
Qed.

Lemma along_impl (P Q : store -> op -> store -> Prop) :
  forall ops s, (forall s o s', P s o s' -> Q s o s') -> along P s ops -> along Q s ops.
Proof.
  induction ops as [|o t IH]; intros s H A; [exact I|]. cbn [along] in *. destruct (step s o) as [s'|].
  - destruct A as [A1 A2]. split; [apply H; exact A1|apply IH; assumption].
  - apply IH; assumption.
Qed.

Lemma along_and (P Q : store -> op -> store -> Prop) :
  forall ops s, along P s ops -> along Q s ops -> along (fun s o s' => P s o s' /\ Q s o s') s ops.
Proof.
  induction ops as [|o t IH]; intros s A B; [exact I|]. cbn [along] in *. destruct (step s o) as [s'|].
  - destruct A as [A1 A2], B as [B1 B2]. split; [split; assumption|apply IH; assumption].
  - apply IH; assumption.
Qed.

(* ---- loops: a fold over an optional state ------------------------------------------------------------------ *)
Definition ofold {S A : Type} (f : S -> A -> option S) (acc : option S) (a : A) : option S :=
  match acc with Some x => f x a | None => None end.

Lemma ofold_none {S A : Type} (f : S -> A -> option S) l : fold_left (ofold f) l None = None.
Proof. induction l as [|a t IH]; cbn; [reflexivity|exact IH]. Qed.

Section Fold.
  Context {S A : Type}.
  Variable st : S -> store.
  Variable f : S -> A -> option S.
  Variable g : S -> A -> list op.

  (* the operations of the loop: those of the body at the current state, then those of the rest *)
  Fixpoint fold_ops (l : list A) (x : S) : list op :=
    match l with
    | [] => []
    | a :: t => g x a ++ match f x a with Some x' => fold_ops t x' | None => [] end
    end.

  Lemma fold_traced (I : list A -> S -> Prop) :
    (forall a t x x', I (a :: t) x -> f x a = Some x' -> traced (st x) (g x a) (st x') /\ I t x') ->
    forall l x x', I l x -> fold_left (ofold f) l (Some x) = Some x' -> traced (st x) (fold_ops l x) (st x') /\ I [] x'.
  Proof.
    intros Hstep. induction l as [|a t IH]; intros x x' HI H.
    - cbn in H. injection H as <-. split; [apply traced_nil|exact HI].
    - cbn [fold_left ofold] in H. destruct (f x a) as [x1|] eqn:E; [|rewrite ofold_none in H; discriminate].
      destruct (Hstep a t x x1 HI E) as [T1 I1]. destruct (IH x1 x' I1 H) as [T2 I2].
      split; [|exact I2]. cbn [fold_ops]. rewrite E. apply (traced_app _ _ _ _ _ T1 T2).
  Qed.
End Fold.

(* ==== 2. the value theorem for a traced program ============================================================= *)
Section Value.
  Variable R : Type.
  Variables (zero one : R) (add mul : R -> R -> R).
  Hypothesis SR : comm_semiring zero one add mul.
  Variable tbl : nat -> list nat -> R.

  Lemma contracts_hold_along : forall ops s,
    contracts_hold zero one add mul tbl s ops <-> along (step_contract R zero one add mul tbl) s ops.
  Proof.
    induction ops as [|o t IH]; intros s; [reflexivity|].
    rewrite (contracts_hold_cons R zero one add mul tbl). cbn [along]. destruct (step s o) as [s'|]; [|apply IH].
    rewrite (IH s'). reflexivity.
  Qed.

  Theorem traced_net_value s ops s' :
    traced s ops s' -> wfs s -> contracts_hold zero one add mul tbl s ops ->
    wfs s' /\ Permutation (open_wires s') (open_wires s) /\
    forall rho, net_value zero one add mul s' tbl rho = net_value zero one add mul s tbl rho.
  Proof.
    intros T WS C. pose proof (traced_fst _ _ _ T) as E. destruct T as (_ & O & Ed).
    pose proof (run_net_value R zero one add mul SR tbl ops s WS O Ed C) as H. rewrite E in H. exact H.
  Qed.
End Value.

(* ==== 2b. an identity inserted on a bond and replaced by a pair of kernel factors ============================= *)
(* three distinct tensors that all carry the wire z: impossible in a wfs store *)
Lemma three_ends s k1 t1 k2 t2 k3 t3 z :
  wfs s -> aget k1 (tensors s) = Some t1 -> aget k2 (tensors s) = Some t2 -> aget k3 (tensors s) = Some t3 ->
  k1 <> k2 -> k1 <> k3 -> k2 <> k3 ->
  In z (sarr_ends t1) -> In z (sarr_ends t2) -> In z (sarr_ends t3) -> False.
Proof.
  intros WS E1 E2 E3 N12 N13 N23 H1 H2 H3. pose proof (ws_wf s WS) as W. pose proof (wf_tnd s W) as ND.
  pose proof (so_ends2 s (proj2 (proj1 (wfs_iff_sem_ok s) WS)) z) as Hc.
  pose proof (flat_map_adel_perm (fun kt : id * sarr => sarr_ends (snd kt)) k1 t1 (tensors s) E1) as P1.
  assert (E2' : aget k2 (adel k1 (tensors s)) = Some t2).
  { rewrite (aget_adel _ _ _ ND). destruct (Nat.eqb_spec k2 k1); [congruence|exact E2]. }
  pose proof (flat_map_adel_perm (fun kt : id * sarr => sarr_ends (snd kt)) k2 t2 _ E2') as P2.
  assert (E3' : aget k3 (adel k2 (adel k1 (tensors s))) = Some t3).
  { rewrite (aget_adel _ _ _ (NoDup_akeys_adel _ _ ND)). destruct (Nat.eqb_spec k3 k2); [congruence|].
    rewrite (aget_adel _ _ _ ND). destruct (Nat.eqb_spec k3 k1); [congruence|exact E3]. }
  pose proof (flat_map_adel_perm (fun kt : id * sarr => sarr_ends (snd kt)) k3 t3 _ E3') as P3.
  assert (P : Permutation (total_ends s) (sarr_ends t1 ++ sarr_ends t2 ++ sarr_ends t3 ++
                flat_map (fun kt : nat * sarr => sarr_ends (snd kt)) (adel k3 (adel k2 (adel k1 (tensors s)))))).
  { etransitivity; [exact P1|]. apply Permutation_app_head. etransitivity; [exact P2|]. apply Permutation_app_head. exact P3. }
  rewrite (proj1 (Permutation_count_occ Nat.eq_dec _ _) P z), !count_occ_app in Hc.
  apply (count_occ_In Nat.eq_dec) in H1, H2, H3. nlia.
Qed.

Section CtxEye.
  Variable R : Type.
  Variables (zero one : R) (add mul : R -> R -> R).
  Hypothesis SR : comm_semiring zero one add mul.
  Variable tbl : nat -> list nat -> R.

  Local Notation net_value := (net_value zero one add mul).
  Local Notation node_value := (node_value zero one add mul).
  Local Notation sum_upto := (sum_upto R zero add).
  Local Notation sum_bnd := (sum_bnd R zero add).
  Local Notation atoms_val := (atoms_val R one mul).

  Lemma ctx_core d (NV CT : nat -> R) (RB : R) (E : nat -> nat -> R) :
    (forall j, j < d -> sum_upto d (fun k => mul (NV k) (E k j)) = NV j) ->
    sum_upto d (fun k' => sum_upto d (fun k => mul (NV k) (mul (CT k') (mul RB (mul (E k k') one)))))
    = sum_upto d (fun k => mul (NV k) (mul (CT k) RB)).
  Proof.
    intros H. apply (sum_upto_ext R zero add). intros k' Hk'.
    rewrite <- (H k' Hk'). rewrite <- (sum_upto_mul_r R zero one add mul SR).
    apply (sum_upto_ext R zero add). intros k _.
    rewrite (sr_mul_1_r' R zero one add mul SR).
    rewrite (csr_mul_assoc _ _ _ _ SR (CT k') RB (E k k')).
    rewrite (csr_mul_comm _ _ _ _ SR (mul (CT k') RB) (E k k')).
    rewrite (csr_mul_assoc _ _ _ _ SR (NV k) (E k k') (mul (CT k') RB)). reflexivity.
  Qed.

  (* insert_identity when the fresh atom acts as an identity ON THE PARENT'S TENSOR: summing the parent's
     tensor against the atom over the old edge wire gives the parent's tensor back *)
  Theorem insert_identity_net_value_ctx s c p new s' :
    wfs s -> insert_identity s c p new = Some s' ->
    (forall r j, j < wdim s (ew s c) ->
       sum_upto (wdim s (ew s c)) (fun k => mul (node_value s tbl p (upd r (ew s c) k)) (tbl (next_atom s) [k; j]))
       = node_value s tbl p (upd r (ew s c) j)) ->
    open_wires s' = open_wires s /\ forall rho, net_value s' tbl rho = net_value s tbl rho.
  Proof.
    intros WS Hi Hctx. pose proof (ws_wf s WS) as W. pose proof (insert_identity_preserves_wf s c p new s' W Hi) as W'.
    pose proof (insert_identity_total_ends s c p new s' W Hi) as PE.
    pose proof (insert_identity_total_atoms s c p new s' W Hi) as EA.
    pose proof (insert_identity_open_wires s c p new s' W Hi) as EO.
    split; [exact EO|].
    destruct (insert_identity_atom_wires s c p new s' WS Hi) as (cn & ct & Ec & Et & Hw1 & Hw2 & Hw3 & _).
    destruct (insert_identity_facts s c p new s' W Hi)
      as (cn' & pn & ct' & pm & L' & Ec' & Ep & Et' & Epar & Hinc & _ & Hpc & _ & _ & _ & _ & Hjlt & Hlax & _ & _ & Hcwlt & _ & _ & _ & Hdims & _ & _).
    rewrite Ec in Ec'. injection Ec' as <-. rewrite Et in Et'. injection Et' as <-.
    assert (Hew : ew s c = ii_cw cn ct).
    { unfold ew. rewrite Ec. unfold lax. rewrite (tens_aget _ _ _ Et), Hlax. reflexivity. }
    rewrite Hew in Hctx.
    set (cw := ii_cw cn ct) in *. set (w := next_wire s) in *. set (na := next_atom s) in *.
    assert (Hcww : cw <> w) by (unfold w; lia).
    (* the parent's tensor *)
    assert (Etp : exists tp, aget p (tensors s) = Some tp).
    { pose proof (ni_t _ _ _ (wf_node s W p pn Ep)) as H. unfold amem in H. destruct (aget p (tensors s)) as [tp|]; [eauto|discriminate]. }
    destruct Etp as [tp Etp].
    assert (Htp : tens s p = tp) by (apply tens_aget; exact Etp).
    pose proof (wf_tnd s W) as ND.
    (* cw is an axis of both tensors *)
    assert (Hcw_ct : In cw (axes ct)) by (unfold cw, ii_cw; apply nth_In; exact Hjlt).
    assert (Hcw_tp : In cw (axes tp)).
    { rewrite <- Htp. apply (Permutation_in _ (wf_lax_perm_axes s p pn W Ep)).
      apply (Permutation_in _ (Permutation_sym (wf_lax_own_children s p pn W Ep))). apply in_or_app. right.
      rewrite <- Hew. apply in_map. exact Hinc. }
    (* the summed wires *)
    assert (PB : Permutation (net_bnd s') (net_bnd s ++ [w])).
    { destruct (ends_determine_bnd s s' [] [w] W W') as [_ H2]; [|rewrite app_nil_r in H2; exact H2].
      rewrite PE. cbn. rewrite app_nil_r. apply (Permutation_count_occ Nat.eq_dec). intros z.
      cbn [count_occ]. rewrite count_occ_app. cbn [count_occ]. destruct (Nat.eq_dec w z); nlia. }
    assert (Hcwe : In cw (edge_wires s)).
    { unfold edge_wires. apply in_flat_map. exists (c, cn).
      split; [apply aget_In; exact Ec|]. apply (node_edge_In s c cn cw W Ec). split; [congruence|]. symmetry. exact Hew. }
    destruct (in_split _ _ Hcwe) as (E1 & E2 & EE).
    set (Fp := flat_map (fun kt : id * sarr => bnd (snd kt)) (adel p (tensors s))).
    set (Y := Fp ++ E1 ++ E2).
    assert (PTB : Permutation (total_bnd s) (bnd tp ++ Fp)).
    { unfold total_bnd, Fp. apply (flat_map_adel_perm (fun kt : id * sarr => bnd (snd kt)) p tp (tensors s) Etp). }
    assert (PZ : Permutation (net_bnd s) ((Y ++ [cw]) ++ bnd tp)).
    { unfold net_bnd. rewrite PTB, EE. unfold Y. apply (Permutation_count_occ Nat.eq_dec). intros z.
      rewrite ?count_occ_app. cbn [count_occ]. rewrite ?count_occ_app. destruct (Nat.eq_dec cw z); nlia. }
    assert (PZ' : Permutation (net_bnd s') ((Y ++ [w; cw]) ++ bnd tp)).
    { rewrite PB, PZ. apply (Permutation_count_occ Nat.eq_dec). intros z.
      rewrite !count_occ_app. cbn [count_occ]. destruct (Nat.eq_dec cw z), (Nat.eq_dec w z); nlia. }
    (* dimensions *)
    assert (Hwd : forall x, wdim s' x = if Nat.eqb x w then wdim s cw else wdim s x).
    { intros x. apply (wdim_snoc s s' w (wdim s cw) x Hdims). apply aget_None. intros Hin. pose proof (wf_dims s W _ Hin). unfold w in *. lia. }
    assert (Hnb_lt : forall x, In x (net_bnd s) -> x <> w).
    { intros x Hin. unfold net_bnd in Hin. apply in_app_or in Hin. destruct Hin as [Hin|Hin].
      - pose proof (ws_bnd_lt s WS x Hin). unfold w in *. lia.
      - assert (Hown : In x (own_wires s)) by (rewrite own_wires_split; apply in_or_app; left; exact Hin).
        unfold own_wires in Hown. apply in_flat_map in Hown. destruct Hown as ([k nk] & Hk & Hwk).
        pose proof (wf_own_bound s k nk x W (In_aget _ _ _ (wf_nd s W) Hk) Hwk). unfold w in *. lia. }
    (* atoms: the parent's, the child's, the others *)
    assert (PA : Permutation (total_atoms s) (atoms ct ++ flat_map (fun kt => atoms (snd kt)) (adel c (tensors s)))).
    { unfold total_atoms. apply (flat_map_adel_perm (fun kt : id * sarr => atoms (snd kt)) c ct (tensors s) Et). }
    assert (Etp' : aget p (adel c (tensors s)) = Some tp).
    { rewrite (aget_adel _ _ _ ND). destruct (Nat.eqb_spec p c); [contradiction|exact Etp]. }
    set (restB := flat_map (fun kt : id * sarr => atoms (snd kt)) (adel p (adel c (tensors s)))).
    assert (PA2 : Permutation (flat_map (fun kt : id * sarr => atoms (snd kt)) (adel c (tensors s))) (atoms tp ++ restB)).
    { apply (flat_map_adel_perm (fun kt : id * sarr => atoms (snd kt)) p tp _ Etp'). }
    assert (PAt : Permutation (total_atoms s) (atoms tp ++ (atoms ct ++ restB))).
    { rewrite PA, PA2. apply (Permutation_count_occ Nat.eq_dec). intros z. rewrite !count_occ_app. lia. }
    assert (PAt' : Permutation (total_atoms s') (atoms tp ++ (atoms ct ++ restB ++ [na]))).
    { rewrite EA, PAt. apply (Permutation_count_occ Nat.eq_dec). intros z. rewrite !count_occ_app. lia. }
    pose proof (ws_atoms_nd s WS) as NDA. rewrite PAt in NDA.
    assert (HinT : forall a, In a (atoms tp ++ (atoms ct ++ restB)) -> In a (total_atoms s)).
    { intros a Ha. apply (Permutation_in _ (Permutation_sym PAt)). exact Ha. }
    assert (HrB : forall a, In a restB -> exists k tk, aget k (tensors s) = Some tk /\ k <> c /\ k <> p /\ In a (atoms tk)).
    { intros a Ha. unfold restB in Ha. apply in_flat_map in Ha. destruct Ha as ([k tk] & Hk & Hak). cbn [snd] in Hak.
      apply (In_aget _ _ _ (NoDup_akeys_adel _ _ (NoDup_akeys_adel _ _ ND))) in Hk.
      rewrite (aget_adel _ _ _ (NoDup_akeys_adel _ _ ND)) in Hk. destruct (Nat.eqb_spec k p) as [|Hkp]; [discriminate|].
      rewrite (aget_adel _ _ _ ND) in Hk. destruct (Nat.eqb_spec k c) as [|Hkc]; [discriminate|]. eauto 7. }
    assert (HnotCt : forall a, In a (atoms tp) \/ In a restB -> ~ In a (atoms ct)).
    { intros a Ha Hc. apply NoDup_app_iff in NDA. destruct NDA as (_ & NDA2 & Hd). destruct Ha as [Ha|Ha].
      - apply (Hd a Ha). apply in_or_app. left. exact Hc.
      - apply NoDup_app_iff in NDA2. destruct NDA2 as (_ & _ & Hd2). apply (Hd2 a Hc Ha). }
    assert (Hna : forall a, In a (total_atoms s) -> a <> na).
    { intros a Ha ->. pose proof (ws_atoms_lt s WS _ Ha). unfold na in *. lia. }
    assert (Hlt : forall a, In a (total_atoms s) -> forall x, In x (atom_wires s a) -> x <> w).
    { intros a Ha x Hx. pose proof (wfs_atom_wires_lt s a x WS Ha Hx). unfold w. lia. }
    (* atom wires in the new world *)
    assert (HwTp : forall a, In a (atoms tp) -> atom_wires s' a = atom_wires s a).
    { intros a Ha. apply Hw2; [apply HnotCt; left; exact Ha|apply Hna, HinT; apply in_or_app; left; exact Ha]. }
    assert (HwB : forall a, In a restB -> atom_wires s' a = atom_wires s a).
    { intros a Ha. apply Hw2; [apply HnotCt; right; exact Ha|apply Hna, HinT; apply in_or_app; right; apply in_or_app; right; exact Ha]. }
    (* the other atoms do not touch the old edge wire *)
    assert (AvCw : forall a, In a restB -> ~ In cw (atom_wires s a)).
    { intros a Ha Hx. destruct (HrB a Ha) as (k & tk & Ek & Hkc & Hkp & Hak).
      apply (three_ends s c ct p tp k tk cw WS Et Etp Ek (not_eq_sym Hpc) (not_eq_sym Hkc) (not_eq_sym Hkp)).
      - unfold sarr_ends. apply in_or_app. left. exact Hcw_ct.
      - unfold sarr_ends. apply in_or_app. left. exact Hcw_tp.
      - unfold sarr_ends. destruct (ws_closed s WS k tk Ek a Hak cw Hx) as [H|H]; apply in_or_app; [left; exact H|right; apply in_or_app; left; exact H]. }
    (* the bound wires of the parent's tensor are private *)
    assert (Hbtp : forall x, In x (bnd tp) -> In x (total_bnd s)) by (intros x Hx; apply (total_bnd_In s p tp x (aget_In _ _ _ Etp) Hx)).
    assert (AvS : atoms_avoid (atom_wires s) (atoms ct ++ restB) (bnd tp)).
    { intros a Ha. apply (wfs_rest_avoid s p tp WS Etp). apply in_flat_map. apply in_app_or in Ha. destruct Ha as [Ha|Ha].
      - exists (c, ct). split; [|exact Ha]. apply aget_In. rewrite (aget_adel _ _ _ ND). destruct (Nat.eqb_spec c p); [congruence|exact Et].
      - destruct (HrB a Ha) as (k & tk & Ek & _ & Hkp & Hak). exists (k, tk). split; [|exact Hak].
        apply aget_In. rewrite (aget_adel _ _ _ ND). destruct (Nat.eqb_spec k p); [contradiction|exact Ek]. }
    assert (Hcw_nb : ~ In cw (bnd tp)).
    { intros H. apply (ws_bnd_ax s WS cw (Hbtp cw H)). apply (total_axes_In' s c ct cw (aget_In _ _ _ Et) Hcw_ct). }
    assert (Hw_nb : ~ In w (bnd tp)).
    { intros H. pose proof (ws_bnd_lt s WS w (Hbtp w H)). unfold w in *. lia. }
    assert (AvS' : atoms_avoid (atom_wires s') (atoms ct ++ restB ++ [na]) (bnd tp)).
    { intros a Ha x Hx Hb. apply in_app_or in Ha. destruct Ha as [Ha|Ha]; [|apply in_app_or in Ha; destruct Ha as [Ha|[<-|[]]]].
      - rewrite (Hw1 a Ha) in Hx. apply in_map_iff in Hx. destruct Hx as (y & <- & Hy). unfold ii_sub in Hb.
        destruct (Nat.eqb_spec y cw); [contradiction|]. apply (AvS a (in_or_app _ _ _ (or_introl Ha)) y Hy Hb).
      - rewrite (HwB a Ha) in Hx. apply (AvS a (in_or_app _ _ _ (or_intror Ha)) x Hx Hb).
      - rewrite Hw3 in Hx. destruct Hx as [<-|[<-|[]]]; contradiction. }
    (* evaluation of the three groups in the new world *)
    assert (HvalA : forall r, atoms_val (atom_wires s') tbl (atoms ct) r = atoms_val (atom_wires s) tbl (atoms ct) (upd r cw (r w))).
    { intros r. unfold Sem.atoms_val. apply (prod_over_ext R one mul). intros a Ha. unfold atom_val.
      rewrite (Hw1 a Ha), map_map. f_equal. apply map_ext. intros x. unfold ii_sub, upd.
      destruct (Nat.eqb x cw); reflexivity. }
    assert (HvalB : forall r, atoms_val (atom_wires s') tbl restB r = atoms_val (atom_wires s) tbl restB r).
    { intros r. apply atoms_val_world. exact HwB. }
    set (NV := fun r => sum_bnd (wdim s) (bnd tp) (atoms_val (atom_wires s) tbl (atoms tp)) r).
    assert (HNV : forall r, NV r = node_value s tbl p r).
    { intros r. unfold NV, InvSem.node_value, value_s, value. rewrite Htp. reflexivity. }
    assert (HvalP : forall r, sum_bnd (wdim s') (bnd tp) (atoms_val (atom_wires s') tbl (atoms tp)) r = NV r).
    { intros r. unfold NV. apply sum_bnd_world.
      - intros x Hx. rewrite Hwd. destruct (Nat.eqb_spec x w) as [->|_]; [contradiction|reflexivity].
      - intros r'. apply atoms_val_world. exact HwTp. }
    assert (NVindep : indep R NV [w]).
    { unfold NV. apply sum_bnd_indep. apply atoms_val_indep. intros a Ha x Hx [<-|[]].
      apply (Hlt a (HinT a (in_or_app _ _ _ (or_introl Ha))) _ Hx). reflexivity. }
    intros rho. unfold InvSem.net_value, value_s.
    rewrite (value_perm_gen R zero one add mul SR (atom_wires s') (wdim s') tbl (net_diagram s')
               {| axes := []; atoms := atoms tp ++ (atoms ct ++ restB ++ [na]); bnd := (Y ++ [w; cw]) ++ bnd tp |} rho PAt' PZ').
    rewrite (value_perm_gen R zero one add mul SR (atom_wires s) (wdim s) tbl (net_diagram s)
               {| axes := []; atoms := atoms tp ++ (atoms ct ++ restB); bnd := (Y ++ [cw]) ++ bnd tp |} rho PAt PZ).
    unfold value. cbn [atoms bnd].
    rewrite (sum_factor R zero one add mul SR tbl (atom_wires s') (wdim s') _ _ _ _ rho AvS').
    rewrite (sum_factor R zero one add mul SR tbl (atom_wires s) (wdim s) _ _ _ _ rho AvS).
    rewrite !(sum_bnd_app R zero add).
    apply sum_bnd_world.
    - intros x Hx. rewrite Hwd. destruct (Nat.eqb_spec x w) as [->|_]; [|reflexivity].
      exfalso. apply (Hnb_lt w); [|reflexivity]. rewrite PZ. apply in_or_app. left. apply in_or_app. left. exact Hx.
    - intros r. cbn [Sem.sum_bnd]. rewrite !Hwd. rewrite Nat.eqb_refl.
      destruct (Nat.eqb_spec cw w) as [|_]; [contradiction|].
      etransitivity; [|etransitivity; [apply (ctx_core (wdim s cw) (fun k => NV (upd r cw k))
                                (fun k => atoms_val (atom_wires s) tbl (atoms ct) (upd r cw k))
                                (atoms_val (atom_wires s) tbl restB r) (fun k k' => tbl na [k; k']))|]].
      + apply (sum_upto_ext R zero add). intros k' Hk'. apply (sum_upto_ext R zero add). intros k Hk.
        set (r2 := upd (upd r w k') cw k).
        assert (E1' : r2 cw = k) by (unfold r2, upd; rewrite Nat.eqb_refl; reflexivity).
        assert (E2' : r2 w = k').
        { unfold r2, upd. destruct (Nat.eqb_spec w cw) as [Hq|_]; [symmetry in Hq; contradiction|]. rewrite Nat.eqb_refl. reflexivity. }
        rewrite HvalP. rewrite !(atoms_val_app R zero one add mul SR). rewrite HvalA, HvalB. cbn [Sem.atoms_val prod_over].
        unfold atom_val. rewrite Hw3. cbn [map]. rewrite E1', E2'. f_equal; [|f_equal; [|f_equal]].
        * apply NVindep. intros x Hx. unfold r2, upd. destruct (Nat.eqb_spec x cw); [reflexivity|].
          destruct (Nat.eqb_spec x w) as [->|]; [exfalso; apply Hx; left; reflexivity|reflexivity].
        * apply atoms_val_agree. intros a Ha x Hx.
          pose proof (Hlt a (HinT a (in_or_app _ _ _ (or_intror (in_or_app _ _ _ (or_introl Ha))))) x Hx) as Hxw.
          unfold r2, upd. destruct (Nat.eqb_spec x cw); [reflexivity|]. destruct (Nat.eqb_spec x w); [contradiction|reflexivity].
        * apply atoms_val_agree. intros a Ha x Hx.
          pose proof (Hlt a (HinT a (in_or_app _ _ _ (or_intror (in_or_app _ _ _ (or_intror Ha))))) x Hx) as Hxw.
          unfold r2, upd. destruct (Nat.eqb_spec x cw) as [->|]; [exfalso; apply (AvCw a Ha Hx)|].
          destruct (Nat.eqb_spec x w); [contradiction|reflexivity].
      + intros j Hj. cbv beta. rewrite (HNV (upd r cw j)). rewrite <- (Hctx r j Hj).
        apply (sum_upto_ext R zero add). intros k _. rewrite HNV. reflexivity.
      + apply (sum_upto_ext R zero add). intros k _. f_equal. rewrite (atoms_val_app R zero one add mul SR). f_equal.
        apply atoms_val_agree. intros a Ha x Hx. unfold upd. destruct (Nat.eqb_spec x cw) as [->|]; [exfalso; apply (AvCw a Ha Hx)|reflexivity].
  Qed.
End CtxEye.

(* ---- the value of the network depends on the table only at the atoms that occur in it ------------------------ *)
Section TblExt.
  Variable R : Type.
  Variables (zero one : R) (add mul : R -> R -> R).

  Lemma value_tbl_ext (wo : nat -> list wire) (dim : wire -> nat) (tbl tbl' : nat -> list nat -> R) d :
    (forall a, In a (atoms d) -> forall idx, tbl a idx = tbl' a idx) ->
    forall r, value R zero one add mul wo dim tbl d r = value R zero one add mul wo dim tbl' d r.
  Proof.
    intros H r. unfold value. apply (sum_bnd_ext_F R zero add). intros r'. unfold Sem.atoms_val.
    apply (prod_over_ext R one mul). intros a Ha. unfold atom_val. apply H. exact Ha.
  Qed.

  Lemma net_value_tbl_ext s (tbl tbl' : nat -> list nat -> R) :
    (forall a, In a (total_atoms s) -> forall idx, tbl a idx = tbl' a idx) ->
    forall rho, net_value zero one add mul s tbl rho = net_value zero one add mul s tbl' rho.
  Proof. intros H rho. unfold net_value, value_s. apply value_tbl_ext. exact H. Qed.

  Lemma node_value_tbl_ext s (tbl tbl' : nat -> list nat -> R) k :
    (forall a, In a (atoms (tens s k)) -> forall idx, tbl a idx = tbl' a idx) ->
    forall rho, node_value zero one add mul s tbl k rho = node_value zero one add mul s tbl' k rho.
  Proof. intros H rho. unfold node_value, value_s. apply value_tbl_ext. exact H. Qed.
End TblExt.

(* insert_identity leaves the tensor of every node but the child and its value alone *)
Lemma insert_identity_other_value {R : Type} (zero one : R) (add mul : R -> R -> R) (tbl : nat -> list nat -> R)
      s c p new s' k :
  wfs s -> insert_identity s c p new = Some s' -> k <> c -> k <> new ->
  tens s' k = tens s k /\ forall r, node_value zero one add mul s' tbl k r = node_value zero one add mul s tbl k r.
Proof.
  intros WS Hi Hkc Hkn. pose proof (ws_wf s WS) as W.
  destruct (insert_identity_atom_wires s c p new s' WS Hi) as (cn & ct & Ec & Et & Hw1 & Hw2 & Hw3 & _).
  destruct (insert_identity_facts s c p new s' W Hi)
    as (cn' & pn & ct' & pm & L' & Ec' & Ep & Et' & _ & _ & _ & _ & _ & _ & _ & _ & _ & _ & _ & _ & _ & _ & ET & _ & Hdims & _ & _).
  rewrite Ec in Ec'. injection Ec' as <-. rewrite Et in Et'. injection Et' as <-.
  assert (Etk : aget k (tensors s') = aget k (tensors s)).
  { rewrite ET, !aget_aset. destruct (Nat.eqb_spec k new); [contradiction|]. destruct (Nat.eqb_spec k c); [contradiction|reflexivity]. }
  assert (Htk : tens s' k = tens s k) by (unfold tens; rewrite Etk; reflexivity).
  split; [exact Htk|]. intros r. unfold node_value, value_s. rewrite Htk.
  destruct (aget k (tensors s)) as [tk|] eqn:Ek; [|unfold tens; rewrite Ek; reflexivity].
  rewrite (tens_aget _ _ _ Ek). apply value_world.
  - intros a Ha. apply Hw2.
    + intros Hc. pose proof (ws_atoms_nd s WS) as Hnd. unfold total_atoms in Hnd.
      apply (NoDup_flat_map_assoc _ _ (wf_tnd s W)) in Hnd. destruct Hnd as [_ Hd]. apply Hkc. apply (Hd k tk c ct a Ek Et Ha Hc).
    + intros ->. pose proof (ws_atoms_lt s WS _ (total_atoms_In s k tk _ (aget_In _ _ _ Ek) Ha)). lia.
  - intros x Hx. rewrite (wdim_snoc s s' _ _ x Hdims).
    + destruct (Nat.eqb_spec x (next_wire s)) as [->|]; [|reflexivity].
      pose proof (ws_bnd_lt s WS _ (total_bnd_In s k tk _ (aget_In _ _ _ Ek) Hx)). lia.
    + apply aget_None. intros Hin. pose proof (wf_dims s W _ Hin). lia.
Qed.

(* ---- the projector pair: an identity is inserted on the bond and at once replaced by two kernel factors
        whose product acts as the identity on the tensor of the upper node ----------------------------------- *)
Section ProjPair.
  Variable R : Type.
  Variables (zero one : R) (add mul : R -> R -> R).
  Hypothesis SR : comm_semiring zero one add mul.
  Variable tbl : nat -> list nat -> R.

  Local Notation net_value := (net_value zero one add mul).
  Local Notation node_value := (node_value zero one add mul).
  Local Notation sum_upto := (sum_upto R zero add).

  (* in state s the 2-leg node n0 hangs below p; it is about to be replaced by the pair of matrices
     (atoms next_atom s, S (next_atom s)) joined by a bond of dimension k: the product of the pair, applied to p's
     tensor on the edge between p and n0, gives p's tensor back *)
  Definition proj_contract (s : store) (n0 p : id) (k : nat) : Prop :=
    forall r j, j < wdim s (ew s n0) ->
      sum_upto (wdim s (ew s n0))
        (fun i => mul (node_value s tbl p (upd r (ew s n0) i))
                      (sum_upto k (fun l => mul (tbl (next_atom s) [i; l]) (tbl (S (next_atom s)) [l; j]))))
      = node_value s tbl p (upd r (ew s n0) j).

  Definition po (p : id) : legspec := {| ls_parent := Some p; ls_children := []; ls_open := []; ls_root := false |}.
  Definition pi (c : id) : legspec := {| ls_parent := None; ls_children := [c]; ls_open := []; ls_root := false |}.

  Theorem proj_pair_net_value s c p new sa oid iid m k s' :
    wfs s -> insert_identity s c p new = Some sa ->
    split_nodes sa new (po p) (pi c) oid iid 2 m k = Some s' ->
    spec_ok sa new (po p) (pi c) -> ids_ok sa new oid iid ->
    proj_contract sa new p k ->
    wfs s' /\ Permutation (open_wires s') (open_wires s) /\ forall rho, net_value s' tbl rho = net_value s tbl rho.
  Proof.
    intros WS Hi Hs Hspec Hids Hc. pose proof (ws_wf s WS) as W.
    pose proof (insert_identity_preserves_wfs s c p new sa WS Hi) as WSa. pose proof (ws_wf sa WSa) as Wa.
    pose proof (split_preserves_wfs sa new (po p) (pi c) oid iid 2 m k s' WSa Hs Hspec Hids) as WS'.
    split; [exact WS'|].
    destruct (insert_identity_atom_wires s c p new sa WS Hi) as (cn & ct & Ec & Et & Hw1 & Hw2 & Hw3 & _).
    destruct (insert_identity_facts s c p new sa W Hi)
      as (cn' & pn & ct' & pm & L' & Ec' & Ep & Et' & Epar & Hinc & Hnew & Hpc & Hnp & Hnc & _ & _ & Hjlt & Hlax & _ & _ & Hcwlt & EN & ET & _ & Hdims & Nw & Na).
    rewrite Ec in Ec'. injection Ec' as <-. rewrite Et in Et'. injection Et' as <-.
    assert (Hew : ew s c = ii_cw cn ct).
    { unfold ew. rewrite Ec. unfold lax. rewrite (tens_aget _ _ _ Et), Hlax. reflexivity. }
    set (cw := ii_cw cn ct) in *. set (w := next_wire s) in *. set (na := next_atom s) in *.
    set (d := wdim s cw) in *.
    assert (Enew : aget new (nodes sa) = Some (ii_node p c d)) by (rewrite EN; apply aget_aset_same).
    assert (Etnew : aget new (tensors sa) = Some (ii_nt s cn ct)) by (rewrite ET; apply aget_aset_same).
    assert (Hewn : ew sa new = cw).
    { unfold ew. rewrite Enew. unfold lax. rewrite (tens_aget _ _ _ Etnew). reflexivity. }
    assert (Hwda : forall x, wdim sa x = if Nat.eqb x w then d else wdim s x).
    { intros x. apply (wdim_snoc s sa w d x Hdims). apply aget_None. intros Hin. pose proof (wf_dims s W _ Hin). unfold w in *. lia. }
    assert (Hcww : cw <> w) by (unfold w; lia).
    assert (Hdcw : wdim sa cw = d) by (rewrite Hwda; destruct (Nat.eqb_spec cw w); [contradiction|reflexivity]).
    unfold proj_contract in Hc. rewrite Hewn, Hdcw, Na in Hc. fold na in Hc.
    (* the split *)
    destruct (split_new_def sa new (po p) (pi c) oid iid 2 m k s' dflt_def Wa Hs)
      as (sx & nd & t & ol & il & bd & Ha & Hlog & Eol & Eil & _ & Ebd & Hlast & _ & _ & _ & _ & _ & Hd' & Hwb).
    destruct (split_atab _ _ _ _ _ _ _ _ _ _ Hs) as (sx' & nd' & t' & ol' & il' & Ha' & Eol' & Eil' & Etab).
    rewrite Ha in Ha'. injection Ha' as <- <- <-. rewrite Eol in Eol'. injection Eol' as <-. rewrite Eil in Eil'. injection Eil' as <-.
    destruct (split_access_facts _ _ _ _ _ Wa Ha) as (nd0 & t0 & End0 & _ & End & _).
    rewrite Enew in End0. injection End0 as <-.
    assert (Etv : t = {| axes := [cw; w]; atoms := [na]; bnd := [] |}).
    { unfold logical in Hlog. rewrite Enew, Etnew in Hlog. injection Hlog as <-. reflexivity. }
    assert (Hcp : c <> p) by (intros ->; apply Hpc; reflexivity).
    assert (Eol0 : ol = [0]).
    { rewrite End in Eol. unfold find_leg_values, po in Eol. cbn in Eol. injection Eol as <-. reflexivity. }
    assert (Eil0 : il = [1]).
    { rewrite End in Eil. unfold find_leg_values, pi, neighbour_index in Eil. cbn in Eil.
      destruct (Nat.eqb_spec c p) as [|_]; [contradiction|]. rewrite Nat.eqb_refl in Eil. cbn in Eil. injection Eil as <-. reflexivity. }
    subst ol il t. cbn [permute map nth axes] in Etab.
    set (b := next_wire sa) in *. set (qa := next_atom sa) in *.
    pose proof Na as Hqa. pose proof Nw as Hbw.
    assert (Hq : atom_wires s' qa = [cw; b]).
    { unfold atom_wires. rewrite Etab, InvProofs.aget_app, InvProofs.aget_app, (atab_fresh sa qa WSa (le_n _)).
      cbn [aget]. rewrite Nat.eqb_refl. reflexivity. }
    assert (Hr : atom_wires s' (S qa) = [b; w]).
    { unfold atom_wires. rewrite Etab, InvProofs.aget_app, InvProofs.aget_app, (atab_fresh sa (S qa) WSa (le_S _ _ (le_n _))).
      cbn [aget]. destruct (Nat.eqb_spec (S qa) qa) as [Hq'|_]; [lia|]. rewrite Nat.eqb_refl. reflexivity. }
    assert (Hna' : atom_wires s' na = [cw; w]).
    { rewrite (split_atom_wires_old _ _ _ _ _ _ _ _ _ _ na Hs) by (fold qa; lia). exact Hw3. }
    assert (Hbk : wdim s' b = k) by (rewrite Hwb, Ebd; reflexivity).
    (* the switched table: the identity atom stands for the product of the pair *)
    set (tbl' := fun a idx => if Nat.eqb a na
                              then match idx with
                                   | [i; j] => sum_upto k (fun l => mul (tbl qa [i; l]) (tbl (S qa) [l; j]))
                                   | _ => zero
                                   end
                              else tbl a idx).
    assert (Hother : forall a, a <> na -> forall idx, tbl a idx = tbl' a idx).
    { intros a Ha0 idx. unfold tbl'. destruct (Nat.eqb_spec a na); [contradiction|reflexivity]. }
    assert (Hna_s : ~ In na (total_atoms s)) by (intros H; pose proof (ws_atoms_lt s WS _ H); unfold na in *; lia).
    (* 1. insert_identity under the switched table *)
    destruct (insert_identity_net_value_ctx R zero one add mul SR tbl' s c p new sa WS Hi) as [EO V1].
    { rewrite Hew. fold d. intros r j Hj.
      destruct (insert_identity_other_value zero one add mul tbl s c p new sa p WS Hi Hpc (not_eq_sym Hnp)) as [Htp Hnv].
      assert (Hnv' : forall r0, node_value s tbl' p r0 = node_value sa tbl p r0).
      { intros r0. rewrite Hnv. symmetry. apply node_value_tbl_ext. intros a Ha0 idx. apply Hother. intros ->. apply Hna_s.
        destruct (aget p (tensors s)) as [tp|] eqn:Etp; [|unfold tens in Ha0; rewrite Etp in Ha0; destruct Ha0].
        rewrite (tens_aget _ _ _ Etp) in Ha0. apply (total_atoms_In s p tp _ (aget_In _ _ _ Etp) Ha0). }
      rewrite Hnv'. rewrite <- (Hc r j Hj). apply (sum_upto_ext R zero add). intros i _. rewrite Hnv'. f_equal.
      unfold tbl'. fold na. rewrite Nat.eqb_refl, Hqa. reflexivity. }
    (* 2. the split under the switched table: the contract holds by construction *)
    destruct (split_net_value R zero one add mul SR tbl' sa new (po p) (pi c) oid iid 2 m k s' WSa Hs Hspec Hids) as [PO V2].
    { unfold def_holds. rewrite Hlast. cbn [kq kr kbond kinput]. fold qa b. intros rho. rewrite Hbk.
      unfold value_s, value. cbn [s_transpose atoms bnd Sem.sum_bnd Sem.atoms_val prod_over].
      unfold atom_val. rewrite Hq, Hr, Hna'. cbn [map]. unfold tbl' at 3. rewrite Nat.eqb_refl.
      rewrite (sr_mul_1_r' R zero one add mul SR). apply (sum_upto_ext R zero add). intros l _.
      rewrite <- (Hother qa) by lia. rewrite <- (Hother (S qa)) by lia.
      assert (U1 : upd rho b l cw = rho cw) by (unfold upd; destruct (Nat.eqb_spec cw b); [lia|reflexivity]).
      assert (U2 : upd rho b l b = l) by (unfold upd; rewrite Nat.eqb_refl; reflexivity).
      assert (U3 : upd rho b l w = rho w) by (unfold upd; destruct (Nat.eqb_spec w b); [lia|reflexivity]).
      rewrite U1, U2, U3. reflexivity. }
    split; [rewrite PO, EO; reflexivity|].
    (* 3. the identity atom is gone *)
    assert (Hna_s' : ~ In na (total_atoms s')).
    { destruct (split_total_atoms sa new (po p) (pi c) oid iid 2 m k s' Wa Hs Hids) as (restA & PA & PA').
      intros H. apply (Permutation_in _ PA') in H. fold qa in H. destruct H as [H|[H|H]]; [lia|lia|].
      pose proof (ws_atoms_nd sa WSa) as Hnd. rewrite PA in Hnd. apply NoDup_app_iff in Hnd. destruct Hnd as (_ & _ & Hdis).
      apply (Hdis na); [|exact H]. rewrite (tens_aget _ _ _ Etnew). left. reflexivity. }
    intros rho.
    rewrite (net_value_tbl_ext R zero one add mul s' tbl tbl') by (intros a Ha0 idx; apply Hother; intros ->; contradiction).
    rewrite V2, V1. symmetry. apply net_value_tbl_ext. intros a Ha0 idx. apply Hother. intros ->. contradiction.
  Qed.

  (* in particular a pair whose product is the identity matrix (a square unitary projector: the kept dimension
     is the dimension of the bond) satisfies the contract *)
  Lemma proj_contract_of_identity s n0 p k :
    (forall i j, i < wdim s (ew s n0) -> j < wdim s (ew s n0) ->
       sum_upto k (fun l => mul (tbl (next_atom s) [i; l]) (tbl (S (next_atom s)) [l; j])) = if Nat.eqb i j then one else zero) ->
    proj_contract s n0 p k.
  Proof.
    intros H r j Hj.
    transitivity (sum_upto (wdim s (ew s n0))
                    (fun i => mul (node_value s tbl p (upd r (ew s n0) i)) (if Nat.eqb j i then one else zero))).
    - apply (sum_upto_ext R zero add). intros i Hi. rewrite (H i j Hi Hj), (Nat.eqb_sym i j). reflexivity.
    - rewrite (sum_upto_delta R zero one add mul SR (wdim s (ew s n0)) j (fun i => node_value s tbl p (upd r (ew s n0) i))).
      destruct (Nat.ltb_spec j (wdim s (ew s n0))); [reflexivity|lia].
  Qed.
End ProjPair.

(* ==== 3. the canonical-form layer as runs of edit operations ================================================= *)
(* split_qr_contract_r_to_neighbour *)
Definition qr_ops (s : store) (n nb : id) (m : mode) (rid : id) : list op :=
  match aget n (nodes s) with
  | None => []
  | Some nd => let '(q, r) := build_qr_leg_specs nd nb in [Split n q r n rid 0 m 0; Contract nb rid nb]
  end.

Lemma qr_traced s n nb m rid s' : wf s -> aget rid (nodes s) = None ->
  qr_to_neighbour s n nb m rid = Some s' -> traced s (qr_ops s n nb m rid) s'.
Proof.
  intros W Hrid H.
  assert (Wb : wfb s = true) by (apply wf_wfb; exact W).
  assert (Hr : amem rid (nodes s) = false) by (apply amem_false; exact Hrid).
  destruct (qr_to_neighbour_effect s n nb m rid s' Wb Hr H) as (nd & nd' & t' & leg & df & nbn & nbn' & En & Hin & _).
  unfold qr_to_neighbour in H. unfold qr_ops. rewrite En in *.
  destruct (build_qr_leg_specs nd nb) as [q r] eqn:Eqr.
  destruct (split_nodes s n q r n rid 0 m 0) as [s1|] eqn:Es; [|discriminate].
  assert (Hspec : spec_ok s n q r).
  { intros nd0 E0. rewrite En in E0. injection E0 as <-. unfold build_qr_leg_specs in Eqr.
    assert (Hopen : forall l, In l (seq (nvirt nd) (nopen nd)) -> nvirt nd <= l) by (intros l Hl; apply in_seq in Hl; lia).
    destruct (match parent nd with Some p => Nat.eqb p nb | None => false end) eqn:Hco; injection Eqr as <- <-.
    - destruct (parent nd) as [p|] eqn:Hpp; [|discriminate]. apply Nat.eqb_eq in Hco. subst p.
      split; unfold leg_ok; cbn [ls_parent ls_root ls_children ls_open].
      + split; [discriminate|]. split; [intros Hr0; apply is_root_spec in Hr0; tcongr|]. split; [apply incl_refl|exact Hopen].
      + split; [intros x [= <-]; exact Hpp|]. split; [discriminate|]. split; [intros x []|intros l []].
    - assert (Hc : In nb (children nd)).
      { apply in_neighbouring in Hin. destruct Hin as [Hpp|Hc]; [|exact Hc]. rewrite Hpp, Nat.eqb_refl in Hco. discriminate. }
      split; unfold leg_ok; cbn [ls_parent ls_root ls_children ls_open].
      + split; [intros x Hx; exact Hx|]. split; [intros Hr0; apply is_root_spec; exact Hr0|].
        split; [intros x Hx; eapply remove_first_In; eauto|exact Hopen].
      + split; [discriminate|]. split; [discriminate|]. split; [intros x [<-|[]]; exact Hc|intros l []]. }
  assert (Hids : ids_ok s n n rid).
  { split; [left; reflexivity|right]. apply aget_None. exact Hrid. }
  apply (traced_cons s (Split n q r n rid 0 m 0) _ s1 s' Es (conj Hspec Hids) eq_refl).
  apply (traced_one s1 (Contract nb rid nb) s' H); [left; reflexivity|reflexivity].
Qed.

(* canonical_form: the farthest-first sweep *)
Definition canon_f (d : list (id * nat)) (m : mode) (rid : id) (s : store) (n : id) : option store :=
  match aget n (nodes s) with
  | None => None
  | Some nd => match first_min d (neighbouring_nodes nd) None with
               | Some nb => qr_to_neighbour s n nb m rid
               | None => None
               end
  end.
Definition canon_g (d : list (id * nat)) (m : mode) (rid : id) (s : store) (n : id) : list op :=
  match aget n (nodes s) with
  | None => []
  | Some nd => match first_min d (neighbouring_nodes nd) None with
               | Some nb => qr_ops s n nb m rid
               | None => []
               end
  end.
Definition canonical_form_ops (cs : cstore) (c : id) (m : mode) (rid : id) : list op :=
  let d := distance_to_node (fst cs) c in
  fold_ops (canon_f d m rid) (canon_g d m rid) (sweep_order d) (fst cs).

(* the invariant carried through the loops of this layer *)
Definition okst (rid : id) (s : store) : Prop := wf s /\ aget rid (nodes s) = None.

Lemma qr_okst rid s n nb m s' : okst rid s -> qr_to_neighbour s n nb m rid = Some s' -> okst rid s'.
Proof. intros [W Hr] H. destruct (qr_step_kept s n nb m rid s' W Hr H) as (W' & Hr' & _). split; assumption. Qed.

Theorem canonical_form_traced cs c m rid cs' : wf (fst cs) -> aget rid (nodes (fst cs)) = None ->
  canonical_form cs c m rid = Some cs' -> traced (fst cs) (canonical_form_ops cs c m rid) (fst cs').
Proof.
  intros W Hr H. rewrite canonical_form_unfold in H. destruct (negb (amem c (nodes (fst cs)))); [discriminate|].
  set (d := distance_to_node (fst cs) c) in *.
  destruct (fold_left (canon_step d m rid) (sweep_order d) (Some (fst cs))) as [sf|] eqn:F; [|discriminate].
  injection H as <-. cbn [fst].
  change (canon_step d m rid) with (ofold (canon_f d m rid)) in F.
  destruct (fold_traced (fun s => s) (canon_f d m rid) (canon_g d m rid) (fun _ s => okst rid s)) with (l := sweep_order d) (x := fst cs) (x' := sf)
    as [T _]; [|split; assumption|exact F|exact T].
  intros n t s s' I E. split; [|unfold canon_f in E; destruct (aget n (nodes s)); [|discriminate];
                                 destruct (first_min _ _ _); [|discriminate]; eapply qr_okst; eauto].
  unfold canon_f in E. unfold canon_g. destruct (aget n (nodes s)) as [nd|]; [|discriminate].
  destruct (first_min d (neighbouring_nodes nd) None) as [nb|]; [|discriminate].
  destruct I as [Ws Hrs]. apply qr_traced; assumption.
Qed.

(* move_orthogonalization_center: QR steps along the path *)
Definition move_f (m : mode) (rid : id) (cs : cstore) (nb : id) : option cstore :=
  match cs with
  | (s', Some cur) => match qr_to_neighbour s' cur nb m rid with
                      | Some s'' => Some (s'', Some nb)
                      | None => None
                      end
  | _ => None
  end.
Definition move_g (m : mode) (rid : id) (cs : cstore) (nb : id) : list op :=
  match cs with
  | (s', Some cur) => qr_ops s' cur nb m rid
  | _ => []
  end.
Definition move_center_ops (cs : cstore) (c : id) (m : mode) (rid : id) : list op :=
  match snd cs with
  | None => []
  | Some c0 => if Nat.eqb c0 c then [] else
               fold_ops (move_f m rid) (move_g m rid) (tl (path_from_to (fst cs) c0 c)) cs
  end.

Theorem move_center_traced cs c m rid cs' : wf (fst cs) -> aget rid (nodes (fst cs)) = None ->
  move_center cs c m rid = Some cs' -> traced (fst cs) (move_center_ops cs c m rid) (fst cs').
Proof.
  destruct cs as [s oc]. cbn [fst]. intros W Hr H. unfold move_center in H. unfold move_center_ops. cbn [fst snd] in *.
  destruct oc as [c0|]; [|discriminate]. destruct (Nat.eqb c0 c).
  - injection H as <-. apply traced_nil.
  - change (fold_left (ofold (move_f m rid)) (tl (path_from_to s c0 c)) (Some (s, Some c0)) = Some cs') in H.
    destruct (fold_traced fst (move_f m rid) (move_g m rid) (fun _ x => okst rid (fst x)))
      with (l := tl (path_from_to s c0 c)) (x := (s, Some c0)) (x' := cs') as [T _]; [|split; assumption|exact H|exact T].
    intros nb t [s1 [cur|]] x' I E; cbn [move_f move_g fst] in *; [|discriminate].
    destruct (qr_to_neighbour s1 cur nb m rid) as [s2|] eqn:Eq; [|discriminate]. injection E as <-. cbn [fst].
    split; [destruct I; apply qr_traced; assumption|eapply qr_okst; eauto].
Qed.

(* ==== 4. svd_truncation ======================================================================================= *)
(* contract_and_split_with_parent *)
Definition cas_ops (kd : id -> nat) (rid : id) (cs : cstore) (n : id) : list op :=
  match aget n (nodes (fst cs)) with
  | None => []
  | Some nd =>
      match parent nd with
      | None => []
      | Some p => match legs_before_combination (fst cs) n p with
                  | None => []
                  | Some (cl, pl) =>
                      (* on a well-formed store the node's own leg specification never names a parent *)
                      match ls_parent cl with
                      | None => [Contract n p rid; Split rid cl pl n p 2 Reduced (kd n)]
                      | Some _ => []
                      end
                  end
      end
  end.

Theorem cas_traced kd rid cs n cs' : wf (fst cs) -> aget rid (nodes (fst cs)) = None ->
  contract_and_split kd rid cs n = Some cs' -> traced (fst cs) (cas_ops kd rid cs n) (fst cs').
Proof.
  destruct cs as [s oc]. cbn [fst snd]. intros W Hrid H. unfold contract_and_split in H. unfold cas_ops. cbn [fst] in *.
  destruct (aget n (nodes s)) as [nd|] eqn:En; [|discriminate].
  destruct (parent nd) as [p|] eqn:Hp; [|discriminate].
  destruct (legs_before_combination s n p) as [[cl pl]|] eqn:EL; [|discriminate].
  destruct (contract_nodes s n p rid) as [s1|] eqn:EC; [|discriminate].
  destruct (split_nodes s1 rid cl pl n p 2 Reduced (kd n)) as [s2|] eqn:ES; [|discriminate].
  destruct (aget n (nodes s2)) as [nd2|] eqn:En2; [|discriminate]. injection H as <-. cbn [fst snd].
  destruct (wf_parent_child s n nd p W En Hp) as (pn & Ep & Hnin).
  assert (Pn : pmap s n = Some (Some p)) by (rewrite pmap_aget, En; cbn; rewrite Hp; reflexivity).
  assert (Nnp : n <> p) by (intros ->; apply (wf_not_self_parent s p nd W En Hp)).
  assert (Nrn : rid <> n) by (intros ->; tcongr).
  assert (Nrp : rid <> p) by (intros ->; tcongr).
  assert (Vrid : view s rid = None) by (apply view_none; exact Hrid).
  unfold legs_before_combination in EL. rewrite En, Ep in EL.
  assert (Hm : memb n (children pn) = true) by (apply memb_In; exact Hnin). rewrite Hm in EL.
  assert (Hrn : is_root nd = false) by (unfold is_root; rewrite Hp; reflexivity). rewrite Hrn in EL. cbn [negb andb] in EL.
  injection EL as <- <-.
  set (tv := nvirt nd + nvirt pn - 2) in *.
  assert (Hokc : op_ok s (Contract n p rid)) by (right; right; apply (proj1 (aget_None _ _) Hrid)).
  destruct (contract_view_eff s n p rid s1 W EC Hokc) as (W1 & p' & c' & Hpc & Hne & Hpar & R1 & V1).
  assert (Hp' : p' = p /\ c' = n).
  { destruct Hpc as [[-> ->]|[-> ->]]; [|auto]. exfalso. apply (wf_no_2cycle s n p W Pn Hpar). }
  destruct Hp' as [-> ->].
  assert (V1r : view s1 rid = view s p) by (rewrite V1, Nat.eqb_refl; reflexivity).
  assert (V1n : view s1 n = None) by (rewrite V1, (eqbF' n rid), Nat.eqb_refl, orb_true_r by auto; reflexivity).
  assert (V1p : view s1 p = None) by (rewrite V1, (eqbF' p rid), Nat.eqb_refl by auto; reflexivity).
  assert (V1o : forall k, k <> rid -> k <> p -> k <> n -> view s1 k = reparent_view p n rid (view s k)).
  { intros k K1 K2 K3. rewrite V1, (eqbF' k rid), (eqbF' k p), (eqbF' k n) by assumption. reflexivity. }
  assert (ER : exists ndR, aget rid (nodes s1) = Some ndR).
  { destruct (aget rid (nodes s1)) as [x|] eqn:E; [eauto|]. apply view_none in E. rewrite V1r, (view_of _ _ _ Ep) in E. discriminate. }
  destruct ER as [ndR ER].
  assert (PR : parent ndR = parent pn).
  { pose proof V1r as E. rewrite (view_of _ _ _ ER), (view_of _ _ _ Ep) in E. injection E as E _. exact E. }
  assert (ChR : forall x, In x (children ndR) <-> (In x (children nd) \/ (In x (children pn) /\ x <> n))).
  { intros x. rewrite (wf_children_iff s1 rid ndR x W1 ER), (wf_children_iff s n nd x W En), (wf_children_iff s p pn x W Ep).
    destruct (Nat.eq_dec x rid) as [->|X1].
    { unfold pmap. rewrite V1r, Vrid. cbn. split; [intros E|intros [E|[E _]]; discriminate].
      exfalso. destruct (view s p) as [[q b]|] eqn:Evp; cbn in E; [|discriminate]. injection E as ->.
      apply pmap_view in Evp. destruct (wf_parent_present s p rid W Evp) as [x Ex]. tcongr. }
    destruct (Nat.eq_dec x p) as [->|X2].
    { unfold pmap at 1. rewrite V1p. cbn. split; [discriminate|intros [E|[E _]]].
      - exfalso. apply (wf_no_2cycle s n p W Pn E).
      - exfalso. rewrite pmap_aget, Ep in E. cbn in E. injection E as E. apply (wf_not_self_parent s p pn W Ep E). }
    destruct (Nat.eq_dec x n) as [->|X3].
    { unfold pmap at 1. rewrite V1n. cbn. split; [discriminate|intros [E|[_ E]]; [|contradiction]].
      exfalso. rewrite Pn in E. injection E as E. tcongr. }
    unfold pmap. rewrite (V1o x X1 X2 X3). destruct (view s x) as [[[q|] b]|] eqn:Evx; cbn.
    - destruct (Nat.eqb_spec q p) as [->|Hqp]; cbn [orb].
      + split; [intros _; right; auto|reflexivity].
      + destruct (Nat.eqb_spec q n) as [->|Hqn].
        * split; [intros _; left; reflexivity|reflexivity].
        * split; [intros [= E]; exfalso|intros [[= E]|[[= E] _]]; tcongr].
          subst q. apply pmap_view in Evx. destruct (wf_parent_present s x rid W Evx) as [y Ey]. tcongr.
    - split; [discriminate|intros [E|[E _]]; discriminate].
    - split; [discriminate|intros [E|[E _]]; discriminate]. }
  pose proof (wf_children_nodup s n nd W En) as NDn. pose proof (wf_children_nodup s p pn W Ep) as NDp.
  assert (LenR : length (children ndR) + 1 = length (children nd) + length (children pn)).
  { assert (Hperm : Permutation (children ndR) (children nd ++ remove_first n (children pn))).
    { apply NoDup_Permutation.
      - apply (wf_children_nodup s1 rid ndR W1 ER).
      - apply NoDup_app_iff. split; [exact NDn|]. split; [apply remove_first_NoDup; exact NDp|].
        intros x Hx Hx'. apply (In_remove_first x n _ NDp) in Hx'. destruct Hx' as [Hx' _].
        apply (wf_children_iff s n nd x W En) in Hx. apply (wf_children_iff s p pn x W Ep) in Hx'. tcongr.
      - intros x. rewrite ChR, in_app_iff, (In_remove_first x n _ NDp). reflexivity. }
    rewrite (Permutation_length Hperm), app_length. pose proof (remove_first_length n _ Hnin). tlia. }
  assert (NvR : nvirt ndR = tv).
  { unfold nvirt, tv, nvirt, nparents. rewrite PR, Hp. destruct (children pn); [destruct Hnin|]. cbn [length] in *. destruct (parent pn); tlia. }
  set (cl := Build_legspec None (children nd) (seq tv (nopen nd)) false) in *.
  set (pl := Build_legspec (parent pn) (remove_first n (children pn)) (seq (tv + nopen nd) (nlegs nd + nlegs pn - 2 - (tv + nopen nd))) (is_root pn)) in *.
  assert (Hspec : spec_ok s1 rid cl pl).
  { intros x Ex. rewrite ER in Ex. injection Ex as <-. split; unfold leg_ok; cbn [cl pl ls_parent ls_root ls_children ls_open].
    - split; [discriminate|]. split; [discriminate|]. split.
      + intros x Hx. apply ChR. left. exact Hx.
      + intros l Hl. apply in_seq in Hl. lia.
    - split; [intros q Hq; rewrite PR; exact Hq|]. split; [intros Hr; apply is_root_spec in Hr; rewrite PR; exact Hr|]. split.
      + intros x Hx. apply (In_remove_first x n _ NDp) in Hx. apply ChR. right. exact Hx.
      + intros l Hl. apply in_seq in Hl. lia. }
  assert (Hf1 : ~ In n (akeys (nodes s1))) by (apply aget_None; apply view_none; exact V1n).
  assert (Hf2 : ~ In p (akeys (nodes s1))) by (apply aget_None; apply view_none; exact V1p).
  apply (traced_cons s (Contract n p rid) _ s1 s2 EC Hokc eq_refl).
  apply (traced_one s1 (Split rid cl pl n p 2 Reduced (kd n)) s2 ES); [|reflexivity].
  split; [exact Hspec|]. split; right; assumption.
Qed.

Definition svd_f (kd : id -> nat) (rid : id) (cs : cstore) (n : id) : option cstore :=
  match move_center cs n Reduced rid with
  | Some cs1 => contract_and_split kd rid cs1 n
  | None => None
  end.
Definition svd_g (kd : id -> nat) (rid : id) (cs : cstore) (n : id) : list op :=
  move_center_ops cs n Reduced rid ++
  match move_center cs n Reduced rid with
  | Some cs1 => cas_ops kd rid cs1 n
  | None => []
  end.
(* the operations of svd_truncation(tree, params), in order *)
Definition svd_truncation_ops (kd : id -> nat) (rid : id) (cs : cstore) : list op :=
  fold_ops (svd_f kd rid) (svd_g kd rid) (removelast (linearise (fst cs))) cs.

Theorem svd_truncation_traced kd rid cs cs' : wf (fst cs) -> aget rid (nodes (fst cs)) = None ->
  svd_truncation kd rid cs = Some cs' -> traced (fst cs) (svd_truncation_ops kd rid cs) (fst cs').
Proof.
  intros W Hr H. unfold svd_truncation in H. unfold svd_truncation_ops.
  change (svd_step kd rid) with (ofold (svd_f kd rid)) in H.
  destruct (fold_traced fst (svd_f kd rid) (svd_g kd rid) (fun _ x => okst rid (fst x)))
    with (l := removelast (linearise (fst cs))) (x := cs) (x' := cs') as [T _]; [|split; assumption|exact H|exact T].
  intros n t x x' [Wx Hx] E. unfold svd_f in E. unfold svd_g.
  destruct (move_center x n Reduced rid) as [cs1|] eqn:Em; [|discriminate].
  pose proof (move_center_traced _ _ _ _ _ Wx Hx Em) as T1.
  destruct (move_center_kept _ _ _ _ _ Wx Hx Em) as (W1 & R1 & _).
  pose proof (cas_traced _ _ _ _ _ W1 R1 E) as T2.
  split; [apply (traced_app _ _ _ _ _ T1 T2)|].
  destruct (cas_spec kd rid cs1 n x' W1 R1 E) as (p & Pn & _ & W2 & _ & V2).
  split; [exact W2|]. apply view_none. rewrite V2. destruct (Nat.eqb_spec rid n) as [->|_].
  - exfalso. rewrite pmap_aget, R1 in Pn. discriminate.
  - apply view_none. exact R1.
Qed.

(* ==== 5. recursive_truncation ================================================================================== *)
(* one iteration of the first loop of truncate_node: tree.tensors[node_id], the identity on the bond, the
   identity replaced by the projector pair *)
Definition proj_f (tmp : tmpids) (kd : id -> nat) (n : id) (s : store) (c : id) : option store :=
  match access s n with
  | Some (s1, _, _) => insert_projector tmp s1 c n (kd c)
  | None => None
  end.
Definition proj_g (tmp : tmpids) (kd : id -> nat) (n : id) (s : store) (c : id) : list op :=
  [Access n; InsertIdentity c n (tmp 0 c n);
   Split (tmp 0 c n)
         {| ls_parent := Some n; ls_children := []; ls_open := []; ls_root := false |}
         {| ls_parent := None; ls_children := [c]; ls_open := []; ls_root := false |}
         (tmp 1 c n) (tmp 2 c n) 2 Reduced (kd c)].

(* contract_all_children(node_id, new_identifier) *)
Definition cac_ops (s : store) (n new : id) : list op :=
  match aget n (nodes s) with
  | None => []
  | Some nd => fold_ops (fun s' c => contract_nodes s' n c new) (fun _ c => [Contract n c new]) (children nd) s
  end.

Lemma cac_traced s n new s' :
  (forall nd c, aget n (nodes s) = Some nd -> In c (children nd) -> new = n \/ new = c) ->
  contract_all_children s n new = Some s' -> traced s (cac_ops s n new) s'.
Proof.
  intros Hnew H. unfold contract_all_children in H. unfold cac_ops. destruct (aget n (nodes s)) as [nd|] eqn:En; [|discriminate].
  change (fold_left (ofold (fun s' c => contract_nodes s' n c new)) (children nd) (Some s) = Some s') in H.
  destruct (fold_traced (fun x => x) (fun s' c => contract_nodes s' n c new) (fun _ c => [Contract n c new])
              (fun L _ => forall c, In c L -> new = n \/ new = c))
    with (l := children nd) (x := s) (x' := s') as [T _]; [|intros c Hc; apply (Hnew nd c eq_refl Hc)|exact H|exact T].
  intros c t x x' I E. split; [|intros c' Hc'; apply I; right; exact Hc'].
  apply (traced_one x (Contract n c new) x' E); [|reflexivity].
  destruct (I c (or_introl eq_refl)) as [->| ->]; [left; reflexivity|right; left; reflexivity].
Qed.

(* one iteration of the second loop: the projector node is taken over by its only child *)
Definition absorb_f (s : store) (pj : id) : option store :=
  match aget pj (nodes s) with
  | Some pn => match children pn with
               | [oc] => contract_all_children s pj oc
               | _ => None
               end
  | None => None
  end.
Definition absorb_g (s : store) (pj : id) : list op :=
  match aget pj (nodes s) with
  | Some pn => match children pn with
               | [oc] => cac_ops s pj oc
               | _ => []
               end
  | None => []
  end.

Lemma absorb_traced s pj s' : absorb_f s pj = Some s' -> traced s (absorb_g s pj) s'.
Proof.
  unfold absorb_f, absorb_g. destruct (aget pj (nodes s)) as [pn|] eqn:Ep; [|discriminate].
  destruct (children pn) as [|oc [|? ?]] eqn:Ech; try discriminate. intros H.
  apply cac_traced; [|exact H]. intros nd c E Hc. rewrite Ep in E. injection E as <-. rewrite Ech in Hc.
  destruct Hc as [<-|[]]. right. reflexivity.
Qed.

(* the non-recursive part of truncate_node(node_id) *)
Definition local_ops (tmp : tmpids) (kd : id -> nat) (s : store) (n : id) : list op :=
  match aget n (nodes s) with
  | None => []
  | Some nd =>
      fold_ops (proj_f tmp kd n) (proj_g tmp kd n) (children nd) s ++
      match fold_left (ofold (proj_f tmp kd n)) (children nd) (Some s) with
      | None => []
      | Some s1 =>
          cac_ops s1 n n ++
          match contract_all_children s1 n n with
          | None => []
          | Some s2 => match aget n (nodes s2) with
                       | None => []
                       | Some nd2 => fold_ops absorb_f absorb_g (children nd2) s2
                       end
          end
      end
  end.

Section LocalTrace.
  Variables (tmp : tmpids) (kd : id -> nat) (s0 : store) (n : id) (nd0 : node).
  Hypothesis W0 : wf s0.
  Hypothesis En0 : aget n (nodes s0) = Some nd0.
  Let D := children nd0.
  Let T (j : nat) (c : id) : id := tmp j c n.
  Hypothesis Tfresh : forall j c, j <= 2 -> In c D -> view s0 (T j c) = None.
  Hypothesis Tinj : forall j j' c c', j <= 2 -> j' <= 2 -> In c D -> In c' D -> T j c = T j' c' -> j = j' /\ c = c'.
  Local Notation IV := (Inv tmp kd s0 n nd0).

  (* the three operations of one iteration are accepted inside their preconditions (same case analysis as
     TruncTreeProofs.step1, which tracks the view) *)
  Lemma step1_traced sg s c s' : IV sg s -> In c D -> sg c = 0 -> proj_f tmp kd n s c = Some s' ->
    traced s (proj_g tmp kd n s c) s'.
  Proof.
    intros I Hc Hsg H. pose proof I as (Ws & Rs & St & Oth).
    unfold proj_f in H. destruct (access s n) as [[[s1 nd1] t1]|] eqn:Ha; [|discriminate].
    destruct (access_view _ _ _ _ _ Ws Ha) as (W1 & V1 & R1).
    unfold insert_projector in H. change (tmp 0 c n) with (T 0 c) in H. change (tmp 1 c n) with (T 1 c) in H.
    change (tmp 2 c n) with (T 2 c) in H.
    destruct (insert_identity s1 c n (T 0 c)) as [sa|] eqn:Hi; [|discriminate].
    destruct (ii_view _ _ _ _ _ W1 Hi) as (Wa & Ra & Hn0 & b & Vc & Va).
    pose proof (St c Hc) as Sc. rewrite Hsg in Sc. destruct Sc as (Sc1 & Sc2 & Sc3).
    rewrite V1, Sc1, (D_view s0 n nd0 W0 En0 c Hc) in Vc. injection Vc as <-.
    assert (N01 : T 0 c <> T 1 c) by (apply (T_distinct tmp n nd0 Tinj); auto).
    assert (N02 : T 0 c <> T 2 c) by (apply (T_distinct tmp n nd0 Tinj); auto).
    assert (N12 : T 1 c <> T 2 c) by (apply (T_distinct tmp n nd0 Tinj); auto).
    assert (Nc0 : c <> T 0 c) by (apply (c_not_T tmp s0 n nd0 W0 En0 Tfresh); auto).
    assert (Nc1 : c <> T 1 c) by (apply (c_not_T tmp s0 n nd0 W0 En0 Tfresh); auto).
    assert (Nc2 : c <> T 2 c) by (apply (c_not_T tmp s0 n nd0 W0 En0 Tfresh); auto).
    set (o := Build_legspec (Some n) [] [] false) in H. set (i := Build_legspec None [c] [] false) in H.
    set (b0c := match view s0 c with Some (_, b) => b | None => 0 end) in *.
    assert (VI : view sa (T 0 c) = Some (Some n, b0c)) by (rewrite Va, Nat.eqb_refl; reflexivity).
    assert (VC : view sa c = Some (Some (T 0 c), b0c)) by (rewrite Va, (eqbF c (T 0 c)), Nat.eqb_refl by assumption; reflexivity).
    assert (Hspec : spec_ok sa (T 0 c) o i).
    { intros ndI EI. rewrite (view_of _ _ _ EI) in VI. injection VI as HpI _.
      split; unfold leg_ok; cbn [o i ls_parent ls_root ls_children ls_open].
      - split; [intros q [= <-]; exact HpI|]. split; [discriminate|]. split; [intros x []|intros l []].
      - split; [discriminate|]. split; [discriminate|]. split; [|intros l []].
        intros x [<-|[]]. apply (wf_children_iff sa (T 0 c) ndI c Wa EI). eapply pmap_view; eauto. }
    assert (Hf1 : ~ In (T 1 c) (akeys (nodes sa))).
    { apply aget_None. apply view_none. rewrite Va, (eqbF (T 1 c) (T 0 c)), (eqbF (T 1 c) c), V1 by auto. exact Sc2. }
    assert (Hf2 : ~ In (T 2 c) (akeys (nodes sa))).
    { apply aget_None. apply view_none. rewrite Va, (eqbF (T 2 c) (T 0 c)), (eqbF (T 2 c) c), V1 by auto. exact Sc3. }
    unfold proj_g. change (tmp 0 c n) with (T 0 c). change (tmp 1 c n) with (T 1 c). change (tmp 2 c n) with (T 2 c). fold o i.
    apply (traced_cons s (Access n) _ s1 s'); [cbn [step]; rewrite Ha; reflexivity|exact Logic.I|reflexivity|].
    apply (traced_cons s1 (InsertIdentity c n (T 0 c)) _ sa s' Hi Logic.I eq_refl).
    apply (traced_one sa (Split (T 0 c) o i (T 1 c) (T 2 c) 2 Reduced (kd c)) s' H); [|reflexivity].
    split; [exact Hspec|]. split; right; assumption.
  Qed.

  Theorem local_traced s3 orig : truncate_local tmp kd s0 n = Some (s3, orig) -> traced s0 (local_ops tmp kd s0 n) s3.
  Proof.
    unfold truncate_local, local_ops. rewrite En0. fold D.
    change (proj_step tmp kd n) with (ofold (proj_f tmp kd n)).
    destruct (fold_left (ofold (proj_f tmp kd n)) D (Some s0)) as [s1|] eqn:F1; [|discriminate].
    (* first loop *)
    assert (T1 : traced s0 (fold_ops (proj_f tmp kd n) (proj_g tmp kd n) D s0) s1).
    { destruct (fold_traced (fun x => x) (proj_f tmp kd n) (proj_g tmp kd n)
                  (fun L s => exists sg, IV sg s /\ NoDup L /\ forall c, In c L -> In c D /\ sg c = 0))
        with (l := D) (x := s0) (x' := s1) as [T1 _]; [| |exact F1|exact T1].
      - intros c t s s' (sg & I & Hnd & HL) E. inversion Hnd as [|? ? Hni Hnd']; subst.
        destruct (HL c (or_introl eq_refl)) as [HcD Hsg]. split; [apply (step1_traced sg s c s' I HcD Hsg E)|].
        exists (TruncTreeProofs.upd sg c 1). split; [apply (step1 tmp kd s0 n nd0 W0 En0 Tfresh Tinj sg s c s' I HcD Hsg E)|].
        split; [exact Hnd'|]. intros c' Hc'. destruct (HL c' (or_intror Hc')) as [A B]. split; [exact A|].
        unfold TruncTreeProofs.upd. destruct (Nat.eqb_spec c' c) as [->|]; [contradiction|exact B].
      - exists (fun _ => 0). split; [apply (Inv_init tmp kd s0 n nd0 W0 Tfresh)|].
        split; [apply (wf_children_nodup s0 n nd0 W0 En0)|]. intros c Hc. split; [exact Hc|reflexivity]. }
    destruct (contract_all_children s1 n n) as [s2|] eqn:F2; [|discriminate].
    assert (T2 : traced s1 (cac_ops s1 n n) s2) by (apply cac_traced; [intros; left; reflexivity|exact F2]).
    destruct (aget n (nodes s2)) as [nd2|] eqn:E2; [|discriminate].
    change absorb_step with (ofold absorb_f).
    destruct (fold_left (ofold absorb_f) (children nd2) (Some s2)) as [s3'|] eqn:F3; [|discriminate].
    intros [= <- <-].
    assert (T3 : traced s2 (fold_ops absorb_f absorb_g (children nd2) s2) s3').
    { destruct (fold_traced (fun x => x) absorb_f absorb_g (fun _ _ => True))
        with (l := children nd2) (x := s2) (x' := s3') as [T3 _]; [|exact Logic.I|exact F3|exact T3].
      intros pj t s s' _ E. split; [apply absorb_traced; exact E|exact Logic.I]. }
    apply (traced_app _ _ _ _ _ T1). apply (traced_app _ _ _ _ _ T2 T3).
  Qed.
End LocalTrace.

(* truncate_node: the local part, then the recursion into the original children *)
Fixpoint truncate_node_ops (fuel : nat) (tmp : tmpids) (kd : id -> nat) (s : store) (n : id) : list op :=
  match fuel with
  | O => []
  | S f =>
      local_ops tmp kd s n ++
      match truncate_local tmp kd s n with
      | None => []
      | Some (s3, orig) => fold_ops (truncate_node f tmp kd) (truncate_node_ops f tmp kd) orig s3
      end
  end.

Section RecTrace.
  Variables (tmp : tmpids) (kd : id -> nat).
  Hypothesis Tinj : tmp_inj tmp.

  Theorem truncate_node_traced : forall f s n s', wf s -> tmp_fresh tmp s ->
    truncate_node f tmp kd s n = Some s' -> traced s (truncate_node_ops f tmp kd s n) s'.
  Proof.
    induction f as [|f IHf]; intros s n s' W F H; [discriminate|].
    cbn [truncate_node truncate_node_ops] in *. destruct (truncate_local tmp kd s n) as [[s3 orig]|] eqn:EL; [|discriminate].
    assert (En : exists nd, aget n (nodes s) = Some nd).
    { unfold truncate_local in EL. destruct (aget n (nodes s)) as [nd|]; [eauto|discriminate]. }
    destruct En as [nd En].
    pose proof (fresh_local tmp s n nd W En F) as Fl.
    pose proof (fun j j' c c' Hj Hj' (_ : In c (children nd)) (_ : In c' (children nd)) => Tinj j j' c c' n Hj Hj') as Til.
    pose proof (local_traced tmp kd s n nd W En Fl Til s3 orig EL) as T1.
    destruct (local_spec tmp kd s n nd W En Fl Til s3 orig EL) as (-> & W3 & R3 & V3).
    assert (Hch : forall k, In k (children nd) <-> pmap s k = Some (Some n)) by (intros k; apply wf_children_iff; assumption).
    assert (P3 : forall k, pmap s3 k = pmap s k).
    { intros k. unfold pmap at 1. rewrite V3. destruct (memb k (children nd)) eqn:M; [|reflexivity].
      apply memb_In in M. apply Hch in M. rewrite M. reflexivity. }
    apply (traced_app _ _ _ _ _ T1).
    change (fold_left (ofold (truncate_node f tmp kd)) (children nd) (Some s3) = Some s') in H.
    destruct (fold_traced (fun x => x) (truncate_node f tmp kd) (truncate_node_ops f tmp kd) (fun _ x => wf x /\ tmp_fresh tmp x))
      with (l := children nd) (x := s3) (x' := s') as [T2 _]; [| |exact H|exact T2].
    - intros c t x x' [Wx Fx] E. split; [apply IHf; assumption|].
      destruct (truncate_node_spec tmp kd Tinj f x c x' Wx Fx E) as (W1 & _ & P1 & _).
      split; [exact W1|apply (tmp_fresh_pmap _ _ _ P1 Fx)].
    - split; [exact W3|apply (tmp_fresh_pmap _ _ _ P3 F)].
  Qed.
End RecTrace.

(* the operations of recursive_truncation(tree, svd_params), in order *)
Definition recursive_truncation_ops (tmp : tmpids) (kd : id -> nat) (rid : id) (cs : cstore) : list op :=
  match root (fst cs) with
  | None => []
  | Some r =>
      let have := match snd cs with Some c => Nat.eqb r c | None => false end in
      (if have then [] else canonical_form_ops cs r Reduced rid) ++
      match (if have then Some cs else canonical_form cs r Reduced rid) with
      | None => []
      | Some cs1 => truncate_node_ops (length (nodes (fst cs1))) tmp kd (fst cs1) r
      end
  end.

Theorem recursive_truncation_traced tmp kd rid cs cs' :
  wf (fst cs) -> aget rid (nodes (fst cs)) = None -> tmp_fresh tmp (fst cs) -> tmp_inj tmp ->
  recursive_truncation tmp kd rid cs = Some cs' -> traced (fst cs) (recursive_truncation_ops tmp kd rid cs) (fst cs').
Proof.
  destruct cs as [s oc]. cbn [fst snd]. intros W Hr F Tinj H. unfold recursive_truncation in H. unfold recursive_truncation_ops.
  cbn [fst snd] in *. destruct (root s) as [r|] eqn:Er; [|discriminate].
  cbv zeta in *. set (have := match oc with Some c => Nat.eqb r c | None => false end) in *.
  assert (G : forall cs1 l1, traced s l1 (fst cs1) -> kept rid s (fst cs1) ->
            match truncate_node (length (nodes (fst cs1))) tmp kd (fst cs1) r with
            | Some s' => Some (s', snd cs1) | None => None end = Some cs' ->
            traced s (l1 ++ truncate_node_ops (length (nodes (fst cs1))) tmp kd (fst cs1) r) (fst cs')).
  { intros cs1 l1 T1 (W1 & R1 & Rt1 & P1) H1.
    destruct (truncate_node _ tmp kd (fst cs1) r) as [s'|] eqn:ET; [|discriminate]. injection H1 as <-. cbn [fst snd].
    apply (traced_app _ _ _ _ _ T1). apply (truncate_node_traced tmp kd Tinj _ _ _ _ W1 (tmp_fresh_pmap _ _ _ P1 F) ET). }
  destruct have.
  - apply (G (s, oc) []); [apply traced_nil|apply kept_refl; assumption|exact H].
  - destruct (canonical_form (s, oc) r Reduced rid) as [cs1|] eqn:Ec; [|discriminate].
    apply (G cs1 _ (canonical_form_traced (s, oc) r Reduced rid cs1 W Hr Ec)); [|exact H].
    apply (canonical_form_kept s oc r Reduced rid cs1 W Hr Ec).
Qed.

(* ==== 6. nothing discarded ========================================================================================= *)
(* the bond of a recorded factorisation has the full dimension min(rows, columns) of the factorised
   matricisation: rows = the legs of the first factor but its last (the bond), columns = the legs of the second
   factor but its first (the bond) *)
Definition full_rankb (s' : store) (d : kdef) : bool :=
  Nat.eqb (wdim s' (kbond d))
          (Nat.min (prod_list (map (wdim s') (removelast (atom_wires s' (kq d)))))
                   (prod_list (map (wdim s') (tl (atom_wires s' (kr d)))))).

Fixpoint alongb (P : store -> op -> store -> bool) (s : store) (ops : list op) : bool :=
  match ops with
  | [] => true
  | o :: t => match step s o with Some s' => P s o s' && alongb P s' t | None => alongb P s t end
  end.

Lemma alongb_along P : forall ops s, alongb P s ops = true <-> along (fun s o s' => P s o s' = true) s ops.
Proof.
  induction ops as [|o t IH]; intros s; cbn [alongb along]; [tauto|]. destruct (step s o) as [s'|]; [|apply IH].
  rewrite andb_true_iff, IH. reflexivity.
Qed.

(* the product of the dimensions of the legs of p's tensor other than the wire cw *)
Definition rest_dim (s : store) (p : id) (cw : wire) : nat :=
  prod_list (map (wdim s) (remove_first cw (axes (tens s p)))).

(* every truncating factorisation (kind-2 split) of the run keeps the full dimension:
   - a truncated SVD (the split node names no parent on the first factor's side: contract_and_split_with_parent):
     the bond is min(rows, columns);
   - a projector pair below the node p (computed from the SVD of p's tensor w.r.t. the leg cw toward the pair):
     the width of the projector is min(dimension of cw, product of p's other legs) *)
Definition nd_step (s : store) (o : op) (s' : store) : bool :=
  match o with
  | Split n0 o _ _ _ kind _ k =>
      if Nat.eqb kind 2 then
        match ls_parent o with
        | Some p => Nat.eqb k (Nat.min (wdim s (ew s n0)) (rest_dim s p (ew s n0)))
        | None => full_rankb s' (last (defs s') dflt_def)
        end
      else true
  | _ => true
  end.
Definition nothing_discarded (s : store) (ops : list op) : Prop := alongb nd_step s ops = true.

(* on a split, full rank says: the bond has the dimension the model gives the UNTRUNCATED factorisation
   (kind 1) of the same tensor and leg bipartition *)
Theorem full_rank_split s n o i oid iid kind m rbond s' :
  wfs s -> split_nodes s n o i oid iid kind m rbond = Some s' ->
  exists s1 nd t ol il,
    access s n = Some (s1, nd, t) /\ find_leg_values nd o = Some ol /\ find_leg_values nd i = Some il /\
    (full_rankb s' (last (defs s') dflt_def) = true <->
     sp_bd s kind m rbond (permute 0 ol (axes t)) (permute 0 il (axes t))
     = sp_bd s 1 m rbond (permute 0 ol (axes t)) (permute 0 il (axes t))).
Proof.
  intros WS Hs. pose proof (ws_wf s WS) as W.
  destruct (split_new_def s n o i oid iid kind m rbond s' dflt_def W Hs)
    as (s1 & nd & t & ol & il & bd & Ha & _ & Eol & Eil & Pm & Ebd & Hlast & _ & _ & _ & _ & _ & Hd & Hwb).
  destruct (split_atab _ _ _ _ _ _ _ _ _ _ Hs) as (s1' & nd' & t' & ol' & il' & Ha' & Eol' & Eil' & Etab).
  rewrite Ha in Ha'. injection Ha' as <- <- <-. rewrite Eol in Eol'. injection Eol' as <-. rewrite Eil in Eil'. injection Eil' as <-.
  exists s1, nd, t, ol, il. split; [exact Ha|]. split; [exact Eol|]. split; [exact Eil|].
  set (ow := permute 0 ol (axes t)) in *. set (iw := permute 0 il (axes t)) in *.
  assert (Hq : atom_wires s' (next_atom s) = ow ++ [next_wire s]).
  { unfold atom_wires. rewrite Etab, InvProofs.aget_app, InvProofs.aget_app, (atab_fresh s (next_atom s) WS (le_n _)).
    cbn [aget]. rewrite Nat.eqb_refl. reflexivity. }
  assert (Hr : atom_wires s' (S (next_atom s)) = next_wire s :: iw).
  { unfold atom_wires. rewrite Etab, InvProofs.aget_app, InvProofs.aget_app, (atab_fresh s (S (next_atom s)) WS (le_S _ _ (le_n _))).
    cbn [aget]. destruct (Nat.eqb_spec (S (next_atom s)) (next_atom s)) as [Hq'|_]; [lia|]. rewrite Nat.eqb_refl. reflexivity. }
  destruct (split_access_facts _ _ _ _ _ W Ha) as (nd0 & t0 & _ & _ & _ & _ & W1 & _ & Et1 & _).
  destruct (sp_access_next _ _ _ _ _ Ha) as (_ & Nw1 & _).
  assert (Hperm_in : forall p, incl p (ol ++ il) -> forall w, In w (permute 0 p (axes t)) -> w < next_wire s).
  { intros p Hp w Hw. unfold permute in Hw. apply in_map_iff in Hw. destruct Hw as (j & <- & Hj).
    assert (Hlt : j < length (axes t)).
    { apply Hp in Hj. apply (Permutation_in _ Pm) in Hj. apply in_seq in Hj. lia. }
    rewrite <- Nw1. apply (wf_wires s1 W1 n t _ Et1). apply nth_In. exact Hlt. }
  assert (Hwd : forall l, (forall w, In w l -> w < next_wire s) -> map (wdim s') l = map (wdim s) l).
  { intros l Hl. apply map_ext_in. intros w Hw. apply (wdim_old s s' _ _ W Hd). apply Hl. exact Hw. }
  unfold full_rankb. rewrite Hlast. cbn [kbond kq kr]. rewrite Hq, Hr, removelast_last. cbn [tl].
  rewrite Hwb, (Hwd ow (Hperm_in ol (incl_appl _ (incl_refl _)))), (Hwd iw (Hperm_in il (incl_appr _ (incl_refl _)))), Nat.eqb_eq, Ebd. fold ow iw. unfold sp_bd at 2. reflexivity.
Qed.


(* ==== 7. the shape of the traces: plain operations and projector pairs =========================================== *)
Definition is_some {A} (o : option A) : bool := match o with Some _ => true | None => false end.

(* an edit operation that preserves the value on its own (under its kernel contract): everything but an
   inserted identity and the replacement of a node that names its parent by an explicit pair *)
Definition plain (o : op) : bool :=
  match o with
  | AddRoot _ _ | AddChild _ _ _ _ _ | InsertIdentity _ _ _ => false
  | Split _ o _ _ _ kind _ _ => negb (Nat.eqb kind 2 && is_some (ls_parent o))
  | _ => true
  end.

Inductive blocks : list op -> Prop :=
| bl_nil : blocks []
| bl_plain o t : plain o = true -> blocks t -> blocks (o :: t)
| bl_pair c p new oid iid m k t :
    blocks t -> blocks (InsertIdentity c p new :: Split new (po p) (pi c) oid iid 2 m k :: t).

Lemma blocks_app l1 l2 : blocks l1 -> blocks l2 -> blocks (l1 ++ l2).
Proof. intros B1 B2. induction B1; cbn [app]; [exact B2|apply bl_plain; assumption|apply bl_pair; assumption]. Qed.

Lemma blocks_fold {S A : Type} (f : S -> A -> option S) (g : S -> A -> list op) :
  (forall x a, blocks (g x a)) -> forall l x, blocks (fold_ops f g l x).
Proof.
  intros H. induction l as [|a t IH]; intros x; cbn [fold_ops]; [constructor|].
  apply blocks_app; [apply H|]. destruct (f x a); [apply IH|constructor].
Qed.

Lemma blocks_qr s n nb m rid : blocks (qr_ops s n nb m rid).
Proof.
  unfold qr_ops. destruct (aget n (nodes s)) as [nd|]; [|constructor]. destruct (build_qr_leg_specs nd nb) as [q r].
  apply bl_plain; [reflexivity|]. apply bl_plain; [reflexivity|constructor].
Qed.

Lemma blocks_canonical cs c m rid : blocks (canonical_form_ops cs c m rid).
Proof.
  unfold canonical_form_ops. apply blocks_fold. intros s n. unfold canon_g.
  destruct (aget n (nodes s)) as [nd|]; [|constructor]. destruct (first_min _ _ _); [apply blocks_qr|constructor].
Qed.

Lemma blocks_move cs c m rid : blocks (move_center_ops cs c m rid).
Proof.
  unfold move_center_ops. destruct (snd cs) as [c0|]; [|constructor]. destruct (Nat.eqb c0 c); [constructor|].
  apply blocks_fold. intros [s' [cur|]] nb; cbn [move_g]; [apply blocks_qr|constructor].
Qed.

Lemma blocks_cas kd rid cs n : blocks (cas_ops kd rid cs n).
Proof.
  unfold cas_ops. destruct (aget n (nodes (fst cs))) as [nd|]; [|constructor]. destruct (parent nd) as [p|]; [|constructor].
  destruct (legs_before_combination (fst cs) n p) as [[cl pl]|]; [|constructor].
  destruct (ls_parent cl) eqn:E; [constructor|]. apply bl_plain; [reflexivity|]. apply bl_plain; [|constructor].
  cbn [plain]. rewrite E. reflexivity.
Qed.

Lemma blocks_svd kd rid cs : blocks (svd_truncation_ops kd rid cs).
Proof.
  unfold svd_truncation_ops. apply blocks_fold. intros x n. unfold svd_g. apply blocks_app; [apply blocks_move|].
  destruct (move_center x n Reduced rid); [apply blocks_cas|constructor].
Qed.

Lemma blocks_cac s n new : blocks (cac_ops s n new).
Proof.
  unfold cac_ops. destruct (aget n (nodes s)) as [nd|]; [|constructor]. apply blocks_fold. intros _ c.
  apply bl_plain; [reflexivity|constructor].
Qed.

Lemma blocks_local tmp kd s n : blocks (local_ops tmp kd s n).
Proof.
  unfold local_ops. destruct (aget n (nodes s)) as [nd|]; [|constructor]. apply blocks_app.
  - apply blocks_fold. intros x c. unfold proj_g. apply bl_plain; [reflexivity|].
    apply (bl_pair c n (tmp 0 c n) (tmp 1 c n) (tmp 2 c n) Reduced (kd c) []). constructor.
  - destruct (fold_left _ _ _) as [s1|]; [|constructor]. apply blocks_app; [apply blocks_cac|].
    destruct (contract_all_children s1 n n) as [s2|]; [|constructor]. destruct (aget n (nodes s2)) as [nd2|]; [|constructor].
    apply blocks_fold. intros x pj. unfold absorb_g. destruct (aget pj (nodes x)) as [pn|]; [|constructor].
    destruct (children pn) as [|oc [|? ?]]; try constructor. apply blocks_cac.
Qed.

Lemma blocks_truncate_node tmp kd : forall f s n, blocks (truncate_node_ops f tmp kd s n).
Proof.
  induction f as [|f IH]; intros s n; cbn [truncate_node_ops]; [constructor|].
  apply blocks_app; [apply blocks_local|]. destruct (truncate_local tmp kd s n) as [[s3 orig]|]; [|constructor].
  apply blocks_fold. intros x c. apply IH.
Qed.

Lemma blocks_recursive tmp kd rid cs : blocks (recursive_truncation_ops tmp kd rid cs).
Proof.
  unfold recursive_truncation_ops. destruct (root (fst cs)) as [r|]; [|constructor]. cbv zeta.
  apply blocks_app; [destruct (match snd cs with Some c => Nat.eqb r c | None => false end); [constructor|apply blocks_canonical]|].
  match goal with |- blocks (match ?X with _ => _ end) => destruct X as [cs1|] end; [apply blocks_truncate_node|constructor].
Qed.

(* ==== 8. exactness contracts, kernel contracts, the theorems ===================================================== *)
Section Identity.
  Variable R : Type.
  Variables (zero one : R) (add mul : R -> R -> R).
  Hypothesis SR : comm_semiring zero one add mul.
  Variable tbl : nat -> list nat -> R.

  Local Notation net_value := (net_value zero one add mul).

  (* the exactness contract of one step: a recorded factorisation multiplies back to its input over the new bond
     (QR, SVD); a projector pair acts as the identity on the tensor above it.  No condition on the identity
     tensor of insert_identity: it never survives (it is replaced by the pair at once) *)
  Definition exact_step (s : store) (o : op) (s' : store) : Prop :=
    match o with
    | Split n0 o _ _ _ kind _ k =>
        match kind, ls_parent o with
        | 2, Some p => proj_contract R zero one add mul tbl s n0 p k
        | _, _ => def_holds zero one add mul s' tbl (last (defs s') dflt_def)
        end
    | _ => True
    end.

  Lemma exact_step_plain s o s' : plain o = true -> exact_step s o s' -> step_contract R zero one add mul tbl s o s'.
  Proof.
    destruct o; cbn [plain exact_step step_contract]; try discriminate; auto.
    destruct kind as [|[|[|kk]]]; cbn [Nat.eqb andb negb]; auto. destruct (ls_parent o); [discriminate|auto].
  Qed.

  Lemma plain_edit o : plain o = true -> is_edit_op o = true.
  Proof. destruct o; cbn; auto. Qed.

  Theorem blocks_net_value : forall ops, blocks ops -> forall s s',
    traced s ops s' -> wfs s -> along exact_step s ops ->
    wfs s' /\ Permutation (open_wires s') (open_wires s) /\ forall rho, net_value s' tbl rho = net_value s tbl rho.
  Proof.
    induction 1 as [|o t Hp B IH|c p new oid iid m k t B IH]; intros s s' T WS A.
    - destruct T as (Rn & _). cbn in Rn. injection Rn as <-. split; [exact WS|]. split; reflexivity.
    - destruct (traced_cons_inv _ _ _ _ T) as (s1 & Hs & Hok & He & Tt). cbn [along] in A. rewrite Hs in A. destruct A as [A1 A2].
      pose proof (step_preserves_wfs s o s1 WS Hok Hs) as WS1.
      destruct (step_net_value R zero one add mul SR tbl s o s1 WS Hok He Hs (exact_step_plain s o s1 Hp A1)) as [P1 V1].
      destruct (IH s1 s' Tt WS1 A2) as (WS' & P2 & V2). split; [exact WS'|]. split; [rewrite P2; exact P1|].
      intros rho. rewrite V2. apply V1.
    - destruct (traced_cons_inv _ _ _ _ T) as (sa & Hi & _ & _ & T1).
      destruct (traced_cons_inv _ _ _ _ T1) as (s2 & Hs & [Hspec Hids] & _ & Tt).
      cbn [along] in A. rewrite Hi in A. destruct A as [_ A]. cbn [along] in A. rewrite Hs in A. destruct A as [A1 A2].
      cbn [step] in Hi, Hs. cbn [exact_step po ls_parent] in A1.
      destruct (proj_pair_net_value R zero one add mul SR tbl s c p new sa oid iid m k s2 WS Hi Hs Hspec Hids A1) as (WS2 & P1 & V1).
      destruct (IH s2 s' Tt WS2 A2) as (WS' & P2 & V2). split; [exact WS'|]. split; [rewrite P2; exact P1|].
      intros rho. rewrite V2. apply V1.
  Qed.

  (* ---- nothing discarded ------------------------------------------------------------------------------------- *)
  (* the kernel contracts: QR and untruncated SVD are exact; a truncated factorisation (kind 2) is exact PROVIDED
     the kept dimension is the full one, i.e. no singular value is discarded:
     - truncated SVD of svd_truncation: U . (S Vh) = A when the bond is min(rows, columns);
     - projector of recursive_truncation (U of the truncated SVD of the upper tensor w.r.t. the child leg):
       conj(P) . P^T acts as the identity on the upper tensor when its width is min(d, product of the other legs) *)
  Definition kernel_step (s : store) (o : op) (s' : store) : Prop :=
    match o with
    | Split n0 o _ _ _ kind _ k =>
        match kind, ls_parent o with
        | 2, Some p => k = Nat.min (wdim s (ew s n0)) (rest_dim s p (ew s n0)) -> proj_contract R zero one add mul tbl s n0 p k
        | 2, None => full_rankb s' (last (defs s') dflt_def) = true -> def_holds zero one add mul s' tbl (last (defs s') dflt_def)
        | _, _ => def_holds zero one add mul s' tbl (last (defs s') dflt_def)
        end
    | _ => True
    end.
  Definition kernel_contracts (s : store) (ops : list op) : Prop := along kernel_step s ops.

  Lemma kernel_contracts_exact s ops : nothing_discarded s ops -> kernel_contracts s ops -> along exact_step s ops.
  Proof.
    intros N K. apply alongb_along in N. pose proof (along_and _ _ ops s N K) as A. revert A. apply along_impl. clear.
    intros s o s' [N K]. destruct o; cbn [nd_step kernel_step exact_step] in *; auto.
    destruct kind as [|[|[|kk]]]; cbn [Nat.eqb] in *; auto.
    destruct (ls_parent o) as [p|].
    - apply K. apply Nat.eqb_eq. exact N.
    - apply K. exact N.
  Qed.

  (* ---- svd_truncation ------------------------------------------------------------------------------------ *)
  (* under the contracts of C02 (every recorded factorisation of the run is exact) *)
  Theorem svd_truncation_net_value kd rid cs cs' :
    wfs (fst cs) -> aget rid (nodes (fst cs)) = None -> svd_truncation kd rid cs = Some cs' ->
    contracts_hold zero one add mul tbl (fst cs) (svd_truncation_ops kd rid cs) ->
    wfs (fst cs') /\ Permutation (open_wires (fst cs')) (open_wires (fst cs)) /\
    forall rho, net_value (fst cs') tbl rho = net_value (fst cs) tbl rho.
  Proof.
    intros WS Hr H C. apply (traced_net_value R zero one add mul SR tbl (fst cs) (svd_truncation_ops kd rid cs) (fst cs')); [|exact WS|exact C].
    apply svd_truncation_traced; [apply (ws_wf _ WS)|exact Hr|exact H].
  Qed.

  Theorem svd_truncation_exact kd rid cs cs' :
    wfs (fst cs) -> aget rid (nodes (fst cs)) = None -> svd_truncation kd rid cs = Some cs' ->
    along exact_step (fst cs) (svd_truncation_ops kd rid cs) ->
    wfs (fst cs') /\ Permutation (open_wires (fst cs')) (open_wires (fst cs)) /\
    forall rho, net_value (fst cs') tbl rho = net_value (fst cs) tbl rho.
  Proof.
    intros WS Hr H A. apply (blocks_net_value _ (blocks_svd kd rid cs) (fst cs) (fst cs')); [|exact WS|exact A].
    apply svd_truncation_traced; [apply (ws_wf _ WS)|exact Hr|exact H].
  Qed.

  Theorem svd_truncation_identity kd rid cs cs' :
    wfs (fst cs) -> aget rid (nodes (fst cs)) = None -> svd_truncation kd rid cs = Some cs' ->
    nothing_discarded (fst cs) (svd_truncation_ops kd rid cs) ->
    kernel_contracts (fst cs) (svd_truncation_ops kd rid cs) ->
    wfs (fst cs') /\ Permutation (open_wires (fst cs')) (open_wires (fst cs)) /\
    forall rho, net_value (fst cs') tbl rho = net_value (fst cs) tbl rho.
  Proof.
    intros WS Hr H N K. apply (svd_truncation_exact kd rid cs cs' WS Hr H). apply kernel_contracts_exact; assumption.
  Qed.

  (* ---- recursive_truncation ------------------------------------------------------------------------------- *)
  Theorem recursive_truncation_exact tmp kd rid cs cs' :
    wfs (fst cs) -> aget rid (nodes (fst cs)) = None -> tmp_fresh tmp (fst cs) -> tmp_inj tmp ->
    recursive_truncation tmp kd rid cs = Some cs' ->
    along exact_step (fst cs) (recursive_truncation_ops tmp kd rid cs) ->
    wfs (fst cs') /\ Permutation (open_wires (fst cs')) (open_wires (fst cs)) /\
    forall rho, net_value (fst cs') tbl rho = net_value (fst cs) tbl rho.
  Proof.
    intros WS Hr F Ti H A.
    apply (blocks_net_value _ (blocks_recursive tmp kd rid cs) (fst cs) (fst cs')); [|exact WS|exact A].
    apply recursive_truncation_traced; [apply (ws_wf _ WS)|exact Hr|exact F|exact Ti|exact H].
  Qed.

  Theorem recursive_truncation_identity tmp kd rid cs cs' :
    wfs (fst cs) -> aget rid (nodes (fst cs)) = None -> tmp_fresh tmp (fst cs) -> tmp_inj tmp ->
    recursive_truncation tmp kd rid cs = Some cs' ->
    nothing_discarded (fst cs) (recursive_truncation_ops tmp kd rid cs) ->
    kernel_contracts (fst cs) (recursive_truncation_ops tmp kd rid cs) ->
    wfs (fst cs') /\ Permutation (open_wires (fst cs')) (open_wires (fst cs)) /\
    forall rho, net_value (fst cs') tbl rho = net_value (fst cs) tbl rho.
  Proof.
    intros WS Hr F Ti H N K. apply (recursive_truncation_exact tmp kd rid cs cs' WS Hr F Ti H). apply kernel_contracts_exact; assumption.
  Qed.
End Identity.

(* ==== 9. non-vacuity: concrete tables over nat that satisfy the hypotheses ======================================== *)
From PTN Require Import Wire.SemInst.

Lemma along_cons_some (P : store -> op -> store -> Prop) s o t s' : step s o = Some s' -> P s o s' -> along P s' t -> along P s (o :: t).
Proof. intros H1 H2 H3. cbn [along]. rewrite H1. split; assumption. Qed.

Ltac ceval t := let v := eval vm_compute in t in change t with v.
Ltac along_step := eapply along_cons_some; [vm_compute; reflexivity| |].


(* svd_truncation on a three-node star (root 0, children 1 and 2, all dimensions 2, centre at node 1), kept
   dimension 2 on both bonds = the full dimension.  The tables of the kernel factors are exact factorisations
   over nat (one factor the identity, the other the factorised tensor itself); all tables vanish outside the
   index ranges *)
Definition exs_cs : cstore :=
  (fst (run empty_store [AddRoot 0 [2; 2; 2]; AddChild 1 [2; 2] 0 0 0; AddChild 2 [2; 2] 0 0 1]), Some 1).
Definition exs_kd : id -> nat := dget [(1, 2); (2, 2)].

Definition in2 (i : nat) : bool := Nat.ltb i 2.
Definition exs_A0 (i j k : nat) : nat := if in2 i && in2 j && in2 k then 1 + i + 2 * j + 4 * k else 0.
Definition exs_A1 (i j : nat) : nat := if in2 i && in2 j then 2 + i + 3 * j else 0.
Definition exs_A2 (i j : nat) : nat := if in2 i && in2 j then 1 + 2 * i + j else 0.
Definition exs_eye (i j : nat) : nat := if Nat.eqb i j && in2 j then 1 else 0.
(* atom 4: the parent part of the first truncated SVD = the two-site tensor itself (the other factor is the identity) *)
Definition exs_T4 (l x y : nat) : nat := exs_A0 0 x y * exs_A1 0 l + exs_A0 1 x y * exs_A1 1 l.
Definition exs_T5 (a o l : nat) : nat := exs_T4 a l o.
Definition exs_T8 (l a o : nat) : nat :=
  (exs_T5 a o 0 * (exs_eye 0 0 * exs_A2 0 l) + exs_T5 a o 0 * (exs_eye 0 1 * exs_A2 1 l))
  + (exs_T5 a o 1 * (exs_eye 1 0 * exs_A2 0 l) + exs_T5 a o 1 * (exs_eye 1 1 * exs_A2 1 l)).
Definition exs_tbl (a : nat) (idx : list nat) : nat :=
  match a, idx with
  | 0, [i; j; k] => exs_A0 i j k
  | 1, [i; j] => exs_A1 i j
  | 2, [i; j] => exs_A2 i j
  | 3, [i; l] => exs_eye i l
  | 4, [l; x; y] => exs_T4 l x y
  | 5, [a; o; l] => exs_T5 a o l
  | 6, [l; x] => exs_eye l x
  | 7, [i; l] => exs_eye i l
  | 8, [l; a; o] => exs_T8 l a o
  | _, _ => 0
  end.


Example exs_hyps :
  wfsb (fst exs_cs) = true /\ amem 99 (nodes (fst exs_cs)) = false /\
  (exists cs', svd_truncation exs_kd 99 exs_cs = Some cs') /\
  nothing_discarded (fst exs_cs) (svd_truncation_ops exs_kd 99 exs_cs) /\
  kernel_contracts nat 0 1 Nat.add Nat.mul exs_tbl (fst exs_cs) (svd_truncation_ops exs_kd 99 exs_cs).
Proof.
  split; [vm_compute; reflexivity|]. split; [vm_compute; reflexivity|].
  split; [destruct (svd_truncation exs_kd 99 exs_cs) as [cs'|] eqn:E; [eauto|vm_compute in E; discriminate]|].
  split; [vm_compute; reflexivity|].
  unfold kernel_contracts.
  assert (E : svd_truncation_ops exs_kd 99 exs_cs
              = [Contract 1 0 99;
                 Split 99 {| ls_parent := None; ls_children := []; ls_open := [1]; ls_root := false |}
                          {| ls_parent := None; ls_children := [2]; ls_open := [2]; ls_root := true |} 1 0 2 Reduced 2;
                 Split 0 {| ls_parent := None; ls_children := [1]; ls_open := [2]; ls_root := true |}
                         {| ls_parent := None; ls_children := [2]; ls_open := []; ls_root := false |} 0 99 0 Reduced 0;
                 Contract 2 99 2; Contract 2 0 99;
                 Split 99 {| ls_parent := None; ls_children := []; ls_open := [1]; ls_root := false |}
                          {| ls_parent := None; ls_children := [1]; ls_open := [2]; ls_root := true |} 2 0 2 Reduced 2])
    by (vm_compute; reflexivity).
  rewrite E. clear E.
  along_step; [exact I|].
  along_step.
  { cbn [kernel_step ls_parent]. intros _ rho.
    cbn -[exs_tbl Nat.add Nat.mul]. unfold atom_val, atom_wires. cbn -[exs_tbl Nat.add Nat.mul]. unfold upd. cbn -[exs_tbl Nat.add Nat.mul].
    unfold exs_tbl, exs_T4, exs_A0, exs_A1, exs_eye, in2.
    destruct (rho 4) as [|[|?]], (rho 1) as [|[|?]], (rho 2) as [|[|?]]; reflexivity. }
  along_step.
  { cbn [kernel_step ls_parent]. intros rho.
    cbn -[exs_tbl Nat.add Nat.mul]. unfold atom_val, atom_wires. cbn -[exs_tbl Nat.add Nat.mul]. unfold upd. cbn -[exs_tbl Nat.add Nat.mul].
    unfold exs_tbl, exs_T5, exs_T4, exs_A0, exs_A1, exs_eye, in2.
    destruct (rho 7) as [|[|?]], (rho 1) as [|[|?]], (rho 2) as [|[|?]]; reflexivity. }
  along_step; [exact I|].
  along_step; [exact I|].
  along_step; [|exact I].
  cbn [kernel_step ls_parent]. intros _ rho.
  cbn -[exs_tbl Nat.add Nat.mul]. unfold atom_val, atom_wires. cbn -[exs_tbl Nat.add Nat.mul]. unfold upd. cbn -[exs_tbl Nat.add Nat.mul].
  unfold exs_tbl, exs_T8, exs_T5, exs_T4, exs_A0, exs_A1, exs_A2, exs_eye, in2.
  destruct (rho 6) as [|[|?]], (rho 7) as [|[|?]], (rho 2) as [|[|?]]; reflexivity.
Qed.

Example exs_conclusion : forall cs', svd_truncation exs_kd 99 exs_cs = Some cs' ->
  forall rho, net_value 0 1 Nat.add Nat.mul (fst cs') exs_tbl rho = net_value 0 1 Nat.add Nat.mul (fst exs_cs) exs_tbl rho.
Proof.
  intros cs' H. destruct exs_hyps as (H1 & H2 & _ & H4 & H5).
  apply (svd_truncation_identity nat 0 1 Nat.add Nat.mul nat_csr exs_tbl exs_kd 99 exs_cs cs'
           (wfsb_wfs _ H1) (proj1 (amem_false _ _) H2) H H4 H5).
Qed.

(* recursive_truncation on a three-node star whose root tensor has rank 1 across the bond to child 1: that bond
   goes from dimension 2 to min(2, 1 * 1) = 1 with nothing discarded; the projector pair is (1 0)^T (1 0),
   which is NOT the identity matrix but acts as the identity on the root tensor (the contextual contract) *)
Definition exr_tmp : tmpids := fun j c n => 2000 + 3 * (16 * c + n) + j.
Definition exr_cs : cstore :=
  (fst (run empty_store [AddRoot 0 [2; 1; 1]; AddChild 1 [2; 2] 0 0 0; AddChild 2 [1; 2] 0 0 1]), Some 0).
Definition exr_kd : id -> nat := dget [(1, 1); (2, 1)].

Definition e00 (i j : nat) : nat := match i, j with 0, 0 => 1 | _, _ => 0 end.
Definition exr_tbl (a : nat) (idx : list nat) : nat :=
  match a, idx with
  | 0, [0; 0; 0] => 3
  | 1, [i; j] => if Nat.ltb i 2 && Nat.ltb j 2 then 1 + i + 2 * j else 0
  | 2, [0; j] => if Nat.ltb j 2 then 5 + j else 0
  | 4, [i; l] => e00 i l
  | 5, [l; j] => e00 l j
  | 7, [i; l] => e00 i l
  | 8, [l; j] => e00 l j
  | _, _ => 0
  end.


Example exr_hyps :
  wfsb (fst exr_cs) = true /\ trunc_hyps exr_tmp 99 exr_cs = true /\
  (exists cs', recursive_truncation exr_tmp exr_kd 99 exr_cs = Some cs' /\ map (bond_dim (fst cs')) [1; 2] = [1; 1]) /\
  map (bond_dim (fst exr_cs)) [1; 2] = [2; 1] /\
  nothing_discarded (fst exr_cs) (recursive_truncation_ops exr_tmp exr_kd 99 exr_cs) /\
  kernel_contracts nat 0 1 Nat.add Nat.mul exr_tbl (fst exr_cs) (recursive_truncation_ops exr_tmp exr_kd 99 exr_cs).
Proof.
  split; [vm_compute; reflexivity|]. split; [vm_compute; reflexivity|].
  split; [destruct (recursive_truncation exr_tmp exr_kd 99 exr_cs) as [cs'|] eqn:E; [exists cs'; split; [reflexivity|]|vm_compute in E; discriminate]|].
  { vm_compute in E. injection E as <-. vm_compute. reflexivity. }
  split; [vm_compute; reflexivity|]. split; [vm_compute; reflexivity|].
  unfold kernel_contracts.
  assert (E : recursive_truncation_ops exr_tmp exr_kd 99 exr_cs
              = [Access 0; InsertIdentity 1 0 2048; Split 2048 (po 0) (pi 1) 2049 2050 2 Reduced 1;
                 Access 0; InsertIdentity 2 0 2096; Split 2096 (po 0) (pi 2) 2097 2098 2 Reduced 1;
                 Contract 0 2049 0; Contract 0 2097 0; Contract 2050 1 1; Contract 2098 2 2]) by (vm_compute; reflexivity).
  rewrite E. clear E.
  along_step; [exact I|].
  along_step; [exact I|].
  along_step.
  { cbn [kernel_step po ls_parent]. intros _.
    match goal with |- proj_contract _ _ _ _ _ _ ?S _ _ _ => set (S0 := S) end.
    unfold proj_contract, InvSem.node_value, value_s, value.
    ceval (ew S0 2048). ceval (wdim S0 0). ceval (next_atom S0). ceval (tens S0 0).
    cbn [bnd atoms Sem.sum_bnd Sem.atoms_val prod_over Sem.sum_upto]. unfold atom_val. ceval (atom_wires S0 0). cbn [map].
    clear S0. intros r j Hj. unfold upd. cbn [Nat.eqb].
    destruct j as [|[|?]]; [| |lia]; unfold exr_tbl, e00; destruct (r 1) as [|?], (r 2) as [|?]; reflexivity. }
  along_step; [exact I|].
  along_step; [exact I|].
  along_step.
  { cbn [kernel_step po ls_parent]. intros _.
    match goal with |- proj_contract _ _ _ _ _ _ ?S _ _ _ => set (S0 := S) end.
    unfold proj_contract, InvSem.node_value, value_s, value.
    ceval (ew S0 2096). ceval (wdim S0 1). ceval (next_atom S0). ceval (tens S0 0).
    cbn [bnd atoms Sem.sum_bnd Sem.atoms_val prod_over Sem.sum_upto]. unfold atom_val. ceval (atom_wires S0 0). cbn [map].
    clear S0. intros r j Hj. unfold upd. cbn [Nat.eqb].
    destruct j as [|?]; [|lia]. unfold exr_tbl, e00. destruct (r 0) as [|[|?]], (r 2) as [|?]; reflexivity. }
  along_step; [exact I|].
  along_step; [exact I|].
  along_step; [exact I|].
  along_step; [exact I|].
  exact I.
Qed.

Example exr_conclusion : forall cs', recursive_truncation exr_tmp exr_kd 99 exr_cs = Some cs' ->
  forall rho, net_value 0 1 Nat.add Nat.mul (fst cs') exr_tbl rho = net_value 0 1 Nat.add Nat.mul (fst exr_cs) exr_tbl rho.
Proof.
  intros cs' H. destruct exr_hyps as (H1 & H2 & _ & _ & H5 & H6).
  apply TruncTreeProofs.trunc_hyps_spec in H2. destruct H2 as (_ & Hr & F).
  apply (recursive_truncation_identity nat 0 1 Nat.add Nat.mul nat_csr exr_tbl exr_tmp exr_kd 99 exr_cs cs'
           (wfsb_wfs _ H1) Hr F TruncTreeProofs.harness_tmp_inj H H5 H6).
Qed.
