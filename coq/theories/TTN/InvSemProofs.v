(* Proofs about TTN/InvSem.v, part 1: wire accounting of a well-formed store (every wire end of the
   network is an open leg once or a summed wire twice), reflection wfsb -> wfs, the fields no
   structural operation touches, and preservation of the VALUE of the whole network by the
   operations that only permute the diagram: access, rename, replace_tensor, contract_nodes. *)
From Coq Require Import List Arith Bool Lia Permutation.
From PTN Require Import TTN.Store TTN.StoreProofs TTN.Inv TTN.InvProofs TTN.InvNode TTN.InvContract TTN.InvEdit
  TTN.InvWires Wire.Sem Wire.SemProofs TTN.InvSem.
Import ListNotations.

(* ---- lists ---------------------------------------------------------------------------------------- *)
Lemma flat_map_perm_pointwise {A B} (f g : A -> list B) l :
  (forall x, In x l -> Permutation (f x) (g x)) -> Permutation (flat_map f l) (flat_map g l).
Proof.
  induction l as [|x t IH]; cbn; intros H; [reflexivity|].
  apply Permutation_app; [apply H; left; reflexivity|apply IH; intros y Hy; apply H; right; exact Hy].
Qed.

Lemma flat_map_map' {A B C} (f : A -> B) (g : B -> list C) l : flat_map g (map f l) = flat_map (fun x => g (f x)) l.
Proof. induction l as [|x t IH]; cbn; [reflexivity|]. rewrite IH. reflexivity. Qed.

(* sublists of duplicate-free flat_maps *)
Lemma NoDup_app_l {A} (a b : list A) : NoDup (a ++ b) -> NoDup a.
Proof. intros H. apply NoDup_app_iff in H. tauto. Qed.
Lemma NoDup_app_r {A} (a b : list A) : NoDup (a ++ b) -> NoDup b.
Proof. intros H. apply NoDup_app_iff in H. tauto. Qed.

(* the parity argument: if o, o' are duplicate-free and  o' + 2 b' + 2 x = o + 2 b + 2 y  as multisets
   then o' = o and b' + x = b + y *)
Lemma parity_cancel (o o' b b' x y : list nat) :
  NoDup o -> NoDup o' ->
  Permutation (o' ++ (b' ++ b') ++ (x ++ x)) (o ++ (b ++ b) ++ (y ++ y)) ->
  Permutation o' o /\ Permutation (b' ++ x) (b ++ y).
Proof.
  intros N N' P.
  assert (C : forall z, count_occ Nat.eq_dec o' z = count_occ Nat.eq_dec o z /\
                        count_occ Nat.eq_dec b' z + count_occ Nat.eq_dec x z
                        = count_occ Nat.eq_dec b z + count_occ Nat.eq_dec y z).
  { intros z. pose proof (proj1 (Permutation_count_occ Nat.eq_dec _ _) P z) as E.
    rewrite !count_occ_app in E.
    pose proof (proj1 (NoDup_count_occ Nat.eq_dec o) N z).
    pose proof (proj1 (NoDup_count_occ Nat.eq_dec o') N' z). lia. }
  split; apply (Permutation_count_occ Nat.eq_dec); intros z; rewrite ?count_occ_app; apply C.
Qed.

(* ---- wire accounting -------------------------------------------------------------------------------- *)
Lemma total_ends_split s : Permutation (total_ends s) (total_axes s ++ total_bnd s ++ total_bnd s).
Proof.
  unfold total_ends, total_axes, total_bnd, sarr_ends.
  rewrite (flat_map_perm_split (fun kt : id * sarr => axes (snd kt) ++ bnd (snd kt) ++ bnd (snd kt))
             (fun kt => axes (snd kt)) (fun kt => bnd (snd kt) ++ bnd (snd kt))) by reflexivity.
  apply Permutation_app_head. apply flat_map_perm_split. reflexivity.
Qed.

Lemma wf_tens_in s k t : wf s -> In (k, t) (tensors s) -> tens s k = t.
Proof. intros W Hin. apply tens_aget. apply In_aget; [apply (wf_tnd s W)|exact Hin]. Qed.

Lemma wf_lax_perm_axes s k n : wf s -> aget k (nodes s) = Some n -> Permutation (lax s k n) (axes (tens s k)).
Proof.
  intros W E. pose proof (wf_node s W k n E) as Hn. unfold lax, laxes. apply permute_is_perm.
  replace (length (axes (tens s k))) with (length (shape n)); [apply (ni_perm _ _ _ Hn)|].
  rewrite (ni_shape _ _ _ Hn), map_length. reflexivity.
Qed.

Lemma total_axes_all_lax s : wf s -> Permutation (total_axes s) (all_lax s).
Proof.
  intros W. symmetry. unfold all_lax, total_axes.
  transitivity (flat_map (fun k => axes (tens s k)) (akeys (nodes s))).
  - unfold akeys. rewrite flat_map_map'. apply flat_map_perm_pointwise. intros [k n] Hin. cbn [fst snd].
    apply wf_lax_perm_axes; [exact W|]. apply In_aget; [apply (wf_nd s W)|exact Hin].
  - rewrite <- (wf_keys_perm s W). unfold akeys. rewrite flat_map_map'.
    rewrite (flat_map_ext_in (fun x : id * sarr => axes (tens s (fst x))) (fun kt => axes (snd kt))); [reflexivity|].
    intros [k t] Hin. cbn [fst snd]. rewrite (wf_tens_in s k t W Hin). reflexivity.
Qed.

Lemma own_wires_split s : Permutation (own_wires s) (edge_wires s ++ open_wires s).
Proof. unfold own_wires, edge_wires, open_wires. apply flat_map_perm_split. intros kn _. reflexivity. Qed.

Lemma wf_edge_wires_NoDup s : wf s -> NoDup (edge_wires s).
Proof. intros W. pose proof (wf_own_wires_NoDup s W) as H. rewrite own_wires_split in H. apply (NoDup_app_l _ _ H). Qed.

Lemma wf_open_wires_NoDup s : wf s -> NoDup (open_wires s).
Proof. intros W. pose proof (wf_own_wires_NoDup s W) as H. rewrite own_wires_split in H. apply (NoDup_app_r _ _ H). Qed.

Lemma node_edge_In s k n w : wf s -> aget k (nodes s) = Some n ->
  (In w (node_edge s (k, n)) <-> parent n <> None /\ w = ew s k).
Proof.
  intros W E. unfold node_edge, ew. cbn [fst snd]. rewrite E.
  pose proof (laxes_length n (tens s k)) as Hl. fold (lax s k n) in Hl.
  pose proof (ni_virt _ _ _ (wf_node s W k n E)) as Hv. unfold nvirt in Hv.
  unfold nparents in *. destruct (parent n) as [p|].
  - destruct (lax s k n) as [|x t]; [cbn in Hl; lia|]. cbn. split.
    + intros [<-|[]]. split; [discriminate|reflexivity].
    + intros [_ ->]. left. reflexivity.
  - cbn. split; [intros []|intros [H _]; congruence].
Qed.

Lemma edge_wires_ew s : wf s -> Permutation (edge_wires s) (map (ew s) (all_children s)).
Proof.
  intros W. apply NoDup_Permutation; [apply wf_edge_wires_NoDup; exact W|apply wf_ew_NoDup; exact W|].
  intros w. unfold edge_wires. rewrite in_flat_map, in_map_iff. split.
  - intros ([k n] & Hin & Hw). apply (In_aget _ _ _ (wf_nd s W)) in Hin.
    apply (node_edge_In s k n w W Hin) in Hw. destruct Hw as [Hp ->]. exists k. split; [reflexivity|].
    apply (wf_all_children_In s k W). exists n. auto.
  - intros (c & <- & Hc). apply (wf_all_children_In s c W) in Hc. destruct Hc as (cn & Ec & Hp).
    exists (c, cn). split; [apply aget_In; exact Ec|]. apply (node_edge_In s c cn _ W Ec). auto.
Qed.

(* every wire end of the network is an open leg (once) or belongs to a summed wire (twice) *)
Theorem wf_total_ends s : wf s -> Permutation (total_ends s) (open_wires s ++ net_bnd s ++ net_bnd s).
Proof.
  intros W. rewrite total_ends_split, (total_axes_all_lax s W), (wf_all_lax_perm s W), own_wires_split,
    <- (edge_wires_ew s W). unfold net_bnd.
  apply (Permutation_count_occ Nat.eq_dec). intros z. rewrite !count_occ_app. lia.
Qed.

(* consequence: a change of the store that keeps the multiset of wire ends, up to wires x that stop being
   summed and wires y that start being summed, keeps the open wires and moves exactly x and y *)
Theorem ends_determine_bnd s s' x y :
  wf s -> wf s' -> Permutation (total_ends s' ++ x ++ x) (total_ends s ++ y ++ y) ->
  Permutation (open_wires s') (open_wires s) /\ Permutation (net_bnd s' ++ x) (net_bnd s ++ y).
Proof.
  intros W W' P. rewrite (wf_total_ends s W), (wf_total_ends s' W'), <- !app_assoc in P.
  apply parity_cancel; [apply wf_open_wires_NoDup; exact W|apply wf_open_wires_NoDup; exact W'|].
  rewrite <- !app_assoc. exact P.
Qed.

Corollary ends_perm_bnd s s' :
  wf s -> wf s' -> Permutation (total_ends s') (total_ends s) ->
  Permutation (open_wires s') (open_wires s) /\ Permutation (net_bnd s') (net_bnd s).
Proof.
  intros W W' P. destruct (ends_determine_bnd s s' [] [] W W') as [H1 H2]; [cbn; rewrite !app_nil_r; exact P|].
  rewrite !app_nil_r in H2. auto.
Qed.

(* ---- reflection: the checker decides the Prop-level invariant ------------------------------------------- *)
Lemma closedb_closed_in s t : closedb (atom_wires s) t = true <-> closed_in s t.
Proof.
  unfold closedb, closed_in. rewrite forallb_forall. split.
  - intros H a Ha x Hx. specialize (H a Ha). rewrite forallb_forall in H. specialize (H x Hx).
    apply orb_true_iff in H. destruct H as [H|H]; apply InvProofs.memb_In in H; auto.
  - intros H a Ha. apply forallb_forall. intros x Hx. apply orb_true_iff.
    destruct (H a Ha x Hx) as [I|I]; [left|right]; apply InvProofs.memb_In; exact I.
Qed.

Theorem wfsb_wfs s : wfsb s = true -> wfs s.
Proof.
  unfold wfsb. rewrite !andb_true_iff. intros [[[[[[[H0 H1] H2] H3] H4] H5] H6] H7].
  pose proof (wfb_wf s H0) as W.
  rewrite (forallb_assoc _ _ (wf_tnd s W)) in H1. apply nodupb_NoDup in H2.
  rewrite forallb_forall in H3, H4, H6, H7. apply nodupb_NoDup in H5.
  constructor; auto.
  - intros k t E. apply closedb_closed_in. apply (H1 k t E).
  - intros w Hw. specialize (H3 w Hw). apply negb_true_iff, memb_false in H3. exact H3.
  - intros w Hw. apply Nat.ltb_lt. apply H4. exact Hw.
  - intros a Ha. specialize (H6 a Ha). apply andb_true_iff in H6. apply Nat.ltb_lt. tauto.
  - intros a Ha. specialize (H6 a Ha). apply andb_true_iff in H6. tauto.
  - intros a Ha. unfold akeys in Ha. apply in_map_iff in Ha. destruct Ha as (aw & <- & Hin).
    apply Nat.ltb_lt. apply H7. exact Hin.
Qed.

Theorem wfs_wfsb s : wfs s -> wfsb s = true.
Proof.
  intros [W H1 H2 H3 H4 H5 H6 H6' H7]. unfold wfsb. rewrite !andb_true_iff. repeat split.
  - apply wf_wfb. exact W.
  - apply (forallb_assoc _ _ (wf_tnd s W)). intros k t E. apply closedb_closed_in. apply (H1 k t E).
  - apply nodupb_NoDup. exact H2.
  - apply forallb_forall. intros w Hw. apply negb_true_iff, memb_false. apply H3. exact Hw.
  - apply forallb_forall. intros w Hw. apply Nat.ltb_lt. apply H4. exact Hw.
  - apply nodupb_NoDup. exact H5.
  - apply forallb_forall. intros a Ha. apply andb_true_iff. split; [apply Nat.ltb_lt; apply H6; exact Ha|apply H6'; exact Ha].
  - apply forallb_forall. intros aw Hin. apply Nat.ltb_lt. apply H7. unfold akeys. apply in_map. exact Hin.
Qed.

Theorem wfsb_iff s : wfsb s = true <-> wfs s.
Proof. split; [apply wfsb_wfs|apply wfs_wfsb]. Qed.

Lemma wfsb_wfb s : wfsb s = true -> wfb s = true.
Proof. unfold wfsb. rewrite !andb_true_iff. tauto. Qed.

(* ---- the fields the structural operations do not touch ---------------------------------------------------- *)
Definition same_world (s s' : store) : Prop :=
  atab s' = atab s /\ dims s' = dims s /\ next_wire s' = next_wire s /\ next_atom s' = next_atom s /\ defs s' = defs s.

Lemma same_world_refl s : same_world s s.
Proof. repeat split. Qed.

Lemma same_world_trans s1 s2 s3 : same_world s1 s2 -> same_world s2 s3 -> same_world s1 s3.
Proof. unfold same_world. intros (A1 & A2 & A3 & A4 & A5) (B1 & B2 & B3 & B4 & B5). repeat split; congruence. Qed.

Lemma access_world s n s' nd t : access s n = Some (s', nd, t) -> same_world s s'.
Proof. intros H. destruct (access_inv _ _ _ _ _ H) as (nd0 & t0 & _ & _ & _ & _ & ->). repeat split. Qed.

Lemma rnin_world s new old del s' : replace_node_in_neighbours s new old del = Some s' -> same_world s s'.
Proof.
  unfold replace_node_in_neighbours. destruct (Nat.eqb new old); [intros [= <-]; apply same_world_refl|].
  destruct (aget old (nodes s)) as [on|]; [|discriminate].
  match goal with |- match ?X with _ => _ end = _ -> _ => destruct X as [[r0 l2]|]; [|discriminate] end.
  intros [= <-]. repeat split.
Qed.

Lemma contract_world s a b new s' : contract_nodes s a b new = Some s' -> same_world s s'.
Proof.
  unfold contract_nodes. intros H.
  destruct (determine_parentage s a b) as [[p c]|]; [|discriminate].
  destruct (access s p) as [[[s1 pn] pt]|] eqn:A1; [|discriminate].
  destruct (access s1 c) as [[[s2 cn] ct]|] eqn:A2; [|discriminate].
  destruct (neighbour_index pn c) as [ax|]; [|discriminate].
  destruct (s_tensordot pt ct ax 0) as [nt|]; [|discriminate].
  destruct (create_contracted_node _ pn cn c (p =? a)) as [nn|]; [|discriminate].
  match type of H with match ?r with _ => _ end = _ => destruct r as [s4|] eqn:R4; [|discriminate] end.
  destruct (replace_node_in_neighbours s4 new c true) as [s5|] eqn:R5; [|discriminate].
  injection H as <-.
  apply (same_world_trans _ _ _ (access_world _ _ _ _ _ A1)).
  apply (same_world_trans _ _ _ (access_world _ _ _ _ _ A2)).
  apply rnin_world in R4. apply rnin_world in R5.
  apply (same_world_trans _ s5); [|repeat split].
  apply (same_world_trans _ s4); [|exact R5].
  apply (same_world_trans _ (upd_tensors s2 (fun l => adel c (adel p l) ++ [(new, nt)]))); [repeat split|exact R4].
Qed.

Lemma rename_world s new old s' : rename s new old = Some s' -> same_world s s'.
Proof.
  unfold rename. destruct (access s old) as [[[s0 nd] t]|] eqn:A; [|discriminate].
  apply access_world in A. destruct (Nat.eqb old new).
  - intros [= <-]. apply (same_world_trans _ _ _ A). repeat split.
  - destruct (amem new (nodes s)); [discriminate|].
    match goal with |- match ?r with _ => _ end = _ -> _ => destruct r as [s2|] eqn:R; [|discriminate] end.
    intros [= <-]. apply rnin_world in R. apply (same_world_trans _ _ _ A).
    apply (same_world_trans _ s2); [|repeat split].
    apply (same_world_trans _ (upd_tensors s0 (fun l => adel old l ++ [(new, t)]))); [repeat split|exact R].
Qed.

Lemma replace_tensor_world s n q p s' : replace_tensor s n q p = Some s' -> same_world s s'.
Proof.
  unfold replace_tensor. destruct (aget n (nodes s)) as [nd|]; [|discriminate].
  destruct (logical s n) as [lt|]; [|discriminate].
  match goal with |- (if ?c then _ else _) = _ -> _ => destruct c; [discriminate|] end.
  match goal with |- match ?r with _ => _ end = _ -> _ => destruct r as [nd'|]; [|discriminate] end.
  intros [= <-]. repeat split.
Qed.

(* ---- the value of the whole network under the diagram-permuting operations ------------------------------------ *)
Section NetValue.
  Variable R : Type.
  Variables (zero one : R) (add mul : R -> R -> R).
  Hypothesis SR : comm_semiring zero one add mul.
  Variable tbl : nat -> list nat -> R.

  Local Notation net_value := (net_value zero one add mul).

  Lemma net_value_perm s s' :
    atab s' = atab s -> dims s' = dims s ->
    Permutation (total_atoms s') (total_atoms s) -> Permutation (net_bnd s') (net_bnd s) ->
    forall rho, net_value s' tbl rho = net_value s tbl rho.
  Proof.
    intros Ha Hd PA PB rho. unfold InvSem.net_value, value_s, atom_wires, wdim. rewrite Ha, Hd.
    apply (value_perm_gen R zero one add mul SR); cbn [atoms bnd net_diagram]; assumption.
  Qed.

  (* any change of the store that keeps the atom table, the dimensions, the multiset of atoms and the
     multiset of wire ends keeps the value of the network and its open wires *)
  Theorem ends_atoms_net_value s s' :
    wf s -> wf s' -> same_world s s' ->
    Permutation (total_atoms s') (total_atoms s) -> Permutation (total_ends s') (total_ends s) ->
    Permutation (open_wires s') (open_wires s) /\ forall rho, net_value s' tbl rho = net_value s tbl rho.
  Proof.
    intros W W' (Ha & Hd & _) PA PE. destruct (ends_perm_bnd s s' W W' PE) as [PO PB].
    split; [exact PO|]. apply net_value_perm; assumption.
  Qed.

  Theorem access_net_value s n s' nd t : wf s -> access s n = Some (s', nd, t) ->
    open_wires s' = open_wires s /\ forall rho, net_value s' tbl rho = net_value s tbl rho.
  Proof.
    intros W H. split; [apply (access_open_wires s n s' nd t W H)|].
    apply (ends_atoms_net_value s s' W (access_preserves_wf s n s' nd t W H) (access_world _ _ _ _ _ H)).
    - rewrite (access_total_atoms s n s' nd t W H). reflexivity.
    - apply (access_total_ends s n s' nd t W H).
  Qed.

  Theorem rename_net_value s new old s' : wf s -> rename s new old = Some s' ->
    Permutation (open_wires s') (open_wires s) /\ forall rho, net_value s' tbl rho = net_value s tbl rho.
  Proof.
    intros W H.
    apply (ends_atoms_net_value s s' W (rename_preserves_wf s new old s' W H) (rename_world _ _ _ _ H)).
    - apply (rename_total_atoms s new old s' W H).
    - apply (rename_total_ends s new old s' W H).
  Qed.

  Theorem replace_tensor_net_value s n q p s' : wf s -> replace_tensor s n q p = Some s' ->
    inverse_of (match p with Some p' => p' | None => seq 0 (length q) end) q ->
    open_wires s' = open_wires s /\ forall rho, net_value s' tbl rho = net_value s tbl rho.
  Proof.
    intros W H I. split; [apply (replace_tensor_open_wires s n q p s' W H I)|].
    apply (ends_atoms_net_value s s' W (replace_tensor_preserves_wf s n q p s' W H I) (replace_tensor_world _ _ _ _ _ H)).
    - rewrite (replace_tensor_total_atoms s n q p s' W H I). reflexivity.
    - apply (replace_tensor_total_ends s n q p s' W H I).
  Qed.

  (* contraction: the contracted edge wire moves from "edge wires" to the new tensor's summed wires *)
  Theorem contract_net_value s a b new s' : wf s -> contract_nodes s a b new = Some s' ->
    (new = a \/ new = b \/ ~ In new (akeys (nodes s))) ->
    Permutation (open_wires s') (open_wires s) /\ forall rho, net_value s' tbl rho = net_value s tbl rho.
  Proof.
    intros W H Hn.
    apply (ends_atoms_net_value s s' W (contract_preserves_wf s a b new s' W H Hn) (contract_world _ _ _ _ _ H)).
    - apply (contract_total_atoms s a b new s' W H Hn).
    - apply (contract_total_ends s a b new s' W H Hn).
  Qed.
End NetValue.
