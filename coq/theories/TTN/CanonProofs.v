From Coq Require Import List Arith Bool Lia.
From PTN Require Import TTN.Store TTN.Canon.
Import ListNotations.

Lemma canon_center cs c m rid cs' : canonical_form cs c m rid = Some cs' -> snd cs' = Some c.
Proof.
  unfold canonical_form. destruct (negb (amem c (nodes (fst cs)))); [discriminate|].
  match goal with |- match ?X with _ => _ end = _ -> _ => destruct X end; [|discriminate].
  intros [= <-]. reflexivity.
Qed.

Lemma last_cons_default {A} (x d : A) (t : list A) : last (x :: t) d = last t x.
Proof.
  revert x d. induction t as [|y t IH]; intros x d; [reflexivity|].
  change (last (x :: y :: t) d) with (last (y :: t) d). rewrite !IH. reflexivity.
Qed.

Lemma move_fold_center m rid : forall (l : list id) s cur s' x,
  fold_left (fun acc nb => match acc with
                           | Some (s', Some cur) => match qr_to_neighbour s' cur nb m rid with
                                                    | Some s'' => Some (s'', Some nb)
                                                    | None => None
                                                    end
                           | _ => None
                           end) l (Some (s, Some cur)) = Some (s', x) -> x = Some (last l cur).
Proof.
  induction l as [|nb t IH]; intros s cur s' x H; cbn in H.
  - injection H as <- <-. reflexivity.
  - destruct (qr_to_neighbour s cur nb m rid) as [s2|].
    + apply IH in H. subst x. f_equal. symmetry. apply last_cons_default.
    + exfalso. clear IH. induction t as [|y t IHt]; cbn in H; [discriminate|auto].
Qed.

(* after a successful move the recorded centre is the last node of the path the code walks
   (the old centre when it was already there) *)
Lemma move_center_center cs c m rid cs' c0 :
  snd cs = Some c0 -> move_center cs c m rid = Some cs' ->
  snd cs' = Some (if Nat.eqb c0 c then c0 else last (tl (path_from_to (fst cs) c0 c)) c0).
Proof.
  intros Hc H. unfold move_center in H. rewrite Hc in H.
  destruct (Nat.eqb c0 c) eqn:E.
  - injection H as <-. exact Hc.
  - destruct cs as [s oc]. cbn in Hc. subst oc. destruct cs' as [s' x]. cbn [fst snd] in *.
    apply move_fold_center in H. exact H.
Qed.

Lemma move_center_needs_centre cs c m rid : snd cs = None -> move_center cs c m rid = None.
Proof. intros H. unfold move_center. rewrite H. reflexivity. Qed.

(* bond dimension the mode prescribes *)
Lemma qr_bond_reduced mr nc : qr_bond_dim Reduced mr nc <= mr /\ qr_bond_dim Reduced mr nc <= nc.
Proof. cbn. lia. Qed.
Lemma qr_bond_full mr nc : qr_bond_dim Full mr nc = mr.
Proof. reflexivity. Qed.
Lemma qr_bond_keep mr nc : qr_bond_dim Keep mr nc = nc.
Proof. reflexivity. Qed.
(* in a canonicalisation step the R side is the single leg toward the neighbour, so the
   shape-keeping mode reproduces that leg's dimension *)
Lemma keep_single_leg_dim d mr : qr_bond_dim Keep mr (prod_list [d]) = d.
Proof. cbn. lia. Qed.

(* the R specification of a canonicalisation step names exactly one leg: the one toward the neighbour *)
Lemma build_qr_r_single n nb : 
  let r := snd (build_qr_leg_specs n nb) in
  length (find_all_neighbour_ids r) = 1 /\ ls_open r = [] /\ find_all_neighbour_ids r = [nb].
Proof.
  unfold build_qr_leg_specs. destruct (match parent n with Some p => Nat.eqb p nb | None => false end); cbn; auto.
Qed.

(* soundness (unfolding) of the executable isometry checker *)
Lemma iso_check_sound cs : iso_check cs = true ->
  exists c, snd cs = Some c /\
  forall k nd, In (k, nd) (nodes (fst cs)) -> k <> c ->
  exists t nb a leg df,
    aget k (tensors (fst cs)) = Some t /\
    toward (fst cs) (distance_to_node (fst cs) c) nd = Some nb /\
    atoms t = [a] /\ neighbour_index nd nb = Some leg /\
    In df (defs (fst cs)) /\ kq df = a /\ kkind df = 0 /\
    kbond df = nth (nth leg (perm nd) 0) (axes t) 0.
Proof.
  unfold iso_check. destruct (snd cs) as [c|]; [|discriminate]. intros H. exists c. split; [reflexivity|].
  intros k nd Hin Hne. rewrite forallb_forall in H. specialize (H _ Hin). cbn [fst] in H.
  apply orb_true_iff in H. destruct H as [H|H].
  - apply Nat.eqb_eq in H. congruence.
  - unfold iso_node in H.
    destruct (aget k (tensors (fst cs))) as [t|] eqn:E1; [|discriminate].
    destruct (toward (fst cs) (distance_to_node (fst cs) c) nd) as [nb|] eqn:E2; [|discriminate].
    destruct (atoms t) as [|a [|? ?]] eqn:Ea; try discriminate.
    destruct (neighbour_index nd nb) as [leg|] eqn:E3; [|discriminate].
    apply existsb_exists in H. destruct H as (df & Hdf & Hc).
    rewrite !andb_true_iff in Hc. destruct Hc as [[H1 H2] H3].
    apply Nat.eqb_eq in H1, H2, H3.
    exists t, nb, a, leg, df. repeat split; auto.
Qed.
