(* Node-level lemmas shared by the contract and split proofs: list surgery (remove_first, insert,
   filter), index_of / neighbour_index, enum_from, and the exact effect of open_legs_to_children. *)
From Coq Require Import List Arith Bool Lia Permutation.
From PTN Require Import TTN.Store TTN.StoreProofs TTN.Inv TTN.InvProofs.
Import ListNotations.

(* ---- remove_first / insert / filter ------------------------------------------------------------ *)
Lemma remove_first_notin x l : ~ In x l -> remove_first x l = l.
Proof.
  induction l as [|y t IH]; cbn; [reflexivity|]. intros H.
  destruct (Nat.eqb_spec x y) as [->|Hne]; [exfalso; apply H; left; reflexivity|].
  f_equal. apply IH. intros Hin. apply H. right. exact Hin.
Qed.

Lemma remove_first_app_r x a b : ~ In x a -> remove_first x (a ++ b) = a ++ remove_first x b.
Proof.
  induction a as [|y t IH]; cbn; [reflexivity|]. intros H.
  destruct (Nat.eqb_spec x y) as [->|Hne]; [exfalso; apply H; left; reflexivity|].
  f_equal. apply IH. intros Hin. apply H. right. exact Hin.
Qed.

Lemma remove_first_filter x l : NoDup l -> remove_first x l = filter (fun y => negb (Nat.eqb y x)) l.
Proof.
  induction l as [|y t IH]; cbn; [reflexivity|]. intros Hnd. inversion Hnd as [|? ? Hni Hnd']; subst.
  destruct (Nat.eqb_spec x y) as [->|Hne].
  - rewrite Nat.eqb_refl. cbn. rewrite <- (IH Hnd'). symmetry. apply remove_first_notin. exact Hni.
  - destruct (Nat.eqb_spec y x); [congruence|]. cbn. f_equal. apply IH. exact Hnd'.
Qed.

Lemma insert_app {A} (x : A) a b : insert (length a) x (a ++ b) = a ++ x :: b.
Proof. induction a as [|y t IH]; cbn; [destruct b; reflexivity|]. f_equal. exact IH. Qed.

Lemma filter_filter {A} (f g : A -> bool) l : filter f (filter g l) = filter (fun x => g x && f x) l.
Proof.
  induction l as [|x t IH]; cbn; [reflexivity|]. destruct (g x); cbn; [destruct (f x); cbn; rewrite IH; reflexivity|exact IH].
Qed.

Lemma filter_ext_in' {A} (f g : A -> bool) l : (forall x, In x l -> f x = g x) -> filter f l = filter g l.
Proof.
  induction l as [|x t IH]; cbn; [reflexivity|]. intros H. rewrite (H x (or_introl eq_refl)).
  rewrite IH; [reflexivity|]. intros y Hy. apply H. right. exact Hy.
Qed.

Lemma filter_all {A} (f : A -> bool) l : (forall x, In x l -> f x = true) -> filter f l = l.
Proof.
  induction l as [|x t IH]; cbn; [reflexivity|]. intros H. rewrite (H x (or_introl eq_refl)). f_equal.
  apply IH. intros y Hy. apply H. right. exact Hy.
Qed.

Lemma filter_none {A} (f : A -> bool) l : (forall x, In x l -> f x = false) -> filter f l = [].
Proof.
  induction l as [|x t IH]; cbn; [reflexivity|]. intros H. rewrite (H x (or_introl eq_refl)).
  apply IH. intros y Hy. apply H. right. exact Hy.
Qed.

(* vals ++ (l without vals) is a permutation of l *)
Lemma filter_split_perm vals l : NoDup vals -> NoDup l -> incl vals l ->
  Permutation (vals ++ filter (fun x => negb (memb x vals)) l) l.
Proof.
  intros Hv Hl Hincl. apply NoDup_Permutation.
  - apply NoDup_app_iff. repeat split; [exact Hv|apply NoDup_filter; exact Hl|].
    intros x Hx Hf. apply filter_In in Hf. destruct Hf as [_ Hf]. apply negb_true_iff, memb_false in Hf. contradiction.
  - exact Hl.
  - intros x. rewrite in_app_iff, filter_In, negb_true_iff, memb_false. split.
    + intros [Hx|[Hx _]]; [apply Hincl; exact Hx|exact Hx].
    + intros Hx. destruct (in_dec Nat.eq_dec x vals); [left; assumption|right; split; assumption].
Qed.

Lemma firstn_skipn_NoDup_disjoint {A} (v : nat) (l : list A) x : NoDup l -> In x (skipn v l) -> ~ In x (firstn v l).
Proof.
  intros Hnd H1 H2. rewrite <- (firstn_skipn v l) in Hnd. apply NoDup_app_iff in Hnd.
  destruct Hnd as (_ & _ & Hd). apply (Hd x H2 H1).
Qed.

Lemma nth_skipn {A} (v i : nat) (l : list A) d : nth i (skipn v l) d = nth (v + i) l d.
Proof.
  revert l. induction v as [|v IH]; intros l; cbn; [reflexivity|]. destruct l as [|x t]; [destruct i; reflexivity|]. apply IH.
Qed.

Lemma firstn_app_len {A} (a b : list A) : firstn (length a) (a ++ b) = a.
Proof. induction a as [|x t IH]; cbn; [reflexivity|]. f_equal. exact IH. Qed.

Lemma skipn_app_len {A} (a b : list A) : skipn (length a) (a ++ b) = b.
Proof. induction a as [|x t IH]; cbn; [reflexivity|]. exact IH. Qed.

(* ---- index_of / neighbour_index ------------------------------------------------------------------ *)
Lemma index_of_Some x l i : index_of x l = Some i -> i < length l /\ nth i l 0 = x.
Proof.
  revert i. induction l as [|y t IH]; intros i; cbn; [discriminate|].
  destruct (Nat.eqb_spec x y) as [->|Hne].
  - intros [= <-]. split; [lia|reflexivity].
  - destruct (index_of x t) as [j|]; [|discriminate]. intros [= <-]. destruct (IH j eq_refl). split; [lia|assumption].
Qed.

Lemma index_of_In x l : In x l -> exists i, index_of x l = Some i.
Proof.
  induction l as [|y t IH]; [intros []|]. intros Hin. cbn. destruct (Nat.eqb_spec x y) as [->|Hne]; [eauto|].
  destruct Hin as [->|Hin]; [congruence|]. destruct (IH Hin) as [i ->]. cbn. eauto.
Qed.

Lemma index_of_None x l : index_of x l = None <-> ~ In x l.
Proof.
  split.
  - intros E Hin. apply index_of_In in Hin. destruct Hin as [i Hi]. congruence.
  - intros H. destruct (index_of x l) as [i|] eqn:E; [|reflexivity]. exfalso. apply H.
    apply index_of_Some in E. destruct E as [E1 <-]. apply nth_In. exact E1.
Qed.

Lemma index_of_nth l i : NoDup l -> i < length l -> index_of (nth i l 0) l = Some i.
Proof.
  revert i. induction l as [|y t IH]; intros i Hnd Hi; cbn in *; [lia|].
  inversion Hnd as [|? ? Hni Hnd']; subst. destruct i as [|i].
  - rewrite Nat.eqb_refl. reflexivity.
  - destruct (Nat.eqb_spec (nth i t 0) y) as [E|Hne].
    + exfalso. apply Hni. rewrite <- E. apply nth_In. lia.
    + rewrite IH by (auto; lia). reflexivity.
Qed.

Lemma index_of_app x a b :
  index_of x (a ++ b) = match index_of x a with Some i => Some i | None => option_map (fun j => length a + j) (index_of x b) end.
Proof.
  induction a as [|y t IH]; cbn.
  - destruct (index_of x b); reflexivity.
  - destruct (Nat.eqb x y); [reflexivity|]. rewrite IH. destruct (index_of x t); cbn; [reflexivity|].
    destruct (index_of x b); reflexivity.
Qed.

(* the leg of a child: behind the parent leg, at its position in the children list *)
Lemma neighbour_index_child n c : parent n <> Some c ->
  neighbour_index n c = option_map (fun i => nparents n + i) (index_of c (children n)).
Proof.
  unfold neighbour_index, nparents. destruct (parent n) as [p|].
  - intros H. destruct (Nat.eqb_spec c p) as [->|Hne]; [congruence|].
    destruct (index_of c (children n)); cbn; [f_equal; lia|reflexivity].
  - intros _. destruct (index_of c (children n)); reflexivity.
Qed.

Lemma neighbour_index_lt n c i : parent n <> Some c -> neighbour_index n c = Some i ->
  nparents n <= i < nvirt n /\ nth (i - nparents n) (children n) 0 = c.
Proof.
  intros H E. rewrite (neighbour_index_child n c H) in E. destruct (index_of c (children n)) as [j|] eqn:Ej; [|discriminate].
  injection E as <-. apply index_of_Some in Ej. destruct Ej as [E1 E2]. unfold nvirt.
  replace (nparents n + j - nparents n) with j by lia. unfold id in *. split; [lia|exact E2].
Qed.

(* ---- enum_from ------------------------------------------------------------------------------------- *)
Lemma enum_from_fst {A} a (l : list A) : map fst (enum_from a l) = l.
Proof.
  unfold enum_from. revert a. induction l as [|x t IH]; intros a; cbn; [reflexivity|]. f_equal. apply IH.
Qed.

Lemma enum_from_snd {A} a (l : list A) : map snd (enum_from a l) = seq a (length l).
Proof.
  unfold enum_from. revert a. induction l as [|x t IH]; intros a; cbn; [reflexivity|]. f_equal. apply IH.
Qed.

Lemma enum_from_length {A} a (l : list A) : length (enum_from a l) = length l.
Proof. rewrite <- (map_length fst). rewrite enum_from_fst. reflexivity. Qed.

(* ---- open_legs_to_children ------------------------------------------------------------------------- *)
Definition olc_vals (l : list (id * nat * nat)) : list nat := map snd l.
Definition olc_ids (l : list (id * nat * nat)) : list id := map (fun x => fst (fst x)) l.

Lemma olc_loop_spec orig l : forall n n',
  olc_loop orig n l = Some n' ->
  NoDup (perm n) -> NoDup (olc_vals l) -> nvirt n <= length (perm n) ->
  (forall x, In x (olc_vals l) -> In x (skipn (nvirt n) (perm n))) ->
  parent n' = parent n /\ shape n' = shape n /\ children n' = children n ++ olc_ids l /\
  perm n' = firstn (nvirt n) (perm n) ++ olc_vals l
            ++ filter (fun x => negb (memb x (olc_vals l))) (skipn (nvirt n) (perm n))
  /\ (forall x, In x l -> orig <= snd (fst x)).
Proof.
  induction l as [|[[cid leg] val] t IH]; intros n n' H Hnd Hvals Hv Hin.
  - cbn in H. injection H as <-. cbn. rewrite app_nil_r. repeat split; auto.
    + rewrite filter_all by reflexivity. symmetry. apply firstn_skipn.
    + intros x [].
  - cbn [olc_loop] in H. destruct (Nat.ltb_spec leg orig) as [Hlt|Hge]; [discriminate|].
    set (P := perm n) in *. set (v := nvirt n) in *.
    cbn [olc_vals map snd] in Hvals, Hin. inversion Hvals as [|? ? Hni Hvals']; subst.
    assert (Hval : In val (skipn v P)) by (apply Hin; left; reflexivity).
    assert (Hnf : ~ In val (firstn v P)) by (apply firstn_skipn_NoDup_disjoint; assumption).
    assert (Hlenf : length (firstn v P) = v) by (apply firstn_length_le; exact Hv).
    assert (HP1 : insert v val (remove_first val P) = firstn v P ++ val :: remove_first val (skipn v P)).
    { rewrite <- (firstn_skipn v P) at 1. rewrite remove_first_app_r by exact Hnf.
      rewrite <- Hlenf at 1. apply insert_app. }
    assert (Hnds : NoDup (skipn v P)).
    { rewrite <- (firstn_skipn v P) in Hnd. apply NoDup_app_iff in Hnd. tauto. }
    match type of H with olc_loop _ ?nn _ = _ => set (n1 := nn) in * end.
    assert (Hv1 : nvirt n1 = S v).
    { unfold nvirt, nparents, n1. cbn. rewrite app_length. cbn. fold (nparents n). unfold v, nvirt. lia. }
    assert (Hp1 : perm n1 = firstn v P ++ val :: remove_first val (skipn v P)) by exact HP1.
    assert (Hf1 : firstn (S v) (perm n1) = firstn v P ++ [val]).
    { rewrite Hp1. replace (S v) with (length (firstn v P ++ [val])) by (rewrite app_length; cbn; lia).
      change (val :: remove_first val (skipn v P)) with ([val] ++ remove_first val (skipn v P)).
      rewrite app_assoc. apply firstn_app_len. }
    assert (Hs1 : skipn (S v) (perm n1) = remove_first val (skipn v P)).
    { rewrite Hp1. replace (S v) with (length (firstn v P ++ [val])) by (rewrite app_length; cbn; lia).
      change (val :: remove_first val (skipn v P)) with ([val] ++ remove_first val (skipn v P)).
      rewrite app_assoc. apply skipn_app_len. }
    assert (Hrf : remove_first val (skipn v P) = filter (fun y => negb (Nat.eqb y val)) (skipn v P))
      by (apply remove_first_filter; exact Hnds).
    specialize (IH n1 n' H).
    destruct IH as (I1 & I2 & I3 & I4 & I5).
    + rewrite Hp1. apply Permutation_NoDup with (l := P); [|exact Hnd].
      rewrite <- (firstn_skipn v P) at 1. apply Permutation_app_head.
      apply remove_first_perm. exact Hval.
    + exact Hvals'.
    + rewrite Hv1, Hp1, app_length. cbn. rewrite Hlenf. lia.
    + intros x Hx. rewrite Hv1, Hs1, Hrf. apply filter_In. split; [apply Hin; right; exact Hx|].
      apply negb_true_iff. apply Nat.eqb_neq. intros ->. contradiction.
    + repeat split.
      * rewrite I1. reflexivity.
      * rewrite I2. reflexivity.
      * rewrite I3. cbn. rewrite <- app_assoc. reflexivity.
      * rewrite I4, Hv1, Hf1, Hs1, Hrf, filter_filter. cbn [olc_vals map snd]. rewrite <- app_assoc. cbn.
        f_equal. f_equal. f_equal. apply filter_ext_in'. intros x _. cbn.
        rewrite negb_orb. reflexivity.
      * intros x [<-|Hx]; [cbn; exact Hge|apply I5; exact Hx].
Qed.

Lemma olc_loop_legs orig l : forall n n', olc_loop orig n l = Some n' -> forall x, In x l -> orig <= snd (fst x).
Proof.
  induction l as [|[[cid leg] val] t IH]; intros n n' H x Hx; [destruct Hx|].
  cbn [olc_loop] in H. destruct (Nat.ltb_spec leg orig) as [Hlt|Hge]; [discriminate|].
  destruct Hx as [<-|Hx]; [exact Hge|]. eapply IH; eauto.
Qed.

Lemma NoDup_map_nth {A} (d : A) (l : list A) (is : list nat) :
  NoDup l -> NoDup is -> (forall i, In i is -> i < length l) -> NoDup (map (fun i => nth i l d) is).
Proof.
  intros Hl His Hb. induction is as [|i t IH]; cbn; [constructor|].
  inversion His as [|? ? Hni Ht]; subst. constructor.
  - intros Hin. apply in_map_iff in Hin. destruct Hin as (j & Ej & Hj).
    assert (j = i). { apply (proj1 (NoDup_nth l d) Hl); [apply Hb; right; exact Hj|apply Hb; left; reflexivity|exact Ej]. }
    subst. contradiction.
  - apply IH; [exact Ht|]. intros j Hj. apply Hb. right. exact Hj.
Qed.

Theorem open_legs_to_children_spec n d n' :
  node_wf n -> NoDup (map snd d) -> open_legs_to_children n d = Some n' ->
  let vals := map (fun cl => nth (snd cl) (perm n) 0) d in
  parent n' = parent n /\ shape n' = shape n /\ children n' = children n ++ map fst d /\
  perm n' = firstn (nvirt n) (perm n) ++ vals ++ filter (fun x => negb (memb x vals)) (skipn (nvirt n) (perm n))
  /\ (forall cl, In cl d -> nvirt n <= snd cl < nlegs n).
Proof.
  intros [Hp Hv] Hnd H vals. unfold open_legs_to_children in H.
  destruct (forallb (fun cl => snd cl <? nlegs n) d) eqn:Hlt; [|discriminate].
  rewrite forallb_forall in Hlt.
  set (l := map (fun cl : id * nat => (fst cl, snd cl, nth (snd cl) (perm n) 0)) d) in *.
  assert (Hvals : olc_vals l = vals). { unfold olc_vals, l, vals. rewrite map_map. reflexivity. }
  assert (Hids : olc_ids l = map fst d). { unfold olc_ids, l. rewrite map_map. reflexivity. }
  assert (Hlegs : forall cl, In cl d -> nvirt n <= snd cl < nlegs n).
  { intros cl Hcl. split; [|apply Nat.ltb_lt; apply Hlt; exact Hcl].
    apply (olc_loop_legs _ _ _ _ H (fst cl, snd cl, nth (snd cl) (perm n) 0)). unfold l.
    apply in_map_iff. exists cl. split; [reflexivity|exact Hcl]. }
  assert (HndP : NoDup (perm n)).
  { apply (Permutation_NoDup (Permutation_sym Hp)). apply seq_NoDup. }
  pose proof (olc_loop_spec _ _ _ _ H HndP) as Hs. rewrite Hvals, Hids in Hs.
  destruct Hs as (S1 & S2 & S3 & S4 & _).
  - unfold vals. rewrite <- (map_map snd (fun i => nth i (perm n) 0)).
    apply NoDup_map_nth; [exact HndP|exact Hnd|]. intros i Hi. apply in_map_iff in Hi.
    destruct Hi as (cl & <- & Hcl). apply (Hlegs cl Hcl).
  - exact Hv.
  - intros x Hx. unfold vals in Hx. apply in_map_iff in Hx. destruct Hx as (cl & <- & Hcl).
    destruct (Hlegs cl Hcl) as [H1 H2]. replace (snd cl) with (nvirt n + (snd cl - nvirt n)) by lia.
    rewrite <- nth_skipn. apply nth_In. rewrite skipn_length. unfold nlegs in H2. lia.
  - split; [exact S1|split; [exact S2|split; [exact S3|split; [exact S4|exact Hlegs]]]].
Qed.

(* ---- seq segments ---------------------------------------------------------------------------------- *)
Lemma skipn_S_tl {A} a (l : list A) : skipn (S a) l = tl (skipn a l).
Proof.
  revert l. induction a as [|a IH]; intros l.
  - destruct l; reflexivity.
  - destruct l as [|x t]; [reflexivity|]. change (skipn (S (S a)) (x :: t)) with (skipn (S a) t).
    change (skipn (S a) (x :: t)) with (skipn a t). apply IH.
Qed.

Lemma map_nth_seq {A} (d : A) (l : list A) a k : a + k <= length l ->
  map (fun i => nth i l d) (seq a k) = firstn k (skipn a l).
Proof.
  revert a l. induction k as [|k IH]; intros a l H; cbn; [reflexivity|].
  destruct (skipn a l) as [|x t] eqn:E.
  - exfalso. assert (length (skipn a l) = 0) by (rewrite E; reflexivity). rewrite skipn_length in H0. lia.
  - f_equal.
    + rewrite <- (Nat.add_0_r a). rewrite <- nth_skipn. rewrite E. reflexivity.
    + rewrite IH by lia. f_equal. rewrite skipn_S_tl, E. reflexivity.
Qed.

Lemma map_nth_seq_mid {A} (d : A) (a b c : list A) :
  map (fun i => nth i (a ++ b ++ c) d) (seq (length a) (length b)) = b.
Proof.
  rewrite map_nth_seq by (rewrite !app_length; lia). rewrite skipn_app_len. apply firstn_app_len.
Qed.

Lemma seq_app' a k1 k2 : seq a (k1 + k2) = seq a k1 ++ seq (a + k1) k2.
Proof. apply seq_app. Qed.

Lemma filter_seq_out (vals : list nat) a k : (forall x, a <= x < a + k -> ~ In x vals) ->
  filter (fun x => negb (memb x vals)) (seq a k) = seq a k.
Proof.
  intros H. apply filter_all. intros x Hx. apply in_seq in Hx. apply negb_true_iff, memb_false. apply H. exact Hx.
Qed.

Lemma filter_seq_in (vals : list nat) a k : (forall x, a <= x < a + k -> In x vals) ->
  filter (fun x => negb (memb x vals)) (seq a k) = [].
Proof.
  intros H. apply filter_none. intros x Hx. apply in_seq in Hx. apply negb_false_iff, memb_In. apply H. exact Hx.
Qed.

(* ---- pop_n / insert_list on concatenations ----------------------------------------------------------- *)
Lemma pop_app {A} (a : list A) x b : pop (length a) (a ++ x :: b) = Some (x, a ++ b).
Proof. induction a as [|y t IH]; cbn; [reflexivity|]. rewrite IH. reflexivity. Qed.

Lemma pop_n_app {A} (a b c : list A) : pop_n (length b) (length a) (a ++ b ++ c) = Some (b, a ++ c).
Proof.
  revert a. induction b as [|x t IH]; intros a; cbn; [reflexivity|].
  rewrite pop_app. rewrite IH. reflexivity.
Qed.

Lemma insert_list_app {A} (a xs c : list A) : insert_list (length a) xs (a ++ c) = a ++ xs ++ c.
Proof. induction a as [|y t IH]; cbn; [destruct c; reflexivity|]. f_equal. exact IH. Qed.

Lemma insert_list_end {A} (a xs : list A) : insert_list (length a) xs a = a ++ xs.
Proof. rewrite <- (app_nil_r a) at 2. rewrite insert_list_app. rewrite app_nil_r. reflexivity. Qed.
