(* split_nodes preserves the store invariant (part 1): generic lemmas, the specification
   side conditions, inversion of a successful split, node-level computations and the neighbour
   renaming.  The abstract view, the preservation theorem and the diagram statements are in
   InvSplit2.v. *)
From Coq Require Import List Arith Bool Lia Permutation.
From PTN Require Import TTN.Store TTN.StoreProofs TTN.Inv TTN.InvProofs TTN.InvNode.
Import ListNotations.

(* ---- generic list lemmas ---------------------------------------------------------------------------- *)
Lemma sp_all_some_map {A} (l : list (option A)) r : all_some l = Some r <-> l = map Some r.
Proof.
  revert r. induction l as [|[x|] t IH]; intros r; cbn.
  - split; [intros [= <-]; reflexivity|]. destruct r; [reflexivity|discriminate].
  - destruct (all_some t) as [r'|] eqn:E; cbn.
    + split.
      * intros [= <-]. cbn. f_equal. apply IH. reflexivity.
      * destruct r as [|y r]; [discriminate|]. cbn. intros [= -> H]. apply IH in H. injection H as ->. reflexivity.
    + split; [discriminate|]. destruct r as [|y r]; [discriminate|]. cbn. intros [= -> H]. apply IH in H. discriminate.
  - split; [discriminate|]. destruct r; discriminate.
Qed.

Lemma sp_filter_firstn k (l : list nat) : NoDup l ->
  filter (fun x => negb (memb x (firstn k l))) l = skipn k l.
Proof.
  revert k. induction l as [|y t IH]; intros k Hnd; [destruct k; reflexivity|].
  inversion Hnd as [|? ? Hni Hnd']; subst. destruct k as [|k].
  - cbn [firstn skipn]. apply filter_all. intros x _. reflexivity.
  - cbn [firstn skipn filter]. cbn [memb existsb]. rewrite Nat.eqb_refl. cbn.
    rewrite <- (IH k Hnd'). apply filter_ext_in'. intros x Hx. cbn.
    destruct (Nat.eqb_spec x y) as [->|Hne]; [contradiction|]. reflexivity.
Qed.

Lemma sp_seq_nth_map N (is : list nat) : (forall i, In i is -> i < N) -> map (fun i => nth i (seq 0 N) 0) is = is.
Proof.
  intros H. rewrite <- (map_id is) at 2. apply map_ext_in. intros i Hi. rewrite seq_nth by (apply H; exact Hi). reflexivity.
Qed.

Lemma sp_seq_snoc a k : seq a (S k) = seq a k ++ [a + k].
Proof. rewrite <- Nat.add_1_r. rewrite seq_app. reflexivity. Qed.

Lemma sp_firstn_seq a v L : v <= L -> firstn v (seq a L) = seq a v.
Proof.
  intros H. replace L with (v + (L - v)) by lia. rewrite seq_app.
  rewrite <- (seq_length v a) at 1. apply firstn_app_len.
Qed.

Lemma sp_skipn_seq a v L : v <= L -> skipn v (seq a L) = seq (a + v) (L - v).
Proof.
  intros H. replace L with (v + (L - v)) at 1 by lia. rewrite seq_app.
  rewrite <- (seq_length v a) at 1. apply skipn_app_len.
Qed.

Lemma sp_replace_first_notin x y l : ~ In x l -> replace_first x y l = l.
Proof.
  induction l as [|z t IH]; cbn; [reflexivity|]. intros H.
  destruct (Nat.eqb_spec x z) as [->|Hne]; [exfalso; apply H; left; reflexivity|].
  f_equal. apply IH. intros Hin. apply H. right. exact Hin.
Qed.

Lemma sp_replace_first_length x y l : length (replace_first x y l) = length l.
Proof. induction l as [|z t IH]; cbn; [reflexivity|]. destruct (Nat.eqb x z); cbn; [reflexivity|]. f_equal. exact IH. Qed.

Lemma sp_replace_first_same x l : replace_first x x l = l.
Proof. induction l as [|z t IH]; cbn; [reflexivity|]. destruct (Nat.eqb_spec x z) as [->|]; [reflexivity|]. f_equal. exact IH. Qed.

(* membership in a renamed list *)
Lemma sp_In_replace_first x y l z : NoDup l -> In z (replace_first x y l) -> (z = y /\ In x l) \/ (In z l /\ z <> x).
Proof.
  induction l as [|w t IH]; cbn; [intros _ []|]. intros Hnd. inversion Hnd as [|? ? Hni Hnd']; subst.
  destruct (Nat.eqb_spec x w) as [->|Hne].
  - intros [<-|Hz]; [left; split; [reflexivity|left; reflexivity]|]. right. split; [right; exact Hz|]. intros ->. contradiction.
  - intros [<-|Hz]; [right; split; [left; reflexivity|congruence]|].
    destruct (IH Hnd' Hz) as [[-> Hx]|[Hz1 Hz2]]; [left; split; [reflexivity|right; exact Hx]|right; split; [right; exact Hz1|exact Hz2]].
Qed.

Lemma sp_In_replace_first_new x y l : In x l -> In y (replace_first x y l).
Proof.
  induction l as [|w t IH]; [intros []|]. cbn. destruct (Nat.eqb_spec x w) as [->|Hne]; [intros _; left; reflexivity|].
  intros [->|Hx]; [congruence|]. right. apply IH. exact Hx.
Qed.

Lemma sp_In_replace_first_other x y l z : In z l -> z <> x -> In z (replace_first x y l).
Proof.
  induction l as [|w t IH]; [intros []|]. cbn. destruct (Nat.eqb_spec x w) as [->|Hne].
  - intros [->|Hz] Hzx; [congruence|right; exact Hz].
  - intros [->|Hz] Hzx; [left; reflexivity|right; apply IH; assumption].
Qed.

Lemma sp_NoDup_replace_first x y l : NoDup l -> ~ In y l \/ y = x -> NoDup (replace_first x y l).
Proof.
  intros Hnd [Hy| ->]; [|rewrite sp_replace_first_same; exact Hnd].
  induction l as [|w t IH]; cbn; [constructor|]. inversion Hnd as [|? ? Hni Hnd']; subst.
  destruct (Nat.eqb_spec x w) as [->|Hne].
  - constructor; [|exact Hnd']. intros Hin. apply Hy. right. exact Hin.
  - constructor.
    + intros Hin. apply (sp_In_replace_first _ _ _ _ Hnd') in Hin. destruct Hin as [[-> _]|[Hin _]]; [apply Hy; left; reflexivity|contradiction].
    + apply IH; [exact Hnd'|]. intros Hin. apply Hy. right. exact Hin.
Qed.

(* the position of an element that is not renamed, and of the renamed one *)
Lemma sp_index_of_replace_first_other x y l z : z <> x -> z <> y -> index_of z (replace_first x y l) = index_of z l.
Proof.
  intros Hzx Hzy. induction l as [|w t IH]; cbn; [reflexivity|].
  destruct (Nat.eqb_spec x w) as [->|Hne]; cbn.
  - destruct (Nat.eqb_spec z y); [congruence|]. destruct (Nat.eqb_spec z w); [congruence|]. reflexivity.
  - destruct (Nat.eqb_spec z w); [reflexivity|]. rewrite IH. reflexivity.
Qed.

Lemma sp_index_of_replace_first_new x y l : ~ In y l \/ y = x -> index_of y (replace_first x y l) = index_of x l.
Proof.
  intros [Hy| ->]; [|rewrite sp_replace_first_same; reflexivity].
  induction l as [|w t IH]; cbn; [reflexivity|].
  destruct (Nat.eqb_spec x w) as [->|Hne]; cbn.
  - rewrite Nat.eqb_refl. reflexivity.
  - destruct (Nat.eqb_spec y w) as [->|Hne2]; [exfalso; apply Hy; left; reflexivity|].
    rewrite IH; [reflexivity|]. intros Hin. apply Hy. right. exact Hin.
Qed.

Lemma sp_permute_app {A} (d : A) p q l : permute d (p ++ q) l = permute d p l ++ permute d q l.
Proof. unfold permute. apply map_app. Qed.

Lemma sp_permute_cons {A} (d : A) i p l : permute d (i :: p) l = nth i l d :: permute d p l.
Proof. reflexivity. Qed.

(* shifting a permutation over a prefix / a cons *)
Lemma sp_permute_seq_shift {A} (d : A) x l a k : permute d (seq (S a) k) (x :: l) = permute d (seq a k) l.
Proof. unfold permute. rewrite <- seq_shift, map_map. reflexivity. Qed.

Lemma sp_permute_seq_all {A} (d : A) l k : k = length l -> permute d (seq 0 k) l = l.
Proof. intros ->. apply permute_seq. Qed.

Lemma sp_permute_seq_prefix {A} (d : A) l r : permute d (seq 0 (length l)) (l ++ r) = l.
Proof.
  unfold permute. rewrite map_nth_seq by (rewrite app_length; lia). cbn [skipn]. apply firstn_app_len.
Qed.

Lemma sp_nth_app_len {A} (d : A) l x r : nth (length l) (l ++ x :: r) d = x.
Proof. rewrite app_nth2 by lia. rewrite Nat.sub_diag. reflexivity. Qed.

(* ---- association lists --------------------------------------------------------------------------------- *)
Lemma sp_NoDup_assoc {V} (l : list (nat * V)) : NoDup (akeys l) -> NoDup l.
Proof. unfold akeys. apply NoDup_map_inv. Qed.

(* two association lists with distinct keys and the same lookups are permutations of each other *)
Lemma sp_assoc_perm {V} (l l' : list (nat * V)) :
  NoDup (akeys l) -> NoDup (akeys l') -> (forall k, aget k l = aget k l') -> Permutation l l'.
Proof.
  intros H1 H2 H. apply NoDup_Permutation; [apply sp_NoDup_assoc; exact H1|apply sp_NoDup_assoc; exact H2|].
  intros [k v]. split; intros Hin.
  - apply aget_In. rewrite <- H. apply In_aget; assumption.
  - apply aget_In. rewrite H. apply In_aget; assumption.
Qed.

Lemma sp_adel_decomp {V} k (v : V) l : NoDup (akeys l) -> aget k l = Some v -> Permutation l ((k, v) :: adel k l).
Proof.
  intros Hnd E. apply sp_assoc_perm; [exact Hnd| |].
  - cbn. constructor; [|apply NoDup_akeys_adel; exact Hnd].
    intros Hin. apply keys_aget in Hin. destruct Hin as [v' Hv']. rewrite aget_adel_same in Hv' by exact Hnd. discriminate.
  - intros k'. cbn. destruct (Nat.eqb_spec k' k) as [->|Hne]; [exact E|]. rewrite aget_adel_other by exact Hne. reflexivity.
Qed.

Lemma sp_aget_snoc_other {V} k k' (v : V) l : k <> k' -> aget k (l ++ [(k', v)]) = aget k l.
Proof.
  intros Hne. rewrite aget_app. destruct (aget k l); [reflexivity|]. cbn.
  destruct (Nat.eqb_spec k k'); [congruence|reflexivity].
Qed.

(* ---- every logical axis list of a well-formed store is duplicate free --------------------------------- *)
Lemma sp_own_of_nth_lo n t i : i < nparents n -> nparents n <= nlegs n -> In (nth i (laxes n t) 0) (own_of n t).
Proof.
  intros Hi Hle. unfold own_of. apply in_or_app. left.
  rewrite <- (firstn_skipn (nparents n) (laxes n t)) at 1.
  rewrite app_nth1 by (rewrite firstn_length, laxes_length; lia).
  apply nth_In. rewrite firstn_length, laxes_length. lia.
Qed.

Lemma sp_own_of_nth_hi n t i : nvirt n <= i < nlegs n -> In (nth i (laxes n t) 0) (own_of n t).
Proof.
  intros Hi. unfold own_of. apply in_or_app. right.
  replace i with (nvirt n + (i - nvirt n)) by lia. rewrite <- nth_skipn.
  apply nth_In. rewrite skipn_length, laxes_length. lia.
Qed.

(* a child's parent wire sits on the parent's leg for that child *)
Lemma sp_child_wire s k nk j : wf s -> aget k (nodes s) = Some nk -> j < length (children nk) ->
  exists cn, aget (nth j (children nk) 0) (nodes s) = Some cn /\ parent cn = Some k /\
             nth (nparents nk + j) (lax s k nk) 0 = nth 0 (lax s (nth j (children nk) 0) cn) 0.
Proof.
  intros H E Hj. pose proof (wf_node s H k nk E) as Hn. set (c := nth j (children nk) 0).
  assert (Hc : In c (children nk)) by (apply nth_In; exact Hj).
  destruct (ni_ch _ _ _ Hn c Hc) as (cn & Ec & Epc). exists cn. split; [exact Ec|split; [exact Epc|]].
  destruct (ni_par _ _ _ (wf_node s H c cn Ec) k Epc) as (pn & i & Epn & Hin & Hni & Hw).
  rewrite E in Epn. injection Epn as <-. rewrite Hw. f_equal.
  assert (Hpc : parent nk <> Some c) by (eapply wf_parent_not_child; eauto).
  rewrite (neighbour_index_child nk c Hpc) in Hni. unfold c in Hni at 1.
  pose proof (index_of_nth _ _ (ni_chnd _ _ _ Hn) Hj) as Hix. unfold id in *. rewrite Hix in Hni.
  cbn in Hni. injection Hni as <-. reflexivity.
Qed.

Theorem wf_lax_NoDup s k nk : wf s -> aget k (nodes s) = Some nk -> NoDup (lax s k nk).
Proof.
  intros H E. pose proof (wf_node s H k nk E) as Hn. pose proof (ni_virt _ _ _ Hn) as Hv.
  set (L := lax s k nk). assert (HL : length L = nlegs nk) by apply laxes_length.
  (* classify a position *)
  assert (Hcls : forall i, i < nlegs nk ->
            In (nth i L 0) (own_of nk (tens s k)) \/
            exists j cn, i = nparents nk + j /\ j < length (children nk) /\
                         aget (nth j (children nk) 0) (nodes s) = Some cn /\ parent cn = Some k /\
                         In (nth i L 0) (own_of cn (tens s (nth j (children nk) 0)))).
  { intros i Hi. destruct (Nat.lt_ge_cases i (nparents nk)) as [H1|H1].
    - left. apply sp_own_of_nth_lo; [exact H1|unfold nvirt in Hv; lia].
    - destruct (Nat.lt_ge_cases i (nvirt nk)) as [H2|H2].
      + right. unfold nvirt in H2. unfold id in *. exists (i - nparents nk).
        destruct (sp_child_wire s k nk (i - nparents nk) H E ltac:(unfold id in *; lia)) as (cn & Ec & Epc & Hw).
        exists cn. replace (nparents nk + (i - nparents nk)) with i in Hw by lia.
        repeat split; [lia|lia|exact Ec|exact Epc|]. unfold L. rewrite Hw.
        pose proof (wf_node s H _ cn Ec) as Hcn. pose proof (ni_virt _ _ _ Hcn) as Hvc.
        assert (Hp1 : nparents cn = 1) by (unfold nparents; rewrite Epc; reflexivity).
        unfold nvirt in Hvc. apply sp_own_of_nth_lo; lia.
      + left. apply sp_own_of_nth_hi. lia. }
  apply (proj2 (NoDup_nth L 0)). intros i j Hi Hj Eij. rewrite HL in Hi, Hj.
  destruct (Hcls i Hi) as [Oi|(ji & ci & Ei & Hji & Eci & Epi & Oi)];
  destruct (Hcls j Hj) as [Oj|(jj & cj & Ej & Hjj & Ecj & Epj & Oj)].
  - (* both own: positions in own_of *)
    pose proof (wf_own1 s H k nk E) as Hnd. unfold own_of in Hnd. fold (lax s k nk) in Hnd. fold L in Hnd.
    destruct (Nat.eq_dec i j) as [|Hne]; [assumption|exfalso].
    assert (Hpos : forall x, x < nlegs nk -> x < nparents nk \/ nvirt nk <= x \/ (nparents nk <= x < nvirt nk)) by (intros; lia).
    (* if a position is a child position its wire is owned by the child, hence not by k *)
    assert (Hchild : forall x, nparents nk <= x < nvirt nk -> ~ In (nth x L 0) (own_of nk (tens s k))).
    { intros x Hx Hin. unfold nvirt in Hx. unfold id in *.
      destruct (sp_child_wire s k nk (x - nparents nk) H E ltac:(unfold id in *; lia)) as (cn & Ec & Epc & Hw).
      replace (nparents nk + (x - nparents nk)) with x in Hw by lia. fold L in Hw.
      pose proof (wf_node s H _ cn Ec) as Hcn. pose proof (ni_virt _ _ _ Hcn) as Hvc.
      assert (Hoc : In (nth x L 0) (own_of cn (tens s (nth (x - nparents nk) (children nk) 0)))).
      { rewrite Hw. assert (Hp1 : nparents cn = 1) by (unfold nparents; rewrite Epc; reflexivity).
        unfold nvirt in Hvc. apply sp_own_of_nth_lo; lia. }
      pose proof (wf_own2 s H _ _ _ _ _ E Ec Hin Hoc) as Ek.
      apply (wf_not_self_parent s _ cn H Ec). rewrite <- Ek. exact Epc. }
    assert (Hi' : i < nparents nk \/ nvirt nk <= i) by (destruct (Hpos i Hi) as [|[|Hc]]; [auto|auto|exfalso; apply (Hchild i Hc Oi)]).
    assert (Hj' : j < nparents nk \/ nvirt nk <= j) by (destruct (Hpos j Hj) as [|[|Hc]]; [auto|auto|exfalso; apply (Hchild j Hc Oj)]).
    set (own := firstn (nparents nk) L ++ skipn (nvirt nk) L) in *.
    assert (Hlf : length (firstn (nparents nk) L) = nparents nk) by (rewrite firstn_length; unfold nvirt in Hv; lia).
    assert (Hmap : forall x, x < nlegs nk -> (x < nparents nk \/ nvirt nk <= x) ->
              let px := if Nat.ltb x (nparents nk) then x else nparents nk + (x - nvirt nk) in
              px < length own /\ nth px own 0 = nth x L 0).
    { intros x Hx Hx'. cbv zeta. unfold own. rewrite app_length, Hlf, skipn_length, HL.
      destruct (Nat.ltb_spec x (nparents nk)) as [Hl|Hl].
      - split; [lia|]. rewrite app_nth1 by lia. rewrite <- (firstn_skipn (nparents nk) L) at 2.
        rewrite app_nth1 by lia. reflexivity.
      - split; [lia|]. rewrite app_nth2 by lia. rewrite Hlf.
        replace (nparents nk + (x - nvirt nk) - nparents nk) with (x - nvirt nk) by lia.
        rewrite nth_skipn. f_equal. lia. }
    destruct (Hmap i Hi Hi') as [Hi1 Hi2]. destruct (Hmap j Hj Hj') as [Hj1 Hj2].
    pose proof (proj1 (NoDup_nth own 0) Hnd _ _ Hi1 Hj1 ltac:(rewrite Hi2, Hj2; exact Eij)) as Epos.
    destruct (Nat.ltb_spec i (nparents nk)); destruct (Nat.ltb_spec j (nparents nk)); lia.
  - exfalso. rewrite Eij in Oi. pose proof (wf_own2 s H _ _ _ _ _ E Ecj Oi Oj) as Ek.
    apply (wf_not_self_parent s _ cj H Ecj). rewrite <- Ek. exact Epj.
  - exfalso. rewrite <- Eij in Oj. pose proof (wf_own2 s H _ _ _ _ _ E Eci Oj Oi) as Ek.
    apply (wf_not_self_parent s _ ci H Eci). rewrite <- Ek. exact Epi.
  - rewrite Eij in Oi. pose proof (wf_own2 s H _ _ _ _ _ Eci Ecj Oi Oj) as Ek.
    pose proof (proj1 (NoDup_nth (children nk) 0) (ni_chnd _ _ _ Hn) _ _ Hji Hjj Ek). lia.
Qed.

(* ---- the side conditions of the preservation theorem ---------------------------------------------------- *)
(* a leg specification describes the node truthfully *)
Definition leg_ok (nd : node) (sp : legspec) : Prop :=
  (forall q, ls_parent sp = Some q -> parent nd = Some q) /\
  (ls_root sp = true -> parent nd = None) /\
  incl (ls_children sp) (children nd) /\
  (forall l, In l (ls_open sp) -> nvirt nd <= l).
Definition spec_ok (s : store) (n : id) (o i : legspec) : Prop :=
  forall nd, aget n (nodes s) = Some nd -> leg_ok nd o /\ leg_ok nd i.
(* the new identifiers are fresh, except that the identifier of the split node may be reused *)
Definition ids_ok (s : store) (n oid iid : id) : Prop :=
  (oid = n \/ ~ In oid (akeys (nodes s))) /\ (iid = n \/ ~ In iid (akeys (nodes s))).

(* executable versions *)
Definition leg_okb (nd : node) (sp : legspec) : bool :=
  (match ls_parent sp with Some q => match parent nd with Some p => Nat.eqb p q | None => false end | None => true end)
  && (if ls_root sp then is_root nd else true)
  && forallb (fun c => memb c (children nd)) (ls_children sp)
  && forallb (fun l => Nat.leb (nvirt nd) l) (ls_open sp).
Definition spec_okb (s : store) (n : id) (o i : legspec) : bool :=
  match aget n (nodes s) with Some nd => leg_okb nd o && leg_okb nd i | None => true end.
Definition ids_okb (s : store) (n oid iid : id) : bool :=
  (Nat.eqb oid n || negb (amem oid (nodes s))) && (Nat.eqb iid n || negb (amem iid (nodes s))).

Lemma leg_okb_spec nd sp : leg_okb nd sp = true <-> leg_ok nd sp.
Proof.
  unfold leg_okb, leg_ok. rewrite !andb_true_iff, !forallb_forall. split.
  - intros [[[H1 H2] H3] H4]. repeat split.
    + intros q Eq. rewrite Eq in H1. destruct (parent nd) as [p|]; [|discriminate]. apply Nat.eqb_eq in H1. congruence.
    + intros Er. rewrite Er in H2. apply is_root_spec. exact H2.
    + intros c Hc. apply memb_In. apply H3. exact Hc.
    + intros l Hl. apply Nat.leb_le. apply H4. exact Hl.
  - intros (H1 & H2 & H3 & H4). repeat split.
    + destruct (ls_parent sp) as [q|]; [|reflexivity]. rewrite (H1 q eq_refl). apply Nat.eqb_refl.
    + destruct (ls_root sp); [|reflexivity]. apply is_root_spec. apply H2. reflexivity.
    + intros c Hc. apply memb_In. apply H3. exact Hc.
    + intros l Hl. apply Nat.leb_le. apply H4. exact Hl.
Qed.

Lemma spec_okb_spec s n o i : spec_okb s n o i = true <-> spec_ok s n o i.
Proof.
  unfold spec_okb, spec_ok. destruct (aget n (nodes s)) as [nd|].
  - rewrite andb_true_iff, !leg_okb_spec. split; [intros H nd' [= <-]; exact H|intros H; apply H; reflexivity].
  - split; [intros _ nd' [=]|reflexivity].
Qed.

Lemma ids_okb_spec s n oid iid : ids_okb s n oid iid = true <-> ids_ok s n oid iid.
Proof.
  unfold ids_okb, ids_ok. rewrite andb_true_iff, !orb_true_iff, !Nat.eqb_eq, !negb_true_iff.
  assert (F : forall k, amem k (nodes s) = false <-> ~ In k (akeys (nodes s))).
  { intros k. rewrite <- amem_true. destruct (amem k (nodes s)); split; congruence. }
  rewrite !F. reflexivity.
Qed.

(* ---- split_nodes = access, then a body ----------------------------------------------------------------- *)
Definition sp_bd (s : store) (kind : nat) (m : mode) (rbond : nat) (ow iw : list wire) : nat :=
  let mrows := prod_list (map (wdim s) ow) in
  let ncols := prod_list (map (wdim s) iw) in
  match kind with 0 => qr_bond_dim m mrows ncols | 1 => Nat.min mrows ncols | _ => rbond end.

Definition sp_def (s1 : store) (t : sarr) (ol il : list nat) (kind : nat) (m : mode) : kdef :=
  {| kq := next_atom s1; kr := S (next_atom s1); kbond := next_wire s1; kinput := s_transpose (ol ++ il) t;
     kkind := kind; kmode := match kind with 0 => Some m | _ => None end |}.

Definition sp_ot (s1 : store) (t : sarr) (ol : list nat) : sarr :=
  {| axes := permute 0 ol (axes t) ++ [next_wire s1]; atoms := [next_atom s1]; bnd := [] |}.
Definition sp_it (s1 : store) (t : sarr) (il : list nat) : sarr :=
  {| axes := next_wire s1 :: permute 0 il (axes t); atoms := [S (next_atom s1)]; bnd := [] |}.

(* the store after the data part of the split (new wire, atoms, definition, tensors) *)
Definition sp_s6 (s1 : store) (t : sarr) (ol il : list nat) (oid iid : id) (kind : nat) (m : mode) (bd : nat) : store :=
  {| nodes := nodes s1;
     tensors := aset iid (sp_it s1 t il) (aset oid (sp_ot s1 t ol) (tensors s1));
     root := root s1;
     dims := dims s1 ++ [(next_wire s1, bd)];
     next_wire := S (next_wire s1);
     next_atom := S (S (next_atom s1));
     defs := defs s1 ++ [sp_def s1 t ol il kind m];
     atab := (atab s1 ++ [(next_atom s1, permute 0 ol (axes t) ++ [next_wire s1])])
             ++ [(S (next_atom s1), next_wire s1 :: permute 0 il (axes t))] |}.

Definition sp_some (x : option id) : bool := match x with Some _ => true | None => false end.

Definition sp_in1 (i : legspec) (in0 : node) (oid : id) : option node :=
  match ls_parent i with
  | Some ip => open_leg_to_parent in0 ip 1
  | None => if ls_root i then Some in0 else open_leg_to_parent in0 oid 0
  end.
Definition sp_in_children (i : legspec) (oid : id) : list (id * nat) :=
  (if ls_root i then [(oid, 0)] else match ls_parent i with Some _ => [(oid, 1)] | None => [] end)
  ++ enum_from (match ls_parent i with Some _ => if ls_root i then 1 else 2 | None => 1 end) (ls_children i).
Definition sp_out1 (o : legspec) (on0 : node) (iid : id) : option node :=
  match ls_parent o with
  | Some op => open_leg_to_parent on0 op 0
  | None => if ls_root o then Some on0 else open_leg_to_parent on0 iid (nlegs on0 - 1)
  end.
Definition sp_in_above (i : legspec) : bool := ls_root i || sp_some (ls_parent i).
Definition sp_out_children (o i : legspec) (on1 : node) (iid : id) : list (id * nat) :=
  (if sp_in_above i then [] else [(iid, nlegs on1 - 1)])
  ++ enum_from (if sp_in_above i then 1 else if ls_root o then 0 else 1) (ls_children o).
Definition sp_asserts (o i : legspec) : bool :=
  negb (ls_root i && sp_some (ls_parent o))
  && negb (ls_root i && ls_root o)
  && negb ((ls_root i || sp_some (ls_parent i)) && sp_some (ls_parent o))
  && negb (negb (ls_root i) && negb (sp_some (ls_parent i)) && negb (ls_root o) && negb (sp_some (ls_parent o))).

Definition split_body (s1 : store) (n : id) (nd : node) (t : sarr) (o i : legspec) (oid iid : id)
           (kind : nat) (m : mode) (bd : nat) : option store :=
  match find_leg_values nd o, find_leg_values nd i with
  | Some ol, Some il =>
      if negb (is_perm_of_seq (ol ++ il) && Nat.eqb (length (ol ++ il)) (length (axes t))) then None else
      if Nat.eqb oid iid then None else
      if (match kind, m, il with 0, Keep, [] => true | _, _, _ => false end) then None else
      let s6 := sp_s6 s1 t ol il oid iid kind m bd in
      let on0 := new_node (map (wdim s6) (axes (sp_ot s1 t ol))) in
      let in0 := new_node (map (wdim s6) (axes (sp_it s1 t il))) in
      if (ls_root i && match ls_parent o with Some _ => true | None => false end) then None else
      if (ls_root i && ls_root o) then None else
      if ((ls_root i || match ls_parent i with Some _ => true | None => false end)
          && match ls_parent o with Some _ => true | None => false end) then None else
      if (negb (ls_root i) && match ls_parent i with None => true | _ => false end
          && negb (ls_root o) && match ls_parent o with None => true | _ => false end) then None else
      match sp_in1 i in0 oid with
      | None => None
      | Some in1 =>
          match open_legs_to_children in1 (sp_in_children i oid) with
          | None => None
          | Some in2 =>
              match sp_out1 o on0 iid with
              | None => None
              | Some on1 =>
                  match open_legs_to_children on1 (sp_out_children o i on1 iid) with
                  | None => None
                  | Some on2 =>
                      match replace_in_some_neighbours (aset iid in2 (aset oid on2 (nodes s1))) oid n (find_all_neighbour_ids o) with
                      | None => None
                      | Some l1 =>
                          match replace_in_some_neighbours l1 iid n (find_all_neighbour_ids i) with
                          | None => None
                          | Some l2 =>
                              let r := if ls_root i then Some iid else if ls_root o then Some oid else root s1 in
                              let keep := Nat.eqb n oid || Nat.eqb n iid in
                              let s7 := set_root (upd_nodes s6 (fun _ => if keep then l2 else adel n l2)) r in
                              Some (if keep then s7 else upd_tensors s7 (adel n))
                          end
                      end
                  end
              end
          end
      end
  | _, _ => None
  end.

Lemma split_nodes_body s n o i oid iid kind m rbond :
  split_nodes s n o i oid iid kind m rbond =
  match access s n with
  | None => None
  | Some (s1, nd, t) =>
      match find_leg_values nd o, find_leg_values nd i with
      | Some ol, Some il =>
          split_body s1 n nd t o i oid iid kind m (sp_bd s kind m rbond (permute 0 ol (axes t)) (permute 0 il (axes t)))
      | _, _ => None
      end
  end.
Proof.
  unfold split_nodes. destruct (access s n) as [[[s1 nd] t]|]; [|reflexivity].
  unfold split_body. destruct (find_leg_values nd o) as [ol|]; [|reflexivity].
  destruct (find_leg_values nd i) as [il|]; reflexivity.
Qed.

(* everything a successful split computes, as a proposition *)
Record split_inv (s1 : store) (n : id) (nd : node) (t : sarr) (o i : legspec) (oid iid : id)
       (kind : nat) (m : mode) (bd : nat) (s' : store)
       (ol il : list nat) (on2 in2 : node) (l2 : list (id * node)) : Prop := {
  si_ol : find_leg_values nd o = Some ol;
  si_il : find_leg_values nd i = Some il;
  si_perm : Permutation (ol ++ il) (seq 0 (length (axes t)));
  si_ids : oid <> iid;
  si_asserts : sp_asserts o i = true;
  si_in : exists in1,
      sp_in1 i (new_node (map (wdim (sp_s6 s1 t ol il oid iid kind m bd)) (axes (sp_it s1 t il)))) oid = Some in1 /\
      open_legs_to_children in1 (sp_in_children i oid) = Some in2;
  si_out : exists on1,
      sp_out1 o (new_node (map (wdim (sp_s6 s1 t ol il oid iid kind m bd)) (axes (sp_ot s1 t ol)))) iid = Some on1 /\
      open_legs_to_children on1 (sp_out_children o i on1 iid) = Some on2;
  si_l2 : exists l1,
      replace_in_some_neighbours (aset iid in2 (aset oid on2 (nodes s1))) oid n (find_all_neighbour_ids o) = Some l1 /\
      replace_in_some_neighbours l1 iid n (find_all_neighbour_ids i) = Some l2;
  si_s' : let s6 := sp_s6 s1 t ol il oid iid kind m bd in
          let r := if ls_root i then Some iid else if ls_root o then Some oid else root s1 in
          let keep := Nat.eqb n oid || Nat.eqb n iid in
          s' = (if keep then set_root (upd_nodes s6 (fun _ => l2)) r
                else upd_tensors (set_root (upd_nodes s6 (fun _ => adel n l2)) r) (adel n))
}.

Lemma sp_some_match (x : option id) : match x with Some _ => true | None => false end = sp_some x.
Proof. reflexivity. Qed.
Lemma sp_some_match_neg (x : option id) : match x with None => true | Some _ => false end = negb (sp_some x).
Proof. destruct x; reflexivity. Qed.

Lemma split_body_inv s1 n nd t o i oid iid kind m bd s' :
  split_body s1 n nd t o i oid iid kind m bd = Some s' ->
  exists ol il on2 in2 l2, split_inv s1 n nd t o i oid iid kind m bd s' ol il on2 in2 l2.
Proof.
  unfold split_body.
  destruct (find_leg_values nd o) as [ol|] eqn:Eol; [|discriminate].
  destruct (find_leg_values nd i) as [il|] eqn:Eil; [|discriminate].
  destruct (is_perm_of_seq (ol ++ il) && Nat.eqb (length (ol ++ il)) (length (axes t))) eqn:Hp; cbn [negb]; [|discriminate].
  apply andb_true_iff in Hp as [Hp1 Hp2]. apply is_perm_of_seq_spec in Hp1. apply Nat.eqb_eq in Hp2. rewrite Hp2 in Hp1.
  destruct (Nat.eqb_spec oid iid) as [|Hne]; [discriminate|].
  match goal with |- (if ?c then _ else _) = _ -> _ => destruct c; [discriminate|] end.
  cbv zeta. rewrite !sp_some_match, !sp_some_match_neg.
  destruct (ls_root i && sp_some (ls_parent o)) eqn:A1; [discriminate|].
  destruct (ls_root i && ls_root o) eqn:A2; [discriminate|].
  destruct ((ls_root i || sp_some (ls_parent i)) && sp_some (ls_parent o)) eqn:A3; [discriminate|].
  match goal with |- (if ?c then _ else _) = _ -> _ => destruct c eqn:A4; [discriminate|] end.
  match goal with |- match ?r with _ => _ end = _ -> _ => destruct r as [in1|] eqn:Ein1; [|discriminate] end.
  match goal with |- match ?r with _ => _ end = _ -> _ => destruct r as [in2|] eqn:Ein2; [|discriminate] end.
  match goal with |- match ?r with _ => _ end = _ -> _ => destruct r as [on1|] eqn:Eon1; [|discriminate] end.
  match goal with |- match ?r with _ => _ end = _ -> _ => destruct r as [on2|] eqn:Eon2; [|discriminate] end.
  match goal with |- match ?r with _ => _ end = _ -> _ => destruct r as [l1|] eqn:El1; [|discriminate] end.
  match goal with |- match ?r with _ => _ end = _ -> _ => destruct r as [l2|] eqn:El2; [|discriminate] end.
  intros [= <-].
  exists ol, il, on2, in2, l2.
  constructor.
  - exact Eol.
  - exact Eil.
  - exact Hp1.
  - exact Hne.
  - unfold sp_asserts. rewrite A1, A2, A3, A4. reflexivity.
  - exists in1. split; [exact Ein1|exact Ein2].
  - exists on1. split; [exact Eon1|exact Eon2].
  - exists l1. split; [exact El1|exact El2].
  - cbv zeta. destruct (Nat.eqb n oid || Nat.eqb n iid); reflexivity.
Qed.

Theorem split_nodes_inv s n o i oid iid kind m rbond s' :
  split_nodes s n o i oid iid kind m rbond = Some s' ->
  exists s1 nd t ol il on2 in2 l2 bd,
    access s n = Some (s1, nd, t) /\
    bd = sp_bd s kind m rbond (permute 0 ol (axes t)) (permute 0 il (axes t)) /\
    split_inv s1 n nd t o i oid iid kind m bd s' ol il on2 in2 l2.
Proof.
  rewrite split_nodes_body. destruct (access s n) as [[[s1 nd] t]|] eqn:Ha; [|discriminate].
  destruct (find_leg_values nd o) as [ol|] eqn:Eol; [|discriminate].
  destruct (find_leg_values nd i) as [il|] eqn:Eil; [|discriminate].
  intros H. destruct (split_body_inv _ _ _ _ _ _ _ _ _ _ _ _ H) as (ol' & il' & on2 & in2 & l2 & Hinv).
  pose proof (si_ol _ _ _ _ _ _ _ _ _ _ _ _ _ _ _ _ _ Hinv) as E1. pose proof (si_il _ _ _ _ _ _ _ _ _ _ _ _ _ _ _ _ _ Hinv) as E2.
  rewrite Eol in E1. rewrite Eil in E2. injection E1 as <-. injection E2 as <-.
  exists s1, nd, t, ol, il, on2, in2, l2, (sp_bd s kind m rbond (permute 0 ol (axes t)) (permute 0 il (axes t))).
  split; [reflexivity|split; [reflexivity|exact Hinv]].
Qed.

(* ---- node-level computations ------------------------------------------------------------------------------ *)
(* moving the next legs (in order) to the children does not change the permutation *)
Lemma sp_olc_next n d n' : node_wf n -> open_legs_to_children n d = Some n' ->
  map snd d = seq (nvirt n) (length d) ->
  parent n' = parent n /\ shape n' = shape n /\ children n' = children n ++ map fst d /\ perm n' = perm n /\
  nvirt n + length d <= nlegs n.
Proof.
  intros Hwf H Hs. assert (Hnd : NoDup (map snd d)) by (rewrite Hs; apply seq_NoDup).
  destruct (open_legs_to_children_spec n d n' Hwf Hnd H) as (S1 & S2 & S3 & S4 & S5).
  assert (Hb : nvirt n + length d <= nlegs n).
  { destruct (length d) as [|k] eqn:Ek; [destruct Hwf; lia|].
    assert (Hin : In (nvirt n + k) (map snd d)) by (rewrite Hs; apply in_seq; lia).
    apply in_map_iff in Hin. destruct Hin as (cl & E & Hcl). apply S5 in Hcl. lia. }
  repeat split; auto. rewrite S4.
  assert (HndP : NoDup (perm n)).
  { destruct Hwf as [Hp _]. apply (Permutation_NoDup (Permutation_sym Hp)). apply seq_NoDup. }
  assert (Hvals : map (fun cl : id * nat => nth (snd cl) (perm n) 0) d = firstn (length d) (skipn (nvirt n) (perm n))).
  { rewrite <- (map_map snd (fun i => nth i (perm n) 0)). rewrite Hs. apply map_nth_seq. exact Hb. }
  rewrite Hvals. rewrite sp_filter_firstn.
  - rewrite firstn_skipn. apply firstn_skipn.
  - rewrite <- (firstn_skipn (nvirt n) (perm n)) in HndP. apply NoDup_app_iff in HndP. tauto.
Qed.

(* the last raw leg becomes the first child, followed by the next legs in order *)
Lemma sp_olc_last n d n' M k : node_wf n -> open_legs_to_children n d = Some n' ->
  perm n = seq 0 (S M) -> map snd d = M :: seq (nvirt n) k -> nvirt n + k <= M ->
  parent n' = parent n /\ shape n' = shape n /\ children n' = children n ++ map fst d /\
  perm n' = seq 0 (nvirt n) ++ M :: seq (nvirt n) (M - nvirt n).
Proof.
  intros Hwf H HP Hs Hb. set (v := nvirt n) in *.
  assert (Hnd : NoDup (map snd d)).
  { rewrite Hs. constructor; [rewrite in_seq; lia|apply seq_NoDup]. }
  destruct (open_legs_to_children_spec n d n' Hwf Hnd H) as (S1 & S2 & S3 & S4 & S5).
  repeat split; auto. rewrite S4. fold v. rewrite HP.
  assert (Hvals : map (fun cl : id * nat => nth (snd cl) (seq 0 (S M)) 0) d = M :: seq v k).
  { rewrite <- (map_map snd (fun i => nth i (seq 0 (S M)) 0)). rewrite Hs. apply sp_seq_nth_map.
    intros i [<-|Hi]; [lia|]. apply in_seq in Hi. lia. }
  rewrite Hvals. rewrite sp_firstn_seq, sp_skipn_seq by lia. f_equal. cbn [app]. f_equal.
  replace (S M - v) with (k + ((M - v - k) + 1)) by lia. rewrite !seq_app, !filter_app.
  rewrite (filter_seq_in (M :: seq v k)) by (intros x Hx; right; apply in_seq; lia).
  rewrite (filter_seq_out (M :: seq v k)) by (intros x Hx [Hi|Hi]; [lia|apply in_seq in Hi; lia]).
  cbn [seq filter]. replace (0 + v + k + (M - v - k)) with M by lia.
  cbn [memb existsb]. rewrite Nat.eqb_refl. cbn [orb negb app]. rewrite app_nil_r.
  assert (E : M - v = k + (M - v - k)) by lia. rewrite E at 2. rewrite seq_app. reflexivity.
Qed.

(* open_leg_to_parent on a fresh node *)
Lemma sp_oltp_new shp p leg n' : open_leg_to_parent (new_node shp) p leg = Some n' ->
  leg < length shp /\ exists q, move leg 0 (seq 0 (length shp)) = Some q /\
  n' = {| parent := Some p; children := []; perm := q; shape := shp |}.
Proof.
  unfold open_leg_to_parent. cbn [is_root new_node parent negb children perm shape].
  destruct (open_leg_ok (new_node shp) leg) eqn:Hok; cbn [negb]; [|discriminate].
  apply open_leg_ok_spec in Hok. unfold nlegs in Hok. cbn in Hok. rewrite seq_length in Hok.
  destruct (move leg 0 (seq 0 (length shp))) as [q|]; [|discriminate]. intros [= <-].
  split; [lia|]. exists q. split; reflexivity.
Qed.

Lemma sp_move_0 L : 1 <= L -> move 0 0 (seq 0 L) = Some (seq 0 L).
Proof. destruct L as [|L]; [lia|]. reflexivity. Qed.

Lemma sp_move_1 L : 2 <= L -> move 1 0 (seq 0 L) = Some (1 :: 0 :: seq 2 (L - 2)).
Proof. destruct L as [|[|L]]; [lia|lia|]. intros _. cbn. rewrite Nat.sub_0_r. reflexivity. Qed.

Lemma sp_move_last M : move M 0 (seq 0 (S M)) = Some (M :: seq 0 M).
Proof.
  unfold move. rewrite sp_seq_snoc. cbn [Nat.add].
  pose proof (pop_app (seq 0 M) M []) as Hp. rewrite seq_length in Hp. rewrite Hp. rewrite app_nil_r. reflexivity.
Qed.

Lemma sp_new_node_wf_with p q shp : Permutation q (seq 0 (length shp)) -> 1 <= length shp ->
  node_wf {| parent := Some p; children := []; perm := q; shape := shp |}.
Proof.
  intros Hq HL. split; [exact Hq|]. unfold nvirt, nparents, nlegs. cbn.
  apply Permutation_length in Hq. rewrite seq_length in Hq. lia.
Qed.

(* --- the final in node ---------------------------------------------------------------------------------- *)
(* in is the root *)
Lemma sp_in_node_root i shp oid in1 in2 :
  ls_root i = true -> ls_parent i = None ->
  sp_in1 i (new_node shp) oid = Some in1 -> open_legs_to_children in1 (sp_in_children i oid) = Some in2 ->
  parent in2 = None /\ children in2 = oid :: ls_children i /\ perm in2 = seq 0 (length shp) /\ shape in2 = shp /\
  S (length (ls_children i)) <= length shp.
Proof.
  intros Hr Hp. unfold sp_in1, sp_in_children. rewrite Hr, Hp. intros [= <-] H.
  destruct (sp_olc_next _ _ _ (new_node_wf shp) H) as (S1 & S2 & S3 & S4 & S5).
  - cbn. rewrite enum_from_snd, enum_from_length. reflexivity.
  - cbn in S3. rewrite enum_from_fst in S3. rewrite app_length, enum_from_length in S5.
    unfold nlegs in S5. cbn in S5. rewrite seq_length in S5. repeat split; auto.
Qed.

(* in has the old parent *)
Lemma sp_in_node_parent i ip shp oid in1 in2 :
  ls_root i = false -> ls_parent i = Some ip ->
  sp_in1 i (new_node shp) oid = Some in1 -> open_legs_to_children in1 (sp_in_children i oid) = Some in2 ->
  parent in2 = Some ip /\ children in2 = oid :: ls_children i /\ perm in2 = 1 :: 0 :: seq 2 (length shp - 2) /\ shape in2 = shp /\
  2 + length (ls_children i) <= length shp.
Proof.
  intros Hr Hp. unfold sp_in1, sp_in_children. rewrite Hr, Hp. intros H1 H.
  destruct (sp_oltp_new _ _ _ _ H1) as (HL & q & Hm & ->). rewrite sp_move_1 in Hm by lia. injection Hm as <-.
  assert (Hwf : node_wf {| parent := Some ip; children := []; perm := 1 :: 0 :: seq 2 (length shp - 2); shape := shp |}).
  { apply sp_new_node_wf_with; [|lia]. destruct (length shp) as [|[|L]]; [lia|lia|]. cbn. rewrite Nat.sub_0_r. apply perm_swap. }
  destruct (sp_olc_next _ _ _ Hwf H) as (S1 & S2 & S3 & S4 & S5).
  - cbn. rewrite enum_from_snd, enum_from_length. reflexivity.
  - cbn in S3. rewrite enum_from_fst in S3. rewrite app_length, enum_from_length in S5.
    unfold nlegs, nvirt, nparents in S5. cbn in S5. rewrite seq_length in S5. repeat split; auto. lia.
Qed.

(* in is below out *)
Lemma sp_in_node_below i shp oid in1 in2 :
  ls_root i = false -> ls_parent i = None ->
  sp_in1 i (new_node shp) oid = Some in1 -> open_legs_to_children in1 (sp_in_children i oid) = Some in2 ->
  parent in2 = Some oid /\ children in2 = ls_children i /\ perm in2 = seq 0 (length shp) /\ shape in2 = shp /\
  1 + length (ls_children i) <= length shp.
Proof.
  intros Hr Hp. unfold sp_in1, sp_in_children. rewrite Hr, Hp. intros H1 H.
  destruct (sp_oltp_new _ _ _ _ H1) as (HL & q & Hm & ->). rewrite sp_move_0 in Hm by lia. injection Hm as <-.
  assert (Hwf : node_wf {| parent := Some oid; children := []; perm := seq 0 (length shp); shape := shp |}).
  { apply sp_new_node_wf_with; [reflexivity|lia]. }
  destruct (sp_olc_next _ _ _ Hwf H) as (S1 & S2 & S3 & S4 & S5).
  - cbn. rewrite enum_from_snd, enum_from_length. reflexivity.
  - cbn in S3. rewrite enum_from_fst in S3. rewrite app_length, enum_from_length in S5.
    unfold nlegs, nvirt, nparents in S5. cbn in S5. rewrite seq_length in S5. repeat split; auto.
Qed.

(* --- the final out node --------------------------------------------------------------------------------- *)
(* out is below in *)
Lemma sp_out_node_below o i shp iid on1 on2 M :
  length shp = S M -> sp_in_above i = true -> ls_root o = false -> ls_parent o = None ->
  sp_out1 o (new_node shp) iid = Some on1 -> open_legs_to_children on1 (sp_out_children o i on1 iid) = Some on2 ->
  parent on2 = Some iid /\ children on2 = ls_children o /\ perm on2 = M :: seq 0 M /\ shape on2 = shp /\
  length (ls_children o) <= M.
Proof.
  intros HL Ha Hr Hp. unfold sp_out1, sp_out_children. rewrite Ha, Hr, Hp. intros H1 H.
  destruct (sp_oltp_new _ _ _ _ H1) as (_ & q & Hm & ->).
  unfold nlegs in Hm. cbn [perm new_node] in Hm. rewrite seq_length, HL in Hm. cbn [Nat.sub] in Hm. rewrite Nat.sub_0_r in Hm.
  rewrite sp_move_last in Hm. injection Hm as <-.
  assert (Hwf : node_wf {| parent := Some iid; children := []; perm := M :: seq 0 M; shape := shp |}).
  { apply sp_new_node_wf_with; [|lia]. rewrite HL, sp_seq_snoc. apply Permutation_cons_append. }
  destruct (sp_olc_next _ _ _ Hwf H) as (S1 & S2 & S3 & S4 & S5).
  - cbn. rewrite enum_from_snd, enum_from_length. reflexivity.
  - cbn in S3. rewrite enum_from_fst in S3. rewrite app_length, enum_from_length in S5.
    unfold nlegs, nvirt, nparents in S5. cbn in S5. rewrite seq_length in S5. repeat split; auto. lia.
Qed.

(* out is the root *)
Lemma sp_out_node_root o i shp iid on1 on2 M :
  length shp = S M -> sp_in_above i = false -> ls_root o = true -> ls_parent o = None -> length (ls_children o) <= M ->
  sp_out1 o (new_node shp) iid = Some on1 -> open_legs_to_children on1 (sp_out_children o i on1 iid) = Some on2 ->
  parent on2 = None /\ children on2 = iid :: ls_children o /\ perm on2 = M :: seq 0 M /\ shape on2 = shp.
Proof.
  intros HL Ha Hr Hp Hk. unfold sp_out1, sp_out_children. rewrite Ha, Hr, Hp. intros [= <-] H.
  destruct (sp_olc_last _ _ _ M (length (ls_children o)) (new_node_wf shp) H) as (S1 & S2 & S3 & S4).
  - cbn. rewrite HL. reflexivity.
  - cbn. rewrite enum_from_snd. unfold nlegs. cbn. rewrite seq_length, HL. cbn. rewrite Nat.sub_0_r. reflexivity.
  - cbn. exact Hk.
  - cbn in S3, S4. rewrite enum_from_fst in S3. rewrite Nat.sub_0_r in S4. repeat split; auto.
Qed.

(* out has the old parent *)
Lemma sp_out_node_parent o i op shp iid on1 on2 M :
  length shp = S M -> sp_in_above i = false -> ls_root o = false -> ls_parent o = Some op -> 1 + length (ls_children o) <= M ->
  sp_out1 o (new_node shp) iid = Some on1 -> open_legs_to_children on1 (sp_out_children o i on1 iid) = Some on2 ->
  parent on2 = Some op /\ children on2 = iid :: ls_children o /\ perm on2 = 0 :: M :: seq 1 (M - 1) /\ shape on2 = shp.
Proof.
  intros HL Ha Hr Hp Hk. unfold sp_out1, sp_out_children. rewrite Ha, Hr, Hp. intros H1 H.
  destruct (sp_oltp_new _ _ _ _ H1) as (_ & q & Hm & ->). rewrite sp_move_0 in Hm by lia. injection Hm as <-.
  assert (Hwf : node_wf {| parent := Some op; children := []; perm := seq 0 (length shp); shape := shp |}).
  { apply sp_new_node_wf_with; [reflexivity|lia]. }
  destruct (sp_olc_last _ _ _ M (length (ls_children o)) Hwf H) as (S1 & S2 & S3 & S4).
  - cbn. rewrite HL. reflexivity.
  - cbn. rewrite enum_from_snd. unfold nlegs. cbn. rewrite seq_length, HL. cbn. rewrite Nat.sub_0_r. reflexivity.
  - cbn. exact Hk.
  - cbn in S3, S4. rewrite enum_from_fst in S3. repeat split; auto.
Qed.

(* --- logical axes of the final nodes ---------------------------------------------------------------------- *)
Lemma sp_laxes_id n t : perm n = seq 0 (length (axes t)) -> laxes n t = axes t.
Proof. intros E. unfold laxes. rewrite E. apply permute_seq. Qed.

Lemma sp_permute_last_first (ow : list wire) b :
  permute 0 (length ow :: seq 0 (length ow)) (ow ++ [b]) = b :: ow.
Proof. rewrite sp_permute_cons. rewrite sp_nth_app_len. f_equal. apply sp_permute_seq_prefix. Qed.

Lemma sp_permute_swap01 (b w : wire) rest :
  permute 0 (1 :: 0 :: seq 2 (length rest)) (b :: w :: rest) = w :: b :: rest.
Proof. rewrite !sp_permute_cons. cbn [nth]. rewrite !sp_permute_seq_shift. rewrite permute_seq. reflexivity. Qed.

Lemma sp_permute_0_last (w b : wire) rest :
  permute 0 (0 :: S (length rest) :: seq 1 (length rest)) ((w :: rest) ++ [b]) = w :: b :: rest.
Proof.
  rewrite !sp_permute_cons. cbn [nth app]. rewrite sp_nth_app_len. rewrite sp_permute_seq_shift.
  rewrite sp_permute_seq_prefix. reflexivity.
Qed.

(* ---- renaming in the neighbours ---------------------------------------------------------------------------- *)
Definition sp_risn_step (new old : id) (acc : option (list (id * node))) (x : id) : option (list (id * node)) :=
  match acc with
  | None => None
  | Some l' => match aget x l' with
               | Some xn => match replace_neighbour xn old new with
                            | Some xn' => Some (aset x xn' l')
                            | None => None
                            end
               | None => None
               end
  end.

Lemma sp_risn_fold l new old ns :
  replace_in_some_neighbours l new old ns = fold_left (sp_risn_step new old) ns (Some l).
Proof. reflexivity. Qed.

Lemma sp_risn_none new old ns : fold_left (sp_risn_step new old) ns None = None.
Proof. induction ns as [|x t IH]; [reflexivity|exact IH]. Qed.

Lemma sp_risn_spec new old : forall ns l l',
  replace_in_some_neighbours l new old ns = Some l' -> NoDup ns ->
  akeys l' = akeys l /\
  (forall k, ~ In k ns -> aget k l' = aget k l) /\
  (forall k, In k ns -> exists xn xn', aget k l = Some xn /\ replace_neighbour xn old new = Some xn' /\ aget k l' = Some xn').
Proof.
  induction ns as [|x t IH]; intros l l' H Hnd.
  - cbn in H. injection H as <-. repeat split; auto. intros k [].
  - rewrite sp_risn_fold in H. cbn [fold_left] in H. inversion Hnd as [|? ? Hni Hnd']; subst.
    unfold sp_risn_step at 2 in H.
    destruct (aget x l) as [xn|] eqn:Ex; [|rewrite sp_risn_none in H; discriminate].
    destruct (replace_neighbour xn old new) as [xn'|] eqn:Er; [|rewrite sp_risn_none in H; discriminate].
    rewrite <- sp_risn_fold in H. destruct (IH _ _ H Hnd') as (I1 & I2 & I3).
    split; [|split].
    + rewrite I1. eapply akeys_aset_mem; eauto.
    + intros k Hk. rewrite I2 by (intros Hin; apply Hk; right; exact Hin).
      apply aget_aset_other. intros ->. apply Hk. left. reflexivity.
    + intros k [<-|Hk].
      * exists xn, xn'. repeat split; auto. rewrite I2 by exact Hni. apply aget_aset_same.
      * destruct (I3 k Hk) as (yn & yn' & E1 & E2 & E3). exists yn, yn'. repeat split; auto.
        rewrite aget_aset_other in E1; [exact E1|]. intros ->. contradiction.
Qed.

Lemma sp_replace_neighbour_child xn old new xn' :
  parent xn = Some old -> replace_neighbour xn old new = Some xn' ->
  parent xn' = Some new /\ children xn' = children xn /\ perm xn' = perm xn /\ shape xn' = shape xn.
Proof.
  unfold replace_neighbour. intros ->. rewrite Nat.eqb_refl. intros [= <-]. cbn. auto.
Qed.

Lemma sp_replace_neighbour_parent xn old new xn' :
  parent xn <> Some old -> replace_neighbour xn old new = Some xn' ->
  parent xn' = parent xn /\ children xn' = replace_first old new (children xn) /\ perm xn' = perm xn /\ shape xn' = shape xn.
Proof.
  unfold replace_neighbour. intros Hp. destruct (parent xn) as [p|] eqn:Ep.
  - destruct (Nat.eqb_spec p old) as [->|Hne]; [congruence|].
    destruct (memb old (children xn)); [|discriminate]. intros [= <-]. cbn. auto.
  - destruct (memb old (children xn)); [|discriminate]. intros [= <-]. cbn. auto.
Qed.

(* ---- facts about the leg lists ------------------------------------------------------------------------------ *)
Definition sp_pl (sp : legspec) : list nat := match ls_parent sp with Some _ => [0] | None => [] end.

Lemma sp_flv_inv nd sp l : find_leg_values nd sp = Some l ->
  exists cl, map (neighbour_index nd) (ls_children sp) = map Some cl /\ l = sp_pl sp ++ cl ++ ls_open sp /\
             length cl = length (ls_children sp).
Proof.
  unfold find_leg_values. destruct (all_some (map (neighbour_index nd) (ls_children sp))) as [cl|] eqn:E; [|discriminate].
  intros [= <-]. apply sp_all_some_map in E. exists cl. repeat split; auto.
  apply (f_equal (@length _)) in E. rewrite !map_length in E. symmetry. exact E.
Qed.

Lemma sp_map_Some_nth {A B} (f : A -> option B) (l : list A) (r : list B) j dA dB :
  map f l = map Some r -> j < length l -> f (nth j l dA) = Some (nth j r dB).
Proof.
  revert r j. induction l as [|x t IH]; intros [|y r] j E Hj; cbn in *; try lia; try discriminate.
  injection E as E1 E2. destruct j as [|j]; [exact E1|]. apply IH; [exact E2|lia].
Qed.

Lemma sp_map_Some_In {A B} (f : A -> option B) (l : list A) (r : list B) y :
  map f l = map Some r -> In y r -> exists x, In x l /\ f x = Some y.
Proof.
  revert r. induction l as [|x t IH]; intros [|z r] E Hy; cbn in *; try contradiction; try discriminate.
  injection E as E1 E2. destruct Hy as [->|Hy]; [exists x; auto|]. destruct (IH r E2 Hy) as (x' & H1 & H2). exists x'. auto.
Qed.

Lemma sp_map_Some_In' {A B} (f : A -> option B) (l : list A) (r : list B) x :
  map f l = map Some r -> In x l -> exists y, In y r /\ f x = Some y.
Proof.
  revert r. induction l as [|x' t IH]; intros [|z r] E Hx; cbn in *; try contradiction; try discriminate.
  injection E as E1 E2. destruct Hx as [->|Hx]; [exists z; auto|]. destruct (IH r E2 Hx) as (y & H1 & H2). exists y. auto.
Qed.
