(* split_nodes preserves the store invariant.
   Part 1: generic lemmas, wf_lax_NoDup, the side conditions (spec_ok, ids_ok), inversion of a
           successful split (split_nodes_inv), node-level computations, neighbour renaming.
   Part 2: an abstract description ("view") of the store after a split in terms of an upper node U
           and a lower node Lo, and the proof that any store matching the view is well formed
           (split_view_wf).
   Part 3: a successful split matches the view (split_inv_view); split_preserves_wf/wfb; the
           diagram statements (atoms, wire ends, newest definition, open-leg rule); counterexamples
           showing that the truthfulness of the leg specifications is needed. *)
From Coq Require Import List Arith Bool Lia Permutation.
From PTN Require Import TTN.Store TTN.StoreProofs TTN.Inv TTN.InvProofs TTN.InvNode.
Import ListNotations.

(* ---- generic list lemmas ---------------------------------------------------------------------------- *)
Lemma sp_all_some_map {A} (l : list (option A)) r : all_some l = Some r <-> l = map Some r.
Proof.
  revert r. induction l as [|[x|] t IH]; intros r; cbn.
  - split; [intros [= <-]; reflexivity|]. destruct r; [reflexivity|discriminate].
  - destruct (all_some t) as [r'|] eqn:E; cbn.
    + split.
      * intros [= <-]. cbn. f_equal. apply IH. reflexivity.
      * destruct r as [|y r]; [discriminate|]. cbn. intros [= -> H]. apply IH in H. injection H as ->. reflexivity.
    + split; [discriminate|]. destruct r as [|y r]; [discriminate|]. cbn. intros [= -> H]. apply IH in H. discriminate.
  - split; [discriminate|]. destruct r; discriminate.
Qed.

Lemma sp_filter_firstn k (l : list nat) : NoDup l ->
  filter (fun x => negb (memb x (firstn k l))) l = skipn k l.
Proof.
  revert k. induction l as [|y t IH]; intros k Hnd; [destruct k; reflexivity|].
  inversion Hnd as [|? ? Hni Hnd']; subst. destruct k as [|k].
  - cbn [firstn skipn]. apply filter_all. intros x _. reflexivity.
  - cbn [firstn skipn filter]. cbn [memb existsb]. rewrite Nat.eqb_refl. cbn.
    rewrite <- (IH k Hnd'). apply filter_ext_in'. intros x Hx. cbn.
    destruct (Nat.eqb_spec x y) as [->|Hne]; [contradiction|]. reflexivity.
Qed.

Lemma sp_seq_nth_map N (is : list nat) : (forall i, In i is -> i < N) -> map (fun i => nth i (seq 0 N) 0) is = is.
Proof.
  intros H. rewrite <- (map_id is) at 2. apply map_ext_in. intros i Hi. rewrite seq_nth by (apply H; exact Hi). reflexivity.
Qed.

Lemma sp_seq_snoc a k : seq a (S k) = seq a k ++ [a + k].
Proof. rewrite <- Nat.add_1_r. rewrite seq_app. reflexivity. Qed.

Lemma sp_firstn_seq a v L : v <= L -> firstn v (seq a L) = seq a v.
Proof.
  intros H. replace L with (v + (L - v)) by lia. rewrite seq_app.
  rewrite <- (seq_length v a) at 1. apply firstn_app_len.
Qed.

Lemma sp_skipn_seq a v L : v <= L -> skipn v (seq a L) = seq (a + v) (L - v).
Proof.
  intros H. replace L with (v + (L - v)) at 1 by lia. rewrite seq_app.
  rewrite <- (seq_length v a) at 1. apply skipn_app_len.
Qed.

Lemma sp_replace_first_notin x y l : ~ In x l -> replace_first x y l = l.
Proof.
  induction l as [|z t IH]; cbn; [reflexivity|]. intros H.
  destruct (Nat.eqb_spec x z) as [->|Hne]; [exfalso; apply H; left; reflexivity|].
  f_equal. apply IH. intros Hin. apply H. right. exact Hin.
Qed.

Lemma sp_replace_first_length x y l : length (replace_first x y l) = length l.
Proof. induction l as [|z t IH]; cbn; [reflexivity|]. destruct (Nat.eqb x z); cbn; [reflexivity|]. f_equal. exact IH. Qed.

Lemma sp_replace_first_same x l : replace_first x x l = l.
Proof. induction l as [|z t IH]; cbn; [reflexivity|]. destruct (Nat.eqb_spec x z) as [->|]; [reflexivity|]. f_equal. exact IH. Qed.

(* membership in a renamed list *)
Lemma sp_In_replace_first x y l z : NoDup l -> In z (replace_first x y l) -> (z = y /\ In x l) \/ (In z l /\ z <> x).
Proof.
  induction l as [|w t IH]; cbn; [intros _ []|]. intros Hnd. inversion Hnd as [|? ? Hni Hnd']; subst.
  destruct (Nat.eqb_spec x w) as [->|Hne].
  - intros [<-|Hz]; [left; split; [reflexivity|left; reflexivity]|]. right. split; [right; exact Hz|]. intros ->. contradiction.
  - intros [<-|Hz]; [right; split; [left; reflexivity|congruence]|].
    destruct (IH Hnd' Hz) as [[-> Hx]|[Hz1 Hz2]]; [left; split; [reflexivity|right; exact Hx]|right; split; [right; exact Hz1|exact Hz2]].
Qed.

Lemma sp_In_replace_first_new x y l : In x l -> In y (replace_first x y l).
Proof.
  induction l as [|w t IH]; [intros []|]. cbn. destruct (Nat.eqb_spec x w) as [->|Hne]; [intros _; left; reflexivity|].
  intros [->|Hx]; [congruence|]. right. apply IH. exact Hx.
Qed.

Lemma sp_In_replace_first_other x y l z : In z l -> z <> x -> In z (replace_first x y l).
Proof.
  induction l as [|w t IH]; [intros []|]. cbn. destruct (Nat.eqb_spec x w) as [->|Hne].
  - intros [->|Hz] Hzx; [congruence|right; exact Hz].
  - intros [->|Hz] Hzx; [left; reflexivity|right; apply IH; assumption].
Qed.

Lemma sp_NoDup_replace_first x y l : NoDup l -> ~ In y l \/ y = x -> NoDup (replace_first x y l).
Proof.
  intros Hnd [Hy| ->]; [|rewrite sp_replace_first_same; exact Hnd].
  induction l as [|w t IH]; cbn; [constructor|]. inversion Hnd as [|? ? Hni Hnd']; subst.
  destruct (Nat.eqb_spec x w) as [->|Hne].
  - constructor; [|exact Hnd']. intros Hin. apply Hy. right. exact Hin.
  - constructor.
    + intros Hin. apply (sp_In_replace_first _ _ _ _ Hnd') in Hin. destruct Hin as [[-> _]|[Hin _]]; [apply Hy; left; reflexivity|contradiction].
    + apply IH; [exact Hnd'|]. intros Hin. apply Hy. right. exact Hin.
Qed.

(* the position of an element that is not renamed, and of the renamed one *)
Lemma sp_index_of_replace_first_other x y l z : z <> x -> z <> y -> index_of z (replace_first x y l) = index_of z l.
Proof.
  intros Hzx Hzy. induction l as [|w t IH]; cbn; [reflexivity|].
  destruct (Nat.eqb_spec x w) as [->|Hne]; cbn.
  - destruct (Nat.eqb_spec z y); [congruence|]. destruct (Nat.eqb_spec z w); [congruence|]. reflexivity.
  - destruct (Nat.eqb_spec z w); [reflexivity|]. rewrite IH. reflexivity.
Qed.

Lemma sp_index_of_replace_first_new x y l : ~ In y l \/ y = x -> index_of y (replace_first x y l) = index_of x l.
Proof.
  intros [Hy| ->]; [|rewrite sp_replace_first_same; reflexivity].
  induction l as [|w t IH]; cbn; [reflexivity|].
  destruct (Nat.eqb_spec x w) as [->|Hne]; cbn.
  - rewrite Nat.eqb_refl. reflexivity.
  - destruct (Nat.eqb_spec y w) as [->|Hne2]; [exfalso; apply Hy; left; reflexivity|].
    rewrite IH; [reflexivity|]. intros Hin. apply Hy. right. exact Hin.
Qed.

Lemma sp_permute_app {A} (d : A) p q l : permute d (p ++ q) l = permute d p l ++ permute d q l.
Proof. unfold permute. apply map_app. Qed.

Lemma sp_permute_cons {A} (d : A) i p l : permute d (i :: p) l = nth i l d :: permute d p l.
Proof. reflexivity. Qed.

(* shifting a permutation over a prefix / a cons *)
Lemma sp_permute_seq_shift {A} (d : A) x l a k : permute d (seq (S a) k) (x :: l) = permute d (seq a k) l.
Proof. unfold permute. rewrite <- seq_shift, map_map. reflexivity. Qed.

Lemma sp_permute_seq_all {A} (d : A) l k : k = length l -> permute d (seq 0 k) l = l.
Proof. intros ->. apply permute_seq. Qed.

Lemma sp_permute_seq_prefix {A} (d : A) l r : permute d (seq 0 (length l)) (l ++ r) = l.
Proof.
  unfold permute. rewrite map_nth_seq by (rewrite app_length; lia). cbn [skipn]. apply firstn_app_len.
Qed.

Lemma sp_nth_app_len {A} (d : A) l x r : nth (length l) (l ++ x :: r) d = x.
Proof. rewrite app_nth2 by lia. rewrite Nat.sub_diag. reflexivity. Qed.

(* ---- association lists --------------------------------------------------------------------------------- *)
Lemma sp_NoDup_assoc {V} (l : list (nat * V)) : NoDup (akeys l) -> NoDup l.
Proof. unfold akeys. apply NoDup_map_inv. Qed.

(* two association lists with distinct keys and the same lookups are permutations of each other *)
Lemma sp_assoc_perm {V} (l l' : list (nat * V)) :
  NoDup (akeys l) -> NoDup (akeys l') -> (forall k, aget k l = aget k l') -> Permutation l l'.
Proof.
  intros H1 H2 H. apply NoDup_Permutation; [apply sp_NoDup_assoc; exact H1|apply sp_NoDup_assoc; exact H2|].
  intros [k v]. split; intros Hin.
  - apply aget_In. rewrite <- H. apply In_aget; assumption.
  - apply aget_In. rewrite H. apply In_aget; assumption.
Qed.

Lemma sp_adel_decomp {V} k (v : V) l : NoDup (akeys l) -> aget k l = Some v -> Permutation l ((k, v) :: adel k l).
Proof.
  intros Hnd E. apply sp_assoc_perm; [exact Hnd| |].
  - cbn. constructor; [|apply NoDup_akeys_adel; exact Hnd].
    intros Hin. apply keys_aget in Hin. destruct Hin as [v' Hv']. rewrite aget_adel_same in Hv' by exact Hnd. discriminate.
  - intros k'. cbn. destruct (Nat.eqb_spec k' k) as [->|Hne]; [exact E|]. rewrite aget_adel_other by exact Hne. reflexivity.
Qed.

Lemma sp_aget_snoc_other {V} k k' (v : V) l : k <> k' -> aget k (l ++ [(k', v)]) = aget k l.
Proof.
  intros Hne. rewrite aget_app. destruct (aget k l); [reflexivity|]. cbn.
  destruct (Nat.eqb_spec k k'); [congruence|reflexivity].
Qed.

(* ---- every logical axis list of a well-formed store is duplicate free --------------------------------- *)
Lemma sp_own_of_nth_lo n t i : i < nparents n -> nparents n <= nlegs n -> In (nth i (laxes n t) 0) (own_of n t).
Proof.
  intros Hi Hle. unfold own_of. apply in_or_app. left.
  rewrite <- (firstn_skipn (nparents n) (laxes n t)) at 1.
  rewrite app_nth1 by (rewrite firstn_length, laxes_length; lia).
  apply nth_In. rewrite firstn_length, laxes_length. lia.
Qed.

Lemma sp_own_of_nth_hi n t i : nvirt n <= i < nlegs n -> In (nth i (laxes n t) 0) (own_of n t).
Proof.
  intros Hi. unfold own_of. apply in_or_app. right.
  replace i with (nvirt n + (i - nvirt n)) by lia. rewrite <- nth_skipn.
  apply nth_In. rewrite skipn_length, laxes_length. lia.
Qed.

(* a child's parent wire sits on the parent's leg for that child *)
Lemma sp_child_wire s k nk j : wf s -> aget k (nodes s) = Some nk -> j < length (children nk) ->
  exists cn, aget (nth j (children nk) 0) (nodes s) = Some cn /\ parent cn = Some k /\
             nth (nparents nk + j) (lax s k nk) 0 = nth 0 (lax s (nth j (children nk) 0) cn) 0.
Proof.
  intros H E Hj. pose proof (wf_node s H k nk E) as Hn. set (c := nth j (children nk) 0).
  assert (Hc : In c (children nk)) by (apply nth_In; exact Hj).
  destruct (ni_ch _ _ _ Hn c Hc) as (cn & Ec & Epc). exists cn. split; [exact Ec|split; [exact Epc|]].
  destruct (ni_par _ _ _ (wf_node s H c cn Ec) k Epc) as (pn & i & Epn & Hin & Hni & Hw).
  rewrite E in Epn. injection Epn as <-. rewrite Hw. f_equal.
  assert (Hpc : parent nk <> Some c) by (eapply wf_parent_not_child; eauto).
  rewrite (neighbour_index_child nk c Hpc) in Hni. unfold c in Hni at 1.
  pose proof (index_of_nth _ _ (ni_chnd _ _ _ Hn) Hj) as Hix. unfold id in *. rewrite Hix in Hni.
  cbn in Hni. injection Hni as <-. reflexivity.
Qed.

Theorem wf_lax_NoDup s k nk : wf s -> aget k (nodes s) = Some nk -> NoDup (lax s k nk).
Proof.
  intros H E. pose proof (wf_node s H k nk E) as Hn. pose proof (ni_virt _ _ _ Hn) as Hv.
  set (L := lax s k nk). assert (HL : length L = nlegs nk) by apply laxes_length.
  (* classify a position *)
  assert (Hcls : forall i, i < nlegs nk ->
            In (nth i L 0) (own_of nk (tens s k)) \/
            exists j cn, i = nparents nk + j /\ j < length (children nk) /\
                         aget (nth j (children nk) 0) (nodes s) = Some cn /\ parent cn = Some k /\
                         In (nth i L 0) (own_of cn (tens s (nth j (children nk) 0)))).
  { intros i Hi. destruct (Nat.lt_ge_cases i (nparents nk)) as [H1|H1].
    - left. apply sp_own_of_nth_lo; [exact H1|unfold nvirt in Hv; lia].
    - destruct (Nat.lt_ge_cases i (nvirt nk)) as [H2|H2].
      + right. unfold nvirt in H2. unfold id in *. exists (i - nparents nk).
        destruct (sp_child_wire s k nk (i - nparents nk) H E ltac:(unfold id in *; lia)) as (cn & Ec & Epc & Hw).
        exists cn. replace (nparents nk + (i - nparents nk)) with i in Hw by lia.
        repeat split; [lia|lia|exact Ec|exact Epc|]. unfold L. rewrite Hw.
        pose proof (wf_node s H _ cn Ec) as Hcn. pose proof (ni_virt _ _ _ Hcn) as Hvc.
        assert (Hp1 : nparents cn = 1) by (unfold nparents; rewrite Epc; reflexivity).
        unfold nvirt in Hvc. apply sp_own_of_nth_lo; lia.
      + left. apply sp_own_of_nth_hi. lia. }
  apply (proj2 (NoDup_nth L 0)). intros i j Hi Hj Eij. rewrite HL in Hi, Hj.
  destruct (Hcls i Hi) as [Oi|(ji & ci & Ei & Hji & Eci & Epi & Oi)];
  destruct (Hcls j Hj) as [Oj|(jj & cj & Ej & Hjj & Ecj & Epj & Oj)].
  - (* both own: positions in own_of *)
    pose proof (wf_own1 s H k nk E) as Hnd. unfold own_of in Hnd. fold (lax s k nk) in Hnd. fold L in Hnd.
    destruct (Nat.eq_dec i j) as [|Hne]; [assumption|exfalso].
    assert (Hpos : forall x, x < nlegs nk -> x < nparents nk \/ nvirt nk <= x \/ (nparents nk <= x < nvirt nk)) by (intros; lia).
    (* if a position is a child position its wire is owned by the child, hence not by k *)
    assert (Hchild : forall x, nparents nk <= x < nvirt nk -> ~ In (nth x L 0) (own_of nk (tens s k))).
    { intros x Hx Hin. unfold nvirt in Hx. unfold id in *.
      destruct (sp_child_wire s k nk (x - nparents nk) H E ltac:(unfold id in *; lia)) as (cn & Ec & Epc & Hw).
      replace (nparents nk + (x - nparents nk)) with x in Hw by lia. fold L in Hw.
      pose proof (wf_node s H _ cn Ec) as Hcn. pose proof (ni_virt _ _ _ Hcn) as Hvc.
      assert (Hoc : In (nth x L 0) (own_of cn (tens s (nth (x - nparents nk) (children nk) 0)))).
      { rewrite Hw. assert (Hp1 : nparents cn = 1) by (unfold nparents; rewrite Epc; reflexivity).
        unfold nvirt in Hvc. apply sp_own_of_nth_lo; lia. }
      pose proof (wf_own2 s H _ _ _ _ _ E Ec Hin Hoc) as Ek.
      apply (wf_not_self_parent s _ cn H Ec). rewrite <- Ek. exact Epc. }
    assert (Hi' : i < nparents nk \/ nvirt nk <= i) by (destruct (Hpos i Hi) as [|[|Hc]]; [auto|auto|exfalso; apply (Hchild i Hc Oi)]).
    assert (Hj' : j < nparents nk \/ nvirt nk <= j) by (destruct (Hpos j Hj) as [|[|Hc]]; [auto|auto|exfalso; apply (Hchild j Hc Oj)]).
    set (own := firstn (nparents nk) L ++ skipn (nvirt nk) L) in *.
    assert (Hlf : length (firstn (nparents nk) L) = nparents nk) by (rewrite firstn_length; unfold nvirt in Hv; lia).
    assert (Hmap : forall x, x < nlegs nk -> (x < nparents nk \/ nvirt nk <= x) ->
              let px := if Nat.ltb x (nparents nk) then x else nparents nk + (x - nvirt nk) in
              px < length own /\ nth px own 0 = nth x L 0).
    { intros x Hx Hx'. cbv zeta. unfold own. rewrite app_length, Hlf, skipn_length, HL.
      destruct (Nat.ltb_spec x (nparents nk)) as [Hl|Hl].
      - split; [lia|]. rewrite app_nth1 by lia. rewrite <- (firstn_skipn (nparents nk) L) at 2.
        rewrite app_nth1 by lia. reflexivity.
      - split; [lia|]. rewrite app_nth2 by lia. rewrite Hlf.
        replace (nparents nk + (x - nvirt nk) - nparents nk) with (x - nvirt nk) by lia.
        rewrite nth_skipn. f_equal. lia. }
    destruct (Hmap i Hi Hi') as [Hi1 Hi2]. destruct (Hmap j Hj Hj') as [Hj1 Hj2].
    pose proof (proj1 (NoDup_nth own 0) Hnd _ _ Hi1 Hj1 ltac:(rewrite Hi2, Hj2; exact Eij)) as Epos.
    destruct (Nat.ltb_spec i (nparents nk)); destruct (Nat.ltb_spec j (nparents nk)); lia.
  - exfalso. rewrite Eij in Oi. pose proof (wf_own2 s H _ _ _ _ _ E Ecj Oi Oj) as Ek.
    apply (wf_not_self_parent s _ cj H Ecj). rewrite <- Ek. exact Epj.
  - exfalso. rewrite <- Eij in Oj. pose proof (wf_own2 s H _ _ _ _ _ E Eci Oj Oi) as Ek.
    apply (wf_not_self_parent s _ ci H Eci). rewrite <- Ek. exact Epi.
  - rewrite Eij in Oi. pose proof (wf_own2 s H _ _ _ _ _ Eci Ecj Oi Oj) as Ek.
    pose proof (proj1 (NoDup_nth (children nk) 0) (ni_chnd _ _ _ Hn) _ _ Hji Hjj Ek). lia.
Qed.

(* ---- the side conditions of the preservation theorem ---------------------------------------------------- *)
(* a leg specification describes the node truthfully *)
Definition leg_ok (nd : node) (sp : legspec) : Prop :=
  (forall q, ls_parent sp = Some q -> parent nd = Some q) /\
  (ls_root sp = true -> parent nd = None) /\
  incl (ls_children sp) (children nd) /\
  (forall l, In l (ls_open sp) -> nvirt nd <= l).
Definition spec_ok (s : store) (n : id) (o i : legspec) : Prop :=
  forall nd, aget n (nodes s) = Some nd -> leg_ok nd o /\ leg_ok nd i.
(* the new identifiers are fresh, except that the identifier of the split node may be reused *)
Definition ids_ok (s : store) (n oid iid : id) : Prop :=
  (oid = n \/ ~ In oid (akeys (nodes s))) /\ (iid = n \/ ~ In iid (akeys (nodes s))).

(* executable versions *)
Definition leg_okb (nd : node) (sp : legspec) : bool :=
  (match ls_parent sp with Some q => match parent nd with Some p => Nat.eqb p q | None => false end | None => true end)
  && (if ls_root sp then is_root nd else true)
  && forallb (fun c => memb c (children nd)) (ls_children sp)
  && forallb (fun l => Nat.leb (nvirt nd) l) (ls_open sp).
Definition spec_okb (s : store) (n : id) (o i : legspec) : bool :=
  match aget n (nodes s) with Some nd => leg_okb nd o && leg_okb nd i | None => true end.
Definition ids_okb (s : store) (n oid iid : id) : bool :=
  (Nat.eqb oid n || negb (amem oid (nodes s))) && (Nat.eqb iid n || negb (amem iid (nodes s))).

Lemma leg_okb_spec nd sp : leg_okb nd sp = true <-> leg_ok nd sp.
Proof.
  unfold leg_okb, leg_ok. rewrite !andb_true_iff, !forallb_forall. split.
  - intros [[[H1 H2] H3] H4]. repeat split.
    + intros q Eq. rewrite Eq in H1. destruct (parent nd) as [p|]; [|discriminate]. apply Nat.eqb_eq in H1. congruence.
    + intros Er. rewrite Er in H2. apply is_root_spec. exact H2.
    + intros c Hc. apply memb_In. apply H3. exact Hc.
    + intros l Hl. apply Nat.leb_le. apply H4. exact Hl.
  - intros (H1 & H2 & H3 & H4). repeat split.
    + destruct (ls_parent sp) as [q|]; [|reflexivity]. rewrite (H1 q eq_refl). apply Nat.eqb_refl.
    + destruct (ls_root sp); [|reflexivity]. apply is_root_spec. apply H2. reflexivity.
    + intros c Hc. apply memb_In. apply H3. exact Hc.
    + intros l Hl. apply Nat.leb_le. apply H4. exact Hl.
Qed.

Lemma spec_okb_spec s n o i : spec_okb s n o i = true <-> spec_ok s n o i.
Proof.
  unfold spec_okb, spec_ok. destruct (aget n (nodes s)) as [nd|].
  - rewrite andb_true_iff, !leg_okb_spec. split; [intros H nd' [= <-]; exact H|intros H; apply H; reflexivity].
  - split; [intros _ nd' [=]|reflexivity].
Qed.

Lemma ids_okb_spec s n oid iid : ids_okb s n oid iid = true <-> ids_ok s n oid iid.
Proof.
  unfold ids_okb, ids_ok. rewrite andb_true_iff, !orb_true_iff, !Nat.eqb_eq, !negb_true_iff.
  assert (F : forall k, amem k (nodes s) = false <-> ~ In k (akeys (nodes s))).
  { intros k. rewrite <- amem_true. destruct (amem k (nodes s)); split; congruence. }
  rewrite !F. reflexivity.
Qed.

(* ---- split_nodes = access, then a body ----------------------------------------------------------------- *)
Definition sp_bd (s : store) (kind : nat) (m : mode) (rbond : nat) (ow iw : list wire) : nat :=
  let mrows := prod_list (map (wdim s) ow) in
  let ncols := prod_list (map (wdim s) iw) in
  match kind with 0 => qr_bond_dim m mrows ncols | 1 => Nat.min mrows ncols | _ => rbond end.

Definition sp_def (s1 : store) (t : sarr) (ol il : list nat) (kind : nat) (m : mode) : kdef :=
  {| kq := next_atom s1; kr := S (next_atom s1); kbond := next_wire s1; kinput := s_transpose (ol ++ il) t;
     kkind := kind; kmode := match kind with 0 => Some m | _ => None end |}.

Definition sp_ot (s1 : store) (t : sarr) (ol : list nat) : sarr :=
  {| axes := permute 0 ol (axes t) ++ [next_wire s1]; atoms := [next_atom s1]; bnd := [] |}.
Definition sp_it (s1 : store) (t : sarr) (il : list nat) : sarr :=
  {| axes := next_wire s1 :: permute 0 il (axes t); atoms := [S (next_atom s1)]; bnd := [] |}.

(* the store after the data part of the split (new wire, atoms, definition, tensors) *)
Definition sp_s6 (s1 : store) (t : sarr) (ol il : list nat) (oid iid : id) (kind : nat) (m : mode) (bd : nat) : store :=
  {| nodes := nodes s1;
     tensors := aset iid (sp_it s1 t il) (aset oid (sp_ot s1 t ol) (tensors s1));
     root := root s1;
     dims := dims s1 ++ [(next_wire s1, bd)];
     next_wire := S (next_wire s1);
     next_atom := S (S (next_atom s1));
     defs := defs s1 ++ [sp_def s1 t ol il kind m];
     atab := (atab s1 ++ [(next_atom s1, permute 0 ol (axes t) ++ [next_wire s1])])
             ++ [(S (next_atom s1), next_wire s1 :: permute 0 il (axes t))] |}.

Definition sp_some (x : option id) : bool := match x with Some _ => true | None => false end.

Definition sp_in1 (i : legspec) (in0 : node) (oid : id) : option node :=
  match ls_parent i with
  | Some ip => open_leg_to_parent in0 ip 1
  | None => if ls_root i then Some in0 else open_leg_to_parent in0 oid 0
  end.
Definition sp_in_children (i : legspec) (oid : id) : list (id * nat) :=
  (if ls_root i then [(oid, 0)] else match ls_parent i with Some _ => [(oid, 1)] | None => [] end)
  ++ enum_from (match ls_parent i with Some _ => if ls_root i then 1 else 2 | None => 1 end) (ls_children i).
Definition sp_out1 (o : legspec) (on0 : node) (iid : id) : option node :=
  match ls_parent o with
  | Some op => open_leg_to_parent on0 op 0
  | None => if ls_root o then Some on0 else open_leg_to_parent on0 iid (nlegs on0 - 1)
  end.
Definition sp_in_above (i : legspec) : bool := ls_root i || sp_some (ls_parent i).
Definition sp_out_children (o i : legspec) (on1 : node) (iid : id) : list (id * nat) :=
  (if sp_in_above i then [] else [(iid, nlegs on1 - 1)])
  ++ enum_from (if sp_in_above i then 1 else if ls_root o then 0 else 1) (ls_children o).
Definition sp_asserts (o i : legspec) : bool :=
  negb (ls_root i && sp_some (ls_parent o))
  && negb (ls_root i && ls_root o)
  && negb ((ls_root i || sp_some (ls_parent i)) && sp_some (ls_parent o))
  && negb (negb (ls_root i) && negb (sp_some (ls_parent i)) && negb (ls_root o) && negb (sp_some (ls_parent o))).

Definition split_body (s1 : store) (n : id) (nd : node) (t : sarr) (o i : legspec) (oid iid : id)
           (kind : nat) (m : mode) (bd : nat) : option store :=
  match find_leg_values nd o, find_leg_values nd i with
  | Some ol, Some il =>
      if negb (is_perm_of_seq (ol ++ il) && Nat.eqb (length (ol ++ il)) (length (axes t))) then None else
      if Nat.eqb oid iid then None else
      if (match kind, m, il with 0, Keep, [] => true | _, _, _ => false end) then None else
      let s6 := sp_s6 s1 t ol il oid iid kind m bd in
      let on0 := new_node (map (wdim s6) (axes (sp_ot s1 t ol))) in
      let in0 := new_node (map (wdim s6) (axes (sp_it s1 t il))) in
      if (ls_root i && match ls_parent o with Some _ => true | None => false end) then None else
      if (ls_root i && ls_root o) then None else
      if ((ls_root i || match ls_parent i with Some _ => true | None => false end)
          && match ls_parent o with Some _ => true | None => false end) then None else
      if (negb (ls_root i) && match ls_parent i with None => true | _ => false end
          && negb (ls_root o) && match ls_parent o with None => true | _ => false end) then None else
      match sp_in1 i in0 oid with
      | None => None
      | Some in1 =>
          match open_legs_to_children in1 (sp_in_children i oid) with
          | None => None
          | Some in2 =>
              match sp_out1 o on0 iid with
              | None => None
              | Some on1 =>
                  match open_legs_to_children on1 (sp_out_children o i on1 iid) with
                  | None => None
                  | Some on2 =>
                      match replace_in_some_neighbours (aset iid in2 (aset oid on2 (nodes s1))) oid n (find_all_neighbour_ids o) with
                      | None => None
                      | Some l1 =>
                          match replace_in_some_neighbours l1 iid n (find_all_neighbour_ids i) with
                          | None => None
                          | Some l2 =>
                              let r := if ls_root i then Some iid else if ls_root o then Some oid else root s1 in
                              let keep := Nat.eqb n oid || Nat.eqb n iid in
                              let s7 := set_root (upd_nodes s6 (fun _ => if keep then l2 else adel n l2)) r in
                              Some (if keep then s7 else upd_tensors s7 (adel n))
                          end
                      end
                  end
              end
          end
      end
  | _, _ => None
  end.

Lemma split_nodes_body s n o i oid iid kind m rbond :
  split_nodes s n o i oid iid kind m rbond =
  match access s n with
  | None => None
  | Some (s1, nd, t) =>
      match find_leg_values nd o, find_leg_values nd i with
      | Some ol, Some il =>
          split_body s1 n nd t o i oid iid kind m (sp_bd s kind m rbond (permute 0 ol (axes t)) (permute 0 il (axes t)))
      | _, _ => None
      end
  end.
Proof.
  unfold split_nodes. destruct (access s n) as [[[s1 nd] t]|]; [|reflexivity].
  unfold split_body. destruct (find_leg_values nd o) as [ol|]; [|reflexivity].
  destruct (find_leg_values nd i) as [il|]; reflexivity.
Qed.

(* everything a successful split computes, as a proposition *)
Record split_inv (s1 : store) (n : id) (nd : node) (t : sarr) (o i : legspec) (oid iid : id)
       (kind : nat) (m : mode) (bd : nat) (s' : store)
       (ol il : list nat) (on2 in2 : node) (l2 : list (id * node)) : Prop := {
  si_ol : find_leg_values nd o = Some ol;
  si_il : find_leg_values nd i = Some il;
  si_perm : Permutation (ol ++ il) (seq 0 (length (axes t)));
  si_ids : oid <> iid;
  si_asserts : sp_asserts o i = true;
  si_in : exists in1,
      sp_in1 i (new_node (map (wdim (sp_s6 s1 t ol il oid iid kind m bd)) (axes (sp_it s1 t il)))) oid = Some in1 /\
      open_legs_to_children in1 (sp_in_children i oid) = Some in2;
  si_out : exists on1,
      sp_out1 o (new_node (map (wdim (sp_s6 s1 t ol il oid iid kind m bd)) (axes (sp_ot s1 t ol)))) iid = Some on1 /\
      open_legs_to_children on1 (sp_out_children o i on1 iid) = Some on2;
  si_l2 : exists l1,
      replace_in_some_neighbours (aset iid in2 (aset oid on2 (nodes s1))) oid n (find_all_neighbour_ids o) = Some l1 /\
      replace_in_some_neighbours l1 iid n (find_all_neighbour_ids i) = Some l2;
  si_s' : let s6 := sp_s6 s1 t ol il oid iid kind m bd in
          let r := if ls_root i then Some iid else if ls_root o then Some oid else root s1 in
          let keep := Nat.eqb n oid || Nat.eqb n iid in
          s' = (if keep then set_root (upd_nodes s6 (fun _ => l2)) r
                else upd_tensors (set_root (upd_nodes s6 (fun _ => adel n l2)) r) (adel n))
}.

Lemma sp_some_match (x : option id) : match x with Some _ => true | None => false end = sp_some x.
Proof. reflexivity. Qed.
Lemma sp_some_match_neg (x : option id) : match x with None => true | Some _ => false end = negb (sp_some x).
Proof. destruct x; reflexivity. Qed.

Lemma split_body_inv s1 n nd t o i oid iid kind m bd s' :
  split_body s1 n nd t o i oid iid kind m bd = Some s' ->
  exists ol il on2 in2 l2, split_inv s1 n nd t o i oid iid kind m bd s' ol il on2 in2 l2.
Proof.
  unfold split_body.
  destruct (find_leg_values nd o) as [ol|] eqn:Eol; [|discriminate].
  destruct (find_leg_values nd i) as [il|] eqn:Eil; [|discriminate].
  destruct (is_perm_of_seq (ol ++ il) && Nat.eqb (length (ol ++ il)) (length (axes t))) eqn:Hp; cbn [negb]; [|discriminate].
  apply andb_true_iff in Hp as [Hp1 Hp2]. apply is_perm_of_seq_spec in Hp1. apply Nat.eqb_eq in Hp2. rewrite Hp2 in Hp1.
  destruct (Nat.eqb_spec oid iid) as [|Hne]; [discriminate|].
  match goal with |- (if ?c then _ else _) = _ -> _ => destruct c; [discriminate|] end.
  cbv zeta. rewrite !sp_some_match, !sp_some_match_neg.
  destruct (ls_root i && sp_some (ls_parent o)) eqn:A1; [discriminate|].
  destruct (ls_root i && ls_root o) eqn:A2; [discriminate|].
  destruct ((ls_root i || sp_some (ls_parent i)) && sp_some (ls_parent o)) eqn:A3; [discriminate|].
  match goal with |- (if ?c then _ else _) = _ -> _ => destruct c eqn:A4; [discriminate|] end.
  match goal with |- match ?r with _ => _ end = _ -> _ => destruct r as [in1|] eqn:Ein1; [|discriminate] end.
  match goal with |- match ?r with _ => _ end = _ -> _ => destruct r as [in2|] eqn:Ein2; [|discriminate] end.
  match goal with |- match ?r with _ => _ end = _ -> _ => destruct r as [on1|] eqn:Eon1; [|discriminate] end.
  match goal with |- match ?r with _ => _ end = _ -> _ => destruct r as [on2|] eqn:Eon2; [|discriminate] end.
  match goal with |- match ?r with _ => _ end = _ -> _ => destruct r as [l1|] eqn:El1; [|discriminate] end.
  match goal with |- match ?r with _ => _ end = _ -> _ => destruct r as [l2|] eqn:El2; [|discriminate] end.
  intros [= <-].
  exists ol, il, on2, in2, l2.
  constructor.
  - exact Eol.
  - exact Eil.
  - exact Hp1.
  - exact Hne.
  - unfold sp_asserts. rewrite A1, A2, A3, A4. reflexivity.
  - exists in1. split; [exact Ein1|exact Ein2].
  - exists on1. split; [exact Eon1|exact Eon2].
  - exists l1. split; [exact El1|exact El2].
  - cbv zeta. destruct (Nat.eqb n oid || Nat.eqb n iid); reflexivity.
Qed.

Theorem split_nodes_inv s n o i oid iid kind m rbond s' :
  split_nodes s n o i oid iid kind m rbond = Some s' ->
  exists s1 nd t ol il on2 in2 l2 bd,
    access s n = Some (s1, nd, t) /\
    bd = sp_bd s kind m rbond (permute 0 ol (axes t)) (permute 0 il (axes t)) /\
    split_inv s1 n nd t o i oid iid kind m bd s' ol il on2 in2 l2.
Proof.
  rewrite split_nodes_body. destruct (access s n) as [[[s1 nd] t]|] eqn:Ha; [|discriminate].
  destruct (find_leg_values nd o) as [ol|] eqn:Eol; [|discriminate].
  destruct (find_leg_values nd i) as [il|] eqn:Eil; [|discriminate].
  intros H. destruct (split_body_inv _ _ _ _ _ _ _ _ _ _ _ _ H) as (ol' & il' & on2 & in2 & l2 & Hinv).
  pose proof (si_ol _ _ _ _ _ _ _ _ _ _ _ _ _ _ _ _ _ Hinv) as E1. pose proof (si_il _ _ _ _ _ _ _ _ _ _ _ _ _ _ _ _ _ Hinv) as E2.
  rewrite Eol in E1. rewrite Eil in E2. injection E1 as <-. injection E2 as <-.
  exists s1, nd, t, ol, il, on2, in2, l2, (sp_bd s kind m rbond (permute 0 ol (axes t)) (permute 0 il (axes t))).
  split; [reflexivity|split; [reflexivity|exact Hinv]].
Qed.

(* ---- node-level computations ------------------------------------------------------------------------------ *)
(* moving the next legs (in order) to the children does not change the permutation *)
Lemma sp_olc_next n d n' : node_wf n -> open_legs_to_children n d = Some n' ->
  map snd d = seq (nvirt n) (length d) ->
  parent n' = parent n /\ shape n' = shape n /\ children n' = children n ++ map fst d /\ perm n' = perm n /\
  nvirt n + length d <= nlegs n.
Proof.
  intros Hwf H Hs. assert (Hnd : NoDup (map snd d)) by (rewrite Hs; apply seq_NoDup).
  destruct (open_legs_to_children_spec n d n' Hwf Hnd H) as (S1 & S2 & S3 & S4 & S5).
  assert (Hb : nvirt n + length d <= nlegs n).
  { destruct (length d) as [|k] eqn:Ek; [destruct Hwf; lia|].
    assert (Hin : In (nvirt n + k) (map snd d)) by (rewrite Hs; apply in_seq; lia).
    apply in_map_iff in Hin. destruct Hin as (cl & E & Hcl). apply S5 in Hcl. lia. }
  repeat split; auto. rewrite S4.
  assert (HndP : NoDup (perm n)).
  { destruct Hwf as [Hp _]. apply (Permutation_NoDup (Permutation_sym Hp)). apply seq_NoDup. }
  assert (Hvals : map (fun cl : id * nat => nth (snd cl) (perm n) 0) d = firstn (length d) (skipn (nvirt n) (perm n))).
  { rewrite <- (map_map snd (fun i => nth i (perm n) 0)). rewrite Hs. apply map_nth_seq. exact Hb. }
  rewrite Hvals. rewrite sp_filter_firstn.
  - rewrite firstn_skipn. apply firstn_skipn.
  - rewrite <- (firstn_skipn (nvirt n) (perm n)) in HndP. apply NoDup_app_iff in HndP. tauto.
Qed.

(* the last raw leg becomes the first child, followed by the next legs in order *)
Lemma sp_olc_last n d n' M k : node_wf n -> open_legs_to_children n d = Some n' ->
  perm n = seq 0 (S M) -> map snd d = M :: seq (nvirt n) k -> nvirt n + k <= M ->
  parent n' = parent n /\ shape n' = shape n /\ children n' = children n ++ map fst d /\
  perm n' = seq 0 (nvirt n) ++ M :: seq (nvirt n) (M - nvirt n).
Proof.
  intros Hwf H HP Hs Hb. set (v := nvirt n) in *.
  assert (Hnd : NoDup (map snd d)).
  { rewrite Hs. constructor; [rewrite in_seq; lia|apply seq_NoDup]. }
  destruct (open_legs_to_children_spec n d n' Hwf Hnd H) as (S1 & S2 & S3 & S4 & S5).
  repeat split; auto. rewrite S4. fold v. rewrite HP.
  assert (Hvals : map (fun cl : id * nat => nth (snd cl) (seq 0 (S M)) 0) d = M :: seq v k).
  { rewrite <- (map_map snd (fun i => nth i (seq 0 (S M)) 0)). rewrite Hs. apply sp_seq_nth_map.
    intros i [<-|Hi]; [lia|]. apply in_seq in Hi. lia. }
  rewrite Hvals. rewrite sp_firstn_seq, sp_skipn_seq by lia. f_equal. cbn [app]. f_equal.
  replace (S M - v) with (k + ((M - v - k) + 1)) by lia. rewrite !seq_app, !filter_app.
  rewrite (filter_seq_in (M :: seq v k)) by (intros x Hx; right; apply in_seq; lia).
  rewrite (filter_seq_out (M :: seq v k)) by (intros x Hx [Hi|Hi]; [lia|apply in_seq in Hi; lia]).
  cbn [seq filter]. replace (0 + v + k + (M - v - k)) with M by lia.
  cbn [memb existsb]. rewrite Nat.eqb_refl. cbn [orb negb app]. rewrite app_nil_r.
  assert (E : M - v = k + (M - v - k)) by lia. rewrite E at 2. rewrite seq_app. reflexivity.
Qed.

(* open_leg_to_parent on a fresh node *)
Lemma sp_oltp_new shp p leg n' : open_leg_to_parent (new_node shp) p leg = Some n' ->
  leg < length shp /\ exists q, move leg 0 (seq 0 (length shp)) = Some q /\
  n' = {| parent := Some p; children := []; perm := q; shape := shp |}.
Proof.
  unfold open_leg_to_parent. cbn [is_root new_node parent negb children perm shape].
  destruct (open_leg_ok (new_node shp) leg) eqn:Hok; cbn [negb]; [|discriminate].
  apply open_leg_ok_spec in Hok. unfold nlegs in Hok. cbn in Hok. rewrite seq_length in Hok.
  destruct (move leg 0 (seq 0 (length shp))) as [q|]; [|discriminate]. intros [= <-].
  split; [lia|]. exists q. split; reflexivity.
Qed.

Lemma sp_move_0 L : 1 <= L -> move 0 0 (seq 0 L) = Some (seq 0 L).
Proof. destruct L as [|L]; [lia|]. reflexivity. Qed.

Lemma sp_move_1 L : 2 <= L -> move 1 0 (seq 0 L) = Some (1 :: 0 :: seq 2 (L - 2)).
Proof. destruct L as [|[|L]]; [lia|lia|]. intros _. cbn. rewrite Nat.sub_0_r. reflexivity. Qed.

Lemma sp_move_last M : move M 0 (seq 0 (S M)) = Some (M :: seq 0 M).
Proof.
  unfold move. rewrite sp_seq_snoc. cbn [Nat.add].
  pose proof (pop_app (seq 0 M) M []) as Hp. rewrite seq_length in Hp. rewrite Hp. rewrite app_nil_r. reflexivity.
Qed.

Lemma sp_new_node_wf_with p q shp : Permutation q (seq 0 (length shp)) -> 1 <= length shp ->
  node_wf {| parent := Some p; children := []; perm := q; shape := shp |}.
Proof.
  intros Hq HL. split; [exact Hq|]. unfold nvirt, nparents, nlegs. cbn.
  apply Permutation_length in Hq. rewrite seq_length in Hq. lia.
Qed.

(* --- the final in node ---------------------------------------------------------------------------------- *)
(* in is the root *)
Lemma sp_in_node_root i shp oid in1 in2 :
  ls_root i = true -> ls_parent i = None ->
  sp_in1 i (new_node shp) oid = Some in1 -> open_legs_to_children in1 (sp_in_children i oid) = Some in2 ->
  parent in2 = None /\ children in2 = oid :: ls_children i /\ perm in2 = seq 0 (length shp) /\ shape in2 = shp /\
  S (length (ls_children i)) <= length shp.
Proof.
  intros Hr Hp. unfold sp_in1, sp_in_children. rewrite Hr, Hp. intros [= <-] H.
  destruct (sp_olc_next _ _ _ (new_node_wf shp) H) as (S1 & S2 & S3 & S4 & S5).
  - cbn. rewrite enum_from_snd, enum_from_length. reflexivity.
  - cbn in S3. rewrite enum_from_fst in S3. rewrite app_length, enum_from_length in S5.
    unfold nlegs in S5. cbn in S5. rewrite seq_length in S5. repeat split; auto.
Qed.

(* in has the old parent *)
Lemma sp_in_node_parent i ip shp oid in1 in2 :
  ls_root i = false -> ls_parent i = Some ip ->
  sp_in1 i (new_node shp) oid = Some in1 -> open_legs_to_children in1 (sp_in_children i oid) = Some in2 ->
  parent in2 = Some ip /\ children in2 = oid :: ls_children i /\ perm in2 = 1 :: 0 :: seq 2 (length shp - 2) /\ shape in2 = shp /\
  2 + length (ls_children i) <= length shp.
Proof.
  intros Hr Hp. unfold sp_in1, sp_in_children. rewrite Hr, Hp. intros H1 H.
  destruct (sp_oltp_new _ _ _ _ H1) as (HL & q & Hm & ->). rewrite sp_move_1 in Hm by lia. injection Hm as <-.
  assert (Hwf : node_wf {| parent := Some ip; children := []; perm := 1 :: 0 :: seq 2 (length shp - 2); shape := shp |}).
  { apply sp_new_node_wf_with; [|lia]. destruct (length shp) as [|[|L]]; [lia|lia|]. cbn. rewrite Nat.sub_0_r. apply perm_swap. }
  destruct (sp_olc_next _ _ _ Hwf H) as (S1 & S2 & S3 & S4 & S5).
  - cbn. rewrite enum_from_snd, enum_from_length. reflexivity.
  - cbn in S3. rewrite enum_from_fst in S3. rewrite app_length, enum_from_length in S5.
    unfold nlegs, nvirt, nparents in S5. cbn in S5. rewrite seq_length in S5. repeat split; auto. lia.
Qed.

(* in is below out *)
Lemma sp_in_node_below i shp oid in1 in2 :
  ls_root i = false -> ls_parent i = None ->
  sp_in1 i (new_node shp) oid = Some in1 -> open_legs_to_children in1 (sp_in_children i oid) = Some in2 ->
  parent in2 = Some oid /\ children in2 = ls_children i /\ perm in2 = seq 0 (length shp) /\ shape in2 = shp /\
  1 + length (ls_children i) <= length shp.
Proof.
  intros Hr Hp. unfold sp_in1, sp_in_children. rewrite Hr, Hp. intros H1 H.
  destruct (sp_oltp_new _ _ _ _ H1) as (HL & q & Hm & ->). rewrite sp_move_0 in Hm by lia. injection Hm as <-.
  assert (Hwf : node_wf {| parent := Some oid; children := []; perm := seq 0 (length shp); shape := shp |}).
  { apply sp_new_node_wf_with; [reflexivity|lia]. }
  destruct (sp_olc_next _ _ _ Hwf H) as (S1 & S2 & S3 & S4 & S5).
  - cbn. rewrite enum_from_snd, enum_from_length. reflexivity.
  - cbn in S3. rewrite enum_from_fst in S3. rewrite app_length, enum_from_length in S5.
    unfold nlegs, nvirt, nparents in S5. cbn in S5. rewrite seq_length in S5. repeat split; auto.
Qed.

(* --- the final out node --------------------------------------------------------------------------------- *)
(* out is below in *)
Lemma sp_out_node_below o i shp iid on1 on2 M :
  length shp = S M -> sp_in_above i = true -> ls_root o = false -> ls_parent o = None ->
  sp_out1 o (new_node shp) iid = Some on1 -> open_legs_to_children on1 (sp_out_children o i on1 iid) = Some on2 ->
  parent on2 = Some iid /\ children on2 = ls_children o /\ perm on2 = M :: seq 0 M /\ shape on2 = shp /\
  length (ls_children o) <= M.
Proof.
  intros HL Ha Hr Hp. unfold sp_out1, sp_out_children. rewrite Ha, Hr, Hp. intros H1 H.
  destruct (sp_oltp_new _ _ _ _ H1) as (_ & q & Hm & ->).
  unfold nlegs in Hm. cbn [perm new_node] in Hm. rewrite seq_length, HL in Hm. cbn [Nat.sub] in Hm. rewrite Nat.sub_0_r in Hm.
  rewrite sp_move_last in Hm. injection Hm as <-.
  assert (Hwf : node_wf {| parent := Some iid; children := []; perm := M :: seq 0 M; shape := shp |}).
  { apply sp_new_node_wf_with; [|lia]. rewrite HL, sp_seq_snoc. apply Permutation_cons_append. }
  destruct (sp_olc_next _ _ _ Hwf H) as (S1 & S2 & S3 & S4 & S5).
  - cbn. rewrite enum_from_snd, enum_from_length. reflexivity.
  - cbn in S3. rewrite enum_from_fst in S3. rewrite app_length, enum_from_length in S5.
    unfold nlegs, nvirt, nparents in S5. cbn in S5. rewrite seq_length in S5. repeat split; auto. lia.
Qed.

(* out is the root *)
Lemma sp_out_node_root o i shp iid on1 on2 M :
  length shp = S M -> sp_in_above i = false -> ls_root o = true -> ls_parent o = None -> length (ls_children o) <= M ->
  sp_out1 o (new_node shp) iid = Some on1 -> open_legs_to_children on1 (sp_out_children o i on1 iid) = Some on2 ->
  parent on2 = None /\ children on2 = iid :: ls_children o /\ perm on2 = M :: seq 0 M /\ shape on2 = shp.
Proof.
  intros HL Ha Hr Hp Hk. unfold sp_out1, sp_out_children. rewrite Ha, Hr, Hp. intros [= <-] H.
  destruct (sp_olc_last _ _ _ M (length (ls_children o)) (new_node_wf shp) H) as (S1 & S2 & S3 & S4).
  - cbn. rewrite HL. reflexivity.
  - cbn. rewrite enum_from_snd. unfold nlegs. cbn. rewrite seq_length, HL. cbn. rewrite Nat.sub_0_r. reflexivity.
  - cbn. exact Hk.
  - cbn in S3, S4. rewrite enum_from_fst in S3. rewrite Nat.sub_0_r in S4. repeat split; auto.
Qed.

(* out has the old parent *)
Lemma sp_out_node_parent o i op shp iid on1 on2 M :
  length shp = S M -> sp_in_above i = false -> ls_root o = false -> ls_parent o = Some op -> 1 + length (ls_children o) <= M ->
  sp_out1 o (new_node shp) iid = Some on1 -> open_legs_to_children on1 (sp_out_children o i on1 iid) = Some on2 ->
  parent on2 = Some op /\ children on2 = iid :: ls_children o /\ perm on2 = 0 :: M :: seq 1 (M - 1) /\ shape on2 = shp.
Proof.
  intros HL Ha Hr Hp Hk. unfold sp_out1, sp_out_children. rewrite Ha, Hr, Hp. intros H1 H.
  destruct (sp_oltp_new _ _ _ _ H1) as (_ & q & Hm & ->). rewrite sp_move_0 in Hm by lia. injection Hm as <-.
  assert (Hwf : node_wf {| parent := Some op; children := []; perm := seq 0 (length shp); shape := shp |}).
  { apply sp_new_node_wf_with; [reflexivity|lia]. }
  destruct (sp_olc_last _ _ _ M (length (ls_children o)) Hwf H) as (S1 & S2 & S3 & S4).
  - cbn. rewrite HL. reflexivity.
  - cbn. rewrite enum_from_snd. unfold nlegs. cbn. rewrite seq_length, HL. cbn. rewrite Nat.sub_0_r. reflexivity.
  - cbn. exact Hk.
  - cbn in S3, S4. rewrite enum_from_fst in S3. repeat split; auto.
Qed.

(* --- logical axes of the final nodes ---------------------------------------------------------------------- *)
Lemma sp_laxes_id n t : perm n = seq 0 (length (axes t)) -> laxes n t = axes t.
Proof. intros E. unfold laxes. rewrite E. apply permute_seq. Qed.

Lemma sp_permute_last_first (ow : list wire) b :
  permute 0 (length ow :: seq 0 (length ow)) (ow ++ [b]) = b :: ow.
Proof. rewrite sp_permute_cons. rewrite sp_nth_app_len. f_equal. apply sp_permute_seq_prefix. Qed.

Lemma sp_permute_swap01 (b w : wire) rest :
  permute 0 (1 :: 0 :: seq 2 (length rest)) (b :: w :: rest) = w :: b :: rest.
Proof. rewrite !sp_permute_cons. cbn [nth]. rewrite !sp_permute_seq_shift. rewrite permute_seq. reflexivity. Qed.

Lemma sp_permute_0_last (w b : wire) rest :
  permute 0 (0 :: S (length rest) :: seq 1 (length rest)) ((w :: rest) ++ [b]) = w :: b :: rest.
Proof.
  rewrite !sp_permute_cons. cbn [nth app]. rewrite sp_nth_app_len. rewrite sp_permute_seq_shift.
  rewrite sp_permute_seq_prefix. reflexivity.
Qed.

(* ---- renaming in the neighbours ---------------------------------------------------------------------------- *)
Definition sp_risn_step (new old : id) (acc : option (list (id * node))) (x : id) : option (list (id * node)) :=
  match acc with
  | None => None
  | Some l' => match aget x l' with
               | Some xn => match replace_neighbour xn old new with
                            | Some xn' => Some (aset x xn' l')
                            | None => None
                            end
               | None => None
               end
  end.

Lemma sp_risn_fold l new old ns :
  replace_in_some_neighbours l new old ns = fold_left (sp_risn_step new old) ns (Some l).
Proof. reflexivity. Qed.

Lemma sp_risn_none new old ns : fold_left (sp_risn_step new old) ns None = None.
Proof. induction ns as [|x t IH]; [reflexivity|exact IH]. Qed.

Lemma sp_risn_spec new old : forall ns l l',
  replace_in_some_neighbours l new old ns = Some l' -> NoDup ns ->
  akeys l' = akeys l /\
  (forall k, ~ In k ns -> aget k l' = aget k l) /\
  (forall k, In k ns -> exists xn xn', aget k l = Some xn /\ replace_neighbour xn old new = Some xn' /\ aget k l' = Some xn').
Proof.
  induction ns as [|x t IH]; intros l l' H Hnd.
  - cbn in H. injection H as <-. repeat split; auto. intros k [].
  - rewrite sp_risn_fold in H. cbn [fold_left] in H. inversion Hnd as [|? ? Hni Hnd']; subst.
    unfold sp_risn_step at 2 in H.
    destruct (aget x l) as [xn|] eqn:Ex; [|rewrite sp_risn_none in H; discriminate].
    destruct (replace_neighbour xn old new) as [xn'|] eqn:Er; [|rewrite sp_risn_none in H; discriminate].
    rewrite <- sp_risn_fold in H. destruct (IH _ _ H Hnd') as (I1 & I2 & I3).
    split; [|split].
    + rewrite I1. eapply akeys_aset_mem; eauto.
    + intros k Hk. rewrite I2 by (intros Hin; apply Hk; right; exact Hin).
      apply aget_aset_other. intros ->. apply Hk. left. reflexivity.
    + intros k [<-|Hk].
      * exists xn, xn'. repeat split; auto. rewrite I2 by exact Hni. apply aget_aset_same.
      * destruct (I3 k Hk) as (yn & yn' & E1 & E2 & E3). exists yn, yn'. repeat split; auto.
        rewrite aget_aset_other in E1; [exact E1|]. intros ->. contradiction.
Qed.

Lemma sp_replace_neighbour_child xn old new xn' :
  parent xn = Some old -> replace_neighbour xn old new = Some xn' ->
  parent xn' = Some new /\ children xn' = children xn /\ perm xn' = perm xn /\ shape xn' = shape xn.
Proof.
  unfold replace_neighbour. intros ->. rewrite Nat.eqb_refl. intros [= <-]. cbn. auto.
Qed.

Lemma sp_replace_neighbour_parent xn old new xn' :
  parent xn <> Some old -> replace_neighbour xn old new = Some xn' ->
  parent xn' = parent xn /\ children xn' = replace_first old new (children xn) /\ perm xn' = perm xn /\ shape xn' = shape xn.
Proof.
  unfold replace_neighbour. intros Hp. destruct (parent xn) as [p|] eqn:Ep.
  - destruct (Nat.eqb_spec p old) as [->|Hne]; [congruence|].
    destruct (memb old (children xn)); [|discriminate]. intros [= <-]. cbn. auto.
  - destruct (memb old (children xn)); [|discriminate]. intros [= <-]. cbn. auto.
Qed.

(* ---- facts about the leg lists ------------------------------------------------------------------------------ *)
Definition sp_pl (sp : legspec) : list nat := match ls_parent sp with Some _ => [0] | None => [] end.

Lemma sp_flv_inv nd sp l : find_leg_values nd sp = Some l ->
  exists cl, map (neighbour_index nd) (ls_children sp) = map Some cl /\ l = sp_pl sp ++ cl ++ ls_open sp /\
             length cl = length (ls_children sp).
Proof.
  unfold find_leg_values. destruct (all_some (map (neighbour_index nd) (ls_children sp))) as [cl|] eqn:E; [|discriminate].
  intros [= <-]. apply sp_all_some_map in E. exists cl. repeat split; auto.
  apply (f_equal (@length _)) in E. rewrite !map_length in E. symmetry. exact E.
Qed.

Lemma sp_map_Some_nth {A B} (f : A -> option B) (l : list A) (r : list B) j dA dB :
  map f l = map Some r -> j < length l -> f (nth j l dA) = Some (nth j r dB).
Proof.
  revert r j. induction l as [|x t IH]; intros [|y r] j E Hj; cbn in *; try lia; try discriminate.
  injection E as E1 E2. destruct j as [|j]; [exact E1|]. apply IH; [exact E2|lia].
Qed.

Lemma sp_map_Some_In {A B} (f : A -> option B) (l : list A) (r : list B) y :
  map f l = map Some r -> In y r -> exists x, In x l /\ f x = Some y.
Proof.
  revert r. induction l as [|x t IH]; intros [|z r] E Hy; cbn in *; try contradiction; try discriminate.
  injection E as E1 E2. destruct Hy as [->|Hy]; [exists x; auto|]. destruct (IH r E2 Hy) as (x' & H1 & H2). exists x'. auto.
Qed.

Lemma sp_map_Some_In' {A B} (f : A -> option B) (l : list A) (r : list B) x :
  map f l = map Some r -> In x l -> exists y, In y r /\ f x = Some y.
Proof.
  revert r. induction l as [|x' t IH]; intros [|z r] E Hx; cbn in *; try contradiction; try discriminate.
  injection E as E1 E2. destruct Hx as [->|Hx]; [exists z; auto|]. destruct (IH r E2 Hx) as (y & H1 & H2). exists y. auto.
Qed.

(* ==================================================================================================== *)
(* Part 2: the abstract view                                                                              *)
(* ==================================================================================================== *)


Ltac ulia := unfold id, wire in *; lia.

Record split_view (s1 s' : store) (n : id) (nd : node) (t : sarr) (U Lo : id) (su sl : legspec)
       (cU cL : list nat) (nU nL : node) (tU tL : sarr) (bd : nat) : Prop := {
  sv_n : aget n (nodes s1) = Some nd;
  sv_t : aget n (tensors s1) = Some t;
  sv_id : perm nd = seq 0 (length (axes t));
  sv_UL : U <> Lo;
  sv_U : U = n \/ ~ In U (akeys (nodes s1));
  sv_L : Lo = n \/ ~ In Lo (akeys (nodes s1));
  sv_cU : map (neighbour_index nd) (ls_children su) = map Some cU;
  sv_cL : map (neighbour_index nd) (ls_children sl) = map Some cL;
  sv_chU : incl (ls_children su) (children nd);
  sv_chL : incl (ls_children sl) (children nd);
  sv_opU : forall l, In l (ls_open su) -> nvirt nd <= l;
  sv_opL : forall l, In l (ls_open sl) -> nvirt nd <= l;
  sv_perm : Permutation (seq 0 (nparents nd) ++ (cU ++ ls_open su) ++ (cL ++ ls_open sl)) (seq 0 (length (axes t)));
  (* the upper node *)
  sv_nU : aget U (nodes s') = Some nU;
  sv_nU_par : parent nU = parent nd;
  sv_nU_ch : children nU = Lo :: ls_children su;
  sv_nU_lax : laxes nU tU = firstn (nparents nd) (axes t) ++ next_wire s1 :: permute 0 (cU ++ ls_open su) (axes t);
  sv_nU_perm : Permutation (perm nU) (seq 0 (length (shape nU)));
  sv_nU_shape : shape nU = map (wdim s') (axes tU);
  sv_tU_axes : incl (axes tU) (next_wire s1 :: axes t);
  (* the lower node *)
  sv_nL : aget Lo (nodes s') = Some nL;
  sv_nL_par : parent nL = Some U;
  sv_nL_ch : children nL = ls_children sl;
  sv_nL_lax : laxes nL tL = next_wire s1 :: permute 0 (cL ++ ls_open sl) (axes t);
  sv_nL_perm : Permutation (perm nL) (seq 0 (length (shape nL)));
  sv_nL_shape : shape nL = map (wdim s') (axes tL);
  sv_tL_axes : incl (axes tL) (next_wire s1 :: axes t);
  (* the old nodes *)
  sv_old : forall k nk, k <> n -> aget k (nodes s1) = Some nk ->
           exists nk', aget k (nodes s') = Some nk' /\ perm nk' = perm nk /\ shape nk' = shape nk /\
             (In k (ls_children su) -> parent nk' = Some U) /\
             (In k (ls_children sl) -> parent nk' = Some Lo) /\
             (~ In k (ls_children su) -> ~ In k (ls_children sl) -> parent nk' = parent nk) /\
             (parent nd = Some k -> children nk' = replace_first n U (children nk)) /\
             (parent nd <> Some k -> children nk' = children nk);
  sv_keys : forall k, In k (akeys (nodes s')) -> k = U \/ k = Lo \/ (k <> n /\ In k (akeys (nodes s1)));
  sv_nd : NoDup (akeys (nodes s'));
  (* tensors *)
  sv_tU : aget U (tensors s') = Some tU;
  sv_tL : aget Lo (tensors s') = Some tL;
  sv_told : forall k, k <> U -> k <> Lo -> aget k (tensors s') = if Nat.eqb k n then None else aget k (tensors s1);
  sv_tnd : NoDup (akeys (tensors s'));
  (* the rest *)
  sv_root : root s' = match parent nd with None => Some U | Some _ => root s1 end;
  sv_dims : dims s' = dims s1 ++ [(next_wire s1, bd)];
  sv_nw : next_wire s' = S (next_wire s1)
}.

Lemma option_eq_dec_id (a b : option id) : {a = b} + {a <> b}.
Proof. decide equality. apply Nat.eq_dec. Qed.

Lemma sp_NoDup_map_Some {A} (l : list A) : NoDup (map Some l) <-> NoDup l.
Proof.
  split; [apply NoDup_map_inv|]. intros H. induction H as [|x l Hni Hnd IH]; cbn; constructor; [|exact IH].
  intros Hin. apply in_map_iff in Hin. destruct Hin as (y & [= ->] & Hy). contradiction.
Qed.

Lemma sp_NoDup_app_l {A} (a b : list A) : NoDup (a ++ b) -> NoDup a.
Proof. intros H. apply NoDup_app_iff in H. tauto. Qed.
Lemma sp_NoDup_app_r {A} (a b : list A) : NoDup (a ++ b) -> NoDup b.
Proof. intros H. apply NoDup_app_iff in H. tauto. Qed.

Lemma sp_nth_firstn {A} (l : list A) v i d : i < v -> nth i (firstn v l) d = nth i l d.
Proof.
  revert v i. induction l as [|x t IH]; intros v i Hi; [destruct v, i; reflexivity|].
  destruct v as [|v]; [lia|]. destruct i as [|i]; [reflexivity|]. cbn. apply IH. lia.
Qed.

Lemma sp_firstn_app_exact {A} (a r : list A) v : length a = v -> firstn v (a ++ r) = a.
Proof. intros <-. apply firstn_app_len. Qed.
Lemma sp_skipn_app_exact {A} (a r : list A) v : length a = v -> skipn v (a ++ r) = r.
Proof. intros <-. apply skipn_app_len. Qed.

Lemma sp_nth_app_exact {A} (d : A) l x r k : length l = k -> nth k (l ++ x :: r) d = x.
Proof. intros <-. apply sp_nth_app_len. Qed.

Lemma sp_own_of_incl n t : incl (own_of n t) (laxes n t).
Proof.
  intros w Hw. unfold own_of in Hw. apply in_app_or in Hw. destruct Hw as [Hw|Hw].
  - rewrite <- (firstn_skipn (nparents n) (laxes n t)). apply in_or_app. left. exact Hw.
  - rewrite <- (firstn_skipn (nvirt n) (laxes n t)). apply in_or_app. right. exact Hw.
Qed.

Lemma sp_neighbour_index_same a b x :
  parent a <> Some x -> parent b <> Some x -> nparents a = nparents b ->
  index_of x (children a) = index_of x (children b) -> neighbour_index a x = neighbour_index b x.
Proof. intros Ha Hb Hn Hi. rewrite (neighbour_index_child a x Ha), (neighbour_index_child b x Hb), Hn, Hi. reflexivity. Qed.

Lemma sp_permute_In {A} (d : A) p l x : In x (permute d p l) -> exists i, In i p /\ x = nth i l d.
Proof. unfold permute. intros Hx. apply in_map_iff in Hx. destruct Hx as (i & <- & Hi). eauto. Qed.

Lemma sp_nth_permute {A} (d : A) p l j : j < length p -> nth j (permute d p l) d = nth (nth j p 0) l d.
Proof.
  intros Hj. unfold permute. rewrite (nth_indep _ d (nth 0 l d)) by (rewrite map_length; exact Hj).
  rewrite (map_nth (fun i => nth i l d) p 0 j). reflexivity.
Qed.

Section View.
  Variables (s1 s' : store) (n : id) (nd : node) (t : sarr) (U Lo : id) (su sl : legspec)
            (cU cL : list nat) (nU nL : node) (tU tL : sarr) (bd : nat).
  Hypothesis H : wf s1.
  Hypothesis V : split_view s1 s' n nd t U Lo su sl cU cL nU nL tU tL bd.

  Let W := axes t.
  Let b := next_wire s1.
  Let v := nparents nd.
  Let chU := ls_children su.
  Let chL := ls_children sl.

  Let En := sv_n _ _ _ _ _ _ _ _ _ _ _ _ _ _ _ _ V.
  Let Et := sv_t _ _ _ _ _ _ _ _ _ _ _ _ _ _ _ _ V.

  Lemma svw_tens_n : tens s1 n = t.
  Proof. apply tens_aget. exact Et. Qed.

  Lemma svw_lax_n : lax s1 n nd = W.
  Proof. unfold lax. rewrite svw_tens_n. apply sp_laxes_id. apply (sv_id _ _ _ _ _ _ _ _ _ _ _ _ _ _ _ _ V). Qed.

  Lemma svw_NoDupW : NoDup W.
  Proof. rewrite <- svw_lax_n. apply (wf_lax_NoDup s1 n nd H En). Qed.

  Lemma svw_nlegs : nlegs nd = length W.
  Proof. unfold nlegs. rewrite (sv_id _ _ _ _ _ _ _ _ _ _ _ _ _ _ _ _ V). apply seq_length. Qed.

  Lemma svw_virt : nvirt nd <= length W.
  Proof. rewrite <- svw_nlegs. apply (ni_virt _ _ _ (wf_node s1 H n nd En)). Qed.

  Lemma svw_v_le : v <= nvirt nd.
  Proof. unfold v, nvirt. lia. Qed.

  Lemma svw_W_lt w : In w W -> w < b.
  Proof. intros Hw. apply (wf_wires s1 H n t w Et Hw). Qed.

  (* old keys other than n are neither U nor Lo *)
  Lemma svw_old_fresh k : In k (akeys (nodes s1)) -> k <> n -> k <> U /\ k <> Lo.
  Proof.
    intros Hk Hne. split; intros ->.
    - destruct (sv_U _ _ _ _ _ _ _ _ _ _ _ _ _ _ _ _ V); [congruence|contradiction].
    - destruct (sv_L _ _ _ _ _ _ _ _ _ _ _ _ _ _ _ _ V); [congruence|contradiction].
  Qed.

  (* children of n *)
  Lemma svw_child c : In c (children nd) ->
    exists cn, aget c (nodes s1) = Some cn /\ parent cn = Some n /\ c <> n /\ c <> U /\ c <> Lo /\ parent nd <> Some c.
  Proof.
    intros Hc. destruct (ni_ch _ _ _ (wf_node s1 H n nd En) c Hc) as (cn & Ec & Epc).
    assert (Hne : c <> n). { intros ->. apply (wf_not_self_parent s1 n cn H Ec Epc). }
    destruct (svw_old_fresh c (aget_Some_keys _ _ _ Ec) Hne) as [H1 H2].
    exists cn. repeat split; auto. eapply wf_parent_not_child; eauto.
  Qed.

  Lemma svw_parent p : parent nd = Some p ->
    exists pn i, aget p (nodes s1) = Some pn /\ In n (children pn) /\ neighbour_index pn n = Some i /\
                 nth 0 W 0 = nth i (lax s1 p pn) 0 /\ p <> n /\ p <> U /\ p <> Lo /\ parent pn <> Some n /\ ~ In p (children nd).
  Proof.
    intros Hp. destruct (ni_par _ _ _ (wf_node s1 H n nd En) p Hp) as (pn & i & Epn & Hin & Hni & Hw).
    assert (Hne : p <> n). { intros ->. apply (wf_not_self_parent s1 n nd H En Hp). }
    destruct (svw_old_fresh p (aget_Some_keys _ _ _ Epn) Hne) as [H1 H2].
    exists pn, i. rewrite svw_lax_n in Hw. repeat split; auto.
    - eapply wf_parent_not_child; eauto.
    - intros Hc. destruct (svw_child p Hc) as (_ & _ & _ & _ & _ & _ & Hx). contradiction.
  Qed.

  (* the leg of a listed child *)
  Lemma svw_leg_of (ch : list id) (cl : list nat) j :
    map (neighbour_index nd) ch = map Some cl -> incl ch (children nd) -> j < length ch ->
    neighbour_index nd (nth j ch 0) = Some (nth j cl 0) /\ v <= nth j cl 0 < nvirt nd /\
    nth (nth j cl 0 - v) (children nd) 0 = nth j ch 0.
  Proof.
    intros Hm Hincl Hj. pose proof (sp_map_Some_nth _ _ _ j 0 0 Hm Hj) as E. split; [exact E|].
    assert (Hc : In (nth j ch 0) (children nd)) by (apply Hincl; apply nth_In; exact Hj).
    destruct (svw_child _ Hc) as (_ & _ & _ & _ & _ & _ & Hx).
    apply (neighbour_index_lt nd _ _ Hx E).
  Qed.

  Lemma svw_perm_NoDup : NoDup (seq 0 v ++ (cU ++ ls_open su) ++ (cL ++ ls_open sl)).
  Proof.
    apply (Permutation_NoDup (Permutation_sym (sv_perm _ _ _ _ _ _ _ _ _ _ _ _ _ _ _ _ V))). apply seq_NoDup.
  Qed.

  Lemma svw_perm_In x : x < length W -> In x (seq 0 v ++ (cU ++ ls_open su) ++ (cL ++ ls_open sl)).
  Proof.
    intros Hx. apply (Permutation_in _ (Permutation_sym (sv_perm _ _ _ _ _ _ _ _ _ _ _ _ _ _ _ _ V))). apply in_seq. fold W. lia.
  Qed.

  Lemma svw_perm_lt x : In x (seq 0 v ++ (cU ++ ls_open su) ++ (cL ++ ls_open sl)) -> x < length W.
  Proof.
    intros Hx. apply (Permutation_in _ (sv_perm _ _ _ _ _ _ _ _ _ _ _ _ _ _ _ _ V)) in Hx. apply in_seq in Hx. fold W in Hx. lia.
  Qed.

  Lemma svw_cc_NoDup : NoDup (cU ++ cL).
  Proof.
    pose proof svw_perm_NoDup as Hnd. apply sp_NoDup_app_r in Hnd.
    apply NoDup_app_iff in Hnd. destruct Hnd as (H1 & H2 & H3).
    apply sp_NoDup_app_l in H1. apply sp_NoDup_app_l in H2.
    apply NoDup_app_iff. repeat split; auto. intros x Hx Hy. apply (H3 x); apply in_or_app; left; assumption.
  Qed.

  Lemma svw_ch_NoDup : NoDup (chU ++ chL).
  Proof.
    apply (NoDup_map_inv (neighbour_index nd)). rewrite map_app.
    unfold chU, chL. rewrite (sv_cU _ _ _ _ _ _ _ _ _ _ _ _ _ _ _ _ V), (sv_cL _ _ _ _ _ _ _ _ _ _ _ _ _ _ _ _ V).
    rewrite <- map_app. apply sp_NoDup_map_Some. apply svw_cc_NoDup.
  Qed.

  Lemma svw_ch_disj k : In k chU -> In k chL -> False.
  Proof. pose proof svw_ch_NoDup as Hnd. apply NoDup_app_iff in Hnd. destruct Hnd as (_ & _ & Hd). apply Hd. Qed.

  (* every child of n is listed in one of the two specifications *)
  Lemma svw_ch_cover c : In c (children nd) -> In c chU \/ In c chL.
  Proof.
    intros Hc. destruct (In_nth _ _ 0 Hc) as (j & Hj & Ej).
    assert (Hlt : v + j < nvirt nd) by (unfold v, nvirt; unfold id in *; lia).
    pose proof (svw_perm_In (v + j) ltac:(pose proof svw_virt; lia)) as Hin.
    assert (Hcase : forall ch cl, map (neighbour_index nd) ch = map Some cl -> incl ch (children nd) -> In (v + j) cl -> In c ch).
    { intros ch cl Hm Hincl Hx. destruct (sp_map_Some_In _ _ _ _ Hm Hx) as (x & Hx1 & Hx2).
      destruct (svw_child x (Hincl x Hx1)) as (_ & _ & _ & _ & _ & _ & Hpx).
      destruct (neighbour_index_lt nd x _ Hpx Hx2) as [_ Hn]. fold v in Hn.
      replace (v + j - v) with j in Hn by lia. unfold id in *. rewrite Ej in Hn. subst x. exact Hx1. }
    apply in_app_or in Hin. destruct Hin as [Hin|Hin]; [apply in_seq in Hin; lia|].
    apply in_app_or in Hin. destruct Hin as [Hin|Hin]; apply in_app_or in Hin; destruct Hin as [Hin|Hin].
    - left. apply (Hcase _ _ (sv_cU _ _ _ _ _ _ _ _ _ _ _ _ _ _ _ _ V) (sv_chU _ _ _ _ _ _ _ _ _ _ _ _ _ _ _ _ V) Hin).
    - apply (sv_opU _ _ _ _ _ _ _ _ _ _ _ _ _ _ _ _ V) in Hin. lia.
    - right. apply (Hcase _ _ (sv_cL _ _ _ _ _ _ _ _ _ _ _ _ _ _ _ _ V) (sv_chL _ _ _ _ _ _ _ _ _ _ _ _ _ _ _ _ V) Hin).
    - apply (sv_opL _ _ _ _ _ _ _ _ _ _ _ _ _ _ _ _ V) in Hin. lia.
  Qed.

  Lemma svw_chU_NoDup : NoDup chU.
  Proof. apply (sp_NoDup_app_l _ _ svw_ch_NoDup). Qed.
  Lemma svw_chL_NoDup : NoDup chL.
  Proof. apply (sp_NoDup_app_r _ _ svw_ch_NoDup). Qed.

  Lemma svw_len_cU : length cU = length chU.
  Proof. pose proof (f_equal (@length _) (sv_cU _ _ _ _ _ _ _ _ _ _ _ _ _ _ _ _ V)) as E. rewrite !map_length in E. symmetry. exact E. Qed.
  Lemma svw_len_cL : length cL = length chL.
  Proof. pose proof (f_equal (@length _) (sv_cL _ _ _ _ _ _ _ _ _ _ _ _ _ _ _ _ V)) as E. rewrite !map_length in E. symmetry. exact E. Qed.

  (* ---- dimensions and tensors of the old part ------------------------------------------------------ *)
  Lemma svw_wdim w : w < b -> wdim s' w = wdim s1 w.
  Proof.
    intros Hw. unfold wdim. rewrite (sv_dims _ _ _ _ _ _ _ _ _ _ _ _ _ _ _ _ V).
    rewrite sp_aget_snoc_other; [reflexivity|]. fold b. lia.
  Qed.

  Lemma svw_tens_old k : k <> n -> In k (akeys (nodes s1)) -> aget k (tensors s') = aget k (tensors s1).
  Proof.
    intros Hne Hk. destruct (svw_old_fresh k Hk Hne) as [H1 H2].
    rewrite (sv_told _ _ _ _ _ _ _ _ _ _ _ _ _ _ _ _ V k H1 H2). destruct (Nat.eqb_spec k n); [contradiction|reflexivity].
  Qed.

  Lemma svw_tens_U : tens s' U = tU.
  Proof. apply tens_aget. apply (sv_tU _ _ _ _ _ _ _ _ _ _ _ _ _ _ _ _ V). Qed.
  Lemma svw_tens_L : tens s' Lo = tL.
  Proof. apply tens_aget. apply (sv_tL _ _ _ _ _ _ _ _ _ _ _ _ _ _ _ _ V). Qed.

  (* ---- old nodes: what is preserved --------------------------------------------------------------- *)
  Lemma svw_old k nk : k <> n -> aget k (nodes s1) = Some nk ->
    exists nk', aget k (nodes s') = Some nk' /\ perm nk' = perm nk /\ shape nk' = shape nk /\
      nparents nk' = nparents nk /\ length (children nk') = length (children nk) /\
      tens s' k = tens s1 k /\ k <> U /\ k <> Lo /\
      (In k chU -> parent nk' = Some U /\ parent nk = Some n) /\
      (In k chL -> parent nk' = Some Lo /\ parent nk = Some n) /\
      (~ In k chU -> ~ In k chL -> parent nk' = parent nk /\ parent nk <> Some n) /\
      (parent nd = Some k -> children nk' = replace_first n U (children nk)) /\
      (parent nd <> Some k -> children nk' = children nk).
  Proof.
    intros Hne E. destruct (sv_old _ _ _ _ _ _ _ _ _ _ _ _ _ _ _ _ V k nk Hne E) as (nk' & E' & P1 & P2 & P3 & P4 & P5 & P6 & P7).
    pose proof (aget_Some_keys _ _ _ E) as Hk. destruct (svw_old_fresh k Hk Hne) as [F1 F2].
    assert (HchU : In k chU -> parent nk' = Some U /\ parent nk = Some n).
    { intros Hin. split; [apply P3; exact Hin|].
      destruct (svw_child k (sv_chU _ _ _ _ _ _ _ _ _ _ _ _ _ _ _ _ V k Hin)) as (cn & Ec & Epc & _). congruence. }
    assert (HchL : In k chL -> parent nk' = Some Lo /\ parent nk = Some n).
    { intros Hin. split; [apply P4; exact Hin|].
      destruct (svw_child k (sv_chL _ _ _ _ _ _ _ _ _ _ _ _ _ _ _ _ V k Hin)) as (cn & Ec & Epc & _). congruence. }
    assert (Hoth : ~ In k chU -> ~ In k chL -> parent nk' = parent nk /\ parent nk <> Some n).
    { intros N1 N2. split; [apply P5; assumption|]. intros Hp.
      destruct (ni_par _ _ _ (wf_node s1 H k nk E) n Hp) as (pn & i & Epn & Hin & _).
      rewrite En in Epn. injection Epn as <-. destruct (svw_ch_cover k Hin); contradiction. }
    exists nk'. split; [exact E'|]. split; [exact P1|]. split; [exact P2|]. split; [|split]; [| |split; [|auto 10]].
    - unfold nparents.
      destruct (in_dec Nat.eq_dec k chU) as [I1|N1]; [destruct (HchU I1) as [-> ->]; reflexivity|].
      destruct (in_dec Nat.eq_dec k chL) as [I2|N2]; [destruct (HchL I2) as [-> ->]; reflexivity|].
      destruct (Hoth N1 N2) as [-> _]. reflexivity.
    - destruct (option_eq_dec_id (parent nd) (Some k)) as [Ep|Ep].
      + rewrite (P6 Ep). apply sp_replace_first_length.
      + rewrite (P7 Ep). reflexivity.
    - unfold tens. rewrite (svw_tens_old k Hne Hk). reflexivity.
  Qed.

  Lemma svw_old_lax k nk nk' : k <> n -> aget k (nodes s1) = Some nk -> perm nk' = perm nk ->
    lax s' k nk' = lax s1 k nk.
  Proof.
    intros Hne E P. destruct (svw_old k nk Hne E) as (_ & _ & _ & _ & _ & _ & Ht & _).
    unfold lax, laxes. rewrite Ht, P. reflexivity.
  Qed.

  (* every node of s' is U, Lo or an old node *)
  Lemma svw_class k nk' : aget k (nodes s') = Some nk' ->
    (k = U /\ nk' = nU) \/ (k = Lo /\ nk' = nL) \/
    (k <> U /\ k <> Lo /\ k <> n /\ exists nk, aget k (nodes s1) = Some nk).
  Proof.
    intros E. destruct (sv_keys _ _ _ _ _ _ _ _ _ _ _ _ _ _ _ _ V k (aget_Some_keys _ _ _ E)) as [->|[->|[Hne Hk]]].
    - left. split; [reflexivity|]. rewrite (sv_nU _ _ _ _ _ _ _ _ _ _ _ _ _ _ _ _ V) in E. congruence.
    - right. left. split; [reflexivity|]. rewrite (sv_nL _ _ _ _ _ _ _ _ _ _ _ _ _ _ _ _ V) in E. congruence.
    - destruct (Nat.eq_dec k U) as [->|N1]; [left; split; [reflexivity|]; rewrite (sv_nU _ _ _ _ _ _ _ _ _ _ _ _ _ _ _ _ V) in E; congruence|].
      destruct (Nat.eq_dec k Lo) as [->|N2]; [right; left; split; [reflexivity|]; rewrite (sv_nL _ _ _ _ _ _ _ _ _ _ _ _ _ _ _ _ V) in E; congruence|].
      right. right. repeat split; auto. apply keys_aget. exact Hk.
  Qed.

  (* ---- the logical axes of the new nodes ------------------------------------------------------------ *)
  Let LU := firstn v W ++ b :: permute 0 (cU ++ ls_open su) W.
  Let LL := b :: permute 0 (cL ++ ls_open sl) W.

  Lemma svw_lax_U : lax s' U nU = LU.
  Proof. unfold lax. rewrite svw_tens_U. apply (sv_nU_lax _ _ _ _ _ _ _ _ _ _ _ _ _ _ _ _ V). Qed.
  Lemma svw_lax_L : lax s' Lo nL = LL.
  Proof. unfold lax. rewrite svw_tens_L. apply (sv_nL_lax _ _ _ _ _ _ _ _ _ _ _ _ _ _ _ _ V). Qed.

  Lemma svw_len_fv : length (firstn v W) = v.
  Proof. rewrite firstn_length. pose proof svw_virt. pose proof svw_v_le. lia. Qed.

  Lemma svw_nparents_U : nparents nU = v.
  Proof. unfold v. apply nparents_ext. apply (sv_nU_par _ _ _ _ _ _ _ _ _ _ _ _ _ _ _ _ V). Qed.
  Lemma svw_nparents_L : nparents nL = 1.
  Proof. unfold nparents. rewrite (sv_nL_par _ _ _ _ _ _ _ _ _ _ _ _ _ _ _ _ V). reflexivity. Qed.
  Lemma svw_nvirt_U : nvirt nU = v + S (length cU).
  Proof. unfold nvirt. rewrite svw_nparents_U, (sv_nU_ch _ _ _ _ _ _ _ _ _ _ _ _ _ _ _ _ V). cbn. fold chU. rewrite svw_len_cU. reflexivity. Qed.
  Lemma svw_nvirt_L : nvirt nL = S (length cL).
  Proof. unfold nvirt. rewrite svw_nparents_L, (sv_nL_ch _ _ _ _ _ _ _ _ _ _ _ _ _ _ _ _ V). fold chL. rewrite svw_len_cL. reflexivity. Qed.

  Lemma svw_nlegs_U : nlegs nU = v + S (length cU + length (ls_open su)).
  Proof.
    rewrite <- (laxes_length nU tU), (sv_nU_lax _ _ _ _ _ _ _ _ _ _ _ _ _ _ _ _ V).
    fold W v b. rewrite app_length, svw_len_fv. cbn [length]. rewrite permute_length, app_length. reflexivity.
  Qed.
  Lemma svw_nlegs_L : nlegs nL = S (length cL + length (ls_open sl)).
  Proof.
    rewrite <- (laxes_length nL tL), (sv_nL_lax _ _ _ _ _ _ _ _ _ _ _ _ _ _ _ _ V).
    cbn [length]. rewrite permute_length, app_length. reflexivity.
  Qed.

  Lemma svw_fv_permute : firstn v W = permute 0 (seq 0 v) W.
  Proof. unfold permute. rewrite map_nth_seq by (pose proof svw_virt; pose proof svw_v_le; ulia). reflexivity. Qed.

  Lemma svw_open_U : open_of nU tU = permute 0 (ls_open su) W.
  Proof.
    unfold open_of. rewrite (sv_nU_lax _ _ _ _ _ _ _ _ _ _ _ _ _ _ _ _ V). fold W v b. rewrite svw_nvirt_U.
    rewrite sp_permute_app.
    change (firstn v W ++ b :: permute 0 cU W ++ permute 0 (ls_open su) W)
      with (firstn v W ++ (b :: permute 0 cU W) ++ permute 0 (ls_open su) W).
    rewrite app_assoc. apply sp_skipn_app_exact. rewrite app_length. cbn [length]. rewrite permute_length.
    pose proof svw_len_fv. ulia.
  Qed.

  Lemma svw_own_U : own_of nU tU = permute 0 (seq 0 v ++ ls_open su) W.
  Proof.
    unfold own_of. fold (open_of nU tU). rewrite svw_open_U.
    rewrite (sv_nU_lax _ _ _ _ _ _ _ _ _ _ _ _ _ _ _ _ V). fold W v b.
    rewrite svw_nparents_U. rewrite (sp_firstn_app_exact _ _ v svw_len_fv).
    rewrite (sp_permute_app 0 (seq 0 v)). rewrite <- svw_fv_permute. reflexivity.
  Qed.

  Lemma svw_open_L : open_of nL tL = permute 0 (ls_open sl) W.
  Proof.
    unfold open_of. rewrite (sv_nL_lax _ _ _ _ _ _ _ _ _ _ _ _ _ _ _ _ V). fold W b. rewrite svw_nvirt_L.
    rewrite sp_permute_app. change (b :: permute 0 cL W ++ permute 0 (ls_open sl) W) with ((b :: permute 0 cL W) ++ permute 0 (ls_open sl) W).
    apply sp_skipn_app_exact. cbn [length]. rewrite permute_length. reflexivity.
  Qed.

  Lemma svw_own_L : own_of nL tL = b :: permute 0 (ls_open sl) W.
  Proof.
    unfold own_of. fold (open_of nL tL). rewrite svw_open_L. rewrite svw_nparents_L.
    rewrite (sv_nL_lax _ _ _ _ _ _ _ _ _ _ _ _ _ _ _ _ V). reflexivity.
  Qed.

  (* wires owned by the new nodes were owned by n (or are the new bond) *)
  Lemma svw_own_idx_ok i : In i (seq 0 v ++ ls_open su) \/ In i (ls_open sl) ->
    In i (seq 0 v ++ (cU ++ ls_open su) ++ (cL ++ ls_open sl)) /\ (i < v \/ nvirt nd <= i).
  Proof.
    intros [Hi|Hi].
    - apply in_app_or in Hi. destruct Hi as [Hi|Hi].
      + split; [apply in_or_app; left; exact Hi|]. apply in_seq in Hi. lia.
      + split; [|right; apply (sv_opU _ _ _ _ _ _ _ _ _ _ _ _ _ _ _ _ V); exact Hi].
        apply in_or_app. right. apply in_or_app. left. apply in_or_app. right. exact Hi.
    - split; [|right; apply (sv_opL _ _ _ _ _ _ _ _ _ _ _ _ _ _ _ _ V); exact Hi].
      apply in_or_app. right. apply in_or_app. right. apply in_or_app. right. exact Hi.
  Qed.

  Lemma svw_own_from_n i : In i (seq 0 v ++ ls_open su) \/ In i (ls_open sl) -> In (nth i W 0) (own_of nd (tens s1 n)).
  Proof.
    intros Hi. destruct (svw_own_idx_ok i Hi) as [H1 H2]. apply svw_perm_lt in H1.
    pose proof svw_lax_n as EL. unfold lax in EL. rewrite <- EL. destruct H2 as [H2|H2].
    - apply sp_own_of_nth_lo; [exact H2|]. fold v. pose proof svw_virt. pose proof svw_v_le. rewrite svw_nlegs. lia.
    - apply sp_own_of_nth_hi. rewrite svw_nlegs. lia.
  Qed.

  (* ---- field 3: every tensor key is a node key ------------------------------------------------------ *)
  Lemma svw_tn k : amem k (tensors s') = true -> amem k (nodes s') = true.
  Proof.
    intros Hk. apply amem_aget in Hk. destruct Hk as [tk Htk]. apply amem_aget.
    destruct (Nat.eq_dec k U) as [->|N1]; [eexists; apply (sv_nU _ _ _ _ _ _ _ _ _ _ _ _ _ _ _ _ V)|].
    destruct (Nat.eq_dec k Lo) as [->|N2]; [eexists; apply (sv_nL _ _ _ _ _ _ _ _ _ _ _ _ _ _ _ _ V)|].
    rewrite (sv_told _ _ _ _ _ _ _ _ _ _ _ _ _ _ _ _ V k N1 N2) in Htk.
    destruct (Nat.eqb_spec k n) as [|Hne]; [discriminate|].
    assert (Hm : amem k (nodes s1) = true) by (apply (wf_tn s1 H); apply amem_aget; eauto).
    apply amem_aget in Hm. destruct Hm as [nk Enk].
    destruct (svw_old k nk Hne Enk) as (nk' & E' & _). eauto.
  Qed.

  (* ---- field 4: the root ------------------------------------------------------------------------------ *)
  Lemma svw_root : exists r rn, root s' = Some r /\ aget r (nodes s') = Some rn /\ parent rn = None
                         /\ forall k nk, aget k (nodes s') = Some nk -> parent nk = None -> k = r.
  Proof.
    destruct (wf_root s1 H) as (r & rn & Hr & Er & Hpr & Huniq).
    assert (Hold_none : forall k nk', k <> U -> k <> Lo -> aget k (nodes s') = Some nk' -> parent nk' = None ->
              exists nk, k <> n /\ aget k (nodes s1) = Some nk /\ parent nk = None).
    { intros k nk' N1 N2 E Hp. destruct (svw_class k nk' E) as [[-> _]|[[-> _]|(_ & _ & Hne & nk & Enk)]]; [contradiction|contradiction|].
      destruct (svw_old k nk Hne Enk) as (nk2 & E2 & _ & _ & _ & _ & _ & _ & _ & C1 & C2 & C3 & _).
      rewrite E in E2. injection E2 as <-. exists nk. split; [exact Hne|split; [exact Enk|]].
      destruct (in_dec Nat.eq_dec k chU) as [I1|I1]; [destruct (C1 I1); congruence|].
      destruct (in_dec Nat.eq_dec k chL) as [I2|I2]; [destruct (C2 I2); congruence|].
      destruct (C3 I1 I2). congruence. }
    destruct (parent nd) as [p|] eqn:Ep.
    - (* the root is unchanged *)
      assert (Hrn : r <> n). { intros ->. rewrite En in Er. injection Er as <-. congruence. }
      destruct (svw_old r rn Hrn Er) as (rn' & E' & _ & _ & _ & _ & _ & _ & _ & C1 & C2 & C3 & _).
      exists r, rn'. split; [rewrite (sv_root _ _ _ _ _ _ _ _ _ _ _ _ _ _ _ _ V), Ep; exact Hr|]. split; [exact E'|]. split.
      + destruct (in_dec Nat.eq_dec r chU) as [I1|I1]; [destruct (C1 I1); congruence|].
        destruct (in_dec Nat.eq_dec r chL) as [I2|I2]; [destruct (C2 I2); congruence|].
        destruct (C3 I1 I2). congruence.
      + intros k nk' E Hp. destruct (Nat.eq_dec k U) as [->|N1].
        { rewrite (sv_nU _ _ _ _ _ _ _ _ _ _ _ _ _ _ _ _ V) in E. injection E as <-.
          rewrite (sv_nU_par _ _ _ _ _ _ _ _ _ _ _ _ _ _ _ _ V), Ep in Hp. discriminate. }
        destruct (Nat.eq_dec k Lo) as [->|N2].
        { rewrite (sv_nL _ _ _ _ _ _ _ _ _ _ _ _ _ _ _ _ V) in E. injection E as <-.
          rewrite (sv_nL_par _ _ _ _ _ _ _ _ _ _ _ _ _ _ _ _ V) in Hp. discriminate. }
        destruct (Hold_none k nk' N1 N2 E Hp) as (nk & _ & Enk & Hpk). apply (Huniq k nk Enk Hpk).
    - (* n was the root; U is the new root *)
      assert (Hrn : r = n) by (symmetry; apply (Huniq n nd En Ep)).
      exists U, nU. split; [rewrite (sv_root _ _ _ _ _ _ _ _ _ _ _ _ _ _ _ _ V), Ep; reflexivity|].
      split; [apply (sv_nU _ _ _ _ _ _ _ _ _ _ _ _ _ _ _ _ V)|]. split; [rewrite (sv_nU_par _ _ _ _ _ _ _ _ _ _ _ _ _ _ _ _ V); exact Ep|].
      intros k nk' E Hp. destruct (Nat.eq_dec k U) as [->|N1]; [reflexivity|]. exfalso.
      destruct (Nat.eq_dec k Lo) as [->|N2].
      { rewrite (sv_nL _ _ _ _ _ _ _ _ _ _ _ _ _ _ _ _ V) in E. injection E as <-.
        rewrite (sv_nL_par _ _ _ _ _ _ _ _ _ _ _ _ _ _ _ _ V) in Hp. discriminate. }
      destruct (Hold_none k nk' N1 N2 E Hp) as (nk & Hne & Enk & Hpk). apply Hne. rewrite <- Hrn. apply (Huniq k nk Enk Hpk).
  Qed.

  (* ---- field 5: the node invariant ---------------------------------------------------------------------- *)
  Lemma svw_U_notin_children k nk : aget k (nodes s1) = Some nk -> ~ In U (children nk) \/ U = n.
  Proof.
    intros E. destruct (sv_U _ _ _ _ _ _ _ _ _ _ _ _ _ _ _ _ V) as [->|Hf]; [right; reflexivity|left].
    intros Hin. destruct (ni_ch _ _ _ (wf_node s1 H k nk E) U Hin) as (cn & Ec & _). apply Hf. eapply aget_Some_keys; eauto.
  Qed.

  Lemma svw_parent_not_new k nk x : aget k (nodes s1) = Some nk -> x = n \/ ~ In x (akeys (nodes s1)) ->
    parent nk <> Some n -> parent nk <> Some x.
  Proof.
    intros E [->|Hf] Hp; [exact Hp|]. intros Hq.
    destruct (ni_par _ _ _ (wf_node s1 H k nk E) x Hq) as (pn & i & Epn & _). apply Hf. eapply aget_Some_keys; eauto.
  Qed.

  Lemma svw_node_U : node_inv s' U nU.
  Proof.
    constructor.
    - apply amem_aget. eexists. apply (sv_tU _ _ _ _ _ _ _ _ _ _ _ _ _ _ _ _ V).
    - apply (sv_nU_perm _ _ _ _ _ _ _ _ _ _ _ _ _ _ _ _ V).
    - rewrite svw_tens_U. apply (sv_nU_shape _ _ _ _ _ _ _ _ _ _ _ _ _ _ _ _ V).
    - rewrite svw_nvirt_U, svw_nlegs_U. lia.
    - rewrite (sv_nU_ch _ _ _ _ _ _ _ _ _ _ _ _ _ _ _ _ V). constructor; [|apply svw_chU_NoDup].
      intros Hin. destruct (svw_child Lo (sv_chU _ _ _ _ _ _ _ _ _ _ _ _ _ _ _ _ V Lo Hin)) as (_ & _ & _ & _ & _ & Hx & _). congruence.
    - intros c Hc. rewrite (sv_nU_ch _ _ _ _ _ _ _ _ _ _ _ _ _ _ _ _ V) in Hc. destruct Hc as [<-|Hc].
      + exists nL. split; [apply (sv_nL _ _ _ _ _ _ _ _ _ _ _ _ _ _ _ _ V)|apply (sv_nL_par _ _ _ _ _ _ _ _ _ _ _ _ _ _ _ _ V)].
      + destruct (svw_child c (sv_chU _ _ _ _ _ _ _ _ _ _ _ _ _ _ _ _ V c Hc)) as (cn & Ec & _ & Hne & _).
        destruct (svw_old c cn Hne Ec) as (cn' & E' & _ & _ & _ & _ & _ & _ & _ & C1 & _).
        exists cn'. split; [exact E'|]. apply (C1 Hc).
    - intros p Hp. rewrite (sv_nU_par _ _ _ _ _ _ _ _ _ _ _ _ _ _ _ _ V) in Hp.
      destruct (svw_parent p Hp) as (pn & i & Epn & Hin & Hni & Hw & Hpn & HpU & HpL & Hppn & Hpc).
      destruct (svw_old p pn Hpn Epn) as (pn' & E' & P1 & _ & P3 & _ & _ & _ & _ & C1 & C2 & C3 & C4 & _).
      assert (NU : ~ In p chU) by (intros Hx; apply Hpc; apply (sv_chU _ _ _ _ _ _ _ _ _ _ _ _ _ _ _ _ V); exact Hx).
      assert (NL : ~ In p chL) by (intros Hx; apply Hpc; apply (sv_chL _ _ _ _ _ _ _ _ _ _ _ _ _ _ _ _ V); exact Hx).
      destruct (C3 NU NL) as [Epp _]. specialize (C4 Hp).
      exists pn', i. split; [exact E'|]. split; [rewrite C4; apply sp_In_replace_first_new; exact Hin|]. split.
      + assert (HpU' : parent pn <> Some U) by (apply (svw_parent_not_new p pn U Epn (sv_U _ _ _ _ _ _ _ _ _ _ _ _ _ _ _ _ V) Hppn)).
        rewrite (neighbour_index_child pn' U) by congruence. rewrite (neighbour_index_child pn n Hppn) in Hni.
        rewrite P3, C4. rewrite (sp_index_of_replace_first_new n U (children pn) (svw_U_notin_children p pn Epn)). exact Hni.
      + rewrite svw_lax_U. rewrite (svw_old_lax p pn pn' Hpn Epn P1). rewrite <- Hw.
        unfold LU. assert (Hv1 : v = 1) by (unfold v, nparents; rewrite Hp; reflexivity).
        rewrite app_nth1 by (rewrite svw_len_fv; lia). apply sp_nth_firstn. lia.
  Qed.

  Lemma svw_node_L : node_inv s' Lo nL.
  Proof.
    constructor.
    - apply amem_aget. eexists. apply (sv_tL _ _ _ _ _ _ _ _ _ _ _ _ _ _ _ _ V).
    - apply (sv_nL_perm _ _ _ _ _ _ _ _ _ _ _ _ _ _ _ _ V).
    - rewrite svw_tens_L. apply (sv_nL_shape _ _ _ _ _ _ _ _ _ _ _ _ _ _ _ _ V).
    - rewrite svw_nvirt_L, svw_nlegs_L. lia.
    - rewrite (sv_nL_ch _ _ _ _ _ _ _ _ _ _ _ _ _ _ _ _ V). apply svw_chL_NoDup.
    - intros c Hc. rewrite (sv_nL_ch _ _ _ _ _ _ _ _ _ _ _ _ _ _ _ _ V) in Hc.
      destruct (svw_child c (sv_chL _ _ _ _ _ _ _ _ _ _ _ _ _ _ _ _ V c Hc)) as (cn & Ec & _ & Hne & _).
      destruct (svw_old c cn Hne Ec) as (cn' & E' & _ & _ & _ & _ & _ & _ & _ & _ & C2 & _).
      exists cn'. split; [exact E'|]. apply (C2 Hc).
    - intros p Hp. rewrite (sv_nL_par _ _ _ _ _ _ _ _ _ _ _ _ _ _ _ _ V) in Hp. injection Hp as <-.
      exists nU, v. split; [apply (sv_nU _ _ _ _ _ _ _ _ _ _ _ _ _ _ _ _ V)|].
      split; [rewrite (sv_nU_ch _ _ _ _ _ _ _ _ _ _ _ _ _ _ _ _ V); left; reflexivity|]. split.
      + assert (Hx : parent nU <> Some Lo).
        { rewrite (sv_nU_par _ _ _ _ _ _ _ _ _ _ _ _ _ _ _ _ V). intros Hq.
          destruct (svw_parent Lo Hq) as (_ & _ & _ & _ & _ & _ & _ & _ & Hc & _). congruence. }
        rewrite (neighbour_index_child nU Lo Hx), (sv_nU_ch _ _ _ _ _ _ _ _ _ _ _ _ _ _ _ _ V). cbn. rewrite Nat.eqb_refl. cbn.
        rewrite svw_nparents_U. f_equal. lia.
      + rewrite svw_lax_U, svw_lax_L. unfold LU, LL. cbn [nth].
        symmetry. apply sp_nth_app_exact. apply svw_len_fv.
  Qed.

  (* the parent wire of a listed child, as an entry of the new node's axis list *)
  Lemma svw_child_wire (ch : list id) (cl : list nat) k nk :
    map (neighbour_index nd) ch = map Some cl -> incl ch (children nd) -> NoDup ch -> In k ch ->
    aget k (nodes s1) = Some nk ->
    exists j, j < length ch /\ index_of k ch = Some j /\
              forall op, nth 0 (lax s1 k nk) 0 = nth j (permute 0 (cl ++ op) W) 0.
  Proof.
    intros Hm Hincl Hnd Hin E. destruct (In_nth _ _ 0 Hin) as (j & Hj & Ej). exists j. split; [exact Hj|]. split.
    - rewrite <- Ej. apply index_of_nth; assumption.
    - intros op. destruct (svw_leg_of ch cl j Hm Hincl Hj) as (Hni & _ & _). unfold id in *. rewrite Ej in Hni.
      destruct (svw_child k (Hincl k Hin)) as (cn & Ec & Epc & _). rewrite E in Ec. injection Ec as <-.
      destruct (ni_par _ _ _ (wf_node s1 H k nk E) n Epc) as (pn & i & Epn & _ & Hni' & Hw).
      rewrite En in Epn. injection Epn as <-. rewrite Hni in Hni'. injection Hni' as <-.
      rewrite Hw, svw_lax_n.
      assert (Hlen : length cl = length ch).
      { apply (f_equal (@length _)) in Hm. rewrite !map_length in Hm. symmetry. exact Hm. }
      rewrite sp_nth_permute by (rewrite app_length; lia). rewrite app_nth1 by lia. reflexivity.
  Qed.

  Lemma svw_node_old k nk nk' : k <> n -> aget k (nodes s1) = Some nk -> aget k (nodes s') = Some nk' -> node_inv s' k nk'.
  Proof.
    intros Hne E E'. pose proof (wf_node s1 H k nk E) as Hn.
    destruct (svw_old k nk Hne E) as (nk2 & E2 & P1 & P2 & P3 & P4 & P5 & P6 & P7 & C1 & C2 & C3 & C4 & C5).
    rewrite E' in E2. injection E2 as <-.
    pose proof (aget_Some_keys _ _ _ E) as Hk.
    assert (Hlax : lax s' k nk' = lax s1 k nk) by (apply svw_old_lax; assumption).
    constructor.
    - apply amem_aget. rewrite (svw_tens_old k Hne Hk). apply amem_aget. apply (ni_t _ _ _ Hn).
    - rewrite P1, P2. apply (ni_perm _ _ _ Hn).
    - rewrite P2, P5, (ni_shape _ _ _ Hn). apply map_ext_in. intros w Hw. symmetry. apply svw_wdim.
      apply (wf_wires s1 H k (tens s1 k) w (wf_tens s1 k nk H E) Hw).
    - unfold nvirt, nlegs. rewrite P3, P4, P1. apply (ni_virt _ _ _ Hn).
    - destruct (option_eq_dec_id (parent nd) (Some k)) as [Ep|Ep].
      + rewrite (C4 Ep). apply sp_NoDup_replace_first; [apply (ni_chnd _ _ _ Hn)|apply (svw_U_notin_children k nk E)].
      + rewrite (C5 Ep). apply (ni_chnd _ _ _ Hn).
    - (* children *)
      assert (Hoc : forall c, In c (children nk) -> c <> n -> exists cn', aget c (nodes s') = Some cn' /\ parent cn' = Some k).
      { intros c Hc Hcn. destruct (ni_ch _ _ _ Hn c Hc) as (cn & Ec & Epc).
        destruct (svw_old c cn Hcn Ec) as (cn' & Ec' & _ & _ & _ & _ & _ & _ & _ & D1 & D2 & D3 & _).
        exists cn'. split; [exact Ec'|].
        destruct (in_dec Nat.eq_dec c chU) as [I1|I1]; [destruct (D1 I1); congruence|].
        destruct (in_dec Nat.eq_dec c chL) as [I2|I2]; [destruct (D2 I2); congruence|].
        destruct (D3 I1 I2). congruence. }
      intros c Hc. destruct (option_eq_dec_id (parent nd) (Some k)) as [Ep|Ep].
      + rewrite (C4 Ep) in Hc. apply (sp_In_replace_first _ _ _ _ (ni_chnd _ _ _ Hn)) in Hc.
        destruct Hc as [[-> _]|[Hc Hcn]]; [|apply Hoc; assumption].
        exists nU. split; [apply (sv_nU _ _ _ _ _ _ _ _ _ _ _ _ _ _ _ _ V)|]. rewrite (sv_nU_par _ _ _ _ _ _ _ _ _ _ _ _ _ _ _ _ V). exact Ep.
      + rewrite (C5 Ep) in Hc. apply Hoc; [exact Hc|]. intros ->.
        destruct (ni_ch _ _ _ Hn n Hc) as (cn & Ec & Epc). rewrite En in Ec. injection Ec as <-. contradiction.
    - (* parent *)
      intros q Hq. destruct (in_dec Nat.eq_dec k chU) as [I1|I1]; [|destruct (in_dec Nat.eq_dec k chL) as [I2|I2]].
      + destruct (C1 I1) as [Hp' Hp]. rewrite Hp' in Hq. injection Hq as <-.
        destruct (svw_child_wire chU cU k nk (sv_cU _ _ _ _ _ _ _ _ _ _ _ _ _ _ _ _ V) (sv_chU _ _ _ _ _ _ _ _ _ _ _ _ _ _ _ _ V) svw_chU_NoDup I1 E)
          as (j & Hj & Hix & Hw).
        exists nU, (v + S j). split; [apply (sv_nU _ _ _ _ _ _ _ _ _ _ _ _ _ _ _ _ V)|].
        split; [rewrite (sv_nU_ch _ _ _ _ _ _ _ _ _ _ _ _ _ _ _ _ V); right; exact I1|]. split.
        * assert (Hx : parent nU <> Some k).
          { rewrite (sv_nU_par _ _ _ _ _ _ _ _ _ _ _ _ _ _ _ _ V).
            destruct (svw_child k (sv_chU _ _ _ _ _ _ _ _ _ _ _ _ _ _ _ _ V k I1)) as (_ & _ & _ & _ & _ & _ & Hx). exact Hx. }
          rewrite (neighbour_index_child nU k Hx), (sv_nU_ch _ _ _ _ _ _ _ _ _ _ _ _ _ _ _ _ V). cbn [index_of].
          destruct (Nat.eqb_spec k Lo) as [|_]; [contradiction|]. fold chU. rewrite Hix. cbn. rewrite svw_nparents_U. reflexivity.
        * rewrite Hlax, svw_lax_U. unfold LU. rewrite app_nth2 by (rewrite svw_len_fv; lia). rewrite svw_len_fv.
          replace (v + S j - v) with (S j) by lia. cbn [nth]. apply Hw.
      + destruct (C2 I2) as [Hp' Hp]. rewrite Hp' in Hq. injection Hq as <-.
        destruct (svw_child_wire chL cL k nk (sv_cL _ _ _ _ _ _ _ _ _ _ _ _ _ _ _ _ V) (sv_chL _ _ _ _ _ _ _ _ _ _ _ _ _ _ _ _ V) svw_chL_NoDup I2 E)
          as (j & Hj & Hix & Hw).
        exists nL, (S j). split; [apply (sv_nL _ _ _ _ _ _ _ _ _ _ _ _ _ _ _ _ V)|].
        split; [rewrite (sv_nL_ch _ _ _ _ _ _ _ _ _ _ _ _ _ _ _ _ V); exact I2|]. split.
        * assert (Hx : parent nL <> Some k) by (rewrite (sv_nL_par _ _ _ _ _ _ _ _ _ _ _ _ _ _ _ _ V); congruence).
          rewrite (neighbour_index_child nL k Hx), (sv_nL_ch _ _ _ _ _ _ _ _ _ _ _ _ _ _ _ _ V). fold chL. rewrite Hix. cbn.
          rewrite svw_nparents_L. reflexivity.
        * rewrite Hlax, svw_lax_L. unfold LL. cbn [nth]. apply Hw.
      + destruct (C3 I1 I2) as [Hp' Hp]. rewrite Hp' in Hq.
        destruct (ni_par _ _ _ Hn q Hq) as (qn & i & Eqn & Hin & Hni & Hw).
        assert (Hqn : q <> n) by congruence.
        destruct (svw_old q qn Hqn Eqn) as (qn' & Eq' & Q1 & Q2 & Q3 & Q4 & Q5 & Q6 & Q7 & D1 & D2 & D3 & D4 & D5).
        assert (Hpq : parent qn <> Some k) by (eapply wf_parent_not_child; eauto).
        assert (Hpq' : parent qn' <> Some k).
        { destruct (in_dec Nat.eq_dec q chU) as [J1|J1]; [destruct (D1 J1); congruence|].
          destruct (in_dec Nat.eq_dec q chL) as [J2|J2]; [destruct (D2 J2); congruence|].
          destruct (D3 J1 J2). congruence. }
        exists qn', i. split; [exact Eq'|].
        assert (Hch : In k (children qn') /\ index_of k (children qn') = index_of k (children qn)).
        { destruct (option_eq_dec_id (parent nd) (Some q)) as [Ep|Ep].
          - rewrite (D4 Ep). split; [apply sp_In_replace_first_other; assumption|].
            apply sp_index_of_replace_first_other; assumption.
          - rewrite (D5 Ep). split; [exact Hin|reflexivity]. }
        destruct Hch as [Hch1 Hch2]. split; [exact Hch1|]. split.
        * rewrite (sp_neighbour_index_same qn' qn k Hpq' Hpq Q3 Hch2). exact Hni.
        * rewrite Hlax, (svw_old_lax q qn qn' Hqn Eqn Q1). exact Hw.
  Qed.

  Lemma svw_node k nk' : aget k (nodes s') = Some nk' -> node_inv s' k nk'.
  Proof.
    intros E. destruct (svw_class k nk' E) as [[-> ->]|[[-> ->]|(_ & _ & Hne & nk & Enk)]].
    - apply svw_node_U.
    - apply svw_node_L.
    - apply (svw_node_old k nk nk' Hne Enk E).
  Qed.

  (* ---- fields 6 and 7: owned wires ------------------------------------------------------------------------ *)
  Lemma svw_own_old k nk nk' : k <> n -> aget k (nodes s1) = Some nk -> aget k (nodes s') = Some nk' ->
    own_of nk' (tens s' k) = own_of nk (tens s1 k) /\ open_of nk' (tens s' k) = open_of nk (tens s1 k).
  Proof.
    intros Hne E E'. destruct (svw_old k nk Hne E) as (nk2 & E2 & P1 & P2 & P3 & P4 & P5 & _).
    rewrite E' in E2. injection E2 as <-.
    unfold own_of, open_of, nvirt, laxes. rewrite P1, P3, P4, P5. split; reflexivity.
  Qed.

  Lemma svw_idx_NoDup : NoDup ((seq 0 v ++ ls_open su) ++ ls_open sl).
  Proof.
    pose proof svw_perm_NoDup as Hnd. rewrite <- app_assoc.
    apply NoDup_app_iff in Hnd. destruct Hnd as (N1 & N2 & N3).
    apply NoDup_app_iff in N2. destruct N2 as (N4 & N5 & N6).
    apply sp_NoDup_app_r in N4. apply sp_NoDup_app_r in N5.
    apply NoDup_app_iff. split; [exact N1|]. split.
    - apply NoDup_app_iff. split; [exact N4|]. split; [exact N5|].
      intros x Hx Hy. apply (N6 x); apply in_or_app; right; assumption.
    - intros x Hx Hy. apply (N3 x Hx). apply in_app_or in Hy.
      destruct Hy as [Hy|Hy]; apply in_or_app; [left|right]; apply in_or_app; right; exact Hy.
  Qed.

  Lemma svw_idx_lt i : In i ((seq 0 v ++ ls_open su) ++ ls_open sl) -> i < length W.
  Proof.
    intros Hi. apply svw_perm_lt. apply in_app_or in Hi. destruct Hi as [Hi|Hi].
    - apply (svw_own_idx_ok i (or_introl Hi)).
    - apply (svw_own_idx_ok i (or_intror Hi)).
  Qed.

  Lemma svw_own_new_NoDup : NoDup (permute 0 ((seq 0 v ++ ls_open su) ++ ls_open sl) W).
  Proof. unfold permute. apply NoDup_map_nth; [apply svw_NoDupW|apply svw_idx_NoDup|apply svw_idx_lt]. Qed.

  Lemma svw_b_notin_W : ~ In b W.
  Proof. intros Hb. apply svw_W_lt in Hb. lia. Qed.

  Lemma svw_permute_incl p : (forall i, In i p -> i < length W) -> incl (permute 0 p W) W.
  Proof. intros Hp. apply permute_incl. exact Hp. Qed.

  Lemma svw_own1 k nk' : aget k (nodes s') = Some nk' -> NoDup (own_of nk' (tens s' k)).
  Proof.
    intros E. pose proof svw_own_new_NoDup as Hnd. rewrite sp_permute_app in Hnd.
    destruct (svw_class k nk' E) as [[-> ->]|[[-> ->]|(_ & _ & Hne & nk & Enk)]].
    - rewrite svw_tens_U, svw_own_U. apply (sp_NoDup_app_l _ _ Hnd).
    - rewrite svw_tens_L, svw_own_L. constructor; [|apply (sp_NoDup_app_r _ _ Hnd)].
      intros Hin. apply svw_b_notin_W. apply (svw_permute_incl (ls_open sl)); [|exact Hin].
      intros i Hi. apply svw_idx_lt. apply in_or_app. right. exact Hi.
    - destruct (svw_own_old k nk nk' Hne Enk E) as [-> _]. apply (wf_own1 s1 H k nk Enk).
  Qed.

  (* a wire owned by a new node: the bond, or a wire n owned *)
  Lemma svw_own_U_from w : In w (own_of nU tU) -> In w (own_of nd (tens s1 n)) /\ w <> b.
  Proof.
    rewrite svw_own_U. intros Hw. apply sp_permute_In in Hw. destruct Hw as (i & Hi & ->).
    split; [apply svw_own_from_n; left; exact Hi|]. intros Eb. apply svw_b_notin_W. rewrite <- Eb.
    apply nth_In. apply svw_idx_lt. apply in_or_app. left. exact Hi.
  Qed.

  Lemma svw_own_L_from w : In w (own_of nL tL) -> w = b \/ (In w (own_of nd (tens s1 n)) /\ w <> b).
  Proof.
    rewrite svw_own_L. intros [<-|Hw]; [left; reflexivity|right]. apply sp_permute_In in Hw. destruct Hw as (i & Hi & ->).
    split; [apply svw_own_from_n; right; exact Hi|]. intros Eb. apply svw_b_notin_W. rewrite <- Eb.
    apply nth_In. apply svw_idx_lt. apply in_or_app. right. exact Hi.
  Qed.

  Lemma svw_own_UL w : In w (own_of nU tU) -> In w (own_of nL tL) -> False.
  Proof.
    intros HU HL. pose proof svw_own_new_NoDup as Hnd. rewrite sp_permute_app in Hnd.
    apply NoDup_app_iff in Hnd. destruct Hnd as (_ & _ & Hd).
    rewrite svw_own_U in HU. rewrite svw_own_L in HL. destruct HL as [<-|HL].
    - apply svw_b_notin_W. apply (svw_permute_incl (seq 0 v ++ ls_open su)); [|exact HU].
      intros i Hi. apply svw_idx_lt. apply in_or_app. left. exact Hi.
    - apply (Hd w HU HL).
  Qed.

  Lemma svw_own_old_n k nk w : k <> n -> aget k (nodes s1) = Some nk -> In w (own_of nk (tens s1 k)) ->
    In w (own_of nd (tens s1 n)) -> False.
  Proof. intros Hne E H1 H2. apply Hne. apply (wf_own2 s1 H k nk n nd w E En H1 H2). Qed.

  Lemma svw_own_old_b k nk : aget k (nodes s1) = Some nk -> In b (own_of nk (tens s1 k)) -> False.
  Proof.
    intros E Hb. apply sp_own_of_incl in Hb. unfold laxes in Hb. apply permute_incl in Hb.
    - pose proof (wf_wires s1 H k (tens s1 k) b (wf_tens s1 k nk H E) Hb). unfold b in *. lia.
    - rewrite (wf_axes_length s1 k nk H E). unfold nlegs.
      apply perm_bound. pose proof (ni_perm _ _ _ (wf_node s1 H k nk E)) as Hp.
      assert (El : length (perm nk) = length (shape nk)) by (apply Permutation_length in Hp; rewrite seq_length in Hp; exact Hp).
      rewrite El. exact Hp.
  Qed.

  Lemma svw_own2 k1 n1 k2 n2 w : aget k1 (nodes s') = Some n1 -> aget k2 (nodes s') = Some n2 ->
    In w (own_of n1 (tens s' k1)) -> In w (own_of n2 (tens s' k2)) -> k1 = k2.
  Proof.
    intros E1 E2 H1 H2.
    destruct (svw_class k1 n1 E1) as [[-> ->]|[[-> ->]|(_ & _ & Hne1 & m1 & Em1)]];
    destruct (svw_class k2 n2 E2) as [[-> ->]|[[-> ->]|(_ & _ & Hne2 & m2 & Em2)]].
    - reflexivity.
    - exfalso. rewrite svw_tens_U in H1. rewrite svw_tens_L in H2. apply (svw_own_UL w H1 H2).
    - exfalso. rewrite svw_tens_U in H1. destruct (svw_own_old k2 m2 n2 Hne2 Em2 E2) as [Eo _]. rewrite Eo in H2.
      destruct (svw_own_U_from w H1) as [Hn _]. apply (svw_own_old_n k2 m2 w Hne2 Em2 H2 Hn).
    - exfalso. rewrite svw_tens_U in H2. rewrite svw_tens_L in H1. apply (svw_own_UL w H2 H1).
    - reflexivity.
    - exfalso. rewrite svw_tens_L in H1. destruct (svw_own_old k2 m2 n2 Hne2 Em2 E2) as [Eo _]. rewrite Eo in H2.
      destruct (svw_own_L_from w H1) as [->|[Hn _]]; [apply (svw_own_old_b k2 m2 Em2 H2)|apply (svw_own_old_n k2 m2 w Hne2 Em2 H2 Hn)].
    - exfalso. rewrite svw_tens_U in H2. destruct (svw_own_old k1 m1 n1 Hne1 Em1 E1) as [Eo _]. rewrite Eo in H1.
      destruct (svw_own_U_from w H2) as [Hn _]. apply (svw_own_old_n k1 m1 w Hne1 Em1 H1 Hn).
    - exfalso. rewrite svw_tens_L in H2. destruct (svw_own_old k1 m1 n1 Hne1 Em1 E1) as [Eo _]. rewrite Eo in H1.
      destruct (svw_own_L_from w H2) as [->|[Hn _]]; [apply (svw_own_old_b k1 m1 Em1 H1)|apply (svw_own_old_n k1 m1 w Hne1 Em1 H1 Hn)].
    - destruct (svw_own_old k1 m1 n1 Hne1 Em1 E1) as [Eo1 _]. rewrite Eo1 in H1.
      destruct (svw_own_old k2 m2 n2 Hne2 Em2 E2) as [Eo2 _]. rewrite Eo2 in H2.
      apply (wf_own2 s1 H k1 m1 k2 m2 w Em1 Em2 H1 H2).
  Qed.

  (* ---- fields 8, 9, 10 and the theorem ----------------------------------------------------------------------- *)
  Lemma svw_wires k tk w : aget k (tensors s') = Some tk -> In w (axes tk) -> w < next_wire s'.
  Proof.
    intros E Hw. rewrite (sv_nw _ _ _ _ _ _ _ _ _ _ _ _ _ _ _ _ V). fold b.
    assert (Hnew : forall tt, incl (axes tt) (b :: W) -> In w (axes tt) -> w < S b).
    { intros tt Hi Hin. apply Hi in Hin. destruct Hin as [<-|Hin]; [lia|]. apply svw_W_lt in Hin. lia. }
    destruct (Nat.eq_dec k U) as [->|N1].
    { rewrite (sv_tU _ _ _ _ _ _ _ _ _ _ _ _ _ _ _ _ V) in E. injection E as <-.
      apply (Hnew tU (sv_tU_axes _ _ _ _ _ _ _ _ _ _ _ _ _ _ _ _ V) Hw). }
    destruct (Nat.eq_dec k Lo) as [->|N2].
    { rewrite (sv_tL _ _ _ _ _ _ _ _ _ _ _ _ _ _ _ _ V) in E. injection E as <-.
      apply (Hnew tL (sv_tL_axes _ _ _ _ _ _ _ _ _ _ _ _ _ _ _ _ V) Hw). }
    rewrite (sv_told _ _ _ _ _ _ _ _ _ _ _ _ _ _ _ _ V k N1 N2) in E. destruct (Nat.eqb k n); [discriminate|].
    pose proof (wf_wires s1 H k tk w E Hw). unfold b. lia.
  Qed.

  Lemma svw_dims w : In w (akeys (dims s')) -> w < next_wire s'.
  Proof.
    rewrite (sv_dims _ _ _ _ _ _ _ _ _ _ _ _ _ _ _ _ V), (sv_nw _ _ _ _ _ _ _ _ _ _ _ _ _ _ _ _ V), akeys_app. intros Hw.
    apply in_app_or in Hw. destruct Hw as [Hw|[<-|[]]]; [|cbn; lia]. pose proof (wf_dims s1 H w Hw). lia.
  Qed.

  Lemma svw_acyc : exists depth : id -> nat,
    forall c cn p, aget c (nodes s') = Some cn -> parent cn = Some p -> depth p < depth c.
  Proof.
    destruct (wf_acyc s1 H) as [d Hd].
    exists (fun k => if Nat.eqb k U then 2 * d n else if Nat.eqb k Lo then 2 * d n + 1 else 2 * d k).
    pose proof (sv_UL _ _ _ _ _ _ _ _ _ _ _ _ _ _ _ _ V) as HUL.
    assert (DU : forall k, k = U -> (if Nat.eqb k U then 2 * d n else if Nat.eqb k Lo then 2 * d n + 1 else 2 * d k) = 2 * d n).
    { intros k ->. rewrite Nat.eqb_refl. reflexivity. }
    assert (DL : forall k, k = Lo -> (if Nat.eqb k U then 2 * d n else if Nat.eqb k Lo then 2 * d n + 1 else 2 * d k) = 2 * d n + 1).
    { intros k ->. destruct (Nat.eqb_spec Lo U); [congruence|]. rewrite Nat.eqb_refl. reflexivity. }
    assert (DO : forall k, k <> U -> k <> Lo -> (if Nat.eqb k U then 2 * d n else if Nat.eqb k Lo then 2 * d n + 1 else 2 * d k) = 2 * d k).
    { intros k N1 N2. destruct (Nat.eqb_spec k U); [contradiction|]. destruct (Nat.eqb_spec k Lo); [contradiction|]. reflexivity. }
    intros c cn p E Hp.
    destruct (svw_class c cn E) as [[-> ->]|[[-> ->]|(N1 & N2 & Hne & nk & Enk)]].
    - rewrite (sv_nU_par _ _ _ _ _ _ _ _ _ _ _ _ _ _ _ _ V) in Hp.
      destruct (svw_parent p Hp) as (pn & i & Epn & _ & _ & _ & Hpn & HpU & HpL & _).
      rewrite (DU U eq_refl), (DO p HpU HpL). pose proof (Hd n nd p En Hp). lia.
    - rewrite (sv_nL_par _ _ _ _ _ _ _ _ _ _ _ _ _ _ _ _ V) in Hp. injection Hp as <-.
      rewrite (DU U eq_refl), (DL Lo eq_refl). lia.
    - destruct (svw_old c nk Hne Enk) as (nk2 & E2 & _ & _ & _ & _ & _ & _ & _ & C1 & C2 & C3 & _).
      rewrite E in E2. injection E2 as <-. rewrite (DO c N1 N2).
      destruct (in_dec Nat.eq_dec c chU) as [I1|I1]; [|destruct (in_dec Nat.eq_dec c chL) as [I2|I2]].
      + destruct (C1 I1) as [Hp' Hpo]. rewrite Hp' in Hp. injection Hp as <-. rewrite (DU U eq_refl).
        pose proof (Hd c nk n Enk Hpo). lia.
      + destruct (C2 I2) as [Hp' Hpo]. rewrite Hp' in Hp. injection Hp as <-. rewrite (DL Lo eq_refl).
        pose proof (Hd c nk n Enk Hpo). lia.
      + destruct (C3 I1 I2) as [Hp' Hpo]. rewrite Hp' in Hp.
        destruct (ni_par _ _ _ (wf_node s1 H c nk Enk) p Hp) as (pn & i & Epn & _).
        assert (Hpn : p <> n) by congruence.
        destruct (svw_old_fresh p (aget_Some_keys _ _ _ Epn) Hpn) as [F1 F2].
        rewrite (DO p F1 F2). pose proof (Hd c nk p Enk Hp). lia.
  Qed.

  Theorem split_view_wf : wf s'.
  Proof.
    constructor.
    - apply (sv_nd _ _ _ _ _ _ _ _ _ _ _ _ _ _ _ _ V).
    - apply (sv_tnd _ _ _ _ _ _ _ _ _ _ _ _ _ _ _ _ V).
    - apply svw_tn.
    - apply svw_root.
    - apply svw_node.
    - apply svw_own1.
    - apply svw_own2.
    - apply svw_wires.
    - apply svw_dims.
    - apply svw_acyc.
  Qed.
End View.

(* ==================================================================================================== *)
(* Part 3: a successful split matches the view; theorems                                                  *)
(* ==================================================================================================== *)


(* ---- the four accepted configurations ------------------------------------------------------------------ *)
Lemma sp_cases nd o i : sp_asserts o i = true -> leg_ok nd o -> leg_ok nd i ->
  (ls_root i = true /\ ls_parent i = None /\ ls_root o = false /\ ls_parent o = None /\ parent nd = None) \/
  (exists ip, ls_root i = false /\ ls_parent i = Some ip /\ ls_root o = false /\ ls_parent o = None /\ parent nd = Some ip) \/
  (ls_root i = false /\ ls_parent i = None /\ ls_root o = true /\ ls_parent o = None /\ parent nd = None) \/
  (exists op, ls_root i = false /\ ls_parent i = None /\ ls_root o = false /\ ls_parent o = Some op /\ parent nd = Some op).
Proof.
  unfold sp_asserts. intros Ha (O1 & O2 & _) (I1 & I2 & _).
  destruct (ls_root i) eqn:Ri; destruct (ls_parent i) as [ip|] eqn:Pi;
  destruct (ls_root o) eqn:Ro; destruct (ls_parent o) as [op|] eqn:Po; cbn in Ha; try discriminate;
  try (specialize (I1 _ eq_refl)); try (specialize (O1 _ eq_refl)); try (specialize (I2 eq_refl)); try (specialize (O2 eq_refl));
  try congruence.
  - left. auto.
  - right. left. exists ip. auto.
  - right. right. left. auto.
  - right. right. right. exists op. auto.
Qed.

(* ---- projections of the final store ---------------------------------------------------------------------- *)
Section Final.
  Variables (s1 : store) (n : id) (nd : node) (t : sarr) (o i : legspec) (oid iid : id)
            (kind : nat) (m : mode) (bd : nat) (s' : store) (ol il : list nat) (on2 in2 : node) (l2 : list (id * node)).
  Hypothesis I : split_inv s1 n nd t o i oid iid kind m bd s' ol il on2 in2 l2.

  Let keep := Nat.eqb n oid || Nat.eqb n iid.
  Let T := aset iid (sp_it s1 t il) (aset oid (sp_ot s1 t ol) (tensors s1)).

  Lemma spf_nodes : nodes s' = if keep then l2 else adel n l2.
  Proof. rewrite (si_s' _ _ _ _ _ _ _ _ _ _ _ _ _ _ _ _ _ I). cbv zeta. fold keep. destruct keep; reflexivity. Qed.
  Lemma spf_tensors : tensors s' = if keep then T else adel n T.
  Proof. rewrite (si_s' _ _ _ _ _ _ _ _ _ _ _ _ _ _ _ _ _ I). cbv zeta. fold keep. destruct keep; reflexivity. Qed.
  Lemma spf_root : root s' = if ls_root i then Some iid else if ls_root o then Some oid else root s1.
  Proof. rewrite (si_s' _ _ _ _ _ _ _ _ _ _ _ _ _ _ _ _ _ I). cbv zeta. fold keep. destruct keep; reflexivity. Qed.
  Lemma spf_dims : dims s' = dims s1 ++ [(next_wire s1, bd)].
  Proof. rewrite (si_s' _ _ _ _ _ _ _ _ _ _ _ _ _ _ _ _ _ I). cbv zeta. fold keep. destruct keep; reflexivity. Qed.
  Lemma spf_next_wire : next_wire s' = S (next_wire s1).
  Proof. rewrite (si_s' _ _ _ _ _ _ _ _ _ _ _ _ _ _ _ _ _ I). cbv zeta. fold keep. destruct keep; reflexivity. Qed.
  Lemma spf_next_atom : next_atom s' = S (S (next_atom s1)).
  Proof. rewrite (si_s' _ _ _ _ _ _ _ _ _ _ _ _ _ _ _ _ _ I). cbv zeta. fold keep. destruct keep; reflexivity. Qed.
  Lemma spf_defs : defs s' = defs s1 ++ [sp_def s1 t ol il kind m].
  Proof. rewrite (si_s' _ _ _ _ _ _ _ _ _ _ _ _ _ _ _ _ _ I). cbv zeta. fold keep. destruct keep; reflexivity. Qed.
  Lemma spf_wdim w : wdim s' w = wdim (sp_s6 s1 t ol il oid iid kind m bd) w.
  Proof. unfold wdim. rewrite spf_dims. reflexivity. Qed.

  Lemma spf_keep_spec : keep = true <-> n = oid \/ n = iid.
  Proof. unfold keep. rewrite orb_true_iff, !Nat.eqb_eq. reflexivity. Qed.

  (* tensors *)
  Hypothesis Htnd : NoDup (akeys (tensors s1)).

  Lemma spf_T_nd : NoDup (akeys T).
  Proof. unfold T. apply NoDup_akeys_aset. apply NoDup_akeys_aset. exact Htnd. Qed.

  Lemma spf_tensors_nd : NoDup (akeys (tensors s')).
  Proof. rewrite spf_tensors. destruct keep; [apply spf_T_nd|apply NoDup_akeys_adel; apply spf_T_nd]. Qed.

  Lemma spf_tensors_aget k : aget k (tensors s') =
    if Nat.eqb k iid then Some (sp_it s1 t il) else if Nat.eqb k oid then Some (sp_ot s1 t ol)
    else if Nat.eqb k n then None else aget k (tensors s1).
  Proof.
    rewrite spf_tensors. assert (HT : aget k T = if Nat.eqb k iid then Some (sp_it s1 t il) else if Nat.eqb k oid then Some (sp_ot s1 t ol) else aget k (tensors s1)).
    { unfold T. rewrite !aget_aset. reflexivity. }
    destruct keep eqn:Ek.
    - rewrite HT. apply spf_keep_spec in Ek.
      destruct (Nat.eqb_spec k iid); [reflexivity|]. destruct (Nat.eqb_spec k oid); [reflexivity|].
      destruct (Nat.eqb_spec k n); [|reflexivity]. subst k. destruct Ek; congruence.
    - assert (Hn : n <> oid /\ n <> iid).
      { unfold keep in Ek. apply orb_false_iff in Ek. destruct Ek as [E1 E2]. apply Nat.eqb_neq in E1, E2. auto. }
      destruct Hn as [N1 N2]. rewrite (aget_adel _ _ _ spf_T_nd). rewrite HT.
      destruct (Nat.eqb_spec k n) as [->|Hne].
      + destruct (Nat.eqb_spec n iid); [contradiction|]. destruct (Nat.eqb_spec n oid); [contradiction|]. reflexivity.
      + reflexivity.
  Qed.

  (* nodes *)
  Hypothesis Hnnd : NoDup (akeys (nodes s1)).
  Let l0 := aset iid in2 (aset oid on2 (nodes s1)).

  Lemma spf_l0_nd : NoDup (akeys l0).
  Proof. unfold l0. apply NoDup_akeys_aset. apply NoDup_akeys_aset. exact Hnnd. Qed.

  Lemma spf_l0_aget k : aget k l0 = if Nat.eqb k iid then Some in2 else if Nat.eqb k oid then Some on2 else aget k (nodes s1).
  Proof. unfold l0. rewrite !aget_aset. reflexivity. Qed.

  Lemma spf_nodes_aget k : aget k (nodes s') = if keep then aget k l2 else if Nat.eqb k n then None else aget k l2.
  Proof.
    rewrite spf_nodes. destruct keep; [reflexivity|].
    destruct (si_l2 _ _ _ _ _ _ _ _ _ _ _ _ _ _ _ _ _ I) as (l1 & E1 & E2).
    assert (Hnd2 : NoDup (akeys l2)).
    { (* the renaming keeps the key lists *)
      assert (K : forall new old ns l l', replace_in_some_neighbours l new old ns = Some l' -> akeys l' = akeys l).
      { intros new old ns. induction ns as [|x ns IH]; intros l l' Hr.
        - cbn in Hr. injection Hr as <-. reflexivity.
        - rewrite sp_risn_fold in Hr. cbn [fold_left] in Hr. unfold sp_risn_step at 2 in Hr.
          destruct (aget x l) as [xn|] eqn:Ex; [|rewrite sp_risn_none in Hr; discriminate].
          destruct (replace_neighbour xn old new) as [xn'|]; [|rewrite sp_risn_none in Hr; discriminate].
          rewrite <- sp_risn_fold in Hr. rewrite (IH _ _ Hr). eapply akeys_aset_mem; eauto. }
      rewrite (K _ _ _ _ _ E2), (K _ _ _ _ _ E1). apply spf_l0_nd. }
    apply aget_adel. exact Hnd2.
  Qed.
End Final.

(* ---- from a successful split to the view ------------------------------------------------------------------ *)
Lemma sp_In_nbrs sp k : In k (find_all_neighbour_ids sp) <-> ls_parent sp = Some k \/ In k (ls_children sp).
Proof.
  unfold find_all_neighbour_ids. rewrite in_app_iff. destruct (ls_parent sp) as [p|]; cbn; split.
  - intros [[->|[]]|Hc]; auto.
  - intros [[= ->]|Hc]; auto.
  - intros [[]|Hc]; auto.
  - intros [[=]|Hc]; auto.
Qed.

Lemma sp_perm_swap01 L : 2 <= L -> Permutation (1 :: 0 :: seq 2 (L - 2)) (seq 0 L).
Proof. destruct L as [|[|L]]; [lia|lia|]. intros _. cbn. rewrite Nat.sub_0_r. apply perm_swap. Qed.
Lemma sp_perm_last M : Permutation (M :: seq 0 M) (seq 0 (S M)).
Proof. rewrite sp_seq_snoc. apply Permutation_cons_append. Qed.
Lemma sp_perm_0_last M : 1 <= M -> Permutation (0 :: M :: seq 1 (M - 1)) (seq 0 (S M)).
Proof.
  intros HM. cbn [seq]. apply perm_skip. replace M with (S (M - 1)) at 3 by lia. rewrite sp_seq_snoc.
  replace (1 + (M - 1)) with M by lia. apply Permutation_cons_append.
Qed.
Lemma sp_firstn_1 (W : list wire) : 1 <= length W -> firstn 1 W = [nth 0 W 0].
Proof. destruct W; cbn; [lia|reflexivity]. Qed.

Section Connect.
  Variables (s1 : store) (n : id) (nd : node) (t : sarr) (o i : legspec) (oid iid : id)
            (kind : nat) (m : mode) (bd : nat) (s' : store) (ol il : list nat) (on2 in2 : node) (l2 : list (id * node))
            (cO cI : list nat).
  Hypothesis H : wf s1.
  Hypothesis En : aget n (nodes s1) = Some nd.
  Hypothesis Et : aget n (tensors s1) = Some t.
  Hypothesis Hid : perm nd = seq 0 (length (axes t)).
  Hypothesis LO : leg_ok nd o.
  Hypothesis LI : leg_ok nd i.
  Hypothesis Hids : ids_ok s1 n oid iid.
  Hypothesis I : split_inv s1 n nd t o i oid iid kind m bd s' ol il on2 in2 l2.
  Hypothesis EcO : map (neighbour_index nd) (ls_children o) = map Some cO.
  Hypothesis EcI : map (neighbour_index nd) (ls_children i) = map Some cI.
  Hypothesis Eol : ol = sp_pl o ++ cO ++ ls_open o.
  Hypothesis Eil : il = sp_pl i ++ cI ++ ls_open i.

  Let W := axes t.
  Let b := next_wire s1.
  Let Hperm := si_perm _ _ _ _ _ _ _ _ _ _ _ _ _ _ _ _ _ I.
  Let Hne := si_ids _ _ _ _ _ _ _ _ _ _ _ _ _ _ _ _ _ I.

  Lemma spc_leg_lt x : In x (ol ++ il) -> x < length W.
  Proof. intros Hx. apply (Permutation_in _ Hperm) in Hx. apply in_seq in Hx. fold W in Hx. lia. Qed.

  Lemma spc_legs_NoDup : NoDup (ol ++ il).
  Proof. apply (Permutation_NoDup (Permutation_sym Hperm)). apply seq_NoDup. Qed.

  Lemma spc_cc_NoDup : NoDup (cO ++ cI).
  Proof.
    pose proof spc_legs_NoDup as Hnd. rewrite Eol, Eil in Hnd.
    apply NoDup_app_iff in Hnd. destruct Hnd as (N1 & N2 & N3).
    apply sp_NoDup_app_r in N1. apply sp_NoDup_app_l in N1.
    apply sp_NoDup_app_r in N2. apply sp_NoDup_app_l in N2.
    apply NoDup_app_iff. repeat split; auto. intros x Hx Hy. apply (N3 x).
    - apply in_or_app. right. apply in_or_app. left. exact Hx.
    - apply in_or_app. right. apply in_or_app. left. exact Hy.
  Qed.

  Lemma spc_ch_NoDup : NoDup (ls_children o ++ ls_children i).
  Proof.
    apply (NoDup_map_inv (neighbour_index nd)). rewrite map_app, EcO, EcI, <- map_app.
    apply sp_NoDup_map_Some. apply spc_cc_NoDup.
  Qed.

  Lemma spc_child c : In c (children nd) ->
    exists cn, aget c (nodes s1) = Some cn /\ parent cn = Some n /\ c <> n /\ c <> oid /\ c <> iid /\ parent nd <> Some c.
  Proof.
    intros Hc. destruct (ni_ch _ _ _ (wf_node s1 H n nd En) c Hc) as (cn & Ec & Epc).
    assert (Hcn : c <> n). { intros ->. apply (wf_not_self_parent s1 n cn H Ec Epc). }
    pose proof (aget_Some_keys _ _ _ Ec) as Hk. destruct Hids as [[->|F1] [->|F2]];
    exists cn; repeat split; auto; try (intros ->; contradiction); eapply wf_parent_not_child; eauto.
  Qed.

  Lemma spc_parent p : parent nd = Some p ->
    exists pn, aget p (nodes s1) = Some pn /\ parent pn <> Some n /\ In n (children pn) /\ p <> n /\ p <> oid /\ p <> iid /\ ~ In p (children nd).
  Proof.
    intros Hp. destruct (ni_par _ _ _ (wf_node s1 H n nd En) p Hp) as (pn & j & Epn & Hin & _).
    assert (Hpn : p <> n). { intros ->. apply (wf_not_self_parent s1 n nd H En Hp). }
    assert (Hnc : ~ In p (children nd)).
    { intros Hc. destruct (spc_child p Hc) as (_ & _ & _ & _ & _ & _ & Hx). contradiction. }
    pose proof (aget_Some_keys _ _ _ Epn) as Hk. destruct Hids as [[->|F1] [->|F2]];
    exists pn; repeat split; auto; try (intros ->; contradiction); eapply wf_parent_not_child; eauto.
  Qed.

  Lemma spc_old_fresh k nk : k <> n -> aget k (nodes s1) = Some nk -> k <> oid /\ k <> iid.
  Proof.
    intros Hk E. pose proof (aget_Some_keys _ _ _ E) as Hin.
    destruct Hids as [[->|F1] [->|F2]]; split; auto; intros ->; contradiction.
  Qed.

  (* facts about the neighbours named in a specification *)
  Lemma spc_nbr sp k : leg_ok nd sp -> In k (find_all_neighbour_ids sp) ->
    k <> n /\ k <> oid /\ k <> iid /\ exists nk, aget k (nodes s1) = Some nk.
  Proof.
    intros (L1 & _ & L3 & _) Hk. apply sp_In_nbrs in Hk. destruct Hk as [Hp|Hc].
    - destruct (spc_parent k (L1 k Hp)) as (pn & Epn & _ & _ & A & B & C & _). eauto 10.
    - destruct (spc_child k (L3 k Hc)) as (cn & Ec & _ & A & B & C & _). eauto 10.
  Qed.

  Hypothesis Hpar1 : ls_parent o = None \/ ls_parent i = None.

  Lemma spc_nbrs_NoDup : NoDup (find_all_neighbour_ids o ++ find_all_neighbour_ids i).
  Proof.
    pose proof spc_ch_NoDup as Hnd. destruct LO as (O1 & _ & O3 & _). destruct LI as (I1 & _ & I3 & _).
    unfold find_all_neighbour_ids.
    destruct (ls_parent o) as [op|] eqn:Po; destruct (ls_parent i) as [ip|] eqn:Pi; cbn [app].
    - destruct Hpar1; discriminate.
    - constructor; [|exact Hnd]. destruct (spc_parent op (O1 op eq_refl)) as (_ & _ & _ & _ & _ & _ & _ & Hx).
      intros Hin. apply in_app_or in Hin. destruct Hin as [Hin|Hin]; [apply Hx, O3, Hin|apply Hx, I3, Hin].
    - apply NoDup_app_iff in Hnd. destruct Hnd as (N1 & N2 & N3).
      destruct (spc_parent ip (I1 ip eq_refl)) as (_ & _ & _ & _ & _ & _ & _ & Hx).
      apply NoDup_app_iff. split; [exact N1|]. split.
      + constructor; [|exact N2]. intros Hin. apply Hx, I3, Hin.
      + intros x Hx1 [<-|Hx2]; [apply Hx, O3, Hx1|apply (N3 x Hx1 Hx2)].
    - exact Hnd.
  Qed.

  Lemma spc_l2 :
    (forall k, In k (find_all_neighbour_ids o) ->
       exists nk nk', aget k (nodes s1) = Some nk /\ replace_neighbour nk n oid = Some nk' /\ aget k l2 = Some nk') /\
    (forall k, In k (find_all_neighbour_ids i) ->
       exists nk nk', aget k (nodes s1) = Some nk /\ replace_neighbour nk n iid = Some nk' /\ aget k l2 = Some nk') /\
    (forall k, ~ In k (find_all_neighbour_ids o) -> ~ In k (find_all_neighbour_ids i) ->
       aget k l2 = if Nat.eqb k iid then Some in2 else if Nat.eqb k oid then Some on2 else aget k (nodes s1)).
  Proof.
    destruct (si_l2 _ _ _ _ _ _ _ _ _ _ _ _ _ _ _ _ _ I) as (l1 & E1 & E2).
    pose proof spc_nbrs_NoDup as Hnd. apply NoDup_app_iff in Hnd. destruct Hnd as (N1 & N2 & N3).
    destruct (sp_risn_spec _ _ _ _ _ E1 N1) as (_ & A2 & A3).
    destruct (sp_risn_spec _ _ _ _ _ E2 N2) as (_ & B2 & B3).
    assert (L0 : forall k, aget k (aset iid in2 (aset oid on2 (nodes s1)))
                 = if Nat.eqb k iid then Some in2 else if Nat.eqb k oid then Some on2 else aget k (nodes s1)).
    { intros k. rewrite !aget_aset. reflexivity. }
    split; [|split].
    - intros k Hk. destruct (spc_nbr o k LO Hk) as (K1 & K2 & K3 & _).
      destruct (A3 k Hk) as (xn & xn' & X1 & X2 & X3). rewrite L0 in X1.
      destruct (Nat.eqb_spec k iid); [contradiction|]. destruct (Nat.eqb_spec k oid); [contradiction|].
      exists xn, xn'. repeat split; auto. rewrite (B2 k (N3 k Hk)). exact X3.
    - intros k Hk. destruct (spc_nbr i k LI Hk) as (K1 & K2 & K3 & _).
      assert (Hno : ~ In k (find_all_neighbour_ids o)) by (intros Hx; apply (N3 k Hx Hk)).
      destruct (B3 k Hk) as (xn & xn' & X1 & X2 & X3). rewrite (A2 k Hno), L0 in X1.
      destruct (Nat.eqb_spec k iid); [contradiction|]. destruct (Nat.eqb_spec k oid); [contradiction|].
      exists xn, xn'. repeat split; auto.
    - intros k K1 K2. rewrite (B2 k K2), (A2 k K1). apply L0.
  Qed.

  Lemma spc_l2_oid : aget oid l2 = Some on2.
  Proof.
    destruct spc_l2 as (_ & _ & C). rewrite C.
    - destruct (Nat.eqb_spec oid iid); [contradiction|]. rewrite Nat.eqb_refl. reflexivity.
    - intros Hk. destruct (spc_nbr o oid LO Hk) as (_ & K & _). congruence.
    - intros Hk. destruct (spc_nbr i oid LI Hk) as (_ & K & _). congruence.
  Qed.

  Lemma spc_l2_iid : aget iid l2 = Some in2.
  Proof.
    destruct spc_l2 as (_ & _ & C). rewrite C.
    - rewrite Nat.eqb_refl. reflexivity.
    - intros Hk. destruct (spc_nbr o iid LO Hk) as (_ & _ & K & _). congruence.
    - intros Hk. destruct (spc_nbr i iid LI Hk) as (_ & _ & K & _). congruence.
  Qed.

  Lemma spc_old_generic su sl U Lo :
    leg_ok nd su -> leg_ok nd sl ->
    (forall k, In k (find_all_neighbour_ids su) ->
       exists nk nk', aget k (nodes s1) = Some nk /\ replace_neighbour nk n U = Some nk' /\ aget k l2 = Some nk') ->
    (forall k, In k (find_all_neighbour_ids sl) ->
       exists nk nk', aget k (nodes s1) = Some nk /\ replace_neighbour nk n Lo = Some nk' /\ aget k l2 = Some nk') ->
    (forall k nk, k <> n -> aget k (nodes s1) = Some nk -> ~ In k (find_all_neighbour_ids su) -> ~ In k (find_all_neighbour_ids sl) ->
       aget k l2 = Some nk) ->
    (forall k, In k (ls_children su) -> In k (ls_children sl) -> False) ->
    ls_parent sl = None -> (forall q, parent nd = Some q -> ls_parent su = Some q) ->
    forall k nk, k <> n -> aget k (nodes s1) = Some nk ->
      exists nk', aget k l2 = Some nk' /\ perm nk' = perm nk /\ shape nk' = shape nk /\
        (In k (ls_children su) -> parent nk' = Some U) /\
        (In k (ls_children sl) -> parent nk' = Some Lo) /\
        (~ In k (ls_children su) -> ~ In k (ls_children sl) -> parent nk' = parent nk) /\
        (parent nd = Some k -> children nk' = replace_first n U (children nk)) /\
        (parent nd <> Some k -> children nk' = children nk).
  Proof.
    intros (U1 & _ & U3 & _) (L1 & _ & L3 & _) HU HL Hoth Hdisj HpL HpU k nk Hkn E.
    destruct (in_dec Nat.eq_dec k (ls_children su)) as [I1|I1]; [|destruct (in_dec Nat.eq_dec k (ls_children sl)) as [I2|I2]].
    - (* a child listed in su *)
      destruct (HU k (proj2 (sp_In_nbrs su k) (or_intror I1))) as (xn & xn' & X1 & X2 & X3).
      rewrite E in X1. injection X1 as <-.
      destruct (spc_child k (U3 k I1)) as (cn & Ec & Epc & _ & _ & _ & Hpk). rewrite E in Ec. injection Ec as <-.
      destruct (sp_replace_neighbour_child _ _ _ _ Epc X2) as (R1 & R2 & R3 & R4).
      exists xn'. repeat split; auto.
      + intros Hx. exfalso. apply (Hdisj k I1 Hx).
      + intros Hx. contradiction.
      + intros Hx. contradiction.
    - (* a child listed in sl *)
      destruct (HL k (proj2 (sp_In_nbrs sl k) (or_intror I2))) as (xn & xn' & X1 & X2 & X3).
      rewrite E in X1. injection X1 as <-.
      destruct (spc_child k (L3 k I2)) as (cn & Ec & Epc & _ & _ & _ & Hpk). rewrite E in Ec. injection Ec as <-.
      destruct (sp_replace_neighbour_child _ _ _ _ Epc X2) as (R1 & R2 & R3 & R4).
      exists xn'. repeat split; auto.
      + intros Hx. contradiction.
      + intros Hx. contradiction.
      + intros Hx. contradiction.
    - destruct (option_eq_dec_id (parent nd) (Some k)) as [Ep|Ep].
      + (* the parent of n *)
        destruct (HU k (proj2 (sp_In_nbrs su k) (or_introl (HpU k Ep)))) as (xn & xn' & X1 & X2 & X3).
        rewrite E in X1. injection X1 as <-.
        destruct (spc_parent k Ep) as (pn & Epn & Hpp & _). rewrite E in Epn. injection Epn as <-.
        destruct (sp_replace_neighbour_parent _ _ _ _ Hpp X2) as (R1 & R2 & R3 & R4).
        exists xn'. repeat split; auto; intros; contradiction.
      + (* untouched *)
        exists nk. split.
        * apply (Hoth k nk Hkn E).
          -- intros Hx. apply sp_In_nbrs in Hx. destruct Hx as [Hx|Hx]; [apply Ep, U1, Hx|contradiction].
          -- intros Hx. apply sp_In_nbrs in Hx. destruct Hx as [Hx|Hx]; [congruence|contradiction].
        * repeat split; auto; intros; contradiction.
  Qed.

  (* keys and lookups of the final node dictionary *)
  Let keep := Nat.eqb n oid || Nat.eqb n iid.

  Lemma spc_nodes_old k : k <> n -> aget k (nodes s') = aget k l2.
  Proof.
    intros Hk. rewrite (spf_nodes_aget _ _ _ _ _ _ _ _ _ _ _ _ _ _ _ _ _ I (wf_nd s1 H)).
    destruct (Nat.eqb n oid || Nat.eqb n iid); [reflexivity|]. destruct (Nat.eqb_spec k n); [contradiction|reflexivity].
  Qed.

  Lemma spc_nodes_oid : aget oid (nodes s') = Some on2.
  Proof.
    rewrite (spf_nodes_aget _ _ _ _ _ _ _ _ _ _ _ _ _ _ _ _ _ I (wf_nd s1 H)). rewrite spc_l2_oid.
    destruct (Nat.eqb_spec n oid) as [|N1]; [reflexivity|]. cbn [orb].
    destruct (Nat.eqb n iid); [reflexivity|]. destruct (Nat.eqb_spec oid n); [congruence|reflexivity].
  Qed.

  Lemma spc_nodes_iid : aget iid (nodes s') = Some in2.
  Proof.
    rewrite (spf_nodes_aget _ _ _ _ _ _ _ _ _ _ _ _ _ _ _ _ _ I (wf_nd s1 H)). rewrite spc_l2_iid.
    destruct (Nat.eqb_spec n iid) as [|N1]; [rewrite orb_true_r; reflexivity|]. rewrite orb_false_r.
    destruct (Nat.eqb n oid); [reflexivity|]. destruct (Nat.eqb_spec iid n); [congruence|reflexivity].
  Qed.

  Lemma spc_nodes_nd : NoDup (akeys (nodes s')).
  Proof.
    assert (Hnd2 : NoDup (akeys l2)).
    { destruct (si_l2 _ _ _ _ _ _ _ _ _ _ _ _ _ _ _ _ _ I) as (l1 & E1 & E2).
      pose proof spc_nbrs_NoDup as Hnd. apply NoDup_app_iff in Hnd. destruct Hnd as (N1 & N2 & _).
      destruct (sp_risn_spec _ _ _ _ _ E1 N1) as (K1 & _). destruct (sp_risn_spec _ _ _ _ _ E2 N2) as (K2 & _).
      rewrite K2, K1. apply NoDup_akeys_aset. apply NoDup_akeys_aset. apply (wf_nd s1 H). }
    rewrite (spf_nodes _ _ _ _ _ _ _ _ _ _ _ _ _ _ _ _ _ I).
    destruct (Nat.eqb n oid || Nat.eqb n iid); [exact Hnd2|apply NoDup_akeys_adel; exact Hnd2].
  Qed.

  Lemma spc_keys k : In k (akeys (nodes s')) -> k = iid \/ k = oid \/ (k <> n /\ In k (akeys (nodes s1))).
  Proof.
    intros Hk. destruct (Nat.eq_dec k iid) as [|N1]; [auto|]. destruct (Nat.eq_dec k oid) as [|N2]; [auto|]. right. right.
    apply keys_aget in Hk. destruct Hk as [nk' E].
    rewrite (spf_nodes_aget _ _ _ _ _ _ _ _ _ _ _ _ _ _ _ _ _ I (wf_nd s1 H)) in E.
    assert (Hkn : k <> n).
    { intros ->. destruct (Nat.eqb_spec n oid); [congruence|]. destruct (Nat.eqb_spec n iid); [congruence|].
      cbn in E. rewrite Nat.eqb_refl in E. discriminate. }
    split; [exact Hkn|].
    assert (E2 : aget k l2 = Some nk').
    { destruct (Nat.eqb n oid || Nat.eqb n iid); [exact E|]. destruct (Nat.eqb_spec k n); [contradiction|exact E]. }
    (* the key list of l2 is that of l0 *)
    destruct (si_l2 _ _ _ _ _ _ _ _ _ _ _ _ _ _ _ _ _ I) as (l1 & E1 & E2').
    pose proof spc_nbrs_NoDup as Hnd. apply NoDup_app_iff in Hnd. destruct Hnd as (M1 & M2 & _).
    destruct (sp_risn_spec _ _ _ _ _ E1 M1) as (K1 & _). destruct (sp_risn_spec _ _ _ _ _ E2' M2) as (K2 & _).
    apply aget_Some_keys in E2. rewrite K2, K1 in E2.
    apply keys_aget in E2. destruct E2 as [x Ex]. rewrite !aget_aset in Ex.
    destruct (Nat.eqb_spec k iid); [contradiction|]. destruct (Nat.eqb_spec k oid); [contradiction|].
    eapply aget_Some_keys; eauto.
  Qed.

  (* shapes of the new nodes *)
  Lemma spc_wdim_map l : map (wdim (sp_s6 s1 t ol il oid iid kind m bd)) l = map (wdim s') l.
  Proof. apply map_ext. intros w. symmetry. apply (spf_wdim _ _ _ _ _ _ _ _ _ _ _ _ _ _ _ _ _ I). Qed.

  Lemma spc_len_shp_i : length (map (wdim (sp_s6 s1 t ol il oid iid kind m bd)) (axes (sp_it s1 t il))) = S (length il).
  Proof. rewrite map_length. cbn. rewrite permute_length. reflexivity. Qed.
  Lemma spc_len_shp_o : length (map (wdim (sp_s6 s1 t ol il oid iid kind m bd)) (axes (sp_ot s1 t ol))) = S (length ol).
  Proof. rewrite map_length. cbn. rewrite app_length, permute_length. cbn. lia. Qed.

  Lemma spc_it_incl : incl (axes (sp_it s1 t il)) (next_wire s1 :: axes t).
  Proof.
    cbn. intros w [<-|Hw]; [left; reflexivity|right]. apply (permute_incl 0 il (axes t)); [|exact Hw].
    intros x Hx. apply spc_leg_lt. apply in_or_app. right. exact Hx.
  Qed.
  Lemma spc_ot_incl : incl (axes (sp_ot s1 t ol)) (next_wire s1 :: axes t).
  Proof.
    cbn. intros w Hw. apply in_app_or in Hw. destruct Hw as [Hw|[<-|[]]]; [right|left; reflexivity].
    apply (permute_incl 0 ol (axes t)); [|exact Hw]. intros x Hx. apply spc_leg_lt. apply in_or_app. left. exact Hx.
  Qed.

  Lemma spc_len_cO : length cO = length (ls_children o).
  Proof. pose proof (f_equal (@length _) EcO) as E. rewrite !map_length in E. symmetry. exact E. Qed.
  Lemma spc_len_cI : length cI = length (ls_children i).
  Proof. pose proof (f_equal (@length _) EcI) as E. rewrite !map_length in E. symmetry. exact E. Qed.

  (* --- the four final node records -------------------------------------------------------------------------- *)
  Lemma spc_in_upper :
    (ls_root i = true /\ ls_parent i = None /\ parent nd = None) \/
    (exists ip, ls_root i = false /\ ls_parent i = Some ip /\ parent nd = Some ip) ->
    parent in2 = parent nd /\ children in2 = oid :: ls_children i /\
    laxes in2 (sp_it s1 t il) = firstn (nparents nd) W ++ b :: permute 0 (cI ++ ls_open i) W /\
    Permutation (perm in2) (seq 0 (length (shape in2))) /\ shape in2 = map (wdim s') (axes (sp_it s1 t il)).
  Proof.
    intros Hc. destruct (si_in _ _ _ _ _ _ _ _ _ _ _ _ _ _ _ _ _ I) as (in1 & E1 & E2).
    destruct Hc as [(Hr & Hp & Hnd)|(ip & Hr & Hp & Hnd)].
    - destruct (sp_in_node_root _ _ _ _ _ Hr Hp E1 E2) as (P1 & P2 & P3 & P4 & P5).
      rewrite spc_len_shp_i in P3. split; [congruence|]. split; [exact P2|]. split; [|split].
      + unfold laxes. rewrite P3. unfold nparents. rewrite Hnd. cbn [firstn app].
        assert (Eil' : il = cI ++ ls_open i) by (rewrite Eil; unfold sp_pl; rewrite Hp; reflexivity).
        rewrite <- Eil'. apply sp_permute_seq_all. cbn. rewrite permute_length. reflexivity.
      + rewrite P3, P4, spc_len_shp_i. reflexivity.
      + rewrite P4. apply spc_wdim_map.
    - destruct (sp_in_node_parent _ _ _ _ _ _ Hr Hp E1 E2) as (P1 & P2 & P3 & P4 & P5).
      rewrite spc_len_shp_i in P3, P5.
      assert (Eil' : il = 0 :: cI ++ ls_open i) by (rewrite Eil; unfold sp_pl; rewrite Hp; reflexivity).
      assert (HW : 1 <= length W).
      { assert (0 < length W); [|lia]. apply spc_leg_lt. apply in_or_app. right. rewrite Eil'. left. reflexivity. }
      split; [congruence|]. split; [exact P2|]. split; [|split].
      + unfold laxes. rewrite P3. unfold nparents. rewrite Hnd. rewrite (sp_firstn_1 W HW). cbn [app].
        cbn [sp_it axes]. rewrite Eil'. rewrite sp_permute_cons. fold W.
        replace (S (length (0 :: cI ++ ls_open i)) - 2) with (length (permute 0 (cI ++ ls_open i) W))
          by (rewrite permute_length; cbn [length]; lia).
        apply sp_permute_swap01.
      + rewrite P3, P4, spc_len_shp_i. apply sp_perm_swap01. lia.
      + rewrite P4. apply spc_wdim_map.
  Qed.

  Lemma spc_in_lower : ls_root i = false -> ls_parent i = None ->
    parent in2 = Some oid /\ children in2 = ls_children i /\
    laxes in2 (sp_it s1 t il) = b :: permute 0 (cI ++ ls_open i) W /\
    Permutation (perm in2) (seq 0 (length (shape in2))) /\ shape in2 = map (wdim s') (axes (sp_it s1 t il)).
  Proof.
    intros Hr Hp. destruct (si_in _ _ _ _ _ _ _ _ _ _ _ _ _ _ _ _ _ I) as (in1 & E1 & E2).
    destruct (sp_in_node_below _ _ _ _ _ Hr Hp E1 E2) as (P1 & P2 & P3 & P4 & P5).
    rewrite spc_len_shp_i in P3. split; [exact P1|]. split; [exact P2|]. split; [|split].
    - unfold laxes. rewrite P3.
      assert (Eil' : il = cI ++ ls_open i) by (rewrite Eil; unfold sp_pl; rewrite Hp; reflexivity).
      rewrite <- Eil'. apply sp_permute_seq_all. cbn. rewrite permute_length. reflexivity.
    - rewrite P3, P4, spc_len_shp_i. reflexivity.
    - rewrite P4. apply spc_wdim_map.
  Qed.

  Lemma spc_out_lower : sp_in_above i = true -> ls_root o = false -> ls_parent o = None ->
    parent on2 = Some iid /\ children on2 = ls_children o /\
    laxes on2 (sp_ot s1 t ol) = b :: permute 0 (cO ++ ls_open o) W /\
    Permutation (perm on2) (seq 0 (length (shape on2))) /\ shape on2 = map (wdim s') (axes (sp_ot s1 t ol)).
  Proof.
    intros Ha Hr Hp. destruct (si_out _ _ _ _ _ _ _ _ _ _ _ _ _ _ _ _ _ I) as (on1 & E1 & E2).
    destruct (sp_out_node_below _ _ _ _ _ _ (length ol) spc_len_shp_o Ha Hr Hp E1 E2) as (P1 & P2 & P3 & P4 & P5).
    split; [exact P1|]. split; [exact P2|]. split; [|split].
    - unfold laxes. rewrite P3.
      assert (Eol' : ol = cO ++ ls_open o) by (rewrite Eol; unfold sp_pl; rewrite Hp; reflexivity).
      rewrite <- Eol'. cbn [sp_ot axes]. fold W b.
      replace (length ol) with (length (permute 0 ol W)) by apply permute_length. apply sp_permute_last_first.
    - rewrite P3, P4, spc_len_shp_o. apply sp_perm_last.
    - rewrite P4. apply spc_wdim_map.
  Qed.

  Lemma spc_out_upper : sp_in_above i = false ->
    (ls_root o = true /\ ls_parent o = None /\ parent nd = None) \/
    (exists op, ls_root o = false /\ ls_parent o = Some op /\ parent nd = Some op) ->
    parent on2 = parent nd /\ children on2 = iid :: ls_children o /\
    laxes on2 (sp_ot s1 t ol) = firstn (nparents nd) W ++ b :: permute 0 (cO ++ ls_open o) W /\
    Permutation (perm on2) (seq 0 (length (shape on2))) /\ shape on2 = map (wdim s') (axes (sp_ot s1 t ol)).
  Proof.
    intros Ha Hc. destruct (si_out _ _ _ _ _ _ _ _ _ _ _ _ _ _ _ _ _ I) as (on1 & E1 & E2).
    destruct Hc as [(Hr & Hp & Hnd)|(op & Hr & Hp & Hnd)].
    - assert (Eol' : ol = cO ++ ls_open o) by (rewrite Eol; unfold sp_pl; rewrite Hp; reflexivity).
      assert (Hk : length (ls_children o) <= length ol) by (rewrite Eol', app_length, spc_len_cO; lia).
      destruct (sp_out_node_root _ _ _ _ _ _ (length ol) spc_len_shp_o Ha Hr Hp Hk E1 E2) as (P1 & P2 & P3 & P4).
      split; [congruence|]. split; [exact P2|]. split; [|split].
      + unfold laxes. rewrite P3. unfold nparents. rewrite Hnd. cbn [firstn app].
        rewrite <- Eol'. cbn [sp_ot axes]. fold W b.
        replace (length ol) with (length (permute 0 ol W)) by apply permute_length. apply sp_permute_last_first.
      + rewrite P3, P4, spc_len_shp_o. apply sp_perm_last.
      + rewrite P4. apply spc_wdim_map.
    - assert (Eol' : ol = 0 :: cO ++ ls_open o) by (rewrite Eol; unfold sp_pl; rewrite Hp; reflexivity).
      assert (Hk : 1 + length (ls_children o) <= length ol) by (rewrite Eol'; cbn [length]; rewrite app_length, spc_len_cO; lia).
      destruct (sp_out_node_parent _ _ _ _ _ _ _ (length ol) spc_len_shp_o Ha Hr Hp Hk E1 E2) as (P1 & P2 & P3 & P4).
      assert (HW : 1 <= length W).
      { assert (0 < length W); [|lia]. apply spc_leg_lt. apply in_or_app. left. rewrite Eol'. left. reflexivity. }
      split; [congruence|]. split; [exact P2|]. split; [|split].
      + unfold laxes. rewrite P3. unfold nparents. rewrite Hnd. rewrite (sp_firstn_1 W HW). cbn [app].
        cbn [sp_ot axes]. rewrite Eol'. rewrite sp_permute_cons. fold W b. cbn [length].
        replace (S (length (cO ++ ls_open o)) - 1) with (length (cO ++ ls_open o)) by lia.
        replace (length (cO ++ ls_open o)) with (length (permute 0 (cO ++ ls_open o) W)) by apply permute_length.
        apply sp_permute_0_last.
      + rewrite P3, P4, spc_len_shp_o. apply sp_perm_0_last. lia.
      + rewrite P4. apply spc_wdim_map.
  Qed.

  Lemma spc_old_view su sl U Lo :
    leg_ok nd su -> leg_ok nd sl ->
    (forall k, In k (find_all_neighbour_ids su) ->
       exists nk nk', aget k (nodes s1) = Some nk /\ replace_neighbour nk n U = Some nk' /\ aget k l2 = Some nk') ->
    (forall k, In k (find_all_neighbour_ids sl) ->
       exists nk nk', aget k (nodes s1) = Some nk /\ replace_neighbour nk n Lo = Some nk' /\ aget k l2 = Some nk') ->
    (forall k, In k (ls_children su) -> In k (ls_children sl) -> False) ->
    ls_parent sl = None -> (forall q, parent nd = Some q -> ls_parent su = Some q) ->
    (find_all_neighbour_ids su = find_all_neighbour_ids o /\ find_all_neighbour_ids sl = find_all_neighbour_ids i \/
     find_all_neighbour_ids su = find_all_neighbour_ids i /\ find_all_neighbour_ids sl = find_all_neighbour_ids o) ->
    forall k nk, k <> n -> aget k (nodes s1) = Some nk ->
      exists nk', aget k (nodes s') = Some nk' /\ perm nk' = perm nk /\ shape nk' = shape nk /\
        (In k (ls_children su) -> parent nk' = Some U) /\
        (In k (ls_children sl) -> parent nk' = Some Lo) /\
        (~ In k (ls_children su) -> ~ In k (ls_children sl) -> parent nk' = parent nk) /\
        (parent nd = Some k -> children nk' = replace_first n U (children nk)) /\
        (parent nd <> Some k -> children nk' = children nk).
  Proof.
    intros LU LL HU HL Hdisj HpL HpU Hnb k nk Hkn E. rewrite (spc_nodes_old k Hkn).
    apply (spc_old_generic su sl U Lo LU LL HU HL); auto.
    intros k0 nk0 Hk0 E0 N1 N2. destruct spc_l2 as (_ & _ & C).
    destruct (spc_old_fresh k0 nk0 Hk0 E0) as [F1 F2]. rewrite C.
    - destruct (Nat.eqb_spec k0 iid); [contradiction|]. destruct (Nat.eqb_spec k0 oid); [contradiction|]. exact E0.
    - destruct Hnb as [[<- _]|[_ <-]]; assumption.
    - destruct Hnb as [[_ <-]|[<- _]]; assumption.
  Qed.

  Lemma spc_ch_disj k : In k (ls_children o) -> In k (ls_children i) -> False.
  Proof. pose proof spc_ch_NoDup as Hnd. apply NoDup_app_iff in Hnd. destruct Hnd as (_ & _ & Hd). apply Hd. Qed.

  Lemma spc_tens_iid : aget iid (tensors s') = Some (sp_it s1 t il).
  Proof. rewrite (spf_tensors_aget _ _ _ _ _ _ _ _ _ _ _ _ _ _ _ _ _ I (wf_tnd s1 H)). rewrite Nat.eqb_refl. reflexivity. Qed.
  Lemma spc_tens_oid : aget oid (tensors s') = Some (sp_ot s1 t ol).
  Proof.
    rewrite (spf_tensors_aget _ _ _ _ _ _ _ _ _ _ _ _ _ _ _ _ _ I (wf_tnd s1 H)).
    destruct (Nat.eqb_spec oid iid); [contradiction|]. rewrite Nat.eqb_refl. reflexivity.
  Qed.
  Lemma spc_tens_old k : k <> iid -> k <> oid -> aget k (tensors s') = if Nat.eqb k n then None else aget k (tensors s1).
  Proof.
    intros N1 N2. rewrite (spf_tensors_aget _ _ _ _ _ _ _ _ _ _ _ _ _ _ _ _ _ I (wf_tnd s1 H)).
    destruct (Nat.eqb_spec k iid); [contradiction|]. destruct (Nat.eqb_spec k oid); [contradiction|]. reflexivity.
  Qed.

  (* case A: in is the upper node *)
  Lemma spc_view_A :
    ls_root o = false -> ls_parent o = None ->
    (ls_root i = true /\ ls_parent i = None /\ parent nd = None) \/
    (exists ip, ls_root i = false /\ ls_parent i = Some ip /\ parent nd = Some ip) ->
    split_view s1 s' n nd t iid oid i o cI cO in2 on2 (sp_it s1 t il) (sp_ot s1 t ol) bd.
  Proof.
    intros Ro Po Hc.
    assert (Ha : sp_in_above i = true).
    { unfold sp_in_above. destruct Hc as [(-> & _)|(ip & _ & -> & _)]; [reflexivity|apply orb_true_r]. }
    destruct (spc_in_upper Hc) as (U1 & U2 & U3 & U4 & U5).
    destruct (spc_out_lower Ha Ro Po) as (L1 & L2 & L3 & L4 & L5).
    destruct spc_l2 as (A & B & C).
    assert (Hv : seq 0 (nparents nd) = sp_pl i /\ (forall q, parent nd = Some q -> ls_parent i = Some q) /\
                 root s' = match parent nd with None => Some iid | Some _ => root s1 end).
    { rewrite (spf_root _ _ _ _ _ _ _ _ _ _ _ _ _ _ _ _ _ I). unfold nparents, sp_pl.
      destruct Hc as [(Ri & Pi & Pn)|(ip & Ri & Pi & Pn)]; rewrite Ri, Pi, Pn; [|rewrite Ro]; repeat split; auto; intros q [=]; congruence. }
    destruct Hv as (Hv & Hpq & Hroot).
    destruct LO as (O1 & O2 & O3 & O4). destruct LI as (I1 & I2 & I3 & I4).
    constructor.
    - exact En.
    - exact Et.
    - exact Hid.
    - intros E. apply Hne. symmetry. exact E.
    - exact (proj2 Hids).
    - exact (proj1 Hids).
    - exact EcI.
    - exact EcO.
    - exact I3.
    - exact O3.
    - exact I4.
    - exact O4.
    - rewrite Hv. rewrite app_assoc. rewrite <- Eil.
      replace (cO ++ ls_open o) with ol by (rewrite Eol; unfold sp_pl; rewrite Po; reflexivity).
      rewrite <- Hperm. apply Permutation_app_comm.
    - apply spc_nodes_iid.
    - exact U1.
    - exact U2.
    - exact U3.
    - exact U4.
    - exact U5.
    - apply spc_it_incl.
    - apply spc_nodes_oid.
    - exact L1.
    - exact L2.
    - exact L3.
    - exact L4.
    - exact L5.
    - apply spc_ot_incl.
    - apply (spc_old_view i o iid oid); auto; try (repeat split; assumption).
      intros k K1 K2. apply (spc_ch_disj k K2 K1).
    - apply spc_keys.
    - apply spc_nodes_nd.
    - apply spc_tens_iid.
    - apply spc_tens_oid.
    - apply spc_tens_old.
    - apply (spf_tensors_nd _ _ _ _ _ _ _ _ _ _ _ _ _ _ _ _ _ I (wf_tnd s1 H)).
    - exact Hroot.
    - apply (spf_dims _ _ _ _ _ _ _ _ _ _ _ _ _ _ _ _ _ I).
    - apply (spf_next_wire _ _ _ _ _ _ _ _ _ _ _ _ _ _ _ _ _ I).
  Qed.

  (* case B: out is the upper node *)
  Lemma spc_view_B :
    ls_root i = false -> ls_parent i = None ->
    (ls_root o = true /\ ls_parent o = None /\ parent nd = None) \/
    (exists op, ls_root o = false /\ ls_parent o = Some op /\ parent nd = Some op) ->
    split_view s1 s' n nd t oid iid o i cO cI on2 in2 (sp_ot s1 t ol) (sp_it s1 t il) bd.
  Proof.
    intros Ri Pi Hc.
    assert (Ha : sp_in_above i = false) by (unfold sp_in_above; rewrite Ri, Pi; reflexivity).
    destruct (spc_out_upper Ha Hc) as (U1 & U2 & U3 & U4 & U5).
    destruct (spc_in_lower Ri Pi) as (L1 & L2 & L3 & L4 & L5).
    destruct spc_l2 as (A & B & C).
    assert (Hv : seq 0 (nparents nd) = sp_pl o /\ (forall q, parent nd = Some q -> ls_parent o = Some q) /\
                 root s' = match parent nd with None => Some oid | Some _ => root s1 end).
    { rewrite (spf_root _ _ _ _ _ _ _ _ _ _ _ _ _ _ _ _ _ I). unfold nparents, sp_pl. rewrite Ri.
      destruct Hc as [(Ro & Po & Pn)|(op & Ro & Po & Pn)]; rewrite Ro, Po, Pn; repeat split; auto; intros q [=]; congruence. }
    destruct Hv as (Hv & Hpq & Hroot).
    destruct LO as (O1 & O2 & O3 & O4). destruct LI as (I1 & I2 & I3 & I4).
    constructor.
    - exact En.
    - exact Et.
    - exact Hid.
    - exact Hne.
    - exact (proj1 Hids).
    - exact (proj2 Hids).
    - exact EcO.
    - exact EcI.
    - exact O3.
    - exact I3.
    - exact O4.
    - exact I4.
    - rewrite Hv. rewrite app_assoc. rewrite <- Eol.
      replace (cI ++ ls_open i) with il by (rewrite Eil; unfold sp_pl; rewrite Pi; reflexivity).
      exact Hperm.
    - apply spc_nodes_oid.
    - exact U1.
    - exact U2.
    - exact U3.
    - exact U4.
    - exact U5.
    - apply spc_ot_incl.
    - apply spc_nodes_iid.
    - exact L1.
    - exact L2.
    - exact L3.
    - exact L4.
    - exact L5.
    - apply spc_it_incl.
    - apply (spc_old_view o i oid iid); auto; try (repeat split; assumption); try apply spc_ch_disj.
    - intros k Hk. destruct (spc_keys k Hk) as [K|[K|K]]; auto.
    - apply spc_nodes_nd.
    - apply spc_tens_oid.
    - apply spc_tens_iid.
    - intros k K1 K2. apply spc_tens_old; assumption.
    - apply (spf_tensors_nd _ _ _ _ _ _ _ _ _ _ _ _ _ _ _ _ _ I (wf_tnd s1 H)).
    - exact Hroot.
    - apply (spf_dims _ _ _ _ _ _ _ _ _ _ _ _ _ _ _ _ _ I).
    - apply (spf_next_wire _ _ _ _ _ _ _ _ _ _ _ _ _ _ _ _ _ I).
  Qed.
End Connect.

(* ---- a successful split matches the view ------------------------------------------------------------------- *)
Theorem split_inv_view s1 n nd t o i oid iid kind m bd s' ol il on2 in2 l2 :
  wf s1 -> aget n (nodes s1) = Some nd -> aget n (tensors s1) = Some t -> perm nd = seq 0 (length (axes t)) ->
  leg_ok nd o -> leg_ok nd i -> ids_ok s1 n oid iid ->
  split_inv s1 n nd t o i oid iid kind m bd s' ol il on2 in2 l2 ->
  exists cO cI,
    ol = sp_pl o ++ cO ++ ls_open o /\ il = sp_pl i ++ cI ++ ls_open i /\
    ((sp_in_above i = true /\ split_view s1 s' n nd t iid oid i o cI cO in2 on2 (sp_it s1 t il) (sp_ot s1 t ol) bd) \/
     (sp_in_above i = false /\ split_view s1 s' n nd t oid iid o i cO cI on2 in2 (sp_ot s1 t ol) (sp_it s1 t il) bd)).
Proof.
  intros H En Et Hid LO LI Hids I.
  destruct (sp_flv_inv _ _ _ (si_ol _ _ _ _ _ _ _ _ _ _ _ _ _ _ _ _ _ I)) as (cO & EcO & Eol & _).
  destruct (sp_flv_inv _ _ _ (si_il _ _ _ _ _ _ _ _ _ _ _ _ _ _ _ _ _ I)) as (cI & EcI & Eil & _).
  exists cO, cI. split; [exact Eol|]. split; [exact Eil|].
  destruct (sp_cases nd o i (si_asserts _ _ _ _ _ _ _ _ _ _ _ _ _ _ _ _ _ I) LO LI)
    as [(Ri & Pi & Ro & Po & Pn)|[(ip & Ri & Pi & Ro & Po & Pn)|[(Ri & Pi & Ro & Po & Pn)|(op & Ri & Pi & Ro & Po & Pn)]]].
  - left. split; [unfold sp_in_above; rewrite Ri; reflexivity|].
    apply (spc_view_A _ _ _ _ _ _ _ _ _ _ _ _ _ _ _ _ _ cO cI H En Et Hid LO LI Hids I EcO EcI Eol Eil (or_introl Po) Ro Po).
    left. auto.
  - left. split; [unfold sp_in_above; rewrite Pi; apply orb_true_r|].
    apply (spc_view_A _ _ _ _ _ _ _ _ _ _ _ _ _ _ _ _ _ cO cI H En Et Hid LO LI Hids I EcO EcI Eol Eil (or_introl Po) Ro Po).
    right. exists ip. auto.
  - right. split; [unfold sp_in_above; rewrite Ri, Pi; reflexivity|].
    apply (spc_view_B _ _ _ _ _ _ _ _ _ _ _ _ _ _ _ _ _ cO cI H En Et Hid LO LI Hids I EcO EcI Eol Eil (or_intror Pi) Ri Pi).
    left. auto.
  - right. split; [unfold sp_in_above; rewrite Ri, Pi; reflexivity|].
    apply (spc_view_B _ _ _ _ _ _ _ _ _ _ _ _ _ _ _ _ _ cO cI H En Et Hid LO LI Hids I EcO EcI Eol Eil (or_intror Pi) Ri Pi).
    right. exists op. auto.
Qed.

(* transfer of the side conditions through the access *)
Lemma leg_ok_reset nd sp : leg_ok nd sp -> leg_ok (reset_permutation nd) sp.
Proof. unfold leg_ok, reset_permutation, nvirt, nparents. cbn. auto. Qed.

Lemma split_access_facts s n s1 nd t :
  wf s -> access s n = Some (s1, nd, t) ->
  exists nd0 t0, aget n (nodes s) = Some nd0 /\ aget n (tensors s) = Some t0 /\ nd = reset_permutation nd0 /\
                 t = s_transpose (perm nd0) t0 /\
                 wf s1 /\ aget n (nodes s1) = Some nd /\ aget n (tensors s1) = Some t /\
                 perm nd = seq 0 (length (axes t)) /\ akeys (nodes s1) = akeys (nodes s) /\
                 axes t = lax s n nd0 /\ tens s n = t0.
Proof.
  intros H Ha. pose proof (access_preserves_wf _ _ _ _ _ H Ha) as H1.
  destruct (access_keys _ _ _ _ _ Ha) as (K1 & _).
  destruct (access_inv _ _ _ _ _ Ha) as (nd0 & t0 & En & Et & -> & -> & ->).
  exists nd0, t0. split; [exact En|]. split; [exact Et|]. split; [reflexivity|]. split; [reflexivity|].
  split; [exact H1|]. split; [cbn; apply aget_aset_same|]. split; [cbn; apply aget_aset_same|].
  split; [cbn; rewrite permute_length; reflexivity|]. split; [exact K1|].
  split; [unfold lax, laxes; rewrite (tens_aget _ _ _ Et); reflexivity|apply tens_aget; exact Et].
Qed.

Theorem split_preserves_wf s n o i oid iid kind m rbond s' :
  wf s -> split_nodes s n o i oid iid kind m rbond = Some s' -> spec_ok s n o i -> ids_ok s n oid iid -> wf s'.
Proof.
  intros H Hs Hspec Hids.
  destruct (split_nodes_inv _ _ _ _ _ _ _ _ _ _ Hs) as (s1 & nd & t & ol & il & on2 & in2 & l2 & bd & Ha & _ & I).
  destruct (split_access_facts _ _ _ _ _ H Ha) as (nd0 & t0 & En0 & Et0 & End & Etr & H1 & En & Et & Hid & Hk & _).
  destruct (Hspec nd0 En0) as [LO LI].
  assert (LO' : leg_ok nd o) by (rewrite End; apply leg_ok_reset; exact LO).
  assert (LI' : leg_ok nd i) by (rewrite End; apply leg_ok_reset; exact LI).
  assert (Hids' : ids_ok s1 n oid iid) by (unfold ids_ok; rewrite Hk; exact Hids).
  destruct (split_inv_view _ _ _ _ _ _ _ _ _ _ _ _ _ _ _ _ _ H1 En Et Hid LO' LI' Hids' I) as (cO & cI & _ & _ & [[_ V]|[_ V]]);
    apply (split_view_wf _ _ _ _ _ _ _ _ _ _ _ _ _ _ _ _ H1 V).
Qed.

Theorem split_preserves_wfb_bool s n o i oid iid kind m rbond s' :
  wfb s = true -> split_nodes s n o i oid iid kind m rbond = Some s' ->
  spec_okb s n o i = true -> ids_okb s n oid iid = true -> wfb s' = true.
Proof.
  intros H Hs Hspec Hids. apply wfb_iff. apply wfb_iff in H. apply spec_okb_spec in Hspec. apply ids_okb_spec in Hids.
  eapply split_preserves_wf; eauto.
Qed.

(* the same with the Prop-level side conditions *)
Theorem split_preserves_wfb s n o i oid iid kind m rbond s' :
  wfb s = true -> split_nodes s n o i oid iid kind m rbond = Some s' ->
  spec_ok s n o i -> ids_ok s n oid iid -> wfb s' = true.
Proof. intros H Hs Hspec Hids. apply wfb_iff. apply wfb_iff in H. eapply split_preserves_wf; eauto. Qed.

(* ---- the truthfulness of the specifications is needed --------------------------------------------------------- *)
(* a root with two children; the out specification claims that child 1 is the parent *)
Definition sp_cex_store : store :=
  fst (run empty_store [AddRoot 0 [2; 3; 2]; AddChild 1 [2; 2] 1 0 0; AddChild 2 [3; 2] 0 0 1]).
Definition sp_cex_o : legspec := {| ls_parent := Some 1; ls_children := []; ls_open := []; ls_root := false |}.
Definition sp_cex_i : legspec := {| ls_parent := None; ls_children := [2]; ls_open := [2]; ls_root := false |}.

Example split_bad_spec_counterexample :
  wfb sp_cex_store = true /\ ids_okb sp_cex_store 0 5 6 = true /\ spec_okb sp_cex_store 0 sp_cex_o sp_cex_i = false /\
  exists s', split_nodes sp_cex_store 0 sp_cex_o sp_cex_i 5 6 0 Reduced 0 = Some s' /\ wfb s' = false.
Proof.
  split; [vm_compute; reflexivity|]. split; [vm_compute; reflexivity|]. split; [vm_compute; reflexivity|].
  destruct (split_nodes sp_cex_store 0 sp_cex_o sp_cex_i 5 6 0 Reduced 0) as [s'|] eqn:E.
  - exists s'. split; [reflexivity|]. revert E. vm_compute. intros [= <-]. reflexivity.
  - exfalso. revert E. vm_compute. discriminate.
Qed.

(* a second one: a non-root node declared root (ls_root o together with ls_parent o) *)
Example split_bad_spec_counterexample2 :
  exists s', split_nodes sp_cex_store 1 {| ls_parent := Some 0; ls_children := []; ls_open := []; ls_root := true |}
                         {| ls_parent := None; ls_children := []; ls_open := [1]; ls_root := false |} 5 6 0 Reduced 0 = Some s'
             /\ wfb s' = false.
Proof.
  match goal with |- exists s', ?x = Some s' /\ _ => destruct x as [s'|] eqn:E end.
  - exists s'. split; [reflexivity|]. revert E. vm_compute. intros [= <-]. reflexivity.
  - exfalso. revert E. vm_compute. discriminate.
Qed.

(* identifier freshness is needed as well: the model (like the code) does not check it; reusing the
   identifier of another existing node (here 2) overwrites that node *)
Example split_bad_ids_counterexample :
  spec_okb sp_cex_store 1 {| ls_parent := None; ls_children := []; ls_open := [1]; ls_root := false |}
                          {| ls_parent := Some 0; ls_children := []; ls_open := []; ls_root := false |} = true /\
  ids_okb sp_cex_store 1 2 6 = false /\
  exists s', split_nodes sp_cex_store 1 {| ls_parent := None; ls_children := []; ls_open := [1]; ls_root := false |}
                         {| ls_parent := Some 0; ls_children := []; ls_open := []; ls_root := false |} 2 6 1 Reduced 0 = Some s'
             /\ wfb s' = false.
Proof.
  split; [vm_compute; reflexivity|]. split; [vm_compute; reflexivity|].
  match goal with |- exists s', ?x = Some s' /\ _ => destruct x as [s'|] eqn:E end.
  - exists s'. split; [reflexivity|]. revert E. vm_compute. intros [= <-]. reflexivity.
  - exfalso. revert E. vm_compute. discriminate.
Qed.

(* non-vacuity: all four accepted configurations (in root / in with parent / out root / out with
   parent), with fresh and with reused identifiers, satisfy the side conditions *)
Definition sp_nv_spec (p : option id) (c : list id) (o : list nat) (r : bool) : legspec :=
  {| ls_parent := p; ls_children := c; ls_open := o; ls_root := r |}.
Definition sp_nv_chk (n : id) (o i : legspec) (oid iid : id) : bool :=
  spec_okb sp_cex_store n o i && ids_okb sp_cex_store n oid iid &&
  match split_nodes sp_cex_store n o i oid iid 1 Reduced 0 with Some s' => wfb s' | None => false end.
Example split_side_conditions_nonvacuous :
  forallb (fun b => b)
    [sp_nv_chk 0 (sp_nv_spec None [1] [] true) (sp_nv_spec None [2] [2] false) 5 6;
     sp_nv_chk 0 (sp_nv_spec None [1] [] false) (sp_nv_spec None [2] [2] true) 5 6;
     sp_nv_chk 0 (sp_nv_spec None [1] [] false) (sp_nv_spec None [2] [2] true) 0 6;
     sp_nv_chk 0 (sp_nv_spec None [1] [] false) (sp_nv_spec None [2] [2] true) 5 0;
     sp_nv_chk 1 (sp_nv_spec (Some 0) [] [] false) (sp_nv_spec None [] [1] false) 5 6;
     sp_nv_chk 1 (sp_nv_spec None [] [1] false) (sp_nv_spec (Some 0) [] [] false) 5 6;
     sp_nv_chk 1 (sp_nv_spec None [] [1] false) (sp_nv_spec (Some 0) [] [] false) 1 6;
     sp_nv_chk 0 (sp_nv_spec None [2; 1] [] true) (sp_nv_spec None [] [2] false) 5 6;
     sp_nv_chk 0 (sp_nv_spec None [] [] true) (sp_nv_spec None [2; 1] [2] false) 5 6] = true.
Proof. vm_compute. reflexivity. Qed.

(* ---- diagram statements ------------------------------------------------------------------------------------------ *)
Lemma sp_tensors_perm s1 n nd t o i oid iid kind m bd s' ol il on2 in2 l2 :
  wf s1 -> ids_ok s1 n oid iid ->
  split_inv s1 n nd t o i oid iid kind m bd s' ol il on2 in2 l2 ->
  Permutation (tensors s') ((oid, sp_ot s1 t ol) :: (iid, sp_it s1 t il) :: adel n (tensors s1)).
Proof.
  intros H Hids I. pose proof (wf_tnd s1 H) as Htnd.
  assert (Hfresh : forall x, x = n \/ ~ In x (akeys (nodes s1)) -> ~ In x (akeys (adel n (tensors s1)))).
  { intros x [->|Hx] Hin.
    - apply keys_aget in Hin. destruct Hin as [v Hv]. rewrite aget_adel_same in Hv by exact Htnd. discriminate.
    - apply akeys_adel_incl in Hin. apply Hx. apply (wf_keys_iff s1 x H). exact Hin. }
  apply sp_assoc_perm.
  - apply (spf_tensors_nd _ _ _ _ _ _ _ _ _ _ _ _ _ _ _ _ _ I Htnd).
  - cbn. constructor.
    + intros [E|Hin]; [apply (si_ids _ _ _ _ _ _ _ _ _ _ _ _ _ _ _ _ _ I); symmetry; exact E|].
      apply (Hfresh oid (proj1 Hids) Hin).
    + constructor; [apply (Hfresh iid (proj2 Hids))|apply NoDup_akeys_adel; exact Htnd].
  - intros k. rewrite (spf_tensors_aget _ _ _ _ _ _ _ _ _ _ _ _ _ _ _ _ _ I Htnd). cbn.
    rewrite (aget_adel _ _ _ Htnd).
    destruct (Nat.eqb_spec k iid) as [E1|N1]; destruct (Nat.eqb_spec k oid) as [E2|N2]; try reflexivity.
    exfalso. apply (si_ids _ _ _ _ _ _ _ _ _ _ _ _ _ _ _ _ _ I). congruence.
Qed.

Lemma sp_access_next s n s1 nd t : access s n = Some (s1, nd, t) ->
  next_atom s1 = next_atom s /\ next_wire s1 = next_wire s /\ defs s1 = defs s /\ dims s1 = dims s /\ atab s1 = atab s.
Proof. intros Ha. destruct (access_inv _ _ _ _ _ Ha) as (nd0 & t0 & _ & _ & _ & _ & ->). cbn. auto. Qed.

(* atoms: the atoms of the split tensor are replaced by the two fresh atoms *)
Theorem split_total_atoms s n o i oid iid kind m rbond s' :
  wf s -> split_nodes s n o i oid iid kind m rbond = Some s' -> ids_ok s n oid iid ->
  exists rest, Permutation (total_atoms s) (atoms (tens s n) ++ rest) /\
               Permutation (total_atoms s') (next_atom s :: S (next_atom s) :: rest).
Proof.
  intros H Hs Hids.
  destruct (split_nodes_inv _ _ _ _ _ _ _ _ _ _ Hs) as (s1 & nd & t & ol & il & on2 & in2 & l2 & bd & Ha & _ & I).
  destruct (split_access_facts _ _ _ _ _ H Ha) as (nd0 & t0 & En0 & Et0 & End & Etr & H1 & En & Et & Hid & Hk & _ & Ht0).
  destruct (sp_access_next _ _ _ _ _ Ha) as (Na & _).
  assert (Hids' : ids_ok s1 n oid iid) by (unfold ids_ok; rewrite Hk; exact Hids).
  exists (flat_map (fun kt => atoms (snd kt)) (adel n (tensors s1))). split.
  - rewrite <- (access_total_atoms _ _ _ _ _ H Ha). unfold total_atoms.
    rewrite (Permutation_flat_map _ (sp_adel_decomp n t (tensors s1) (wf_tnd s1 H1) Et)). cbn.
    rewrite Etr, Ht0. reflexivity.
  - unfold total_atoms. rewrite (Permutation_flat_map _ (sp_tensors_perm _ _ _ _ _ _ _ _ _ _ _ _ _ _ _ _ _ H1 Hids' I)).
    cbn. rewrite Na. reflexivity.
Qed.

(* wire ends: the bound wires of the split tensor move into the kernel definition's input, its
   axes are distributed over the two new tensors, and the new bond wire has two ends *)
Theorem split_total_ends s n o i oid iid kind m rbond s' :
  wf s -> split_nodes s n o i oid iid kind m rbond = Some s' -> ids_ok s n oid iid ->
  exists rest, Permutation (total_ends s) (sarr_ends (tens s n) ++ rest) /\
               Permutation (total_ends s') (next_wire s :: next_wire s :: axes (tens s n) ++ rest).
Proof.
  intros H Hs Hids.
  destruct (split_nodes_inv _ _ _ _ _ _ _ _ _ _ Hs) as (s1 & nd & t & ol & il & on2 & in2 & l2 & bd & Ha & _ & I).
  destruct (split_access_facts _ _ _ _ _ H Ha) as (nd0 & t0 & En0 & Et0 & End & Etr & H1 & En & Et & Hid & Hk & _ & Ht0).
  destruct (sp_access_next _ _ _ _ _ Ha) as (_ & Nw & _).
  assert (Hids' : ids_ok s1 n oid iid) by (unfold ids_ok; rewrite Hk; exact Hids).
  assert (Hax : Permutation (axes t) (axes t0)).
  { rewrite Etr. cbn. apply permute_is_perm. pose proof (wf_node s H n nd0 En0) as Hn.
    replace (length (axes t0)) with (length (shape nd0)); [apply (ni_perm _ _ _ Hn)|].
    rewrite (ni_shape _ _ _ Hn), Ht0, map_length. reflexivity. }
  exists (flat_map (fun kt => sarr_ends (snd kt)) (adel n (tensors s1))). split.
  - rewrite <- (access_total_ends _ _ _ _ _ H Ha). unfold total_ends.
    rewrite (Permutation_flat_map _ (sp_adel_decomp n t (tensors s1) (wf_tnd s1 H1) Et)). cbn.
    apply Permutation_app_tail. unfold sarr_ends. rewrite Ht0. rewrite Hax. rewrite Etr. reflexivity.
  - unfold total_ends. rewrite (Permutation_flat_map _ (sp_tensors_perm _ _ _ _ _ _ _ _ _ _ _ _ _ _ _ _ _ H1 Hids' I)).
    cbn. unfold sarr_ends. cbn. rewrite !app_nil_r. rewrite Nw, Ht0.
    rewrite <- app_assoc. cbn. rewrite <- Permutation_middle. apply perm_skip.
    symmetry. apply Permutation_cons_app. symmetry. rewrite app_assoc. apply Permutation_app_tail.
    rewrite <- sp_permute_app. rewrite <- Hax. apply permute_is_perm. apply (si_perm _ _ _ _ _ _ _ _ _ _ _ _ _ _ _ _ _ I).
Qed.

(* the newest definition and the two new tensors: contracting the two tensors over the bond and
   substituting the definition gives back the logical tensor of n transposed to out legs ++ in legs *)
Theorem split_new_def s n o i oid iid kind m rbond s' d0 :
  wf s -> split_nodes s n o i oid iid kind m rbond = Some s' ->
  exists s1 nd t ol il bd,
    access s n = Some (s1, nd, t) /\ logical s n = Some t /\
    find_leg_values nd o = Some ol /\ find_leg_values nd i = Some il /\
    Permutation (ol ++ il) (seq 0 (length (axes t))) /\
    bd = sp_bd s kind m rbond (permute 0 ol (axes t)) (permute 0 il (axes t)) /\
    last (defs s') d0 = {| kq := next_atom s; kr := S (next_atom s); kbond := next_wire s;
                           kinput := s_transpose (ol ++ il) t; kkind := kind;
                           kmode := match kind with 0 => Some m | _ => None end |} /\
    defs s' = defs s ++ [last (defs s') d0] /\
    aget oid (tensors s') = Some {| axes := permute 0 ol (axes t) ++ [next_wire s]; atoms := [next_atom s]; bnd := [] |} /\
    aget iid (tensors s') = Some {| axes := next_wire s :: permute 0 il (axes t); atoms := [S (next_atom s)]; bnd := [] |} /\
    next_wire s' = S (next_wire s) /\ next_atom s' = S (S (next_atom s)) /\
    dims s' = dims s ++ [(next_wire s, bd)] /\ wdim s' (next_wire s) = bd.
Proof.
  intros H Hs.
  destruct (split_nodes_inv _ _ _ _ _ _ _ _ _ _ Hs) as (s1 & nd & t & ol & il & on2 & in2 & l2 & bd & Ha & Hbd & I).
  destruct (split_access_facts _ _ _ _ _ H Ha) as (nd0 & t0 & En0 & Et0 & End & Etr & H1 & En & Et & Hid & Hk & _ & Ht0).
  destruct (sp_access_next _ _ _ _ _ Ha) as (Na & Nw & Nd & Ndm & _).
  exists s1, nd, t, ol, il, bd.
  split; [exact Ha|]. split; [apply (access_returns_logical _ _ _ _ _ Ha)|].
  split; [apply (si_ol _ _ _ _ _ _ _ _ _ _ _ _ _ _ _ _ _ I)|]. split; [apply (si_il _ _ _ _ _ _ _ _ _ _ _ _ _ _ _ _ _ I)|].
  split; [apply (si_perm _ _ _ _ _ _ _ _ _ _ _ _ _ _ _ _ _ I)|]. split; [exact Hbd|].
  pose proof (spf_defs _ _ _ _ _ _ _ _ _ _ _ _ _ _ _ _ _ I) as Hd.
  assert (Hlast : last (defs s') d0 = sp_def s1 t ol il kind m) by (rewrite Hd; apply last_last).
  split; [rewrite Hlast; unfold sp_def; rewrite Na, Nw; reflexivity|].
  split; [rewrite Hlast, Hd, Nd; reflexivity|].
  pose proof (spf_tensors_aget _ _ _ _ _ _ _ _ _ _ _ _ _ _ _ _ _ I (wf_tnd s1 H1)) as HT.
  split.
  { rewrite HT. destruct (Nat.eqb_spec oid iid) as [E|_]; [exfalso; apply (si_ids _ _ _ _ _ _ _ _ _ _ _ _ _ _ _ _ _ I E)|].
    rewrite Nat.eqb_refl. unfold sp_ot. rewrite Na, Nw. reflexivity. }
  split.
  { rewrite HT. rewrite Nat.eqb_refl. unfold sp_it. rewrite Na, Nw. reflexivity. }
  split; [rewrite (spf_next_wire _ _ _ _ _ _ _ _ _ _ _ _ _ _ _ _ _ I), Nw; reflexivity|].
  split; [rewrite (spf_next_atom _ _ _ _ _ _ _ _ _ _ _ _ _ _ _ _ _ I), Na; reflexivity|].
  pose proof (spf_dims _ _ _ _ _ _ _ _ _ _ _ _ _ _ _ _ _ I) as Hdm. rewrite Ndm, Nw in Hdm.
  split; [exact Hdm|]. unfold wdim. rewrite Hdm, aget_app.
  assert (Hnone : aget (next_wire s) (dims s) = None).
  { apply aget_None. intros Hin. pose proof (wf_dims s H _ Hin). lia. }
  rewrite Hnone. cbn. rewrite Nat.eqb_refl. reflexivity.
Qed.

(* the open-leg rule: the out node's open legs are the wires named by the out specification's
   open legs (in specification order), likewise the in node; every other node keeps its open wires *)
Theorem split_open_legs s n o i oid iid kind m rbond s' nd0 :
  wf s -> split_nodes s n o i oid iid kind m rbond = Some s' -> spec_ok s n o i -> ids_ok s n oid iid ->
  aget n (nodes s) = Some nd0 ->
  exists no ni,
    aget oid (nodes s') = Some no /\ aget iid (nodes s') = Some ni /\
    open_of no (tens s' oid) = map (fun l => nth l (lax s n nd0) 0) (ls_open o) /\
    open_of ni (tens s' iid) = map (fun l => nth l (lax s n nd0) 0) (ls_open i) /\
    (forall k nk, k <> n -> aget k (nodes s) = Some nk ->
       exists nk', aget k (nodes s') = Some nk' /\ open_of nk' (tens s' k) = open_of nk (tens s k) /\
                   own_of nk' (tens s' k) = own_of nk (tens s k)).
Proof.
  intros H Hs Hspec Hids En0'.
  destruct (split_nodes_inv _ _ _ _ _ _ _ _ _ _ Hs) as (s1 & nd & t & ol & il & on2 & in2 & l2 & bd & Ha & _ & I).
  destruct (split_access_facts _ _ _ _ _ H Ha) as (nd0' & t0 & En0 & Et0 & End & Etr & H1 & En & Et & Hid & Hk & Hlax & Ht0).
  rewrite En0' in En0. injection En0 as <-.
  destruct (Hspec nd0 En0') as [LO LI].
  assert (LO' : leg_ok nd o) by (rewrite End; apply leg_ok_reset; exact LO).
  assert (LI' : leg_ok nd i) by (rewrite End; apply leg_ok_reset; exact LI).
  assert (Hids' : ids_ok s1 n oid iid) by (unfold ids_ok; rewrite Hk; exact Hids).
  assert (Hother : forall k nk, k <> n -> aget k (nodes s) = Some nk ->
            aget k (nodes s1) = Some nk /\ tens s1 k = tens s k).
  { intros k nk Hkn E. destruct (access_inv _ _ _ _ _ Ha) as (x & y & _ & _ & _ & _ & ->). cbn. unfold tens. cbn.
    rewrite !aget_aset_other by exact Hkn. auto. }
  destruct (split_inv_view _ _ _ _ _ _ _ _ _ _ _ _ _ _ _ _ _ H1 En Et Hid LO' LI' Hids' I) as (cO & cI & _ & _ & [[_ V]|[_ V]]).
  - exists on2, in2.
    split; [apply (sv_nL _ _ _ _ _ _ _ _ _ _ _ _ _ _ _ _ V)|]. split; [apply (sv_nU _ _ _ _ _ _ _ _ _ _ _ _ _ _ _ _ V)|].
    split; [rewrite (svw_tens_L _ _ _ _ _ _ _ _ _ _ _ _ _ _ _ _ V), (svw_open_L _ _ _ _ _ _ _ _ _ _ _ _ _ _ _ _ V), Hlax; reflexivity|].
    split; [rewrite (svw_tens_U _ _ _ _ _ _ _ _ _ _ _ _ _ _ _ _ V), (svw_open_U _ _ _ _ _ _ _ _ _ _ _ _ _ _ _ _ H1 V), Hlax; reflexivity|].
    intros k nk Hkn E. destruct (Hother k nk Hkn E) as [E1 Et1].
    destruct (svw_old _ _ _ _ _ _ _ _ _ _ _ _ _ _ _ _ H1 V k nk Hkn E1) as (nk' & E' & _).
    destruct (svw_own_old _ _ _ _ _ _ _ _ _ _ _ _ _ _ _ _ H1 V k nk nk' Hkn E1 E') as [O1 O2].
    exists nk'. rewrite <- Et1. auto.
  - exists on2, in2.
    split; [apply (sv_nU _ _ _ _ _ _ _ _ _ _ _ _ _ _ _ _ V)|]. split; [apply (sv_nL _ _ _ _ _ _ _ _ _ _ _ _ _ _ _ _ V)|].
    split; [rewrite (svw_tens_U _ _ _ _ _ _ _ _ _ _ _ _ _ _ _ _ V), (svw_open_U _ _ _ _ _ _ _ _ _ _ _ _ _ _ _ _ H1 V), Hlax; reflexivity|].
    split; [rewrite (svw_tens_L _ _ _ _ _ _ _ _ _ _ _ _ _ _ _ _ V), (svw_open_L _ _ _ _ _ _ _ _ _ _ _ _ _ _ _ _ V), Hlax; reflexivity|].
    intros k nk Hkn E. destruct (Hother k nk Hkn E) as [E1 Et1].
    destruct (svw_old _ _ _ _ _ _ _ _ _ _ _ _ _ _ _ _ H1 V k nk Hkn E1) as (nk' & E' & _).
    destruct (svw_own_old _ _ _ _ _ _ _ _ _ _ _ _ _ _ _ _ H1 V k nk nk' Hkn E1 E') as [O1 O2].
    exists nk'. rewrite <- Et1. auto.
Qed.

Print Assumptions split_preserves_wf.
Print Assumptions split_preserves_wfb.
Print Assumptions split_preserves_wfb_bool.
Print Assumptions split_total_atoms.
Print Assumptions split_total_ends.
Print Assumptions split_new_def.
Print Assumptions split_open_legs.
Print Assumptions split_bad_spec_counterexample.
