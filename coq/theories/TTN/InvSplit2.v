(* split_nodes preserves the store invariant (part 2): an abstract description ("view") of the
   store after a split in terms of an upper node U and a lower node Lo, and the proof that any
   store matching the view is well formed. *)
From Coq Require Import List Arith Bool Lia Permutation.
From PTN Require Import TTN.Store TTN.StoreProofs TTN.Inv TTN.InvProofs TTN.InvNode TTN.InvSplit.
Import ListNotations.

Record split_view (s1 s' : store) (n : id) (nd : node) (t : sarr) (U Lo : id) (su sl : legspec)
       (cU cL : list nat) (nU nL : node) (tU tL : sarr) (bd : nat) : Prop := {
  sv_n : aget n (nodes s1) = Some nd;
  sv_t : aget n (tensors s1) = Some t;
  sv_id : perm nd = seq 0 (length (axes t));
  sv_UL : U <> Lo;
  sv_U : U = n \/ ~ In U (akeys (nodes s1));
  sv_L : Lo = n \/ ~ In Lo (akeys (nodes s1));
  sv_cU : map (neighbour_index nd) (ls_children su) = map Some cU;
  sv_cL : map (neighbour_index nd) (ls_children sl) = map Some cL;
  sv_chU : incl (ls_children su) (children nd);
  sv_chL : incl (ls_children sl) (children nd);
  sv_opU : forall l, In l (ls_open su) -> nvirt nd <= l;
  sv_opL : forall l, In l (ls_open sl) -> nvirt nd <= l;
  sv_perm : Permutation (seq 0 (nparents nd) ++ (cU ++ ls_open su) ++ (cL ++ ls_open sl)) (seq 0 (length (axes t)));
  (* the upper node *)
  sv_nU : aget U (nodes s') = Some nU;
  sv_nU_par : parent nU = parent nd;
  sv_nU_ch : children nU = Lo :: ls_children su;
  sv_nU_lax : laxes nU tU = firstn (nparents nd) (axes t) ++ next_wire s1 :: permute 0 (cU ++ ls_open su) (axes t);
  sv_nU_perm : Permutation (perm nU) (seq 0 (length (shape nU)));
  sv_nU_shape : shape nU = map (wdim s') (axes tU);
  sv_tU_axes : incl (axes tU) (next_wire s1 :: axes t);
  (* the lower node *)
  sv_nL : aget Lo (nodes s') = Some nL;
  sv_nL_par : parent nL = Some U;
  sv_nL_ch : children nL = ls_children sl;
  sv_nL_lax : laxes nL tL = next_wire s1 :: permute 0 (cL ++ ls_open sl) (axes t);
  sv_nL_perm : Permutation (perm nL) (seq 0 (length (shape nL)));
  sv_nL_shape : shape nL = map (wdim s') (axes tL);
  sv_tL_axes : incl (axes tL) (next_wire s1 :: axes t);
  (* the old nodes *)
  sv_old : forall k nk, k <> n -> aget k (nodes s1) = Some nk ->
           exists nk', aget k (nodes s') = Some nk' /\ perm nk' = perm nk /\ shape nk' = shape nk /\
             (In k (ls_children su) -> parent nk' = Some U) /\
             (In k (ls_children sl) -> parent nk' = Some Lo) /\
             (~ In k (ls_children su) -> ~ In k (ls_children sl) -> parent nk' = parent nk) /\
             (parent nd = Some k -> children nk' = replace_first n U (children nk)) /\
             (parent nd <> Some k -> children nk' = children nk);
  sv_keys : forall k, In k (akeys (nodes s')) -> k = U \/ k = Lo \/ (k <> n /\ In k (akeys (nodes s1)));
  sv_nd : NoDup (akeys (nodes s'));
  (* tensors *)
  sv_tU : aget U (tensors s') = Some tU;
  sv_tL : aget Lo (tensors s') = Some tL;
  sv_told : forall k, k <> U -> k <> Lo -> aget k (tensors s') = if Nat.eqb k n then None else aget k (tensors s1);
  sv_tnd : NoDup (akeys (tensors s'));
  (* the rest *)
  sv_root : root s' = match parent nd with None => Some U | Some _ => root s1 end;
  sv_dims : dims s' = dims s1 ++ [(next_wire s1, bd)];
  sv_nw : next_wire s' = S (next_wire s1)
}.

Lemma sp_NoDup_map_Some {A} (l : list A) : NoDup (map Some l) <-> NoDup l.
Proof.
  split; [apply NoDup_map_inv|]. intros H. induction H as [|x l Hni Hnd IH]; cbn; constructor; [|exact IH].
  intros Hin. apply in_map_iff in Hin. destruct Hin as (y & [= ->] & Hy). contradiction.
Qed.

Lemma sp_NoDup_app_l {A} (a b : list A) : NoDup (a ++ b) -> NoDup a.
Proof. intros H. apply NoDup_app_iff in H. tauto. Qed.
Lemma sp_NoDup_app_r {A} (a b : list A) : NoDup (a ++ b) -> NoDup b.
Proof. intros H. apply NoDup_app_iff in H. tauto. Qed.

Lemma sp_nth_firstn {A} (l : list A) v i d : i < v -> nth i (firstn v l) d = nth i l d.
Proof.
  revert v i. induction l as [|x t IH]; intros v i Hi; [destruct v, i; reflexivity|].
  destruct v as [|v]; [lia|]. destruct i as [|i]; [reflexivity|]. cbn. apply IH. lia.
Qed.

Section View.
  Variables (s1 s' : store) (n : id) (nd : node) (t : sarr) (U Lo : id) (su sl : legspec)
            (cU cL : list nat) (nU nL : node) (tU tL : sarr) (bd : nat).
  Hypothesis H : wf s1.
  Hypothesis V : split_view s1 s' n nd t U Lo su sl cU cL nU nL tU tL bd.

  Let W := axes t.
  Let b := next_wire s1.
  Let v := nparents nd.
  Let chU := ls_children su.
  Let chL := ls_children sl.

  Let En := sv_n _ _ _ _ _ _ _ _ _ _ _ _ _ _ _ _ V.
  Let Et := sv_t _ _ _ _ _ _ _ _ _ _ _ _ _ _ _ _ V.

  Lemma svw_tens_n : tens s1 n = t.
  Proof. apply tens_aget. exact Et. Qed.

  Lemma svw_lax_n : lax s1 n nd = W.
  Proof. unfold lax. rewrite svw_tens_n. apply sp_laxes_id. apply (sv_id _ _ _ _ _ _ _ _ _ _ _ _ _ _ _ _ V). Qed.

  Lemma svw_NoDupW : NoDup W.
  Proof. rewrite <- svw_lax_n. apply (wf_lax_NoDup s1 n nd H En). Qed.

  Lemma svw_nlegs : nlegs nd = length W.
  Proof. unfold nlegs. rewrite (sv_id _ _ _ _ _ _ _ _ _ _ _ _ _ _ _ _ V). apply seq_length. Qed.

  Lemma svw_virt : nvirt nd <= length W.
  Proof. rewrite <- svw_nlegs. apply (ni_virt _ _ _ (wf_node s1 H n nd En)). Qed.

  Lemma svw_v_le : v <= nvirt nd.
  Proof. unfold v, nvirt. lia. Qed.

  Lemma svw_W_lt w : In w W -> w < b.
  Proof. intros Hw. apply (wf_wires s1 H n t w Et Hw). Qed.

  (* old keys other than n are neither U nor Lo *)
  Lemma svw_old_fresh k : In k (akeys (nodes s1)) -> k <> n -> k <> U /\ k <> Lo.
  Proof.
    intros Hk Hne. split; intros ->.
    - destruct (sv_U _ _ _ _ _ _ _ _ _ _ _ _ _ _ _ _ V); [congruence|contradiction].
    - destruct (sv_L _ _ _ _ _ _ _ _ _ _ _ _ _ _ _ _ V); [congruence|contradiction].
  Qed.

  (* children of n *)
  Lemma svw_child c : In c (children nd) ->
    exists cn, aget c (nodes s1) = Some cn /\ parent cn = Some n /\ c <> n /\ c <> U /\ c <> Lo /\ parent nd <> Some c.
  Proof.
    intros Hc. destruct (ni_ch _ _ _ (wf_node s1 H n nd En) c Hc) as (cn & Ec & Epc).
    assert (Hne : c <> n). { intros ->. apply (wf_not_self_parent s1 n cn H Ec Epc). }
    destruct (svw_old_fresh c (aget_Some_keys _ _ _ Ec) Hne) as [H1 H2].
    exists cn. repeat split; auto. eapply wf_parent_not_child; eauto.
  Qed.

  Lemma svw_parent p : parent nd = Some p ->
    exists pn i, aget p (nodes s1) = Some pn /\ In n (children pn) /\ neighbour_index pn n = Some i /\
                 nth 0 W 0 = nth i (lax s1 p pn) 0 /\ p <> n /\ p <> U /\ p <> Lo /\ parent pn <> Some n /\ ~ In p (children nd).
  Proof.
    intros Hp. destruct (ni_par _ _ _ (wf_node s1 H n nd En) p Hp) as (pn & i & Epn & Hin & Hni & Hw).
    assert (Hne : p <> n). { intros ->. apply (wf_not_self_parent s1 n nd H En Hp). }
    destruct (svw_old_fresh p (aget_Some_keys _ _ _ Epn) Hne) as [H1 H2].
    exists pn, i. rewrite svw_lax_n in Hw. repeat split; auto.
    - eapply wf_parent_not_child; eauto.
    - intros Hc. destruct (svw_child p Hc) as (_ & _ & _ & _ & _ & _ & Hx). contradiction.
  Qed.

  (* the leg of a listed child *)
  Lemma svw_leg_of (ch : list id) (cl : list nat) j :
    map (neighbour_index nd) ch = map Some cl -> incl ch (children nd) -> j < length ch ->
    neighbour_index nd (nth j ch 0) = Some (nth j cl 0) /\ v <= nth j cl 0 < nvirt nd /\
    nth (nth j cl 0 - v) (children nd) 0 = nth j ch 0.
  Proof.
    intros Hm Hincl Hj. pose proof (sp_map_Some_nth _ _ _ j 0 0 Hm Hj) as E. split; [exact E|].
    assert (Hc : In (nth j ch 0) (children nd)) by (apply Hincl; apply nth_In; exact Hj).
    destruct (svw_child _ Hc) as (_ & _ & _ & _ & _ & _ & Hx).
    apply (neighbour_index_lt nd _ _ Hx E).
  Qed.

  Lemma svw_perm_NoDup : NoDup (seq 0 v ++ (cU ++ ls_open su) ++ (cL ++ ls_open sl)).
  Proof.
    apply (Permutation_NoDup (Permutation_sym (sv_perm _ _ _ _ _ _ _ _ _ _ _ _ _ _ _ _ V))). apply seq_NoDup.
  Qed.

  Lemma svw_perm_In x : x < length W -> In x (seq 0 v ++ (cU ++ ls_open su) ++ (cL ++ ls_open sl)).
  Proof.
    intros Hx. apply (Permutation_in _ (Permutation_sym (sv_perm _ _ _ _ _ _ _ _ _ _ _ _ _ _ _ _ V))). apply in_seq. fold W. lia.
  Qed.

  Lemma svw_perm_lt x : In x (seq 0 v ++ (cU ++ ls_open su) ++ (cL ++ ls_open sl)) -> x < length W.
  Proof.
    intros Hx. apply (Permutation_in _ (sv_perm _ _ _ _ _ _ _ _ _ _ _ _ _ _ _ _ V)) in Hx. apply in_seq in Hx. fold W in Hx. lia.
  Qed.

  Lemma svw_cc_NoDup : NoDup (cU ++ cL).
  Proof.
    pose proof svw_perm_NoDup as Hnd. apply sp_NoDup_app_r in Hnd.
    apply NoDup_app_iff in Hnd. destruct Hnd as (H1 & H2 & H3).
    apply sp_NoDup_app_l in H1. apply sp_NoDup_app_l in H2.
    apply NoDup_app_iff. repeat split; auto. intros x Hx Hy. apply (H3 x); apply in_or_app; left; assumption.
  Qed.

  Lemma svw_ch_NoDup : NoDup (chU ++ chL).
  Proof.
    apply (NoDup_map_inv (neighbour_index nd)). rewrite map_app.
    unfold chU, chL. rewrite (sv_cU _ _ _ _ _ _ _ _ _ _ _ _ _ _ _ _ V), (sv_cL _ _ _ _ _ _ _ _ _ _ _ _ _ _ _ _ V).
    rewrite <- map_app. apply sp_NoDup_map_Some. apply svw_cc_NoDup.
  Qed.

  Lemma svw_ch_disj k : In k chU -> In k chL -> False.
  Proof. pose proof svw_ch_NoDup as Hnd. apply NoDup_app_iff in Hnd. destruct Hnd as (_ & _ & Hd). apply Hd. Qed.

  (* every child of n is listed in one of the two specifications *)
  Lemma svw_ch_cover c : In c (children nd) -> In c chU \/ In c chL.
  Proof.
    intros Hc. destruct (In_nth _ _ 0 Hc) as (j & Hj & Ej).
    assert (Hlt : v + j < nvirt nd) by (unfold v, nvirt; unfold id in *; lia).
    pose proof (svw_perm_In (v + j) ltac:(pose proof svw_virt; lia)) as Hin.
    assert (Hcase : forall ch cl, map (neighbour_index nd) ch = map Some cl -> incl ch (children nd) -> In (v + j) cl -> In c ch).
    { intros ch cl Hm Hincl Hx. destruct (sp_map_Some_In _ _ _ _ Hm Hx) as (x & Hx1 & Hx2).
      destruct (svw_child x (Hincl x Hx1)) as (_ & _ & _ & _ & _ & _ & Hpx).
      destruct (neighbour_index_lt nd x _ Hpx Hx2) as [_ Hn]. fold v in Hn.
      replace (v + j - v) with j in Hn by lia. unfold id in *. rewrite Ej in Hn. subst x. exact Hx1. }
    apply in_app_or in Hin. destruct Hin as [Hin|Hin]; [apply in_seq in Hin; lia|].
    apply in_app_or in Hin. destruct Hin as [Hin|Hin]; apply in_app_or in Hin; destruct Hin as [Hin|Hin].
    - left. apply (Hcase _ _ (sv_cU _ _ _ _ _ _ _ _ _ _ _ _ _ _ _ _ V) (sv_chU _ _ _ _ _ _ _ _ _ _ _ _ _ _ _ _ V) Hin).
    - apply (sv_opU _ _ _ _ _ _ _ _ _ _ _ _ _ _ _ _ V) in Hin. lia.
    - right. apply (Hcase _ _ (sv_cL _ _ _ _ _ _ _ _ _ _ _ _ _ _ _ _ V) (sv_chL _ _ _ _ _ _ _ _ _ _ _ _ _ _ _ _ V) Hin).
    - apply (sv_opL _ _ _ _ _ _ _ _ _ _ _ _ _ _ _ _ V) in Hin. lia.
  Qed.
End View.
