(* Proofs about TTN/InvSem.v, part 4: the extended invariant wfs / wfsb is preserved by the operations
   that allocate atoms and wires: split_nodes, insert_identity, add_root, add_child. *)
From Coq Require Import List Arith Bool Lia Permutation.
From PTN Require Import TTN.Store TTN.StoreProofs TTN.Inv TTN.InvProofs TTN.InvNode TTN.InvContract TTN.InvEdit
  TTN.InvBuild TTN.InvSplit TTN.InvRun TTN.InvWires Wire.Sem Wire.SemProofs TTN.InvSem TTN.InvSemProofs TTN.InvSemWfs
  TTN.InvSemValue.
Import ListNotations.

Lemma amem_app {V} k (l1 l2 : list (nat * V)) : amem k (l1 ++ l2) = amem k l1 || amem k l2.
Proof. unfold amem. rewrite InvProofs.aget_app. destruct (aget k l1); reflexivity. Qed.

Lemma In_total_ends_lt s z : wfs s -> In z (total_ends s) -> z < next_wire s.
Proof. intros WS. apply (so_ends_lt s (proj2 (proj1 (wfs_iff_sem_ok s) WS))). Qed.

Lemma atab_fresh s a : wfs s -> next_atom s <= a -> aget a (atab s) = None.
Proof. intros WS Ha. apply aget_None. intros Hin. pose proof (ws_atab_lt s WS a Hin). lia. Qed.

(* ---- split_nodes ---------------------------------------------------------------------------------------------------- *)
Theorem split_preserves_wfs s n o i oid iid kind m rbond s' :
  wfs s -> split_nodes s n o i oid iid kind m rbond = Some s' -> spec_ok s n o i -> ids_ok s n oid iid -> wfs s'.
Proof.
  intros WS Hs Hspec Hids. pose proof (ws_wf s WS) as W.
  pose proof (split_preserves_wf s n o i oid iid kind m rbond s' W Hs Hspec Hids) as W'.
  destruct (split_total_ends s n o i oid iid kind m rbond s' W Hs Hids) as (restE & PE & PE').
  destruct (split_total_atoms s n o i oid iid kind m rbond s' W Hs Hids) as (restA & PA & PA').
  destruct (split_new_def s n o i oid iid kind m rbond s' dflt_def W Hs)
    as (s1 & nd & t & ol & il & bd & Ha & _ & Eol & Eil & _ & _ & _ & _ & _ & _ & Nw' & Na' & _ & _).
  destruct (split_atab _ _ _ _ _ _ _ _ _ _ Hs) as (s1' & nd' & t' & ol' & il' & Ha' & Eol' & Eil' & Etab).
  rewrite Ha in Ha'. injection Ha' as <- <- <-. rewrite Eol in Eol'. injection Eol' as <-. rewrite Eil in Eil'. injection Eil' as <-.
  pose proof (proj2 (proj1 (wfs_iff_sem_ok s) WS)) as [H1 H2 H3 H4 H5 H6 H7].
  assert (HrA : forall a, In a restA -> In a (total_atoms s)).
  { intros a Hin. apply (Permutation_in _ (Permutation_sym PA)). apply in_or_app. right. exact Hin. }
  apply wfs_iff_sem_ok. split; [exact W'|]. constructor.
  - (* closedness *)
    destruct (split_nodes_inv _ _ _ _ _ _ _ _ _ _ Hs) as (s1' & nd' & t' & ol' & il' & on2 & in2 & l2 & bd' & Ha' & _ & I).
    rewrite Ha in Ha'. injection Ha' as <- <- <-.
    pose proof (si_ol _ _ _ _ _ _ _ _ _ _ _ _ _ _ _ _ _ I) as Eol'. rewrite Eol in Eol'. injection Eol' as <-.
    pose proof (si_il _ _ _ _ _ _ _ _ _ _ _ _ _ _ _ _ _ I) as Eil'. rewrite Eil in Eil'. injection Eil' as <-.
    pose proof (access_preserves_wfs _ _ _ _ _ WS Ha) as WS1. pose proof (ws_wf s1 WS1) as W1.
    destruct (sp_access_next _ _ _ _ _ Ha) as (Na & Nw & _ & _ & Nt).
    destruct (access_keys _ _ _ _ _ Ha) as (Kn & _).
    assert (Hids' : ids_ok s1 n oid iid) by (unfold ids_ok; rewrite Kn; exact Hids).
    pose proof (sp_tensors_perm _ _ _ _ _ _ _ _ _ _ _ _ _ _ _ _ _ W1 Hids' I) as PT.
    intros k tk E. apply aget_In in E. apply (Permutation_in _ PT) in E. destruct E as [E|[E|E]].
    + injection E as <- <-. unfold sp_ot. rewrite Na, Nw. intros a [<-|[]] x Hx. left. cbn [axes].
      unfold atom_wires in Hx. rewrite Etab, InvProofs.aget_app, InvProofs.aget_app in Hx.
      rewrite (atab_fresh s (next_atom s) WS (le_n _)) in Hx. cbn [aget] in Hx. rewrite Nat.eqb_refl in Hx. exact Hx.
    + injection E as <- <-. unfold sp_it. rewrite Na, Nw. intros a [<-|[]] x Hx. left. cbn [axes].
      unfold atom_wires in Hx. rewrite Etab, InvProofs.aget_app, InvProofs.aget_app in Hx.
      rewrite (atab_fresh s (S (next_atom s)) WS (le_S _ _ (le_n _))) in Hx. cbn [aget] in Hx.
      destruct (Nat.eqb_spec (S (next_atom s)) (next_atom s)) as [Hq|_]; [lia|]. rewrite Nat.eqb_refl in Hx. exact Hx.
    + apply In_adel in E. apply (In_aget _ _ _ (wf_tnd s1 W1)) in E.
      pose proof (ws_closed s1 WS1 k tk E) as C. intros a Hin x Hx.
      assert (Hlt : a < next_atom s).
      { rewrite <- Na. apply (ws_atoms_lt s1 WS1). apply (total_atoms_In s1 k tk a (aget_In _ _ _ E) Hin). }
      rewrite (split_atom_wires_old _ _ _ _ _ _ _ _ _ _ a Hs Hlt) in Hx. apply (C a Hin x). unfold atom_wires in *. rewrite Nt. exact Hx.
  - (* every wire has at most two ends *)
    intros z. rewrite (proj1 (Permutation_count_occ Nat.eq_dec _ _) PE' z).
    pose proof (H2 z) as Hz. rewrite (proj1 (Permutation_count_occ Nat.eq_dec _ _) PE z) in Hz. unfold sarr_ends in Hz.
    rewrite !count_occ_app in Hz. cbn [count_occ]. rewrite count_occ_app.
    destruct (Nat.eq_dec (next_wire s) z) as [<-|Hne]; [|nlia].
    assert (Hb : ~ In (next_wire s) (total_ends s)) by (intros Hin; pose proof (H3 _ Hin); lia).
    rewrite PE in Hb. unfold sarr_ends in Hb. apply (count_occ_not_In Nat.eq_dec) in Hb. rewrite !count_occ_app in Hb. nlia.
  - intros z Hz. rewrite Nw'. apply (Permutation_in _ PE') in Hz. destruct Hz as [<-|[<-|Hz]]; [lia|lia|].
    assert (Hin : In z (total_ends s)).
    { apply (Permutation_in _ (Permutation_sym PE)). unfold sarr_ends. apply in_app_or in Hz. rewrite !in_app_iff. tauto. }
    pose proof (H3 z Hin). lia.
  - apply (Permutation_NoDup (Permutation_sym PA')).
    assert (Hnd : NoDup restA) by (rewrite PA in H4; apply (NoDup_app_r _ _ H4)).
    constructor; [|constructor; [|exact Hnd]].
    + intros [E|Hin]; [lia|]. pose proof (H5 _ (HrA _ Hin)). lia.
    + intros Hin. pose proof (H5 _ (HrA _ Hin)). lia.
  - intros a Hin. rewrite Na'. apply (Permutation_in _ PA') in Hin. destruct Hin as [<-|[<-|Hin]]; [lia|lia|].
    pose proof (H5 _ (HrA _ Hin)). lia.
  - intros a Hin. rewrite Etab, !amem_app. apply (Permutation_in _ PA') in Hin. destruct Hin as [<-|[<-|Hin]].
    + unfold amem at 2. cbn. rewrite Nat.eqb_refl. rewrite orb_true_r. reflexivity.
    + unfold amem at 3. cbn. rewrite Nat.eqb_refl. rewrite orb_true_r. reflexivity.
    + rewrite (H6 _ (HrA _ Hin)). reflexivity.
  - intros a Hin. rewrite Etab, !akeys_app in Hin. rewrite Na'. cbn in Hin. rewrite !in_app_iff in Hin. cbn in Hin.
    destruct Hin as [[Hin|[<-|[]]]|[<-|[]]]; [pose proof (H7 a Hin); lia|lia|lia].
Qed.

Theorem split_preserves_wfsb s n o i oid iid kind m rbond s' :
  wfsb s = true -> split_nodes s n o i oid iid kind m rbond = Some s' -> spec_ok s n o i -> ids_ok s n oid iid -> wfsb s' = true.
Proof. intros H Hs H1 H2. apply wfs_wfsb. apply (split_preserves_wfs s n o i oid iid kind m rbond s'); [apply wfsb_wfs; exact H|exact Hs|exact H1|exact H2]. Qed.

(* ---- adding one tensor that consists of one fresh atom ------------------------------------------------------------- *)
Lemma sem_ok_extend s s' k tnew :
  sem_ok s -> tensors s' = tensors s ++ [(k, tnew)] ->
  atoms tnew = [next_atom s] -> bnd tnew = [] ->
  atab s' = atab s ++ [(next_atom s, axes tnew)] -> next_atom s' = S (next_atom s) ->
  next_wire s <= next_wire s' -> (forall z, In z (axes tnew) -> z < next_wire s') ->
  (forall z, count_occ Nat.eq_dec (total_ends s) z + count_occ Nat.eq_dec (axes tnew) z <= 2) ->
  sem_ok s'.
Proof.
  intros [H1 H2 H3 H4 H5 H6 H7] ET Hat Hbn Etab Ena Hnw Hax Hcnt.
  assert (Hfresh : aget (next_atom s) (atab s) = None).
  { apply aget_None. intros Hin. pose proof (H7 _ Hin). lia. }
  assert (Hold : forall a, a < next_atom s -> atom_wires s' a = atom_wires s a).
  { intros a Ha. unfold atom_wires. rewrite Etab, aget_snoc_other by lia. reflexivity. }
  assert (Hends : total_ends s' = total_ends s ++ axes tnew).
  { unfold total_ends. rewrite ET, flat_map_app. cbn. unfold sarr_ends. rewrite Hbn, !app_nil_r. reflexivity. }
  assert (Hatoms : total_atoms s' = total_atoms s ++ [next_atom s]).
  { unfold total_atoms. rewrite ET, flat_map_app. cbn. rewrite Hat. reflexivity. }
  constructor.
  - intros k' t E. rewrite ET, InvProofs.aget_app in E. destruct (aget k' (tensors s)) as [v|] eqn:Ev.
    + injection E as <-. intros a Hin x Hx.
      assert (Hlt : a < next_atom s) by (apply H5; apply (total_atoms_In s k' v a (aget_In _ _ _ Ev) Hin)).
      rewrite (Hold a Hlt) in Hx. apply (H1 k' v Ev a Hin x Hx).
    + cbn in E. destruct (Nat.eqb k' k); [|discriminate]. injection E as <-.
      intros a Hin x Hx. rewrite Hat in Hin. destruct Hin as [<-|[]]. left.
      unfold atom_wires in Hx. rewrite Etab, InvProofs.aget_app, Hfresh in Hx. cbn [aget] in Hx. rewrite Nat.eqb_refl in Hx. exact Hx.
  - intros z. rewrite Hends, count_occ_app. apply Hcnt.
  - intros z Hz. rewrite Hends in Hz. apply in_app_or in Hz. destruct Hz as [Hz|Hz]; [pose proof (H3 z Hz); lia|apply Hax; exact Hz].
  - rewrite Hatoms. apply NoDup_app_iff. split; [exact H4|]. split; [constructor; [intros []|constructor]|].
    intros a Ha [<-|[]]. pose proof (H5 _ Ha). lia.
  - intros a Ha. rewrite Hatoms in Ha. rewrite Ena. apply in_app_or in Ha. destruct Ha as [Ha|[<-|[]]]; [pose proof (H5 _ Ha); lia|lia].
  - intros a Ha. rewrite Hatoms in Ha. rewrite Etab, amem_app. apply in_app_or in Ha. destruct Ha as [Ha|[<-|[]]].
    + rewrite (H6 _ Ha). reflexivity.
    + unfold amem at 2. cbn. rewrite Nat.eqb_refl, orb_true_r. reflexivity.
  - intros a Ha. rewrite Etab, akeys_app in Ha. rewrite Ena. apply in_app_or in Ha. cbn [akeys map fst] in Ha. destruct Ha as [Ha|[<-|[]]]; [pose proof (H7 _ Ha); lia|lia].
Qed.

(* ---- add_child ---------------------------------------------------------------------------------------------------------- *)
Lemma open_wire_one_end s w : wfs s -> In w (open_wires s) -> count_occ Nat.eq_dec (total_ends s) w = 1.
Proof.
  intros WS Hin. pose proof (ws_wf s WS) as W. pose proof (so_ends2 s (proj2 (proj1 (wfs_iff_sem_ok s) WS)) w) as H2.
  rewrite (proj1 (Permutation_count_occ Nat.eq_dec _ _) (wf_total_ends s W) w), !count_occ_app in *.
  pose proof (proj1 (NoDup_count_occ Nat.eq_dec _) (wf_open_wires_NoDup s W) w).
  apply (count_occ_In Nat.eq_dec) in Hin. nlia.
Qed.

Theorem add_child_preserves_wfs s c shp cleg p pleg s' :
  wfs s -> add_child s c shp cleg p pleg = Some s' -> wfs s'.
Proof.
  intros WS Ha. pose proof (ws_wf s WS) as W. pose proof (add_child_preserves_wf _ _ _ _ _ _ _ W Ha) as W'.
  destruct (add_child_wire_open s c shp cleg p pleg s' W Ha) as (Hop & Hpwlt & Hfresh & Hnw & Hfnd).
  pose proof Ha as Ha'.
  destruct (add_child_inv _ _ _ _ _ _ _ Ha) as (pn & pt & cn & pn' & Ep & Et & Ec & Hc & _ & Hd & Hcn & Hpn & E').
  rewrite (add_child_wire_eq _ _ _ _ _ _ _ pn pt Ha' Ep Et) in *.
  set (pw := parent_wire pn pt pleg) in *.
  assert (Hct : aget c (tensors s) = None).
  { destruct (aget c (tensors s)) as [v|] eqn:Ev; [|reflexivity].
    assert (amem c (nodes s) = true) by (apply (wf_tn s W); apply amem_aget; eauto). congruence. }
  assert (Pca : Permutation (child_axes s shp cleg pw) (pw :: add_child_fresh s shp cleg)).
  { unfold child_axes, add_child_fresh. rewrite ib_set_nth_decomp by (rewrite seq_length; exact Hc).
    symmetry. apply Permutation_middle. }
  apply wfs_iff_sem_ok. split; [exact W'|].
  apply (sem_ok_extend s s' c {| axes := child_axes s shp cleg pw; atoms := [next_atom s]; bnd := [] |}
           (proj2 (proj1 (wfs_iff_sem_ok s) WS))); rewrite ?E'; cbn [tensors atab next_atom next_wire childed axes atoms bnd]; try reflexivity.
  - apply ib_aset_absent. exact Hct.
  - lia.
  - intros z Hz. apply (Permutation_in _ Pca) in Hz. destruct Hz as [<-|Hz]; [lia|].
    specialize (Hfresh z Hz). rewrite E' in Hfresh. cbn [next_wire childed] in Hfresh. lia.
  - intros z. rewrite (proj1 (Permutation_count_occ Nat.eq_dec _ _) Pca z). cbn [count_occ].
    pose proof (so_ends2 s (proj2 (proj1 (wfs_iff_sem_ok s) WS)) z) as H2.
    pose proof (proj1 (NoDup_count_occ Nat.eq_dec _) Hfnd z) as H1.
    destruct (Nat.eq_dec pw z) as [<-|Hne].
    + rewrite (open_wire_one_end s pw WS Hop).
      assert (Hn : ~ In pw (add_child_fresh s shp cleg)) by (intros Hin; specialize (Hfresh pw Hin); lia).
      apply (count_occ_not_In Nat.eq_dec) in Hn. nlia.
    + destruct (count_occ Nat.eq_dec (add_child_fresh s shp cleg) z) as [|cf] eqn:Ecf; [nlia|].
      assert (Hin : In z (add_child_fresh s shp cleg)) by (apply (count_occ_In Nat.eq_dec); nlia).
      specialize (Hfresh z Hin).
      assert (Hn : ~ In z (total_ends s)) by (intros Hz; pose proof (In_total_ends_lt s z WS Hz); lia).
      apply (count_occ_not_In Nat.eq_dec) in Hn. nlia.
Qed.

Theorem add_child_preserves_wfsb s c shp cleg p pleg s' :
  wfsb s = true -> add_child s c shp cleg p pleg = Some s' -> wfsb s' = true.
Proof. intros H Ha. apply wfs_wfsb. apply (add_child_preserves_wfs s c shp cleg p pleg s'); [apply wfsb_wfs; exact H|exact Ha]. Qed.

(* ---- add_root ------------------------------------------------------------------------------------------------------------- *)
(* a blank store whose atom table has no stale keys (e.g. the empty store) *)
Definition blank_s (s : store) : Prop := blank s /\ forall a, In a (akeys (atab s)) -> a < next_atom s.

Lemma blank_s_empty : blank_s empty_store.
Proof. split; [apply blank_empty|intros a []]. Qed.

Theorem add_root_wfs s n shp s' : blank_s s -> add_root s n shp = Some s' -> wfs s'.
Proof.
  intros [B Htab] Ha. pose proof (add_root_wf s n shp s' B Ha) as W'.
  destruct (add_root_inv _ _ _ _ Ha) as (_ & s1 & ws & Ef & E').
  destruct (fresh_wires_spec _ _ _ _ Ef) as (Ews & _ & F3 & _ & F5 & _ & F7 & _ & F9).
  destruct B as (Bn & Bt & _ & _).
  assert (S0 : sem_ok s).
  { constructor; unfold total_ends, total_atoms; rewrite ?Bt; cbn; try (intros ? []); try constructor; auto. intros; discriminate. }
  apply wfs_iff_sem_ok. split; [exact W'|].
  apply (sem_ok_extend s s' n {| axes := ws; atoms := [next_atom s]; bnd := [] |} S0);
    rewrite ?E'; cbn [tensors atab next_atom next_wire rooted axes atoms bnd]; rewrite ?F5, ?F7, ?F9, ?Bt; try reflexivity.
  - lia.
  - intros z Hz. rewrite Ews in Hz. apply in_seq in Hz. lia.
  - intros z. unfold total_ends. rewrite Bt. cbn. rewrite Ews.
    pose proof (proj1 (NoDup_count_occ Nat.eq_dec _) (seq_NoDup (length shp) (next_wire s)) z). nlia.
Qed.

Theorem add_root_wfsb s n shp s' : blank_s s -> add_root s n shp = Some s' -> wfsb s' = true.
Proof. intros B Ha. apply wfs_wfsb. apply (add_root_wfs s n shp s' B Ha). Qed.

(* ---- insert_identity ---------------------------------------------------------------------------------------------------- *)
(* the relabelling of the atom table: the atoms of the child's tensor get the fresh wire in place of the
   child's old parent wire *)
Definition ii_sub (cw w : wire) (x : wire) : wire := if Nat.eqb x cw then w else x.
Definition ii_relab (atms : list nat) (cw w : wire) (aw : nat * list wire) : nat * list wire :=
  if memb (fst aw) atms then (fst aw, map (ii_sub cw w) (snd aw)) else aw.

Lemma insert_identity_atab s c p new s' :
  insert_identity s c p new = Some s' ->
  exists cn ct, aget c (nodes s) = Some cn /\ aget c (tensors s) = Some ct /\
    atab s' = map (ii_relab (atoms ct) (ii_cw cn ct) (next_wire s)) (atab s ++ [(next_atom s, [ii_cw cn ct; next_wire s])]).
Proof.
  unfold insert_identity.
  destruct (aget c (nodes s)) as [cn|] eqn:Ec; [|discriminate].
  destruct (aget p (nodes s)) as [pn|] eqn:Ep; [|discriminate].
  destruct (aget c (tensors s)) as [ct|] eqn:Et; [|discriminate].
  destruct (parent cn) as [q|] eqn:Eq; cbn [negb]; [|discriminate].
  destruct (Nat.eqb_spec q p) as [->|Hne]; cbn [negb]; [|discriminate].
  destruct (memb c (children pn)) eqn:Hm; cbn [negb]; [|discriminate].
  destruct (amem new (nodes s)) eqn:Hnew; [discriminate|].
  unfold replace_neighbour at 1. rewrite Eq, Nat.eqb_refl.
  destruct (replace_neighbour pn c new) as [pn'|] eqn:Epn'; [|discriminate].
  cbn [fresh_wires fresh_atom hd].
  set (d := wdim s (nth (nth 0 (perm cn) 0) (axes ct) 0)).
  change (open_leg_to_parent (new_node [d; d]) p 0)
    with (Some {| parent := Some p; children := []; perm := [0; 1]; shape := [d; d] |}).
  cbv iota beta.
  change (open_leg_to_child {| parent := Some p; children := []; perm := [0; 1]; shape := [d; d] |} c 1)
    with (Some (ii_node p c d)).
  cbv iota beta. intros [= <-]. exists cn, ct. split; [reflexivity|]. split; [reflexivity|]. reflexivity.
Qed.

Lemma aget_map_key {V} (f : nat * V -> nat * V) k l :
  (forall kv, fst (f kv) = fst kv) -> aget k (map f l) = option_map (fun v => snd (f (k, v))) (aget k l).
Proof.
  intros Hf. induction l as [|[k' v'] t IH]; cbn; [reflexivity|].
  pose proof (Hf (k', v')) as E. destruct (f (k', v')) as [k2 v2] eqn:Ef. cbn in E. subst k2.
  destruct (Nat.eqb_spec k k') as [->|Hne]; [cbn; rewrite Ef; reflexivity|exact IH].
Qed.

Lemma ii_relab_fst atms cw w aw : fst (ii_relab atms cw w aw) = fst aw.
Proof. unfold ii_relab. destruct (memb (fst aw) atms); reflexivity. Qed.

Lemma akeys_map_key {V} (f : nat * V -> nat * V) l : (forall kv, fst (f kv) = fst kv) -> akeys (map f l) = akeys l.
Proof. intros Hf. unfold akeys. rewrite map_map. apply map_ext. exact Hf. Qed.

(* the wires of every atom after an insert_identity *)
Lemma insert_identity_atom_wires s c p new s' :
  wfs s -> insert_identity s c p new = Some s' ->
  exists cn ct, aget c (nodes s) = Some cn /\ aget c (tensors s) = Some ct /\
    (forall a, In a (atoms ct) -> atom_wires s' a = map (ii_sub (ii_cw cn ct) (next_wire s)) (atom_wires s a)) /\
    (forall a, ~ In a (atoms ct) -> a <> next_atom s -> atom_wires s' a = atom_wires s a) /\
    atom_wires s' (next_atom s) = [ii_cw cn ct; next_wire s] /\
    akeys (atab s') = akeys (atab s) ++ [next_atom s].
Proof.
  intros WS Hi. destruct (insert_identity_atab _ _ _ _ _ Hi) as (cn & ct & Ec & Et & Etab).
  exists cn, ct. split; [exact Ec|]. split; [exact Et|].
  pose proof (atab_fresh s (next_atom s) WS (le_n _)) as Hfr.
  assert (Hna : ~ In (next_atom s) (atoms ct)).
  { intros Hin. pose proof (ws_atoms_lt s WS _ (total_atoms_In s c ct _ (aget_In _ _ _ Et) Hin)). lia. }
  assert (Hget : forall a, aget a (atab s') =
            option_map (fun v => snd (ii_relab (atoms ct) (ii_cw cn ct) (next_wire s) (a, v)))
              (aget a (atab s ++ [(next_atom s, [ii_cw cn ct; next_wire s])])))
    by (intros a; rewrite Etab; apply aget_map_key; intros kv; apply ii_relab_fst).
  split; [|split; [|split]].
  - intros a Ha. unfold atom_wires. rewrite Hget, aget_snoc_other by (intros ->; contradiction).
    destruct (aget a (atab s)) as [v|]; cbn; [|reflexivity]. unfold ii_relab. cbn [fst snd].
    apply InvProofs.memb_In in Ha. rewrite Ha. reflexivity.
  - intros a Ha Hne. unfold atom_wires. rewrite Hget, aget_snoc_other by exact Hne.
    destruct (aget a (atab s)) as [v|]; cbn; [|reflexivity]. unfold ii_relab. cbn [fst snd].
    apply memb_false in Ha. rewrite Ha. reflexivity.
  - unfold atom_wires. rewrite Hget, InvProofs.aget_app, Hfr. cbn. rewrite Nat.eqb_refl. cbn. unfold ii_relab. cbn [fst snd].
    apply memb_false in Hna. rewrite Hna. reflexivity.
  - rewrite Etab, akeys_map_key by (intros kv; apply ii_relab_fst). apply akeys_app.
Qed.

Theorem insert_identity_preserves_wfs s c p new s' : wfs s -> insert_identity s c p new = Some s' -> wfs s'.
Proof.
  intros WS Hi. pose proof (ws_wf s WS) as W. pose proof (insert_identity_preserves_wf s c p new s' W Hi) as W'.
  pose proof (insert_identity_total_ends s c p new s' W Hi) as PE.
  pose proof (insert_identity_total_atoms s c p new s' W Hi) as EA.
  destruct (insert_identity_atom_wires s c p new s' WS Hi) as (cn & ct & Ec & Et & Hw1 & Hw2 & Hw3 & Hkeys).
  destruct (insert_identity_facts s c p new s' W Hi)
    as (cn' & pn & ct' & pm & L' & Ec' & Ep & Et' & Epar & Hin & Hnew & Hpc & Hnp & Hnc & Epm & Hjni & Hjlt & _ & _ & _ & Hcwlt & _ & ET & _ & _ & Nw' & Na').
  rewrite Ec in Ec'. injection Ec' as <-. rewrite Et in Et'. injection Et' as <-.
  pose proof (proj2 (proj1 (wfs_iff_sem_ok s) WS)) as [H1 H2 H3 H4 H5 H6 H7].
  assert (Hnt : aget new (tensors s) = None).
  { destruct (aget new (tensors s)) as [v|] eqn:Ev; [|reflexivity].
    assert (amem new (nodes s) = true) by (apply (wf_tn s W); apply amem_aget; eauto).
    apply amem_aget in H. destruct H as [x Hx]. congruence. }
  apply wfs_iff_sem_ok. split; [exact W'|]. constructor.
  - intros k t E. rewrite ET, aget_aset in E. destruct (Nat.eqb_spec k new) as [->|Hkn].
    + injection E as <-. unfold ii_nt. intros a [<-|[]] x Hx. left. cbn [axes]. rewrite Hw3 in Hx. exact Hx.
    + rewrite aget_aset in E. destruct (Nat.eqb_spec k c) as [->|Hkc].
      * injection E as <-. unfold ii_ct. intros a Ha x Hx. cbn [atoms] in Ha. cbn [axes bnd].
        rewrite (Hw1 a Ha) in Hx. apply in_map_iff in Hx. destruct Hx as (y & <- & Hy). unfold ii_sub.
        destruct (Nat.eqb_spec y (ii_cw cn ct)) as [->|Hy'].
        -- left. rewrite <- (nth_set_nth_same (ii_j cn) (next_wire s) (axes ct) 0 Hjlt) at 1.
           apply nth_In. rewrite set_nth_length. exact Hjlt.
        -- destruct (H1 c ct Et a Ha y Hy) as [Hax|Hbn]; [left|right; exact Hbn].
           destruct (In_nth _ _ (0 : wire) Hax) as (i0 & Hi0 & <-).
           assert (Hij : i0 <> ii_j cn) by (intros ->; apply Hy'; reflexivity).
           unfold wire in *.
           rewrite <- (nth_set_nth_other i0 (ii_j cn) (next_wire s) (axes ct) 0 Hij).
           apply nth_In. rewrite set_nth_length. exact Hi0.
      * intros a Ha x Hx.
        assert (Hnc' : ~ In a (atoms ct)).
        { intros Hac. unfold total_atoms in H4. apply (NoDup_flat_map_assoc _ _ (wf_tnd s W)) in H4. destruct H4 as [_ Hd].
          apply Hkc. apply (Hd k t c ct a E Et Ha Hac). }
        assert (Hlt : a <> next_atom s).
        { intros ->. pose proof (H5 _ (total_atoms_In s k t _ (aget_In _ _ _ E) Ha)). lia. }
        rewrite (Hw2 a Hnc' Hlt) in Hx. apply (H1 k t E a Ha x Hx).
  - intros z. rewrite (proj1 (Permutation_count_occ Nat.eq_dec _ _) PE z). cbn [count_occ]. specialize (H2 z).
    destruct (Nat.eq_dec (next_wire s) z) as [<-|Hne]; [|exact H2].
    assert (Hn : ~ In (next_wire s) (total_ends s)) by (intros Hz; pose proof (H3 _ Hz); lia).
    apply (count_occ_not_In Nat.eq_dec) in Hn. nlia.
  - intros z Hz. rewrite Nw'. apply (Permutation_in _ PE) in Hz. destruct Hz as [<-|[<-|Hz]]; [lia|lia|]. pose proof (H3 z Hz). lia.
  - rewrite EA. apply NoDup_app_iff. split; [exact H4|]. split; [constructor; [intros []|constructor]|].
    intros a Ha [<-|[]]. pose proof (H5 _ Ha). lia.
  - intros a Ha. rewrite EA in Ha. rewrite Na'. apply in_app_or in Ha. destruct Ha as [Ha|[<-|[]]]; [pose proof (H5 _ Ha); lia|lia].
  - intros a Ha. apply amem_true. rewrite Hkeys. rewrite EA in Ha. apply in_app_or in Ha. apply in_or_app.
    destruct Ha as [Ha|Ha]; [left; apply amem_true; apply (H6 _ Ha)|right; exact Ha].
  - intros a Ha. rewrite Hkeys in Ha. rewrite Na'. apply in_app_or in Ha. destruct Ha as [Ha|[<-|[]]]; [pose proof (H7 _ Ha); lia|lia].
Qed.

Theorem insert_identity_preserves_wfsb s c p new s' : wfsb s = true -> insert_identity s c p new = Some s' -> wfsb s' = true.
Proof. intros H Ha. apply wfs_wfsb. apply (insert_identity_preserves_wfs s c p new s'); [apply wfsb_wfs; exact H|exact Ha]. Qed.
