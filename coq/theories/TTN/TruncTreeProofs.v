(* Proofs about the tree-level truncation programs of TTN/TruncTree.v (recursive_truncation.py,
   svd_truncation.py over the store model).  Plan:
   1. the effect of access / insert_identity / contract_nodes / split_nodes (two fresh identifiers) on the
      VIEW of a well-formed store (parent pointer and bond dimension per identifier), from the
      invariant layer TTN/Inv*.v;
   2. truncate_node: a per-bond stage invariant through the three loops (local_spec), then the recursion
      (truncate_node_spec): parents unchanged, the bond above every proper descendant = the supplied
      dimension, every other bond unchanged;
   3. canonical_form / move_center keep the invariant and the parent map (kept); the top-level theorems;
   4. svd: contract_and_split_with_parent changes exactly one bond (cas_spec); the loop;
   5. coverage: the trace of truncate_node and the path of svd_truncation list every node that has a
      parent exactly once; the fuel of truncate_node suffices. *)
From Coq Require Import List Arith Bool Lia Permutation.
From PTN Require Import TTN.Store TTN.StoreProofs TTN.Canon TTN.Inv TTN.InvProofs TTN.InvNode TTN.InvEdit TTN.InvContract
  TTN.InvSplit TTN.CanonTree TTN.CanonMore TTN.CanonStep TTN.CanonIso TTN.CanonProofs TTN.TruncTree.
Import ListNotations.


Ltac tlia := unfold id, wire in *; lia.
Ltac tcongr := unfold id, wire in *; congruence.

(* ---- the view of a store (definitions in TruncTree.v) ------------------------------------------------ *)
Lemma pmap_aget s k : pmap s k = option_map parent (aget k (nodes s)).
Proof. unfold pmap, view. destruct (aget k (nodes s)); reflexivity. Qed.

Lemma view_none s k : view s k = None <-> aget k (nodes s) = None.
Proof. unfold view. destruct (aget k (nodes s)); cbn; split; congruence. Qed.

Lemma view_some s k q b : view s k = Some (q, b) -> exists nk, aget k (nodes s) = Some nk /\ parent nk = q /\ bdim s k nk = b.
Proof. unfold view. destruct (aget k (nodes s)) as [nk|]; cbn; [|discriminate]. intros [= <- <-]. eauto. Qed.

Lemma view_of s k nk : aget k (nodes s) = Some nk -> view s k = Some (parent nk, bdim s k nk).
Proof. unfold view. intros ->. reflexivity. Qed.

(* children lists are exactly the nodes pointing to the node *)
Lemma wf_children_iff s n nd c : wf s -> aget n (nodes s) = Some nd -> (In c (children nd) <-> pmap s c = Some (Some n)).
Proof.
  intros W E. rewrite pmap_aget. split.
  - intros Hin. destruct (wf_child_parent s n nd c W E Hin) as (cn & Ec & Hp). rewrite Ec. cbn. rewrite Hp. reflexivity.
  - destruct (aget c (nodes s)) as [cn|] eqn:Ec; cbn; [|discriminate]. intros [= Hp].
    destruct (wf_parent_child s c cn n W Ec Hp) as (pn & Ep & Hin). rewrite E in Ep. injection Ep as <-. exact Hin.
Qed.

Lemma wf_parent_present s k q : wf s -> pmap s k = Some (Some q) -> exists qn, aget q (nodes s) = Some qn.
Proof.
  intros W. rewrite pmap_aget. destruct (aget k (nodes s)) as [nk|] eqn:E; cbn; [|discriminate]. intros [= Hp].
  destruct (wf_parent_child s k nk q W E Hp) as (pn & Ep & _). eauto.
Qed.

Lemma wf_children_nodup s n nd : wf s -> aget n (nodes s) = Some nd -> NoDup (children nd).
Proof. intros W E. apply (ni_chnd _ _ _ (wf_node s W n nd E)). Qed.

(* ---- access ------------------------------------------------------------------------------------- *)
Lemma access_view s n s' nd t : wf s -> access s n = Some (s', nd, t) ->
  wf s' /\ (forall k, view s' k = view s k) /\ root s' = root s.
Proof.
  intros W Ha. split; [eapply access_preserves_wf; eauto|].
  destruct (access_result _ _ _ _ _ Ha) as (_ & _ & _ & _ & Hd & _ & Hr & Hk & _).
  split; [|exact Hr]. intros k. unfold view at 2. destruct (aget k (nodes s)) as [nk|] eqn:E.
  - destruct (access_lax s n s' nd t k nk W Ha E) as (nk' & E' & P & C & L).
    rewrite (view_of _ _ _ E'). cbn. unfold bdim. rewrite P, L. f_equal. f_equal.
    destruct (parent nk); [|reflexivity]. apply cc_wdim. exact Hd.
  - cbn. apply view_none. apply aget_None. rewrite Hk. apply aget_None. exact E.
Qed.

(* ---- helpers on wires ----------------------------------------------------------------------------- *)
Lemma wdim_old s s' d x : wf s -> dims s' = dims s ++ [(next_wire s, d)] -> x < next_wire s -> wdim s' x = wdim s x.
Proof.
  intros W Hd Hx. rewrite (wdim_snoc s s' _ _ x Hd).
  - destruct (Nat.eqb_spec x (next_wire s)); [lia|reflexivity].
  - apply aget_None. intros Hin. apply (wf_dims s W) in Hin. lia.
Qed.

Lemma wdim_new s s' d : wf s -> dims s' = dims s ++ [(next_wire s, d)] -> wdim s' (next_wire s) = d.
Proof.
  intros W Hd. rewrite (wdim_snoc s s' _ _ _ Hd), Nat.eqb_refl; [reflexivity|].
  apply aget_None. intros Hin. apply (wf_dims s W) in Hin. lia.
Qed.

Lemma lax0_in s k nk q : wf s -> aget k (nodes s) = Some nk -> parent nk = Some q -> In (nth 0 (lax s k nk) 0) (lax s k nk).
Proof.
  intros W E Hp. apply nth_In. unfold lax. rewrite laxes_length.
  pose proof (ni_virt _ _ _ (wf_node s W k nk E)) as Hv. unfold nvirt, nparents in Hv. rewrite Hp in Hv. lia.
Qed.

Lemma lax0_lt s k nk q : wf s -> aget k (nodes s) = Some nk -> parent nk = Some q -> nth 0 (lax s k nk) 0 < next_wire s.
Proof. intros W E Hp. apply (wf_lax_lt s k nk _ W E). eapply lax0_in; eauto. Qed.

(* ---- insert_identity ------------------------------------------------------------------------------ *)
Lemma ii_view s c p new s' : wf s -> insert_identity s c p new = Some s' ->
  wf s' /\ root s' = root s /\ view s new = None /\
  exists b, view s c = Some (Some p, b) /\
    forall k, view s' k = if Nat.eqb k new then Some (Some p, b) else if Nat.eqb k c then Some (Some new, b) else view s k.
Proof.
  intros W Hi. split; [eapply insert_identity_preserves_wf; eauto|].
  destruct (insert_identity_facts _ _ _ _ _ W Hi)
    as (cn & pn & ct & pm & L' & Ec & Ep & Et & Epar & Hin & Hnew & Hpc & Hnp & Hnc & Epm & Hjni & Hjlt & HL & HL2 & HwL & Hcw
        & Hn' & Ht' & Hr' & Hd' & Hw' & _).
  split; [exact Hr'|]. split; [apply view_none; exact Hnew|].
  exists (bdim s c cn). split; [rewrite (view_of _ _ _ Ec), Epar; reflexivity|].
  destruct (insert_identity_new_node _ _ _ _ _ W Hi) as (cn2 & n2 & Ec2 & _ & _ & En2 & Pn2 & _ & Ln2 & _ & _ & Wn2).
  rewrite Ec in Ec2. injection Ec2 as <-.
  assert (Hhd : hd 0 (lax s c cn) = nth 0 (lax s c cn) 0) by (destruct (lax s c cn); reflexivity).
  assert (Hb : bdim s c cn = wdim s (hd 0 (lax s c cn))) by (unfold bdim; rewrite Epar, Hhd; reflexivity).
  set (B := bdim s c cn) in *. clearbody B.
  intros k. destruct (Nat.eqb_spec k new) as [->|Hkn].
  - rewrite (view_of _ _ _ En2). unfold bdim. rewrite Pn2, Ln2. cbn [nth]. rewrite Hb. f_equal. f_equal.
    apply (wdim_old s s' _ _ W Hd'). rewrite Hhd. eapply lax0_lt; eauto.
  - unfold view at 2. destruct (aget k (nodes s)) as [nk|] eqn:E.
    + destruct (insert_identity_lax _ _ _ _ _ k nk W Hi E) as (nk' & E' & _ & _ & P' & _ & LL).
      rewrite (view_of _ _ _ E'). destruct (Nat.eqb_spec k c) as [->|Hkc].
      * rewrite E in Ec. injection Ec as ->. unfold bdim. rewrite P', LL. cbn [nth]. rewrite Wn2, Hb. reflexivity.
      * cbn. unfold bdim. rewrite P', LL. f_equal. f_equal. destruct (parent nk) as [q|] eqn:Hq; [|reflexivity].
        apply (wdim_old s s' _ _ W Hd'). eapply lax0_lt; eauto.
    + destruct (Nat.eqb_spec k c) as [->|Hkc]; [tcongr|]. cbn. apply view_none.
      rewrite Hn', !aget_aset. destruct (Nat.eqb_spec k new); [tcongr|].
      destruct (Nat.eqb_spec k p) as [->|]; [tcongr|]. destruct (Nat.eqb_spec k c); [tcongr|]. exact E.
Qed.

(* ---- contract_nodes -------------------------------------------------------------------------------- *)
Lemma rnin_dims s new old del s' : replace_node_in_neighbours s new old del = Some s' ->
  dims s' = dims s /\ next_wire s' = next_wire s.
Proof.
  unfold replace_node_in_neighbours. destruct (Nat.eqb new old); [intros [= <-]; auto|].
  destruct (aget old (nodes s)) as [on|]; [|discriminate].
  match goal with |- match ?r with _ => _ end = _ -> _ => destruct r as [[r0 l2]|]; [|discriminate] end.
  intros [= <-]. auto.
Qed.

Lemma contract_dims s a b new s' : contract_nodes s a b new = Some s' -> dims s' = dims s /\ next_wire s' = next_wire s.
Proof.
  unfold contract_nodes. destruct (determine_parentage s a b) as [[p c]|]; [|discriminate].
  destruct (access s p) as [[[s1 pn] pt]|] eqn:A1; [|discriminate].
  destruct (access s1 c) as [[[s2 cn] ct]|] eqn:A2; [|discriminate].
  destruct (neighbour_index pn c) as [ax|]; [|discriminate].
  destruct (s_tensordot pt ct ax 0) as [nt|]; [|discriminate].
  destruct (create_contracted_node _ pn cn c _) as [nn|]; [|discriminate].
  match goal with |- match ?r with _ => _ end = _ -> _ => destruct r as [s4|] eqn:R4; [|discriminate] end.
  destruct (replace_node_in_neighbours s4 new c true) as [s5|] eqn:R5; [|discriminate].
  intros [= <-]. cbn.
  destruct (rnin_dims _ _ _ _ _ R5) as [D5 N5]. destruct (rnin_dims _ _ _ _ _ R4) as [D4 N4]. cbn in D4, N4.
  destruct (access_result _ _ _ _ _ A1) as (_ & _ & _ & _ & D1 & N1 & _).
  destruct (access_result _ _ _ _ _ A2) as (_ & _ & _ & _ & D2 & N2 & _).
  split; congruence.
Qed.

Definition reparent_view (p c new : id) (v : option (option id * nat)) : option (option id * nat) :=
  match v with
  | Some (Some q, b) => Some (Some (if Nat.eqb q p || Nat.eqb q c then new else q), b)
  | x => x
  end.

Lemma contract_view_eff s a b new s' :
  wf s -> contract_nodes s a b new = Some s' -> (new = a \/ new = b \/ ~ In new (akeys (nodes s))) ->
  wf s' /\ exists p c, ((p = a /\ c = b) \/ (p = b /\ c = a)) /\ p <> c /\ pmap s c = Some (Some p) /\
    root s' = (match pmap s p with Some None => Some new | _ => root s end) /\
    forall k, view s' k = if Nat.eqb k new then view s p
                          else if Nat.eqb k p || Nat.eqb k c then None
                          else reparent_view p c new (view s k).
Proof.
  intros W H Hnew. split; [eapply contract_preserves_wf; eauto|].
  destruct (contract_dims _ _ _ _ _ H) as [Hdims Hnw].
  unfold contract_nodes in H.
  destruct (determine_parentage s a b) as [[p c]|] eqn:Edp; [|discriminate].
  destruct (access s p) as [[[s1 pn] pt]|] eqn:A1; [|discriminate].
  destruct (access s1 c) as [[[s2 cn] ct]|] eqn:A2; [|discriminate].
  destruct (neighbour_index pn c) as [ax|] eqn:Eax; [|discriminate].
  destruct (s_tensordot pt ct ax 0) as [nt|] eqn:Etd; [|discriminate].
  destruct (create_contracted_node _ pn cn c (p =? a)) as [nn|] eqn:Enn; [|discriminate].
  match type of H with match ?r with _ => _ end = _ => destruct r as [s4|] eqn:R4; [|discriminate] end.
  destruct (replace_node_in_neighbours s4 new c true) as [s5|] eqn:R5; [|discriminate].
  injection H as <-.
  destruct (determine_parentage_inv s a b p c Edp) as (na & nb & Ea & Eb & Hcase).
  destruct (access_view s p s1 pn pt W A1) as (W1 & Vw1 & Rt1).
  destruct (access_view s1 c s2 cn ct W1 A2) as (W2 & Vw2 & Rt2).
  destruct (access_result _ _ _ _ _ A1) as (B1 & B2 & B3 & B4 & B5 & B6 & B7 & B8 & (pn0 & B9 & B10 & B11)).
  destruct (access_result _ _ _ _ _ A2) as (C1 & C2 & C3 & C4 & C5 & C6 & C7 & C8 & (cn0 & C9 & C10 & C11)).
  assert (Hpcne : p <> c /\ parent cn0 = Some p /\ aget c (nodes s) = Some cn0 /\ ((p = a /\ c = b) \/ (p = b /\ c = a))).
  { destruct Hcase as [(-> & -> & Hp)|(-> & -> & Hp)].
    - assert (a <> b) by (intros ->; apply (wf_not_self_parent s b nb W Eb Hp)).
      destruct (B4 b (not_eq_sym H)) as [B4a _]. rewrite B4a, Eb in C9. injection C9 as <-. repeat split; auto.
    - assert (b <> a) by (intros ->; apply (wf_not_self_parent s a na W Ea Hp)).
      destruct (B4 a (not_eq_sym H)) as [B4a _]. rewrite B4a, Ea in C9. injection C9 as <-. repeat split; auto. }
  destruct Hpcne as (Hpc & Hparc & Ec0 & Hpcab).
  destruct (C4 p Hpc) as [C4a C4b].
  assert (Hnew2 : new = p \/ new = c \/ ~ In new (akeys (nodes s2))).
  { rewrite C8, B8. destruct Hpcab as [[-> ->]|[-> ->]]; tauto. }
  assert (Hp2 : aget p (nodes s2) = Some pn) by (rewrite C4a; exact B1).
  assert (Hparc2 : parent cn = Some p) by (rewrite C10; exact Hparc).
  assert (Hwdm : map (wdim s) (axes nt) = map (wdim s2) (axes nt)).
  { apply map_ext. intros w. unfold wdim. rewrite C5, B5. reflexivity. }
  rewrite Hwdm in Enn.
  assert (Hpt : tens s2 p = pt) by (apply tens_aget; rewrite C4b; exact B2).
  assert (Hct : tens s2 c = ct) by (apply tens_aget; exact C2).
  assert (Htd2 : s_tensordot (tens s2 p) (tens s2 c) ax 0 = Some nt) by (rewrite Hpt, Hct; exact Etd).
  pose proof (contract_view s2 p c pn cn new nt nn s4 s5 W2 Hp2 C1 Hparc2 Hnew2 R4 R5) as Fview.
  cbv zeta in Fview. set (s' := upd_nodes s5 (aset new nn)) in *.
  destruct Fview as (V1 & V2 & V3 & V4 & V5 & V6 & V7 & V8 & V9).
  assert (Vw : forall k, view s2 k = view s k) by (intros k; rewrite Vw2; apply Vw1).
  assert (Hwd : forall w, wdim s' w = wdim s2 w) by (intros w; apply cc_wdim; exact V8).
  exists p, c. split; [exact Hpcab|]. split; [exact Hpc|].
  split; [rewrite pmap_aget, Ec0; cbn; rewrite Hparc; reflexivity|].
  split.
  { rewrite V6. rewrite pmap_aget, B9. cbn. rewrite <- B10. rewrite Rt2, Rt1.
    assert (parent pn = parent pn) by reflexivity. destruct (parent pn); reflexivity. }
  intros k. destruct (Nat.eqb_spec k new) as [->|Hkn].
  - rewrite (view_of _ _ _ V2), <- Vw, (view_of _ _ _ Hp2).
    destruct (cc_nn s2 s' p c new pn cn nn ax nt (p =? a) W2 Hp2 C1 Hparc2 B3 C3 Hnew2 Eax Htd2 Enn V3 V4 V9)
      as (N1 & _ & _ & _ & _ & _ & N7).
    unfold bdim. rewrite N1. destruct (parent pn) as [q|] eqn:Hq; [|reflexivity].
    rewrite (cc_lax_new s2 s' p c new nn nt W2 Hnew2 V7), N7.
    assert (Hnp : nparents pn = 1) by (unfold nparents; rewrite Hq; reflexivity). rewrite Hnp.
    pose proof (lax0_in s2 p pn q W2 Hp2 Hq) as Hin0.
    destruct (lax s2 p pn) as [|x rest] eqn:EL; [destruct Hin0|]. cbn [firstn app nth]. rewrite Hwd. reflexivity.
  - destruct (Nat.eqb_spec k p) as [->|Hkp]; [cbn [orb]; apply view_none; apply V3; tcongr|].
    destruct (Nat.eqb_spec k c) as [->|Hkc]; [cbn [orb]; apply view_none; apply V4; tcongr|]. cbn [orb].
    rewrite <- Vw. unfold view at 2. destruct (aget k (nodes s2)) as [nk|] eqn:E.
    + destruct (cc_lax_others s2 s' p c new pn cn nt W2 Hp2 C1 Hparc2 Hnew2 V5 V7 k nk E Hkp Hkc) as (nk' & E' & L' & _).
      rewrite (view_of _ _ _ E'). rewrite (V5 k Hkp Hkc Hkn), E in E'. cbn in E'. injection E' as <-.
      cbn [option_map reparent_view]. unfold bdim. rewrite L'. cbn [rt parent].
      destruct (parent nk) as [q|] eqn:Hq.
      * assert (M1 : memb k (children pn) = Nat.eqb q p).
        { destruct (Nat.eqb_spec q p) as [->|Hne].
          - apply memb_In. destruct (wf_parent_child s2 k nk p W2 E Hq) as (x & Ex & Hin). rewrite Hp2 in Ex. injection Ex as <-. exact Hin.
          - apply memb_false. intros Hin. destruct (wf_child_parent s2 p pn k W2 Hp2 Hin) as (x & Ex & Hx). tcongr. }
        assert (M2 : memb k (children cn) = Nat.eqb q c).
        { destruct (Nat.eqb_spec q c) as [->|Hne].
          - apply memb_In. destruct (wf_parent_child s2 k nk c W2 E Hq) as (x & Ex & Hin). rewrite C1 in Ex. injection Ex as <-. exact Hin.
          - apply memb_false. intros Hin. destruct (wf_child_parent s2 c cn k W2 C1 Hin) as (x & Ex & Hx). tcongr. }
        rewrite M1, M2, Hwd. destruct (Nat.eqb q p || Nat.eqb q c); reflexivity.
      * assert (M1 : memb k (children pn) = false).
        { apply memb_false. intros Hin. destruct (wf_child_parent s2 p pn k W2 Hp2 Hin) as (x & Ex & Hx). tcongr. }
        assert (M2 : memb k (children cn) = false).
        { apply memb_false. intros Hin. destruct (wf_child_parent s2 c cn k W2 C1 Hin) as (x & Ex & Hx). tcongr. }
        rewrite M1, M2. reflexivity.
    + cbn. apply view_none. rewrite (V5 k Hkp Hkc Hkn), E. reflexivity.
Qed.

(* ---- split_nodes with two fresh identifiers ---------------------------------------------------------- *)
Definition split_other (U Lo : id) (su sl : legspec) (k : id) (v : option (option id * nat)) : option (option id * nat) :=
  match v with
  | Some (q, b) => Some ((if memb k (ls_children sl) then Some Lo else if memb k (ls_children su) then Some U else q), b)
  | None => None
  end.

Lemma split_view_core s1 s' n nd t U Lo su sl cU cL nU nL tU tL bd :
  wf s1 -> split_view s1 s' n nd t U Lo su sl cU cL nU nL tU tL bd -> U <> n -> Lo <> n ->
  wf s' /\ root s' = (match pmap s1 n with Some None => Some U | _ => root s1 end) /\
  forall k, view s' k = if Nat.eqb k U then view s1 n else if Nat.eqb k Lo then Some (Some U, bd)
                        else if Nat.eqb k n then None else split_other U Lo su sl k (view s1 k).
Proof.
  intros W1 V HU HL. split; [eapply split_view_wf; eauto|].
  pose proof (sv_n _ _ _ _ _ _ _ _ _ _ _ _ _ _ _ _ V) as En.
  pose proof (sv_t _ _ _ _ _ _ _ _ _ _ _ _ _ _ _ _ V) as Et.
  pose proof (sv_id _ _ _ _ _ _ _ _ _ _ _ _ _ _ _ _ V) as Hid.
  pose proof (sv_dims _ _ _ _ _ _ _ _ _ _ _ _ _ _ _ _ V) as Hd.
  assert (Htn : tens s1 n = t) by (apply tens_aget; exact Et).
  assert (Hlaxn : lax s1 n nd = axes t).
  { unfold lax, laxes. rewrite Htn, Hid. apply permute_seq. }
  split.
  { rewrite (sv_root _ _ _ _ _ _ _ _ _ _ _ _ _ _ _ _ V), pmap_aget, En. cbn. destruct (parent nd); reflexivity. }
  intros k. destruct (Nat.eqb_spec k U) as [->|HkU].
  - pose proof (sv_nU _ _ _ _ _ _ _ _ _ _ _ _ _ _ _ _ V) as EU.
    rewrite (view_of _ _ _ EU), (view_of _ _ _ En).
    rewrite (sv_nU_par _ _ _ _ _ _ _ _ _ _ _ _ _ _ _ _ V). unfold bdim.
    rewrite (sv_nU_par _ _ _ _ _ _ _ _ _ _ _ _ _ _ _ _ V).
    destruct (parent nd) as [q|] eqn:Hq; [|reflexivity].
    assert (HtU : tens s' U = tU) by (apply tens_aget; apply (sv_tU _ _ _ _ _ _ _ _ _ _ _ _ _ _ _ _ V)).
    unfold lax at 1. rewrite HtU, (sv_nU_lax _ _ _ _ _ _ _ _ _ _ _ _ _ _ _ _ V).
    assert (Hnp : nparents nd = 1) by (unfold nparents; rewrite Hq; reflexivity). rewrite Hnp.
    pose proof (lax0_in s1 n nd q W1 En Hq) as Hin0. pose proof (lax0_lt s1 n nd q W1 En Hq) as Hlt0.
    rewrite Hlaxn in *. destruct (axes t) as [|x rest]; [destruct Hin0|]. cbn [firstn app nth] in *.
    f_equal. f_equal. apply (wdim_old s1 s' _ _ W1 Hd Hlt0).
  - destruct (Nat.eqb_spec k Lo) as [->|HkL].
    + pose proof (sv_nL _ _ _ _ _ _ _ _ _ _ _ _ _ _ _ _ V) as EL.
      rewrite (view_of _ _ _ EL). unfold bdim. rewrite (sv_nL_par _ _ _ _ _ _ _ _ _ _ _ _ _ _ _ _ V).
      assert (HtL : tens s' Lo = tL) by (apply tens_aget; apply (sv_tL _ _ _ _ _ _ _ _ _ _ _ _ _ _ _ _ V)).
      unfold lax. rewrite HtL, (sv_nL_lax _ _ _ _ _ _ _ _ _ _ _ _ _ _ _ _ V). cbn [nth].
      rewrite (wdim_new s1 s' _ W1 Hd). reflexivity.
    + assert (Hkeys : forall x, x <> U -> x <> Lo -> In x (akeys (nodes s')) -> x <> n /\ In x (akeys (nodes s1))).
      { intros x H1 H2 Hin. destruct (sv_keys _ _ _ _ _ _ _ _ _ _ _ _ _ _ _ _ V x Hin) as [?|[?|?]]; [tcongr|tcongr|assumption]. }
      destruct (Nat.eqb_spec k n) as [->|Hkn].
      * apply view_none. apply aget_None. intros Hin. destruct (Hkeys n HkU HkL Hin) as [Hc _]. apply Hc. reflexivity.
      * unfold view at 2. destruct (aget k (nodes s1)) as [nk|] eqn:E.
        -- destruct (svw_old _ _ _ _ _ _ _ _ _ _ _ _ _ _ _ _ W1 V k nk Hkn E)
             as (nk' & E' & Pm & Sh & _ & _ & Tk & _ & _ & HsU & HsL & Hoth & _).
           rewrite (view_of _ _ _ E'). cbn [option_map split_other].
           assert (Hlax : lax s' k nk' = lax s1 k nk) by (unfold lax, laxes; rewrite Tk, Pm; reflexivity).
           assert (Hw : forall q, parent nk = Some q -> wdim s' (nth 0 (lax s1 k nk) 0) = wdim s1 (nth 0 (lax s1 k nk) 0)).
           { intros q Hq. apply (wdim_old s1 s' _ _ W1 Hd). eapply lax0_lt; eauto. }
           destruct (memb k (ls_children sl)) eqn:ML.
           ++ apply memb_In in ML. destruct (HsL ML) as [P1 P2]. unfold bdim. rewrite P1, P2, Hlax, (Hw n P2). reflexivity.
           ++ apply memb_false in ML. destruct (memb k (ls_children su)) eqn:MU.
              ** apply memb_In in MU. destruct (HsU MU) as [P1 P2]. unfold bdim. rewrite P1, P2, Hlax, (Hw n P2). reflexivity.
              ** apply memb_false in MU. destruct (Hoth MU ML) as [P1 _]. unfold bdim. rewrite P1, Hlax.
                 destruct (parent nk) as [q|] eqn:Hq; [rewrite (Hw q eq_refl)|]; reflexivity.
        -- cbn. apply view_none. apply aget_None. intros Hin. destruct (Hkeys k HkU HkL Hin) as [_ Hin1].
           apply aget_None in E. contradiction.
Qed.

Lemma split_view_eff s n o i oid iid kind m rbond s' :
  wf s -> split_nodes s n o i oid iid kind m rbond = Some s' -> spec_ok s n o i ->
  ~ In oid (akeys (nodes s)) -> ~ In iid (akeys (nodes s)) ->
  exists U Lo su sl bd,
    ((sp_in_above i = true /\ U = iid /\ Lo = oid /\ su = i /\ sl = o) \/
     (sp_in_above i = false /\ U = oid /\ Lo = iid /\ su = o /\ sl = i)) /\
    (2 <= kind -> bd = rbond) /\
    wf s' /\ root s' = (match pmap s n with Some None => Some U | _ => root s end) /\
    forall k, view s' k = if Nat.eqb k U then view s n else if Nat.eqb k Lo then Some (Some U, bd)
                          else if Nat.eqb k n then None else split_other U Lo su sl k (view s k).
Proof.
  intros W Hs Hspec Ho Hi.
  destruct (split_nodes_inv _ _ _ _ _ _ _ _ _ _ Hs) as (s1 & nd & t & ol & il & on2 & in2 & l2 & bd & Ha & Hbd & I).
  destruct (split_access_facts _ _ _ _ _ W Ha) as (nd0 & t0 & En0 & Et0 & End & Etr & W1 & En & Et & Hid & Hk & _).
  destruct (Hspec nd0 En0) as [LO LI].
  assert (LO' : leg_ok nd o) by (rewrite End; apply leg_ok_reset; exact LO).
  assert (LI' : leg_ok nd i) by (rewrite End; apply leg_ok_reset; exact LI).
  assert (Hids' : ids_ok s1 n oid iid) by (unfold ids_ok; rewrite Hk; auto).
  destruct (access_view s n s1 nd t W Ha) as (_ & Vw & Rt).
  assert (Hn_in : In n (akeys (nodes s))) by (eapply aget_Some_keys; eauto).
  assert (Hon : oid <> n) by (intros ->; contradiction).
  assert (Hin : iid <> n) by (intros ->; contradiction).
  assert (Hbd2 : 2 <= kind -> bd = rbond).
  { intros Hk2. rewrite Hbd. unfold sp_bd. destruct kind as [|[|kk]]; [lia|lia|reflexivity]. }
  assert (Hpm : pmap s1 n = pmap s n) by (unfold pmap; rewrite Vw; reflexivity).
  destruct (split_inv_view _ _ _ _ _ _ _ _ _ _ _ _ _ _ _ _ _ W1 En Et Hid LO' LI' Hids' I) as (cO & cI & _ & _ & [[Ab V]|[Ab V]]).
  - exists iid, oid, i, o, bd. split; [left; auto|]. split; [exact Hbd2|].
    destruct (split_view_core _ _ _ _ _ _ _ _ _ _ _ _ _ _ _ _ W1 V Hin Hon) as (W' & R' & V').
    split; [exact W'|]. split; [rewrite R', Hpm, Rt; reflexivity|]. intros k. rewrite V', !Vw. reflexivity.
  - exists oid, iid, o, i, bd. split; [right; auto|]. split; [exact Hbd2|].
    destruct (split_view_core _ _ _ _ _ _ _ _ _ _ _ _ _ _ _ _ W1 V Hon Hin) as (W' & R' & V').
    split; [exact W'|]. split; [rewrite R', Hpm, Rt; reflexivity|]. intros k. rewrite V', !Vw. reflexivity.
Qed.

(* ---- small consequences of the invariant, in terms of the view ------------------------------------- *)
Lemma wf_no_2cycle s a b : wf s -> pmap s a = Some (Some b) -> pmap s b = Some (Some a) -> False.
Proof.
  intros W. rewrite !pmap_aget. destruct (aget a (nodes s)) as [na|] eqn:Ea; cbn; [|discriminate].
  destruct (aget b (nodes s)) as [nb|] eqn:Eb; cbn; [|discriminate]. intros [= Ha] [= Hb].
  destruct (wf_acyc s W) as [d Hd]. pose proof (Hd a na b Ea Ha). pose proof (Hd b nb a Eb Hb). lia.
Qed.

Lemma wf_root_is s k : wf s -> pmap s k = Some None -> root s = Some k.
Proof.
  intros W. rewrite pmap_aget. destruct (aget k (nodes s)) as [nk|] eqn:E; cbn; [|discriminate]. intros [= Hp].
  destruct (wf_root s W) as (r & rn & Hr & _ & _ & Hu). rewrite Hr. f_equal. symmetry. apply (Hu k nk E Hp).
Qed.

Lemma pmap_view s k q b : view s k = Some (q, b) -> pmap s k = Some q.
Proof. unfold pmap. intros ->. reflexivity. Qed.

Lemma pmap_view_none s k : view s k = None -> pmap s k = None.
Proof. unfold pmap. intros ->. reflexivity. Qed.

Lemma view_ext_pmap s s' : (forall k, view s' k = view s k) -> forall k, pmap s' k = pmap s k.
Proof. intros H k. unfold pmap. rewrite H. reflexivity. Qed.


Section Local.
  Variables (tmp : tmpids) (kd : id -> nat) (s0 : store) (n : id) (nd0 : node).
  Hypothesis W0 : wf s0.
  Hypothesis En0 : aget n (nodes s0) = Some nd0.
  Let D := children nd0.
  Let T (j : nat) (c : id) : id := tmp j c n.
  Hypothesis Tfresh : forall j c, j <= 2 -> In c D -> view s0 (T j c) = None.
  Hypothesis Tinj : forall j j' c c', j <= 2 -> j' <= 2 -> In c D -> In c' D -> T j c = T j' c' -> j = j' /\ c = c'.
  Let b0 (c : id) : nat := match view s0 c with Some (_, b) => b | None => 0 end.

  Lemma D_view c : In c D -> view s0 c = Some (Some n, b0 c).
  Proof.
    intros Hc. apply (wf_children_iff s0 n nd0 c W0 En0) in Hc. unfold b0. unfold pmap in Hc.
    destruct (view s0 c) as [[q b]|]; cbn in Hc; [|discriminate]. injection Hc as ->. reflexivity.
  Qed.
  Lemma D_iff k : pmap s0 k = Some (Some n) -> In k D.
  Proof. apply (wf_children_iff s0 n nd0 k W0 En0). Qed.
  Lemma D_nodup : NoDup D.
  Proof. apply (wf_children_nodup s0 n nd0 W0 En0). Qed.
  Lemma n_notD : ~ In n D.
  Proof. intros H. apply D_view in H. apply pmap_view in H. rewrite pmap_aget, En0 in H. cbn in H. injection H as H.
         apply (wf_not_self_parent s0 n nd0 W0 En0 H). Qed.
  Lemma T_notD j c : j <= 2 -> In c D -> ~ In (T j c) D.
  Proof. intros Hj Hc H. apply D_view in H. rewrite (Tfresh j c Hj Hc) in H. discriminate. Qed.
  Lemma T_not_n j c : j <= 2 -> In c D -> T j c <> n.
  Proof. intros Hj Hc H. pose proof (Tfresh j c Hj Hc) as F. rewrite H in F. apply view_none in F. tcongr. Qed.
  Lemma v0_parent_notT k q b j c : j <= 2 -> In c D -> view s0 k = Some (Some q, b) -> q <> T j c.
  Proof.
    intros Hj Hc Hv ->. apply pmap_view in Hv. destruct (wf_parent_present s0 k _ W0 Hv) as [qn Eq].
    pose proof (Tfresh j c Hj Hc) as F. apply view_none in F. tcongr.
  Qed.

  Definition stage_ok (s : store) (c : id) (st : nat) : Prop :=
    match st with
    | 0 => view s c = view s0 c /\ view s (T 1 c) = None /\ view s (T 2 c) = None
    | 1 => view s c = Some (Some (T 2 c), b0 c) /\ view s (T 2 c) = Some (Some (T 1 c), kd c) /\ view s (T 1 c) = Some (Some n, b0 c)
    | 2 => view s c = Some (Some (T 2 c), b0 c) /\ view s (T 2 c) = Some (Some n, kd c) /\ view s (T 1 c) = None
    | _ => view s c = Some (Some n, kd c) /\ view s (T 2 c) = None /\ view s (T 1 c) = None
    end.

  Definition Inv (sg : id -> nat) (s : store) : Prop :=
    wf s /\ root s = root s0 /\ (forall c, In c D -> stage_ok s c (sg c)) /\
    (forall k, ~ In k D -> (forall c, In c D -> k <> T 1 c /\ k <> T 2 c) -> view s k = view s0 k).

  Lemma Inv_ext sg sg' s : (forall c, In c D -> sg c = sg' c) -> Inv sg s -> Inv sg' s.
  Proof. intros H (A & B & C & E). split; [exact A|]. split; [exact B|]. split; [|exact E]. intros c Hc. rewrite <- (H c Hc). apply C. exact Hc. Qed.

  Lemma Inv_init : Inv (fun _ => 0) s0.
  Proof.
    split; [exact W0|]. split; [reflexivity|]. split; [|auto].
    intros c Hc. cbn. split; [reflexivity|]. split; apply Tfresh; auto.
  Qed.

  Definition upd (sg : id -> nat) (c : id) (v : nat) : id -> nat := fun x => if Nat.eqb x c then v else sg x.

  (* a frame lemma: if the new view agrees with the old one away from c, T 1 c, T 2 c, the other
     children's stage facts and the rest are kept *)
  Lemma Inv_frame sg s s' c v : Inv sg s -> In c D -> wf s' -> root s' = root s ->
    stage_ok s' c v ->
    (forall k, k <> c -> k <> T 1 c -> k <> T 2 c -> view s' k = view s k) ->
    Inv (upd sg c v) s'.
  Proof.
    intros (Ws & Rs & St & Oth) Hc W' R' Sc Fr. split; [exact W'|]. split; [tcongr|]. split.
    - intros c' Hc'. unfold upd. destruct (Nat.eqb_spec c' c) as [->|Hne]; [exact Sc|].
      assert (N1 : forall j j', j <= 2 -> j' <= 2 -> T j c' <> T j' c).
      { intros j j' Hj Hj' E. destruct (Tinj j j' c' c Hj Hj' Hc' Hc E) as [_ ?]. contradiction. }
      assert (N2 : forall j, j <= 2 -> T j c' <> c) by (intros j Hj E; apply (T_notD j c' Hj Hc'); rewrite E; exact Hc).
      assert (N3 : forall j, j <= 2 -> c' <> T j c) by (intros j Hj E; apply (T_notD j c Hj Hc); rewrite <- E; exact Hc').
      specialize (St c' Hc'). unfold stage_ok in *.
      rewrite !Fr by (auto using N1, N2, N3).
      exact St.
    - intros k Hk Ht. rewrite Fr; [apply Oth; assumption| |apply (Ht c Hc)|apply (Ht c Hc)].
      intros ->. contradiction.
  Qed.

  Lemma eqbF x y : x <> y -> Nat.eqb x y = false.
  Proof. apply Nat.eqb_neq. Qed.

  Lemma T_distinct j j' c : j <= 2 -> j' <= 2 -> In c D -> j <> j' -> T j c <> T j' c.
  Proof. intros Hj Hj' Hc Hne E. destruct (Tinj j j' c c Hj Hj' Hc Hc E) as [? _]. contradiction. Qed.

  Lemma c_not_T j c c' : j <= 2 -> In c D -> In c' D -> c <> T j c'.
  Proof. intros Hj Hc Hc' E. apply (T_notD j c' Hj Hc'). rewrite <- E. exact Hc. Qed.

  (* first loop: identity on the bond, replaced by the projector pair *)
  Lemma step1 sg s c s' : Inv sg s -> In c D -> sg c = 0 -> proj_step tmp kd n (Some s) c = Some s' -> Inv (upd sg c 1) s'.
  Proof.
    intros I Hc Hsg H. pose proof I as (Ws & Rs & St & Oth).
    cbn [proj_step] in H. destruct (access s n) as [[[s1 nd1] t1]|] eqn:Ha; [|discriminate].
    destruct (access_view _ _ _ _ _ Ws Ha) as (W1 & V1 & R1).
    unfold insert_projector in H. change (tmp 0 c n) with (T 0 c) in H. change (tmp 1 c n) with (T 1 c) in H.
    change (tmp 2 c n) with (T 2 c) in H.
    destruct (insert_identity s1 c n (T 0 c)) as [sa|] eqn:Hi; [|discriminate].
    destruct (ii_view _ _ _ _ _ W1 Hi) as (Wa & Ra & Hn0 & b & Vc & Va).
    pose proof (St c Hc) as Sc. rewrite Hsg in Sc. destruct Sc as (Sc1 & Sc2 & Sc3).
    rewrite V1, Sc1, (D_view c Hc) in Vc. injection Vc as <-.
    assert (N01 : T 0 c <> T 1 c) by (apply T_distinct; auto).
    assert (N02 : T 0 c <> T 2 c) by (apply T_distinct; auto).
    assert (N12 : T 1 c <> T 2 c) by (apply T_distinct; auto).
    assert (Nc0 : c <> T 0 c) by (apply c_not_T; auto).
    assert (Nc1 : c <> T 1 c) by (apply c_not_T; auto).
    assert (Nc2 : c <> T 2 c) by (apply c_not_T; auto).
    set (o := Build_legspec (Some n) [] [] false) in H. set (i := Build_legspec None [c] [] false) in H.
    assert (VI : view sa (T 0 c) = Some (Some n, b0 c)) by (rewrite Va, Nat.eqb_refl; reflexivity).
    assert (VC : view sa c = Some (Some (T 0 c), b0 c)) by (rewrite Va, (eqbF c (T 0 c)), Nat.eqb_refl by assumption; reflexivity).
    assert (Hspec : spec_ok sa (T 0 c) o i).
    { intros ndI EI. rewrite (view_of _ _ _ EI) in VI. injection VI as HpI _.
      split; unfold leg_ok; cbn [o i ls_parent ls_root ls_children ls_open].
      - split; [intros q [= <-]; exact HpI|]. split; [discriminate|]. split; [intros x []|intros l []].
      - split; [discriminate|]. split; [discriminate|]. split; [|intros l []].
        intros x [<-|[]]. apply (wf_children_iff sa (T 0 c) ndI c Wa EI). eapply pmap_view; eauto. }
    assert (Hf1 : ~ In (T 1 c) (akeys (nodes sa))).
    { apply aget_None. apply view_none. rewrite Va, (eqbF (T 1 c) (T 0 c)), (eqbF (T 1 c) c), V1 by auto. exact Sc2. }
    assert (Hf2 : ~ In (T 2 c) (akeys (nodes sa))).
    { apply aget_None. apply view_none. rewrite Va, (eqbF (T 2 c) (T 0 c)), (eqbF (T 2 c) c), V1 by auto. exact Sc3. }
    destruct (split_view_eff _ _ _ _ _ _ _ _ _ _ Wa H Hspec Hf1 Hf2) as (U & Lo & su & sl & bd & Hor & Hbd & W' & R' & V').
    destruct Hor as [[Hab _]|(_ & -> & -> & -> & ->)]; [discriminate Hab|].
    rewrite (Hbd (le_n 2)) in V'. clear Hbd.
    apply (Inv_frame sg s s' c 1 I Hc W').
    - rewrite R', (pmap_view _ _ _ _ VI), Ra. exact R1.
    - cbn [stage_ok]. rewrite !V'. cbn [split_other o i ls_children memb existsb].
      rewrite (eqbF c (T 1 c)), (eqbF c (T 2 c)), (eqbF c (T 0 c)), Nat.eqb_refl, VC by assumption. cbn [orb].
      rewrite (eqbF (T 2 c) (T 1 c)), !Nat.eqb_refl, VI by auto.
      unfold split_other. cbn [o i ls_children memb existsb]. rewrite Nat.eqb_refl. cbn [orb]. auto.
    - intros k K1 K2 K3. rewrite V'. rewrite (eqbF k (T 1 c)), (eqbF k (T 2 c)) by assumption.
      destruct (Nat.eqb_spec k (T 0 c)) as [->|K0].
      + symmetry. rewrite <- V1. exact Hn0.
      + rewrite Va, (eqbF k (T 0 c)), (eqbF k c), V1 by assumption.
        unfold split_other. cbn [o i ls_children memb existsb]. rewrite (eqbF k c) by assumption. cbn [orb].
        destruct (view s k) as [[q bb]|]; reflexivity.
  Qed.

  Lemma classify k : In k D \/ (exists c, In c D /\ k = T 1 c) \/ (exists c, In c D /\ k = T 2 c) \/
                     (~ In k D /\ forall c, In c D -> k <> T 1 c /\ k <> T 2 c).
  Proof.
    destruct (in_dec Nat.eq_dec k D) as [H|H]; [left; exact H|right].
    destruct (in_dec Nat.eq_dec k (map (T 1) D)) as [H1|H1].
    { left. apply in_map_iff in H1. destruct H1 as (c & E & Hc). exists c. auto. }
    right. destruct (in_dec Nat.eq_dec k (map (T 2) D)) as [H2|H2].
    { left. apply in_map_iff in H2. destruct H2 as (c & E & Hc). exists c. auto. }
    right. split; [exact H|]. intros c Hc. split; intros ->; [apply H1|apply H2]; apply in_map; exact Hc.
  Qed.

  (* who points to a temporary node *)
  Lemma Inv_parent_T sg s k q b c : Inv sg s -> In c D -> view s k = Some (Some q, b) ->
    (q = T 1 c -> k = T 2 c) /\ (q = T 2 c -> k = c).
  Proof.
    intros (Ws & Rs & St & Oth) Hc Hv.
    destruct (classify k) as [Hk|[(c' & Hc' & ->)|[(c' & Hc' & ->)|[Hk Ht]]]].
    - pose proof (St k Hk) as Sk. destruct (sg k) as [|[|[|?]]]; cbn [stage_ok] in Sk; destruct Sk as (S1 & _ & _); rewrite S1 in Hv.
      + rewrite (D_view k Hk) in Hv. injection Hv as <- _. split; intros E; exfalso; symmetry in E; revert E; apply T_not_n; auto.
      + injection Hv as <- _. split; intros E.
        * destruct (Tinj 2 1 k c) as [? _]; auto; lia.
        * destruct (Tinj 2 2 k c) as [_ ?]; auto.
      + injection Hv as <- _. split; intros E.
        * destruct (Tinj 2 1 k c) as [? _]; auto; lia.
        * destruct (Tinj 2 2 k c) as [_ ?]; auto.
      + injection Hv as <- _. split; intros E; exfalso; symmetry in E; revert E; apply T_not_n; auto.
    - pose proof (St c' Hc') as Sk. destruct (sg c') as [|[|[|?]]]; cbn [stage_ok] in Sk; destruct Sk as (_ & S2 & S3); try tcongr.
      rewrite S3 in Hv. injection Hv as <- _. split; intros E; exfalso; symmetry in E; revert E; apply T_not_n; auto.
    - pose proof (St c' Hc') as Sk. destruct (sg c') as [|[|[|?]]]; cbn [stage_ok] in Sk; destruct Sk as (_ & S2 & S3); try tcongr.
      + rewrite S2 in Hv. injection Hv as <- _. split; intros E.
        * destruct (Tinj 1 1 c' c) as [_ ->]; auto.
        * destruct (Tinj 1 2 c' c) as [? _]; auto; lia.
      + rewrite S2 in Hv. injection Hv as <- _. split; intros E; exfalso; symmetry in E; revert E; apply T_not_n; auto.
    - rewrite (Oth k Hk Ht) in Hv.
      split; intros E; exfalso; [apply (v0_parent_notT k q b 1 c)|apply (v0_parent_notT k q b 2 c)]; auto.
  Qed.

  Lemma Inv_view_n sg s : Inv sg s -> view s n = view s0 n.
  Proof.
    intros (_ & _ & _ & Oth). apply Oth; [apply n_notD|]. intros c Hc. split; intros E; symmetry in E; revert E; apply T_not_n; auto.
  Qed.

  (* contract_all_children(node_id): the conjugated projector is absorbed by the node *)
  Lemma step2 sg s c s' : Inv sg s -> In c D -> sg c = 1 -> contract_nodes s n (T 1 c) n = Some s' -> Inv (upd sg c 2) s'.
  Proof.
    intros I Hc Hsg H. pose proof I as (Ws & Rs & St & Oth).
    pose proof (St c Hc) as Sc. rewrite Hsg in Sc. destruct Sc as (Sc1 & Sc2 & Sc3).
    destruct (contract_view_eff s n (T 1 c) n s' Ws H (or_introl eq_refl)) as (W' & p & cc & Hpc & Hne & Hpar & R' & V').
    assert (Hp : p = n /\ cc = T 1 c).
    { destruct Hpc as [[-> ->]|[-> ->]]; [auto|]. exfalso. apply (wf_no_2cycle s n (T 1 c) Ws Hpar). eapply pmap_view; eauto. }
    destruct Hp as [-> ->].
    assert (Nn1 : T 1 c <> n) by (apply T_not_n; auto).
    assert (Nn2 : T 2 c <> n) by (apply T_not_n; auto).
    assert (Ncn : c <> n) by (intros ->; apply n_notD; exact Hc).
    assert (N12 : T 1 c <> T 2 c) by (apply T_distinct; auto).
    assert (Nc1 : c <> T 1 c) by (apply c_not_T; auto).
    assert (Nc2 : c <> T 2 c) by (apply c_not_T; auto).
    apply (Inv_frame sg s s' c 2 I Hc W').
    - rewrite R'. destruct (pmap s n) as [[q|]|] eqn:E; try reflexivity. symmetry. apply wf_root_is; assumption.
    - cbn [stage_ok]. rewrite !V'.
      rewrite (eqbF c n), (eqbF c (T 1 c)), (eqbF (T 2 c) n), (eqbF (T 2 c) (T 1 c)), (eqbF (T 1 c) n), Nat.eqb_refl by auto.
      cbn [orb]. rewrite Sc1, Sc2. cbn [reparent_view].
      rewrite (eqbF (T 2 c) n), (eqbF (T 2 c) (T 1 c)), (eqbF (T 1 c) n), Nat.eqb_refl by auto. cbn [orb]. auto.
    - intros k K1 K2 K3. rewrite V'. destruct (Nat.eqb_spec k n) as [->|Kn]; [reflexivity|].
      rewrite (eqbF k (T 1 c)) by assumption. cbn [orb].
      destruct (view s k) as [[[q|] bb]|] eqn:Ev; cbn [reparent_view]; try reflexivity.
      destruct (Nat.eqb_spec q n) as [->|Hqn]; [reflexivity|]. cbn [orb].
      destruct (Nat.eqb_spec q (T 1 c)) as [->|Hq1]; [|reflexivity].
      exfalso. apply K3. apply (proj1 (Inv_parent_T sg s k _ bb c I Hc Ev)). reflexivity.
  Qed.

  (* second loop: the former child absorbs the projector and keeps its identifier *)
  Lemma step3 sg s c s' : Inv sg s -> In c D -> sg c = 2 -> absorb_step (Some s) (T 2 c) = Some s' -> Inv (upd sg c 3) s'.
  Proof.
    intros I Hc Hsg H. pose proof I as (Ws & Rs & St & Oth).
    pose proof (St c Hc) as Sc. rewrite Hsg in Sc. destruct Sc as (Sc1 & Sc2 & Sc3).
    cbn [absorb_step] in H. destruct (aget (T 2 c) (nodes s)) as [pn|] eqn:Ep; [|discriminate].
    destruct (children pn) as [|oc [|? ?]] eqn:Ech; try discriminate.
    assert (Hoc : oc = c).
    { assert (Hin : In oc (children pn)) by (rewrite Ech; left; reflexivity).
      apply (wf_children_iff s (T 2 c) pn oc Ws Ep) in Hin. unfold pmap in Hin.
      destruct (view s oc) as [[q bb]|] eqn:Ev; cbn in Hin; [|discriminate]. injection Hin as ->.
      apply (proj2 (Inv_parent_T sg s oc _ bb c I Hc Ev)). reflexivity. }
    subst oc. unfold contract_all_children in H. rewrite Ep, Ech in H. cbn [fold_left] in H.
    assert (Nn2 : T 2 c <> n) by (apply T_not_n; auto).
    assert (Ncn : c <> n) by (intros ->; apply n_notD; exact Hc).
    assert (N12 : T 1 c <> T 2 c) by (apply T_distinct; auto).
    assert (Nc1 : c <> T 1 c) by (apply c_not_T; auto).
    assert (Nc2 : c <> T 2 c) by (apply c_not_T; auto).
    destruct (contract_view_eff s (T 2 c) c c s' Ws H (or_intror (or_introl eq_refl))) as (W' & p & cc & Hpc & Hne & Hpar & R' & V').
    assert (Hp : p = T 2 c /\ cc = c).
    { destruct Hpc as [[-> ->]|[-> ->]]; [auto|]. exfalso. rewrite (pmap_view _ _ _ _ Sc2) in Hpar. injection Hpar as E. tcongr. }
    destruct Hp as [-> ->].
    apply (Inv_frame sg s s' c 3 I Hc W').
    - rewrite R', (pmap_view _ _ _ _ Sc2). reflexivity.
    - cbn [stage_ok]. rewrite !V'. rewrite Nat.eqb_refl, (eqbF (T 2 c) c), (eqbF (T 1 c) c), (eqbF (T 1 c) (T 2 c)), Nat.eqb_refl by auto.
      cbn [orb]. rewrite Sc2, Sc3. auto.
    - intros k K1 K2 K3. rewrite V'. rewrite (eqbF k c), (eqbF k (T 2 c)) by assumption. cbn [orb].
      destruct (view s k) as [[[q|] bb]|] eqn:Ev; cbn [reparent_view]; try reflexivity.
      destruct (Nat.eqb_spec q (T 2 c)) as [->|Hq2].
      + exfalso. apply K1. apply (proj2 (Inv_parent_T sg s k _ bb c I Hc Ev)). reflexivity.
      + cbn [orb]. destruct (Nat.eqb_spec q c) as [->|]; reflexivity.
  Qed.

  Lemma proj_fold_none L : fold_left (proj_step tmp kd n) L None = None.
  Proof. induction L as [|x t IH]; cbn; auto. Qed.
  Lemma contract_fold_none (L : list id) (a new : id) :
    fold_left (fun acc c => match acc with Some s' => contract_nodes s' a c new | None => None end) L None = None.
  Proof. induction L as [|x t IH]; cbn; auto. Qed.
  Lemma absorb_fold_none L : fold_left absorb_step L None = None.
  Proof. induction L as [|x t IH]; cbn; auto. Qed.

  Lemma T_inj1 j c c' : j <= 2 -> In c D -> In c' D -> T j c = T j c' -> c = c'.
  Proof. intros Hj Hc Hc' E. destruct (Tinj j j c c' Hj Hj Hc Hc' E) as [_ ?]. assumption. Qed.

  Lemma loop1 : forall L sg s s', Inv sg s -> NoDup L -> (forall c, In c L -> In c D /\ sg c = 0) ->
    fold_left (proj_step tmp kd n) L (Some s) = Some s' -> Inv (fun x => if memb x L then 1 else sg x) s'.
  Proof.
    induction L as [|c t IH]; intros sg s s' I Hnd HL H.
    - cbn in H. injection H as <-. exact I.
    - cbn [fold_left] in H. destruct (proj_step tmp kd n (Some s) c) as [s1|] eqn:E; [|rewrite proj_fold_none in H; discriminate].
      inversion Hnd as [|? ? Hni Hnd']; subst. destruct (HL c (or_introl eq_refl)) as [HcD Hsg].
      pose proof (step1 sg s c s1 I HcD Hsg E) as I1.
      assert (HL1 : forall c', In c' t -> In c' D /\ upd sg c 1 c' = 0).
      { intros c' Hc'. destruct (HL c' (or_intror Hc')) as [A B]. split; [exact A|]. unfold upd.
        destruct (Nat.eqb_spec c' c) as [->|]; [contradiction|exact B]. }
      pose proof (IH _ _ _ I1 Hnd' HL1 H) as I2. revert I2. apply Inv_ext. intros x _. unfold upd. cbn [memb existsb].
      fold (memb x t). destruct (memb x t); [rewrite orb_true_r; reflexivity|]. rewrite orb_false_r. reflexivity.
  Qed.

  Lemma loop2 : forall L sg s s', Inv sg s -> NoDup L -> (forall x, In x L -> exists c, In c D /\ x = T 1 c /\ sg c = 1) ->
    fold_left (fun acc x => match acc with Some s' => contract_nodes s' n x n | None => None end) L (Some s) = Some s' ->
    Inv (fun c => if memb (T 1 c) L then 2 else sg c) s'.
  Proof.
    induction L as [|x t IH]; intros sg s s' I Hnd HL H.
    - cbn in H. injection H as <-. exact I.
    - cbn [fold_left] in H. destruct (contract_nodes s n x n) as [s1|] eqn:E; [|rewrite contract_fold_none in H; discriminate].
      inversion Hnd as [|? ? Hni Hnd']; subst. destruct (HL x (or_introl eq_refl)) as (c & HcD & -> & Hsg).
      pose proof (step2 sg s c s1 I HcD Hsg E) as I1.
      assert (HL1 : forall x', In x' t -> exists c', In c' D /\ x' = T 1 c' /\ upd sg c 2 c' = 1).
      { intros x' Hx'. destruct (HL x' (or_intror Hx')) as (c' & A & B & C). exists c'. split; [exact A|]. split; [exact B|].
        unfold upd. destruct (Nat.eqb_spec c' c) as [->|]; [subst x'; contradiction|exact C]. }
      pose proof (IH _ _ _ I1 Hnd' HL1 H) as I2. revert I2. apply Inv_ext. intros c' Hc'. unfold upd. cbn [memb existsb].
      fold (memb (T 1 c') t). destruct (memb (T 1 c') t); [rewrite orb_true_r; reflexivity|]. rewrite orb_false_r.
      destruct (Nat.eqb_spec c' c) as [->|Hne]; [rewrite Nat.eqb_refl; reflexivity|].
      rewrite eqbF; [reflexivity|]. intros E'. apply Hne. apply (T_inj1 1 c' c); auto.
  Qed.

  Lemma loop3 : forall L sg s s', Inv sg s -> NoDup L -> (forall x, In x L -> exists c, In c D /\ x = T 2 c /\ sg c = 2) ->
    fold_left absorb_step L (Some s) = Some s' -> Inv (fun c => if memb (T 2 c) L then 3 else sg c) s'.
  Proof.
    induction L as [|x t IH]; intros sg s s' I Hnd HL H.
    - cbn in H. injection H as <-. exact I.
    - cbn [fold_left] in H. destruct (absorb_step (Some s) x) as [s1|] eqn:E; [|rewrite absorb_fold_none in H; discriminate].
      inversion Hnd as [|? ? Hni Hnd']; subst. destruct (HL x (or_introl eq_refl)) as (c & HcD & -> & Hsg).
      pose proof (step3 sg s c s1 I HcD Hsg E) as I1.
      assert (HL1 : forall x', In x' t -> exists c', In c' D /\ x' = T 2 c' /\ upd sg c 3 c' = 2).
      { intros x' Hx'. destruct (HL x' (or_intror Hx')) as (c' & A & B & C). exists c'. split; [exact A|]. split; [exact B|].
        unfold upd. destruct (Nat.eqb_spec c' c) as [->|]; [subst x'; contradiction|exact C]. }
      pose proof (IH _ _ _ I1 Hnd' HL1 H) as I2. revert I2. apply Inv_ext. intros c' Hc'. unfold upd. cbn [memb existsb].
      fold (memb (T 2 c') t). destruct (memb (T 2 c') t); [rewrite orb_true_r; reflexivity|]. rewrite orb_false_r.
      destruct (Nat.eqb_spec c' c) as [->|Hne]; [rewrite Nat.eqb_refl; reflexivity|].
      rewrite eqbF; [reflexivity|]. intros E'. apply Hne. apply (T_inj1 2 c' c); auto.
  Qed.

  (* the children of n when every bond is at stage 1 (resp. 2) *)
  Lemma children_stage sg s x st : Inv sg s -> (forall c, In c D -> sg c = st) -> (st = 1 \/ st = 2) ->
    pmap s x = Some (Some n) -> exists c, In c D /\ x = T st c.
  Proof.
    intros I Hsg Hst Hx. pose proof I as (Ws & Rs & St & Oth). unfold pmap in Hx.
    destruct (view s x) as [[q bb]|] eqn:Ev; cbn in Hx; [|discriminate]. injection Hx as ->.
    destruct (classify x) as [Hk|[(c' & Hc' & ->)|[(c' & Hc' & ->)|[Hk Ht]]]].
    - exfalso. pose proof (St x Hk) as Sk. rewrite (Hsg x Hk) in Sk.
      destruct Hst as [-> | ->]; cbn [stage_ok] in Sk; destruct Sk as (S1 & _); rewrite S1 in Ev; injection Ev as E _;
        revert E; apply T_not_n; auto.
    - pose proof (St c' Hc') as Sk. rewrite (Hsg c' Hc') in Sk. destruct Hst as [-> | ->].
      + exists c'. auto.
      + cbn [stage_ok] in Sk. destruct Sk as (_ & _ & S3). tcongr.
    - pose proof (St c' Hc') as Sk. rewrite (Hsg c' Hc') in Sk. destruct Hst as [-> | ->].
      + cbn [stage_ok] in Sk. destruct Sk as (_ & S2 & _). rewrite S2 in Ev. injection Ev as E _. exfalso. revert E. apply T_not_n; auto.
      + exists c'. auto.
    - exfalso. rewrite (Oth x Hk Ht) in Ev. apply Hk. apply D_iff. eapply pmap_view; eauto.
  Qed.

  Theorem local_spec s3 orig : truncate_local tmp kd s0 n = Some (s3, orig) ->
    orig = D /\ wf s3 /\ root s3 = root s0 /\
    forall k, view s3 k = if memb k D then Some (Some n, kd k) else view s0 k.
  Proof.
    unfold truncate_local. rewrite En0. fold D.
    destruct (fold_left (proj_step tmp kd n) D (Some s0)) as [s1|] eqn:F1; [|discriminate].
    assert (I1 : Inv (fun _ => 1) s1).
    { pose proof (loop1 D (fun _ => 0) s0 s1 Inv_init D_nodup (fun c Hc => conj Hc eq_refl) F1) as I.
      revert I. apply Inv_ext. intros c Hc. apply memb_In in Hc. rewrite Hc. reflexivity. }
    unfold contract_all_children at 1. destruct (aget n (nodes s1)) as [nd1|] eqn:E1; [|discriminate].
    destruct (fold_left _ (children nd1) (Some s1)) as [s2|] eqn:F2; [|discriminate].
    pose proof I1 as (W1 & _).
    assert (I2 : Inv (fun _ => 2) s2).
    { assert (HL : forall x, In x (children nd1) -> exists c, In c D /\ x = T 1 c /\ 1 = 1).
      { intros x Hx. apply (wf_children_iff s1 n nd1 x W1 E1) in Hx.
        destruct (children_stage _ s1 x 1 I1 (fun _ _ => eq_refl) (or_introl eq_refl) Hx) as (c & A & B). exists c. auto. }
      pose proof (loop2 _ _ s1 s2 I1 (wf_children_nodup s1 n nd1 W1 E1) HL F2) as I.
      revert I. apply Inv_ext. intros c Hc.
      assert (Hin : In (T 1 c) (children nd1)).
      { apply (wf_children_iff s1 n nd1 _ W1 E1). destruct I1 as (_ & _ & St & _). destruct (St c Hc) as (_ & _ & S3).
        eapply pmap_view; eauto. }
      apply memb_In in Hin. rewrite Hin. reflexivity. }
    destruct (aget n (nodes s2)) as [nd2|] eqn:E2; [|discriminate].
    destruct (fold_left absorb_step (children nd2) (Some s2)) as [s3'|] eqn:F3; [|discriminate].
    intros [= <- <-]. split; [reflexivity|].
    pose proof I2 as (W2 & _).
    assert (I3 : Inv (fun _ => 3) s3').
    { assert (HL : forall x, In x (children nd2) -> exists c, In c D /\ x = T 2 c /\ 2 = 2).
      { intros x Hx. apply (wf_children_iff s2 n nd2 x W2 E2) in Hx.
        destruct (children_stage _ s2 x 2 I2 (fun _ _ => eq_refl) (or_intror eq_refl) Hx) as (c & A & B). exists c. auto. }
      pose proof (loop3 _ _ s2 s3' I2 (wf_children_nodup s2 n nd2 W2 E2) HL F3) as I.
      revert I. apply Inv_ext. intros c Hc.
      assert (Hin : In (T 2 c) (children nd2)).
      { apply (wf_children_iff s2 n nd2 _ W2 E2). destruct I2 as (_ & _ & St & _). destruct (St c Hc) as (_ & S2 & _).
        eapply pmap_view; eauto. }
      apply memb_In in Hin. rewrite Hin. reflexivity. }
    destruct I3 as (W3 & R3 & St & Oth). split; [exact W3|]. split; [exact R3|].
    intros k. destruct (classify k) as [Hk|[(c' & Hc' & ->)|[(c' & Hc' & ->)|[Hk Ht]]]].
    - destruct (St k Hk) as (S1 & _). apply memb_In in Hk. rewrite Hk. exact S1.
    - destruct (St c' Hc') as (_ & _ & S3). rewrite (proj2 (memb_false _ _) (T_notD 1 c' (le_S _ _ (le_n 1)) Hc')).
      rewrite S3. symmetry. apply Tfresh; auto.
    - destruct (St c' Hc') as (_ & S2 & _). rewrite (proj2 (memb_false _ _) (T_notD 2 c' (le_n 2) Hc')).
      rewrite S2. symmetry. apply Tfresh; auto.
    - rewrite (proj2 (memb_false _ _) Hk). apply Oth; assumption.
  Qed.
End Local.


Lemma desc_ext pm pm' a k : (forall x, pm' x = pm x) -> desc pm a k -> desc pm' a k.
Proof.
  intros H D. induction D as [k Hk|k q Hk _ IH].
  - apply desc_child. rewrite H. exact Hk.
  - apply (desc_step _ _ k q); [rewrite H; exact Hk|exact IH].
Qed.

Lemma desc_up pm a c k : pm c = Some (Some a) -> desc pm c k -> desc pm a k.
Proof.
  intros Hc D. induction D as [k Hk|k q Hk _ IH].
  - apply (desc_step _ _ k c); [exact Hk|apply desc_child; exact Hc].
  - apply (desc_step _ _ k q); assumption.
Qed.

Lemma desc_down pm a k : desc pm a k -> pm k = Some (Some a) \/ exists c, pm c = Some (Some a) /\ desc pm c k.
Proof.
  intros D. induction D as [k Hk|k q Hk _ IH]; [left; exact Hk|right].
  destruct IH as [Hq|(c & Hc & Dc)].
  - exists q. split; [exact Hq|apply desc_child; exact Hk].
  - exists c. split; [exact Hc|apply (desc_step _ _ k q); assumption].
Qed.

Definition trunc_post (kd : id -> nat) (s : store) (n : id) (s' : store) : Prop :=
  wf s' /\ root s' = root s /\ (forall k, pmap s' k = pmap s k) /\
  forall k, (desc (pmap s) n k /\ exists q, view s' k = Some (Some q, kd k)) \/
            (~ desc (pmap s) n k /\ view s' k = view s k).

Lemma pmap_keys s s' k : (forall x, pmap s' x = pmap s x) -> (In k (akeys (nodes s')) <-> In k (akeys (nodes s))).
Proof.
  intros H. specialize (H k). rewrite !pmap_aget in H.
  split; intros Hin; apply keys_aget in Hin; destruct Hin as [v Hv]; rewrite Hv in H; cbn in H.
  - destruct (aget k (nodes s)) eqn:E; [eapply aget_Some_keys; eauto|discriminate].
  - destruct (aget k (nodes s')) eqn:E; [eapply aget_Some_keys; eauto|discriminate].
Qed.

Lemma tmp_fresh_pmap tmp s s' : (forall k, pmap s' k = pmap s k) -> tmp_fresh tmp s -> tmp_fresh tmp s'.
Proof.
  intros H F j c m Hj Hc Hm. apply (pmap_keys s s' c H) in Hc. apply (pmap_keys s s' m H) in Hm.
  specialize (F j c m Hj Hc Hm). specialize (H (tmp j c m)). rewrite !pmap_aget, F in H.
  destruct (aget (tmp j c m) (nodes s')); [discriminate|reflexivity].
Qed.

Lemma fresh_local tmp s n nd : wf s -> aget n (nodes s) = Some nd -> tmp_fresh tmp s ->
  forall j c, j <= 2 -> In c (children nd) -> view s (tmp j c n) = None.
Proof.
  intros W En F j c Hj Hc. apply view_none. apply (F j c n Hj); [|eapply aget_Some_keys; eauto].
  destruct (wf_child_parent s n nd c W En Hc) as (cn & Ec & _). eapply aget_Some_keys; eauto.
Qed.

Lemma trunc_fold_none f tmp kd L :
  fold_left (fun acc c => match acc with Some s' => truncate_node f tmp kd s' c | None => None end) L None = None.
Proof. induction L as [|x t IH]; cbn; auto. Qed.

Section Rec.
  Variables (tmp : tmpids) (kd : id -> nat).
  Hypothesis Tinj : tmp_inj tmp.

  Lemma trunc_fold f :
    (forall s n s', wf s -> tmp_fresh tmp s -> truncate_node f tmp kd s n = Some s' -> trunc_post kd s n s') ->
    forall L s s', wf s -> tmp_fresh tmp s ->
      fold_left (fun acc c => match acc with Some s' => truncate_node f tmp kd s' c | None => None end) L (Some s) = Some s' ->
      wf s' /\ root s' = root s /\ (forall k, pmap s' k = pmap s k) /\
      forall k, ((exists c, In c L /\ desc (pmap s) c k) /\ exists q, view s' k = Some (Some q, kd k)) \/
                ((forall c, In c L -> ~ desc (pmap s) c k) /\ view s' k = view s k).
  Proof.
    intros IHf. induction L as [|c t IH]; intros s s' W F H.
    - cbn in H. injection H as <-. split; [exact W|]. split; [reflexivity|]. split; [reflexivity|].
      intros k. right. split; [intros c []|reflexivity].
    - cbn [fold_left] in H. destruct (truncate_node f tmp kd s c) as [s1|] eqn:E; [|rewrite trunc_fold_none in H; discriminate].
      destruct (IHf s c s1 W F E) as (W1 & R1 & P1 & V1).
      destruct (IH s1 s' W1 (tmp_fresh_pmap _ _ _ P1 F) H) as (W' & R' & P' & V').
      split; [exact W'|]. split; [tcongr|]. split; [intros k; rewrite P'; apply P1|].
      intros k. destruct (V' k) as [[(c' & Hc' & Dc') Hv]|[Hn Hv]].
      + left. split; [|exact Hv]. exists c'. split; [right; exact Hc'|]. apply (desc_ext (pmap s1)); [intros x; symmetry; apply P1|exact Dc'].
      + destruct (V1 k) as [[Dc (q & Hq)]|[Nc Hq]].
        * left. split; [exists c; split; [left; reflexivity|exact Dc]|]. exists q. rewrite Hv. exact Hq.
        * right. split; [|rewrite Hv; exact Hq]. intros c' [<-|Hc']; [exact Nc|].
          intros Dc'. apply (Hn c' Hc'). apply (desc_ext (pmap s)); [exact P1|exact Dc'].
  Qed.

  Theorem truncate_node_spec : forall f s n s', wf s -> tmp_fresh tmp s ->
    truncate_node f tmp kd s n = Some s' -> trunc_post kd s n s'.
  Proof.
    induction f as [|f IHf]; intros s n s' W F H; [discriminate|].
    cbn [truncate_node] in H. destruct (truncate_local tmp kd s n) as [[s3 orig]|] eqn:EL; [|discriminate].
    assert (En : exists nd, aget n (nodes s) = Some nd).
    { unfold truncate_local in EL. destruct (aget n (nodes s)) as [nd|]; [eauto|discriminate]. }
    destruct En as [nd En].
    destruct (local_spec tmp kd s n nd W En (fresh_local tmp s n nd W En F) (fun j j' c c' Hj Hj' _ _ => Tinj j j' c c' n Hj Hj') s3 orig EL)
      as (-> & W3 & R3 & V3).
    assert (Hch : forall k, In k (children nd) <-> pmap s k = Some (Some n)) by (intros k; apply wf_children_iff; assumption).
    assert (P3 : forall k, pmap s3 k = pmap s k).
    { intros k. unfold pmap at 1. rewrite V3. destruct (memb k (children nd)) eqn:M; [|reflexivity].
      apply memb_In in M. apply Hch in M. rewrite M. reflexivity. }
    destruct (trunc_fold f IHf (children nd) s3 s' W3 (tmp_fresh_pmap _ _ _ P3 F) H) as (W' & R' & P' & V').
    split; [exact W'|]. split; [tcongr|]. split; [intros k; rewrite P'; apply P3|].
    intros k. destruct (V' k) as [[(c & Hc & Dc) Hv]|[Hn Hv]].
    - left. split; [|exact Hv]. apply (desc_up _ n c); [apply Hch; exact Hc|].
      apply (desc_ext (pmap s3)); [intros x; symmetry; apply P3|exact Dc].
    - rewrite V3 in Hv. destruct (memb k (children nd)) eqn:M.
      + left. apply memb_In in M. split; [apply desc_child; apply Hch; exact M|eauto].
      + right. split; [|exact Hv]. intros Dn. apply desc_down in Dn. destruct Dn as [Hk|(c & Hc & Dc)].
        * apply memb_false in M. apply M. apply Hch. exact Hk.
        * apply (Hn c); [apply Hch; exact Hc|]. apply (desc_ext (pmap s)); [exact P3|exact Dc].
  Qed.
End Rec.


(* ---- the canonical-form layer keeps the store invariant and the parent map ------------------------- *)
Definition kept (rid : id) (s s' : store) : Prop :=
  wf s' /\ aget rid (nodes s') = None /\ root s' = root s /\ forall k, pmap s' k = pmap s k.

Lemma kept_refl rid s : wf s -> aget rid (nodes s) = None -> kept rid s s.
Proof. intros W H. split; [exact W|]. split; [exact H|]. split; reflexivity. Qed.

Lemma kept_trans rid s1 s2 s3 : kept rid s1 s2 -> kept rid s2 s3 -> kept rid s1 s3.
Proof.
  intros (A1 & A2 & A3 & A4) (B1 & B2 & B3 & B4). split; [exact B1|]. split; [exact B2|]. split; [tcongr|].
  intros k. rewrite B4. apply A4.
Qed.

Lemma qr_step_kept s n nb m rid s' : wf s -> aget rid (nodes s) = None ->
  qr_to_neighbour s n nb m rid = Some s' -> kept rid s s'.
Proof.
  intros W Hrid H.
  assert (Wb : wfb s = true) by (apply wf_wfb; exact W).
  assert (Hr : amem rid (nodes s) = false) by (apply amem_false; exact Hrid).
  destruct (qr_to_neighbour_effect s n nb m rid s' Wb Hr H)
    as (nd & nd' & t' & leg & df & nbn & nbn' & En & Hin & En' & _ & _ & _ & _ & _ & _ & _ & _ & Hoth & Hkeys & Hroot & Hp & _ & Eb & Eb' & Hpb & _ & Hrid' & _).
  assert (Hnb : n <> nb).
  { intros ->. apply in_neighbouring in Hin. destruct Hin as [Hpp|Hc].
    - apply (wf_not_self_parent s nb nd W En Hpp).
    - apply (wf_not_self_child s nb nd W En Hc). }
  split.
  { (* the invariant *)
    unfold qr_to_neighbour in H. rewrite En in H.
    destruct (build_qr_leg_specs nd nb) as [q r] eqn:Eqr.
    destruct (split_nodes s n q r n rid 0 m 0) as [s1|] eqn:Es; [|discriminate].
    assert (Hspec : spec_ok s n q r).
    { intros nd0 E0. rewrite En in E0. injection E0 as <-. unfold build_qr_leg_specs in Eqr.
      assert (Hopen : forall l, In l (seq (nvirt nd) (nopen nd)) -> nvirt nd <= l) by (intros l Hl; apply in_seq in Hl; lia).
      destruct (match parent nd with Some p => Nat.eqb p nb | None => false end) eqn:Hco; injection Eqr as <- <-.
      - destruct (parent nd) as [p|] eqn:Hpp; [|discriminate]. apply Nat.eqb_eq in Hco. subst p.
        split; unfold leg_ok; cbn [ls_parent ls_root ls_children ls_open].
        + split; [discriminate|]. split; [intros Hr0; apply is_root_spec in Hr0; tcongr|]. split; [apply incl_refl|exact Hopen].
        + split; [intros x [= <-]; exact Hpp|]. split; [discriminate|]. split; [intros x []|intros l []].
      - assert (Hc : In nb (children nd)).
        { apply in_neighbouring in Hin. destruct Hin as [Hpp|Hc]; [|exact Hc]. rewrite Hpp, Nat.eqb_refl in Hco. discriminate. }
        split; unfold leg_ok; cbn [ls_parent ls_root ls_children ls_open].
        + split; [intros x Hx; exact Hx|]. split; [intros Hr0; apply is_root_spec; exact Hr0|].
          split; [intros x Hx; eapply remove_first_In; eauto|exact Hopen].
        + split; [discriminate|]. split; [discriminate|]. split; [intros x [<-|[]]; exact Hc|intros l []]. }
    assert (Hids : ids_ok s n n rid).
    { split; [left; reflexivity|right]. apply aget_None. exact Hrid. }
    pose proof (split_preserves_wf _ _ _ _ _ _ _ _ _ _ W Es Hspec Hids) as W1.
    apply (contract_preserves_wf s1 nb rid nb s' W1 H). left. reflexivity. }
  split; [exact Hrid'|]. split; [exact Hroot|].
  intros k. rewrite !pmap_aget. destruct (Nat.eq_dec k n) as [->|Hkn]; [rewrite En', En; cbn; rewrite Hp; reflexivity|].
  destruct (Nat.eq_dec k nb) as [->|Hkb]; [rewrite Eb', Eb; cbn; rewrite Hpb; reflexivity|].
  destruct (Hoth k Hkn Hkb) as [-> _]. reflexivity.
Qed.

Lemma canon_fold_kept d m rid : forall L s s', wf s -> aget rid (nodes s) = None ->
  fold_left (canon_step d m rid) L (Some s) = Some s' -> kept rid s s'.
Proof.
  induction L as [|n t IH]; intros s s' W Hr H.
  - cbn in H. injection H as <-. apply kept_refl; assumption.
  - cbn [fold_left] in H. destruct (canon_step d m rid (Some s) n) as [s1|] eqn:E; [|rewrite canon_fold_none in H; discriminate].
    cbn [canon_step] in E. destruct (aget n (nodes s)) as [nd|]; [|discriminate].
    destruct (first_min d (neighbouring_nodes nd) None) as [nb|]; [|discriminate].
    pose proof (qr_step_kept _ _ _ _ _ _ W Hr E) as K1. pose proof K1 as (W1 & R1 & _).
    apply (kept_trans rid s s1 s'); [exact K1|]. apply IH; assumption.
Qed.

Theorem canonical_form_kept s oc c m rid cs' : wf s -> aget rid (nodes s) = None ->
  canonical_form (s, oc) c m rid = Some cs' -> kept rid s (fst cs') /\ snd cs' = Some c.
Proof.
  intros W Hr H. rewrite canonical_form_unfold in H. cbn [fst] in H.
  destruct (negb (amem c (nodes s))); [discriminate|].
  destruct (fold_left _ _ (Some s)) as [sf|] eqn:F; [|discriminate]. injection H as <-. cbn [fst snd].
  split; [|reflexivity]. eapply canon_fold_kept; eauto.
Qed.

Lemma move_fold_kept m rid : forall L s cur cs', wf s -> aget rid (nodes s) = None ->
  fold_left (move_step m rid) L (Some (s, Some cur)) = Some cs' -> kept rid s (fst cs').
Proof.
  induction L as [|nb t IH]; intros s cur cs' W Hr H.
  - cbn in H. injection H as <-. apply kept_refl; assumption.
  - cbn [fold_left move_step] in H. destruct (qr_to_neighbour s cur nb m rid) as [s1|] eqn:E; [|rewrite move_fold_none in H; discriminate].
    pose proof (qr_step_kept _ _ _ _ _ _ W Hr E) as K1. pose proof K1 as (W1 & R1 & _).
    apply (kept_trans rid s s1 (fst cs')); [exact K1|]. eapply IH; eauto.
Qed.

Theorem move_center_kept cs c m rid cs' : wf (fst cs) -> aget rid (nodes (fst cs)) = None ->
  move_center cs c m rid = Some cs' -> kept rid (fst cs) (fst cs').
Proof.
  destruct cs as [s oc]. cbn [fst]. intros W Hr H. unfold move_center in H. cbn [fst snd] in H.
  destruct oc as [c0|]; [|discriminate]. destruct (Nat.eqb c0 c).
  - injection H as <-. apply kept_refl; assumption.
  - eapply (move_fold_kept m rid _ s c0 cs'); eauto.
Qed.


Lemma eqbF' x y : x <> y -> Nat.eqb x y = false.
Proof. apply Nat.eqb_neq. Qed.

(* ---- contract_and_split_with_parent ------------------------------------------------------------------ *)
Theorem cas_spec kd rid cs n cs' : wf (fst cs) -> aget rid (nodes (fst cs)) = None ->
  contract_and_split kd rid cs n = Some cs' ->
  exists p, pmap (fst cs) n = Some (Some p) /\ snd cs' = Some p /\
    wf (fst cs') /\ root (fst cs') = root (fst cs) /\
    forall k, view (fst cs') k = if Nat.eqb k n then Some (Some p, kd n) else view (fst cs) k.
Proof.
  destruct cs as [s oc]. cbn [fst snd]. intros W Hrid H. unfold contract_and_split in H. cbn [fst] in H.
  destruct (aget n (nodes s)) as [nd|] eqn:En; [|discriminate].
  destruct (parent nd) as [p|] eqn:Hp; [|discriminate].
  destruct (legs_before_combination s n p) as [[cl pl]|] eqn:EL; [|discriminate].
  destruct (contract_nodes s n p rid) as [s1|] eqn:EC; [|discriminate].
  destruct (split_nodes s1 rid cl pl n p 2 Reduced (kd n)) as [s2|] eqn:ES; [|discriminate].
  destruct (aget n (nodes s2)) as [nd2|] eqn:En2; [|discriminate]. injection H as <-. cbn [fst snd].
  destruct (wf_parent_child s n nd p W En Hp) as (pn & Ep & Hnin).
  assert (Pn : pmap s n = Some (Some p)) by (rewrite pmap_aget, En; cbn; rewrite Hp; reflexivity).
  assert (Nnp : n <> p) by (intros ->; apply (wf_not_self_parent s p nd W En Hp)).
  assert (Nrn : rid <> n) by (intros ->; tcongr).
  assert (Nrp : rid <> p) by (intros ->; tcongr).
  assert (Vrid : view s rid = None) by (apply view_none; exact Hrid).
  (* the leg specifications *)
  unfold legs_before_combination in EL. rewrite En, Ep in EL.
  assert (Hm : memb n (children pn) = true) by (apply memb_In; exact Hnin). rewrite Hm in EL.
  assert (Hrn : is_root nd = false) by (unfold is_root; rewrite Hp; reflexivity). rewrite Hrn in EL. cbn [negb andb] in EL.
  injection EL as <- <-.
  set (tv := nvirt nd + nvirt pn - 2) in *.
  (* the contraction *)
  destruct (contract_view_eff s n p rid s1 W EC (or_intror (or_intror (proj1 (aget_None _ _) Hrid))))
    as (W1 & p' & c' & Hpc & Hne & Hpar & R1 & V1).
  assert (Hp' : p' = p /\ c' = n).
  { destruct Hpc as [[-> ->]|[-> ->]]; [|auto]. exfalso. apply (wf_no_2cycle s n p W Pn Hpar). }
  destruct Hp' as [-> ->].
  assert (V1r : view s1 rid = view s p) by (rewrite V1, Nat.eqb_refl; reflexivity).
  assert (V1n : view s1 n = None) by (rewrite V1, (eqbF' n rid), Nat.eqb_refl, orb_true_r by auto; reflexivity).
  assert (V1p : view s1 p = None) by (rewrite V1, (eqbF' p rid), Nat.eqb_refl by auto; reflexivity).
  assert (V1o : forall k, k <> rid -> k <> p -> k <> n -> view s1 k = reparent_view p n rid (view s k)).
  { intros k K1 K2 K3. rewrite V1, (eqbF' k rid), (eqbF' k p), (eqbF' k n) by assumption. reflexivity. }
  assert (ER : exists ndR, aget rid (nodes s1) = Some ndR).
  { destruct (aget rid (nodes s1)) as [x|] eqn:E; [eauto|]. apply view_none in E. rewrite V1r, (view_of _ _ _ Ep) in E. discriminate. }
  destruct ER as [ndR ER].
  assert (PR : parent ndR = parent pn).
  { pose proof V1r as E. rewrite (view_of _ _ _ ER), (view_of _ _ _ Ep) in E. injection E as E _. exact E. }
  (* children of the contracted node *)
  assert (ChR : forall x, In x (children ndR) <-> (In x (children nd) \/ (In x (children pn) /\ x <> n))).
  { intros x. rewrite (wf_children_iff s1 rid ndR x W1 ER), (wf_children_iff s n nd x W En), (wf_children_iff s p pn x W Ep).
    destruct (Nat.eq_dec x rid) as [->|X1].
    { unfold pmap. rewrite V1r, Vrid. cbn. split; [intros E|intros [E|[E _]]; discriminate].
      exfalso. destruct (view s p) as [[q b]|] eqn:Evp; cbn in E; [|discriminate]. injection E as ->.
      apply pmap_view in Evp. destruct (wf_parent_present s p rid W Evp) as [x Ex]. tcongr. }
    destruct (Nat.eq_dec x p) as [->|X2].
    { unfold pmap at 1. rewrite V1p. cbn. split; [discriminate|intros [E|[E _]]].
      - exfalso. apply (wf_no_2cycle s n p W Pn E).
      - exfalso. rewrite pmap_aget, Ep in E. cbn in E. injection E as E. apply (wf_not_self_parent s p pn W Ep E). }
    destruct (Nat.eq_dec x n) as [->|X3].
    { unfold pmap at 1. rewrite V1n. cbn. split; [discriminate|intros [E|[_ E]]; [|contradiction]].
      exfalso. rewrite Pn in E. injection E as E. tcongr. }
    unfold pmap. rewrite (V1o x X1 X2 X3). destruct (view s x) as [[[q|] b]|] eqn:Evx; cbn.
    - destruct (Nat.eqb_spec q p) as [->|Hqp]; cbn [orb].
      + split; [intros _; right; auto|reflexivity].
      + destruct (Nat.eqb_spec q n) as [->|Hqn].
        * split; [intros _; left; reflexivity|reflexivity].
        * split; [intros [= E]; exfalso|intros [[= E]|[[= E] _]]; tcongr].
          subst q. apply pmap_view in Evx. destruct (wf_parent_present s x rid W Evx) as [y Ey]. tcongr.
    - split; [discriminate|intros [E|[E _]]; discriminate].
    - split; [discriminate|intros [E|[E _]]; discriminate]. }
  pose proof (wf_children_nodup s n nd W En) as NDn. pose proof (wf_children_nodup s p pn W Ep) as NDp.
  assert (LenR : length (children ndR) + 1 = length (children nd) + length (children pn)).
  { assert (Hperm : Permutation (children ndR) (children nd ++ remove_first n (children pn))).
    { apply NoDup_Permutation.
      - apply (wf_children_nodup s1 rid ndR W1 ER).
      - apply NoDup_app_iff. split; [exact NDn|]. split; [apply remove_first_NoDup; exact NDp|].
        intros x Hx Hx'. apply (In_remove_first x n _ NDp) in Hx'. destruct Hx' as [Hx' _].
        apply (wf_children_iff s n nd x W En) in Hx. apply (wf_children_iff s p pn x W Ep) in Hx'. tcongr.
      - intros x. rewrite ChR, in_app_iff, (In_remove_first x n _ NDp). reflexivity. }
    rewrite (Permutation_length Hperm), app_length. pose proof (remove_first_length n _ Hnin). tlia. }
  assert (NvR : nvirt ndR = tv).
  { unfold nvirt, tv, nvirt, nparents. rewrite PR, Hp. destruct (children pn); [destruct Hnin|]. cbn [length] in *. destruct (parent pn); tlia. }
  set (cl := Build_legspec None (children nd) (seq tv (nopen nd)) false) in *.
  set (pl := Build_legspec (parent pn) (remove_first n (children pn)) (seq (tv + nopen nd) (nlegs nd + nlegs pn - 2 - (tv + nopen nd))) (is_root pn)) in *.
  assert (Hspec : spec_ok s1 rid cl pl).
  { intros x Ex. rewrite ER in Ex. injection Ex as <-. split; unfold leg_ok; cbn [cl pl ls_parent ls_root ls_children ls_open].
    - split; [discriminate|]. split; [discriminate|]. split.
      + intros x Hx. apply ChR. left. exact Hx.
      + intros l Hl. apply in_seq in Hl. lia.
    - split; [intros q Hq; rewrite PR; exact Hq|]. split; [intros Hr; apply is_root_spec in Hr; rewrite PR; exact Hr|]. split.
      + intros x Hx. apply (In_remove_first x n _ NDp) in Hx. apply ChR. right. exact Hx.
      + intros l Hl. apply in_seq in Hl. lia. }
  assert (Hf1 : ~ In n (akeys (nodes s1))) by (apply aget_None; apply view_none; exact V1n).
  assert (Hf2 : ~ In p (akeys (nodes s1))) by (apply aget_None; apply view_none; exact V1p).
  destruct (split_view_eff _ _ _ _ _ _ _ _ _ _ W1 ES Hspec Hf1 Hf2) as (U & Lo & su & sl & bd & Hor & Hbd & W2 & R2 & V2).
  destruct Hor as [(_ & -> & -> & -> & ->)|[Hab _]].
  2:{ exfalso. unfold sp_in_above in Hab. cbn [pl ls_root ls_parent] in Hab. unfold is_root, sp_some in Hab. destruct (parent pn); discriminate. }
  rewrite (Hbd (le_n 2)) in V2. clear Hbd.
  assert (Vfin : forall k, view s2 k = if Nat.eqb k n then Some (Some p, kd n) else view s k).
  { intros k. rewrite V2. destruct (Nat.eqb_spec k p) as [->|K2].
    { rewrite (eqbF' p n) by auto. exact V1r. }
    destruct (Nat.eqb_spec k n) as [->|K3]; [reflexivity|].
    destruct (Nat.eqb_spec k rid) as [->|K1]; [symmetry; exact Vrid|].
    rewrite (V1o k K1 K2 K3). unfold split_other. cbn [cl pl ls_children].
    destruct (view s k) as [[[q|] b]|] eqn:Evk; cbn [reparent_view]; [| |reflexivity].
    - assert (M1 : memb k (children nd) = Nat.eqb q n).
      { destruct (Nat.eqb_spec q n) as [->|Hqn].
        - apply memb_In. apply (wf_children_iff s n nd k W En). eapply pmap_view; eauto.
        - apply memb_false. intros Hin. apply (wf_children_iff s n nd k W En) in Hin. apply pmap_view in Evk. tcongr. }
      assert (M2 : memb k (remove_first n (children pn)) = Nat.eqb q p).
      { destruct (Nat.eqb_spec q p) as [->|Hqp].
        - apply memb_In. apply (In_remove_first k n _ NDp). split; [|exact K3].
          apply (wf_children_iff s p pn k W Ep). eapply pmap_view; eauto.
        - apply memb_false. intros Hin. apply (In_remove_first k n _ NDp) in Hin. destruct Hin as [Hin _].
          apply (wf_children_iff s p pn k W Ep) in Hin. apply pmap_view in Evk. tcongr. }
      rewrite M1, M2. destruct (Nat.eqb_spec q n) as [->|Hqn]; [reflexivity|].
      destruct (Nat.eqb_spec q p) as [->|Hqp]; cbn [orb]; reflexivity.
    - assert (M1 : memb k (children nd) = false).
      { apply memb_false. intros Hin. apply (wf_children_iff s n nd k W En) in Hin. apply pmap_view in Evk. tcongr. }
      assert (M2 : memb k (remove_first n (children pn)) = false).
      { apply memb_false. intros Hin. apply (In_remove_first k n _ NDp) in Hin. destruct Hin as [Hin _].
        apply (wf_children_iff s p pn k W Ep) in Hin. apply pmap_view in Evk. tcongr. }
      rewrite M1, M2. reflexivity. }
  exists p. split; [exact Pn|]. split.
  { pose proof (Vfin n) as E. rewrite Nat.eqb_refl, (view_of _ _ _ En2) in E. injection E as E _. exact E. }
  split; [exact W2|]. split; [|exact Vfin].
  rewrite R2. unfold pmap at 1. rewrite V1r. fold (pmap s p). rewrite R1.
  destruct (pmap s p) as [[q|]|] eqn:Epp; try reflexivity. symmetry. apply wf_root_is; assumption.
Qed.

(* ---- svd_truncation: the loop ---------------------------------------------------------------------------- *)
Lemma svd_fold_none kd rid L : fold_left (svd_step kd rid) L None = None.
Proof. induction L as [|x t IH]; cbn; auto. Qed.


Theorem svd_fold_spec kd rid : forall L cs cs', wf (fst cs) -> aget rid (nodes (fst cs)) = None ->
  fold_left (svd_step kd rid) L (Some cs) = Some cs' ->
  kept rid (fst cs) (fst cs') /\
  match last_opt L with
  | None => cs' = cs
  | Some n => exists p, pmap (fst cs) n = Some (Some p) /\ snd cs' = Some p
  end.
Proof.
  induction L as [|n t IH]; intros cs cs' W Hr H.
  - cbn in H. injection H as <-. split; [apply kept_refl; assumption|reflexivity].
  - cbn [fold_left] in H. destruct (svd_step kd rid (Some cs) n) as [cs2|] eqn:E; [|rewrite svd_fold_none in H; discriminate].
    cbn [svd_step] in E. destruct (move_center cs n Reduced rid) as [cs1|] eqn:Em; [|discriminate].
    pose proof (move_center_kept _ _ _ _ _ W Hr Em) as K1. pose proof K1 as (W1 & R1 & Rt1 & P1).
    destruct (cas_spec kd rid cs1 n cs2 W1 R1 E) as (p & Pn & Hc & W2 & Rt2 & V2).
    assert (K2 : kept rid (fst cs1) (fst cs2)).
    { split; [exact W2|]. split.
      - apply view_none. rewrite V2. destruct (Nat.eqb_spec rid n) as [->|_].
        + exfalso. rewrite pmap_aget, R1 in Pn. discriminate.
        + apply view_none. exact R1.
      - split; [exact Rt2|]. intros k. unfold pmap at 1. rewrite V2. destruct (Nat.eqb_spec k n) as [->|_]; [symmetry; exact Pn|reflexivity]. }
    pose proof (kept_trans _ _ _ _ K1 K2) as K12. pose proof K12 as (_ & R2 & _ & P12).
    destruct (IH cs2 cs' W2 R2 H) as (K3 & HL).
    split; [exact (kept_trans _ _ _ _ K12 K3)|].
    destruct t as [|n2 t2].
    + cbn [last_opt] in *. subst cs'. cbn [last]. exists p. split; [rewrite <- P1; exact Pn|exact Hc].
    + cbn [last_opt] in *. destruct HL as (p2 & Pn2 & Hc2). exists p2. split; [|exact Hc2].
      change (last (n :: n2 :: t2) 0) with (last (n2 :: t2) 0). rewrite <- P12. exact Pn2.
Qed.

Theorem svd_truncation_spec kd rid cs cs' : wf (fst cs) -> aget rid (nodes (fst cs)) = None ->
  svd_truncation kd rid cs = Some cs' ->
  kept rid (fst cs) (fst cs') /\
  match last_opt (removelast (linearise (fst cs))) with
  | None => cs' = cs
  | Some n => exists p, pmap (fst cs) n = Some (Some p) /\ snd cs' = Some p
  end.
Proof. intros W Hr H. apply (svd_fold_spec kd rid _ cs cs' W Hr H). Qed.


(* ---- equal parent maps on well-formed stores: the same tree ---------------------------------------------- *)
Theorem pmap_same_tree s s' : wf s -> wf s' -> (forall k, pmap s' k = pmap s k) -> same_tree (nodes s) (nodes s').
Proof.
  intros W W' H. split.
  - rewrite <- !length_akeys. apply Permutation_length. apply NoDup_Permutation; [apply (wf_nd s W)|apply (wf_nd s' W')|].
    intros k. symmetry. apply pmap_keys. exact H.
  - intros k. pose proof (H k) as Hk. rewrite !pmap_aget in Hk.
    destruct (aget k (nodes s)) as [nk|] eqn:E, (aget k (nodes s')) as [nk'|] eqn:E'; cbn in Hk; try discriminate; [|exact I].
    injection Hk as Hp. split; [symmetry; exact Hp|].
    apply NoDup_Permutation; [exact (wf_children_nodup s k nk W E)|exact (wf_children_nodup s' k nk' W' E')|].
    intros c. rewrite (wf_children_iff s k nk c W E), (wf_children_iff s' k nk' c W' E'), H. reflexivity.
Qed.

(* the executable bond dimension of TruncTree.v is the second component of the view *)
Lemma bond_dim_view s k q b : wf s -> view s k = Some (Some q, b) -> bond_dim s k = b.
Proof.
  intros W Hv. destruct (view_some _ _ _ _ Hv) as (nk & E & Hp & Hb). unfold bond_dim. rewrite E, (wf_tens s k nk W E).
  rewrite <- Hb. unfold bdim. rewrite Hp. f_equal. unfold lax, laxes, permute.
  pose proof (ni_virt _ _ _ (wf_node s W k nk E)) as Hvirt. unfold nvirt, nparents, nlegs in Hvirt. rewrite Hp in Hvirt.
  destruct (perm nk) as [|i rest]; [cbn in Hvirt; lia|reflexivity].
Qed.

(* every node with a parent is a proper descendant of the root *)
Lemma desc_root s r : wf s -> root s = Some r -> forall k q, pmap s k = Some (Some q) -> desc (pmap s) r k.
Proof.
  intros W Hr. destruct (wf_acyc s W) as [d Hd].
  assert (Hroot : forall x, pmap s x = Some None -> x = r).
  { intros x Hx. apply (wf_root_is s x W) in Hx. tcongr. }
  assert (G : forall m k, d k = m -> forall q, pmap s k = Some (Some q) -> desc (pmap s) r k); [|intros k; apply (G (d k) k eq_refl)].
  induction m as [m IHm] using lt_wf_ind. intros k Hm q Hk.
  assert (IH : forall y, d y < d k -> forall q, pmap s y = Some (Some q) -> desc (pmap s) r y).
  { intros y Hy. apply (IHm (d y)); [lia|reflexivity]. } destruct (wf_parent_present s k q W Hk) as [qn Eq].
  destruct (pmap s q) as [[q2|]|] eqn:Epq.
  - apply (desc_step _ _ k q); [exact Hk|]. apply (IH q) with (q := q2); [|exact Epq].
    rewrite pmap_aget in Hk. destruct (aget k (nodes s)) as [nk|] eqn:Ek; cbn in Hk; [|discriminate]. injection Hk as Hk.
    apply (Hd k nk q Ek Hk).
  - rewrite (Hroot q Epq) in Hk. apply desc_child. exact Hk.
  - rewrite pmap_aget, Eq in Epq. discriminate.
Qed.

(* ---- recursive_truncation -------------------------------------------------------------------------------- *)
Theorem recursive_truncation_spec tmp kd rid cs cs' :
  wf (fst cs) -> aget rid (nodes (fst cs)) = None -> tmp_fresh tmp (fst cs) -> tmp_inj tmp ->
  recursive_truncation tmp kd rid cs = Some cs' ->
  exists r, root (fst cs) = Some r /\ root (fst cs') = Some r /\ snd cs' = Some r /\
    wf (fst cs') /\ aget rid (nodes (fst cs')) = None /\ tmp_fresh tmp (fst cs') /\
    (forall k, pmap (fst cs') k = pmap (fst cs) k) /\
    (forall k q, pmap (fst cs) k = Some (Some q) -> view (fst cs') k = Some (Some q, kd k)).
Proof.
  destruct cs as [s oc]. cbn [fst snd]. intros W Hr F Tinj H. unfold recursive_truncation in H. cbn [fst snd] in H.
  destruct (root s) as [r|] eqn:Er; [|discriminate]. exists r. split; [reflexivity|].
  cbv zeta in H. set (have := match oc with Some c => Nat.eqb r c | None => false end) in H.
  assert (Hcs1 : exists cs1, kept rid s (fst cs1) /\ snd cs1 = Some r /\
            match truncate_node (length (nodes (fst cs1))) tmp kd (fst cs1) r with
            | Some s' => Some (s', snd cs1) | None => None end = Some cs').
  { destruct have eqn:Eh.
    - exists (s, oc). split; [apply kept_refl; assumption|]. split; [|exact H]. cbn. unfold have in Eh.
      destruct oc as [c|]; [|discriminate]. apply Nat.eqb_eq in Eh. subst. reflexivity.
    - destruct (canonical_form (s, oc) r Reduced rid) as [cs1|] eqn:Ec; [|discriminate]. exists cs1.
      destruct (canonical_form_kept s oc r Reduced rid cs1 W Hr Ec) as [K C]. auto. }
  clear H. destruct Hcs1 as (cs1 & (W1 & R1 & Rt1 & P1) & C1 & H).
  destruct (truncate_node _ tmp kd (fst cs1) r) as [s'|] eqn:ET; [|discriminate]. injection H as <-. cbn [fst snd].
  pose proof (tmp_fresh_pmap _ _ _ P1 F) as F1.
  destruct (truncate_node_spec tmp kd Tinj _ _ _ _ W1 F1 ET) as (W' & Rt' & P' & V').
  assert (P : forall k, pmap s' k = pmap s k) by (intros k; rewrite P'; apply P1).
  split; [tcongr|]. split; [exact C1|]. split; [exact W'|]. split.
  { apply view_none. specialize (P' rid). rewrite !pmap_aget, R1 in P'. apply view_none.
    destruct (aget rid (nodes s')); [discriminate|reflexivity]. }
  split; [apply (tmp_fresh_pmap _ _ _ P' F1)|]. split; [exact P|].
  intros k q Hk. assert (Dk : desc (pmap (fst cs1)) r k).
  { apply (desc_root (fst cs1) r W1 (eq_trans Rt1 Er) k q). rewrite P1. exact Hk. }
  destruct (V' k) as [[_ (q' & Hv)]|[Nd _]]; [|contradiction].
  pose proof (pmap_view _ _ _ _ Hv) as Hq. rewrite P, Hk in Hq. injection Hq as <-. exact Hv.
Qed.


(* ---- ancestors form a chain; subtrees of siblings are disjoint ------------------------------------------- *)
Lemma desc_chain pm a b k : desc pm a k -> desc pm b k -> a = b \/ desc pm a b \/ desc pm b a.
Proof.
  intros Da. revert b. induction Da as [k Hk|k q Hk Dq IH]; intros b Db.
  - inversion Db as [k' Hk'|k' q' Hk' Dq']; subst.
    + left. tcongr.
    + right. right. assert (q' = a) by tcongr. subst. exact Dq'.
  - inversion Db as [k' Hk'|k' q' Hk' Dq']; subst.
    + right. left. assert (q = b) by tcongr. subst. exact Dq.
    + assert (q' = q) by tcongr. subst. apply IH. exact Dq'.
Qed.

Definition pranked (pm : id -> option (option id)) (d : id -> nat) : Prop :=
  forall c p, pm c = Some (Some p) -> d p < d c.

Lemma wf_pranked s : wf s -> exists d, pranked (pmap s) d.
Proof.
  intros W. destruct (wf_acyc s W) as [d Hd]. exists d. intros c p Hc. rewrite pmap_aget in Hc.
  destruct (aget c (nodes s)) as [cn|] eqn:E; cbn in Hc; [|discriminate]. injection Hc as Hc. apply (Hd c cn p E Hc).
Qed.

Lemma desc_rank pm d a k : pranked pm d -> desc pm a k -> d a < d k.
Proof. intros R D. induction D as [k Hk|k q Hk _ IH]; [apply R; exact Hk|]. pose proof (R k q Hk). lia. Qed.

Lemma siblings_disjoint pm d n c1 c2 k : pranked pm d -> pm c1 = Some (Some n) -> pm c2 = Some (Some n) -> c1 <> c2 ->
  (k = c1 \/ desc pm c1 k) -> (k = c2 \/ desc pm c2 k) -> False.
Proof.
  intros R H1 H2 Hne.
  assert (Hsib : forall a b, pm a = Some (Some n) -> pm b = Some (Some n) -> desc pm a b -> False).
  { intros a b Ha Hb D. inversion D as [k' Hk'|k' q' Hk' Dq']; subst.
    - assert (a = n) by tcongr. subst. pose proof (R n n Ha). lia.
    - assert (q' = n) by tcongr. subst. pose proof (desc_rank pm d a n R Dq'). pose proof (R a n Ha). lia. }
  intros [->|D1] [E|D2].
  - contradiction.
  - apply (Hsib c2 c1 H2 H1 D2).
  - subst. apply (Hsib c1 c2 H1 H2 D1).
  - destruct (desc_chain pm c1 c2 k D1 D2) as [E|[D|D]]; [contradiction|apply (Hsib c1 c2 H1 H2 D)|apply (Hsib c2 c1 H2 H1 D)].
Qed.

(* ---- the recursion with a trace (truncate_node_tr, TruncTree.v) -------------------------------------------- *)
Lemma tr_fold_none g L : fold_left (tr_step g) L None = None.
Proof. induction L as [|x t IH]; cbn; auto. Qed.

(* erasing the trace gives the model program *)
Lemma tr_erase : forall f tmp kd s n, option_map fst (truncate_node_tr f tmp kd s n) = truncate_node f tmp kd s n.
Proof.
  induction f as [|f IH]; intros tmp kd s n; [reflexivity|]. cbn [truncate_node_tr truncate_node].
  destruct (truncate_local tmp kd s n) as [[s3 orig]|]; [|reflexivity].
  assert (G : forall L s3 tr0, option_map fst (fold_left (tr_step (truncate_node_tr f tmp kd)) L (Some (s3, tr0))) =
            fold_left (fun acc c => match acc with Some s' => truncate_node f tmp kd s' c | None => None end) L (Some s3)); [|apply G].
  induction L as [|c t IHL]; intros s3' tr0; [reflexivity|]. cbn [fold_left tr_step].
  rewrite <- IH. destruct (truncate_node_tr f tmp kd s3' c) as [[s4 tr']|]; cbn.
  - apply IHL.
  - rewrite tr_fold_none, trunc_fold_none. reflexivity.
Qed.

Section Trace.
  Variables (tmp : tmpids) (kd : id -> nat).
  Hypothesis Tinj : tmp_inj tmp.

  Definition tr_post (s : store) (n : id) (tr : list id) : Prop :=
    NoDup tr /\ forall k, In k tr <-> desc (pmap s) n k.

  Lemma tr_fold f d pm n :
    (forall s c s' tr, wf s -> tmp_fresh tmp s -> truncate_node_tr f tmp kd s c = Some (s', tr) -> tr_post s c tr) ->
    pranked pm d ->
    forall L s tr0 s' tr, wf s -> tmp_fresh tmp s -> (forall k, pmap s k = pm k) -> NoDup L ->
      (forall c, In c L -> pm c = Some (Some n)) ->
      fold_left (tr_step (truncate_node_tr f tmp kd)) L (Some (s, tr0)) = Some (s', tr) ->
      exists T, tr = tr0 ++ T /\ NoDup T /\ forall k, In k T <-> exists c, In c L /\ desc pm c k.
  Proof.
    intros IHf R. induction L as [|c t IH]; intros s tr0 s' tr W F P Hnd HL H.
    - cbn in H. injection H as <- <-. exists []. rewrite app_nil_r. split; [reflexivity|]. split; [constructor|].
      intros k. split; [intros []|intros (c & [] & _)].
    - cbn [fold_left tr_step] in H. destruct (truncate_node_tr f tmp kd s c) as [[s1 tr1]|] eqn:E; [|rewrite tr_fold_none in H; discriminate].
      destruct (IHf s c s1 tr1 W F E) as [N1 M1].
      assert (E' : truncate_node f tmp kd s c = Some s1) by (rewrite <- tr_erase, E; reflexivity).
      destruct (truncate_node_spec tmp kd Tinj f s c s1 W F E') as (W1 & _ & P1 & _).
      inversion Hnd as [|? ? Hni Hnd']; subst.
      destruct (IH s1 (tr0 ++ tr1) s' tr W1 (tmp_fresh_pmap _ _ _ P1 F) (fun k => eq_trans (P1 k) (P k)) Hnd'
                   (fun c' Hc' => HL c' (or_intror Hc')) H) as (T & -> & NT & MT).
      exists (tr1 ++ T). split; [rewrite app_assoc; reflexivity|].
      assert (M1' : forall k, In k tr1 <-> desc pm c k).
      { intros k. rewrite M1. split; apply desc_ext; intros x; [symmetry|]; apply P. }
      split.
      + apply NoDup_app_iff. split; [exact N1|]. split; [exact NT|]. intros k H1 H2.
        apply M1' in H1. apply MT in H2. destruct H2 as (c' & Hc' & D').
        apply (siblings_disjoint pm d n c c' k R (HL c (or_introl eq_refl)) (HL c' (or_intror Hc'))); auto.
        intros ->. contradiction.
      + intros k. rewrite in_app_iff, M1', MT. split.
        * intros [D|(c' & Hc' & D)]; [exists c; split; [left; reflexivity|exact D]|exists c'; split; [right; exact Hc'|exact D]].
        * intros (c' & [<-|Hc'] & D); [left; exact D|right; exists c'; auto].
  Qed.

  Theorem truncate_node_tr_spec : forall f s n s' tr, wf s -> tmp_fresh tmp s ->
    truncate_node_tr f tmp kd s n = Some (s', tr) -> tr_post s n tr.
  Proof.
    induction f as [|f IHf]; intros s n s' tr W F H; [discriminate|].
    cbn [truncate_node_tr] in H. destruct (truncate_local tmp kd s n) as [[s3 orig]|] eqn:EL; [|discriminate].
    assert (En : exists nd, aget n (nodes s) = Some nd).
    { unfold truncate_local in EL. destruct (aget n (nodes s)) as [nd|]; [eauto|discriminate]. }
    destruct En as [nd En].
    destruct (local_spec tmp kd s n nd W En (fresh_local tmp s n nd W En F) (fun j j' c c' Hj Hj' _ _ => Tinj j j' c c' n Hj Hj') s3 orig EL)
      as (-> & W3 & R3 & V3).
    assert (Hch : forall k, In k (children nd) <-> pmap s k = Some (Some n)) by (intros k; apply wf_children_iff; assumption).
    assert (P3 : forall k, pmap s3 k = pmap s k).
    { intros k. unfold pmap at 1. rewrite V3. destruct (memb k (children nd)) eqn:M; [|reflexivity].
      apply memb_In in M. apply Hch in M. rewrite M. reflexivity. }
    destruct (wf_pranked s W) as [d R].
    pose proof (wf_children_nodup s n nd W En) as ND.
    destruct (tr_fold f d (pmap s) n IHf R (children nd) s3 (children nd) s' tr W3 (tmp_fresh_pmap _ _ _ P3 F) P3 ND
                (fun c Hc => proj1 (Hch c) Hc) H) as (T & -> & NT & MT).
    split.
    - apply NoDup_app_iff. split; [exact ND|]. split; [exact NT|]. intros k H1 H2. apply MT in H2. destruct H2 as (c & Hc & D).
      destruct (Nat.eq_dec k c) as [->|Hne].
      + pose proof (desc_rank _ d c c R D). lia.
      + apply (siblings_disjoint (pmap s) d n k c k R (proj1 (Hch k) H1) (proj1 (Hch c) Hc) Hne); auto.
    - intros k. rewrite in_app_iff, MT. split.
      + intros [Hk|(c & Hc & D)]; [apply desc_child; apply Hch; exact Hk|apply (desc_up _ n c); [apply Hch; exact Hc|exact D]].
      + intros D. apply desc_down in D. destruct D as [Hk|(c & Hc & D)]; [left; apply Hch; exact Hk|right; exists c; split; [apply Hch; exact Hc|exact D]].
  Qed.
End Trace.


(* ---- depth of a node; the fuel of linearise suffices ---------------------------------------------------- *)
Definition depth (l : list (id * node)) (k : id) : nat := length (anc l (length l) k).

Lemma wf_ranked s : wf s -> exists d, ranked (nodes s) d.
Proof. intros W. destruct (wf_acyc s W) as [d Hd]. exists d. exact Hd. Qed.

Lemma depth_le s k : wf s -> depth (nodes s) k <= length (nodes s).
Proof. intros W. destruct (wf_ranked s W) as [d R]. apply (anc_length_le _ d _ _ R). Qed.

Lemma depth_child s k nk p : wf s -> aget k (nodes s) = Some nk -> parent nk = Some p ->
  depth (nodes s) k = S (depth (nodes s) p).
Proof.
  intros W E Hp. destruct (wf_ranked s W) as [d R].
  pose proof (wf_parents_closed s (wf_node s W)) as PC.
  pose proof (ranked_climbs _ d k R PC (aget_Some_keys _ _ _ E)) as Hc.
  unfold depth. destruct (length (nodes s)) as [|f] eqn:EN; [discriminate|].
  cbn in Hc. rewrite E, Hp in Hc.
  change (anc (nodes s) (S f) k) with
    (match aget k (nodes s) with None => [] | Some n => k :: match parent n with None => [] | Some p => anc (nodes s) f p end end).
  rewrite E, Hp. cbn [length]. rewrite (climbs_anc_stable _ f p Hc (S f)) by lia. reflexivity.
Qed.

Lemma depth_pos s k nk : aget k (nodes s) = Some nk -> 1 <= depth (nodes s) k.
Proof.
  intros E. unfold depth. destruct (length (nodes s)) as [|f] eqn:EN.
  - destruct (nodes s); [discriminate|discriminate].
  - cbn. rewrite E. cbn. lia.
Qed.

Lemma NoDup_flat_map_disjoint {A} (g : A -> list id) (L : list A) :
  NoDup L -> (forall c, In c L -> NoDup (g c)) ->
  (forall c c' k, In c L -> In c' L -> c <> c' -> In k (g c) -> In k (g c') -> False) ->
  NoDup (flat_map g L).
Proof.
  induction L as [|c t IH]; intros Hnd Hg Hd; [constructor|]. cbn. inversion Hnd as [|? ? Hni Hnd']; subst.
  apply NoDup_app_iff. split; [apply Hg; left; reflexivity|]. split.
  - apply IH; [exact Hnd'|intros c' Hc'; apply Hg; right; exact Hc'|].
    intros c1 c2 k H1 H2. apply Hd; right; assumption.
  - intros k Hk Hk'. apply in_flat_map in Hk'. destruct Hk' as (c' & Hc' & Hk').
    apply (Hd c c' k); [left; reflexivity|right; exact Hc'|intros ->; contradiction|exact Hk|exact Hk'].
Qed.

Lemma desc_has_parent pm a k : desc pm a k -> exists q, pm k = Some (Some q).
Proof. intros D. destruct D as [k Hk|k q Hk _]; eauto. Qed.

Lemma lin_spec s : wf s -> forall f n nd, aget n (nodes s) = Some nd -> length (nodes s) < depth (nodes s) n + f ->
  NoDup (linearise_rec f (nodes s) n) /\
  (forall k, In k (linearise_rec f (nodes s) n) <-> (k = n \/ desc (pmap s) n k)) /\
  linearise_rec f (nodes s) n = flat_map (linearise_rec (f - 1) (nodes s)) (children nd) ++ [n].
Proof.
  intros W. destruct (wf_pranked s W) as [d R].
  induction f as [|f IH]; intros n nd En Hf.
  - pose proof (depth_le s n W). lia.
  - cbn [linearise_rec]. rewrite En. replace (S f - 1) with f by lia.
    assert (Hch : forall c, In c (children nd) <-> pmap s c = Some (Some n)) by (intros c; apply wf_children_iff; assumption).
    assert (IHc : forall c, In c (children nd) ->
              NoDup (linearise_rec f (nodes s) c) /\ (forall k, In k (linearise_rec f (nodes s) c) <-> (k = c \/ desc (pmap s) c k))).
    { intros c Hc. destruct (wf_child_parent s n nd c W En Hc) as (cn & Ec & Hp).
      destruct (IH c cn Ec) as (A & B & _); [rewrite (depth_child s c cn n W Ec Hp); lia|]. split; assumption. }
    assert (Mfm : forall k, In k (flat_map (linearise_rec f (nodes s)) (children nd)) <-> desc (pmap s) n k).
    { intros k. rewrite in_flat_map. split.
      - intros (c & Hc & Hk). apply (proj2 (IHc c Hc)) in Hk. destruct Hk as [->|D].
        + apply desc_child. apply Hch. exact Hc.
        + apply (desc_up _ n c); [apply Hch; exact Hc|exact D].
      - intros D. apply desc_down in D. destruct D as [Hk|(c & Hc & D)].
        + exists k. split; [apply Hch; exact Hk|]. apply (proj2 (IHc k (proj2 (Hch k) Hk))). left. reflexivity.
        + exists c. split; [apply Hch; exact Hc|]. apply (proj2 (IHc c (proj2 (Hch c) Hc))). right. exact D. }
    split; [|split; [|reflexivity]].
    + apply NoDup_app_iff. split.
      * apply NoDup_flat_map_disjoint.
        -- apply (wf_children_nodup s n nd W En).
        -- intros c Hc. apply (IHc c Hc).
        -- intros c c' k Hc Hc' Hne Hk Hk'. apply (proj2 (IHc c Hc)) in Hk. apply (proj2 (IHc c' Hc')) in Hk'.
           apply (siblings_disjoint (pmap s) d n c c' k R (proj1 (Hch c) Hc) (proj1 (Hch c') Hc') Hne Hk Hk').
      * split; [constructor; [intros []|constructor]|]. intros k Hk [E|[]]. subst k. apply Mfm in Hk.
        pose proof (desc_rank _ d n n R Hk). lia.
    + intros k. rewrite in_app_iff, Mfm. cbn. split; [intros [D|[<-|[]]]; auto|intros [->|D]; auto].
Qed.

(* svd_truncation handles exactly the nodes that have a parent, each once; the root comes last and is dropped *)
Theorem linearise_spec s r : wf s -> root s = Some r ->
  exists T, linearise s = T ++ [r] /\ removelast (linearise s) = T /\ NoDup T /\
            forall k, In k T <-> exists q, pmap s k = Some (Some q).
Proof.
  intros W Hr. destruct (wf_root s W) as (r' & rn & Hr' & Er & Hpr & _). rewrite Hr in Hr'. injection Hr' as <-.
  unfold linearise. rewrite Hr.
  destruct (lin_spec s W (length (nodes s)) r rn Er) as (ND & M & E).
  { pose proof (depth_pos s r rn Er). lia. }
  set (T := flat_map _ (children rn)) in E. exists T. rewrite E. split; [reflexivity|]. split; [apply removelast_last|].
  rewrite E in ND, M. apply NoDup_app_iff in ND. destruct ND as (NT & _ & Hdis). split; [exact NT|].
  intros k. split.
  - intros Hk. assert (Hk' : In k (T ++ [r])) by (apply in_or_app; left; exact Hk). apply M in Hk'. destruct Hk' as [->|D].
    + exfalso. apply (Hdis r Hk). left. reflexivity.
    + apply (desc_has_parent _ _ _ D).
  - intros (q & Hq). pose proof (desc_root s r W Hr k q Hq) as D.
    assert (Hk' : In k (T ++ [r])) by (apply M; right; exact D). apply in_app_or in Hk'. destruct Hk' as [Hk|[<-|[]]]; [exact Hk|].
    rewrite pmap_aget, Er in Hq. cbn in Hq. rewrite Hpr in Hq. discriminate.
Qed.


(* ---- the fuel of truncate_node suffices --------------------------------------------------------------- *)
Lemma anc_pmap s s' : (forall k, pmap s' k = pmap s k) -> forall f k, anc (nodes s') f k = anc (nodes s) f k.
Proof.
  intros P. induction f as [|f IH]; intros k; [reflexivity|]. cbn. pose proof (P k) as Pk. rewrite !pmap_aget in Pk.
  destruct (aget k (nodes s')) as [n'|], (aget k (nodes s)) as [n|]; cbn in Pk; try discriminate; [|reflexivity].
  injection Pk as ->. f_equal. destruct (parent n); [apply IH|reflexivity].
Qed.

Lemma depth_pmap s s' k : wf s -> wf s' -> (forall x, pmap s' x = pmap s x) ->
  length (nodes s') = length (nodes s) /\ depth (nodes s') k = depth (nodes s) k.
Proof.
  intros W W' P. destruct (pmap_same_tree s s' W W' P) as [L _]. split; [symmetry; exact L|].
  unfold depth. rewrite <- L. rewrite (anc_pmap s s' P). reflexivity.
Qed.

Section Fuel.
  Variables (tmp : tmpids) (kd : id -> nat).
  Hypothesis Tinj : tmp_inj tmp.

  Theorem truncate_node_fuel : forall f s n, wf s -> tmp_fresh tmp s ->
    length (nodes s) < depth (nodes s) n + f -> truncate_node (S f) tmp kd s n = truncate_node f tmp kd s n.
  Proof.
    induction f as [|f IH]; intros s n W F Hf.
    - pose proof (depth_le s n W). lia.
    - change (truncate_node (S (S f)) tmp kd s n) with
        (match truncate_local tmp kd s n with
         | None => None
         | Some (s3, orig) => fold_left (fun acc c => match acc with Some s' => truncate_node (S f) tmp kd s' c | None => None end) orig (Some s3)
         end).
      cbn [truncate_node]. destruct (truncate_local tmp kd s n) as [[s3 orig]|] eqn:EL; [|reflexivity].
      assert (En : exists nd, aget n (nodes s) = Some nd).
      { unfold truncate_local in EL. destruct (aget n (nodes s)) as [nd|]; [eauto|discriminate]. }
      destruct En as [nd En].
      destruct (local_spec tmp kd s n nd W En (fresh_local tmp s n nd W En F) (fun j j' c c' Hj Hj' _ _ => Tinj j j' c c' n Hj Hj') s3 orig EL)
        as (-> & W3 & R3 & V3).
      assert (Hch : forall k, In k (children nd) <-> pmap s k = Some (Some n)) by (intros k; apply wf_children_iff; assumption).
      assert (P3 : forall k, pmap s3 k = pmap s k).
      { intros k. unfold pmap at 1. rewrite V3. destruct (memb k (children nd)) eqn:M; [|reflexivity].
        apply memb_In in M. apply Hch in M. rewrite M. reflexivity. }
      assert (G : forall L sc, wf sc -> tmp_fresh tmp sc -> (forall k, pmap sc k = pmap s k) -> (forall c, In c L -> In c (children nd)) ->
                fold_left (fun acc c => match acc with Some s' => truncate_node (S f) tmp kd s' c | None => None end) L (Some sc) =
                fold_left (fun acc c => match acc with Some s' => truncate_node f tmp kd s' c | None => None end) L (Some sc));
        [|apply G; [exact W3|apply (tmp_fresh_pmap _ _ _ P3 F)|exact P3|auto]].
      induction L as [|c t IHL]; intros sc Wc Fc Pc HL; [reflexivity|]. cbn [fold_left].
      assert (Hc : In c (children nd)) by (apply HL; left; reflexivity).
      destruct (wf_child_parent s n nd c W En Hc) as (cn & Ec & Hp).
      destruct (depth_pmap s sc c W Wc Pc) as [LN LD].
      rewrite (IH sc c Wc Fc); [|rewrite LN, LD, (depth_child s c cn n W Ec Hp); lia].
      destruct (truncate_node f tmp kd sc c) as [s1|] eqn:E1; [|rewrite !trunc_fold_none; reflexivity].
      destruct (truncate_node_spec tmp kd Tinj f sc c s1 Wc Fc E1) as (W1 & _ & P1 & _).
      apply IHL; [exact W1|apply (tmp_fresh_pmap _ _ _ P1 Fc)|intros k; rewrite P1; apply Pc|intros c' Hc'; apply HL; right; exact Hc'].
  Qed.

  Corollary truncate_node_fuel_ge s n f : wf s -> tmp_fresh tmp s -> root s = Some n ->
    length (nodes s) <= f -> truncate_node f tmp kd s n = truncate_node (length (nodes s)) tmp kd s n.
  Proof.
    intros W F Hr Hle. destruct (wf_root s W) as (r' & rn & Hr' & Er & _). rewrite Hr in Hr'. injection Hr' as <-.
    pose proof (depth_pos s n rn Er) as Hd.
    induction Hle as [|f Hle IH]; [reflexivity|]. rewrite <- IH. apply truncate_node_fuel; [exact W|exact F|lia].
  Qed.
End Fuel.

(* ======================================================================================================== *)
(* ---- the statements exported to Props/C10.v: hypotheses through the executable checkers -------------------- *)
(* ======================================================================================================== *)
Lemma tmp_freshb_iff tmp s : tmp_freshb tmp s = true <-> tmp_fresh tmp s.
Proof.
  unfold tmp_freshb, tmp_fresh. rewrite forallb_forall. split.
  - intros H j c m Hj Hc Hm. specialize (H c Hc). rewrite forallb_forall in H. specialize (H m Hm). rewrite forallb_forall in H.
    assert (Hin : In j [0; 1; 2]) by (cbn; lia). specialize (H j Hin). apply negb_true_iff in H. apply amem_false. exact H.
  - intros H c Hc. apply forallb_forall. intros m Hm. apply forallb_forall. intros j Hj.
    apply negb_true_iff. apply amem_false. apply H; [cbn in Hj; lia|exact Hc|exact Hm].
Qed.

Lemma trunc_hyps_spec tmp rid cs : trunc_hyps tmp rid cs = true <->
  wf (fst cs) /\ aget rid (nodes (fst cs)) = None /\ tmp_fresh tmp (fst cs).
Proof.
  unfold trunc_hyps. rewrite !andb_true_iff, negb_true_iff, wfb_iff, amem_false, tmp_freshb_iff. tauto.
Qed.

Lemma bond_dim_parent s' k q b : wf s' -> view s' k = Some (Some q, b) -> bond_dim s' k = b.
Proof. apply bond_dim_view. Qed.

(* (a) structure: recursive_truncation *)
Theorem rec_structure tmp kd rid cs cs' :
  trunc_hyps tmp rid cs = true -> tmp_inj tmp -> recursive_truncation tmp kd rid cs = Some cs' ->
  trunc_hyps tmp rid cs' = true /\ same_tree (nodes (fst cs)) (nodes (fst cs')) /\
  root (fst cs') = root (fst cs) /\ snd cs' = root (fst cs).
Proof.
  intros Hh Ti H. apply trunc_hyps_spec in Hh. destruct Hh as (W & Hr & F).
  destruct (recursive_truncation_spec tmp kd rid cs cs' W Hr F Ti H) as (r & R0 & R1 & C & W' & Hr' & F' & P & _).
  split; [apply trunc_hyps_spec; auto|]. split; [apply pmap_same_tree; assumption|]. split; tcongr.
Qed.

(* (b) bonds: recursive_truncation gives every bond exactly the supplied dimension *)
Theorem rec_bonds tmp kd rid cs cs' :
  trunc_hyps tmp rid cs = true -> tmp_inj tmp -> recursive_truncation tmp kd rid cs = Some cs' ->
  forall k nk q, aget k (nodes (fst cs)) = Some nk -> parent nk = Some q -> bond_dim (fst cs') k = kd k.
Proof.
  intros Hh Ti H k nk q E Hp. apply trunc_hyps_spec in Hh. destruct Hh as (W & Hr & F).
  destruct (recursive_truncation_spec tmp kd rid cs cs' W Hr F Ti H) as (r & _ & _ & _ & W' & _ & _ & _ & V).
  apply (bond_dim_view (fst cs') k q (kd k) W'). apply V. rewrite pmap_aget, E. cbn. rewrite Hp. reflexivity.
Qed.

Corollary rec_bonds_bounded tmp kd rid cs cs' M :
  trunc_hyps tmp rid cs = true -> tmp_inj tmp -> (forall c, 1 <= kd c <= M) ->
  recursive_truncation tmp kd rid cs = Some cs' ->
  forall k nk q, aget k (nodes (fst cs)) = Some nk -> parent nk = Some q -> 1 <= bond_dim (fst cs') k <= M.
Proof. intros Hh Ti Hk H k nk q E Hp. rewrite (rec_bonds tmp kd rid cs cs' Hh Ti H k nk q E Hp). apply Hk. Qed.

(* (c) coverage: the trace of truncate_node started at the root lists every node that has a parent exactly once;
   erasing the trace gives the model program *)
Theorem rec_trace_erase f tmp kd s n : option_map fst (truncate_node_tr f tmp kd s n) = truncate_node f tmp kd s n.
Proof. apply tr_erase. Qed.

Theorem rec_trace_coverage tmp kd f s r s' tr :
  wfb s = true -> tmp_fresh tmp s -> tmp_inj tmp -> root s = Some r ->
  truncate_node_tr f tmp kd s r = Some (s', tr) ->
  NoDup tr /\ forall k, In k tr <-> exists nk q, aget k (nodes s) = Some nk /\ parent nk = Some q.
Proof.
  intros Wb F Ti Hr H. apply wfb_iff in Wb. destruct (truncate_node_tr_spec tmp kd Ti f s r s' tr Wb F H) as [ND M].
  split; [exact ND|]. intros k. rewrite M. split.
  - intros D. destruct (desc_has_parent _ _ _ D) as [q Hq]. rewrite pmap_aget in Hq.
    destruct (aget k (nodes s)) as [nk|]; cbn in Hq; [|discriminate]. injection Hq as Hq. eauto.
  - intros (nk & q & E & Hp). apply (desc_root s r Wb Hr k q). rewrite pmap_aget, E. cbn. rewrite Hp. reflexivity.
Qed.

Theorem rec_fuel tmp kd s r f : wfb s = true -> tmp_fresh tmp s -> tmp_inj tmp -> root s = Some r ->
  length (nodes s) <= f -> truncate_node f tmp kd s r = truncate_node (length (nodes s)) tmp kd s r.
Proof. intros Wb F Ti Hr Hf. apply wfb_iff in Wb. apply truncate_node_fuel_ge; assumption. Qed.

(* svd_truncation: structure, recorded centre *)
Theorem svd_structure kd rid cs cs' :
  wfb (fst cs) = true -> amem rid (nodes (fst cs)) = false -> svd_truncation kd rid cs = Some cs' ->
  wfb (fst cs') = true /\ amem rid (nodes (fst cs')) = false /\
  same_tree (nodes (fst cs)) (nodes (fst cs')) /\ root (fst cs') = root (fst cs) /\
  match last_opt (removelast (linearise (fst cs))) with
  | None => cs' = cs
  | Some n => exists nk p, aget n (nodes (fst cs)) = Some nk /\ parent nk = Some p /\ snd cs' = Some p
  end.
Proof.
  intros Wb Hr H. apply wfb_iff in Wb. apply amem_false in Hr.
  destruct (svd_truncation_spec kd rid cs cs' Wb Hr H) as ((W' & Hr' & Rt & P) & HL).
  split; [apply wfb_iff; exact W'|]. split; [apply amem_false; exact Hr'|]. split; [apply pmap_same_tree; assumption|].
  split; [exact Rt|]. destruct (last_opt _) as [n|]; [|exact HL]. destruct HL as (p & Pn & Hc).
  rewrite pmap_aget in Pn. destruct (aget n (nodes (fst cs))) as [nk|]; cbn in Pn; [|discriminate]. injection Pn as Pn. eauto.
Qed.

(* one contract_and_split_with_parent: exactly the bond above the node gets the supplied dimension *)
Theorem svd_step_bond kd rid cs n cs' :
  wfb (fst cs) = true -> amem rid (nodes (fst cs)) = false -> contract_and_split kd rid cs n = Some cs' ->
  wfb (fst cs') = true /\ root (fst cs') = root (fst cs) /\
  (exists nk p, aget n (nodes (fst cs)) = Some nk /\ parent nk = Some p /\ snd cs' = Some p /\ view (fst cs') n = Some (Some p, kd n)) /\
  bond_dim (fst cs') n = kd n /\
  forall k, k <> n -> view (fst cs') k = view (fst cs) k.
Proof.
  intros Wb Hr H. apply wfb_iff in Wb. apply amem_false in Hr.
  destruct (cas_spec kd rid cs n cs' Wb Hr H) as (p & Pn & Hc & W' & Rt & V).
  assert (Vn : view (fst cs') n = Some (Some p, kd n)) by (rewrite V, Nat.eqb_refl; reflexivity).
  split; [apply wfb_iff; exact W'|]. split; [exact Rt|]. split.
  { rewrite pmap_aget in Pn. destruct (aget n (nodes (fst cs))) as [nk|]; cbn in Pn; [|discriminate]. injection Pn as Pn.
    exists nk, p. auto. }
  split; [apply (bond_dim_view _ _ _ _ W' Vn)|]. intros k Hk. rewrite V, (eqbF' k n Hk). reflexivity.
Qed.

(* the path of svd_truncation: every node that has a parent, exactly once; the root is last and dropped *)
Theorem svd_path_coverage s r : wfb s = true -> root s = Some r ->
  exists T, linearise s = T ++ [r] /\ removelast (linearise s) = T /\ NoDup T /\
            forall k, In k T <-> exists nk q, aget k (nodes s) = Some nk /\ parent nk = Some q.
Proof.
  intros Wb Hr. apply wfb_iff in Wb. destruct (linearise_spec s r Wb Hr) as (T & E1 & E2 & ND & M).
  exists T. split; [exact E1|]. split; [exact E2|]. split; [exact ND|]. intros k. rewrite M. split.
  - intros (q & Hq). rewrite pmap_aget in Hq. destruct (aget k (nodes s)) as [nk|]; cbn in Hq; [|discriminate]. injection Hq as Hq. eauto.
  - intros (nk & q & E & Hp). exists q. rewrite pmap_aget, E. cbn. rewrite Hp. reflexivity.
Qed.

(* the temporaries the correspondence harness hands to the model (harness/props/c10.py, W_TMP) *)
Lemma harness_tmp_inj : tmp_inj (fun j c n => 2000 + 3 * (16 * c + n) + j).
Proof. intros j j' c c' m Hj Hj' H. split; lia. Qed.

(* ---- with the scalar rule of Trunc/Select.v supplying the dimensions ------------------------------------- *)
From Coq Require Import QArith.
From PTN Require Import Trunc.Select Trunc.SelectProofs.
Local Close Scope Q_scope.

(* if the kept dimension of every bond is what `select` keeps of some non-empty descending spectrum,
   every bond ends in [1, max_bond_dim] (and is at most the number of singular values) *)
Theorem rec_bonds_select tmp (p : params) (spectra : id -> list Q) rid cs cs' :
  trunc_hyps tmp rid cs = true -> tmp_inj tmp -> bond_ok (max_bond p) ->
  (forall c, spectra c <> [] /\ descending (spectra c)) ->
  recursive_truncation tmp (fun c => length (fst (select p (spectra c)))) rid cs = Some cs' ->
  forall k nk q, aget k (nodes (fst cs)) = Some nk -> parent nk = Some q ->
    1 <= bond_dim (fst cs') k <= length (spectra k) /\
    forall m, max_bond p = BFin m -> bond_dim (fst cs') k <= m.
Proof.
  intros Hh Ti Hb Hs H k nk q E Hp.
  rewrite (rec_bonds tmp _ rid cs cs' Hh Ti H k nk q E Hp).
  destruct (Hs k) as [Hne Hd]. destruct (select_spec p (spectra k) Hne Hd Hb) as (A & _ & _ & B). split; assumption.
Qed.
