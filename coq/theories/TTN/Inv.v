(* The store invariant of the Layer-W model (TTN/Store.v): an executable checker [wfb], its
   Prop-level reading [wf], and the diagram totals (atoms, wire ends, open wires).
   Definitions only; proofs are in InvProofs.v and the Inv*.v files. *)
From Coq Require Import List Arith Bool Permutation.
From PTN Require Import TTN.Store.
Import ListNotations.

(* ---- views --------------------------------------------------------------------------------- *)
Definition empty_sarr : sarr := {| axes := []; atoms := []; bnd := [] |}.
(* the raw tensor stored under k (empty diagram when absent) *)
Definition tens (s : store) (k : id) : sarr :=
  match aget k (tensors s) with Some t => t | None => empty_sarr end.
(* logical axes: the wires in node order (parent, children, open) *)
Definition laxes (n : node) (t : sarr) : list wire := permute 0 (perm n) (axes t).
Definition lax (s : store) (k : id) (n : node) : list wire := laxes n (tens s k).
(* wires of the open legs, in node order *)
Definition open_of (n : node) (t : sarr) : list wire := skipn (nvirt n) (laxes n t).
(* wires a node "owns": its parent leg (if any) and its open legs.  Child legs carry the wires
   owned by the children. *)
Definition own_of (n : node) (t : sarr) : list wire :=
  firstn (nparents n) (laxes n t) ++ skipn (nvirt n) (laxes n t).
Definition node_open (s : store) (kn : id * node) : list wire := open_of (snd kn) (tens s (fst kn)).
Definition node_own (s : store) (kn : id * node) : list wire := own_of (snd kn) (tens s (fst kn)).

(* ---- diagram totals ------------------------------------------------------------------------ *)
(* all atoms of all tensors (tensor dict order) *)
Definition total_atoms (s : store) : list nat := flat_map (fun kt => atoms (snd kt)) (tensors s).
(* multiset of wire ends: every axis once, every bound (summed) wire twice *)
Definition sarr_ends (t : sarr) : list wire := axes t ++ bnd t ++ bnd t.
Definition total_ends (s : store) : list wire := flat_map (fun kt => sarr_ends (snd kt)) (tensors s).
(* open legs in canonical order: nodes in dict order, each node's open legs in node order *)
Definition open_wires (s : store) : list wire := flat_map (node_open s) (nodes s).
(* all owned wires *)
Definition own_wires (s : store) : list wire := flat_map (node_own s) (nodes s).

(* ---- the executable checker ---------------------------------------------------------------- *)
Definition child_ok (s : store) (k : id) (c : id) : bool :=
  match aget c (nodes s) with
  | Some cn => match parent cn with Some q => Nat.eqb q k | None => false end
  | None => false
  end.

(* the wire on k's leg 0 is the wire on its parent's leg for k *)
Definition parent_ok (s : store) (k : id) (n : node) : bool :=
  match parent n with
  | None => true
  | Some p =>
      match aget p (nodes s) with
      | Some pn =>
          memb k (children pn)
          && match neighbour_index pn k with
             | Some i => Nat.eqb (nth 0 (lax s k n) 0) (nth i (lax s p pn) 0)
             | None => false
             end
      | None => false
      end
  end.

Definition node_ok (s : store) (kn : id * node) : bool :=
  let k := fst kn in
  let n := snd kn in
  amem k (tensors s)
  && is_perm_of_seq (perm n)
  && Nat.eqb (length (perm n)) (length (shape n))
  && list_eqb (shape n) (map (wdim s) (axes (tens s k)))
  && Nat.leb (nvirt n) (nlegs n)
  && nodupb (children n)
  && forallb (child_ok s k) (children n)
  && parent_ok s k n.

Definition root_ok (s : store) : bool :=
  match root s with
  | None => false
  | Some r =>
      match aget r (nodes s) with
      | Some rn => is_root rn && forallb (fun kn => if is_root (snd kn) then Nat.eqb (fst kn) r else true) (nodes s)
      | None => false
      end
  end.

(* following parent pointers from k reaches a parentless node within [fuel] nodes *)
Fixpoint climbs (l : list (id * node)) (fuel : nat) (k : id) : bool :=
  match fuel with
  | O => false
  | S f => match aget k l with
           | None => false
           | Some n => match parent n with None => true | Some p => climbs l f p end
           end
  end.

Definition wfb (s : store) : bool :=
  nodupb (akeys (nodes s))
  && nodupb (akeys (tensors s))
  && forallb (fun kt => amem (fst kt) (nodes s)) (tensors s)
  && root_ok s
  && forallb (node_ok s) (nodes s)
  && nodupb (own_wires s)
  && forallb (fun kt => forallb (fun w => Nat.ltb w (next_wire s)) (axes (snd kt))) (tensors s)
  && forallb (fun wd => Nat.ltb (fst wd) (next_wire s)) (dims s)
  && forallb (fun kn => climbs (nodes s) (length (nodes s)) (fst kn)) (nodes s).

(* ---- the Prop-level reading (all clauses through aget, independent of dict order) ------------ *)
Record node_inv (s : store) (k : id) (n : node) : Prop := {
  ni_t : amem k (tensors s) = true;
  ni_perm : Permutation (perm n) (seq 0 (length (shape n)));
  ni_shape : shape n = map (wdim s) (axes (tens s k));
  ni_virt : nvirt n <= nlegs n;
  ni_chnd : NoDup (children n);
  ni_ch : forall c, In c (children n) -> exists cn, aget c (nodes s) = Some cn /\ parent cn = Some k;
  ni_par : forall p, parent n = Some p ->
           exists pn i, aget p (nodes s) = Some pn /\ In k (children pn) /\ neighbour_index pn k = Some i
                        /\ nth 0 (lax s k n) 0 = nth i (lax s p pn) 0
}.

Record wf (s : store) : Prop := {
  wf_nd : NoDup (akeys (nodes s));
  wf_tnd : NoDup (akeys (tensors s));
  wf_tn : forall k, amem k (tensors s) = true -> amem k (nodes s) = true;
  wf_root : exists r rn, root s = Some r /\ aget r (nodes s) = Some rn /\ parent rn = None
                         /\ forall k n, aget k (nodes s) = Some n -> parent n = None -> k = r;
  wf_node : forall k n, aget k (nodes s) = Some n -> node_inv s k n;
  wf_own1 : forall k n, aget k (nodes s) = Some n -> NoDup (own_of n (tens s k));
  wf_own2 : forall k1 n1 k2 n2 w, aget k1 (nodes s) = Some n1 -> aget k2 (nodes s) = Some n2 ->
            In w (own_of n1 (tens s k1)) -> In w (own_of n2 (tens s k2)) -> k1 = k2;
  wf_wires : forall k t w, aget k (tensors s) = Some t -> In w (axes t) -> w < next_wire s;
  wf_dims : forall w, In w (akeys (dims s)) -> w < next_wire s;
  wf_acyc : exists depth : id -> nat,
            forall c cn p, aget c (nodes s) = Some cn -> parent cn = Some p -> depth p < depth c
}.

(* wfb after every operation of a sequence (a rejected operation leaves the store unchanged) *)
Fixpoint run_wfb (s : store) (ops : list op) : list bool :=
  match ops with
  | [] => []
  | o :: t => match step s o with
              | Some s' => wfb s' :: run_wfb s' t
              | None => wfb s :: run_wfb s t
              end
  end.
