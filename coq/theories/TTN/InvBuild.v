(* The building operations of the Layer-W store model (TTN/Store.v) establish and preserve the
   store invariant (TTN/Inv.v): add_root on a blank store, add_child on a well-formed store, and
   every run consisting of AddRoot / AddChild operations only. *)
From Coq Require Import List Arith Bool Lia Permutation.
From PTN Require Import TTN.Store TTN.StoreProofs TTN.Inv TTN.InvProofs.
Import ListNotations.

(* ---- list helpers ---------------------------------------------------------------------------- *)
Section ListHelpers.
  Context {A : Type}.

  Lemma ib_pop_decomp (i : nat) (l : list A) x r : pop i l = Some (x, r) ->
    exists a c, l = a ++ x :: c /\ r = a ++ c /\ length a = i.
  Proof.
    revert i x r. induction l as [|y t IH]; intros [|i] x r H; cbn in H; try discriminate.
    - injection H as <- <-. exists [], t. auto.
    - destruct (pop i t) as [[z t']|] eqn:E; [|discriminate]. injection H as <- <-.
      destruct (IH _ _ _ E) as (a & c & -> & -> & <-). exists (y :: a), c. auto.
  Qed.

  Lemma ib_insert_app (x : A) a b : insert (length a) x (a ++ b) = a ++ x :: b.
  Proof. induction a as [|y t IH]; cbn; [destruct b; reflexivity|]. f_equal. exact IH. Qed.

  (* moving position i down to position v <= i *)
  Lemma ib_move_decomp (i v : nat) (l l' : list A) : move i v l = Some l' -> v <= i ->
    exists a b x c, l = a ++ b ++ x :: c /\ l' = a ++ x :: b ++ c /\ length a = v /\ length b = i - v.
  Proof.
    unfold move. destruct (pop i l) as [[x r]|] eqn:E; [|discriminate]. intros [= <-] Hv.
    destruct (ib_pop_decomp _ _ _ _ E) as (a & c & -> & -> & <-).
    exists (firstn v a), (skipn v a), x, c.
    assert (Hl : length (firstn v a) = v) by (apply firstn_length_le; exact Hv).
    repeat split.
    - rewrite app_assoc, firstn_skipn. reflexivity.
    - pose proof (ib_insert_app x (firstn v a) (skipn v a ++ c)) as HH.
      rewrite Hl, app_assoc, firstn_skipn in HH. exact HH.
    - exact Hl.
    - apply skipn_length.
  Qed.

  Lemma ib_set_nth_decomp (i : nat) (x : A) (l : list A) : i < length l ->
    set_nth i x l = firstn i l ++ x :: skipn (S i) l.
  Proof.
    revert i. induction l as [|y t IH]; intros [|i] H; cbn in *; try lia; [reflexivity|].
    f_equal. apply IH. lia.
  Qed.

  Lemma ib_set_nth_length (i : nat) (x : A) (l : list A) : length (set_nth i x l) = length l.
  Proof. revert i. induction l as [|y t IH]; intros [|i]; cbn; auto. Qed.

  Lemma ib_nth_set_nth (i : nat) (x : A) (l : list A) d : i < length l -> nth i (set_nth i x l) d = x.
  Proof. revert i. induction l as [|y t IH]; intros [|i] H; cbn in *; try lia; [reflexivity|]. apply IH. lia. Qed.

  Lemma ib_set_nth_same (i : nat) (l : list A) d : set_nth i (nth i l d) l = l.
  Proof. revert i. induction l as [|y t IH]; intros [|i]; cbn; auto. f_equal. apply IH. Qed.

  Lemma ib_in_set_nth (i : nat) (x y : A) (l : list A) : In y (set_nth i x l) -> y = x \/ In y l.
  Proof.
    revert i. induction l as [|z t IH]; intros [|i]; cbn; auto.
    - intros [<-|H]; auto.
    - intros [<-|H]; auto. destruct (IH _ H); auto.
  Qed.

  Lemma ib_remove_nth_incl (i : nat) (l : list A) : incl (firstn i l ++ skipn (S i) l) l.
  Proof.
    intros x Hx. apply in_app_or in Hx. destruct Hx as [Hx|Hx].
    - rewrite <- (firstn_skipn i l). apply in_or_app. left. exact Hx.
    - rewrite <- (firstn_skipn (S i) l). apply in_or_app. right. exact Hx.
  Qed.

  Lemma ib_permute_app (d : A) p q (l : list A) : permute d (p ++ q) l = permute d p l ++ permute d q l.
  Proof. unfold permute. apply map_app. Qed.

  Lemma ib_aset_absent (k : nat) (v : A) (l : list (nat * A)) : aget k l = None -> aset k v l = l ++ [(k, v)].
  Proof.
    induction l as [|[k' v'] t IH]; cbn; [reflexivity|].
    destruct (Nat.eqb k k'); [discriminate|]. intros H. f_equal. apply IH. exact H.
  Qed.

  Lemma ib_aset_app_l (k : nat) (v v0 : A) (l1 l2 : list (nat * A)) :
    aget k l1 = Some v0 -> aset k v (l1 ++ l2) = aset k v l1 ++ l2.
  Proof.
    induction l1 as [|[k' v'] t IH]; cbn; [discriminate|].
    destruct (Nat.eqb k k'); [reflexivity|]. intros H. cbn. f_equal. apply IH. exact H.
  Qed.
End ListHelpers.

Lemma ib_map_set_nth {A B} (f : A -> B) (i : nat) (x : A) (l : list A) :
  map f (set_nth i x l) = set_nth i (f x) (map f l).
Proof. revert i. induction l as [|y t IH]; intros [|i]; cbn; auto. f_equal. apply IH. Qed.

Lemma ib_firstn_skipn_id {A} (l : list A) : firstn 1 l ++ skipn 1 l = l.
Proof. apply firstn_skipn. Qed.

(* ---- index_of / neighbour_index -------------------------------------------------------------- *)
Lemma ib_index_of_lt x l i : index_of x l = Some i -> i < length l.
Proof.
  revert i. induction l as [|y t IH]; intros i; cbn; [discriminate|].
  destruct (Nat.eqb x y); [intros [= <-]; lia|].
  destruct (index_of x t) as [j|]; [|discriminate]. intros [= <-]. specialize (IH j eq_refl). lia.
Qed.

Lemma ib_index_of_app_l x a b i : index_of x a = Some i -> index_of x (a ++ b) = Some i.
Proof.
  revert i. induction a as [|y t IH]; intros i; cbn; [discriminate|].
  destruct (Nat.eqb x y); [auto|].
  destruct (index_of x t) as [j|]; [|discriminate]. intros [= <-]. rewrite (IH j eq_refl). reflexivity.
Qed.

Lemma ib_index_of_snoc x a : ~ In x a -> index_of x (a ++ [x]) = Some (length a).
Proof.
  induction a as [|y t IH]; cbn; intros H.
  - rewrite Nat.eqb_refl. reflexivity.
  - destruct (Nat.eqb_spec x y) as [->|Hne]; [exfalso; apply H; left; reflexivity|].
    rewrite IH; [reflexivity|]. intros Hin. apply H. right. exact Hin.
Qed.

Lemma ib_neighbour_index_lt n x i : neighbour_index n x = Some i -> i < nvirt n.
Proof.
  unfold neighbour_index, nvirt, nparents. destruct (parent n) as [q|]; cbn [option_map].
  - destruct (Nat.eqb x q); [intros [= <-]; lia|].
    destruct (index_of x (children n)) as [j|] eqn:E; [|discriminate]. intros [= <-].
    apply ib_index_of_lt in E. unfold id in *. lia.
  - intros E. apply ib_index_of_lt in E. unfold id in *. lia.
Qed.

Lemma ib_neighbour_index_snoc_old n n' c x i :
  parent n' = parent n -> children n' = children n ++ [c] ->
  neighbour_index n x = Some i -> neighbour_index n' x = Some i.
Proof.
  unfold neighbour_index. intros -> ->. destruct (parent n) as [q|].
  - destruct (Nat.eqb x q); [auto|].
    destruct (index_of x (children n)) as [j|] eqn:E; [|discriminate]. intros [= <-].
    rewrite (ib_index_of_app_l _ _ _ _ E). reflexivity.
  - apply ib_index_of_app_l.
Qed.

Lemma ib_neighbour_index_snoc_new n n' c :
  parent n' = parent n -> children n' = children n ++ [c] ->
  parent n <> Some c -> ~ In c (children n) -> neighbour_index n' c = Some (nvirt n).
Proof.
  unfold neighbour_index, nvirt, nparents. intros -> -> Hp Hc. unfold id in *. destruct (parent n) as [q|].
  - destruct (Nat.eqb_spec c q) as [->|Hne]; [exfalso; apply Hp; reflexivity|].
    rewrite (ib_index_of_snoc _ _ Hc). cbn. f_equal. lia.
  - rewrite (ib_index_of_snoc _ _ Hc). reflexivity.
Qed.

(* ---- fresh wires ----------------------------------------------------------------------------- *)
Lemma fresh_wires_spec ds : forall s s2 ws, fresh_wires s ds = (s2, ws) ->
  ws = seq (next_wire s) (length ds) /\ dims s2 = dims s ++ combine ws ds /\
  next_wire s2 = next_wire s + length ds /\
  nodes s2 = nodes s /\ tensors s2 = tensors s /\ root s2 = root s /\
  next_atom s2 = next_atom s /\ defs s2 = defs s /\ atab s2 = atab s.
Proof.
  induction ds as [|d t IH]; intros s s2 ws H; cbn in H.
  - injection H as <- <-. cbn. rewrite app_nil_r, Nat.add_0_r. repeat split; reflexivity.
  - match type of H with context [fresh_wires ?s1 t] => destruct (fresh_wires s1 t) as [s3 ws3] eqn:E end.
    injection H as <- <-. apply IH in E. cbn in E.
    destruct E as (-> & E2 & E3 & E4 & E5 & E6 & E7 & E8 & E9).
    cbn. rewrite E2, E3, <- app_assoc. cbn. repeat split; auto; lia.
Qed.

Lemma ib_akeys_combine {V} (ks : list nat) (vs : list V) w : In w (akeys (combine ks vs)) -> In w ks.
Proof.
  unfold akeys. intros H. apply in_map_iff in H. destruct H as ([k v] & <- & Hin).
  apply in_combine_l in Hin. exact Hin.
Qed.

Lemma ib_map_aget_combine (ds : list nat) : forall a,
  map (fun w => match aget w (combine (seq a (length ds)) ds) with Some d => d | None => 0 end)
      (seq a (length ds)) = ds.
Proof.
  induction ds as [|d t IH]; intros a; [reflexivity|].
  cbn [length seq combine map aget]. rewrite Nat.eqb_refl. f_equal.
  etransitivity; [|apply (IH (S a))]. apply map_ext_in. intros w Hw. apply in_seq in Hw.
  destruct (Nat.eqb_spec w a); [lia|reflexivity].
Qed.

(* the dimension table of the fresh wires, when the old table only mentions old wires *)
Lemma fresh_wires_wdim_new s ds s2 ws : fresh_wires s ds = (s2, ws) ->
  (forall w, In w (akeys (dims s)) -> w < next_wire s) -> map (wdim s2) ws = ds.
Proof.
  intros H Hd. destruct (fresh_wires_spec _ _ _ _ H) as (-> & E2 & _).
  etransitivity; [|apply (ib_map_aget_combine ds (next_wire s))].
  apply map_ext_in. intros w Hw. apply in_seq in Hw. unfold wdim. rewrite E2, aget_app.
  destruct (aget w (dims s)) as [v|] eqn:E; [|reflexivity].
  apply aget_Some_keys in E. apply Hd in E. lia.
Qed.

Lemma fresh_wires_wdim_old s ds s2 ws w : fresh_wires s ds = (s2, ws) ->
  w < next_wire s -> wdim s2 w = wdim s w.
Proof.
  intros H Hw. destruct (fresh_wires_spec _ _ _ _ H) as (-> & E2 & _).
  unfold wdim. rewrite E2, aget_app. unfold wire in *. destruct (aget w (dims s)) as [v|]; [reflexivity|].
  destruct (aget w (combine (seq (next_wire s) (length ds)) ds)) as [v|] eqn:E; [|reflexivity].
  apply aget_Some_keys in E. apply ib_akeys_combine in E. apply in_seq in E. lia.
Qed.

Lemma fresh_wires_dims_bound s ds s2 ws : fresh_wires s ds = (s2, ws) ->
  (forall w, In w (akeys (dims s)) -> w < next_wire s) ->
  forall w, In w (akeys (dims s2)) -> w < next_wire s2.
Proof.
  intros H Hd w Hw. destruct (fresh_wires_spec _ _ _ _ H) as (-> & E2 & E3 & _).
  rewrite E2, akeys_app in Hw. rewrite E3. apply in_app_or in Hw. destruct Hw as [Hw|Hw].
  - apply Hd in Hw. lia.
  - apply ib_akeys_combine in Hw. apply in_seq in Hw. lia.
Qed.

(* ---- blank stores and add_root --------------------------------------------------------------- *)
Definition blank (s : store) : Prop :=
  nodes s = [] /\ tensors s = [] /\ root s = None /\ (forall w, In w (akeys (dims s)) -> w < next_wire s).

Lemma blank_empty : blank empty_store.
Proof. repeat split. intros w []. Qed.

(* the store add_root produces, from the store s1 holding the fresh wires ws *)
Definition rooted (s1 : store) (n : id) (shp : list nat) (ws : list wire) : store :=
  {| nodes := aset n (new_node shp) (nodes s1);
     tensors := aset n {| axes := ws; atoms := [next_atom s1]; bnd := [] |} (tensors s1);
     root := Some n; dims := dims s1; next_wire := next_wire s1; next_atom := S (next_atom s1);
     defs := defs s1; atab := atab s1 ++ [(next_atom s1, ws)] |}.

Lemma add_root_inv s n shp s' : add_root s n shp = Some s' ->
  root s = None /\ exists s1 ws, fresh_wires s shp = (s1, ws) /\ s' = rooted s1 n shp ws.
Proof.
  unfold add_root. destruct (root s) as [r|]; [discriminate|].
  destruct (fresh_wires s shp) as [s1 ws] eqn:E. cbn. intros [= <-]. split; [reflexivity|].
  exists s1, ws. split; reflexivity.
Qed.

Lemma add_root_rejected s n shp : root s <> None -> add_root s n shp = None.
Proof. unfold add_root. destruct (root s); [reflexivity|congruence]. Qed.

Lemma add_root_accepted s n shp : root s = None -> exists s', add_root s n shp = Some s'.
Proof.
  unfold add_root. intros ->. destruct (fresh_wires s shp) as [s1 ws]. cbn. eauto.
Qed.

Theorem add_root_wf s n shp s' : blank s -> add_root s n shp = Some s' -> wf s'.
Proof.
  intros (Bn & Bt & Br & Bd) H. destruct (add_root_inv _ _ _ _ H) as (_ & s1 & ws & Ef & ->).
  pose proof (fresh_wires_wdim_new _ _ _ _ Ef Bd) as Hdim.
  pose proof (fresh_wires_dims_bound _ _ _ _ Ef Bd) as Hdb.
  destruct (fresh_wires_spec _ _ _ _ Ef) as (Ews & E2 & E3 & E4 & E5 & _).
  set (t := {| axes := ws; atoms := [next_atom s1]; bnd := [] |}).
  set (s' := rooted s1 n shp ws).
  assert (Hn : nodes s' = [(n, new_node shp)]) by (unfold s', rooted; cbn; rewrite E4, Bn; reflexivity).
  assert (Ht : tensors s' = [(n, t)]) by (unfold s', rooted; cbn; rewrite E5, Bt; reflexivity).
  assert (G1 : forall k nd, aget k (nodes s') = Some nd -> k = n /\ nd = new_node shp).
  { intros k nd. rewrite Hn. cbn. destruct (Nat.eqb_spec k n); [intros [= <-]; auto|discriminate]. }
  assert (G2 : tens s' n = t) by (unfold tens; rewrite Ht; cbn; rewrite Nat.eqb_refl; reflexivity).
  assert (Hlen : length ws = length shp) by (rewrite Ews; apply seq_length).
  assert (Hown : own_of (new_node shp) t = ws).
  { unfold own_of, laxes. cbn. rewrite <- Hlen. apply permute_seq. }
  assert (Hnd : NoDup ws) by (rewrite Ews; apply seq_NoDup).
  constructor.
  - rewrite Hn. cbn. constructor; [intros []|constructor].
  - rewrite Ht. cbn. constructor; [intros []|constructor].
  - intros k. unfold amem. rewrite Hn, Ht. cbn. destruct (Nat.eqb k n); auto.
  - exists n, (new_node shp). repeat split.
    + rewrite Hn. cbn. rewrite Nat.eqb_refl. reflexivity.
    + intros k nd E _. apply (G1 k nd E).
  - intros k nd E. destruct (G1 k nd E) as [-> ->]. constructor.
    + unfold amem. rewrite Ht. cbn. rewrite Nat.eqb_refl. reflexivity.
    + cbn. reflexivity.
    + rewrite G2. cbn. symmetry. exact Hdim.
    + cbn. lia.
    + cbn. constructor.
    + intros c [].
    + intros p Hp. discriminate Hp.
  - intros k nd E. destruct (G1 k nd E) as [-> ->]. rewrite G2, Hown. exact Hnd.
  - intros k1 n1 k2 n2 w E1 E2'. destruct (G1 _ _ E1) as [-> _]. destruct (G1 _ _ E2') as [-> _]. reflexivity.
  - intros k tk w E Hw. rewrite Ht in E. cbn in E. destruct (Nat.eqb k n); [|discriminate].
    injection E as <-. cbn in Hw. change (next_wire s') with (next_wire s1). rewrite E3.
    rewrite Ews in Hw. apply in_seq in Hw. lia.
  - exact Hdb.
  - exists (fun _ => 0). intros c cn p E Hp. destruct (G1 _ _ E) as [_ ->]. discriminate Hp.
Qed.

(* ---- more list helpers ------------------------------------------------------------------------ *)
Lemma ib_firstn_app_le {A} n (a b : list A) : n <= length a -> firstn n (a ++ b) = firstn n a.
Proof. intros H. rewrite firstn_app. replace (n - length a) with 0 by lia. cbn. apply app_nil_r. Qed.

Lemma ib_skipn_app_len {A} v (a b : list A) : length a = v -> skipn v (a ++ b) = b.
Proof. intros <-. rewrite skipn_app, skipn_all, Nat.sub_diag. reflexivity. Qed.

Lemma ib_skipn_app_len_S {A} v (a : list A) x b : length a = v -> skipn (S v) (a ++ x :: b) = b.
Proof.
  intros <-. rewrite skipn_app. rewrite skipn_all2 by lia.
  replace (S (length a) - length a) with 1 by lia. reflexivity.
Qed.

Lemma ib_firstn_set_nth {A} (i : nat) (x : A) l : firstn i (set_nth i x l) = firstn i l.
Proof. revert i. induction l as [|y t IH]; intros [|i]; cbn; auto. f_equal. apply IH. Qed.

Lemma ib_skipn_set_nth {A} (i : nat) (x : A) l : skipn (S i) (set_nth i x l) = skipn (S i) l.
Proof. revert i. induction l as [|y t IH]; intros [|i]; cbn; auto. apply IH. Qed.

Lemma ib_nth_decomp {A} (i : nat) (l : list A) d : i < length l -> l = firstn i l ++ nth i l d :: skipn (S i) l.
Proof. intros H. rewrite <- (ib_set_nth_decomp i (nth i l d) l H). symmetry. apply ib_set_nth_same. Qed.

Lemma ib_NoDup_remove_nth {A} (i : nat) (l : list A) : NoDup l -> NoDup (firstn i l ++ skipn (S i) l).
Proof.
  intros H. destruct (Nat.lt_ge_cases i (length l)) as [Hi|Hi].
  - destruct l as [|d l0]; [cbn in Hi; lia|]. set (l := d :: l0) in *.
    rewrite (ib_nth_decomp i l d Hi) in H. apply NoDup_remove_1 in H. exact H.
  - rewrite firstn_all2 by exact Hi. rewrite skipn_all2 by lia. rewrite app_nil_r. exact H.
Qed.

(* ---- nodes: the two leg moves of add_child ------------------------------------------------- *)
Definition parent_wire (pn : node) (pt : sarr) (pleg : nat) : wire := nth (nth pleg (perm pn) 0) (axes pt) 0.

Lemma open_leg_to_parent_new shp p cleg cn :
  open_leg_to_parent (new_node shp) p cleg = Some cn -> cleg < length shp ->
  parent cn = Some p /\ children cn = [] /\ shape cn = shp /\
  perm cn = cleg :: firstn cleg (seq 0 (length shp)) ++ skipn (S cleg) (seq 0 (length shp)).
Proof.
  unfold open_leg_to_parent. cbn [is_root new_node parent negb].
  destruct (open_leg_ok _ cleg); cbn [negb]; [|discriminate].
  cbn [perm children shape new_node].
  destruct (move cleg 0 (seq 0 (length shp))) as [q|] eqn:Em; [|discriminate]. intros [= <-] Hc.
  cbn [parent children shape perm]. repeat split.
  destruct (ib_move_decomp _ _ _ _ Em (Nat.le_0_l _)) as (a & b & x & c0 & E1 & -> & Ha & Hb).
  destruct a; [|discriminate]. cbn [app] in *. rewrite Nat.sub_0_r in Hb.
  assert (Hx : x = cleg).
  { rewrite <- (seq_nth (length shp) 0 0 Hc) at 2. cbn [plus]. rewrite E1, <- Hb. symmetry. apply nth_middle. }
  rewrite E1. rewrite <- Hb at 2 4. rewrite ib_firstn_app_le by lia. rewrite firstn_all.
  rewrite (ib_skipn_app_len_S (length b) b x c0 eq_refl). rewrite Hx. reflexivity.
Qed.

Lemma open_leg_to_child_decomp n cid leg n' : open_leg_to_child n cid leg = Some n' ->
  parent n' = parent n /\ children n' = children n ++ [cid] /\ shape n' = shape n /\
  nvirt n <= leg < nlegs n /\
  exists a b x c0, perm n = a ++ b ++ x :: c0 /\ perm n' = a ++ x :: b ++ c0 /\
                   length a = nvirt n /\ length b = leg - nvirt n.
Proof.
  unfold open_leg_to_child. destruct (open_leg_ok n leg) eqn:Hok; cbn [negb]; [|discriminate].
  destruct (move leg (nvirt n) (perm n)) as [q|] eqn:Hm; [|discriminate]. intros [= <-].
  apply open_leg_ok_spec in Hok. cbn [parent children shape perm]. repeat split; try lia.
  destruct (ib_move_decomp _ _ _ _ Hm) as (a & b & x & c0 & H1 & H2 & H3 & H4); [lia|].
  exists a, b, x, c0. auto.
Qed.

(* the parent's logical axes before and after: the moved wire jumps over the open legs before it *)
Lemma open_leg_to_child_laxes n cid leg n' t : open_leg_to_child n cid leg = Some n' ->
  exists LA LB LC, laxes n t = LA ++ LB ++ parent_wire n t leg :: LC /\
                   laxes n' t = LA ++ parent_wire n t leg :: LB ++ LC /\ length LA = nvirt n.
Proof.
  intros H.
  destruct (open_leg_to_child_decomp _ _ _ _ H) as (_ & _ & _ & Hleg & a & b & x & c0 & E1 & E2 & E3 & E4).
  assert (Hx : nth leg (perm n) 0 = x).
  { rewrite E1, app_assoc. replace leg with (length (a ++ b)) by (rewrite app_length; lia). apply nth_middle. }
  exists (permute 0 a (axes t)), (permute 0 b (axes t)), (permute 0 c0 (axes t)).
  unfold laxes, parent_wire, permute. rewrite Hx, E1, E2, !map_app. cbn [map]. rewrite !map_app.
  repeat split; try reflexivity. rewrite map_length. exact E3.
Qed.
