(* The building operations of the Layer-W store model (TTN/Store.v) establish and preserve the
   store invariant (TTN/Inv.v): add_root on a blank store, add_child on a well-formed store, and
   every run consisting of AddRoot / AddChild operations only. *)
From Coq Require Import List Arith Bool Lia Permutation.
From PTN Require Import TTN.Store TTN.StoreProofs TTN.Inv TTN.InvProofs.
Import ListNotations.

(* ---- list helpers ---------------------------------------------------------------------------- *)
Section ListHelpers.
  Context {A : Type}.

  Lemma ib_pop_decomp (i : nat) (l : list A) x r : pop i l = Some (x, r) ->
    exists a c, l = a ++ x :: c /\ r = a ++ c /\ length a = i.
  Proof.
    revert i x r. induction l as [|y t IH]; intros [|i] x r H; cbn in H; try discriminate.
    - injection H as <- <-. exists [], t. auto.
    - destruct (pop i t) as [[z t']|] eqn:E; [|discriminate]. injection H as <- <-.
      destruct (IH _ _ _ E) as (a & c & -> & -> & <-). exists (y :: a), c. auto.
  Qed.

  Lemma ib_insert_app (x : A) a b : insert (length a) x (a ++ b) = a ++ x :: b.
  Proof. induction a as [|y t IH]; cbn; [destruct b; reflexivity|]. f_equal. exact IH. Qed.

  (* moving position i down to position v <= i *)
  Lemma ib_move_decomp (i v : nat) (l l' : list A) : move i v l = Some l' -> v <= i ->
    exists a b x c, l = a ++ b ++ x :: c /\ l' = a ++ x :: b ++ c /\ length a = v /\ length b = i - v.
  Proof.
    unfold move. destruct (pop i l) as [[x r]|] eqn:E; [|discriminate]. intros [= <-] Hv.
    destruct (ib_pop_decomp _ _ _ _ E) as (a & c & -> & -> & <-).
    exists (firstn v a), (skipn v a), x, c.
    assert (Hl : length (firstn v a) = v) by (apply firstn_length_le; exact Hv).
    repeat split.
    - rewrite app_assoc, firstn_skipn. reflexivity.
    - pose proof (ib_insert_app x (firstn v a) (skipn v a ++ c)) as HH.
      rewrite Hl, app_assoc, firstn_skipn in HH. exact HH.
    - exact Hl.
    - apply skipn_length.
  Qed.

  Lemma ib_set_nth_decomp (i : nat) (x : A) (l : list A) : i < length l ->
    set_nth i x l = firstn i l ++ x :: skipn (S i) l.
  Proof.
    revert i. induction l as [|y t IH]; intros [|i] H; cbn in *; try lia; [reflexivity|].
    f_equal. apply IH. lia.
  Qed.

  Lemma ib_set_nth_length (i : nat) (x : A) (l : list A) : length (set_nth i x l) = length l.
  Proof. revert i. induction l as [|y t IH]; intros [|i]; cbn; auto. Qed.

  Lemma ib_nth_set_nth (i : nat) (x : A) (l : list A) d : i < length l -> nth i (set_nth i x l) d = x.
  Proof. revert i. induction l as [|y t IH]; intros [|i] H; cbn in *; try lia; [reflexivity|]. apply IH. lia. Qed.

  Lemma ib_set_nth_same (i : nat) (l : list A) d : set_nth i (nth i l d) l = l.
  Proof. revert i. induction l as [|y t IH]; intros [|i]; cbn; auto. f_equal. apply IH. Qed.

  Lemma ib_in_set_nth (i : nat) (x y : A) (l : list A) : In y (set_nth i x l) -> y = x \/ In y l.
  Proof.
    revert i. induction l as [|z t IH]; intros [|i]; cbn; auto.
    - intros [<-|H]; auto.
    - intros [<-|H]; auto. destruct (IH _ H); auto.
  Qed.

  Lemma ib_remove_nth_incl (i : nat) (l : list A) : incl (firstn i l ++ skipn (S i) l) l.
  Proof.
    intros x Hx. apply in_app_or in Hx. destruct Hx as [Hx|Hx].
    - rewrite <- (firstn_skipn i l). apply in_or_app. left. exact Hx.
    - rewrite <- (firstn_skipn (S i) l). apply in_or_app. right. exact Hx.
  Qed.

  Lemma ib_permute_app (d : A) p q (l : list A) : permute d (p ++ q) l = permute d p l ++ permute d q l.
  Proof. unfold permute. apply map_app. Qed.

  Lemma ib_aset_absent (k : nat) (v : A) (l : list (nat * A)) : aget k l = None -> aset k v l = l ++ [(k, v)].
  Proof.
    induction l as [|[k' v'] t IH]; cbn; [reflexivity|].
    destruct (Nat.eqb k k'); [discriminate|]. intros H. f_equal. apply IH. exact H.
  Qed.

  Lemma ib_aset_app_l (k : nat) (v v0 : A) (l1 l2 : list (nat * A)) :
    aget k l1 = Some v0 -> aset k v (l1 ++ l2) = aset k v l1 ++ l2.
  Proof.
    induction l1 as [|[k' v'] t IH]; cbn; [discriminate|].
    destruct (Nat.eqb k k'); [reflexivity|]. intros H. cbn. f_equal. apply IH. exact H.
  Qed.
End ListHelpers.

Lemma ib_map_set_nth {A B} (f : A -> B) (i : nat) (x : A) (l : list A) :
  map f (set_nth i x l) = set_nth i (f x) (map f l).
Proof. revert i. induction l as [|y t IH]; intros [|i]; cbn; auto. f_equal. apply IH. Qed.

(* ---- index_of / neighbour_index -------------------------------------------------------------- *)
Lemma ib_index_of_lt x l i : index_of x l = Some i -> i < length l.
Proof.
  revert i. induction l as [|y t IH]; intros i; cbn; [discriminate|].
  destruct (Nat.eqb x y); [intros [= <-]; lia|].
  destruct (index_of x t) as [j|]; [|discriminate]. intros [= <-]. specialize (IH j eq_refl). lia.
Qed.

Lemma ib_index_of_app_l x a b i : index_of x a = Some i -> index_of x (a ++ b) = Some i.
Proof.
  revert i. induction a as [|y t IH]; intros i; cbn; [discriminate|].
  destruct (Nat.eqb x y); [auto|].
  destruct (index_of x t) as [j|]; [|discriminate]. intros [= <-]. rewrite (IH j eq_refl). reflexivity.
Qed.

Lemma ib_index_of_snoc x a : ~ In x a -> index_of x (a ++ [x]) = Some (length a).
Proof.
  induction a as [|y t IH]; cbn; intros H.
  - rewrite Nat.eqb_refl. reflexivity.
  - destruct (Nat.eqb_spec x y) as [->|Hne]; [exfalso; apply H; left; reflexivity|].
    rewrite IH; [reflexivity|]. intros Hin. apply H. right. exact Hin.
Qed.

Lemma ib_neighbour_index_lt n x i : neighbour_index n x = Some i -> i < nvirt n.
Proof.
  unfold neighbour_index, nvirt, nparents. destruct (parent n) as [q|]; cbn [option_map].
  - destruct (Nat.eqb x q); [intros [= <-]; lia|].
    destruct (index_of x (children n)) as [j|] eqn:E; [|discriminate]. intros [= <-].
    apply ib_index_of_lt in E. unfold id in *. lia.
  - intros E. apply ib_index_of_lt in E. unfold id in *. lia.
Qed.

Lemma ib_neighbour_index_snoc_old n n' c x i :
  parent n' = parent n -> children n' = children n ++ [c] ->
  neighbour_index n x = Some i -> neighbour_index n' x = Some i.
Proof.
  unfold neighbour_index. intros -> ->. destruct (parent n) as [q|].
  - destruct (Nat.eqb x q); [auto|].
    destruct (index_of x (children n)) as [j|] eqn:E; [|discriminate]. intros [= <-].
    rewrite (ib_index_of_app_l _ _ _ _ E). reflexivity.
  - apply ib_index_of_app_l.
Qed.

Lemma ib_neighbour_index_snoc_new n n' c :
  parent n' = parent n -> children n' = children n ++ [c] ->
  parent n <> Some c -> ~ In c (children n) -> neighbour_index n' c = Some (nvirt n).
Proof.
  unfold neighbour_index, nvirt, nparents. intros -> -> Hp Hc. unfold id in *. destruct (parent n) as [q|].
  - destruct (Nat.eqb_spec c q) as [->|Hne]; [exfalso; apply Hp; reflexivity|].
    rewrite (ib_index_of_snoc _ _ Hc). cbn. f_equal. lia.
  - rewrite (ib_index_of_snoc _ _ Hc). reflexivity.
Qed.

(* ---- fresh wires ----------------------------------------------------------------------------- *)
Lemma fresh_wires_spec ds : forall s s2 ws, fresh_wires s ds = (s2, ws) ->
  ws = seq (next_wire s) (length ds) /\ dims s2 = dims s ++ combine ws ds /\
  next_wire s2 = next_wire s + length ds /\
  nodes s2 = nodes s /\ tensors s2 = tensors s /\ root s2 = root s /\
  next_atom s2 = next_atom s /\ defs s2 = defs s /\ atab s2 = atab s.
Proof.
  induction ds as [|d t IH]; intros s s2 ws H; cbn in H.
  - injection H as <- <-. cbn. rewrite app_nil_r, Nat.add_0_r. repeat split; reflexivity.
  - match type of H with context [fresh_wires ?s1 t] => destruct (fresh_wires s1 t) as [s3 ws3] eqn:E end.
    injection H as <- <-. apply IH in E. cbn in E.
    destruct E as (-> & E2 & E3 & E4 & E5 & E6 & E7 & E8 & E9).
    cbn. rewrite E2, E3, <- app_assoc. cbn. repeat split; auto; lia.
Qed.

Lemma ib_akeys_combine {V} (ks : list nat) (vs : list V) w : In w (akeys (combine ks vs)) -> In w ks.
Proof.
  unfold akeys. intros H. apply in_map_iff in H. destruct H as ([k v] & <- & Hin).
  apply in_combine_l in Hin. exact Hin.
Qed.

Lemma ib_map_aget_combine (ds : list nat) : forall a,
  map (fun w => match aget w (combine (seq a (length ds)) ds) with Some d => d | None => 0 end)
      (seq a (length ds)) = ds.
Proof.
  induction ds as [|d t IH]; intros a; [reflexivity|].
  cbn [length seq combine map aget]. rewrite Nat.eqb_refl. f_equal.
  etransitivity; [|apply (IH (S a))]. apply map_ext_in. intros w Hw. apply in_seq in Hw.
  destruct (Nat.eqb_spec w a); [lia|reflexivity].
Qed.

(* the dimension table of the fresh wires, when the old table only mentions old wires *)
Lemma fresh_wires_wdim_new s ds s2 ws : fresh_wires s ds = (s2, ws) ->
  (forall w, In w (akeys (dims s)) -> w < next_wire s) -> map (wdim s2) ws = ds.
Proof.
  intros H Hd. destruct (fresh_wires_spec _ _ _ _ H) as (-> & E2 & _).
  etransitivity; [|apply (ib_map_aget_combine ds (next_wire s))].
  apply map_ext_in. intros w Hw. apply in_seq in Hw. unfold wdim. rewrite E2, aget_app.
  destruct (aget w (dims s)) as [v|] eqn:E; [|reflexivity].
  apply aget_Some_keys in E. apply Hd in E. lia.
Qed.

Lemma fresh_wires_wdim_old s ds s2 ws w : fresh_wires s ds = (s2, ws) ->
  w < next_wire s -> wdim s2 w = wdim s w.
Proof.
  intros H Hw. destruct (fresh_wires_spec _ _ _ _ H) as (-> & E2 & _).
  unfold wdim. rewrite E2, aget_app. unfold wire in *. destruct (aget w (dims s)) as [v|]; [reflexivity|].
  destruct (aget w (combine (seq (next_wire s) (length ds)) ds)) as [v|] eqn:E; [|reflexivity].
  apply aget_Some_keys in E. apply ib_akeys_combine in E. apply in_seq in E. lia.
Qed.

Lemma fresh_wires_dims_bound s ds s2 ws : fresh_wires s ds = (s2, ws) ->
  (forall w, In w (akeys (dims s)) -> w < next_wire s) ->
  forall w, In w (akeys (dims s2)) -> w < next_wire s2.
Proof.
  intros H Hd w Hw. destruct (fresh_wires_spec _ _ _ _ H) as (-> & E2 & E3 & _).
  rewrite E2, akeys_app in Hw. rewrite E3. apply in_app_or in Hw. destruct Hw as [Hw|Hw].
  - apply Hd in Hw. lia.
  - apply ib_akeys_combine in Hw. apply in_seq in Hw. lia.
Qed.

(* ---- blank stores and add_root --------------------------------------------------------------- *)
Definition blank (s : store) : Prop :=
  nodes s = [] /\ tensors s = [] /\ root s = None /\ (forall w, In w (akeys (dims s)) -> w < next_wire s).

Lemma blank_empty : blank empty_store.
Proof. repeat split. intros w []. Qed.

(* the store add_root produces, from the store s1 holding the fresh wires ws *)
Definition rooted (s1 : store) (n : id) (shp : list nat) (ws : list wire) : store :=
  {| nodes := aset n (new_node shp) (nodes s1);
     tensors := aset n {| axes := ws; atoms := [next_atom s1]; bnd := [] |} (tensors s1);
     root := Some n; dims := dims s1; next_wire := next_wire s1; next_atom := S (next_atom s1);
     defs := defs s1; atab := atab s1 ++ [(next_atom s1, ws)] |}.

Lemma add_root_inv s n shp s' : add_root s n shp = Some s' ->
  root s = None /\ exists s1 ws, fresh_wires s shp = (s1, ws) /\ s' = rooted s1 n shp ws.
Proof.
  unfold add_root. destruct (root s) as [r|]; [discriminate|].
  destruct (fresh_wires s shp) as [s1 ws] eqn:E. cbn. intros [= <-]. split; [reflexivity|].
  exists s1, ws. split; reflexivity.
Qed.

Lemma add_root_rejected s n shp : root s <> None -> add_root s n shp = None.
Proof. unfold add_root. destruct (root s); [reflexivity|congruence]. Qed.

Lemma add_root_accepted s n shp : root s = None -> exists s', add_root s n shp = Some s'.
Proof.
  unfold add_root. intros ->. destruct (fresh_wires s shp) as [s1 ws]. cbn. eauto.
Qed.

Theorem add_root_wf s n shp s' : blank s -> add_root s n shp = Some s' -> wf s'.
Proof.
  intros (Bn & Bt & Br & Bd) H. destruct (add_root_inv _ _ _ _ H) as (_ & s1 & ws & Ef & ->).
  pose proof (fresh_wires_wdim_new _ _ _ _ Ef Bd) as Hdim.
  pose proof (fresh_wires_dims_bound _ _ _ _ Ef Bd) as Hdb.
  destruct (fresh_wires_spec _ _ _ _ Ef) as (Ews & E2 & E3 & E4 & E5 & _).
  set (t := {| axes := ws; atoms := [next_atom s1]; bnd := [] |}).
  set (s' := rooted s1 n shp ws).
  assert (Hn : nodes s' = [(n, new_node shp)]) by (unfold s', rooted; cbn; rewrite E4, Bn; reflexivity).
  assert (Ht : tensors s' = [(n, t)]) by (unfold s', rooted; cbn; rewrite E5, Bt; reflexivity).
  assert (G1 : forall k nd, aget k (nodes s') = Some nd -> k = n /\ nd = new_node shp).
  { intros k nd. rewrite Hn. cbn. destruct (Nat.eqb_spec k n); [intros [= <-]; auto|discriminate]. }
  assert (G2 : tens s' n = t) by (unfold tens; rewrite Ht; cbn; rewrite Nat.eqb_refl; reflexivity).
  assert (Hlen : length ws = length shp) by (rewrite Ews; apply seq_length).
  assert (Hown : own_of (new_node shp) t = ws).
  { unfold own_of, laxes. cbn. rewrite <- Hlen. apply permute_seq. }
  assert (Hnd : NoDup ws) by (rewrite Ews; apply seq_NoDup).
  constructor.
  - rewrite Hn. cbn. constructor; [intros []|constructor].
  - rewrite Ht. cbn. constructor; [intros []|constructor].
  - intros k. unfold amem. rewrite Hn, Ht. cbn. destruct (Nat.eqb k n); auto.
  - exists n, (new_node shp). repeat split.
    + rewrite Hn. cbn. rewrite Nat.eqb_refl. reflexivity.
    + intros k nd E _. apply (G1 k nd E).
  - intros k nd E. destruct (G1 k nd E) as [-> ->]. constructor.
    + unfold amem. rewrite Ht. cbn. rewrite Nat.eqb_refl. reflexivity.
    + cbn. reflexivity.
    + rewrite G2. cbn. symmetry. exact Hdim.
    + cbn. lia.
    + cbn. constructor.
    + intros c [].
    + intros p Hp. discriminate Hp.
  - intros k nd E. destruct (G1 k nd E) as [-> ->]. rewrite G2, Hown. exact Hnd.
  - intros k1 n1 k2 n2 w E1 E2'. destruct (G1 _ _ E1) as [-> _]. destruct (G1 _ _ E2') as [-> _]. reflexivity.
  - intros k tk w E Hw. rewrite Ht in E. cbn in E. destruct (Nat.eqb k n); [|discriminate].
    injection E as <-. cbn in Hw. change (next_wire s') with (next_wire s1). rewrite E3.
    rewrite Ews in Hw. apply in_seq in Hw. lia.
  - exact Hdb.
  - exists (fun _ => 0). intros c cn p E Hp. destruct (G1 _ _ E) as [_ ->]. discriminate Hp.
Qed.

(* ---- more list helpers ------------------------------------------------------------------------ *)
Lemma ib_firstn_app_le {A} n (a b : list A) : n <= length a -> firstn n (a ++ b) = firstn n a.
Proof. intros H. rewrite firstn_app. replace (n - length a) with 0 by lia. cbn. apply app_nil_r. Qed.

Lemma ib_skipn_app_len {A} v (a b : list A) : length a = v -> skipn v (a ++ b) = b.
Proof. intros <-. rewrite skipn_app, skipn_all, Nat.sub_diag. reflexivity. Qed.

Lemma ib_skipn_app_len_S {A} v (a : list A) x b : length a = v -> skipn (S v) (a ++ x :: b) = b.
Proof.
  intros <-. rewrite skipn_app. rewrite skipn_all2 by lia.
  replace (S (length a) - length a) with 1 by lia. reflexivity.
Qed.

Lemma ib_firstn_set_nth {A} (i : nat) (x : A) l : firstn i (set_nth i x l) = firstn i l.
Proof. revert i. induction l as [|y t IH]; intros [|i]; cbn; auto. f_equal. apply IH. Qed.

Lemma ib_skipn_set_nth {A} (i : nat) (x : A) l : skipn (S i) (set_nth i x l) = skipn (S i) l.
Proof. revert i. induction l as [|y t IH]; intros [|i]; cbn; auto. apply IH. Qed.

Lemma ib_nth_decomp {A} (i : nat) (l : list A) d : i < length l -> l = firstn i l ++ nth i l d :: skipn (S i) l.
Proof. intros H. rewrite <- (ib_set_nth_decomp i (nth i l d) l H). symmetry. apply ib_set_nth_same. Qed.

Lemma ib_NoDup_remove_nth {A} (i : nat) (l : list A) : NoDup l -> NoDup (firstn i l ++ skipn (S i) l).
Proof.
  intros H. destruct (Nat.lt_ge_cases i (length l)) as [Hi|Hi].
  - destruct l as [|d l0]; [cbn in Hi; lia|]. set (l := d :: l0) in *.
    rewrite (ib_nth_decomp i l d Hi) in H. apply NoDup_remove_1 in H. exact H.
  - rewrite firstn_all2 by exact Hi. rewrite skipn_all2 by lia. rewrite app_nil_r. exact H.
Qed.

(* ---- nodes: the two leg moves of add_child ------------------------------------------------- *)
Definition parent_wire (pn : node) (pt : sarr) (pleg : nat) : wire := nth (nth pleg (perm pn) 0) (axes pt) 0.

Lemma open_leg_to_parent_new shp p cleg cn :
  open_leg_to_parent (new_node shp) p cleg = Some cn -> cleg < length shp ->
  parent cn = Some p /\ children cn = [] /\ shape cn = shp /\
  perm cn = cleg :: firstn cleg (seq 0 (length shp)) ++ skipn (S cleg) (seq 0 (length shp)).
Proof.
  unfold open_leg_to_parent. cbn [is_root new_node parent negb].
  destruct (open_leg_ok _ cleg); cbn [negb]; [|discriminate].
  cbn [perm children shape new_node].
  destruct (move cleg 0 (seq 0 (length shp))) as [q|] eqn:Em; [|discriminate]. intros [= <-] Hc.
  cbn [parent children shape perm]. repeat split.
  destruct (ib_move_decomp _ _ _ _ Em (Nat.le_0_l _)) as (a & b & x & c0 & E1 & -> & Ha & Hb).
  destruct a; [|discriminate]. cbn [app] in *. rewrite Nat.sub_0_r in Hb.
  assert (Hx : x = cleg).
  { pose proof (@seq_nth (length shp) 0 cleg 0 Hc) as Hn. rewrite E1, <- Hb in Hn.
    rewrite nth_middle in Hn. lia. }
  rewrite E1, Hx, <- Hb. rewrite ib_firstn_app_le by lia. rewrite firstn_all.
  rewrite (ib_skipn_app_len_S (length b) b _ c0 eq_refl). reflexivity.
Qed.

Lemma open_leg_to_child_decomp n cid leg n' : open_leg_to_child n cid leg = Some n' ->
  parent n' = parent n /\ children n' = children n ++ [cid] /\ shape n' = shape n /\
  nvirt n <= leg < nlegs n /\
  exists a b x c0, perm n = a ++ b ++ x :: c0 /\ perm n' = a ++ x :: b ++ c0 /\
                   length a = nvirt n /\ length b = leg - nvirt n.
Proof.
  unfold open_leg_to_child. destruct (open_leg_ok n leg) eqn:Hok; cbn [negb]; [|discriminate].
  destruct (move leg (nvirt n) (perm n)) as [q|] eqn:Hm; [|discriminate]. intros [= <-].
  apply open_leg_ok_spec in Hok. cbn [parent children shape perm]. repeat split; try lia.
  destruct (ib_move_decomp _ _ _ _ Hm) as (a & b & x & c0 & H1 & H2 & H3 & H4); [lia|].
  exists a, b, x, c0. auto.
Qed.

(* the parent's logical axes before and after: the moved wire jumps over the open legs before it *)
Lemma open_leg_to_child_laxes n cid leg n' t : open_leg_to_child n cid leg = Some n' ->
  exists LA LB LC, laxes n t = LA ++ LB ++ parent_wire n t leg :: LC /\
                   laxes n' t = LA ++ parent_wire n t leg :: LB ++ LC /\ length LA = nvirt n.
Proof.
  intros H.
  destruct (open_leg_to_child_decomp _ _ _ _ H) as (_ & _ & _ & Hleg & a & b & x & c0 & E1 & E2 & E3 & E4).
  assert (Hx : nth leg (perm n) 0 = x).
  { rewrite E1, app_assoc. replace leg with (length (a ++ b)) by (rewrite app_length; lia). apply nth_middle. }
  exists (permute 0 a (axes t)), (permute 0 b (axes t)), (permute 0 c0 (axes t)).
  unfold laxes, parent_wire, permute. rewrite Hx, E1, E2, !map_app. cbn [map]. rewrite !map_app.
  repeat split; try reflexivity. rewrite map_length. exact E3.
Qed.

(* ---- owned / logical wires of a well-formed store are old wires ---------------------------------- *)
Lemma own_of_incl n t : incl (own_of n t) (laxes n t).
Proof.
  unfold own_of. intros w Hw. apply in_app_or in Hw. destruct Hw as [Hw|Hw].
  - rewrite <- (firstn_skipn (nparents n) (laxes n t)). apply in_or_app. left. exact Hw.
  - rewrite <- (firstn_skipn (nvirt n) (laxes n t)). apply in_or_app. right. exact Hw.
Qed.

Lemma wf_lax_incl s k n : wf s -> aget k (nodes s) = Some n -> incl (lax s k n) (axes (tens s k)).
Proof.
  intros H E. pose proof (wf_node s H k n E) as Hn. unfold lax, laxes. apply permute_incl.
  replace (length (axes (tens s k))) with (length (shape n)).
  - apply perm_bound. apply (ni_perm _ _ _ Hn).
  - rewrite (ni_shape _ _ _ Hn), map_length. reflexivity.
Qed.

Lemma wf_lax_bound s k n w : wf s -> aget k (nodes s) = Some n -> In w (lax s k n) -> w < next_wire s.
Proof.
  intros H E Hw. apply (wf_wires s H k (tens s k) w); [apply (wf_tens s k n H E)|].
  apply (wf_lax_incl s k n H E). exact Hw.
Qed.

Lemma wf_own_bound s k n w : wf s -> aget k (nodes s) = Some n -> In w (own_of n (tens s k)) -> w < next_wire s.
Proof. intros H E Hw. apply (wf_lax_bound s k n w H E). apply own_of_incl. exact Hw. Qed.

(* flat_map over an updated association list, up to some extra elements *)
Lemma ib_flat_map_aset_perm_extra {V W} (f f' : nat * V -> list W) (extra : list W) k v v0 l :
  NoDup (akeys l) -> aget k l = Some v0 -> Permutation (extra ++ f' (k, v)) (f (k, v0)) ->
  (forall k2 v2, k2 <> k -> In (k2, v2) l -> f' (k2, v2) = f (k2, v2)) ->
  Permutation (extra ++ flat_map f' (aset k v l)) (flat_map f l).
Proof.
  intros Hnd E Hk Hother. induction l as [|[k' v'] t IH]; cbn in *; [discriminate|].
  inversion Hnd as [|? ? Hni Hnd']; subst.
  destruct (Nat.eqb_spec k k') as [->|Hne]; cbn.
  - injection E as ->. rewrite app_assoc. rewrite (flat_map_ext_in f' f).
    + apply Permutation_app_tail. exact Hk.
    + intros [k2 v2] Hin. apply Hother; [|right; exact Hin]. intros ->.
      apply Hni. unfold akeys. change k' with (fst (k', v2)). apply in_map. exact Hin.
  - rewrite (Hother k' v') by (auto; congruence).
    rewrite Permutation_app_swap_app. apply Permutation_app_head. apply IH; auto.
Qed.

(* ---- add_child ------------------------------------------------------------------------------ *)
(* the child's raw axes: fresh wires, with position cleg overwritten by the parent's wire *)
Definition child_axes (s : store) (shp : list nat) (cleg : nat) (pw : wire) : list wire :=
  set_nth cleg pw (seq (next_wire s) (length shp)).

(* the store add_child produces *)
Definition childed (s : store) (c : id) (shp : list nat) (cleg : nat) (p : id) (cn pn' : node) (pw : wire) : store :=
  {| nodes := aset p pn' (aset c cn (nodes s));
     tensors := aset c {| axes := child_axes s shp cleg pw; atoms := [next_atom s]; bnd := [] |} (tensors s);
     root := root s; dims := dims s ++ combine (seq (next_wire s) (length shp)) shp;
     next_wire := next_wire s + length shp; next_atom := S (next_atom s);
     defs := defs s; atab := atab s ++ [(next_atom s, child_axes s shp cleg pw)] |}.

Lemma add_child_inv s c shp cleg p pleg s' : add_child s c shp cleg p pleg = Some s' ->
  exists pn pt cn pn',
    aget p (nodes s) = Some pn /\ aget p (tensors s) = Some pt /\ amem c (nodes s) = false /\
    cleg < length shp /\ pleg < nlegs pn /\
    nth cleg shp 0 = wdim s (parent_wire pn pt pleg) /\
    open_leg_to_parent (new_node shp) p cleg = Some cn /\ open_leg_to_child pn c pleg = Some pn' /\
    s' = childed s c shp cleg p cn pn' (parent_wire pn pt pleg).
Proof.
  unfold add_child. destruct (aget p (nodes s)) as [pn|] eqn:Ep; [|discriminate].
  destruct (aget p (tensors s)) as [pt|] eqn:Et; [|discriminate].
  destruct (amem c (nodes s)) eqn:Ec; [discriminate|].
  destruct (Nat.ltb_spec cleg (length shp)) as [H1|H1]; cbn [negb]; [|discriminate].
  destruct (Nat.ltb_spec pleg (nlegs pn)) as [H2|H2]; cbn [negb]; [|discriminate].
  fold (parent_wire pn pt pleg).
  destruct (Nat.eqb_spec (nth cleg shp 0) (wdim s (parent_wire pn pt pleg))) as [H3|H3]; cbn [negb]; [|discriminate].
  destruct (open_leg_to_parent (new_node shp) p cleg) as [cn|] eqn:E1; [|discriminate].
  destruct (open_leg_to_child pn c pleg) as [pn'|] eqn:E2; [|discriminate].
  destruct (fresh_wires s shp) as [s1 ws] eqn:E3.
  destruct (fresh_wires_spec _ _ _ _ E3) as (-> & F2 & F3 & F4 & F5 & F6 & F7 & F8 & F9).
  cbn. intros [= <-]. exists pn, pt, cn, pn'. repeat split; auto.
  unfold childed, child_axes. rewrite F2, F3, F4, F5, F6, F7, F8, F9. reflexivity.
Qed.

Section AddChild.
  Variables (s : store) (c : id) (shp : list nat) (cleg : nat) (p : id) (pleg : nat).
  Variables (pn : node) (pt : sarr) (cn pn' : node).
  Hypothesis Hwf : wf s.
  Hypothesis Ep : aget p (nodes s) = Some pn.
  Hypothesis Et : aget p (tensors s) = Some pt.
  Hypothesis Ec : amem c (nodes s) = false.
  Hypothesis Hcleg : cleg < length shp.
  Hypothesis Hdimeq : nth cleg shp 0 = wdim s (parent_wire pn pt pleg).
  Hypothesis Hcn : open_leg_to_parent (new_node shp) p cleg = Some cn.
  Hypothesis Hpn' : open_leg_to_child pn c pleg = Some pn'.

  Local Notation pw := (parent_wire pn pt pleg).
  Local Notation ws := (seq (next_wire s) (length shp)).
  Local Notation ws' := (child_axes s shp cleg pw).
  Local Notation tc := {| axes := ws'; atoms := [next_atom s]; bnd := [] |}.
  Local Notation s' := (childed s c shp cleg p cn pn' pw).
  Local Notation rest := (firstn cleg ws ++ skipn (S cleg) ws).

  (* -- keys -- *)
  Lemma ac_c_absent : aget c (nodes s) = None.
  Proof. unfold amem in Ec. destruct (aget c (nodes s)); [discriminate|reflexivity]. Qed.

  Lemma ac_c_ne_p : c <> p.
  Proof. intros E. pose proof ac_c_absent as H. rewrite E, Ep in H. discriminate. Qed.

  Lemma ac_c_absent_t : aget c (tensors s) = None.
  Proof.
    destruct (aget c (tensors s)) as [t|] eqn:E; [|reflexivity].
    assert (H : amem c (nodes s) = true) by (apply (wf_tn s Hwf); apply amem_aget; eauto). congruence.
  Qed.

  Lemma ac_old_ne_c k nk : aget k (nodes s) = Some nk -> k <> c.
  Proof. intros E ->. rewrite ac_c_absent in E. discriminate. Qed.

  Lemma ac_parent_old k nk q : aget k (nodes s) = Some nk -> parent nk = Some q -> q <> c.
  Proof.
    intros E Hq. destruct (ni_par _ _ _ (wf_node s Hwf k nk E) q Hq) as (qn & i & Eq & _).
    apply (ac_old_ne_c q qn Eq).
  Qed.

  (* -- the new store, pointwise -- *)
  Lemma ac_nodes k :
    aget k (nodes s') = if Nat.eqb k p then Some pn' else if Nat.eqb k c then Some cn else aget k (nodes s).
  Proof. unfold childed. cbn [nodes]. rewrite !aget_aset. reflexivity. Qed.

  Lemma ac_tens k : tens s' k = if Nat.eqb k c then tc else tens s k.
  Proof. unfold tens, childed. cbn [tensors]. rewrite aget_aset. destruct (Nat.eqb k c); reflexivity. Qed.

  Lemma ac_amem_t k : amem k (tensors s') = Nat.eqb k c || amem k (tensors s).
  Proof. unfold amem, childed. cbn [tensors]. rewrite aget_aset. destruct (Nat.eqb k c); reflexivity. Qed.

  Lemma ac_tens_p : tens s p = pt.
  Proof. apply tens_aget. exact Et. Qed.

  Lemma ac_tens_p' : tens s' p = pt.
  Proof.
    rewrite ac_tens. destruct (Nat.eqb_spec p c) as [E|_]; [symmetry in E; destruct (ac_c_ne_p E)|].
    apply ac_tens_p.
  Qed.

  Lemma ac_node_cases k nk' : aget k (nodes s') = Some nk' ->
    (k = p /\ nk' = pn') \/ (k = c /\ nk' = cn) \/ (k <> p /\ k <> c /\ aget k (nodes s) = Some nk').
  Proof.
    rewrite ac_nodes. destruct (Nat.eqb_spec k p) as [->|Hp]; [intros [= <-]; auto|].
    destruct (Nat.eqb_spec k c) as [->|Hc]; [intros [= <-]; auto|]. auto.
  Qed.

  (* -- dimensions -- *)
  Lemma ac_wdim_old w : w < next_wire s -> wdim s' w = wdim s w.
  Proof.
    intros Hw. destruct (fresh_wires s shp) as [s1 ws0] eqn:E.
    pose proof (fresh_wires_wdim_old _ _ _ _ w E Hw) as H.
    destruct (fresh_wires_spec _ _ _ _ E) as (-> & E2 & _).
    unfold wdim in *. unfold childed. cbn [dims]. unfold wire in *. rewrite <- E2. exact H.
  Qed.

  Lemma ac_wdim_new : map (wdim s') ws = shp.
  Proof.
    destruct (fresh_wires s shp) as [s1 ws0] eqn:E.
    pose proof (fresh_wires_wdim_new _ _ _ _ E (wf_dims s Hwf)) as H.
    destruct (fresh_wires_spec _ _ _ _ E) as (-> & E2 & _).
    etransitivity; [|exact H]. apply map_ext. intros w. unfold wdim, childed. cbn [dims]. unfold wire in *. rewrite <- E2. reflexivity.
  Qed.

  Lemma ac_shape_old k nk : aget k (nodes s) = Some nk -> shape nk = map (wdim s') (axes (tens s k)).
  Proof.
    intros E. rewrite (ni_shape _ _ _ (wf_node s Hwf k nk E)). apply map_ext_in. intros w Hw. symmetry.
    apply ac_wdim_old. apply (wf_wires s Hwf k (tens s k) w); [apply (wf_tens s k nk Hwf E)|exact Hw].
  Qed.

  (* -- the parent -- *)
  Lemma ac_pn'_parent : parent pn' = parent pn.
  Proof. apply (open_leg_to_child_decomp _ _ _ _ Hpn'). Qed.

  Lemma ac_pn'_children : children pn' = children pn ++ [c].
  Proof. apply (open_leg_to_child_decomp _ _ _ _ Hpn'). Qed.

  Lemma ac_pn'_nparents : nparents pn' = nparents pn.
  Proof. apply nparents_ext. apply ac_pn'_parent. Qed.

  Lemma ac_pn'_nvirt : nvirt pn' = S (nvirt pn).
  Proof. unfold nvirt. rewrite ac_pn'_nparents, ac_pn'_children, app_length. cbn. lia. Qed.

  Lemma ac_parent_laxes : exists LA LB LC,
    laxes pn pt = LA ++ LB ++ pw :: LC /\ laxes pn' pt = LA ++ pw :: LB ++ LC /\ length LA = nvirt pn.
  Proof. apply (open_leg_to_child_laxes _ _ _ _ _ Hpn'). Qed.

  Lemma ac_parent_own : exists X Y Z,
    own_of pn pt = X ++ Y ++ pw :: Z /\ own_of pn' pt = X ++ Y ++ Z /\
    open_of pn pt = Y ++ pw :: Z /\ open_of pn' pt = Y ++ Z.
  Proof.
    destruct ac_parent_laxes as (LA & LB & LC & E1 & E2 & E3).
    assert (Hle : nparents pn <= length LA) by (rewrite E3; unfold nvirt; lia).
    exists (firstn (nparents pn) LA), LB, LC. unfold own_of, open_of.
    rewrite E1, E2, ac_pn'_nvirt, ac_pn'_nparents.
    rewrite !(ib_firstn_app_le _ LA _ Hle).
    rewrite (ib_skipn_app_len _ LA _ E3). rewrite (ib_skipn_app_len_S _ LA _ _ E3). repeat split; reflexivity.
  Qed.

  Lemma ac_parent_nth_lt i : i < nvirt pn -> nth i (laxes pn' pt) 0 = nth i (laxes pn pt) 0.
  Proof.
    destruct ac_parent_laxes as (LA & LB & LC & E1 & E2 & E3). intros Hi.
    rewrite E1, E2, !app_nth1 by lia. reflexivity.
  Qed.

  Lemma ac_parent_nth_v : nth (nvirt pn) (laxes pn' pt) 0 = pw.
  Proof. destruct ac_parent_laxes as (LA & LB & LC & E1 & E2 & E3). rewrite E2, <- E3. apply nth_middle. Qed.

  Lemma ac_pw_bound : pw < next_wire s.
  Proof.
    apply (wf_lax_bound s p pn pw Hwf Ep). unfold lax. rewrite ac_tens_p.
    destruct ac_parent_laxes as (LA & LB & LC & E1 & _). rewrite E1.
    apply in_or_app. right. apply in_or_app. right. left. reflexivity.
  Qed.

  Lemma ac_pw_own : In pw (own_of pn pt).
  Proof.
    destruct ac_parent_own as (X & Y & Z & O1 & _). rewrite O1.
    apply in_or_app. right. apply in_or_app. right. left. reflexivity.
  Qed.

  (* -- the child -- *)
  Lemma ac_cn : parent cn = Some p /\ children cn = [] /\ shape cn = shp /\
    perm cn = cleg :: firstn cleg (seq 0 (length shp)) ++ skipn (S cleg) (seq 0 (length shp)).
  Proof. apply open_leg_to_parent_new; assumption. Qed.

  Lemma ac_cn_nvirt : nparents cn = 1 /\ nvirt cn = 1.
  Proof. destruct ac_cn as (H1 & H2 & _). unfold nvirt, nparents. rewrite H1, H2. split; reflexivity. Qed.

  Lemma ac_ws'_length : length ws' = length shp.
  Proof. unfold child_axes. rewrite ib_set_nth_length, seq_length. reflexivity. Qed.

  Lemma ac_child_laxes : laxes cn tc = pw :: rest.
  Proof.
    destruct ac_cn as (_ & _ & _ & E). unfold laxes. rewrite E. cbn [axes].
    pose proof (permute_seq 0 ws') as Hp. pose proof ac_ws'_length as Hl. unfold wire in *.
    rewrite Hl in Hp. unfold permute in *.
    cbn [map]. f_equal.
    - unfold child_axes. apply ib_nth_set_nth. rewrite seq_length. exact Hcleg.
    - rewrite map_app, <- firstn_map, <- skipn_map, Hp.
      unfold child_axes. rewrite ib_firstn_set_nth, ib_skipn_set_nth. reflexivity.
  Qed.

  Lemma ac_child_own : own_of cn tc = pw :: rest.
  Proof.
    destruct ac_cn_nvirt as [H1 H2]. unfold own_of. rewrite H1, H2, firstn_skipn. apply ac_child_laxes.
  Qed.

  Lemma ac_child_open : open_of cn tc = rest.
  Proof.
    destruct ac_cn_nvirt as [H1 H2]. unfold open_of. rewrite H2, ac_child_laxes. reflexivity.
  Qed.

  Lemma ac_rest_fresh w : In w rest -> next_wire s <= w < next_wire s + length shp.
  Proof. intros H. apply ib_remove_nth_incl in H. apply in_seq in H. exact H. Qed.

  Lemma ac_rest_nodup : NoDup (pw :: rest).
  Proof.
    constructor.
    - intros H. apply ac_rest_fresh in H. pose proof ac_pw_bound. lia.
    - apply ib_NoDup_remove_nth. apply seq_NoDup.
  Qed.

  (* -- every old node has a counterpart with the same parent, at least the same children, the same
        wires on its neighbour legs -- *)
  Lemma ac_old_to_new q qn : aget q (nodes s) = Some qn ->
    exists qn', aget q (nodes s') = Some qn' /\ parent qn' = parent qn /\ incl (children qn) (children qn') /\
      (forall x i, neighbour_index qn x = Some i ->
                   neighbour_index qn' x = Some i /\ nth i (lax s' q qn') 0 = nth i (lax s q qn) 0) /\
      (parent qn <> None -> nth 0 (lax s' q qn') 0 = nth 0 (lax s q qn) 0).
  Proof.
    intros E. pose proof (ac_old_ne_c _ _ E) as Hc. rewrite ac_nodes. unfold lax. rewrite ac_tens.
    destruct (Nat.eqb_spec q c) as [Hqc|_]; [contradiction|].
    destruct (Nat.eqb_spec q p) as [->|Hp].
    - rewrite Ep in E. injection E as <-. exists pn'. rewrite ac_tens_p.
      split; [reflexivity|]. split; [apply ac_pn'_parent|].
      split; [rewrite ac_pn'_children; apply incl_appl, incl_refl|]. split.
      + intros x i Hi. split.
        * apply (ib_neighbour_index_snoc_old pn pn' c); [apply ac_pn'_parent|apply ac_pn'_children|exact Hi].
        * apply ac_parent_nth_lt. apply (ib_neighbour_index_lt _ _ _ Hi).
      + intros Hpar. apply ac_parent_nth_lt. unfold nvirt, nparents. destruct (parent pn); [lia|congruence].
    - exists qn. split; [exact E|]. split; [reflexivity|]. split; [apply incl_refl|]. split; auto.
  Qed.

  (* -- the ten fields -- *)
  Lemma ac_f_nd : NoDup (akeys (nodes s')).
  Proof. unfold childed. cbn [nodes]. apply NoDup_akeys_aset, NoDup_akeys_aset. apply (wf_nd s Hwf). Qed.

  Lemma ac_f_tnd : NoDup (akeys (tensors s')).
  Proof. unfold childed. cbn [tensors]. apply NoDup_akeys_aset. apply (wf_tnd s Hwf). Qed.

  Lemma ac_f_tn k : amem k (tensors s') = true -> amem k (nodes s') = true.
  Proof.
    intros H. apply amem_aget. rewrite ac_nodes. destruct (Nat.eqb k p); [eauto|].
    destruct (Nat.eqb k c) eqn:Ekc; [eauto|]. rewrite ac_amem_t, Ekc in H. cbn in H.
    apply amem_aget. apply (wf_tn s Hwf). exact H.
  Qed.

  Lemma ac_f_root : exists r rn, root s' = Some r /\ aget r (nodes s') = Some rn /\ parent rn = None /\
    forall k n, aget k (nodes s') = Some n -> parent n = None -> k = r.
  Proof.
    destruct (wf_root s Hwf) as (r & rn & Hr & Er & Hpr & Huniq).
    destruct (ac_old_to_new r rn Er) as (rn' & E1 & E2 & _). exists r, rn'.
    split; [exact Hr|]. split; [exact E1|]. split; [congruence|].
    intros k n E Hpar. destruct (ac_node_cases k n E) as [[-> ->]|[[-> ->]|(Hp & Hc & E0)]].
    - apply (Huniq p pn Ep). rewrite <- ac_pn'_parent. exact Hpar.
    - destruct ac_cn as (Hcp & _). congruence.
    - apply (Huniq k n E0 Hpar).
  Qed.

  Lemma ac_node_p : node_inv s' p pn'.
  Proof.
    pose proof (wf_node s Hwf p pn Ep) as Hn.
    destruct (open_leg_to_child_wf pn c pleg pn' (wf_node_wf s p pn Hwf Ep) Hpn') as ((Hperm & Hv) & _ & _ & Hs & _).
    constructor.
    - rewrite ac_amem_t. apply orb_true_iff. right. apply amem_aget. eauto.
    - exact Hperm.
    - rewrite ac_tens_p', Hs. pose proof (ac_shape_old p pn Ep) as Hsh. rewrite ac_tens_p in Hsh. exact Hsh.
    - exact Hv.
    - rewrite ac_pn'_children. apply NoDup_app_iff. split; [apply (ni_chnd _ _ _ Hn)|]. split.
      + constructor; [intros []|constructor].
      + intros x Hx [<-|[]]. destruct (ni_ch _ _ _ Hn c Hx) as (xn & Ex & _).
        rewrite ac_c_absent in Ex. discriminate.
    - intros x Hx. rewrite ac_pn'_children in Hx. apply in_app_or in Hx. destruct Hx as [Hx|[<-|[]]].
      + destruct (ni_ch _ _ _ Hn x Hx) as (xn & Ex & Hxp).
        destruct (ac_old_to_new x xn Ex) as (xn' & E1 & E2 & _). exists xn'. split; [exact E1|congruence].
      + exists cn. split; [|apply ac_cn]. rewrite ac_nodes.
        destruct (Nat.eqb_spec c p) as [E|_]; [destruct (ac_c_ne_p E)|]. rewrite Nat.eqb_refl. reflexivity.
    - intros q Hq. rewrite ac_pn'_parent in Hq.
      destruct (ni_par _ _ _ Hn q Hq) as (qn & i & Eq & Hin & Hi & Hw).
      destruct (ac_old_to_new q qn Eq) as (qn' & E1 & E2 & E3 & E4 & _). destruct (E4 p i Hi) as [E5 E6].
      exists qn', i. split; [exact E1|]. split; [apply E3; exact Hin|]. split; [exact E5|].
      rewrite E6, <- Hw. unfold lax. rewrite ac_tens_p', ac_tens_p. apply ac_parent_nth_lt.
      unfold nvirt, nparents. rewrite Hq. lia.
  Qed.

  Lemma ac_node_c : node_inv s' c cn.
  Proof.
    destruct ac_cn as (Hcp & Hcc & Hcs & Hcperm).
    destruct (open_leg_to_parent_wf (new_node shp) p cleg cn (new_node_wf shp) Hcn) as ((Hperm & Hv) & _).
    pose proof (wf_node s Hwf p pn Ep) as Hn.
    constructor.
    - rewrite ac_amem_t, Nat.eqb_refl. reflexivity.
    - exact Hperm.
    - rewrite ac_tens, Nat.eqb_refl, Hcs. cbn [axes]. unfold child_axes.
      rewrite ib_map_set_nth, ac_wdim_new, (ac_wdim_old _ ac_pw_bound), <- Hdimeq. symmetry. apply ib_set_nth_same.
    - exact Hv.
    - rewrite Hcc. constructor.
    - rewrite Hcc. intros x [].
    - intros q Hq. rewrite Hcp in Hq. injection Hq as <-. exists pn', (nvirt pn).
      split; [rewrite ac_nodes, Nat.eqb_refl; reflexivity|].
      split; [rewrite ac_pn'_children; apply in_or_app; right; left; reflexivity|]. split.
      + apply (ib_neighbour_index_snoc_new pn pn' c); [apply ac_pn'_parent|apply ac_pn'_children| |].
        * intros Hq. destruct (ni_par _ _ _ Hn c Hq) as (qn & i & Eq & _). rewrite ac_c_absent in Eq. discriminate.
        * intros Hin. destruct (ni_ch _ _ _ Hn c Hin) as (xn & Ex & _). rewrite ac_c_absent in Ex. discriminate.
      + unfold lax. rewrite ac_tens_p', ac_tens, Nat.eqb_refl, ac_child_laxes, ac_parent_nth_v. reflexivity.
  Qed.

  Lemma ac_node_other k nk : k <> p -> k <> c -> aget k (nodes s) = Some nk -> node_inv s' k nk.
  Proof.
    intros Hp Hc E. pose proof (wf_node s Hwf k nk E) as Hn.
    assert (Ht : tens s' k = tens s k).
    { rewrite ac_tens. destruct (Nat.eqb_spec k c); [contradiction|reflexivity]. }
    constructor.
    - rewrite ac_amem_t. apply orb_true_iff. right. apply (ni_t _ _ _ Hn).
    - apply (ni_perm _ _ _ Hn).
    - rewrite Ht. apply ac_shape_old. exact E.
    - apply (ni_virt _ _ _ Hn).
    - apply (ni_chnd _ _ _ Hn).
    - intros x Hx. destruct (ni_ch _ _ _ Hn x Hx) as (xn & Ex & Hxp).
      destruct (ac_old_to_new x xn Ex) as (xn' & E1 & E2 & _). exists xn'. split; [exact E1|congruence].
    - intros q Hq. destruct (ni_par _ _ _ Hn q Hq) as (qn & i & Eq & Hin & Hi & Hw).
      destruct (ac_old_to_new q qn Eq) as (qn' & E1 & E2 & E3 & E4 & _). destruct (E4 k i Hi) as [E5 E6].
      exists qn', i. split; [exact E1|]. split; [apply E3; exact Hin|]. split; [exact E5|].
      rewrite E6, <- Hw. unfold lax. rewrite Ht. reflexivity.
  Qed.

  Lemma ac_f_node k n : aget k (nodes s') = Some n -> node_inv s' k n.
  Proof.
    intros E. destruct (ac_node_cases k n E) as [[-> ->]|[[-> ->]|(Hp & Hc & E0)]].
    - apply ac_node_p.
    - apply ac_node_c.
    - apply ac_node_other; assumption.
  Qed.

  (* owned wires: the child owns pw and its fresh wires; every other node owns a duplicate-free
     subset of what it owned before, without pw *)
  Lemma ac_own k nk' : aget k (nodes s') = Some nk' ->
    (k = c /\ own_of nk' (tens s' k) = pw :: rest) \/
    (k <> c /\ NoDup (own_of nk' (tens s' k)) /\ ~ In pw (own_of nk' (tens s' k)) /\
     exists nk, aget k (nodes s) = Some nk /\ incl (own_of nk' (tens s' k)) (own_of nk (tens s k))).
  Proof.
    intros E. destruct (ac_node_cases k nk' E) as [[-> ->]|[[-> ->]|(Hp & Hc & E0)]].
    - right. split; [intros H; symmetry in H; exact (ac_c_ne_p H)|]. rewrite ac_tens_p'.
      destruct ac_parent_own as (X & Y & Z & O1 & O2 & _).
      pose proof (wf_own1 s Hwf p pn Ep) as Hnd. rewrite ac_tens_p, O1, app_assoc in Hnd.
      split; [rewrite O2, app_assoc; apply (NoDup_remove_1 _ _ _ Hnd)|].
      split; [rewrite O2, app_assoc; apply (NoDup_remove_2 _ _ _ Hnd)|].
      exists pn. split; [exact Ep|]. rewrite ac_tens_p, O1, O2. intros w Hw.
      rewrite !in_app_iff in *. cbn. tauto.
    - left. split; [reflexivity|]. rewrite ac_tens, Nat.eqb_refl. apply ac_child_own.
    - right. split; [exact Hc|].
      assert (Ht : tens s' k = tens s k).
      { rewrite ac_tens. destruct (Nat.eqb_spec k c); [contradiction|reflexivity]. }
      rewrite Ht. split; [apply (wf_own1 s Hwf k nk' E0)|]. split.
      + intros Hin. apply Hp. apply (wf_own2 s Hwf k nk' p pn pw E0 Ep Hin). rewrite ac_tens_p. apply ac_pw_own.
      + exists nk'. split; [exact E0|apply incl_refl].
  Qed.

  Lemma ac_f_own1 k n : aget k (nodes s') = Some n -> NoDup (own_of n (tens s' k)).
  Proof.
    intros E. destruct (ac_own k n E) as [[_ ->]|(_ & H & _)]; [apply ac_rest_nodup|exact H].
  Qed.

  Lemma ac_own_clash k n w : k <> c -> aget k (nodes s') = Some n ->
    In w (own_of n (tens s' k)) -> In w (pw :: rest) -> False.
  Proof.
    intros Hc E Hw1 Hw2. destruct (ac_own k n E) as [[Hk _]|(_ & _ & Hpw & nk & E0 & Hincl)]; [contradiction|].
    destruct Hw2 as [<-|Hw2]; [contradiction|].
    apply ac_rest_fresh in Hw2. apply Hincl in Hw1. apply (wf_own_bound s k nk w Hwf E0) in Hw1. lia.
  Qed.

  Lemma ac_f_own2 k1 n1 k2 n2 w : aget k1 (nodes s') = Some n1 -> aget k2 (nodes s') = Some n2 ->
    In w (own_of n1 (tens s' k1)) -> In w (own_of n2 (tens s' k2)) -> k1 = k2.
  Proof.
    intros E1 E2 H1 H2.
    destruct (ac_own k1 n1 E1) as [[-> O1]|(Hc1 & _ & _ & m1 & G1 & I1)];
    destruct (ac_own k2 n2 E2) as [[-> O2]|(Hc2 & _ & _ & m2 & G2 & I2)].
    - reflexivity.
    - exfalso. rewrite O1 in H1. apply (ac_own_clash k2 n2 w Hc2 E2 H2 H1).
    - exfalso. rewrite O2 in H2. apply (ac_own_clash k1 n1 w Hc1 E1 H1 H2).
    - apply (wf_own2 s Hwf k1 m1 k2 m2 w G1 G2); [apply I1; exact H1|apply I2; exact H2].
  Qed.

  Lemma ac_f_wires k t w : aget k (tensors s') = Some t -> In w (axes t) -> w < next_wire s'.
  Proof.
    unfold childed. cbn [tensors next_wire]. rewrite aget_aset. destruct (Nat.eqb k c).
    - intros [= <-]. cbn [axes]. unfold child_axes. intros Hw. apply ib_in_set_nth in Hw.
      destruct Hw as [->|Hw]; [pose proof ac_pw_bound; lia|apply in_seq in Hw; lia].
    - intros E Hw. pose proof (wf_wires s Hwf k t w E Hw). lia.
  Qed.

  Lemma ac_f_dims w : In w (akeys (dims s')) -> w < next_wire s'.
  Proof.
    unfold childed. cbn [dims next_wire]. rewrite akeys_app, in_app_iff. intros [H|H].
    - apply (wf_dims s Hwf) in H. lia.
    - apply ib_akeys_combine in H. apply in_seq in H. lia.
  Qed.

  Lemma ac_f_acyc : exists depth : id -> nat,
    forall k kn q, aget k (nodes s') = Some kn -> parent kn = Some q -> depth q < depth k.
  Proof.
    destruct (wf_acyc s Hwf) as [d Hd]. exists (fun k => if Nat.eqb k c then S (d p) else d k).
    assert (Hpc : Nat.eqb p c = false) by (apply Nat.eqb_neq; intros E; symmetry in E; exact (ac_c_ne_p E)).
    intros k kn q E Hq. destruct (ac_node_cases k kn E) as [[-> ->]|[[-> ->]|(Hp & Hc & E0)]].
    - rewrite ac_pn'_parent in Hq. pose proof (ac_parent_old p pn q Ep Hq) as Hqc.
      apply Nat.eqb_neq in Hqc. rewrite Hqc, Hpc. apply (Hd p pn q Ep Hq).
    - destruct ac_cn as (Hcp & _). rewrite Hcp in Hq. injection Hq as <-. rewrite Nat.eqb_refl, Hpc. lia.
    - pose proof (ac_parent_old k kn q E0 Hq) as Hqc. apply Nat.eqb_neq in Hqc. apply Nat.eqb_neq in Hc.
      rewrite Hqc, Hc. apply (Hd k kn q E0 Hq).
  Qed.

  Theorem ac_wf : wf s'.
  Proof.
    constructor.
    - exact ac_f_nd.
    - exact ac_f_tnd.
    - exact ac_f_tn.
    - exact ac_f_root.
    - exact ac_f_node.
    - exact ac_f_own1.
    - exact ac_f_own2.
    - exact ac_f_wires.
    - exact ac_f_dims.
    - exact ac_f_acyc.
  Qed.

  (* -- totals -- *)
  Lemma ac_total_atoms : total_atoms s' = total_atoms s ++ [next_atom s].
  Proof.
    unfold total_atoms, childed. cbn [tensors]. rewrite (ib_aset_absent _ _ _ ac_c_absent_t), flat_map_app.
    reflexivity.
  Qed.

  Lemma ac_open_wires : Permutation (pw :: open_wires s') (open_wires s ++ rest).
  Proof.
    unfold open_wires at 1. unfold childed at 2. cbn [nodes].
    rewrite (ib_aset_absent _ _ _ ac_c_absent), (ib_aset_app_l _ _ _ _ _ Ep), flat_map_app.
    cbn [flat_map]. rewrite app_nil_r. unfold node_open at 2. cbn [fst snd].
    rewrite ac_tens, Nat.eqb_refl, ac_child_open.
    change (pw :: ?a ++ ?b) with (([pw] ++ a) ++ b). apply Permutation_app_tail.
    apply (ib_flat_map_aset_perm_extra (node_open s) _ [pw] p pn' pn); [apply (wf_nd s Hwf)|exact Ep| |].
    - unfold node_open. cbn [fst snd]. rewrite ac_tens_p', ac_tens_p.
      destruct ac_parent_own as (X & Y & Z & _ & _ & O3 & O4). rewrite O3, O4. cbn [app]. apply Permutation_middle.
    - intros k2 v2 Hne Hin. unfold node_open. cbn [fst snd]. rewrite ac_tens.
      destruct (Nat.eqb_spec k2 c) as [->|_]; [|reflexivity].
      exfalso. apply (In_aget _ _ _ (wf_nd s Hwf)) in Hin. rewrite ac_c_absent in Hin. discriminate.
  Qed.
End AddChild.

(* ---- add_child: the public statements --------------------------------------------------------- *)
Theorem add_child_preserves_wf s c shp cleg p pleg s' :
  wf s -> add_child s c shp cleg p pleg = Some s' -> wf s'.
Proof.
  intros H Ha.
  destruct (add_child_inv _ _ _ _ _ _ _ Ha) as (pn & pt & cn & pn' & Ep & Et & Ec & Hc & _ & Hd & Hcn & Hpn & ->).
  eapply ac_wf; eassumption.
Qed.

Theorem add_child_preserves_wfb s c shp cleg p pleg s' :
  wfb s = true -> add_child s c shp cleg p pleg = Some s' -> wfb s' = true.
Proof. intros H Ha. apply wfb_iff. eapply add_child_preserves_wf; [apply wfb_iff; exact H|exact Ha]. Qed.

Theorem add_root_wfb s n shp s' : blank s -> add_root s n shp = Some s' -> wfb s' = true.
Proof. intros H Ha. apply wfb_iff. eapply add_root_wf; eauto. Qed.

(* the wire on the parent's logical leg pleg (the one handed to the child) *)
Definition add_child_wire (s : store) (p : id) (pleg : nat) : wire :=
  match aget p (nodes s) with Some pn => nth pleg (lax s p pn) 0 | None => 0 end.

(* the child's fresh wires: one per axis except the axis cleg *)
Definition add_child_fresh (s : store) (shp : list nat) (cleg : nat) : list wire :=
  firstn cleg (seq (next_wire s) (length shp)) ++ skipn (S cleg) (seq (next_wire s) (length shp)).

Lemma parent_wire_lax pn pt pleg : pleg < nlegs pn -> parent_wire pn pt pleg = nth pleg (laxes pn pt) 0.
Proof.
  intros H. unfold parent_wire, laxes, permute.
  transitivity (nth pleg (map (fun i => nth i (axes pt) 0) (perm pn)) (nth 0 (axes pt) 0)).
  - symmetry. apply (map_nth (fun i => nth i (axes pt) 0)).
  - apply nth_indep. rewrite map_length. exact H.
Qed.

Lemma add_child_wire_eq s c shp cleg p pleg s' pn pt :
  add_child s c shp cleg p pleg = Some s' -> aget p (nodes s) = Some pn -> aget p (tensors s) = Some pt ->
  add_child_wire s p pleg = parent_wire pn pt pleg.
Proof.
  intros Ha Ep Et.
  destruct (add_child_inv _ _ _ _ _ _ _ Ha) as (pn0 & pt0 & cn & pn' & Ep0 & Et0 & _ & _ & Hl & _).
  rewrite Ep in Ep0. injection Ep0 as <-. unfold add_child_wire, lax. rewrite Ep, (tens_aget _ _ _ Et).
  symmetry. apply parent_wire_lax. exact Hl.
Qed.

(* atoms: exactly one new atom, appended *)
Theorem add_child_total_atoms s c shp cleg p pleg s' :
  wf s -> add_child s c shp cleg p pleg = Some s' -> total_atoms s' = total_atoms s ++ [next_atom s].
Proof.
  intros H Ha.
  destruct (add_child_inv _ _ _ _ _ _ _ Ha) as (pn & pt & cn & pn' & Ep & Et & Ec & Hc & _ & Hd & Hcn & Hpn & ->).
  eapply ac_total_atoms; eassumption.
Qed.

Corollary add_child_total_atoms_perm s c shp cleg p pleg s' :
  wf s -> add_child s c shp cleg p pleg = Some s' -> Permutation (total_atoms s') (next_atom s :: total_atoms s).
Proof.
  intros H Ha. rewrite (add_child_total_atoms _ _ _ _ _ _ _ H Ha). symmetry. apply Permutation_cons_append.
Qed.

(* open wires: the parent's wire is consumed, the child's fresh wires appear *)
Theorem add_child_open_wires s c shp cleg p pleg s' :
  wf s -> add_child s c shp cleg p pleg = Some s' ->
  Permutation (add_child_wire s p pleg :: open_wires s') (open_wires s ++ add_child_fresh s shp cleg).
Proof.
  intros H Ha. pose proof Ha as Ha'.
  destruct (add_child_inv _ _ _ _ _ _ _ Ha) as (pn & pt & cn & pn' & Ep & Et & Ec & Hc & _ & Hd & Hcn & Hpn & ->).
  rewrite (add_child_wire_eq _ _ _ _ _ _ _ pn pt Ha' Ep Et). unfold add_child_fresh.
  eapply ac_open_wires; eassumption.
Qed.

(* the consumed wire was an open wire of the old store, the fresh ones are new *)
Theorem add_child_wire_open s c shp cleg p pleg s' :
  wf s -> add_child s c shp cleg p pleg = Some s' ->
  In (add_child_wire s p pleg) (open_wires s) /\ add_child_wire s p pleg < next_wire s /\
  (forall w, In w (add_child_fresh s shp cleg) -> next_wire s <= w < next_wire s') /\
  next_wire s' = next_wire s + length shp /\ NoDup (add_child_fresh s shp cleg).
Proof.
  intros H Ha. pose proof Ha as Ha'.
  destruct (add_child_inv _ _ _ _ _ _ _ Ha) as (pn & pt & cn & pn' & Ep & Et & Ec & Hc & _ & Hd & Hcn & Hpn & ->).
  rewrite (add_child_wire_eq _ _ _ _ _ _ _ pn pt Ha' Ep Et).
  split; [|split; [|split; [|split]]].
  - unfold open_wires. apply in_flat_map. exists (p, pn). split; [apply aget_In; exact Ep|].
    unfold node_open. cbn [fst snd]. rewrite (tens_aget _ _ _ Et).
    destruct (ac_parent_own s c shp cleg pleg pn pt pn' Hc Hd Hpn) as (X & Y & Z & _ & _ & O3 & _). rewrite O3.
    apply in_or_app. right. left. reflexivity.
  - eapply ac_pw_bound; eassumption.
  - intros w Hw. unfold add_child_fresh in Hw. apply ib_remove_nth_incl in Hw. apply in_seq in Hw.
    unfold childed. cbn [next_wire]. exact Hw.
  - reflexivity.
  - unfold add_child_fresh. apply ib_NoDup_remove_nth. apply seq_NoDup.
Qed.

(* ---- runs of building operations ------------------------------------------------------------- *)
Definition is_build_op (o : op) : bool :=
  match o with AddRoot _ _ => true | AddChild _ _ _ _ _ => true | _ => false end.
Definition is_add_root (o : op) : bool := match o with AddRoot _ _ => true | _ => false end.

Lemma wf_root_some s : wf s -> root s <> None.
Proof. intros H. destruct (wf_root s H) as (r & rn & Hr & _). congruence. Qed.

Lemma blank_not_wf s : blank s -> ~ wf s.
Proof. intros (_ & _ & Hr & _) H. apply (wf_root_some s H). exact Hr. Qed.

Lemma blank_wfb s : blank s -> wfb s = false.
Proof.
  intros B. destruct (wfb s) eqn:E; [|reflexivity]. apply wfb_iff in E. destruct (blank_not_wf s B E).
Qed.

Lemma add_child_blank_rejected s c shp cleg p pleg : blank s -> add_child s c shp cleg p pleg = None.
Proof. intros (Bn & _). unfold add_child. rewrite Bn. reflexivity. Qed.

(* on a well-formed store AddRoot is rejected (there is a root), AddChild preserves the invariant *)
Theorem step_build_wf s o s' : wf s -> is_build_op o = true -> step s o = Some s' -> wf s'.
Proof.
  intros H Hb Hs. destruct o; cbn in Hb; try discriminate; cbn [step] in Hs.
  - rewrite add_root_rejected in Hs; [discriminate|apply wf_root_some; exact H].
  - eapply add_child_preserves_wf; eauto.
Qed.

(* on a blank store exactly the AddRoot operations are accepted, and they establish the invariant *)
Theorem step_build_blank s o : blank s -> is_build_op o = true ->
  match step s o with
  | Some s' => is_add_root o = true /\ wf s'
  | None => is_add_root o = false
  end.
Proof.
  intros B Hb. destruct o; cbn in Hb; try discriminate; cbn [step is_add_root].
  - destruct (add_root_accepted s n shp) as [s' Hs]; [apply B|]. rewrite Hs. split; [reflexivity|].
    eapply add_root_wf; eauto.
  - rewrite add_child_blank_rejected by exact B. reflexivity.
Qed.

Theorem run_build_wf : forall ops s, wf s -> forallb is_build_op ops = true -> wf (fst (run s ops)).
Proof.
  induction ops as [|o t IH]; intros s H Hb; cbn [run forallb] in *; [exact H|].
  apply andb_true_iff in Hb. destruct Hb as [Ho Ht].
  destruct (step s o) as [s'|] eqn:Es.
  - specialize (IH s' (step_build_wf s o s' H Ho Es) Ht). destruct (run s' t) as [sf oks]. exact IH.
  - specialize (IH s H Ht). destruct (run s t) as [sf oks]. exact IH.
Qed.

(* from a blank store: nothing happens until the first AddRoot; from then on the invariant holds *)
Theorem run_build_blank : forall ops s, blank s -> forallb is_build_op ops = true ->
  (existsb is_add_root ops = true -> wf (fst (run s ops))) /\
  (existsb is_add_root ops = false -> fst (run s ops) = s).
Proof.
  induction ops as [|o t IH]; intros s B Hb; cbn [run forallb existsb] in *.
  - split; [discriminate|reflexivity].
  - apply andb_true_iff in Hb. destruct Hb as [Ho Ht].
    pose proof (step_build_blank s o B Ho) as Hs. destruct (step s o) as [s'|] eqn:Es.
    + destruct Hs as [Hr Hw]. rewrite Hr. cbn [orb]. split; [|discriminate]. intros _.
      pose proof (run_build_wf t s' Hw Ht) as Hf. destruct (run s' t) as [sf oks]. exact Hf.
    + rewrite Hs. cbn [orb]. destruct (IH s B Ht) as [I1 I2]. destruct (run s t) as [sf oks]. split; assumption.
Qed.

Corollary run_build_empty ops : forallb is_build_op ops = true -> existsb is_add_root ops = true ->
  wf (fst (run empty_store ops)).
Proof. intros Hb He. apply (run_build_blank ops empty_store blank_empty Hb). exact He. Qed.

(* the checker's verdict after every operation of a building run *)
Fixpoint after_root (seen : bool) (ops : list op) : list bool :=
  match ops with
  | [] => []
  | o :: t => let b := seen || is_add_root o in b :: after_root b t
  end.

Lemma after_root_true ops : after_root true ops = map (fun _ => true) ops.
Proof. induction ops as [|o t IH]; cbn; [reflexivity|]. f_equal. exact IH. Qed.

Theorem run_wfb_build_wf : forall ops s, wf s -> forallb is_build_op ops = true ->
  run_wfb s ops = map (fun _ => true) ops.
Proof.
  induction ops as [|o t IH]; intros s H Hb; cbn [run_wfb forallb map] in *; [reflexivity|].
  apply andb_true_iff in Hb. destruct Hb as [Ho Ht].
  destruct (step s o) as [s'|] eqn:Es.
  - pose proof (step_build_wf s o s' H Ho Es) as H'. rewrite (IH s' H' Ht). f_equal. apply wfb_iff. exact H'.
  - rewrite (IH s H Ht). f_equal. apply wfb_iff. exact H.
Qed.

Theorem run_wfb_build_blank : forall ops s, blank s -> forallb is_build_op ops = true ->
  run_wfb s ops = after_root false ops.
Proof.
  induction ops as [|o t IH]; intros s B Hb; cbn [run_wfb forallb after_root] in *; [reflexivity|].
  apply andb_true_iff in Hb. destruct Hb as [Ho Ht]. cbn [orb].
  pose proof (step_build_blank s o B Ho) as Hs. destruct (step s o) as [s'|] eqn:Es.
  - destruct Hs as [Hr Hw]. rewrite Hr. rewrite after_root_true, (run_wfb_build_wf t s' Hw Ht).
    f_equal. apply wfb_iff. exact Hw.
  - rewrite Hs. rewrite (IH s B Ht). f_equal. apply blank_wfb. exact B.
Qed.

Corollary run_wfb_build_empty ops : forallb is_build_op ops = true ->
  run_wfb empty_store ops = after_root false ops.
Proof. apply run_wfb_build_blank. apply blank_empty. Qed.

(* non-vacuity: a building run from the empty store with rejected and accepted operations; the
   accepted/rejected flags and the checker's verdicts are as the theorems above predict *)
Example build_run_example :
  let ops := [AddChild 1 [2; 2] 1 0 0; AddRoot 0 [2; 3; 2]; AddRoot 5 [1]; AddChild 1 [2; 2] 1 0 0;
              AddChild 2 [3; 2] 0 0 1; AddChild 3 [7; 2] 0 0 1] in
  snd (run empty_store ops) = [false; true; false; true; true; false] /\
  run_wfb empty_store ops = after_root false ops /\
  add_child_wire (fst (run empty_store [AddRoot 0 [2; 3; 2]])) 0 0 = 0 /\
  add_child_fresh (fst (run empty_store [AddRoot 0 [2; 3; 2]])) [2; 2] 1 = [3].
Proof. vm_compute. repeat split. Qed.
