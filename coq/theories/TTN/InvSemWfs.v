(* Proofs about TTN/InvSem.v, part 2: the extended invariant wfs / wfsb is preserved by every
   operation of the model (under the preconditions of the wfb theorems) and by run. *)
From Coq Require Import List Arith Bool Lia Permutation.
From PTN Require Import TTN.Store TTN.StoreProofs TTN.Inv TTN.InvProofs TTN.InvNode TTN.InvContract TTN.InvEdit
  TTN.InvBuild TTN.InvSplit TTN.InvRun TTN.InvWires Wire.Sem TTN.InvSem TTN.InvSemProofs.
Import ListNotations.

(* ---- an equivalent reading of the semantic clauses in terms of the multiset of wire ends ------------------ *)
(* "summed wires are distinct and are no tensor's axis" <=> "every wire has at most two ends";
   "summed wires were allocated" <=> "all wire ends were allocated" (given wf) *)
Record sem_ok (s : store) : Prop := {
  so_closed : forall k t, aget k (tensors s) = Some t -> closed_in s t;
  so_ends2 : forall z, count_occ Nat.eq_dec (total_ends s) z <= 2;
  so_ends_lt : forall z, In z (total_ends s) -> z < next_wire s;
  so_atoms_nd : NoDup (total_atoms s);
  so_atoms_lt : forall a, In a (total_atoms s) -> a < next_atom s;
  so_atoms_tab : forall a, In a (total_atoms s) -> amem a (atab s) = true;
  so_atab_lt : forall a, In a (akeys (atab s)) -> a < next_atom s
}.

Lemma total_axes_In s w : In w (total_axes s) <-> exists k t, In (k, t) (tensors s) /\ In w (axes t).
Proof.
  unfold total_axes. rewrite in_flat_map. split.
  - intros ([k t] & H1 & H2). exists k, t. auto.
  - intros (k & t & H1 & H2). exists (k, t). auto.
Qed.

Lemma wf_total_axes_lt s w : wf s -> In w (total_axes s) -> w < next_wire s.
Proof.
  intros W Hw. apply total_axes_In in Hw. destruct Hw as (k & t & H1 & H2).
  apply (wf_wires s W k t w); [apply In_aget; [apply (wf_tnd s W)|exact H1]|exact H2].
Qed.

Lemma wf_total_axes_count s z : wf s -> count_occ Nat.eq_dec (total_axes s) z <= 2.
Proof.
  intros W. rewrite (proj1 (Permutation_count_occ Nat.eq_dec _ _) (total_axes_all_lax s W) z).
  apply (wf_wire_multiplicity s z W).
Qed.

Lemma total_ends_count s z :
  count_occ Nat.eq_dec (total_ends s) z
  = count_occ Nat.eq_dec (total_axes s) z + 2 * count_occ Nat.eq_dec (total_bnd s) z.
Proof. rewrite (proj1 (Permutation_count_occ Nat.eq_dec _ _) (total_ends_split s) z), !count_occ_app. nlia. Qed.

Lemma total_ends_In s z : In z (total_ends s) <-> In z (total_axes s) \/ In z (total_bnd s).
Proof.
  rewrite !(count_occ_In Nat.eq_dec), total_ends_count. nlia.
Qed.

Theorem wfs_iff_sem_ok s : wfs s <-> wf s /\ sem_ok s.
Proof.
  split.
  - intros [W H1 H2 H3 H4 H5 H6 H7 H8]. split; [exact W|]. constructor; auto.
    + intros z. rewrite total_ends_count.
      pose proof (wf_total_axes_count s z W) as Ha.
      pose proof (proj1 (NoDup_count_occ Nat.eq_dec _) H2 z) as Hb.
      destruct (count_occ Nat.eq_dec (total_bnd s) z) as [|c] eqn:E; [lia|].
      assert (Hin : In z (total_bnd s)) by (apply (count_occ_In Nat.eq_dec); lia).
      apply H3 in Hin. apply (count_occ_not_In Nat.eq_dec) in Hin. lia.
    + intros z Hz. apply total_ends_In in Hz. destruct Hz as [Hz|Hz]; [apply (wf_total_axes_lt s z W Hz)|apply H4; exact Hz].
  - intros [W [H1 H2 H3 H4 H5 H6 H7]]. constructor; auto.
    + apply (NoDup_count_occ Nat.eq_dec). intros z. specialize (H2 z). rewrite total_ends_count in H2. lia.
    + intros w Hw. apply (count_occ_not_In Nat.eq_dec). apply (count_occ_In Nat.eq_dec) in Hw.
      specialize (H2 w). rewrite total_ends_count in H2. lia.
    + intros w Hw. apply H3. apply total_ends_In. right. exact Hw.
Qed.

(* ---- the generic preservation lemma for operations that only permute the diagram -------------------------------- *)
Lemma closed_in_world s s' t : atab s' = atab s -> closed_in s t -> closed_in s' t.
Proof. intros E H. unfold closed_in, atom_wires in *. rewrite E. exact H. Qed.

Theorem wfs_perm_op s s' :
  wfs s -> wf s' -> same_world s s' ->
  Permutation (total_atoms s') (total_atoms s) -> Permutation (total_ends s') (total_ends s) ->
  (forall k t, aget k (tensors s') = Some t -> closed_in s t) ->
  wfs s'.
Proof.
  intros WS W' (Ea & Ed & Ew & En & _) PA PE HC. apply wfs_iff_sem_ok in WS. destruct WS as [W [H1 H2 H3 H4 H5 H6 H7]].
  apply wfs_iff_sem_ok. split; [exact W'|]. constructor.
  - intros k t E. apply (closed_in_world s s' t Ea). apply (HC k t E).
  - intros z. rewrite (proj1 (Permutation_count_occ Nat.eq_dec _ _) PE z). apply H2.
  - intros z Hz. rewrite Ew. apply H3. apply (Permutation_in _ PE). exact Hz.
  - apply (Permutation_NoDup (Permutation_sym PA)). exact H4.
  - intros a Ha. rewrite En. apply H5. apply (Permutation_in _ PA). exact Ha.
  - intros a Ha. rewrite Ea. apply H6. apply (Permutation_in _ PA). exact Ha.
  - intros a Ha. rewrite En. rewrite Ea in Ha. apply H7. exact Ha.
Qed.

(* closedness under the two diagram operations *)
Lemma closed_in_transpose s p t :
  Permutation p (seq 0 (length (axes t))) -> closed_in s t -> closed_in s (s_transpose p t).
Proof.
  intros P C a Ha x Hx. destruct (C a Ha x Hx) as [I|I]; [left|right; exact I].
  cbn. unfold permute. destruct (In_nth _ _ (0 : wire) I) as (i & Hi & <-).
  apply (in_map (fun i => nth i (axes t) 0)).
  apply (Permutation_in _ (Permutation_sym P)). apply in_seq. lia.
Qed.

Lemma closed_in_tensordot s a b ia ib c :
  s_tensordot a b ia ib = Some c -> closed_in s a -> closed_in s b -> closed_in s c.
Proof.
  intros H CA CB. destruct (SemProofs.s_tensordot_shape _ _ _ _ _ H) as (w & ra & rb & Pa & Pb & ->).
  pose proof (pop_perm _ _ _ _ Pa) as PPa. pose proof (pop_perm _ _ _ _ Pb) as PPb.
  intros x Hx y Hy. cbn in *. apply in_app_or in Hx. destruct Hx as [Hx|Hx].
  - destruct (CA x Hx y Hy) as [I|I].
    + apply (Permutation_in _ PPa) in I. destruct I as [<-|I]; [right; left; reflexivity|].
      left. apply in_or_app. left; exact I.
    + right. right. apply in_or_app. left; exact I.
  - destruct (CB x Hx y Hy) as [I|I].
    + apply (Permutation_in _ PPb) in I. destruct I as [<-|I]; [right; left; reflexivity|].
      left. apply in_or_app. right; exact I.
    + right. right. apply in_or_app. right; exact I.
Qed.

(* ---- access ------------------------------------------------------------------------------------------------------- *)
Theorem access_preserves_wfs s n s' nd t : wfs s -> access s n = Some (s', nd, t) -> wfs s'.
Proof.
  intros WS H. pose proof (ws_wf s WS) as W.
  apply (wfs_perm_op s s' WS (access_preserves_wf s n s' nd t W H) (access_world _ _ _ _ _ H)).
  - rewrite (access_total_atoms s n s' nd t W H). reflexivity.
  - apply (access_total_ends s n s' nd t W H).
  - destruct (access_inv _ _ _ _ _ H) as (nd0 & t0 & En & Et & -> & -> & ->). cbn. intros k t E.
    rewrite aget_aset in E. destruct (Nat.eqb_spec k n) as [->|Hne].
    + injection E as <-. apply closed_in_transpose; [|apply (ws_closed s WS n t0 Et)].
      pose proof (wf_node s W n nd0 En) as Hn.
      replace (length (axes t0)) with (length (shape nd0)); [apply (ni_perm _ _ _ Hn)|].
      rewrite (ni_shape _ _ _ Hn), (tens_aget _ _ _ Et), map_length. reflexivity.
    + apply (ws_closed s WS k t E).
Qed.

Theorem access_preserves_wfsb s n s' nd t : wfsb s = true -> access s n = Some (s', nd, t) -> wfsb s' = true.
Proof. intros H Ha. apply wfs_wfsb. apply (access_preserves_wfs s n s' nd t); [apply wfsb_wfs; exact H|exact Ha]. Qed.

(* ---- rename ------------------------------------------------------------------------------------------------------- *)
Theorem rename_preserves_wfs s new old s' : wfs s -> rename s new old = Some s' -> wfs s'.
Proof.
  intros WS H. pose proof (ws_wf s WS) as W.
  apply (wfs_perm_op s s' WS (rename_preserves_wf s new old s' W H) (rename_world _ _ _ _ H)).
  - apply (rename_total_atoms s new old s' W H).
  - apply (rename_total_ends s new old s' W H).
  - destruct (rename_relabels s new old s' W H) as (s0 & nd & t & Ha & W0 & Rl).
    pose proof (access_preserves_wfs s old s0 nd t WS Ha) as WS0.
    destruct (access_world _ _ _ _ _ Ha) as (Ea & _).
    intros k' t' E. destruct (rl_t2 _ _ _ Rl k' (aget_Some_keys _ _ _ E)) as (k & -> & Hk).
    rewrite (rl_t1 _ _ _ Rl k Hk) in E. apply (closed_in_world s0 s t' (eq_sym Ea)). apply (ws_closed s0 WS0 k t' E).
Qed.

Theorem rename_preserves_wfsb s new old s' : wfsb s = true -> rename s new old = Some s' -> wfsb s' = true.
Proof. intros H Ha. apply wfs_wfsb. apply (rename_preserves_wfs s new old s'); [apply wfsb_wfs; exact H|exact Ha]. Qed.

(* ---- replace_tensor ----------------------------------------------------------------------------------------------- *)
Lemma closed_in_same s t t' :
  atoms t' = atoms t -> bnd t' = bnd t -> incl (axes t) (axes t') -> closed_in s t -> closed_in s t'.
Proof.
  intros Ea Eb Hi C a Ha x Hx. rewrite Ea in Ha. rewrite Eb. destruct (C a Ha x Hx) as [I|I]; [left; apply Hi; exact I|right; exact I].
Qed.

Theorem replace_tensor_preserves_wfs s n q p s' :
  wfs s -> replace_tensor s n q p = Some s' ->
  inverse_of (match p with Some p' => p' | None => seq 0 (length q) end) q -> wfs s'.
Proof.
  intros WS H I. pose proof (ws_wf s WS) as W.
  apply (wfs_perm_op s s' WS (replace_tensor_preserves_wf s n q p s' W H I) (replace_tensor_world _ _ _ _ _ H)).
  - rewrite (replace_tensor_total_atoms s n q p s' W H I). reflexivity.
  - apply (replace_tensor_total_ends s n q p s' W H I).
  - destruct (replace_tensor_facts _ _ _ _ _ W H I) as (nd & t & nd' & t' & En & Et & -> & _ & _ & _ & _ & _ & _ & Hat & Hbn & Hax).
    cbn. intros k tk E. rewrite aget_aset in E. destruct (Nat.eqb_spec k n) as [->|Hne].
    + injection E as <-. apply (closed_in_same s t t' Hat Hbn); [|apply (ws_closed s WS n t Et)].
      intros x Hx. apply (Permutation_in _ (Permutation_sym Hax)). exact Hx.
    + apply (ws_closed s WS k tk E).
Qed.

Theorem replace_tensor_preserves_wfsb s n q p s' :
  wfsb s = true -> replace_tensor s n q p = Some s' ->
  inverse_of (match p with Some p' => p' | None => seq 0 (length q) end) q -> wfsb s' = true.
Proof. intros H Ha I. apply wfs_wfsb. apply (replace_tensor_preserves_wfs s n q p s'); [apply wfsb_wfs; exact H|exact Ha|exact I]. Qed.

(* ---- contract_nodes ------------------------------------------------------------------------------------------------ *)
Lemma rnin_tensors s new old del s' : replace_node_in_neighbours s new old del = Some s' -> tensors s' = tensors s.
Proof.
  unfold replace_node_in_neighbours. destruct (Nat.eqb new old); [intros [= <-]; reflexivity|].
  destruct (aget old (nodes s)) as [on|]; [|discriminate].
  match goal with |- match ?X with _ => _ end = _ -> _ => destruct X as [[r0 l2]|]; [|discriminate] end.
  intros [= <-]. reflexivity.
Qed.

Lemma In_adel {V} k (l : list (nat * V)) x : In x (adel k l) -> In x l.
Proof.
  induction l as [|[k' v'] t IH]; cbn; [auto|]. destruct (Nat.eqb k k'); [auto|].
  intros [E|Hin]; [left; exact E|right; apply IH; exact Hin].
Qed.

(* the data part of a contraction: two accesses, one tensordot, the tensor dict surgery *)
Lemma contract_data s a b new s' : contract_nodes s a b new = Some s' ->
  exists p c s1 pn pt s2 cn ct ax nt,
    ((p = a /\ c = b) \/ (p = b /\ c = a)) /\
    (exists cn0, aget c (nodes s) = Some cn0 /\ parent cn0 = Some p) /\
    access s p = Some (s1, pn, pt) /\ access s1 c = Some (s2, cn, ct) /\
    neighbour_index pn c = Some ax /\ s_tensordot pt ct ax 0 = Some nt /\
    tensors s' = adel c (adel p (tensors s2)) ++ [(new, nt)].
Proof.
  unfold contract_nodes. intros H.
  destruct (determine_parentage s a b) as [[p c]|] eqn:Edp; [|discriminate].
  destruct (access s p) as [[[s1 pn] pt]|] eqn:A1; [|discriminate].
  destruct (access s1 c) as [[[s2 cn] ct]|] eqn:A2; [|discriminate].
  destruct (neighbour_index pn c) as [ax|] eqn:Eax; [|discriminate].
  destruct (s_tensordot pt ct ax 0) as [nt|] eqn:Etd; [|discriminate].
  destruct (create_contracted_node _ pn cn c (p =? a)) as [nn|]; [|discriminate].
  match type of H with match ?X with _ => _ end = _ => destruct X as [s4|] eqn:R4; [|discriminate] end.
  destruct (replace_node_in_neighbours s4 new c true) as [s5|] eqn:R5; [|discriminate].
  injection H as <-.
  exists p, c, s1, pn, pt, s2, cn, ct, ax, nt. repeat split; auto.
  - destruct (determine_parentage_inv s a b p c Edp) as (na & nb & _ & _ & [(-> & -> & _)|(-> & -> & _)]); auto.
  - destruct (determine_parentage_inv s a b p c Edp) as (na & nb & Ena & Enb & [(-> & -> & Hp)|(-> & -> & Hp)]); eauto.
  - cbn. rewrite (rnin_tensors _ _ _ _ _ R5), (rnin_tensors _ _ _ _ _ R4). reflexivity.
Qed.

Theorem contract_preserves_wfs s a b new s' :
  wfs s -> contract_nodes s a b new = Some s' -> (new = a \/ new = b \/ ~ In new (akeys (nodes s))) -> wfs s'.
Proof.
  intros WS H Hn. pose proof (ws_wf s WS) as W.
  apply (wfs_perm_op s s' WS (contract_preserves_wf s a b new s' W H Hn) (contract_world _ _ _ _ _ H)).
  - apply (contract_total_atoms s a b new s' W H Hn).
  - apply (contract_total_ends s a b new s' W H Hn).
  - destruct (contract_data _ _ _ _ _ H) as (p & c & s1 & pn & pt & s2 & cn & ct & ax & nt & _ & _ & A1 & A2 & _ & Etd & ET).
    pose proof (access_preserves_wfs _ _ _ _ _ WS A1) as WS1. pose proof (access_preserves_wfs _ _ _ _ _ WS1 A2) as WS2.
    destruct (access_world _ _ _ _ _ A1) as (Ea1 & _). destruct (access_world _ _ _ _ _ A2) as (Ea2 & _).
    destruct (access_result _ _ _ _ _ A1) as (_ & B2 & _). destruct (access_result _ _ _ _ _ A2) as (_ & C2 & _).
    assert (Cp : closed_in s pt) by (apply (closed_in_world s1 s pt (eq_sym Ea1)); apply (ws_closed s1 WS1 p pt B2)).
    assert (Cc : closed_in s ct).
    { apply (closed_in_world s2 s ct); [congruence|]. apply (ws_closed s2 WS2 c ct C2). }
    intros k t E. rewrite ET in E. apply aget_In in E. apply in_app_or in E. destruct E as [E|[E|[]]].
    + apply In_adel, In_adel in E. apply (closed_in_world s2 s t); [congruence|].
      apply (ws_closed s2 WS2 k t). apply In_aget; [apply (wf_tnd s2 (ws_wf s2 WS2))|exact E].
    + injection E as <- <-. apply (closed_in_tensordot s pt ct ax 0 nt Etd Cp Cc).
Qed.

Theorem contract_preserves_wfsb s a b new s' :
  wfsb s = true -> contract_nodes s a b new = Some s' -> (new = a \/ new = b \/ ~ In new (akeys (nodes s))) -> wfsb s' = true.
Proof. intros H Ha I. apply wfs_wfsb. apply (contract_preserves_wfs s a b new s'); [apply wfsb_wfs; exact H|exact Ha|exact I]. Qed.
