(* Wire sharing in a well-formed store: among the logical axes of all nodes every wire occurs at most
   twice, and exactly the edge wires (the wire on leg 0 of a non-root node) occur twice. *)
From Coq Require Import List Arith Bool Lia Permutation.
From PTN Require Import TTN.Store TTN.StoreProofs TTN.Inv TTN.InvProofs TTN.InvNode TTN.InvContract.
Import ListNotations.

(* all logical axes of all nodes *)
Definition all_lax (s : store) : list wire := flat_map (fun kn => lax s (fst kn) (snd kn)) (nodes s).
(* all child links *)
Definition all_children (s : store) : list id := flat_map (fun kn : id * node => children (snd kn)) (nodes s).

Lemma flat_map_perm_split {A B} (f g h : A -> list B) l :
  (forall x, In x l -> Permutation (f x) (g x ++ h x)) ->
  Permutation (flat_map f l) (flat_map g l ++ flat_map h l).
Proof.
  induction l as [|x t IH]; cbn; [reflexivity|]. intros H.
  rewrite (H x (or_introl eq_refl)), IH by (intros y Hy; apply H; right; exact Hy).
  rewrite <- !app_assoc. apply Permutation_app_head. rewrite !app_assoc. apply Permutation_app_tail.
  apply Permutation_app_comm.
Qed.

Lemma map_flat_map {A B C} (f : B -> C) (g : A -> list B) l : map f (flat_map g l) = flat_map (fun x => map f (g x)) l.
Proof. induction l as [|x t IH]; cbn; [reflexivity|]. rewrite map_app, IH. reflexivity. Qed.

Lemma wf_lax_own_children s k n : wf s -> aget k (nodes s) = Some n ->
  Permutation (lax s k n) (own_of n (tens s k) ++ map (ew s) (children n)).
Proof.
  intros W E. rewrite (wf_lax_decomp s k n W E) at 1. unfold own_of. fold (lax s k n). fold (open_of n (tens s k)).
  rewrite <- app_assoc. apply Permutation_app_head. apply Permutation_app_comm.
Qed.

Lemma wf_all_lax_perm s : wf s -> Permutation (all_lax s) (own_wires s ++ map (ew s) (all_children s)).
Proof.
  intros W. unfold all_lax, own_wires, all_children. rewrite map_flat_map.
  apply flat_map_perm_split. intros [k n] Hin. cbn [fst snd]. unfold node_own. cbn [fst snd].
  apply wf_lax_own_children; [exact W|]. apply In_aget; [apply (wf_nd s W)|exact Hin].
Qed.

(* a key is a child link exactly when it is a node with a parent; every such link occurs once *)
Lemma wf_all_children_In s c : wf s ->
  (In c (all_children s) <-> exists cn, aget c (nodes s) = Some cn /\ parent cn <> None).
Proof.
  intros W. unfold all_children. rewrite in_flat_map. split.
  - intros ([k n] & Hin & Hc). cbn in Hc. apply (In_aget _ _ _ (wf_nd s W)) in Hin.
    destruct (wf_child_parent s k n c W Hin Hc) as (cn & Ec & Ep). exists cn. split; [exact Ec|congruence].
  - intros (cn & Ec & Hp). destruct (parent cn) as [p|] eqn:Ep; [|congruence].
    destruct (wf_parent_child s c cn p W Ec Ep) as (pn & Epn & Hin). exists (p, pn). split; [apply aget_In; exact Epn|exact Hin].
Qed.

Lemma wf_all_children_NoDup s : wf s -> NoDup (all_children s).
Proof.
  intros W. unfold all_children. apply (NoDup_flat_map_assoc _ _ (wf_nd s W)). split.
  - intros k n E. cbn. apply (ni_chnd _ _ _ (wf_node s W k n E)).
  - intros k1 n1 k2 n2 c E1 E2 H1 H2. cbn in H1, H2.
    destruct (wf_child_parent s k1 n1 c W E1 H1) as (cn & Ec & Ep).
    destruct (wf_child_parent s k2 n2 c W E2 H2) as (cn' & Ec' & Ep'). unfold id in *. congruence.
Qed.

(* the edge wire of a non-root node is one of its owned wires *)
Lemma wf_ew_own s c cn : wf s -> aget c (nodes s) = Some cn -> parent cn <> None -> In (ew s c) (own_of cn (tens s c)).
Proof.
  intros W Ec Hp. unfold ew. rewrite Ec. unfold own_of. fold (lax s c cn). apply in_or_app. left.
  assert (Hnp : nparents cn = 1) by (unfold nparents; destruct (parent cn); [reflexivity|congruence]).
  rewrite Hnp. pose proof (laxes_length cn (tens s c)) as Hl. fold (lax s c cn) in Hl.
  pose proof (ni_virt _ _ _ (wf_node s W c cn Ec)) as Hv. unfold nvirt in Hv. rewrite Hnp in Hv.
  destruct (lax s c cn) as [|x t]; [cbn in Hl; lia|]. left. reflexivity.
Qed.

Lemma wf_ew_NoDup s : wf s -> NoDup (map (ew s) (all_children s)).
Proof.
  intros W. pose proof (wf_all_children_NoDup s W) as Hnd.
  assert (Hall : forall c, In c (all_children s) -> exists cn, aget c (nodes s) = Some cn /\ parent cn <> None)
    by (intros c Hc; apply (wf_all_children_In s c W); exact Hc).
  induction (all_children s) as [|c t IH]; cbn; [constructor|].
  inversion Hnd as [|? ? Hni Hnd']; subst. constructor.
  - intros Hin. apply in_map_iff in Hin. destruct Hin as (c2 & E & Hc2).
    destruct (Hall c (or_introl eq_refl)) as (cn & Ec & Hp). destruct (Hall c2 (or_intror Hc2)) as (cn2 & Ec2 & Hp2).
    assert (c = c2).
    { apply (wf_own2 s W c cn c2 cn2 (ew s c) Ec Ec2); [apply wf_ew_own; assumption|].
      rewrite <- E. apply wf_ew_own; assumption. }
    subst. contradiction.
  - apply IH; [exact Hnd'|]. intros c2 Hc2. apply Hall. right. exact Hc2.
Qed.

Lemma wf_own_wires_NoDup s : wf s -> NoDup (own_wires s).
Proof.
  intros W. unfold own_wires. apply (NoDup_flat_map_assoc _ _ (wf_nd s W)). split.
  - intros k n E. apply (wf_own1 s W k n E).
  - intros k1 n1 k2 n2 w E1 E2. apply (wf_own2 s W k1 n1 k2 n2 w E1 E2).
Qed.

Lemma NoDup_count_le1 (l : list nat) x : NoDup l -> count_occ Nat.eq_dec l x <= 1.
Proof. intros H. apply (proj1 (NoDup_count_occ Nat.eq_dec l) H). Qed.

Theorem wf_wire_multiplicity s w : wf s ->
  count_occ Nat.eq_dec (all_lax s) w <= 2 /\
  (count_occ Nat.eq_dec (all_lax s) w = 2 <->
   exists c cn, aget c (nodes s) = Some cn /\ parent cn <> None /\ nth 0 (lax s c cn) 0 = w).
Proof.
  intros W. rewrite (proj1 (Permutation_count_occ Nat.eq_dec _ _) (wf_all_lax_perm s W) w), count_occ_app.
  pose proof (NoDup_count_le1 _ w (wf_own_wires_NoDup s W)) as H1.
  pose proof (NoDup_count_le1 _ w (wf_ew_NoDup s W)) as H2.
  split; [unfold wire in *; lia|]. split.
  - intros H. assert (Hin : In w (map (ew s) (all_children s))).
    { apply (count_occ_In Nat.eq_dec). unfold wire in *. lia. }
    apply in_map_iff in Hin. destruct Hin as (c & E & Hc). apply (wf_all_children_In s c W) in Hc.
    destruct Hc as (cn & Ec & Hp). exists c, cn. repeat split; auto. unfold ew in E. rewrite Ec in E. exact E.
  - intros (c & cn & Ec & Hp & E).
    assert (Hew : ew s c = w) by (unfold ew; rewrite Ec; exact E).
    assert (I1 : In w (own_wires s)).
    { unfold own_wires. apply in_flat_map. exists (c, cn). split; [apply aget_In; exact Ec|].
      unfold node_own. cbn [fst snd]. rewrite <- Hew. apply wf_ew_own; assumption. }
    assert (I2 : In w (map (ew s) (all_children s))).
    { apply in_map_iff. exists c. split; [exact Hew|]. apply (wf_all_children_In s c W). eauto. }
    apply (count_occ_In Nat.eq_dec) in I1. apply (count_occ_In Nat.eq_dec) in I2. unfold wire in *. lia.
Qed.

(* boolean form *)
Corollary wfb_wire_multiplicity s w : wfb s = true ->
  count_occ Nat.eq_dec (all_lax s) w <= 2 /\
  (count_occ Nat.eq_dec (all_lax s) w = 2 <->
   exists c cn, aget c (nodes s) = Some cn /\ parent cn <> None /\ nth 0 (lax s c cn) 0 = w).
Proof. intros H. apply wf_wire_multiplicity. apply wfb_wf. exact H. Qed.
