(* Proofs about the Layer-W store model (TTN/Store.v): list surgery, the Node leg discipline,
   lazy transposition (access). *)
From Coq Require Import List Arith Bool Lia Permutation.
From PTN Require Import TTN.Store.
Import ListNotations.

(* ---- list surgery -------------------------------------------------------------------------------- *)
Section Surgery.
  Context {A : Type}.

  Lemma pop_perm (i : nat) (l : list A) x r : pop i l = Some (x, r) -> Permutation l (x :: r).
  Proof.
    revert i x r. induction l as [|y t IH]; intros [|i] x r H; cbn in H; try discriminate.
    - injection H as <- <-. reflexivity.
    - destruct (pop i t) as [[z t']|] eqn:E; [|discriminate]. injection H as <- <-.
      apply IH in E. rewrite E. apply perm_swap.
  Qed.

  Lemma pop_length (i : nat) (l : list A) x r : pop i l = Some (x, r) -> length l = S (length r).
  Proof. intros H. apply pop_perm in H. apply Permutation_length in H. exact H. Qed.

  Lemma pop_some (i : nat) (l : list A) : i < length l -> exists x r, pop i l = Some (x, r).
  Proof.
    revert i. induction l as [|y t IH]; intros [|i] H; cbn in *; try lia; eauto.
    destruct (IH i ltac:(lia)) as (x & r & ->). eauto.
  Qed.

  Lemma pop_nth (i : nat) (l : list A) x r d : pop i l = Some (x, r) -> nth i l d = x.
  Proof.
    revert i x r. induction l as [|y t IH]; intros [|i] x r H; cbn in H; try discriminate.
    - injection H as <- <-. reflexivity.
    - destruct (pop i t) as [[z t']|] eqn:E; [|discriminate]. injection H as <- <-. cbn. eapply IH; eauto.
  Qed.

  Lemma insert_perm (i : nat) (x : A) (l : list A) : Permutation (insert i x l) (x :: l).
  Proof.
    revert l. induction i as [|i IH]; intros [|y t]; cbn; try reflexivity.
    rewrite IH. apply perm_swap.
  Qed.

  Lemma insert_length (i : nat) (x : A) (l : list A) : length (insert i x l) = S (length l).
  Proof. apply Permutation_length with (l' := x :: l). apply insert_perm. Qed.

  Lemma insert_nth (i : nat) (x : A) (l : list A) d : i <= length l -> nth i (insert i x l) d = x.
  Proof.
    revert l. induction i as [|i IH]; intros [|y t] H; cbn in *; try reflexivity; try lia.
    apply IH. lia.
  Qed.

  Lemma insert_list_perm (i : nat) (xs l : list A) : Permutation (insert_list i xs l) (xs ++ l).
  Proof.
    revert l. induction i as [|i IH]; intros [|y t]; cbn; try reflexivity.
    - rewrite app_nil_r. reflexivity.
    - rewrite IH. apply Permutation_middle.
  Qed.

  Lemma pop_n_perm (k i : nat) (l xs r : list A) : pop_n k i l = Some (xs, r) -> Permutation l (xs ++ r).
  Proof.
    revert l xs r. induction k as [|k IH]; intros l xs r H; cbn in H.
    - injection H as <- <-. reflexivity.
    - destruct (pop i l) as [[x l']|] eqn:E; [|discriminate].
      destruct (pop_n k i l') as [[ys l'']|] eqn:E2; [|discriminate]. injection H as <- <-.
      apply pop_perm in E. apply IH in E2. rewrite E, E2. reflexivity.
  Qed.

  Lemma move_perm (i j : nat) (l l' : list A) : move i j l = Some l' -> Permutation l' l.
  Proof.
    unfold move. destruct (pop i l) as [[x r]|] eqn:E; [|discriminate]. intros [= <-].
    rewrite insert_perm. symmetry. eapply pop_perm; eauto.
  Qed.

  (* the moved leg is the one that was at position i, and it ends up at position j *)
  Lemma move_nth (i j : nat) (l l' : list A) d : move i j l = Some l' -> j < length l -> nth j l' d = nth i l d.
  Proof.
    unfold move. destruct (pop i l) as [[x r]|] eqn:E; [|discriminate]. intros [= <-] Hj.
    rewrite (pop_nth _ _ _ _ d E). apply insert_nth. apply pop_length in E. lia.
  Qed.
End Surgery.

Lemma remove_first_perm x l : In x l -> Permutation l (x :: remove_first x l).
Proof.
  induction l as [|y t IH]; [intros []|]. intros Hin. cbn. destruct (Nat.eqb_spec x y) as [->|Hne].
  - reflexivity.
  - destruct Hin as [->|Hin]; [congruence|]. rewrite (IH Hin) at 1. apply perm_swap.
Qed.

(* ---- the lazy permutation -------------------------------------------------------------------------- *)
Lemma permute_seq {A} (d : A) (l : list A) : permute d (seq 0 (length l)) l = l.
Proof.
  unfold permute. apply nth_ext with (d := d) (d' := d).
  - rewrite map_length, seq_length. reflexivity.
  - intros i Hi. rewrite map_length, seq_length in Hi.
    rewrite (nth_indep _ d (nth 0 l d)) by (rewrite map_length, seq_length; exact Hi).
    rewrite (map_nth (fun i => nth i l d) (seq 0 (length l)) 0 i). rewrite seq_nth by exact Hi. reflexivity.
Qed.

Lemma permute_length {A} (d : A) p (l : list A) : length (permute d p l) = length p.
Proof. unfold permute. apply map_length. Qed.

Lemma permute_perm {A} (d : A) p q (l : list A) : Permutation p q -> Permutation (permute d p l) (permute d q l).
Proof. unfold permute. apply Permutation_map. Qed.

(* if p is a permutation of the positions of l then the permuted list is a permutation of l *)
Lemma permute_is_perm {A} (d : A) p (l : list A) : Permutation p (seq 0 (length l)) -> Permutation (permute d p l) l.
Proof. intros H. rewrite (permute_perm d _ _ l H). rewrite permute_seq. reflexivity. Qed.

(* ---- node leg discipline: a Node is well-formed when its lazy permutation is a permutation of
        the positions of its recorded shape and it has at least as many legs as neighbours ---------- *)
Definition node_wf (n : node) : Prop :=
  Permutation (perm n) (seq 0 (length (shape n))) /\ nvirt n <= nlegs n.

Lemma nlegs_shape n : node_wf n -> nlegs n = length (shape n).
Proof. intros [H _]. unfold nlegs. apply Permutation_length in H. rewrite seq_length in H. exact H. Qed.

Lemma new_node_wf shp : node_wf (new_node shp).
Proof. split; cbn; [reflexivity|lia]. Qed.

Lemma open_leg_ok_spec n leg : open_leg_ok n leg = true -> nvirt n <= leg < nlegs n.
Proof.
  unfold open_leg_ok. rewrite !andb_true_iff, !negb_true_iff. intros [[_ H2] H3].
  apply Nat.ltb_ge in H2. apply Nat.ltb_lt in H3. lia.
Qed.

Theorem open_leg_to_parent_wf n pid leg n' :
  node_wf n -> open_leg_to_parent n pid leg = Some n' ->
  node_wf n' /\ parent n' = Some pid /\ children n' = children n /\ shape n' = shape n /\
  Permutation (perm n') (perm n) /\ nth 0 (perm n') 0 = nth leg (perm n) 0 /\ parent n = None.
Proof.
  intros [Hp Hv] H. unfold open_leg_to_parent in H.
  destruct (is_root n) eqn:Hr; cbn in H; [|discriminate].
  destruct (open_leg_ok n leg) eqn:Hok; cbn in H; [|discriminate].
  destruct (move leg 0 (perm n)) as [p|] eqn:Hm; [|discriminate]. injection H as <-.
  apply open_leg_ok_spec in Hok. pose proof (move_perm _ _ _ _ Hm) as Hperm.
  unfold is_root in Hr. destruct (parent n) eqn:Hpar; [discriminate|].
  cbn. repeat split; auto.
  - cbn. rewrite Hperm. exact Hp.
  - unfold nvirt, nparents, nlegs in *. cbn. rewrite Hpar in *. apply Permutation_length in Hperm. cbn in *. lia.
  - apply (move_nth _ _ _ _ 0 Hm). unfold nlegs in Hok. lia.
Qed.

Theorem open_leg_to_child_wf n cid leg n' :
  node_wf n -> open_leg_to_child n cid leg = Some n' ->
  node_wf n' /\ parent n' = parent n /\ children n' = children n ++ [cid] /\ shape n' = shape n /\
  Permutation (perm n') (perm n) /\ nth (nvirt n) (perm n') 0 = nth leg (perm n) 0.
Proof.
  intros [Hp Hv] H. unfold open_leg_to_child in H.
  destruct (open_leg_ok n leg) eqn:Hok; cbn in H; [|discriminate].
  destruct (move leg (nvirt n) (perm n)) as [p|] eqn:Hm; [|discriminate]. injection H as <-.
  apply open_leg_ok_spec in Hok. pose proof (move_perm _ _ _ _ Hm) as Hperm.
  cbn. repeat split; auto.
  - cbn. rewrite Hperm. exact Hp.
  - unfold nvirt, nparents, nlegs in *. cbn. rewrite app_length. cbn. apply Permutation_length in Hperm. lia.
  - apply (move_nth _ _ _ _ 0 Hm). unfold nlegs in Hok. lia.
Qed.

Lemma reset_permutation_wf n : node_wf n -> node_wf (reset_permutation n).
Proof.
  intros [Hp Hv]. split; cbn.
  - unfold node_shape. rewrite permute_length. reflexivity.
  - unfold nvirt, nlegs, nparents in *. cbn. rewrite seq_length. exact Hv.
Qed.

(* Node.shape (the shape seen through the permutation) is unchanged by resetting *)
Lemma reset_permutation_shape n : node_shape (reset_permutation n) = node_shape n.
Proof.
  unfold reset_permutation, node_shape. cbn.
  set (l := permute 0 (perm n) (shape n)).
  replace (length (perm n)) with (length l) by apply permute_length. apply permute_seq.
Qed.

(* ---- access (TensorDict.__getitem__) -------------------------------------------------------------------- *)
Lemma aget_aset_same {V} k (v : V) l : aget k (aset k v l) = Some v.
Proof.
  induction l as [|[k' v'] t IH]; cbn.
  - rewrite Nat.eqb_refl. reflexivity.
  - destruct (Nat.eqb_spec k k') as [->|Hne]; cbn.
    + rewrite Nat.eqb_refl. reflexivity.
    + destruct (Nat.eqb_spec k k'); [congruence|]. exact IH.
Qed.

Lemma aget_aset_other {V} k k2 (v : V) l : k2 <> k -> aget k2 (aset k v l) = aget k2 l.
Proof.
  intros Hne. induction l as [|[k' v'] t IH]; cbn.
  - destruct (Nat.eqb_spec k2 k); [congruence|reflexivity].
  - destruct (Nat.eqb_spec k k') as [->|Hne2]; cbn.
    + destruct (Nat.eqb_spec k2 k'); [congruence|reflexivity].
    + destruct (Nat.eqb_spec k2 k'); [reflexivity|exact IH].
Qed.

Lemma akeys_aset_mem {V} k (v v0 : V) l : aget k l = Some v0 -> akeys (aset k v l) = akeys l.
Proof.
  induction l as [|[k' v'] t IH]; cbn; [discriminate|].
  destruct (Nat.eqb_spec k k') as [->|Hne]; cbn; [reflexivity|]. intros H. f_equal. apply IH. exact H.
Qed.

Lemma s_transpose_seq t : s_transpose (seq 0 (length (axes t))) t = t.
Proof. destruct t as [ax at_ bd]. unfold s_transpose. cbn [axes atoms bnd]. rewrite permute_seq. reflexivity. Qed.

(* A plain access never changes what any node's tensor is (its logical view), it keeps the key
   order of both dictionaries, and a second access is a no-op on the raw data. *)
Theorem access_logical s n s' nd t m :
  access s n = Some (s', nd, t) -> logical s' m = logical s m.
Proof.
  unfold access. destruct (aget n (nodes s)) as [nd0|] eqn:En; [|discriminate].
  destruct (aget n (tensors s)) as [t0|] eqn:Et; [|discriminate].
  intros [= <- <- <-]. unfold logical. cbn.
  destruct (Nat.eq_dec m n) as [->|Hne].
  - rewrite !aget_aset_same, En, Et. unfold reset_permutation. cbn.
    replace (length (perm nd0)) with (length (axes (s_transpose (perm nd0) t0))).
    + rewrite s_transpose_seq. reflexivity.
    + cbn. apply permute_length.
  - rewrite !aget_aset_other by exact Hne. reflexivity.
Qed.

Theorem access_returns_logical s n s' nd t :
  access s n = Some (s', nd, t) -> logical s n = Some t.
Proof.
  unfold access, logical. destruct (aget n (nodes s)) as [nd0|]; [|discriminate].
  destruct (aget n (tensors s)) as [t0|]; [|discriminate]. intros [= <- <- <-]. reflexivity.
Qed.

Theorem access_keys s n s' nd t :
  access s n = Some (s', nd, t) ->
  akeys (nodes s') = akeys (nodes s) /\ akeys (tensors s') = akeys (tensors s) /\ root s' = root s.
Proof.
  unfold access. destruct (aget n (nodes s)) as [nd0|] eqn:En; [|discriminate].
  destruct (aget n (tensors s)) as [t0|] eqn:Et; [|discriminate].
  intros [= <- <- <-]. cbn. repeat split.
  - eapply akeys_aset_mem; eauto.
  - eapply akeys_aset_mem; eauto.
Qed.

Theorem access_structure s n s' nd t m ndm :
  access s n = Some (s', nd, t) -> aget m (nodes s) = Some ndm ->
  exists ndm', aget m (nodes s') = Some ndm' /\ parent ndm' = parent ndm /\ children ndm' = children ndm
               /\ node_shape ndm' = node_shape ndm.
Proof.
  unfold access. destruct (aget n (nodes s)) as [nd0|] eqn:En; [|discriminate].
  destruct (aget n (tensors s)) as [t0|] eqn:Et; [|discriminate].
  intros [= <- <- <-] Hm. cbn.
  destruct (Nat.eq_dec m n) as [->|Hne].
  - rewrite aget_aset_same. rewrite En in Hm. injection Hm as <-. eexists. split; [reflexivity|].
    repeat split. apply reset_permutation_shape.
  - rewrite aget_aset_other by exact Hne. eauto.
Qed.
