(* Structural (wire-free) tree invariant of the node dictionary of the Layer-W store, the
   "same tree up to child order" relation, and their basic consequences.  Shared by
   CanonMore.v (effect of one canonicalisation step), CanonDist.v (distance_to_node on trees),
   CanonPath.v (path_from_to on trees). *)
From Coq Require Import List Arith Bool Lia Permutation.
From PTN Require Import TTN.Store TTN.StoreProofs TTN.Inv TTN.InvProofs.
Import ListNotations.

(* ---- the tree structure of a node dictionary --------------------------------------------------- *)
Record tstruct (l : list (id * node)) : Prop := {
  ts_nd : NoDup (akeys l);
  ts_chnd : forall k n, aget k l = Some n -> NoDup (children n);
  ts_ch : forall k n c, aget k l = Some n -> In c (children n) ->
          exists cn, aget c l = Some cn /\ parent cn = Some k;
  ts_par : forall k n p, aget k l = Some n -> parent n = Some p ->
           exists pn, aget p l = Some pn /\ In k (children pn);
  ts_root : forall k1 n1 k2 n2, aget k1 l = Some n1 -> parent n1 = None ->
            aget k2 l = Some n2 -> parent n2 = None -> k1 = k2;
  ts_acyc : exists rank : id -> nat,
            forall c cn p, aget c l = Some cn -> parent cn = Some p -> rank p < rank c
}.

(* same identifiers, same parent pointers, children equal up to order *)
Definition same_tree (l l' : list (id * node)) : Prop :=
  length l = length l' /\
  forall k, match aget k l, aget k l' with
            | Some n, Some n' => parent n = parent n' /\ Permutation (children n) (children n')
            | None, None => True
            | _, _ => False
            end.

Lemma same_tree_refl l : same_tree l l.
Proof. split; [reflexivity|]. intros k. destruct (aget k l); auto. Qed.

Lemma same_tree_sym l l' : same_tree l l' -> same_tree l' l.
Proof.
  intros [H1 H2]. split; [symmetry; exact H1|]. intros k. specialize (H2 k).
  destruct (aget k l), (aget k l'); auto. destruct H2 as [A B]. split; [symmetry; exact A|symmetry; exact B].
Qed.

Lemma same_tree_trans l1 l2 l3 : same_tree l1 l2 -> same_tree l2 l3 -> same_tree l1 l3.
Proof.
  intros [A1 A2] [B1 B2]. split; [congruence|]. intros k. specialize (A2 k). specialize (B2 k).
  destruct (aget k l1), (aget k l2), (aget k l3); auto; try contradiction.
  destruct A2 as [A B], B2 as [C D]. split; [congruence|]. rewrite B. exact D.
Qed.

Lemma same_tree_some l l' k n : same_tree l l' -> aget k l = Some n ->
  exists n', aget k l' = Some n' /\ parent n = parent n' /\ Permutation (children n) (children n').
Proof.
  intros [_ H] E. specialize (H k). rewrite E in H. destruct (aget k l') as [n'|]; [|contradiction].
  exists n'. split; [reflexivity|exact H].
Qed.

Lemma same_tree_neighbours l l' k n n' : same_tree l l' -> aget k l = Some n -> aget k l' = Some n' ->
  Permutation (neighbouring_nodes n) (neighbouring_nodes n').
Proof.
  intros H E E'. destruct (same_tree_some _ _ _ _ H E) as (n2 & E2 & Hp & Hc). rewrite E' in E2. injection E2 as <-.
  unfold neighbouring_nodes. rewrite <- Hp. destruct (parent n); [apply perm_skip|]; exact Hc.
Qed.

(* the structure is a property of the tree up to child order *)
Lemma tstruct_same_tree l l' : tstruct l -> same_tree l l' -> NoDup (akeys l') -> tstruct l'.
Proof.
  intros T S Hnd. pose proof (same_tree_sym _ _ S) as S'. constructor.
  - exact Hnd.
  - intros k n E. destruct (same_tree_some _ _ _ _ S' E) as (n0 & E0 & _ & Hc).
    apply (Permutation_NoDup (Permutation_sym Hc)). eapply ts_chnd; eauto.
  - intros k n c E Hc. destruct (same_tree_some _ _ _ _ S' E) as (n0 & E0 & _ & Hpc).
    destruct (ts_ch _ T k n0 c E0 (Permutation_in _ Hpc Hc)) as (cn & Ec & Hpar).
    destruct (same_tree_some _ _ _ _ S Ec) as (cn' & Ec' & Hp' & _). exists cn'. split; [exact Ec'|congruence].
  - intros k n p E Hp. destruct (same_tree_some _ _ _ _ S' E) as (n0 & E0 & Hpp & _).
    destruct (ts_par _ T k n0 p E0 ltac:(congruence)) as (pn & Ep & Hin).
    destruct (same_tree_some _ _ _ _ S Ep) as (pn' & Ep' & _ & Hpc). exists pn'. split; [exact Ep'|].
    apply (Permutation_in _ Hpc Hin).
  - intros k1 n1 k2 n2 E1 P1 E2 P2.
    destruct (same_tree_some _ _ _ _ S' E1) as (m1 & F1 & Q1 & _).
    destruct (same_tree_some _ _ _ _ S' E2) as (m2 & F2 & Q2 & _).
    eapply (ts_root _ T k1 m1 k2 m2); eauto; congruence.
  - destruct (ts_acyc _ T) as [rank Hr]. exists rank. intros c cn p E Hp.
    destruct (same_tree_some _ _ _ _ S' E) as (cn0 & E0 & Q & _). eapply Hr; eauto. congruence.
Qed.

(* ---- basic consequences ---------------------------------------------------------------------- *)
Lemma ts_parent_not_child l k n p : tstruct l -> aget k l = Some n -> parent n = Some p -> ~ In p (children n).
Proof.
  intros T E Hp Hin. destruct (ts_acyc _ T) as [rank Hr].
  destruct (ts_ch _ T k n p E Hin) as (pn & Ep & Hpp).
  pose proof (Hr k n p E Hp). pose proof (Hr p pn k Ep Hpp). lia.
Qed.

Lemma ts_not_self_child l k n : tstruct l -> aget k l = Some n -> ~ In k (children n).
Proof.
  intros T E Hin. destruct (ts_acyc _ T) as [rank Hr].
  destruct (ts_ch _ T k n k E Hin) as (kn & Ek & Hp). pose proof (Hr k kn k Ek Hp). lia.
Qed.

Lemma ts_not_self_parent l k n : tstruct l -> aget k l = Some n -> parent n <> Some k.
Proof. intros T E Hp. destruct (ts_acyc _ T) as [rank Hr]. pose proof (Hr k n k E Hp). lia. Qed.

Lemma ts_neighbours_nodup l k n : tstruct l -> aget k l = Some n -> NoDup (neighbouring_nodes n).
Proof.
  intros T E. unfold neighbouring_nodes. destruct (parent n) as [p|] eqn:Hp; [|eapply ts_chnd; eauto].
  constructor; [eapply ts_parent_not_child; eauto|eapply ts_chnd; eauto].
Qed.

Lemma in_neighbouring n x : In x (neighbouring_nodes n) <-> parent n = Some x \/ In x (children n).
Proof.
  unfold neighbouring_nodes. destruct (parent n) as [p|]; cbn.
  - split.
    + intros [->|H]; auto.
    + intros [H|H]; [injection H as ->; auto|auto].
  - split; [auto|]. intros [H|H]; [discriminate|exact H].
Qed.

(* adjacency is symmetric and stays inside the dictionary *)
Lemma ts_neighbour_sym l k n x : tstruct l -> aget k l = Some n -> In x (neighbouring_nodes n) ->
  exists xn, aget x l = Some xn /\ In k (neighbouring_nodes xn) /\ x <> k.
Proof.
  intros T E Hin. apply in_neighbouring in Hin. destruct Hin as [Hp|Hc].
  - destruct (ts_par _ T k n x E Hp) as (pn & Ep & Hk). exists pn. split; [exact Ep|]. split.
    + apply in_neighbouring. right. exact Hk.
    + intros ->. exact (ts_not_self_parent _ _ _ T E Hp).
  - destruct (ts_ch _ T k n x E Hc) as (cn & Ec & Hp). exists cn. split; [exact Ec|]. split.
    + apply in_neighbouring. left. exact Hp.
    + intros ->. exact (ts_not_self_child _ _ _ T E Hc).
Qed.

(* ---- from the executable store invariant ------------------------------------------------------ *)
Lemma wf_tstruct s : wf s -> tstruct (nodes s).
Proof.
  intros W. constructor.
  - apply (wf_nd _ W).
  - intros k n E. apply (ni_chnd _ _ _ (wf_node _ W k n E)).
  - intros k n c E Hc. apply (ni_ch _ _ _ (wf_node _ W k n E) c Hc).
  - intros k n p E Hp. destruct (ni_par _ _ _ (wf_node _ W k n E) p Hp) as (pn & i & Ep & Hin & _).
    exists pn. split; assumption.
  - intros k1 n1 k2 n2 E1 P1 E2 P2. destruct (wf_root _ W) as (r & rn & _ & _ & _ & Hu).
    rewrite (Hu k1 n1 E1 P1), (Hu k2 n2 E2 P2). reflexivity.
  - apply (wf_acyc _ W).
Qed.

Lemma wfb_tstruct s : wfb s = true -> tstruct (nodes s).
Proof. intros H. apply wf_tstruct. apply wfb_wf. exact H. Qed.
