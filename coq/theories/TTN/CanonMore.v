(* More about the canonical-form model (TTN/Canon.v):
   1. the two leg specifications built by a canonicalisation step partition the node's legs;
   2. the local effect of one step `qr_to_neighbour` on the store. *)
From Coq Require Import List Arith Bool Lia Permutation.
From PTN Require Import TTN.Store TTN.StoreProofs TTN.Canon TTN.Inv TTN.InvProofs TTN.InvNode TTN.CanonTree.
Import ListNotations.

Ltac nlia := unfold id, wire in *; lia.

(* ---- 1. build_qr_leg_specs ---------------------------------------------------------------------- *)
Lemma all_some_map_Some {A} (l : list A) : all_some (map Some l) = Some l.
Proof. induction l as [|x t IH]; cbn; [reflexivity|]. rewrite IH. reflexivity. Qed.

Lemma map_index_of_mid a b c : NoDup (a ++ b ++ c) ->
  map (fun x => index_of x (a ++ b ++ c)) b = map Some (seq (length a) (length b)).
Proof.
  intros Hnd. set (L := a ++ b ++ c).
  transitivity (map (fun x => index_of x L) (map (fun i => nth i L 0) (seq (length a) (length b)))).
  - f_equal. symmetry. apply map_nth_seq_mid.
  - rewrite map_map. apply map_ext_in. intros i Hi. apply in_seq in Hi. apply index_of_nth; [exact Hnd|].
    unfold L. rewrite !app_length. lia.
Qed.

Lemma map_add_seq u v k : seq (u + v) k = map (fun i => u + i) (seq v k).
Proof. revert v. induction k as [|k IH]; intros v; cbn; [reflexivity|]. f_equal. rewrite <- IH. f_equal. lia. Qed.

Lemma map_neighbour_index_mid n a b c : children n = a ++ b ++ c -> NoDup (neighbouring_nodes n) ->
  map (neighbour_index n) b = map Some (seq (nparents n + length a) (length b)).
Proof.
  intros Hc Hnd.
  assert (Hch : NoDup (children n) /\ forall x, In x (children n) -> parent n <> Some x).
  { unfold neighbouring_nodes in Hnd. destruct (parent n) as [p|].
    - inversion Hnd; subst. split; [assumption|]. intros x Hx [= ->]. contradiction.
    - split; [assumption|]. intros; discriminate. }
  destruct Hch as [Hnc Hnp].
  transitivity (map (fun x => option_map (fun i => nparents n + i) (index_of x (children n))) b).
  - apply map_ext_in. intros x Hx. apply neighbour_index_child. apply Hnp. rewrite Hc.
    apply in_or_app. right. apply in_or_app. left. exact Hx.
  - rewrite <- (map_map (fun x => index_of x (children n)) (option_map (fun i => nparents n + i))).
    rewrite Hc. rewrite map_index_of_mid by (pose proof Hnc as X; rewrite Hc in X; exact X).
    rewrite map_map. cbn [option_map]. rewrite <- (map_map (fun i => nparents n + i) Some). f_equal.
    symmetry. apply map_add_seq.
Qed.

(* the legs of a node without `leg`, in increasing order *)
Definition legs_without (leg N : nat) : list nat := seq 0 leg ++ seq (S leg) (N - S leg).

Lemma legs_without_perm leg N : leg < N -> Permutation (legs_without leg N ++ [leg]) (seq 0 N).
Proof.
  intros H. unfold legs_without. replace N with (leg + S (N - S leg)) at 2 by lia.
  rewrite seq_app. cbn [seq Nat.add]. rewrite <- app_assoc.
  apply Permutation_app_head. symmetry. apply Permutation_cons_append.
Qed.

Lemma legs_without_length leg N : leg < N -> length (legs_without leg N) = N - 1.
Proof. intros H. unfold legs_without. rewrite app_length, !seq_length. lia. Qed.

Lemma neighbour_index_In n x i : neighbour_index n x = Some i -> In x (neighbouring_nodes n).
Proof.
  unfold neighbour_index, neighbouring_nodes. destruct (parent n) as [p|].
  - destruct (Nat.eqb_spec x p) as [->|Hne]; [left; reflexivity|].
    destruct (index_of x (children n)) eqn:E; [|discriminate]. intros _. right.
    destruct (in_dec Nat.eq_dec x (children n)) as [H|H]; [exact H|]. apply index_of_None in H. congruence.
  - intros E. destruct (in_dec Nat.eq_dec x (children n)) as [H|H]; [exact H|]. apply index_of_None in H. congruence.
Qed.

(* Q receives all legs but the one toward the neighbour (in increasing order), R exactly that leg:
   the precondition of split_nodes (the two specifications partition the legs) always holds *)
Theorem build_qr_leg_specs_legs n nb leg :
  nvirt n <= nlegs n -> NoDup (neighbouring_nodes n) -> neighbour_index n nb = Some leg ->
  find_leg_values n (fst (build_qr_leg_specs n nb)) = Some (legs_without leg (nlegs n)) /\
  find_leg_values n (snd (build_qr_leg_specs n nb)) = Some [leg] /\
  leg < nvirt n.
Proof.
  intros Hv Hnd Hleg. unfold build_qr_leg_specs.
  destruct (match parent n with Some p => Nat.eqb p nb | None => false end) eqn:Hco.
  - (* the neighbour is the parent *)
    destruct (parent n) as [p|] eqn:Hp; [|discriminate]. apply Nat.eqb_eq in Hco. subst p.
    assert (leg = 0). { unfold neighbour_index in Hleg. rewrite Hp, Nat.eqb_refl in Hleg. congruence. } subst leg.
    cbn [fst snd]. unfold find_leg_values. cbn [ls_parent ls_children ls_open map all_some app].
    pose proof (map_neighbour_index_mid n [] (children n) [] ltac:(rewrite app_nil_r; reflexivity) Hnd) as Hm.
    rewrite Hm, all_some_map_Some. cbn [length Nat.add].
    assert (Hnp : nparents n = 1) by (unfold nparents; rewrite Hp; reflexivity).
    assert (Hnv : nvirt n = 1 + length (children n)) by (unfold nvirt; rewrite Hnp; reflexivity).
    split; [|split; [reflexivity|nlia]]. f_equal. unfold legs_without, nopen. cbn [seq app].
    rewrite Hnp, Nat.add_0_r, Hnv.
    replace (nlegs n - 1) with (length (children n) + (nlegs n - (1 + length (children n)))) by nlia.
    rewrite seq_app. reflexivity.
  - (* the neighbour is a child *)
    assert (Hpn : parent n <> Some nb).
    { destruct (parent n) as [p|]; [|discriminate]. apply Nat.eqb_neq in Hco. congruence. }
    rewrite (neighbour_index_child n nb Hpn) in Hleg.
    destruct (index_of nb (children n)) as [i|] eqn:Ei; [|discriminate]. injection Hleg as <-.
    pose proof (index_of_Some _ _ _ Ei) as [Hi Hnth].
    assert (Hin : In nb (children n)) by (rewrite <- Hnth; apply nth_In; exact Hi).
    destruct (in_split _ _ Hin) as (a & b & Hab).
    assert (Hnc : NoDup (children n)).
    { unfold neighbouring_nodes in Hnd. destruct (parent n); [inversion Hnd|]; assumption. }
    assert (Hna : ~ In nb a /\ ~ In nb b).
    { rewrite Hab in Hnc. apply NoDup_remove_2 in Hnc. split; intros H; apply Hnc; apply in_or_app; auto. }
    assert (Hia : i = length a).
    { rewrite Hab, index_of_app in Ei. destruct (index_of nb a) as [j|] eqn:Ej.
      - exfalso. apply (proj1 Hna). apply index_of_Some in Ej. destruct Ej as [E1 <-]. apply nth_In. exact E1.
      - cbn in Ei. rewrite Nat.eqb_refl in Ei. cbn in Ei. injection Ei as <-. nlia. }
    assert (Hrf : remove_first nb (children n) = a ++ b).
    { rewrite Hab. rewrite remove_first_app_r by apply Hna. cbn. rewrite Nat.eqb_refl. reflexivity. }
    cbn [fst snd]. unfold find_leg_values. cbn [ls_parent ls_children ls_open map all_some].
    rewrite Hrf, map_app.
    rewrite (map_neighbour_index_mid n [] a (nb :: b)) by (cbn [app]; assumption).
    rewrite (map_neighbour_index_mid n (a ++ [nb]) b []) by (try exact Hnd; rewrite app_nil_r, <- app_assoc; exact Hab).
    rewrite <- map_app, all_some_map_Some.
    rewrite (neighbour_index_child n nb Hpn), Ei. cbn [option_map all_some app length Nat.add].
    rewrite app_length. cbn [length].
    assert (Hnv : nvirt n = nparents n + (length a + 1 + length b)).
    { unfold nvirt. rewrite Hab, app_length. cbn [length]. nlia. }
    split; [|split; [destruct (parent n); reflexivity|nlia]]. f_equal.
    unfold legs_without, nopen. rewrite Hnv, <- Hia.
    replace (match parent n with Some _ => [0] | None => [] end) with (seq 0 (nparents n))
      by (unfold nparents; destruct (parent n); reflexivity).
    replace (nlegs n - S (nparents n + i)) with (length b + (nlegs n - (nparents n + (i + 1 + length b)))) by nlia.
    rewrite (seq_app (length b)), (seq_app (nparents n) i 0). rewrite <- !app_assoc. cbn [Nat.add].
    replace (nparents n + 0) with (nparents n) by lia.
    replace (nparents n + (i + 1)) with (S (nparents n + i)) by lia.
    repeat (f_equal; try lia).
Qed.

Theorem build_qr_leg_specs_partition n nb q r :
  node_wf n -> NoDup (neighbouring_nodes n) -> In nb (neighbouring_nodes n) ->
  build_qr_leg_specs n nb = (q, r) ->
  exists leg ql, neighbour_index n nb = Some leg /\
    find_leg_values n q = Some ql /\ find_leg_values n r = Some [leg] /\
    Permutation (ql ++ [leg]) (seq 0 (nlegs n)) /\ ql = legs_without leg (nlegs n).
Proof.
  intros [_ Hv] Hnd Hin E.
  assert (Hex : exists leg, neighbour_index n nb = Some leg).
  { unfold neighbour_index, neighbouring_nodes in *. destruct (parent n) as [p|].
    - destruct (Nat.eqb_spec nb p); [eauto|]. destruct Hin as [->|Hin]; [congruence|].
      apply index_of_In in Hin. destruct Hin as [i ->]. cbn. eauto.
    - apply index_of_In in Hin. exact Hin. }
  destruct Hex as [lg Hl]. destruct (build_qr_leg_specs_legs n nb lg Hv Hnd Hl) as (H1 & H2 & H3).
  rewrite E in H1, H2. cbn [fst snd] in H1, H2. exists lg, (legs_without lg (nlegs n)).
  repeat split; auto. apply legs_without_perm. lia.
Qed.
