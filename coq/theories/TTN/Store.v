(* Layer W: symbolic model of pytreenet/core/{graph_node,node,tree_structure,leg_specification,ttn}.py.
   A tensor is a *diagram*: an ordered list of axes, each carrying the wire it stands for, the
   atoms (opaque tensors) already contracted into it and the wires already summed over.
   A node carries parent / children / lazy leg permutation / recorded raw shape exactly as the
   Python Node does.  Definitions only (executable); proofs are in StoreProofs.v. *)
From Coq Require Import List Arith Bool.
Import ListNotations.

Definition id := nat.
Definition wire := nat.

(* ---- Python dict (insertion ordered) as association list --------------------------------- *)
Section Assoc.
  Context {V : Type}.
  Fixpoint aget (k : nat) (l : list (nat * V)) : option V :=
    match l with [] => None | (k', v) :: t => if Nat.eqb k k' then Some v else aget k t end.
  Fixpoint aset (k : nat) (v : V) (l : list (nat * V)) : list (nat * V) :=
    match l with
    | [] => [(k, v)]
    | (k', v') :: t => if Nat.eqb k k' then (k, v) :: t else (k', v') :: aset k v t
    end.
  Fixpoint adel (k : nat) (l : list (nat * V)) : list (nat * V) :=
    match l with [] => [] | (k', v) :: t => if Nat.eqb k k' then t else (k', v) :: adel k t end.
  Definition akeys (l : list (nat * V)) : list nat := map fst l.
  Definition amem (k : nat) (l : list (nat * V)) : bool :=
    match aget k l with Some _ => true | None => false end.
End Assoc.

(* ---- Python list surgery ---------------------------------------------------------------- *)
Section Lists.
  Context {A : Type}.
  (* l.pop(i) for 0 <= i < len l *)
  Fixpoint pop (i : nat) (l : list A) : option (A * list A) :=
    match l, i with
    | [], _ => None
    | x :: t, O => Some (x, t)
    | x :: t, S i' => match pop i' t with Some (y, t') => Some (y, x :: t') | None => None end
    end.
  (* l.insert(i, x): inserts before position i, at the end when i >= len l *)
  Fixpoint insert (i : nat) (x : A) (l : list A) : list A :=
    match i, l with
    | O, _ => x :: l
    | S i', [] => [x]
    | S i', y :: t => y :: insert i' x t
    end.
  (* l[i:i] = xs *)
  Fixpoint insert_list (i : nat) (xs : list A) (l : list A) : list A :=
    match i, l with
    | O, _ => xs ++ l
    | S i', [] => xs
    | S i', y :: t => y :: insert_list i' xs t
    end.
  Fixpoint pop_n (k : nat) (i : nat) (l : list A) : option (list A * list A) :=
    match k with
    | O => Some ([], l)
    | S k' => match pop i l with
              | Some (x, l') => match pop_n k' i l' with Some (xs, l'') => Some (x :: xs, l'') | None => None end
              | None => None
              end
    end.
  Definition move (i j : nat) (l : list A) : option (list A) :=
    match pop i l with Some (x, l') => Some (insert j x l') | None => None end.
End Lists.

Fixpoint index_of (x : nat) (l : list nat) : option nat :=
  match l with [] => None | y :: t => if Nat.eqb x y then Some 0 else option_map S (index_of x t) end.
Fixpoint remove_first (x : nat) (l : list nat) : list nat :=
  match l with [] => [] | y :: t => if Nat.eqb x y then t else y :: remove_first x t end.
Definition memb (x : nat) (l : list nat) : bool := existsb (Nat.eqb x) l.
Fixpoint replace_first (x y : nat) (l : list nat) : list nat :=
  match l with [] => [] | z :: t => if Nat.eqb x z then y :: t else z :: replace_first x y t end.
Definition permute {A} (d : A) (p : list nat) (l : list A) : list A := map (fun i => nth i l d) p.
Fixpoint nodupb (l : list nat) : bool :=
  match l with [] => true | x :: t => negb (memb x t) && nodupb t end.
Definition is_perm_of_seq (p : list nat) : bool :=
  nodupb p && forallb (fun i => Nat.ltb i (length p)) p.
Definition list_eqb (a b : list nat) : bool :=
  Nat.eqb (length a) (length b) && forallb (fun xy => Nat.eqb (fst xy) (snd xy)) (combine a b).
Definition prod_list (l : list nat) : nat := fold_right Nat.mul 1 l.

(* ---- symbolic arrays --------------------------------------------------------------------- *)
Record sarr := { axes : list wire; atoms : list nat; bnd : list wire }.

Definition s_transpose (p : list nat) (a : sarr) : sarr :=
  {| axes := permute 0 p (axes a); atoms := atoms a; bnd := bnd a |}.

(* np.tensordot(a, b, axes=(ia, ib)) for single axes; both ends must carry the same wire
   (the store invariant); result axes: remaining a then remaining b *)
Definition s_tensordot (a b : sarr) (ia ib : nat) : option sarr :=
  match pop ia (axes a), pop ib (axes b) with
  | Some (wa, ra), Some (wb, rb) =>
      if Nat.eqb wa wb then Some {| axes := ra ++ rb; atoms := atoms a ++ atoms b; bnd := wa :: bnd a ++ bnd b |}
      else None
  | _, _ => None
  end.

(* ---- nodes ---------------------------------------------------------------------------------- *)
Record node := { parent : option id; children : list id; perm : list nat; shape : list nat }.

Definition nparents (n : node) : nat := match parent n with Some _ => 1 | None => 0 end.
Definition nvirt (n : node) : nat := nparents n + length (children n).
Definition nlegs (n : node) : nat := length (perm n).
Definition nopen (n : node) : nat := nlegs n - nvirt n.
Definition is_root (n : node) : bool := match parent n with None => true | Some _ => false end.
Definition node_shape (n : node) : list nat := permute 0 (perm n) (shape n).   (* Node.shape *)
Definition new_node (shp : list nat) : node :=
  {| parent := None; children := []; perm := seq 0 (length shp); shape := shp |}.

Definition with_perm (n : node) (p : list nat) : node :=
  {| parent := parent n; children := children n; perm := p; shape := shape n |}.
Definition with_parent (n : node) (p : option id) : node :=
  {| parent := p; children := children n; perm := perm n; shape := shape n |}.
Definition with_children (n : node) (c : list id) : node :=
  {| parent := parent n; children := c; perm := perm n; shape := shape n |}.

Definition reset_permutation (n : node) : node :=
  {| parent := parent n; children := children n; perm := seq 0 (length (perm n)); shape := node_shape n |}.

Definition neighbour_index (n : node) (x : id) : option nat :=
  match parent n with
  | Some p => if Nat.eqb x p then Some 0 else option_map (fun i => i + 1) (index_of x (children n))
  | None => index_of x (children n)
  end.

Definition neighbouring_nodes (n : node) : list id :=
  match parent n with Some p => p :: children n | None => children n end.

Definition open_leg_ok (n : node) (leg : nat) : bool :=
  negb (Nat.eqb (nopen n) 0) && negb (Nat.ltb leg (nvirt n)) && Nat.ltb leg (nlegs n).

Definition open_leg_to_parent (n : node) (pid : id) (leg : nat) : option node :=
  if negb (is_root n) then None
  else if negb (open_leg_ok n leg) then None
  else match move leg 0 (perm n) with
       | Some p => Some {| parent := Some pid; children := children n; perm := p; shape := shape n |}
       | None => None
       end.

Definition open_leg_to_child (n : node) (cid : id) (leg : nat) : option node :=
  if negb (open_leg_ok n leg) then None
  else match move leg (nvirt n) (perm n) with
       | Some p => Some {| parent := parent n; children := children n ++ [cid]; perm := p; shape := shape n |}
       | None => None
       end.

(* open_legs_to_children: the leg *values* are looked up first, then moved one after another *)
Fixpoint olc_loop (orig : nat) (n : node) (l : list (id * nat * nat)) : option node :=
  match l with
  | [] => Some n
  | (cid, leg, val) :: t =>
      if Nat.ltb leg orig then None
      else olc_loop orig {| parent := parent n; children := children n ++ [cid];
                            perm := insert (nvirt n) val (remove_first val (perm n)); shape := shape n |} t
  end.
Definition open_legs_to_children (n : node) (d : list (id * nat)) : option node :=
  if forallb (fun cl => Nat.ltb (snd cl) (nlegs n)) d then
    olc_loop (nvirt n) n (map (fun cl => (fst cl, snd cl, nth (snd cl) (perm n) 0)) d)
  else None.

(* exchange_open_leg_ranges(range(s1, s1+l1), range(s2, s2+l2)) *)
Definition exchange_open_leg_ranges (n : node) (s1 l1 s2 l2 : nat) : option node :=
  let '(s1, l1, s2, l2) := if Nat.ltb s2 s1 then (s2, l2, s1, l1) else (s1, l1, s2, l2) in
  if Nat.ltb s2 (s1 + l1) then None
  else match pop_n l2 s2 (perm n) with
       | Some (v2, p1) =>
           match pop_n l1 s1 p1 with
           | Some (v1, p2) =>
               let p3 := insert_list s1 v2 p2 in
               let newpos := s1 + l2 + (s2 - (s1 + l1)) in
               Some (with_perm n (insert_list newpos v1 p3))
           | None => None
           end
       | None => None
       end.

(* Node.replace_tensor(tensor, permutation) *)
Definition node_replace_tensor (n : node) (tshape : list nat) (p : option (list nat)) : option node :=
  match p with
  | None => if list_eqb (node_shape n) tshape then Some (reset_permutation n) else None
  | Some q => if forallb (fun i => Nat.ltb i (length tshape)) q && list_eqb (permute 0 q tshape) (node_shape n)
              then Some {| parent := parent n; children := children n; perm := q; shape := tshape |}
              else None
  end.

(* GraphNode.replace_neighbour *)
Definition replace_neighbour (n : node) (old new : id) : option node :=
  match parent n with
  | Some p => if Nat.eqb p old then Some (with_parent n (Some new))
              else if memb old (children n) then Some (with_children n (replace_first old new (children n))) else None
  | None => if memb old (children n) then Some (with_children n (replace_first old new (children n))) else None
  end.

(* ---- the store -------------------------------------------------------------------------------- *)
Inductive mode := Reduced | Full | Keep.

(* a kernel call: Q_k . R_k over `kbond` equals `kinput` transposed to klegs *)
Record kdef := { kq : nat; kr : nat; kbond : wire; kinput : sarr; kkind : nat (* 0 qr 1 svd 2 replace 3 eye *) ; kmode : option mode }.

Record store := {
  nodes : list (id * node);
  tensors : list (id * sarr);
  root : option id;
  dims : list (wire * nat);
  next_wire : nat;
  next_atom : nat;
  defs : list kdef;
  atab : list (nat * list wire)      (* atom -> the wire on each of its axes *)
}.

Definition empty_store : store :=
  {| nodes := []; tensors := []; root := None; dims := []; next_wire := 0; next_atom := 0; defs := []; atab := [] |}.

Definition wdim (s : store) (w : wire) : nat := match aget w (dims s) with Some d => d | None => 0 end.

Definition upd_nodes (s : store) (f : list (id * node) -> list (id * node)) : store :=
  {| nodes := f (nodes s); tensors := tensors s; root := root s; dims := dims s;
     next_wire := next_wire s; next_atom := next_atom s; defs := defs s; atab := atab s |}.
Definition upd_tensors (s : store) (f : list (id * sarr) -> list (id * sarr)) : store :=
  {| nodes := nodes s; tensors := f (tensors s); root := root s; dims := dims s;
     next_wire := next_wire s; next_atom := next_atom s; defs := defs s; atab := atab s |}.
Definition set_root (s : store) (r : option id) : store :=
  {| nodes := nodes s; tensors := tensors s; root := r; dims := dims s;
     next_wire := next_wire s; next_atom := next_atom s; defs := defs s; atab := atab s |}.

(* fresh wires with the given dimensions *)
Fixpoint fresh_wires (s : store) (ds : list nat) : store * list wire :=
  match ds with
  | [] => (s, [])
  | d :: t =>
      let w := next_wire s in
      let s1 := {| nodes := nodes s; tensors := tensors s; root := root s; dims := dims s ++ [(w, d)];
                   next_wire := S w; next_atom := next_atom s; defs := defs s; atab := atab s |} in
      let '(s2, ws) := fresh_wires s1 t in (s2, w :: ws)
  end.
Definition fresh_atom (s : store) (ws : list wire) : store * nat :=
  ({| nodes := nodes s; tensors := tensors s; root := root s; dims := dims s;
      next_wire := next_wire s; next_atom := S (next_atom s); defs := defs s;
      atab := atab s ++ [(next_atom s, ws)] |}, next_atom s).
Definition upd_atab (s : store) (f : list (nat * list wire) -> list (nat * list wire)) : store :=
  {| nodes := nodes s; tensors := tensors s; root := root s; dims := dims s;
     next_wire := next_wire s; next_atom := next_atom s; defs := defs s; atab := f (atab s) |}.
Definition add_def (s : store) (d : kdef) : store :=
  {| nodes := nodes s; tensors := tensors s; root := root s; dims := dims s;
     next_wire := next_wire s; next_atom := next_atom s; defs := defs s ++ [d]; atab := atab s |}.

(* TensorDict.__getitem__: transpose by the node's permutation, store it, reset the permutation *)
Definition access (s : store) (n : id) : option (store * node * sarr) :=
  match aget n (nodes s), aget n (tensors s) with
  | Some nd, Some t =>
      let t' := s_transpose (perm nd) t in
      let nd' := reset_permutation nd in
      Some (upd_tensors (upd_nodes s (aset n nd')) (aset n t'), nd', t')
  | _, _ => None
  end.

(* logical view of a node's tensor (what ttn.tensors[n] would return), without side effect *)
Definition logical (s : store) (n : id) : option sarr :=
  match aget n (nodes s), aget n (tensors s) with
  | Some nd, Some t => Some (s_transpose (perm nd) t)
  | _, _ => None
  end.

(* ---- building ------------------------------------------------------------------------------------ *)
Definition add_root (s : store) (n : id) (shp : list nat) : option store :=
  match root s with
  | Some _ => None
  | None =>
      let '(s1, ws) := fresh_wires s shp in
      let '(s2, a) := fresh_atom s1 ws in
      Some (set_root (upd_tensors (upd_nodes s2 (aset n (new_node shp))) (aset n {| axes := ws; atoms := [a]; bnd := [] |})) (Some n))
  end.

Fixpoint set_nth {A} (i : nat) (x : A) (l : list A) : list A :=
  match l, i with [] , _ => [] | _ :: t, O => x :: t | y :: t, S i' => y :: set_nth i' x t end.

(* add_child_to_parent(child, tensor, child_leg, parent_id, parent_leg): the child's axis
   child_leg is identified with the wire of the parent's (logical) leg parent_leg *)
Definition add_child (s : store) (c : id) (shp : list nat) (cleg : nat) (p : id) (pleg : nat) : option store :=
  match aget p (nodes s), aget p (tensors s) with
  | Some pn, Some pt =>
      if amem c (nodes s) then None else
      if negb (Nat.ltb cleg (length shp)) then None else
      if negb (Nat.ltb pleg (nlegs pn)) then None else
      let pw := nth (nth pleg (perm pn) 0) (axes pt) 0 in
      if negb (Nat.eqb (nth cleg shp 0) (wdim s pw)) then None else
      match open_leg_to_parent (new_node shp) p cleg, open_leg_to_child pn c pleg with
      | Some cn, Some pn' =>
          let '(s1, ws) := fresh_wires s shp in   (* one wire too many is harmless: the cleg one is unused *)
          let ws' := set_nth cleg pw ws in
          let '(s2, a) := fresh_atom s1 ws' in
          Some (upd_tensors (upd_nodes s2 (fun l => aset p pn' (aset c cn l))) (aset c {| axes := ws'; atoms := [a]; bnd := [] |}))
      | _, _ => None
      end
  | _, _ => None
  end.

(* ---- tree-structure helpers ------------------------------------------------------------------------ *)
Definition determine_parentage (s : store) (a b : id) : option (id * id) :=
  match aget a (nodes s), aget b (nodes s) with
  | Some na, Some nb =>
      if (match parent nb with Some p => Nat.eqb p a | None => false end) then Some (a, b)
      else if (match parent na with Some p => Nat.eqb p b | None => false end) then Some (b, a)
      else None
  | _, _ => None
  end.

Definition set_parent_of (new : id) (l : list (id * node)) (c : id) : list (id * node) :=
  match aget c l with Some cn => aset c (with_parent cn (Some new)) l | None => l end.

(* TreeStructure.replace_node_in_neighbours(new, old, del_old_node) *)
Definition replace_node_in_neighbours (s : store) (new old : id) (del : bool) : option store :=
  if Nat.eqb new old then Some s else
  match aget old (nodes s) with
  | None => None
  | Some on =>
      let l1 := fold_left (fun l c => if Nat.eqb c new then l else set_parent_of new l c) (children on) (nodes s) in
      let r_l2 :=
        match parent on with
        | None => Some (Some new, l1)
        | Some p =>
            if Nat.eqb p new then Some (root s, l1)
            else match aget p l1 with
                 | Some pn => if memb old (children pn)
                              then Some (root s, aset p (with_children pn (replace_first old new (children pn))) l1)
                              else None
                 | None => None
                 end
        end in
      match r_l2 with
      | Some (r, l2) => Some (set_root (upd_nodes s (fun _ => if del then adel old l2 else l2)) r)
      | None => None
      end
  end.

(* ---- contract_nodes ----------------------------------------------------------------------------------- *)
Definition enum_from {A} (start : nat) (l : list A) : list (A * nat) :=
  combine l (seq start (length l)).

Definition create_contracted_node (new_shape : list nat) (pn cn : node) (cid : id) (first_is_parent : bool) : option node :=
  let n0 := new_node new_shape in
  let r1 := match parent pn with
            | Some pp => open_leg_to_parent n0 pp 0
            | None => Some n0
            end in
  match r1 with
  | None => None
  | Some n1 =>
      let pch := remove_first cid (children pn) in
      let pd := enum_from (nparents pn) pch in
      let cd := enum_from (nlegs pn - 1) (children cn) in
      let d := if first_is_parent then pd ++ cd else cd ++ pd in
      match open_legs_to_children n1 d with
      | None => None
      | Some n2 =>
          if first_is_parent then Some n2
          else let nv := nvirt n2 in
               exchange_open_leg_ranges n2 nv (nopen pn) (nv + nopen pn) (nlegs n2 - (nv + nopen pn))
      end
  end.

Definition contract_nodes (s : store) (a b new : id) : option store :=
  match determine_parentage s a b with
  | None => None
  | Some (p, c) =>
      (* _data_contraction *)
      match access s p with
      | None => None
      | Some (s1, pn, pt) =>
          match access s1 c with
          | None => None
          | Some (s2, cn, ct) =>
              match neighbour_index pn c with
              | None => None
              | Some ax =>
                  match s_tensordot pt ct ax 0 with
                  | None => None
                  | Some nt =>
                      let s3 := upd_tensors s2 (fun l => adel c (adel p l) ++ [(new, nt)]) in
                      let new_shape := map (wdim s) (axes nt) in
                      match create_contracted_node new_shape pn cn c (Nat.eqb p a) with
                      | None => None
                      | Some nn =>
                          match replace_node_in_neighbours s3 new p true with
                          | None => None
                          | Some s4 =>
                              match replace_node_in_neighbours s4 new c true with
                              | None => None
                              | Some s5 => Some (upd_nodes s5 (aset new nn))
                              end
                          end
                      end
                  end
              end
          end
      end
  end.

(* ---- split_nodes -------------------------------------------------------------------------------------- *)
Record legspec := { ls_parent : option id; ls_children : list id; ls_open : list nat; ls_root : bool }.

Fixpoint all_some {A} (l : list (option A)) : option (list A) :=
  match l with
  | [] => Some []
  | Some x :: t => option_map (cons x) (all_some t)
  | None :: _ => None
  end.

Definition find_leg_values (n : node) (ls : legspec) : option (list nat) :=
  match all_some (map (neighbour_index n) (ls_children ls)) with
  | Some cl => Some ((match ls_parent ls with Some _ => [0] | None => [] end) ++ cl ++ ls_open ls)
  | None => None
  end.
Definition find_all_neighbour_ids (ls : legspec) : list id :=
  (match ls_parent ls with Some p => [p] | None => [] end) ++ ls_children ls.

Definition qr_bond_dim (m : mode) (mrows ncols : nat) : nat :=
  match m with Reduced => Nat.min mrows ncols | Full => mrows | Keep => ncols end.

Definition replace_in_some_neighbours (l : list (id * node)) (new old : id) (ns : list id) : option (list (id * node)) :=
  fold_left (fun acc x => match acc with
                          | None => None
                          | Some l' => match aget x l' with
                                       | Some xn => match replace_neighbour xn old new with
                                                    | Some xn' => Some (aset x xn' l')
                                                    | None => None
                                                    end
                                       | None => None
                                       end
                          end) ns (Some l).

(* kind: 0 = QR with mode, 1 = SVD (no truncation), 2 = explicit replacement with given bond *)
Definition split_nodes (s : store) (n : id) (o i : legspec) (oid iid : id) (kind : nat) (m : mode) (rbond : nat) : option store :=
  match access s n with
  | None => None
  | Some (s1, nd, t) =>
      match find_leg_values nd o, find_leg_values nd i with
      | Some ol, Some il =>
          if negb (is_perm_of_seq (ol ++ il) && Nat.eqb (length (ol ++ il)) (length (axes t))) then None else
          if Nat.eqb oid iid then None else
          if (match kind, m, il with 0, Keep, [] => true | _, _, _ => false end) then None else
          let ow := permute 0 ol (axes t) in
          let iw := permute 0 il (axes t) in
          let mrows := prod_list (map (wdim s) ow) in
          let ncols := prod_list (map (wdim s) iw) in
          let bd := match kind with 0 => qr_bond_dim m mrows ncols | 1 => Nat.min mrows ncols | _ => rbond end in
          let '(s2, bw) := fresh_wires s1 [bd] in
          let b := hd 0 bw in
          let '(s3, qa) := fresh_atom s2 (ow ++ [b]) in
          let '(s4, ra) := fresh_atom s3 (b :: iw) in
          let s5 := add_def s4 {| kq := qa; kr := ra; kbond := b; kinput := s_transpose (ol ++ il) t; kkind := kind;
                                  kmode := match kind with 0 => Some m | _ => None end |} in
          let ot := {| axes := ow ++ [b]; atoms := [qa]; bnd := [] |} in
          let it := {| axes := b :: iw; atoms := [ra]; bnd := [] |} in
          let s6 := upd_tensors s5 (fun l => aset iid it (aset oid ot l)) in
          let on0 := new_node (map (wdim s5) (axes ot)) in
          let in0 := new_node (map (wdim s5) (axes it)) in
          (* _set_in_parent_leg_after_split *)
          let r_in1 := match ls_parent i with
                       | Some ip => open_leg_to_parent in0 ip 1
                       | None => if ls_root i then Some in0 else open_leg_to_parent in0 oid 0
                       end in
          (* _find_in_children *)
          let in_children :=
            (if ls_root i then [(oid, 0)] else match ls_parent i with Some _ => [(oid, 1)] | None => [] end)
            ++ enum_from (match ls_parent i with Some _ => if ls_root i then 1 else 2 | None => 1 end) (ls_children i) in
          (* asserts in _find_in_children / _find_out_children / _set_root_from_leg_specs *)
          if (ls_root i && match ls_parent o with Some _ => true | None => false end) then None else
          if (ls_root i && ls_root o) then None else
          if ((ls_root i || match ls_parent i with Some _ => true | None => false end)
              && match ls_parent o with Some _ => true | None => false end) then None else
          if (negb (ls_root i) && match ls_parent i with None => true | _ => false end
              && negb (ls_root o) && match ls_parent o with None => true | _ => false end) then None else
          match r_in1 with
          | None => None
          | Some in1 =>
              match open_legs_to_children in1 in_children with
              | None => None
              | Some in2 =>
                  (* _set_out_parent_leg_after_split *)
                  let r_out1 := match ls_parent o with
                                | Some op => open_leg_to_parent on0 op 0
                                | None => if ls_root o then Some on0 else open_leg_to_parent on0 iid (nlegs on0 - 1)
                                end in
                  match r_out1 with
                  | None => None
                  | Some on1 =>
                      let in_is_above := ls_root i || match ls_parent i with Some _ => true | None => false end in
                      let out_children :=
                        (if in_is_above then [] else [(iid, nlegs on1 - 1)])
                        ++ enum_from (if in_is_above then 1 else if ls_root o then 0 else 1) (ls_children o) in
                      match open_legs_to_children on1 out_children with
                      | None => None
                      | Some on2 =>
                          (* nodes[out] = out_node; nodes[in] = in_node; the open_leg_* calls above acted on those objects *)
                          let l0 := aset iid in2 (aset oid on2 (nodes s6)) in
                          match replace_in_some_neighbours l0 oid n (find_all_neighbour_ids o) with
                          | None => None
                          | Some l1 =>
                              match replace_in_some_neighbours l1 iid n (find_all_neighbour_ids i) with
                              | None => None
                              | Some l2 =>
                                  let r := if ls_root i then Some iid else if ls_root o then Some oid else root s6 in
                                  let keep := Nat.eqb n oid || Nat.eqb n iid in
                                  let s7 := set_root (upd_nodes s6 (fun _ => if keep then l2 else adel n l2)) r in
                                  Some (if keep then s7 else upd_tensors s7 (adel n))
                              end
                          end
                      end
                  end
              end
          end
      | _, _ => None
      end
  end.

(* ---- the remaining operations ------------------------------------------------------------------------------- *)
Definition insert_identity (s : store) (c p new : id) : option store :=
  match aget c (nodes s), aget p (nodes s), aget c (tensors s) with
  | Some cn, Some pn, Some ct =>
      if negb (match parent cn with Some q => Nat.eqb q p | None => false end) then None else
      if negb (memb c (children pn)) then None else
      if amem new (nodes s) then None else
      match replace_neighbour cn p new, replace_neighbour pn c new with
      | Some cn', Some pn' =>
          let cw := nth (nth 0 (perm cn) 0) (axes ct) 0 in       (* the child's parent wire *)
          let d := wdim s cw in
          let '(s1, ws) := fresh_wires s [d] in
          let w := hd 0 ws in
          let '(s2, a) := fresh_atom s1 [cw; w] in
          (* identity atom: axis 0 toward the parent keeps the old wire at the parent's end; the
             child's end gets the fresh wire.  eye has raw axes (0, 1) = (parent side, child side) *)
          match open_leg_to_parent (new_node [d; d]) p 0 with
          | Some n1 =>
              match open_leg_to_child n1 c 1 with
              | Some n2 =>
                  let ct' := {| axes := set_nth (nth 0 (perm cn) 0) w (axes ct); atoms := atoms ct; bnd := bnd ct |} in
                  let s3 := upd_nodes s2 (fun l => aset new n2 (aset p pn' (aset c cn' l))) in
                  let s4 := upd_tensors s3 (fun l => aset new {| axes := [cw; w]; atoms := [a]; bnd := [] |} (aset c ct' l)) in
                  (* the one atom of the child's tensor that carries cw is relabelled to w *)
                  let s4 := upd_atab s4 (map (fun aw => if memb (fst aw) (atoms ct) then (fst aw, map (fun x => if Nat.eqb x cw then w else x) (snd aw)) else aw)) in
                  Some (add_def s4 {| kq := a; kr := a; kbond := w; kinput := {| axes := [cw; w]; atoms := []; bnd := [] |}; kkind := 3; kmode := None |})
              | None => None
              end
          | None => None
          end
      | _, _ => None
      end
  | _, _, _ => None
  end.

(* change_node_identifier(new, old): tensors[new] = _tensors.pop(old) happens first, and
   MutableMapping.pop reads the item through TensorDict.__getitem__, i.e. performs an access *)
Definition rename (s : store) (new old : id) : option store :=
  match access s old with
  | Some (s0, nd, t) =>
      let s1 := upd_tensors s0 (fun l => adel old l ++ [(new, t)]) in
      if Nat.eqb old new then Some s1 else
      if amem new (nodes s) then None else
      match replace_node_in_neighbours s1 new old false with
      | Some s2 => Some (upd_nodes s2 (fun l => adel old l ++ [(new, nd)]))
      | None => None
      end
  | None => None
  end.

(* replace_tensor(n, new_tensor, permutation) where new_tensor = (current logical tensor).transpose(q) *)
Definition replace_tensor (s : store) (n : id) (q : list nat) (p : option (list nat)) : option store :=
  match aget n (nodes s), logical s n with
  | Some nd, Some lt =>
      if negb (is_perm_of_seq q && Nat.eqb (length q) (length (axes lt))) then None else
      let nt := s_transpose q lt in
      match node_replace_tensor nd (map (wdim s) (axes nt)) p with
      | Some nd' => Some (upd_tensors (upd_nodes s (aset n nd')) (aset n nt))
      | None => None
      end
  | _, _ => None
  end.

Inductive op :=
| AddRoot (n : id) (shp : list nat)
| AddChild (c : id) (shp : list nat) (cleg : nat) (p : id) (pleg : nat)
| Contract (a b new : id)
| Split (n : id) (o i : legspec) (oid iid : id) (kind : nat) (m : mode) (rbond : nat)
| InsertIdentity (c p new : id)
| Rename (new old : id)
| ReplaceTensor (n : id) (q : list nat) (p : option (list nat))
| Access (n : id).

Definition step (s : store) (o : op) : option store :=
  match o with
  | AddRoot n shp => add_root s n shp
  | AddChild c shp cleg p pleg => add_child s c shp cleg p pleg
  | Contract a b new => contract_nodes s a b new
  | Split n o i oid iid kind m rb => split_nodes s n o i oid iid kind m rb
  | InsertIdentity c p new => insert_identity s c p new
  | Rename new old => rename s new old
  | ReplaceTensor n q p => replace_tensor s n q p
  | Access n => option_map (fun r => fst (fst r)) (access s n)
  end.

(* run a sequence; a rejected operation leaves the store unchanged and is recorded *)
Fixpoint run (s : store) (ops : list op) : store * list bool :=
  match ops with
  | [] => (s, [])
  | o :: t => match step s o with
              | Some s' => let '(sf, oks) := run s' t in (sf, true :: oks)
              | None => let '(sf, oks) := run s t in (sf, false :: oks)
              end
  end.

(* ---- observation used by the correspondence --------------------------------------------------------------------- *)
Definition obs_node (s : store) (kn : id * node) :=
  let '(k, n) := kn in
  (k, match parent n with Some p => [p] | None => [] end, children n, perm n, shape n).
Definition obs_tensor (kt : id * sarr) := let '(k, t) := kt in (k, axes t, atoms t, bnd t).
Definition observe (s : store) :=
  (map (obs_node s) (nodes s), map obs_tensor (tensors s), match root s with Some r => [r] | None => [] end, dims s, atab s).

(* observations after every operation of a sequence (a rejected operation repeats the previous one) *)
Fixpoint run_obs (s : store) (ops : list op) :=
  match ops with
  | [] => []
  | o :: t => match step s o with
              | Some s' => (true, observe s') :: run_obs s' t
              | None => (false, observe s) :: run_obs s t
              end
  end.
