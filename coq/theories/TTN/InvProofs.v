(* Proofs about the store invariant (TTN/Inv.v): association-list library, reflection
   wfb <-> wf, derived facts, and preservation by a plain access. *)
From Coq Require Import List Arith Bool Lia Permutation.
From PTN Require Import TTN.Store TTN.StoreProofs TTN.Inv.
Import ListNotations.

(* ---- booleans <-> Props ---------------------------------------------------------------------- *)
Lemma memb_In x l : memb x l = true <-> In x l.
Proof.
  unfold memb. rewrite existsb_exists. split.
  - intros (y & Hy & E). apply Nat.eqb_eq in E. subst. exact Hy.
  - intros H. exists x. split; [exact H|apply Nat.eqb_refl].
Qed.

Lemma memb_false x l : memb x l = false <-> ~ In x l.
Proof. rewrite <- memb_In. destruct (memb x l); split; intros; congruence. Qed.

Lemma nodupb_NoDup l : nodupb l = true <-> NoDup l.
Proof.
  induction l as [|x t IH]; cbn.
  - split; [constructor|reflexivity].
  - rewrite andb_true_iff, negb_true_iff, memb_false, IH. split.
    + intros [H1 H2]. constructor; assumption.
    + intros H. inversion H; subst. split; assumption.
Qed.

Lemma list_eqb_eq a b : list_eqb a b = true <-> a = b.
Proof.
  unfold list_eqb. revert b. induction a as [|x a IH]; intros [|y b]; cbn; try (split; intros; congruence).
  split.
    + intros H. apply andb_true_iff in H as [H1 H2]. cbn in H2. apply andb_true_iff in H2 as [H2 H3].
      apply Nat.eqb_eq in H2. subst. f_equal. apply IH. apply andb_true_iff. split; assumption.
    + intros [= -> ->]. destruct (IH b) as [_ IH']. specialize (IH' eq_refl).
      apply andb_true_iff in IH' as [H1 H2]. rewrite H1, Nat.eqb_refl, H2. reflexivity.
Qed.

Lemma is_perm_of_seq_spec p : is_perm_of_seq p = true <-> Permutation p (seq 0 (length p)).
Proof.
  unfold is_perm_of_seq. rewrite andb_true_iff, nodupb_NoDup, forallb_forall. split.
  - intros [Hnd Hlt]. apply NoDup_Permutation_bis; [exact Hnd|rewrite seq_length; lia|].
    intros i Hi. apply in_seq. apply Hlt in Hi. apply Nat.ltb_lt in Hi. lia.
  - intros H. split.
    + apply (Permutation_NoDup (Permutation_sym H)). apply seq_NoDup.
    + intros i Hi. apply Nat.ltb_lt. apply (Permutation_in _ H) in Hi. apply in_seq in Hi. lia.
Qed.

Lemma NoDup_app_iff {A} (a b : list A) :
  NoDup (a ++ b) <-> NoDup a /\ NoDup b /\ (forall x, In x a -> ~ In x b).
Proof.
  induction a as [|x a IH]; cbn.
  - split; [intros H; repeat split; [constructor|exact H|intros ? []]|intros (_ & H & _); exact H].
  - split.
    + intros H. inversion H as [|? ? Hni Hnd]; subst. apply IH in Hnd. destruct Hnd as (Ha & Hb & Hd).
      repeat split; [constructor; [|exact Ha]|exact Hb|].
      * intros Hin. apply Hni. apply in_or_app. left. exact Hin.
      * intros y [->|Hy]; [|apply Hd; exact Hy]. intros Hin. apply Hni. apply in_or_app. right. exact Hin.
    + intros (Ha & Hb & Hd). inversion Ha as [|? ? Hni Hnd]; subst. constructor.
      * intros Hin. apply in_app_or in Hin. destruct Hin as [Hin|Hin]; [contradiction|].
        apply (Hd x); [left; reflexivity|exact Hin].
      * apply IH. repeat split; [exact Hnd|exact Hb|]. intros y Hy. apply Hd. right. exact Hy.
Qed.

(* ---- association lists ----------------------------------------------------------------------- *)
Section AssocLemmas.
  Context {V : Type}.
  Implicit Types (l : list (nat * V)) (k : nat) (v : V).

  Lemma aget_aset k k' v l : aget k (aset k' v l) = if Nat.eqb k k' then Some v else aget k l.
  Proof.
    destruct (Nat.eqb_spec k k') as [->|Hne].
    - apply aget_aset_same.
    - apply aget_aset_other. exact Hne.
  Qed.

  Lemma aget_app k l1 l2 : aget k (l1 ++ l2) = match aget k l1 with Some v => Some v | None => aget k l2 end.
  Proof.
    induction l1 as [|[k' v'] t IH]; cbn; [reflexivity|].
    destruct (Nat.eqb k k'); [reflexivity|exact IH].
  Qed.

  Lemma aget_In k v l : aget k l = Some v -> In (k, v) l.
  Proof.
    induction l as [|[k' v'] t IH]; cbn; [discriminate|].
    destruct (Nat.eqb_spec k k') as [->|Hne].
    - intros [= ->]. left. reflexivity.
    - intros H. right. apply IH. exact H.
  Qed.

  Lemma aget_None k l : aget k l = None <-> ~ In k (akeys l).
  Proof.
    induction l as [|[k' v'] t IH]; cbn.
    - split; auto.
    - destruct (Nat.eqb_spec k k') as [->|Hne].
      + split; [discriminate|]. intros H. exfalso. apply H. left. reflexivity.
      + rewrite IH. split; intros H; [intros [E|E]; [congruence|auto]|auto].
  Qed.

  Lemma aget_Some_keys k v l : aget k l = Some v -> In k (akeys l).
  Proof. intros H. apply aget_In in H. unfold akeys. change k with (fst (k, v)). apply in_map. exact H. Qed.

  Lemma keys_aget k l : In k (akeys l) -> exists v, aget k l = Some v.
  Proof.
    intros H. destruct (aget k l) as [v|] eqn:E; [eauto|]. apply aget_None in E. contradiction.
  Qed.

  Lemma amem_true k l : amem k l = true <-> In k (akeys l).
  Proof.
    unfold amem. split.
    - destruct (aget k l) eqn:E; [|discriminate]. intros _. eapply aget_Some_keys; eauto.
    - intros H. apply keys_aget in H. destruct H as [v ->]. reflexivity.
  Qed.

  Lemma amem_aget k l : amem k l = true <-> exists v, aget k l = Some v.
  Proof.
    unfold amem. destruct (aget k l); split; intros H; try discriminate; eauto. destruct H; discriminate.
  Qed.

  Lemma In_aget k v l : NoDup (akeys l) -> In (k, v) l -> aget k l = Some v.
  Proof.
    induction l as [|[k' v'] t IH]; cbn; [intros _ []|].
    intros Hnd Hin. inversion Hnd as [|? ? Hni Hnd']; subst.
    destruct Hin as [[= -> ->]|Hin].
    - rewrite Nat.eqb_refl. reflexivity.
    - destruct (Nat.eqb_spec k k') as [->|Hne].
      + exfalso. apply Hni. unfold akeys. change k' with (fst (k', v)). apply in_map. exact Hin.
      + apply IH; assumption.
  Qed.

  Lemma aget_adel_other k k' l : k <> k' -> aget k (adel k' l) = aget k l.
  Proof.
    intros Hne. induction l as [|[k2 v2] t IH]; cbn; [reflexivity|].
    destruct (Nat.eqb_spec k' k2) as [->|Hne2]; cbn.
    - destruct (Nat.eqb_spec k k2); [congruence|reflexivity].
    - destruct (Nat.eqb_spec k k2); [reflexivity|exact IH].
  Qed.

  Lemma aget_adel_same k l : NoDup (akeys l) -> aget k (adel k l) = None.
  Proof.
    induction l as [|[k2 v2] t IH]; cbn; [reflexivity|]. intros Hnd. inversion Hnd; subst.
    destruct (Nat.eqb_spec k k2) as [->|Hne]; cbn.
    - apply aget_None. assumption.
    - destruct (Nat.eqb_spec k k2); [congruence|]. apply IH. assumption.
  Qed.

  Lemma aget_adel k k' l : NoDup (akeys l) -> aget k (adel k' l) = if Nat.eqb k k' then None else aget k l.
  Proof.
    intros Hnd. destruct (Nat.eqb_spec k k') as [->|Hne].
    - apply aget_adel_same. exact Hnd.
    - apply aget_adel_other. exact Hne.
  Qed.

  Lemma akeys_adel_incl k l : incl (akeys (adel k l)) (akeys l).
  Proof.
    induction l as [|[k2 v2] t IH]; cbn; [apply incl_refl|].
    destruct (Nat.eqb k k2); cbn.
    - apply incl_tl, incl_refl.
    - intros x [->|Hx]; [left; reflexivity|right; apply IH; exact Hx].
  Qed.

  Lemma NoDup_akeys_adel k l : NoDup (akeys l) -> NoDup (akeys (adel k l)).
  Proof.
    induction l as [|[k2 v2] t IH]; cbn; [auto|]. intros Hnd. inversion Hnd; subst.
    destruct (Nat.eqb k k2); cbn; [assumption|]. constructor.
    - intros Hin. apply akeys_adel_incl in Hin. contradiction.
    - apply IH. assumption.
  Qed.

  Lemma akeys_aset k v l : akeys (aset k v l) = if amem k l then akeys l else akeys l ++ [k].
  Proof.
    unfold amem, akeys. induction l as [|[k2 v2] t IH]; cbn; [reflexivity|].
    destruct (Nat.eqb_spec k k2) as [->|Hne]; cbn; [reflexivity|].
    rewrite IH. destruct (aget k t); reflexivity.
  Qed.

  Lemma NoDup_akeys_aset k v l : NoDup (akeys l) -> NoDup (akeys (aset k v l)).
  Proof.
    intros Hnd. rewrite akeys_aset. destruct (amem k l) eqn:E; [exact Hnd|].
    apply Permutation_NoDup with (l := k :: akeys l); [apply Permutation_cons_append|].
    constructor; [|exact Hnd]. intros Hin. apply amem_true in Hin. congruence.
  Qed.

  Lemma akeys_app l1 l2 : akeys (l1 ++ l2) = akeys l1 ++ akeys l2.
  Proof. unfold akeys. apply map_app. Qed.

  Lemma NoDup_akeys_snoc k v l : NoDup (akeys l) -> aget k l = None -> NoDup (akeys (l ++ [(k, v)])).
  Proof.
    intros Hnd Hn. rewrite akeys_app. cbn.
    apply Permutation_NoDup with (l := k :: akeys l); [apply Permutation_cons_append|].
    constructor; [|exact Hnd]. apply aget_None. exact Hn.
  Qed.

  Lemma length_aset_mem k v l : amem k l = true -> length (aset k v l) = length l.
  Proof.
    intros H. assert (E : length (akeys (aset k v l)) = length (akeys l)) by (rewrite akeys_aset, H; reflexivity).
    unfold akeys in E. rewrite !map_length in E. exact E.
  Qed.

  (* forallb over an association list with distinct keys is a statement about aget *)
  Lemma forallb_assoc (f : nat * V -> bool) l : NoDup (akeys l) ->
    (forallb f l = true <-> forall k v, aget k l = Some v -> f (k, v) = true).
  Proof.
    intros Hnd. rewrite forallb_forall. split.
    - intros H k v E. apply H. apply aget_In. exact E.
    - intros H [k v] Hin. apply H. apply In_aget; assumption.
  Qed.

  (* NoDup of a flat_map over an association list with distinct keys, pointwise *)
  Lemma NoDup_flat_map_assoc {W} (f : nat * V -> list W) l : NoDup (akeys l) ->
    (NoDup (flat_map f l) <->
     (forall k v, aget k l = Some v -> NoDup (f (k, v))) /\
     (forall k1 v1 k2 v2 w, aget k1 l = Some v1 -> aget k2 l = Some v2 -> In w (f (k1, v1)) -> In w (f (k2, v2)) -> k1 = k2)).
  Proof.
    induction l as [|[k0 v0] t IH]; intros Hnd.
    - cbn. split; [intros _; split; intros; discriminate|intros _; constructor].
    - inversion Hnd as [|? ? Hni Hnd']; subst. specialize (IH Hnd').
      cbn [flat_map]. split.
      + intros H. apply NoDup_app_iff in H. destruct H as (H0 & Ht & Hdisj).
        apply IH in Ht. destruct Ht as [Ht1 Ht2].
        split.
        * intros k v. cbn. destruct (Nat.eqb_spec k k0) as [->|Hne]; [intros [= <-]; exact H0|apply Ht1].
        * intros k1 v1 k2 v2 w. cbn.
          destruct (Nat.eqb_spec k1 k0) as [->|Hne1]; destruct (Nat.eqb_spec k2 k0) as [->|Hne2]; auto.
          -- intros [= <-] E2 Hw1 Hw2. exfalso. apply (Hdisj w Hw1). apply in_flat_map.
             exists (k2, v2). split; [apply aget_In; exact E2|exact Hw2].
          -- intros E1 [= <-] Hw1 Hw2. exfalso. apply (Hdisj w Hw2). apply in_flat_map.
             exists (k1, v1). split; [apply aget_In; exact E1|exact Hw1].
          -- apply Ht2.
      + intros [H1 H2].
        assert (Hk0 : aget k0 ((k0, v0) :: t) = Some v0) by (cbn; rewrite Nat.eqb_refl; reflexivity).
        assert (Hother : forall k v, aget k t = Some v -> aget k ((k0, v0) :: t) = Some v).
        { intros k v E. cbn. destruct (Nat.eqb_spec k k0) as [->|]; [|exact E].
          exfalso. apply Hni. eapply aget_Some_keys; eauto. }
        assert (Hsub : NoDup (flat_map f t)).
        { apply IH. split.
          - intros k v E. apply H1. apply Hother. exact E.
          - intros k1 v1 k2 v2 w E1 E2. apply H2; apply Hother; assumption. }
        specialize (H1 k0 v0 Hk0).
        assert (Hdisj : forall w, In w (f (k0, v0)) -> ~ In w (flat_map f t)).
        { intros w Hw Hw2. apply in_flat_map in Hw2. destruct Hw2 as ([k2 v2] & Hin & Hw2).
          assert (E2 : aget k2 t = Some v2) by (apply In_aget; assumption).
          assert (k0 = k2) by (eapply (H2 k0 v0 k2 v2 w); eauto). subst.
          apply Hni. eapply aget_Some_keys; eauto. }
        apply NoDup_app_iff. repeat split; assumption.
  Qed.
End AssocLemmas.

(* ---- acyclicity: the fuelled climb against a rank function ------------------------------------ *)
Fixpoint anc (l : list (id * node)) (f : nat) (k : id) : list id :=
  match f with
  | O => []
  | S f' => match aget k l with
            | None => []
            | Some n => k :: match parent n with None => [] | Some p => anc l f' p end
            end
  end.

Definition ranked (l : list (id * node)) (d : id -> nat) : Prop :=
  forall c cn p, aget c l = Some cn -> parent cn = Some p -> d p < d c.
Definition parents_closed (l : list (id * node)) : Prop :=
  forall c cn p, aget c l = Some cn -> parent cn = Some p -> In p (akeys l).

Lemma anc_incl l f k : incl (anc l f k) (akeys l).
Proof.
  revert k. induction f as [|f IH]; intros k; cbn; [intros ? []|].
  destruct (aget k l) as [n|] eqn:E; [|intros ? []].
  intros x [<-|Hx]; [eapply aget_Some_keys; eauto|].
  destruct (parent n); [eapply IH; eauto|destruct Hx].
Qed.

Lemma anc_ranked l d f k : ranked l d -> (forall x, In x (anc l f k) -> d x <= d k) /\ NoDup (anc l f k).
Proof.
  intros Hr. revert k. induction f as [|f IH]; intros k; cbn; [split; [intros ? []|constructor]|].
  destruct (aget k l) as [n|] eqn:E; [|split; [intros ? []|constructor]].
  destruct (parent n) as [p|] eqn:Ep.
  - destruct (IH p) as [H1 H2]. pose proof (Hr k n p E Ep) as Hlt. split.
    + intros x [<-|Hx]; [lia|]. apply H1 in Hx. lia.
    + constructor; [|exact H2]. intros Hin. apply H1 in Hin. lia.
  - split; [intros x [<-|[]]; lia|]. constructor; [intros []|constructor].
Qed.

Lemma anc_length_le l d f k : ranked l d -> length (anc l f k) <= length l.
Proof.
  intros Hr. replace (length l) with (length (akeys l)) by (unfold akeys; apply map_length).
  apply NoDup_incl_length; [apply (anc_ranked l d f k Hr)|apply anc_incl].
Qed.

Lemma anc_full l f k : parents_closed l -> In k (akeys l) -> climbs l f k = false -> length (anc l (S f) k) = S f.
Proof.
  intros Hc. revert k. induction f as [|f IH]; intros k Hk Hf.
  - cbn. apply keys_aget in Hk. destruct Hk as [n ->]. destruct (parent n); reflexivity.
  - cbn in Hf. change (anc l (S (S f)) k) with
      (match aget k l with None => [] | Some n => k :: match parent n with None => [] | Some p => anc l (S f) p end end).
    destruct (aget k l) as [n|] eqn:E; [|apply aget_None in E; contradiction].
    destruct (parent n) as [p|] eqn:Ep; [|discriminate]. cbn [length]. f_equal. apply IH; [|exact Hf].
    eapply Hc; eauto.
Qed.

Lemma ranked_climbs l d k : ranked l d -> parents_closed l -> In k (akeys l) -> climbs l (length l) k = true.
Proof.
  intros Hr Hc Hk. destruct (climbs l (length l) k) eqn:E; [reflexivity|].
  pose proof (anc_full l _ k Hc Hk E) as H1. pose proof (anc_length_le l d (S (length l)) k Hr) as H2. lia.
Qed.

Lemma climbs_anc_stable l f k : climbs l f k = true -> forall f', f <= f' -> anc l f' k = anc l f k.
Proof.
  revert k. induction f as [|f IH]; intros k H f' Hle; [discriminate|].
  destruct f' as [|f']; [lia|]. cbn in *. destruct (aget k l) as [n|]; [|reflexivity].
  destruct (parent n) as [p|]; [|reflexivity]. f_equal. apply IH; [exact H|lia].
Qed.

Lemma climbs_ranked l :
  (forall k, In k (akeys l) -> climbs l (length l) k = true) ->
  ranked l (fun k => length (anc l (length l) k)).
Proof.
  intros H c cn p Ec Ep. pose proof (H c (aget_Some_keys _ _ _ Ec)) as Hc.
  destruct (length l) as [|f] eqn:El; [discriminate|].
  cbn in Hc. rewrite Ec, Ep in Hc.
  change (anc l (S f) c) with
    (match aget c l with None => [] | Some n => c :: match parent n with None => [] | Some p => anc l f p end end).
  rewrite Ec, Ep. cbn [length]. rewrite (climbs_anc_stable l f p Hc (S f)) by lia. lia.
Qed.

(* ---- reflection: wfb s = true <-> wf s ---------------------------------------------------------- *)
Lemma child_ok_spec s k c :
  child_ok s k c = true <-> exists cn, aget c (nodes s) = Some cn /\ parent cn = Some k.
Proof.
  unfold child_ok. destruct (aget c (nodes s)) as [cn|].
  - destruct (parent cn) as [q|] eqn:Ep.
    + rewrite Nat.eqb_eq. split; [intros ->; eauto|]. intros (cn' & [= <-] & E). congruence.
    + split; [discriminate|]. intros (cn' & [= <-] & E). congruence.
  - split; [discriminate|intros (cn' & ? & _); discriminate].
Qed.

Lemma parent_ok_spec s k n :
  parent_ok s k n = true <->
  forall p, parent n = Some p ->
    exists pn i, aget p (nodes s) = Some pn /\ In k (children pn) /\ neighbour_index pn k = Some i
                 /\ nth 0 (lax s k n) 0 = nth i (lax s p pn) 0.
Proof.
  unfold parent_ok. destruct (parent n) as [p|]; [|split; [intros _ ? ?; discriminate|reflexivity]].
  split.
  - intros H p' [= <-]. destruct (aget p (nodes s)) as [pn|]; [|discriminate].
    apply andb_true_iff in H as [H1 H2]. apply memb_In in H1.
    destruct (neighbour_index pn k) as [i|] eqn:Ei; [|discriminate]. apply Nat.eqb_eq in H2.
    exists pn, i. repeat split; auto.
  - intros H. destruct (H p eq_refl) as (pn & i & -> & H1 & -> & H2).
    apply andb_true_iff. split; [apply memb_In; exact H1|apply Nat.eqb_eq; exact H2].
Qed.

Lemma node_ok_spec s k n : node_ok s (k, n) = true <-> node_inv s k n.
Proof.
  unfold node_ok. cbn [fst snd]. rewrite !andb_true_iff. split.
  - intros [[[[[[[H1 H2] H3] H4] H5] H6] H7] H8].
    apply is_perm_of_seq_spec in H2. apply Nat.eqb_eq in H3. apply list_eqb_eq in H4.
    apply Nat.leb_le in H5. apply nodupb_NoDup in H6. rewrite forallb_forall in H7.
    constructor; auto.
    + rewrite <- H3. exact H2.
    + intros c Hc. apply child_ok_spec. apply H7. exact Hc.
    + apply parent_ok_spec. exact H8.
  - intros [H1 H2 H3 H4 H5 H6 H7].
    assert (El : length (perm n) = length (shape n)).
    { apply Permutation_length in H2. rewrite seq_length in H2. exact H2. }
    repeat split; auto.
    + apply is_perm_of_seq_spec. rewrite El. exact H2.
    + apply Nat.eqb_eq. exact El.
    + apply list_eqb_eq. exact H3.
    + apply Nat.leb_le. exact H4.
    + apply nodupb_NoDup. exact H5.
    + apply forallb_forall. intros c Hc. apply child_ok_spec. apply H6. exact Hc.
    + apply parent_ok_spec. exact H7.
Qed.

Lemma is_root_spec n : is_root n = true <-> parent n = None.
Proof. unfold is_root. destruct (parent n); split; congruence. Qed.

Lemma root_ok_spec s : NoDup (akeys (nodes s)) ->
  (root_ok s = true <->
   exists r rn, root s = Some r /\ aget r (nodes s) = Some rn /\ parent rn = None
                /\ forall k n, aget k (nodes s) = Some n -> parent n = None -> k = r).
Proof.
  intros Hnd. unfold root_ok. destruct (root s) as [r|]; [|split; [discriminate|intros (? & ? & ? & _); discriminate]].
  destruct (aget r (nodes s)) as [rn|] eqn:Er.
  - rewrite andb_true_iff, is_root_spec, (forallb_assoc _ _ Hnd). split.
    + intros [H1 H2]. exists r, rn. repeat split; auto. intros k n E Hp. specialize (H2 k n E). cbn in H2.
      apply is_root_spec in Hp. rewrite Hp in H2. apply Nat.eqb_eq. exact H2.
    + intros (r' & rn' & [= <-] & E & Hp & H). rewrite Er in E. injection E as <-. split; [exact Hp|].
      intros k n E. cbn. destruct (is_root n) eqn:Hr; [|reflexivity]. apply Nat.eqb_eq. apply (H k n E).
      apply is_root_spec. exact Hr.
  - split; [discriminate|]. intros (r' & rn' & [= <-] & E & _). rewrite Er in E. discriminate.
Qed.

Lemma wf_parents_closed s : (forall k n, aget k (nodes s) = Some n -> node_inv s k n) -> parents_closed (nodes s).
Proof.
  intros H c cn p Ec Ep. destruct (ni_par _ _ _ (H c cn Ec) p Ep) as (pn & i & E & _).
  eapply aget_Some_keys; eauto.
Qed.

Theorem wfb_wf s : wfb s = true -> wf s.
Proof.
  unfold wfb. rewrite !andb_true_iff. intros [[[[[[[[H1 H2] H3] H4] H5] H6] H7] H8] H9].
  apply nodupb_NoDup in H1. apply nodupb_NoDup in H2.
  rewrite (forallb_assoc _ _ H2) in H3. apply (root_ok_spec s H1) in H4.
  rewrite (forallb_assoc _ _ H1) in H5. apply nodupb_NoDup in H6.
  unfold own_wires in H6. apply (NoDup_flat_map_assoc _ _ H1) in H6. destruct H6 as [H6a H6b].
  rewrite (forallb_assoc _ _ H2) in H7. rewrite forallb_forall in H8.
  rewrite (forallb_assoc _ _ H1) in H9.
  constructor.
  - exact H1.
  - exact H2.
  - intros k Hk. apply amem_aget in Hk. destruct Hk as [t Ht]. apply (H3 k t Ht).
  - exact H4.
  - intros k n E. apply node_ok_spec. apply H5. exact E.
  - intros k n E. apply (H6a k n E).
  - intros k1 n1 k2 n2 w E1 E2. apply (H6b k1 n1 k2 n2 w E1 E2).
  - intros k t w E Hw. specialize (H7 k t E). cbn in H7. rewrite forallb_forall in H7.
    apply Nat.ltb_lt. apply H7. exact Hw.
  - intros w Hw. unfold akeys in Hw. apply in_map_iff in Hw. destruct Hw as (wd & <- & Hin).
    apply Nat.ltb_lt. apply H8. exact Hin.
  - exists (fun k => length (anc (nodes s) (length (nodes s)) k)). apply climbs_ranked.
    intros k Hk. apply keys_aget in Hk. destruct Hk as [n E]. apply (H9 k n E).
Qed.

Theorem wf_wfb s : wf s -> wfb s = true.
Proof.
  intros [H1 H2 H3 H4 H5 H6a H6b H7 H8 H9]. unfold wfb. rewrite !andb_true_iff.
  repeat split.
  - apply nodupb_NoDup. exact H1.
  - apply nodupb_NoDup. exact H2.
  - apply (forallb_assoc _ _ H2). intros k t E. cbn. apply H3. apply amem_aget. eauto.
  - apply (root_ok_spec s H1). exact H4.
  - apply (forallb_assoc _ _ H1). intros k n E. apply node_ok_spec. apply H5. exact E.
  - apply nodupb_NoDup. unfold own_wires. apply (NoDup_flat_map_assoc _ _ H1). split.
    + intros k n E. apply (H6a k n E).
    + intros k1 n1 k2 n2 w E1 E2. apply (H6b k1 n1 k2 n2 w E1 E2).
  - apply (forallb_assoc _ _ H2). intros k t E. cbn. apply forallb_forall. intros w Hw.
    apply Nat.ltb_lt. eapply H7; eauto.
  - apply forallb_forall. intros wd Hin. apply Nat.ltb_lt. apply H8. unfold akeys. apply in_map. exact Hin.
  - apply (forallb_assoc _ _ H1). intros k n E. cbn. destruct H9 as [d Hd].
    apply (ranked_climbs _ d); [exact Hd|apply wf_parents_closed; exact H5|eapply aget_Some_keys; eauto].
Qed.

Theorem wfb_iff s : wfb s = true <-> wf s.
Proof. split; [apply wfb_wf|apply wf_wfb]. Qed.
