(* Proofs about the store invariant (TTN/Inv.v): association-list library, reflection
   wfb <-> wf, derived facts, and preservation by a plain access. *)
From Coq Require Import List Arith Bool Lia Permutation.
From PTN Require Import TTN.Store TTN.StoreProofs TTN.Inv.
Import ListNotations.

(* ---- booleans <-> Props ---------------------------------------------------------------------- *)
Lemma memb_In x l : memb x l = true <-> In x l.
Proof.
  unfold memb. rewrite existsb_exists. split.
  - intros (y & Hy & E). apply Nat.eqb_eq in E. subst. exact Hy.
  - intros H. exists x. split; [exact H|apply Nat.eqb_refl].
Qed.

Lemma memb_false x l : memb x l = false <-> ~ In x l.
Proof. rewrite <- memb_In. destruct (memb x l); split; intros; congruence. Qed.

Lemma nodupb_NoDup l : nodupb l = true <-> NoDup l.
Proof.
  induction l as [|x t IH]; cbn.
  - split; [constructor|reflexivity].
  - rewrite andb_true_iff, negb_true_iff, memb_false, IH. split.
    + intros [H1 H2]. constructor; assumption.
    + intros H. inversion H; subst. split; assumption.
Qed.

Lemma list_eqb_eq a b : list_eqb a b = true <-> a = b.
Proof.
  unfold list_eqb. revert b. induction a as [|x a IH]; intros [|y b]; cbn; try (split; intros; congruence).
  - split; reflexivity.
  - split.
    + intros H. apply andb_true_iff in H as [H1 H2]. cbn in H2. apply andb_true_iff in H2 as [H2 H3].
      apply Nat.eqb_eq in H2. subst. f_equal. apply IH. apply andb_true_iff. split; assumption.
    + intros [= -> ->]. destruct (IH b) as [_ IH']. specialize (IH' eq_refl).
      apply andb_true_iff in IH' as [H1 H2]. cbn. rewrite Nat.eqb_refl. cbn. rewrite H1, H2. reflexivity.
Qed.

Lemma is_perm_of_seq_spec p : is_perm_of_seq p = true <-> Permutation p (seq 0 (length p)).
Proof.
  unfold is_perm_of_seq. rewrite andb_true_iff, nodupb_NoDup, forallb_forall. split.
  - intros [Hnd Hlt]. apply NoDup_Permutation_bis; [exact Hnd|rewrite seq_length; lia|].
    intros i Hi. apply in_seq. apply Hlt in Hi. apply Nat.ltb_lt in Hi. lia.
  - intros H. split.
    + apply (Permutation_NoDup (Permutation_sym H)). apply seq_NoDup.
    + intros i Hi. apply Nat.ltb_lt. apply (Permutation_in _ H) in Hi. apply in_seq in Hi. lia.
Qed.

(* ---- association lists ----------------------------------------------------------------------- *)
Section AssocLemmas.
  Context {V : Type}.
  Implicit Types (l : list (nat * V)) (k : nat) (v : V).

  Lemma aget_aset k k' v l : aget k (aset k' v l) = if Nat.eqb k k' then Some v else aget k l.
  Proof.
    destruct (Nat.eqb_spec k k') as [->|Hne].
    - apply aget_aset_same.
    - apply aget_aset_other. exact Hne.
  Qed.

  Lemma aget_app k l1 l2 : aget k (l1 ++ l2) = match aget k l1 with Some v => Some v | None => aget k l2 end.
  Proof.
    induction l1 as [|[k' v'] t IH]; cbn; [reflexivity|].
    destruct (Nat.eqb k k'); [reflexivity|exact IH].
  Qed.

  Lemma aget_In k v l : aget k l = Some v -> In (k, v) l.
  Proof.
    induction l as [|[k' v'] t IH]; cbn; [discriminate|].
    destruct (Nat.eqb_spec k k') as [->|Hne].
    - intros [= ->]. left. reflexivity.
    - intros H. right. apply IH. exact H.
  Qed.

  Lemma aget_None k l : aget k l = None <-> ~ In k (akeys l).
  Proof.
    induction l as [|[k' v'] t IH]; cbn.
    - split; auto.
    - destruct (Nat.eqb_spec k k') as [->|Hne].
      + split; [discriminate|]. intros H. exfalso. apply H. left. reflexivity.
      + rewrite IH. split; intros H; [intros [E|E]; [congruence|auto]|auto].
  Qed.

  Lemma aget_Some_keys k v l : aget k l = Some v -> In k (akeys l).
  Proof. intros H. apply aget_In in H. unfold akeys. change k with (fst (k, v)). apply in_map. exact H. Qed.

  Lemma keys_aget k l : In k (akeys l) -> exists v, aget k l = Some v.
  Proof.
    intros H. destruct (aget k l) as [v|] eqn:E; [eauto|]. apply aget_None in E. contradiction.
  Qed.

  Lemma amem_true k l : amem k l = true <-> In k (akeys l).
  Proof.
    unfold amem. split.
    - destruct (aget k l) eqn:E; [|discriminate]. intros _. eapply aget_Some_keys; eauto.
    - intros H. apply keys_aget in H. destruct H as [v ->]. reflexivity.
  Qed.

  Lemma amem_aget k l : amem k l = true <-> exists v, aget k l = Some v.
  Proof.
    unfold amem. destruct (aget k l); split; intros H; try discriminate; eauto. destruct H; discriminate.
  Qed.

  Lemma In_aget k v l : NoDup (akeys l) -> In (k, v) l -> aget k l = Some v.
  Proof.
    induction l as [|[k' v'] t IH]; cbn; [intros _ []|].
    intros Hnd Hin. inversion Hnd as [|? ? Hni Hnd']; subst.
    destruct Hin as [[= -> ->]|Hin].
    - rewrite Nat.eqb_refl. reflexivity.
    - destruct (Nat.eqb_spec k k') as [->|Hne].
      + exfalso. apply Hni. unfold akeys. change k' with (fst (k', v)). apply in_map. exact Hin.
      + apply IH; assumption.
  Qed.

  Lemma aget_adel_other k k' l : k <> k' -> aget k (adel k' l) = aget k l.
  Proof.
    intros Hne. induction l as [|[k2 v2] t IH]; cbn; [reflexivity|].
    destruct (Nat.eqb_spec k' k2) as [->|Hne2]; cbn.
    - destruct (Nat.eqb_spec k k2); [congruence|reflexivity].
    - destruct (Nat.eqb_spec k k2); [reflexivity|exact IH].
  Qed.

  Lemma aget_adel_same k l : NoDup (akeys l) -> aget k (adel k l) = None.
  Proof.
    induction l as [|[k2 v2] t IH]; cbn; [reflexivity|]. intros Hnd. inversion Hnd; subst.
    destruct (Nat.eqb_spec k k2) as [->|Hne]; cbn.
    - apply aget_None. assumption.
    - destruct (Nat.eqb_spec k k2); [congruence|]. apply IH. assumption.
  Qed.

  Lemma aget_adel k k' l : NoDup (akeys l) -> aget k (adel k' l) = if Nat.eqb k k' then None else aget k l.
  Proof.
    intros Hnd. destruct (Nat.eqb_spec k k') as [->|Hne].
    - apply aget_adel_same. exact Hnd.
    - apply aget_adel_other. exact Hne.
  Qed.

  Lemma akeys_adel_incl k l : incl (akeys (adel k l)) (akeys l).
  Proof.
    induction l as [|[k2 v2] t IH]; cbn; [apply incl_refl|].
    destruct (Nat.eqb k k2); cbn.
    - apply incl_tl, incl_refl.
    - intros x [->|Hx]; [left; reflexivity|right; apply IH; exact Hx].
  Qed.

  Lemma NoDup_akeys_adel k l : NoDup (akeys l) -> NoDup (akeys (adel k l)).
  Proof.
    induction l as [|[k2 v2] t IH]; cbn; [auto|]. intros Hnd. inversion Hnd; subst.
    destruct (Nat.eqb k k2); cbn; [assumption|]. constructor.
    - intros Hin. apply akeys_adel_incl in Hin. contradiction.
    - apply IH. assumption.
  Qed.

  Lemma akeys_aset k v l : akeys (aset k v l) = if amem k l then akeys l else akeys l ++ [k].
  Proof.
    unfold amem. induction l as [|[k2 v2] t IH]; cbn; [reflexivity|].
    destruct (Nat.eqb_spec k k2) as [->|Hne]; cbn; [reflexivity|].
    rewrite IH. destruct (aget k t); reflexivity.
  Qed.

  Lemma NoDup_akeys_aset k v l : NoDup (akeys l) -> NoDup (akeys (aset k v l)).
  Proof.
    intros Hnd. rewrite akeys_aset. destruct (amem k l) eqn:E; [exact Hnd|].
    apply NoDup_Add with (a := k) (l := akeys l); [|constructor; [|exact Hnd]].
    - apply Add_app with (l2 := []).
    - intros Hin. apply amem_true in Hin. congruence.
  Qed.

  Lemma akeys_app l1 l2 : akeys (l1 ++ l2) = akeys l1 ++ akeys l2.
  Proof. unfold akeys. apply map_app. Qed.

  Lemma NoDup_akeys_snoc k v l : NoDup (akeys l) -> aget k l = None -> NoDup (akeys (l ++ [(k, v)])).
  Proof.
    intros Hnd Hn. rewrite akeys_app. cbn. apply NoDup_Add with (a := k) (l := akeys l).
    - apply Add_app with (l2 := []).
    - constructor; [|exact Hnd]. apply aget_None. exact Hn.
  Qed.

  Lemma length_aset_mem k v l : amem k l = true -> length (aset k v l) = length l.
  Proof.
    intros H. assert (E : length (akeys (aset k v l)) = length (akeys l)) by (rewrite akeys_aset, H; reflexivity).
    unfold akeys in E. rewrite !map_length in E. exact E.
  Qed.

  (* forallb over an association list with distinct keys is a statement about aget *)
  Lemma forallb_assoc (f : nat * V -> bool) l : NoDup (akeys l) ->
    (forallb f l = true <-> forall k v, aget k l = Some v -> f (k, v) = true).
  Proof.
    intros Hnd. rewrite forallb_forall. split.
    - intros H k v E. apply H. apply aget_In. exact E.
    - intros H [k v] Hin. apply H. apply In_aget; assumption.
  Qed.

  (* NoDup of a flat_map over an association list with distinct keys, pointwise *)
  Lemma NoDup_flat_map_assoc {W} (f : nat * V -> list W) l : NoDup (akeys l) ->
    (NoDup (flat_map f l) <->
     (forall k v, aget k l = Some v -> NoDup (f (k, v))) /\
     (forall k1 v1 k2 v2 w, aget k1 l = Some v1 -> aget k2 l = Some v2 -> In w (f (k1, v1)) -> In w (f (k2, v2)) -> k1 = k2)).
  Proof.
    induction l as [|[k0 v0] t IH]; intros Hnd.
    - cbn. split; [intros _; split; intros; discriminate|intros _; constructor].
    - inversion Hnd as [|? ? Hni Hnd']; subst. specialize (IH Hnd').
      cbn [flat_map]. split.
      + intros H. apply NoDup_app_remove_l in H as Ht. pose proof H as H0.
        apply NoDup_app_remove_r in H0. apply IH in Ht. destruct Ht as [Ht1 Ht2].
        assert (Hdisj : forall w, In w (f (k0, v0)) -> ~ In w (flat_map f t)).
        { intros w Hw Hw2. clear - H Hw Hw2. induction (f (k0, v0)) as [|a r IHr]; [destruct Hw|].
          cbn in H. inversion H; subst. destruct Hw as [->|Hw].
          - apply H2. apply in_or_app. right. exact Hw2.
          - apply IHr; assumption. }
        split.
        * intros k v. cbn. destruct (Nat.eqb_spec k k0) as [->|Hne]; [intros [= <-]; exact H0|apply Ht1].
        * intros k1 v1 k2 v2 w. cbn.
          destruct (Nat.eqb_spec k1 k0) as [->|Hne1]; destruct (Nat.eqb_spec k2 k0) as [->|Hne2]; auto.
          -- intros [= <-] E2 Hw1 Hw2. exfalso. apply (Hdisj w Hw1). apply in_flat_map.
             exists (k2, v2). split; [apply aget_In; exact E2|exact Hw2].
          -- intros E1 [= <-] Hw1 Hw2. exfalso. apply (Hdisj w Hw2). apply in_flat_map.
             exists (k1, v1). split; [apply aget_In; exact E1|exact Hw1].
          -- apply Ht2.
      + intros [H1 H2].
        assert (Hk0 : aget k0 ((k0, v0) :: t) = Some v0) by (cbn; rewrite Nat.eqb_refl; reflexivity).
        assert (Hother : forall k v, aget k t = Some v -> aget k ((k0, v0) :: t) = Some v).
        { intros k v E. cbn. destruct (Nat.eqb_spec k k0) as [->|]; [|exact E].
          exfalso. apply Hni. eapply aget_Some_keys; eauto. }
        assert (Hsub : NoDup (flat_map f t)).
        { apply IH. split.
          - intros k v E. apply H1. apply Hother. exact E.
          - intros k1 v1 k2 v2 w E1 E2. apply H2; apply Hother; assumption. }
        specialize (H1 k0 v0 Hk0).
        assert (Hdisj : forall w, In w (f (k0, v0)) -> ~ In w (flat_map f t)).
        { intros w Hw Hw2. apply in_flat_map in Hw2. destruct Hw2 as ([k2 v2] & Hin & Hw2).
          assert (E2 : aget k2 t = Some v2) by (apply In_aget; assumption).
          assert (k0 = k2) by (eapply (H2 k0 v0 k2 v2 w); eauto). subst.
          apply Hni. eapply aget_Some_keys; eauto. }
        clear - H1 Hsub Hdisj. induction (f (k0, v0)) as [|a r IHr]; [exact Hsub|].
        cbn. inversion H1; subst. constructor.
        * intros Hin. apply in_app_or in Hin. destruct Hin as [Hin|Hin]; [contradiction|].
          apply (Hdisj a); [left; reflexivity|exact Hin].
        * apply IHr; [assumption|]. intros w Hw. apply Hdisj. right. exact Hw.
  Qed.
End AssocLemmas.
