(* Proofs about the store invariant (TTN/Inv.v): association-list library, reflection
   wfb <-> wf, derived facts, and preservation by a plain access. *)
From Coq Require Import List Arith Bool Lia Permutation.
From PTN Require Import TTN.Store TTN.StoreProofs TTN.Inv.
Import ListNotations.

(* ---- booleans <-> Props ---------------------------------------------------------------------- *)
Lemma memb_In x l : memb x l = true <-> In x l.
Proof.
  unfold memb. rewrite existsb_exists. split.
  - intros (y & Hy & E). apply Nat.eqb_eq in E. subst. exact Hy.
  - intros H. exists x. split; [exact H|apply Nat.eqb_refl].
Qed.

Lemma memb_false x l : memb x l = false <-> ~ In x l.
Proof. rewrite <- memb_In. destruct (memb x l); split; intros; congruence. Qed.

Lemma nodupb_NoDup l : nodupb l = true <-> NoDup l.
Proof.
  induction l as [|x t IH]; cbn.
  - split; [constructor|reflexivity].
  - rewrite andb_true_iff, negb_true_iff, memb_false, IH. split.
    + intros [H1 H2]. constructor; assumption.
    + intros H. inversion H; subst. split; assumption.
Qed.

Lemma list_eqb_eq a b : list_eqb a b = true <-> a = b.
Proof.
  unfold list_eqb. revert b. induction a as [|x a IH]; intros [|y b]; cbn; try (split; intros; congruence).
  split.
    + intros H. apply andb_true_iff in H as [H1 H2]. cbn in H2. apply andb_true_iff in H2 as [H2 H3].
      apply Nat.eqb_eq in H2. subst. f_equal. apply IH. apply andb_true_iff. split; assumption.
    + intros [= -> ->]. destruct (IH b) as [_ IH']. specialize (IH' eq_refl).
      apply andb_true_iff in IH' as [H1 H2]. rewrite H1, Nat.eqb_refl, H2. reflexivity.
Qed.

Lemma is_perm_of_seq_spec p : is_perm_of_seq p = true <-> Permutation p (seq 0 (length p)).
Proof.
  unfold is_perm_of_seq. rewrite andb_true_iff, nodupb_NoDup, forallb_forall. split.
  - intros [Hnd Hlt]. apply NoDup_Permutation_bis; [exact Hnd|rewrite seq_length; lia|].
    intros i Hi. apply in_seq. apply Hlt in Hi. apply Nat.ltb_lt in Hi. lia.
  - intros H. split.
    + apply (Permutation_NoDup (Permutation_sym H)). apply seq_NoDup.
    + intros i Hi. apply Nat.ltb_lt. apply (Permutation_in _ H) in Hi. apply in_seq in Hi. lia.
Qed.

Lemma NoDup_app_iff {A} (a b : list A) :
  NoDup (a ++ b) <-> NoDup a /\ NoDup b /\ (forall x, In x a -> ~ In x b).
Proof.
  induction a as [|x a IH]; cbn.
  - split; [intros H; repeat split; [constructor|exact H|intros ? []]|intros (_ & H & _); exact H].
  - split.
    + intros H. inversion H as [|? ? Hni Hnd]; subst. apply IH in Hnd. destruct Hnd as (Ha & Hb & Hd).
      repeat split; [constructor; [|exact Ha]|exact Hb|].
      * intros Hin. apply Hni. apply in_or_app. left. exact Hin.
      * intros y [->|Hy]; [|apply Hd; exact Hy]. intros Hin. apply Hni. apply in_or_app. right. exact Hin.
    + intros (Ha & Hb & Hd). inversion Ha as [|? ? Hni Hnd]; subst. constructor.
      * intros Hin. apply in_app_or in Hin. destruct Hin as [Hin|Hin]; [contradiction|].
        apply (Hd x); [left; reflexivity|exact Hin].
      * apply IH. repeat split; [exact Hnd|exact Hb|]. intros y Hy. apply Hd. right. exact Hy.
Qed.

(* ---- association lists ----------------------------------------------------------------------- *)
Section AssocLemmas.
  Context {V : Type}.
  Implicit Types (l : list (nat * V)) (k : nat) (v : V).

  Lemma aget_aset k k' v l : aget k (aset k' v l) = if Nat.eqb k k' then Some v else aget k l.
  Proof.
    destruct (Nat.eqb_spec k k') as [->|Hne].
    - apply aget_aset_same.
    - apply aget_aset_other. exact Hne.
  Qed.

  Lemma aget_app k l1 l2 : aget k (l1 ++ l2) = match aget k l1 with Some v => Some v | None => aget k l2 end.
  Proof.
    induction l1 as [|[k' v'] t IH]; cbn; [reflexivity|].
    destruct (Nat.eqb k k'); [reflexivity|exact IH].
  Qed.

  Lemma aget_In k v l : aget k l = Some v -> In (k, v) l.
  Proof.
    induction l as [|[k' v'] t IH]; cbn; [discriminate|].
    destruct (Nat.eqb_spec k k') as [->|Hne].
    - intros [= ->]. left. reflexivity.
    - intros H. right. apply IH. exact H.
  Qed.

  Lemma aget_None k l : aget k l = None <-> ~ In k (akeys l).
  Proof.
    induction l as [|[k' v'] t IH]; cbn.
    - split; auto.
    - destruct (Nat.eqb_spec k k') as [->|Hne].
      + split; [discriminate|]. intros H. exfalso. apply H. left. reflexivity.
      + rewrite IH. split; intros H; [intros [E|E]; [congruence|auto]|auto].
  Qed.

  Lemma aget_Some_keys k v l : aget k l = Some v -> In k (akeys l).
  Proof. intros H. apply aget_In in H. unfold akeys. change k with (fst (k, v)). apply in_map. exact H. Qed.

  Lemma keys_aget k l : In k (akeys l) -> exists v, aget k l = Some v.
  Proof.
    intros H. destruct (aget k l) as [v|] eqn:E; [eauto|]. apply aget_None in E. contradiction.
  Qed.

  Lemma amem_true k l : amem k l = true <-> In k (akeys l).
  Proof.
    unfold amem. split.
    - destruct (aget k l) eqn:E; [|discriminate]. intros _. eapply aget_Some_keys; eauto.
    - intros H. apply keys_aget in H. destruct H as [v ->]. reflexivity.
  Qed.

  Lemma amem_aget k l : amem k l = true <-> exists v, aget k l = Some v.
  Proof.
    unfold amem. destruct (aget k l); split; intros H; try discriminate; eauto. destruct H; discriminate.
  Qed.

  Lemma In_aget k v l : NoDup (akeys l) -> In (k, v) l -> aget k l = Some v.
  Proof.
    induction l as [|[k' v'] t IH]; cbn; [intros _ []|].
    intros Hnd Hin. inversion Hnd as [|? ? Hni Hnd']; subst.
    destruct Hin as [[= -> ->]|Hin].
    - rewrite Nat.eqb_refl. reflexivity.
    - destruct (Nat.eqb_spec k k') as [->|Hne].
      + exfalso. apply Hni. unfold akeys. change k' with (fst (k', v)). apply in_map. exact Hin.
      + apply IH; assumption.
  Qed.

  Lemma aget_adel_other k k' l : k <> k' -> aget k (adel k' l) = aget k l.
  Proof.
    intros Hne. induction l as [|[k2 v2] t IH]; cbn; [reflexivity|].
    destruct (Nat.eqb_spec k' k2) as [->|Hne2]; cbn.
    - destruct (Nat.eqb_spec k k2); [congruence|reflexivity].
    - destruct (Nat.eqb_spec k k2); [reflexivity|exact IH].
  Qed.

  Lemma aget_adel_same k l : NoDup (akeys l) -> aget k (adel k l) = None.
  Proof.
    induction l as [|[k2 v2] t IH]; cbn; [reflexivity|]. intros Hnd. inversion Hnd; subst.
    destruct (Nat.eqb_spec k k2) as [->|Hne]; cbn.
    - apply aget_None. assumption.
    - destruct (Nat.eqb_spec k k2); [congruence|]. apply IH. assumption.
  Qed.

  Lemma aget_adel k k' l : NoDup (akeys l) -> aget k (adel k' l) = if Nat.eqb k k' then None else aget k l.
  Proof.
    intros Hnd. destruct (Nat.eqb_spec k k') as [->|Hne].
    - apply aget_adel_same. exact Hnd.
    - apply aget_adel_other. exact Hne.
  Qed.

  Lemma akeys_adel_incl k l : incl (akeys (adel k l)) (akeys l).
  Proof.
    induction l as [|[k2 v2] t IH]; cbn; [apply incl_refl|].
    destruct (Nat.eqb k k2); cbn.
    - apply incl_tl, incl_refl.
    - intros x [->|Hx]; [left; reflexivity|right; apply IH; exact Hx].
  Qed.

  Lemma NoDup_akeys_adel k l : NoDup (akeys l) -> NoDup (akeys (adel k l)).
  Proof.
    induction l as [|[k2 v2] t IH]; cbn; [auto|]. intros Hnd. inversion Hnd; subst.
    destruct (Nat.eqb k k2); cbn; [assumption|]. constructor.
    - intros Hin. apply akeys_adel_incl in Hin. contradiction.
    - apply IH. assumption.
  Qed.

  Lemma akeys_aset k v l : akeys (aset k v l) = if amem k l then akeys l else akeys l ++ [k].
  Proof.
    unfold amem, akeys. induction l as [|[k2 v2] t IH]; cbn; [reflexivity|].
    destruct (Nat.eqb_spec k k2) as [->|Hne]; cbn; [reflexivity|].
    rewrite IH. destruct (aget k t); reflexivity.
  Qed.

  Lemma NoDup_akeys_aset k v l : NoDup (akeys l) -> NoDup (akeys (aset k v l)).
  Proof.
    intros Hnd. rewrite akeys_aset. destruct (amem k l) eqn:E; [exact Hnd|].
    apply Permutation_NoDup with (l := k :: akeys l); [apply Permutation_cons_append|].
    constructor; [|exact Hnd]. intros Hin. apply amem_true in Hin. congruence.
  Qed.

  Lemma akeys_app l1 l2 : akeys (l1 ++ l2) = akeys l1 ++ akeys l2.
  Proof. unfold akeys. apply map_app. Qed.

  Lemma NoDup_akeys_snoc k v l : NoDup (akeys l) -> aget k l = None -> NoDup (akeys (l ++ [(k, v)])).
  Proof.
    intros Hnd Hn. rewrite akeys_app. cbn.
    apply Permutation_NoDup with (l := k :: akeys l); [apply Permutation_cons_append|].
    constructor; [|exact Hnd]. apply aget_None. exact Hn.
  Qed.

  Lemma length_aset_mem k v l : amem k l = true -> length (aset k v l) = length l.
  Proof.
    intros H. assert (E : length (akeys (aset k v l)) = length (akeys l)) by (rewrite akeys_aset, H; reflexivity).
    unfold akeys in E. rewrite !map_length in E. exact E.
  Qed.

  (* forallb over an association list with distinct keys is a statement about aget *)
  Lemma forallb_assoc (f : nat * V -> bool) l : NoDup (akeys l) ->
    (forallb f l = true <-> forall k v, aget k l = Some v -> f (k, v) = true).
  Proof.
    intros Hnd. rewrite forallb_forall. split.
    - intros H k v E. apply H. apply aget_In. exact E.
    - intros H [k v] Hin. apply H. apply In_aget; assumption.
  Qed.

  (* NoDup of a flat_map over an association list with distinct keys, pointwise *)
  Lemma NoDup_flat_map_assoc {W} (f : nat * V -> list W) l : NoDup (akeys l) ->
    (NoDup (flat_map f l) <->
     (forall k v, aget k l = Some v -> NoDup (f (k, v))) /\
     (forall k1 v1 k2 v2 w, aget k1 l = Some v1 -> aget k2 l = Some v2 -> In w (f (k1, v1)) -> In w (f (k2, v2)) -> k1 = k2)).
  Proof.
    induction l as [|[k0 v0] t IH]; intros Hnd.
    - cbn. split; [intros _; split; intros; discriminate|intros _; constructor].
    - inversion Hnd as [|? ? Hni Hnd']; subst. specialize (IH Hnd').
      cbn [flat_map]. split.
      + intros H. apply NoDup_app_iff in H. destruct H as (H0 & Ht & Hdisj).
        apply IH in Ht. destruct Ht as [Ht1 Ht2].
        split.
        * intros k v. cbn. destruct (Nat.eqb_spec k k0) as [->|Hne]; [intros [= <-]; exact H0|apply Ht1].
        * intros k1 v1 k2 v2 w. cbn.
          destruct (Nat.eqb_spec k1 k0) as [->|Hne1]; destruct (Nat.eqb_spec k2 k0) as [->|Hne2]; auto.
          -- intros [= <-] E2 Hw1 Hw2. exfalso. apply (Hdisj w Hw1). apply in_flat_map.
             exists (k2, v2). split; [apply aget_In; exact E2|exact Hw2].
          -- intros E1 [= <-] Hw1 Hw2. exfalso. apply (Hdisj w Hw2). apply in_flat_map.
             exists (k1, v1). split; [apply aget_In; exact E1|exact Hw1].
          -- apply Ht2.
      + intros [H1 H2].
        assert (Hk0 : aget k0 ((k0, v0) :: t) = Some v0) by (cbn; rewrite Nat.eqb_refl; reflexivity).
        assert (Hother : forall k v, aget k t = Some v -> aget k ((k0, v0) :: t) = Some v).
        { intros k v E. cbn. destruct (Nat.eqb_spec k k0) as [->|]; [|exact E].
          exfalso. apply Hni. eapply aget_Some_keys; eauto. }
        assert (Hsub : NoDup (flat_map f t)).
        { apply IH. split.
          - intros k v E. apply H1. apply Hother. exact E.
          - intros k1 v1 k2 v2 w E1 E2. apply H2; apply Hother; assumption. }
        specialize (H1 k0 v0 Hk0).
        assert (Hdisj : forall w, In w (f (k0, v0)) -> ~ In w (flat_map f t)).
        { intros w Hw Hw2. apply in_flat_map in Hw2. destruct Hw2 as ([k2 v2] & Hin & Hw2).
          assert (E2 : aget k2 t = Some v2) by (apply In_aget; assumption).
          assert (k0 = k2) by (eapply (H2 k0 v0 k2 v2 w); eauto). subst.
          apply Hni. eapply aget_Some_keys; eauto. }
        apply NoDup_app_iff. repeat split; assumption.
  Qed.
End AssocLemmas.

(* ---- acyclicity: the fuelled climb against a rank function ------------------------------------ *)
Fixpoint anc (l : list (id * node)) (f : nat) (k : id) : list id :=
  match f with
  | O => []
  | S f' => match aget k l with
            | None => []
            | Some n => k :: match parent n with None => [] | Some p => anc l f' p end
            end
  end.

Definition ranked (l : list (id * node)) (d : id -> nat) : Prop :=
  forall c cn p, aget c l = Some cn -> parent cn = Some p -> d p < d c.
Definition parents_closed (l : list (id * node)) : Prop :=
  forall c cn p, aget c l = Some cn -> parent cn = Some p -> In p (akeys l).

Lemma anc_incl l f k : incl (anc l f k) (akeys l).
Proof.
  revert k. induction f as [|f IH]; intros k; cbn; [intros ? []|].
  destruct (aget k l) as [n|] eqn:E; [|intros ? []].
  intros x [<-|Hx]; [eapply aget_Some_keys; eauto|].
  destruct (parent n); [eapply IH; eauto|destruct Hx].
Qed.

Lemma anc_ranked l d f k : ranked l d -> (forall x, In x (anc l f k) -> d x <= d k) /\ NoDup (anc l f k).
Proof.
  intros Hr. revert k. induction f as [|f IH]; intros k; cbn; [split; [intros ? []|constructor]|].
  destruct (aget k l) as [n|] eqn:E; [|split; [intros ? []|constructor]].
  destruct (parent n) as [p|] eqn:Ep.
  - destruct (IH p) as [H1 H2]. pose proof (Hr k n p E Ep) as Hlt. split.
    + intros x [<-|Hx]; [lia|]. apply H1 in Hx. lia.
    + constructor; [|exact H2]. intros Hin. apply H1 in Hin. lia.
  - split; [intros x [<-|[]]; lia|]. constructor; [intros []|constructor].
Qed.

Lemma anc_length_le l d f k : ranked l d -> length (anc l f k) <= length l.
Proof.
  intros Hr. replace (length l) with (length (akeys l)) by (unfold akeys; apply map_length).
  apply NoDup_incl_length; [apply (anc_ranked l d f k Hr)|apply anc_incl].
Qed.

Lemma anc_full l f k : parents_closed l -> In k (akeys l) -> climbs l f k = false -> length (anc l (S f) k) = S f.
Proof.
  intros Hc. revert k. induction f as [|f IH]; intros k Hk Hf.
  - cbn. apply keys_aget in Hk. destruct Hk as [n ->]. destruct (parent n); reflexivity.
  - cbn in Hf. change (anc l (S (S f)) k) with
      (match aget k l with None => [] | Some n => k :: match parent n with None => [] | Some p => anc l (S f) p end end).
    destruct (aget k l) as [n|] eqn:E; [|apply aget_None in E; contradiction].
    destruct (parent n) as [p|] eqn:Ep; [|discriminate]. cbn [length]. f_equal. apply IH; [|exact Hf].
    eapply Hc; eauto.
Qed.

Lemma ranked_climbs l d k : ranked l d -> parents_closed l -> In k (akeys l) -> climbs l (length l) k = true.
Proof.
  intros Hr Hc Hk. destruct (climbs l (length l) k) eqn:E; [reflexivity|].
  pose proof (anc_full l _ k Hc Hk E) as H1. pose proof (anc_length_le l d (S (length l)) k Hr) as H2. lia.
Qed.

Lemma climbs_anc_stable l f k : climbs l f k = true -> forall f', f <= f' -> anc l f' k = anc l f k.
Proof.
  revert k. induction f as [|f IH]; intros k H f' Hle; [discriminate|].
  destruct f' as [|f']; [lia|]. cbn in *. destruct (aget k l) as [n|]; [|reflexivity].
  destruct (parent n) as [p|]; [|reflexivity]. f_equal. apply IH; [exact H|lia].
Qed.

Lemma climbs_ranked l :
  (forall k, In k (akeys l) -> climbs l (length l) k = true) ->
  ranked l (fun k => length (anc l (length l) k)).
Proof.
  intros H c cn p Ec Ep. pose proof (H c (aget_Some_keys _ _ _ Ec)) as Hc.
  destruct (length l) as [|f] eqn:El; [discriminate|].
  cbn in Hc. rewrite Ec, Ep in Hc.
  change (anc l (S f) c) with
    (match aget c l with None => [] | Some n => c :: match parent n with None => [] | Some p => anc l f p end end).
  rewrite Ec, Ep. cbn [length]. rewrite (climbs_anc_stable l f p Hc (S f)) by lia. lia.
Qed.

(* ---- reflection: wfb s = true <-> wf s ---------------------------------------------------------- *)
Lemma child_ok_spec s k c :
  child_ok s k c = true <-> exists cn, aget c (nodes s) = Some cn /\ parent cn = Some k.
Proof.
  unfold child_ok. destruct (aget c (nodes s)) as [cn|].
  - destruct (parent cn) as [q|] eqn:Ep.
    + rewrite Nat.eqb_eq. split; [intros ->; eauto|]. intros (cn' & [= <-] & E). congruence.
    + split; [discriminate|]. intros (cn' & [= <-] & E). congruence.
  - split; [discriminate|intros (cn' & ? & _); discriminate].
Qed.

Lemma parent_ok_spec s k n :
  parent_ok s k n = true <->
  forall p, parent n = Some p ->
    exists pn i, aget p (nodes s) = Some pn /\ In k (children pn) /\ neighbour_index pn k = Some i
                 /\ nth 0 (lax s k n) 0 = nth i (lax s p pn) 0.
Proof.
  unfold parent_ok. destruct (parent n) as [p|]; [|split; [intros _ ? ?; discriminate|reflexivity]].
  split.
  - intros H p' [= <-]. destruct (aget p (nodes s)) as [pn|]; [|discriminate].
    apply andb_true_iff in H as [H1 H2]. apply memb_In in H1.
    destruct (neighbour_index pn k) as [i|] eqn:Ei; [|discriminate]. apply Nat.eqb_eq in H2.
    exists pn, i. repeat split; auto.
  - intros H. destruct (H p eq_refl) as (pn & i & -> & H1 & -> & H2).
    apply andb_true_iff. split; [apply memb_In; exact H1|apply Nat.eqb_eq; exact H2].
Qed.

Lemma node_ok_spec s k n : node_ok s (k, n) = true <-> node_inv s k n.
Proof.
  unfold node_ok. cbn [fst snd]. rewrite !andb_true_iff. split.
  - intros [[[[[[[H1 H2] H3] H4] H5] H6] H7] H8].
    apply is_perm_of_seq_spec in H2. apply Nat.eqb_eq in H3. apply list_eqb_eq in H4.
    apply Nat.leb_le in H5. apply nodupb_NoDup in H6. rewrite forallb_forall in H7.
    constructor; auto.
    + rewrite <- H3. exact H2.
    + intros c Hc. apply child_ok_spec. apply H7. exact Hc.
    + apply parent_ok_spec. exact H8.
  - intros [H1 H2 H3 H4 H5 H6 H7].
    assert (El : length (perm n) = length (shape n)).
    { apply Permutation_length in H2. rewrite seq_length in H2. exact H2. }
    repeat split; auto.
    + apply is_perm_of_seq_spec. rewrite El. exact H2.
    + apply Nat.eqb_eq. exact El.
    + apply list_eqb_eq. exact H3.
    + apply Nat.leb_le. exact H4.
    + apply nodupb_NoDup. exact H5.
    + apply forallb_forall. intros c Hc. apply child_ok_spec. apply H6. exact Hc.
    + apply parent_ok_spec. exact H7.
Qed.

Lemma is_root_spec n : is_root n = true <-> parent n = None.
Proof. unfold is_root. destruct (parent n); split; congruence. Qed.

Lemma root_ok_spec s : NoDup (akeys (nodes s)) ->
  (root_ok s = true <->
   exists r rn, root s = Some r /\ aget r (nodes s) = Some rn /\ parent rn = None
                /\ forall k n, aget k (nodes s) = Some n -> parent n = None -> k = r).
Proof.
  intros Hnd. unfold root_ok. destruct (root s) as [r|]; [|split; [discriminate|intros (? & ? & ? & _); discriminate]].
  destruct (aget r (nodes s)) as [rn|] eqn:Er.
  - rewrite andb_true_iff, is_root_spec, (forallb_assoc _ _ Hnd). split.
    + intros [H1 H2]. exists r, rn. repeat split; auto. intros k n E Hp. specialize (H2 k n E). cbn in H2.
      apply is_root_spec in Hp. rewrite Hp in H2. apply Nat.eqb_eq. exact H2.
    + intros (r' & rn' & [= <-] & E & Hp & H). rewrite Er in E. injection E as <-. split; [exact Hp|].
      intros k n E. cbn. destruct (is_root n) eqn:Hr; [|reflexivity]. apply Nat.eqb_eq. apply (H k n E).
      apply is_root_spec. exact Hr.
  - split; [discriminate|]. intros (r' & rn' & [= <-] & E & _). rewrite Er in E. discriminate.
Qed.

Lemma wf_parents_closed s : (forall k n, aget k (nodes s) = Some n -> node_inv s k n) -> parents_closed (nodes s).
Proof.
  intros H c cn p Ec Ep. destruct (ni_par _ _ _ (H c cn Ec) p Ep) as (pn & i & E & _).
  eapply aget_Some_keys; eauto.
Qed.

Theorem wfb_wf s : wfb s = true -> wf s.
Proof.
  unfold wfb. rewrite !andb_true_iff. intros [[[[[[[[H1 H2] H3] H4] H5] H6] H7] H8] H9].
  apply nodupb_NoDup in H1. apply nodupb_NoDup in H2.
  rewrite (forallb_assoc _ _ H2) in H3. apply (root_ok_spec s H1) in H4.
  rewrite (forallb_assoc _ _ H1) in H5. apply nodupb_NoDup in H6.
  unfold own_wires in H6. apply (NoDup_flat_map_assoc _ _ H1) in H6. destruct H6 as [H6a H6b].
  rewrite (forallb_assoc _ _ H2) in H7. rewrite forallb_forall in H8.
  rewrite (forallb_assoc _ _ H1) in H9.
  constructor.
  - exact H1.
  - exact H2.
  - intros k Hk. apply amem_aget in Hk. destruct Hk as [t Ht]. apply (H3 k t Ht).
  - exact H4.
  - intros k n E. apply node_ok_spec. apply H5. exact E.
  - intros k n E. apply (H6a k n E).
  - intros k1 n1 k2 n2 w E1 E2. apply (H6b k1 n1 k2 n2 w E1 E2).
  - intros k t w E Hw. specialize (H7 k t E). cbn in H7. rewrite forallb_forall in H7.
    apply Nat.ltb_lt. apply H7. exact Hw.
  - intros w Hw. unfold akeys in Hw. apply in_map_iff in Hw. destruct Hw as (wd & <- & Hin).
    apply Nat.ltb_lt. apply H8. exact Hin.
  - exists (fun k => length (anc (nodes s) (length (nodes s)) k)). apply climbs_ranked.
    intros k Hk. apply keys_aget in Hk. destruct Hk as [n E]. apply (H9 k n E).
Qed.

Theorem wf_wfb s : wf s -> wfb s = true.
Proof.
  intros [H1 H2 H3 H4 H5 H6a H6b H7 H8 H9]. unfold wfb. rewrite !andb_true_iff.
  repeat split.
  - apply nodupb_NoDup. exact H1.
  - apply nodupb_NoDup. exact H2.
  - apply (forallb_assoc _ _ H2). intros k t E. cbn. apply H3. apply amem_aget. eauto.
  - apply (root_ok_spec s H1). exact H4.
  - apply (forallb_assoc _ _ H1). intros k n E. apply node_ok_spec. apply H5. exact E.
  - apply nodupb_NoDup. unfold own_wires. apply (NoDup_flat_map_assoc _ _ H1). split.
    + intros k n E. apply (H6a k n E).
    + intros k1 n1 k2 n2 w E1 E2. apply (H6b k1 n1 k2 n2 w E1 E2).
  - apply (forallb_assoc _ _ H2). intros k t E. cbn. apply forallb_forall. intros w Hw.
    apply Nat.ltb_lt. eapply H7; eauto.
  - apply forallb_forall. intros wd Hin. apply Nat.ltb_lt. apply H8. unfold akeys. apply in_map. exact Hin.
  - apply (forallb_assoc _ _ H1). intros k n E. cbn. destruct H9 as [d Hd].
    apply (ranked_climbs _ d); [exact Hd|apply wf_parents_closed; exact H5|eapply aget_Some_keys; eauto].
Qed.

Theorem wfb_iff s : wfb s = true <-> wf s.
Proof. split; [apply wfb_wf|apply wf_wfb]. Qed.

(* ---- small facts about nodes ---------------------------------------------------------------------- *)
Lemma nparents_ext a b : parent a = parent b -> nparents a = nparents b.
Proof. unfold nparents. intros ->. reflexivity. Qed.

Lemma nvirt_ext a b : parent a = parent b -> children a = children b -> nvirt a = nvirt b.
Proof. unfold nvirt, nparents. intros -> ->. reflexivity. Qed.

Lemma neighbour_index_ext a b x : parent a = parent b -> children a = children b -> neighbour_index a x = neighbour_index b x.
Proof. unfold neighbour_index. intros -> ->. reflexivity. Qed.

Lemma laxes_length n t : length (laxes n t) = nlegs n.
Proof. unfold laxes, nlegs. apply permute_length. Qed.

Lemma own_of_ext a ta b tb :
  parent a = parent b -> children a = children b -> laxes a ta = laxes b tb -> own_of a ta = own_of b tb.
Proof. intros Hp Hc Hl. unfold own_of. rewrite Hl, (nparents_ext a b Hp), (nvirt_ext a b Hp Hc). reflexivity. Qed.

Lemma open_of_ext a ta b tb :
  parent a = parent b -> children a = children b -> laxes a ta = laxes b tb -> open_of a ta = open_of b tb.
Proof. intros Hp Hc Hl. unfold open_of. rewrite Hl, (nvirt_ext a b Hp Hc). reflexivity. Qed.

Lemma tens_aget s k t : aget k (tensors s) = Some t -> tens s k = t.
Proof. unfold tens. intros ->. reflexivity. Qed.

Lemma wf_node_wf s k n : wf s -> aget k (nodes s) = Some n -> node_wf n.
Proof. intros H E. destruct (wf_node s H k n E). split; assumption. Qed.

Lemma wf_tens s k n : wf s -> aget k (nodes s) = Some n -> aget k (tensors s) = Some (tens s k).
Proof.
  intros H E. pose proof (ni_t _ _ _ (wf_node s H k n E)) as Ht. apply amem_aget in Ht.
  destruct Ht as [t Ht]. rewrite (tens_aget _ _ _ Ht). exact Ht.
Qed.

Lemma wf_axes_length s k n : wf s -> aget k (nodes s) = Some n -> length (axes (tens s k)) = nlegs n.
Proof.
  intros H E. pose proof (wf_node s H k n E) as Hn. pose proof (ni_shape _ _ _ Hn) as Hs.
  pose proof (ni_perm _ _ _ Hn) as Hp. apply Permutation_length in Hp. rewrite seq_length in Hp.
  unfold nlegs. rewrite Hp, Hs, map_length. reflexivity.
Qed.

(* a child's parent is not its child (no 2-cycles, no self loops) *)
Lemma wf_parent_not_child s c cn p pn :
  wf s -> aget c (nodes s) = Some cn -> parent cn = Some p -> aget p (nodes s) = Some pn -> parent pn <> Some c.
Proof.
  intros H Ec Ep Epn Hq. destruct (wf_acyc s H) as [d Hd].
  pose proof (Hd c cn p Ec Ep). pose proof (Hd p pn c Epn Hq). lia.
Qed.

Lemma wf_not_self_parent s c cn : wf s -> aget c (nodes s) = Some cn -> parent cn <> Some c.
Proof.
  intros H Ec Hq. destruct (wf_acyc s H) as [d Hd]. pose proof (Hd c cn c Ec Hq). lia.
Qed.

(* key sets agree *)
Lemma wf_keys_iff s k : wf s -> (In k (akeys (nodes s)) <-> In k (akeys (tensors s))).
Proof.
  intros H. split; intros Hk.
  - apply keys_aget in Hk. destruct Hk as [n E]. apply amem_true. apply (ni_t _ _ _ (wf_node s H k n E)).
  - apply amem_true. apply (wf_tn s H). apply amem_true. exact Hk.
Qed.

Theorem wf_keys_perm s : wf s -> Permutation (akeys (tensors s)) (akeys (nodes s)).
Proof.
  intros H. apply NoDup_Permutation; [apply (wf_tnd s H)|apply (wf_nd s H)|].
  intros k. symmetry. apply wf_keys_iff. exact H.
Qed.

(* ---- replacing one node record and its raw tensor without changing the logical view ---------------- *)
Lemma permute_map {A B} (f : A -> B) d d' p (l : list A) :
  (forall i, In i p -> i < length l) -> permute d' p (map f l) = map f (permute d p l).
Proof.
  intros H. unfold permute. rewrite map_map. apply map_ext_in. intros i Hi.
  rewrite (nth_indep _ d' (f d)) by (rewrite map_length; apply H; exact Hi). apply map_nth.
Qed.

Lemma perm_bound p n : Permutation p (seq 0 n) -> forall i, In i p -> i < n.
Proof. intros H i Hi. apply (Permutation_in _ H) in Hi. apply in_seq in Hi. lia. Qed.

Theorem wf_update_node s n nd t nd' t' :
  wf s -> aget n (nodes s) = Some nd -> aget n (tensors s) = Some t ->
  parent nd' = parent nd -> children nd' = children nd ->
  laxes nd' t' = laxes nd t ->
  Permutation (perm nd') (seq 0 (length (shape nd'))) ->
  shape nd' = map (wdim s) (axes t') ->
  incl (axes t') (axes t) ->
  wf (upd_tensors (upd_nodes s (aset n nd')) (aset n t')).
Proof.
  intros H En Et Hp Hc Hl Hperm Hshape Hincl.
  set (s' := upd_tensors (upd_nodes s (aset n nd')) (aset n t')).
  assert (F1 : forall k, aget k (nodes s') = if Nat.eqb k n then Some nd' else aget k (nodes s)).
  { intros k. cbn. apply aget_aset. }
  assert (F2 : forall k, tens s' k = if Nat.eqb k n then t' else tens s k).
  { intros k. unfold tens. cbn. rewrite aget_aset. destruct (Nat.eqb k n); reflexivity. }
  assert (Ht : tens s n = t) by (apply tens_aget; exact Et).
  assert (F3 : forall k nk', aget k (nodes s') = Some nk' ->
            exists nk, aget k (nodes s) = Some nk /\ parent nk' = parent nk /\ children nk' = children nk
                       /\ nlegs nk' = nlegs nk /\ lax s' k nk' = lax s k nk).
  { intros k nk' E. rewrite F1 in E. unfold lax. rewrite F2. destruct (Nat.eqb_spec k n) as [->|Hne].
    - injection E as <-. exists nd. rewrite Ht. repeat split; auto.
      rewrite <- (laxes_length nd' t'), <- (laxes_length nd t), Hl. reflexivity.
    - exists nk'. repeat split; auto. }
  assert (F4 : forall k nk, aget k (nodes s) = Some nk ->
            exists nk', aget k (nodes s') = Some nk' /\ parent nk' = parent nk /\ children nk' = children nk
                        /\ lax s' k nk' = lax s k nk).
  { intros k nk E. rewrite F1. unfold lax. rewrite F2. destruct (Nat.eqb_spec k n) as [->|Hne].
    - exists nd'. rewrite E in En. injection En as ->. rewrite Ht. repeat split; auto.
    - exists nk. repeat split; auto. }
  assert (Fown : forall k nk', aget k (nodes s') = Some nk' ->
            exists nk, aget k (nodes s) = Some nk /\ own_of nk' (tens s' k) = own_of nk (tens s k)).
  { intros k nk' E. destruct (F3 k nk' E) as (nk & E1 & E2 & E3 & _ & E5). exists nk. split; [exact E1|].
    apply own_of_ext; assumption. }
  constructor.
  - cbn. apply NoDup_akeys_aset. apply (wf_nd s H).
  - cbn. apply NoDup_akeys_aset. apply (wf_tnd s H).
  - intros k Hk. cbn in *. apply amem_aget in Hk. destruct Hk as [v Hv]. rewrite aget_aset in Hv.
    apply amem_aget. rewrite aget_aset. destruct (Nat.eqb k n); [eauto|].
    apply amem_aget. apply (wf_tn s H). apply amem_aget. eauto.
  - destruct (wf_root s H) as (r & rn & Hr & Er & Hpr & Huniq).
    destruct (F4 r rn Er) as (rn' & E1 & E2 & _). exists r, rn'. repeat split; auto; [congruence|].
    intros k nk' E Hpar. destruct (F3 k nk' E) as (nk & E3 & E4 & _). apply (Huniq k nk E3). congruence.
  - intros k nk' E. destruct (F3 k nk' E) as (nk & E1 & E2 & E3 & E4 & E5).
    pose proof (wf_node s H k nk E1) as Hn. constructor.
    + cbn. apply amem_aget. rewrite aget_aset. destruct (Nat.eqb k n); [eauto|].
      apply amem_aget. apply (ni_t _ _ _ Hn).
    + rewrite F1 in E. destruct (Nat.eqb_spec k n) as [->|Hne].
      * injection E as <-. exact Hperm.
      * rewrite E in E1. injection E1 as <-. apply (ni_perm _ _ _ Hn).
    + rewrite F2. rewrite F1 in E. destruct (Nat.eqb_spec k n) as [->|Hne].
      * injection E as <-. exact Hshape.
      * rewrite E in E1. injection E1 as <-. apply (ni_shape _ _ _ Hn).
    + rewrite (nvirt_ext _ _ E2 E3), E4. apply (ni_virt _ _ _ Hn).
    + rewrite E3. apply (ni_chnd _ _ _ Hn).
    + intros c Hc'. rewrite E3 in Hc'. destruct (ni_ch _ _ _ Hn c Hc') as (cn & Ec & Epc).
      destruct (F4 c cn Ec) as (cn' & Ec' & Epc' & _). exists cn'. split; [exact Ec'|congruence].
    + intros p Hpar. rewrite E2 in Hpar. destruct (ni_par _ _ _ Hn p Hpar) as (pn & i & Epn & Hin & Hni & Hw).
      destruct (F4 p pn Epn) as (pn' & Epn' & Epp & Epc & Epl). exists pn', i. repeat split.
      * exact Epn'.
      * rewrite Epc. exact Hin.
      * rewrite (neighbour_index_ext _ _ k Epp Epc). exact Hni.
      * rewrite E5, Epl. exact Hw.
  - intros k nk' E. destruct (Fown k nk' E) as (nk & E1 & ->). apply (wf_own1 s H k nk E1).
  - intros k1 n1 k2 n2 w E1 E2. destruct (Fown k1 n1 E1) as (m1 & G1 & ->). destruct (Fown k2 n2 E2) as (m2 & G2 & ->).
    apply (wf_own2 s H k1 m1 k2 m2 w G1 G2).
  - intros k tk w E Hw. cbn in E. rewrite aget_aset in E. change (next_wire s') with (next_wire s).
    destruct (Nat.eqb k n).
    + injection E as <-. apply (wf_wires s H n t w Et). apply Hincl. exact Hw.
    + apply (wf_wires s H k tk w E Hw).
  - apply (wf_dims s H).
  - destruct (wf_acyc s H) as [d Hd]. exists d. intros c cn' p E Hpar.
    destruct (F3 c cn' E) as (cn & E1 & E2 & _). apply (Hd c cn p E1). congruence.
Qed.

(* ---- flat_map over updated association lists ------------------------------------------------------- *)
Lemma flat_map_ext_in {A B} (f g : A -> list B) l : (forall x, In x l -> f x = g x) -> flat_map f l = flat_map g l.
Proof.
  induction l as [|x t IH]; cbn; [reflexivity|]. intros H. rewrite (H x (or_introl eq_refl)). f_equal.
  apply IH. intros y Hy. apply H. right. exact Hy.
Qed.

Lemma flat_map_aset_perm {V W} (f f' : nat * V -> list W) k v v0 l :
  NoDup (akeys l) -> aget k l = Some v0 -> Permutation (f' (k, v)) (f (k, v0)) ->
  (forall k2 v2, k2 <> k -> f' (k2, v2) = f (k2, v2)) ->
  Permutation (flat_map f' (aset k v l)) (flat_map f l).
Proof.
  intros Hnd E Hk Hother. induction l as [|[k' v'] t IH]; cbn in *; [discriminate|].
  inversion Hnd as [|? ? Hni Hnd']; subst.
  destruct (Nat.eqb_spec k k') as [->|Hne]; cbn.
  - injection E as ->. apply Permutation_app; [exact Hk|].
    rewrite (flat_map_ext_in f' f); [reflexivity|]. intros [k2 v2] Hin. apply Hother. intros ->.
    apply Hni. unfold akeys. change k' with (fst (k', v2)). apply in_map. exact Hin.
  - rewrite (Hother k' v') by congruence. apply Permutation_app_head. apply IH; assumption.
Qed.

Lemma flat_map_aset_eq {V W} (f f' : nat * V -> list W) k v v0 l :
  NoDup (akeys l) -> aget k l = Some v0 -> f' (k, v) = f (k, v0) ->
  (forall k2 v2, k2 <> k -> f' (k2, v2) = f (k2, v2)) ->
  flat_map f' (aset k v l) = flat_map f l.
Proof.
  intros Hnd E Hk Hother. induction l as [|[k' v'] t IH]; cbn in *; [discriminate|].
  inversion Hnd as [|? ? Hni Hnd']; subst.
  destruct (Nat.eqb_spec k k') as [->|Hne]; cbn.
  - injection E as ->. rewrite Hk. f_equal.
    apply flat_map_ext_in. intros [k2 v2] Hin. apply Hother. intros ->.
    apply Hni. unfold akeys. change k' with (fst (k', v2)). apply in_map. exact Hin.
  - rewrite (Hother k' v') by congruence. f_equal. apply IH; assumption.
Qed.

(* ---- plain access ---------------------------------------------------------------------------------- *)
Lemma permute_permute_seq {A} (d : A) p (l : list A) : permute d (seq 0 (length p)) (permute d p l) = permute d p l.
Proof. rewrite <- (permute_length d p l) at 1. apply permute_seq. Qed.

Lemma permute_incl {A} (d : A) p (l : list A) : (forall i, In i p -> i < length l) -> incl (permute d p l) l.
Proof.
  intros H x Hx. unfold permute in Hx. apply in_map_iff in Hx. destruct Hx as (i & <- & Hi).
  apply nth_In. apply H. exact Hi.
Qed.

Lemma access_inv s n s' nd' t' :
  access s n = Some (s', nd', t') ->
  exists nd t, aget n (nodes s) = Some nd /\ aget n (tensors s) = Some t /\
               nd' = reset_permutation nd /\ t' = s_transpose (perm nd) t /\
               s' = upd_tensors (upd_nodes s (aset n nd')) (aset n t').
Proof.
  unfold access. destruct (aget n (nodes s)) as [nd|]; [|discriminate].
  destruct (aget n (tensors s)) as [t|]; [|discriminate]. intros [= <- <- <-]. exists nd, t. auto.
Qed.

Lemma access_laxes nd t : laxes (reset_permutation nd) (s_transpose (perm nd) t) = laxes nd t.
Proof. unfold laxes. cbn. apply permute_permute_seq. Qed.

Theorem access_preserves_wf s n s' nd' t' : wf s -> access s n = Some (s', nd', t') -> wf s'.
Proof.
  intros H Ha. destruct (access_inv _ _ _ _ _ Ha) as (nd & t & En & Et & -> & -> & ->).
  pose proof (wf_node s H n nd En) as Hn.
  assert (Hlen : length (shape nd) = length (axes t)).
  { rewrite (ni_shape _ _ _ Hn), (tens_aget _ _ _ Et), map_length. reflexivity. }
  assert (Hb : forall i, In i (perm nd) -> i < length (axes t)).
  { rewrite <- Hlen. apply perm_bound. apply (ni_perm _ _ _ Hn). }
  apply (wf_update_node s n nd t); auto.
  - apply access_laxes.
  - cbn. unfold node_shape. rewrite permute_length. reflexivity.
  - cbn. unfold node_shape. rewrite (ni_shape _ _ _ Hn), (tens_aget _ _ _ Et).
    apply permute_map. exact Hb.
  - cbn. apply permute_incl. exact Hb.
Qed.

Theorem access_preserves_wfb s n s' nd t : wfb s = true -> access s n = Some (s', nd, t) -> wfb s' = true.
Proof. intros H Ha. apply wf_wfb. eapply access_preserves_wf; [apply wfb_wf; exact H|exact Ha]. Qed.

(* totals: atoms exactly, wire ends up to the order of the accessed tensor's axes, open wires exactly *)
Theorem access_total_atoms s n s' nd t : wf s -> access s n = Some (s', nd, t) -> total_atoms s' = total_atoms s.
Proof.
  intros H Ha. destruct (access_inv _ _ _ _ _ Ha) as (nd0 & t0 & En & Et & -> & -> & ->).
  unfold total_atoms. cbn. apply (flat_map_aset_eq _ _ n _ t0); auto. apply (wf_tnd s H).
Qed.

Theorem access_total_ends s n s' nd t : wf s -> access s n = Some (s', nd, t) -> Permutation (total_ends s') (total_ends s).
Proof.
  intros H Ha. destruct (access_inv _ _ _ _ _ Ha) as (nd0 & t0 & En & Et & -> & -> & ->).
  pose proof (wf_node s H n nd0 En) as Hn.
  unfold total_ends. cbn. apply (flat_map_aset_perm _ _ n _ t0); auto; [apply (wf_tnd s H)|].
  cbn. unfold sarr_ends. cbn. apply Permutation_app_tail. apply permute_is_perm.
  replace (length (axes t0)) with (length (shape nd0)); [apply (ni_perm _ _ _ Hn)|].
  rewrite (ni_shape _ _ _ Hn), (tens_aget _ _ _ Et), map_length. reflexivity.
Qed.

Theorem access_open_wires s n s' nd t : wf s -> access s n = Some (s', nd, t) -> open_wires s' = open_wires s.
Proof.
  intros H Ha. destruct (access_inv _ _ _ _ _ Ha) as (nd0 & t0 & En & Et & -> & -> & ->).
  unfold open_wires. cbn [nodes upd_tensors upd_nodes].
  apply (flat_map_aset_eq _ _ n _ nd0); auto; [apply (wf_nd s H)| |].
  - unfold node_open, tens. cbn. rewrite aget_aset_same, Et. apply open_of_ext; auto. apply access_laxes.
  - intros k2 v2 Hne. unfold node_open, tens. cbn. rewrite aget_aset_other by exact Hne. reflexivity.
Qed.

(* the same for the logical view of every node *)
Theorem access_lax s n s' nd t k nk : wf s -> access s n = Some (s', nd, t) -> aget k (nodes s) = Some nk ->
  exists nk', aget k (nodes s') = Some nk' /\ parent nk' = parent nk /\ children nk' = children nk /\ lax s' k nk' = lax s k nk.
Proof.
  intros H Ha E. destruct (access_inv _ _ _ _ _ Ha) as (nd0 & t0 & En & Et & -> & -> & ->).
  cbn. rewrite aget_aset. unfold lax, tens. cbn. rewrite aget_aset. destruct (Nat.eqb_spec k n) as [->|Hne].
  - rewrite E in En. injection En as <-. eexists. split; [reflexivity|]. rewrite Et. repeat split. apply access_laxes.
  - exists nk. auto.
Qed.

(* non-vacuity: the checker accepts every state of the example run of Props/C02.v *)
Example wfb_C02_example :
  run_wfb empty_store [AddRoot 0 [2; 3; 2]; AddChild 1 [2; 2] 1 0 0; AddChild 2 [3; 2] 0 0 1;
                       Contract 1 0 1;
                       Split 1 {| ls_parent := None; ls_children := [2]; ls_open := [1]; ls_root := true |}
                               {| ls_parent := None; ls_children := []; ls_open := [2]; ls_root := false |} 1 7 0 Reduced 0]
  = [true; true; true; true; true].
Proof. vm_compute. reflexivity. Qed.
