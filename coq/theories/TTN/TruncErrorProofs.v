(* [ext-C10E] proofs for TTN/TruncError.v: the errors of the truncating splits of a run add up (triangle inequality
   along the trace), for svd_truncation and recursive_truncation as the literal programs of TTN/TruncTree.v. *)
From Coq Require Import List Arith Bool Lia.
From PTN Require Import TTN.Store TTN.Canon TTN.Inv TTN.CanonTree TTN.TruncTree TTN.TruncTreeProofs TTN.InvRun
  TTN.InvContract TTN.StoreProofs TTN.InvProofs TTN.TruncTreeValue TTN.TruncError.
Import ListNotations.

Section Accumulate.
  Context {V D : Type}.
  Variables (dle : D -> D -> Prop) (dzero : D) (dadd : D -> D -> D) (dist : V -> V -> D).
  Hypothesis ML : metric_laws dle dzero dadd dist.
  Variable den : store -> V.

  (* general form: any bound per accepted step *)
  Lemma accumulate_along (w : store -> op -> D) : forall ops s s',
    traced s ops s' ->
    along (fun s o s' => dle (dist (den s) (den s')) (w s o)) s ops ->
    dle (dist (den s) (den s')) (run_sum dzero dadd w s ops).
  Proof.
    induction ops as [|o t IH]; intros s s' T A.
    - destruct T as (R & _). cbn in R. injection R as <-. cbn. apply (ml_dist_refl _ _ _ _ ML).
    - destruct (traced_cons_inv _ _ _ _ T) as (s1 & Hs & _ & _ & Tt).
      cbn [along run_sum] in *. rewrite Hs in *. destruct A as [A1 A2].
      eapply (ml_trans _ _ _ _ ML); [apply (ml_triangle _ _ _ _ ML _ (den s1))|].
      apply (ml_add_mono _ _ _ _ ML); [exact A1|]. apply IH; assumption.
  Qed.

  (* only the truncating splits move the state *)
  Lemma accumulate_trunc (eps : store -> op -> D) : forall ops s s',
    traced s ops s' ->
    along (step_contract dle dist den eps) s ops ->
    dle (dist (den s) (den s')) (trunc_sum dzero dadd eps s ops).
  Proof.
    induction ops as [|o t IH]; intros s s' T A.
    - destruct T as (R & _). cbn in R. injection R as <-. cbn. apply (ml_dist_refl _ _ _ _ ML).
    - destruct (traced_cons_inv _ _ _ _ T) as (s1 & Hs & _ & _ & Tt).
      cbn [along trunc_sum] in *. rewrite Hs in *. destruct A as [A1 A2]. unfold step_contract in A1.
      destruct (is_trunc_split o).
      + eapply (ml_trans _ _ _ _ ML); [apply (ml_triangle _ _ _ _ ML _ (den s1))|].
        apply (ml_add_mono _ _ _ _ ML); [exact A1|]. apply IH; assumption.
      + rewrite <- A1. apply IH; assumption.
  Qed.

  (* with an amplification `scale` (multiplication by a Lipschitz constant of the environment, e.g. max(1, norm of the
     state)) that is superadditive: the total is at most the scaled sum of the local errors *)
  Lemma accumulate_trunc_scaled (scale : D -> D) (eps : store -> op -> D) :
    (forall a b, dle (dadd (scale a) (scale b)) (scale (dadd a b))) -> dle dzero (scale dzero) ->
    forall ops s s',
    traced s ops s' ->
    along (step_contract dle dist den (fun s o => scale (eps s o))) s ops ->
    dle (dist (den s) (den s')) (scale (trunc_sum dzero dadd eps s ops)).
  Proof.
    intros Hsa Hs0. induction ops as [|o t IH]; intros s s' T A.
    - destruct T as (R & _). cbn in R. injection R as <-. cbn.
      eapply (ml_trans _ _ _ _ ML); [apply (ml_dist_refl _ _ _ _ ML)|exact Hs0].
    - destruct (traced_cons_inv _ _ _ _ T) as (s1 & Hs & _ & _ & Tt).
      cbn [along trunc_sum] in *. rewrite Hs in *. destruct A as [A1 A2]. unfold step_contract in A1.
      destruct (is_trunc_split o).
      + eapply (ml_trans _ _ _ _ ML); [apply (ml_triangle _ _ _ _ ML _ (den s1))|].
        eapply (ml_trans _ _ _ _ ML); [|apply Hsa].
        apply (ml_add_mono _ _ _ _ ML); [exact A1|]. apply IH; assumption.
      + rewrite <- A1. apply IH; assumption.
  Qed.

  (* the two routines *)
  Theorem svd_truncation_error (eps : store -> op -> D) kd rid cs cs' :
    wf (fst cs) -> aget rid (nodes (fst cs)) = None -> svd_truncation kd rid cs = Some cs' ->
    along (step_contract dle dist den eps) (fst cs) (svd_truncation_ops kd rid cs) ->
    dle (dist (den (fst cs)) (den (fst cs'))) (trunc_sum dzero dadd eps (fst cs) (svd_truncation_ops kd rid cs)).
  Proof.
    intros W Hr H A. apply accumulate_trunc; [|exact A]. now apply svd_truncation_traced.
  Qed.

  Theorem recursive_truncation_error (eps : store -> op -> D) tmp kd rid cs cs' :
    wf (fst cs) -> aget rid (nodes (fst cs)) = None -> tmp_fresh tmp (fst cs) -> tmp_inj tmp ->
    recursive_truncation tmp kd rid cs = Some cs' ->
    along (step_contract dle dist den eps) (fst cs) (recursive_truncation_ops tmp kd rid cs) ->
    dle (dist (den (fst cs)) (den (fst cs')))
        (trunc_sum dzero dadd eps (fst cs) (recursive_truncation_ops tmp kd rid cs)).
  Proof.
    intros W Hr Hf Hi H A. apply accumulate_trunc; [|exact A]. now apply recursive_truncation_traced.
  Qed.

  Theorem recursive_truncation_error_scaled (scale : D -> D) (eps : store -> op -> D) tmp kd rid cs cs' :
    (forall a b, dle (dadd (scale a) (scale b)) (scale (dadd a b))) -> dle dzero (scale dzero) ->
    wf (fst cs) -> aget rid (nodes (fst cs)) = None -> tmp_fresh tmp (fst cs) -> tmp_inj tmp ->
    recursive_truncation tmp kd rid cs = Some cs' ->
    along (step_contract dle dist den (fun s o => scale (eps s o))) (fst cs) (recursive_truncation_ops tmp kd rid cs) ->
    dle (dist (den (fst cs)) (den (fst cs')))
        (scale (trunc_sum dzero dadd eps (fst cs) (recursive_truncation_ops tmp kd rid cs))).
  Proof.
    intros Hsa Hs0 W Hr Hf Hi H A. apply accumulate_trunc_scaled; [exact Hsa|exact Hs0| |exact A].
    now apply recursive_truncation_traced.
  Qed.

  (* projectors computed from the SAME untruncated tensor (one node of recursive_truncation): non-expansive maps
     applied one after the other move x by at most the sum of what each moves x *)
  Lemma nonexpansive_chain (fs : list (V -> V)) (x : V) :
    Forall (nonexpansive dle dist) fs ->
    forall y a, dle (dist x y) a ->
    dle (dist x (apply_all fs y)) (fold_left (fun a f => dadd (dist x (f x)) a) fs a).
  Proof.
    unfold apply_all. induction 1 as [|f t Hf _ IH]; intros y a Ha; [exact Ha|].
    cbn [fold_left]. apply IH.
    eapply (ml_trans _ _ _ _ ML); [apply (ml_triangle _ _ _ _ ML _ (f x))|].
    apply (ml_add_mono _ _ _ _ ML); [apply (ml_refl _ _ _ _ ML)|].
    eapply (ml_trans _ _ _ _ ML); [apply Hf|exact Ha].
  Qed.

  Theorem nonexpansive_composition (fs : list (V -> V)) (x : V) :
    Forall (nonexpansive dle dist) fs ->
    dle (dist x (apply_all fs x)) (fold_left (fun a f => dadd (dist x (f x)) a) fs dzero).
  Proof. intros F. apply nonexpansive_chain; [exact F|]. apply (ml_dist_refl _ _ _ _ ML). Qed.
End Accumulate.

(* ---- how many terms the bound has ------------------------------------------------------------------------------ *)
Lemma ntrunc_app a b : ntrunc (a ++ b) = ntrunc a + ntrunc b.
Proof. unfold ntrunc. now rewrite filter_app, app_length. Qed.

Section FoldCount.
  Context {S A : Type}.
  Variables (f : S -> A -> option S) (g : S -> A -> list op) (c : nat).
  Lemma fold_ops_ntrunc (I : S -> Prop) :
    (forall x a x', I x -> f x a = Some x' -> ntrunc (g x a) = c /\ I x') ->
    forall l x x', I x -> fold_left (ofold f) l (Some x) = Some x' -> ntrunc (fold_ops f g l x) = c * length l.
  Proof.
    intros H. induction l as [|a t IH]; intros x x' HI E; [cbn; lia|].
    cbn [fold_left ofold] in E. cbn [fold_ops]. destruct (f x a) as [x1|] eqn:Ef; [|rewrite ofold_none in E; discriminate].
    destruct (H x a x1 HI Ef) as [C1 I1]. rewrite ntrunc_app, C1, (IH x1 x' I1 E). cbn [length]. lia.
  Qed.
End FoldCount.

Lemma qr_ops_ntrunc s n nb m rid : ntrunc (qr_ops s n nb m rid) = 0.
Proof. unfold qr_ops. destruct (aget n (nodes s)); [|reflexivity]. destruct (build_qr_leg_specs n0 nb). reflexivity. Qed.

Lemma fold_ops_ntrunc0 {S A} (f : S -> A -> option S) (g : S -> A -> list op) :
  (forall x a, ntrunc (g x a) = 0) -> forall l x, ntrunc (fold_ops f g l x) = 0.
Proof.
  intros H. induction l as [|a t IH]; intros x; [reflexivity|]. cbn [fold_ops]. rewrite ntrunc_app, H.
  destruct (f x a); [apply IH|reflexivity].
Qed.

Lemma move_center_ops_ntrunc cs c m rid : ntrunc (move_center_ops cs c m rid) = 0.
Proof.
  unfold move_center_ops. destruct (snd cs); [|reflexivity]. destruct (Nat.eqb i c); [reflexivity|].
  apply fold_ops_ntrunc0. intros [s' [cur|]] a; cbn [move_g]; [apply qr_ops_ntrunc|reflexivity].
Qed.

Lemma cas_ops_ntrunc kd rid cs n cs' : wf (fst cs) ->
  contract_and_split kd rid cs n = Some cs' -> ntrunc (cas_ops kd rid cs n) = 1.
Proof.
  destruct cs as [s oc]. cbn [fst snd]. intros W H. unfold contract_and_split in H. unfold cas_ops. cbn [fst] in *.
  destruct (aget n (nodes s)) as [nd|] eqn:En; [|discriminate].
  destruct (parent nd) as [p|] eqn:Hp; [|discriminate].
  destruct (legs_before_combination s n p) as [[cl pl]|] eqn:EL; [|discriminate].
  destruct (wf_parent_child s n nd p W En Hp) as (pn & Ep & Hnin).
  unfold legs_before_combination in EL. rewrite En, Ep in EL.
  assert (Hm : memb n (children pn) = true) by (apply memb_In; exact Hnin). rewrite Hm in EL.
  injection EL as <- <-. reflexivity.
Qed.

(* svd_truncation performs exactly one truncating split per node of update_path[:-1], i.e. (C10_svd_path_coverage) one
   per bond of the tree: the bound of svd_truncation_error has one term per bond *)
Theorem svd_truncation_ntrunc kd rid cs cs' : wf (fst cs) -> aget rid (nodes (fst cs)) = None ->
  svd_truncation kd rid cs = Some cs' ->
  ntrunc (svd_truncation_ops kd rid cs) = length (removelast (linearise (fst cs))).
Proof.
  intros W Hr H. unfold svd_truncation in H. unfold svd_truncation_ops.
  change (svd_step kd rid) with (ofold (svd_f kd rid)) in H.
  rewrite (fold_ops_ntrunc (svd_f kd rid) (svd_g kd rid) 1 (fun x => okst rid (fst x)))
    with (x' := cs'); [lia| |split; assumption|exact H].
  intros x n x' [Wx Hx] E. unfold svd_f in E. unfold svd_g.
  destruct (move_center x n Reduced rid) as [cs1|] eqn:Em; [|discriminate].
  destruct (move_center_kept _ _ _ _ _ Wx Hx Em) as (W1 & R1 & _).
  split.
  - rewrite ntrunc_app, move_center_ops_ntrunc. cbn. apply (cas_ops_ntrunc kd rid cs1 n x' W1 E).
  - destruct (cas_spec kd rid cs1 n x' W1 R1 E) as (p & Pn & _ & W2 & _ & V2).
    split; [exact W2|]. apply view_none. rewrite V2. destruct (Nat.eqb_spec rid n) as [->|_].
    + exfalso. rewrite pmap_aget, R1 in Pn. discriminate.
    + apply view_none. exact R1.
Qed.

(* ---- non-vacuity ---------------------------------------------------------------------------------------------
   distances in nat, the "state" a store denotes := the number of explicit-replacement (kind 2) kernel definitions it
   has recorded; it moves by exactly 1 at every truncating split and not at all otherwise, on the concrete
   svd_truncation run of TruncTreeValue (three-node star) and the recursive_truncation run (rank-deficient star) *)
Definition ex_dist (a b : nat) : nat := (a - b) + (b - a).
Definition ex_den (s : store) : nat := length (filter (fun d => Nat.eqb (kkind d) 2) (defs s)).

Lemma ex_metric_laws : metric_laws le 0 Nat.add ex_dist.
Proof. unfold ex_dist. split; intros; lia. Qed.

Lemma ex_svd_contract :
  along (step_contract le ex_dist ex_den (fun _ _ => 1)) (fst exs_cs) (svd_truncation_ops exs_kd 99 exs_cs) /\
  trunc_sum 0 Nat.add (fun _ _ => 1) (fst exs_cs) (svd_truncation_ops exs_kd 99 exs_cs) = 2 /\
  (exists cs', svd_truncation exs_kd 99 exs_cs = Some cs' /\ ex_dist (ex_den (fst exs_cs)) (ex_den (fst cs')) = 2).
Proof. vm_compute. repeat split; try reflexivity; try (repeat constructor). eexists. split; reflexivity. Qed.

Lemma ex_rec_contract :
  along (step_contract le ex_dist ex_den (fun _ _ => 1)) (fst exr_cs) (recursive_truncation_ops exr_tmp exr_kd 99 exr_cs) /\
  trunc_sum 0 Nat.add (fun _ _ => 1) (fst exr_cs) (recursive_truncation_ops exr_tmp exr_kd 99 exr_cs) = 2 /\
  (exists cs', recursive_truncation exr_tmp exr_kd 99 exr_cs = Some cs' /\ ex_dist (ex_den (fst exr_cs)) (ex_den (fst cs')) = 2).
Proof. vm_compute. repeat split; try reflexivity; try (repeat constructor). eexists. split; reflexivity. Qed.
