(* [ext-C10E] Layer C of the truncation error bound (property C10): vocabulary for accumulating the errors of
   the truncating splits along the literal operation trace of svd_truncation / recursive_truncation
   (TTN/TruncTreeValue.v: svd_truncation_ops, recursive_truncation_ops).  Definitions only; proofs in
   TruncErrorProofs.v.

   Everything numerical is ABSTRACT here: `V` is the space the states live in, `den : store -> V` the state a
   store denotes, `D` the type of distances with an order `dle`, a sum `dadd` and `dzero`; `dist : V -> V -> D`.
   No norm or square root is constructed; `metric_laws` is all that is used of them. *)
From Coq Require Import List.
From PTN Require Import TTN.Store.
Import ListNotations.

(* the splits that can discard something: kind 2 (explicit factors with a given bond dimension) -- the truncated SVD
   of contract_and_split_with_parent and the projector pair of recursive_truncation; QR splits are kind 0 *)
Definition is_trunc_split (o : op) : bool :=
  match o with Split _ _ _ _ _ 2 _ _ => true | _ => false end.

(* number of truncating splits of an operation list *)
Definition ntrunc (ops : list op) : nat := length (filter is_trunc_split ops).

Record metric_laws {V D : Type} (dle : D -> D -> Prop) (dzero : D) (dadd : D -> D -> D) (dist : V -> V -> D) : Prop := {
  ml_refl : forall a, dle a a;
  ml_trans : forall a b c, dle a b -> dle b c -> dle a c;
  ml_add_mono : forall a b c d, dle a b -> dle c d -> dle (dadd a c) (dadd b d);
  ml_dist_refl : forall x, dle (dist x x) dzero;
  ml_triangle : forall x y z, dle (dist x z) (dadd (dist x y) (dist y z)) }.

Section Sums.
  Context {D : Type}.
  Variables (dzero : D) (dadd : D -> D -> D).

  (* sum of w over the accepted steps of a run, in order *)
  Fixpoint run_sum (w : store -> op -> D) (s : store) (ops : list op) : D :=
    match ops with
    | [] => dzero
    | o :: t => match step s o with
                | Some s' => dadd (w s o) (run_sum w s' t)
                | None => run_sum w s t
                end
    end.

  (* the same over the accepted truncating splits only *)
  Fixpoint trunc_sum (eps : store -> op -> D) (s : store) (ops : list op) : D :=
    match ops with
    | [] => dzero
    | o :: t => match step s o with
                | Some s' => if is_trunc_split o then dadd (eps s o) (trunc_sum eps s' t) else trunc_sum eps s' t
                | None => trunc_sum eps s t
                end
    end.
End Sums.

(* the contract of one step of a run, for the accumulation theorem: a truncating split moves the denoted state by at
   most `bound s o`; every other operation (contraction, QR split, identity insertion, access) does not move it *)
Definition step_contract {V D : Type} (dle : D -> D -> Prop) (dist : V -> V -> D) (den : store -> V)
    (bound : store -> op -> D) (s : store) (o : op) (s' : store) : Prop :=
  if is_trunc_split o then dle (dist (den s) (den s')) (bound s o) else den s' = den s.

(* composition of maps, first element applied first *)
Definition apply_all {V : Type} (fs : list (V -> V)) (x : V) : V := fold_left (fun y f => f y) fs x.

Definition nonexpansive {V D : Type} (dle : D -> D -> Prop) (dist : V -> V -> D) (f : V -> V) : Prop :=
  forall x y, dle (dist (f x) (f y)) (dist x y).
