(* Proofs about TTN/InvSem.v, part 7: the kernel contracts restricted to IN-RANGE indices.
   InvSem.eye_atom asks the fresh atom of an insert_identity to be the identity matrix at EVERY pair of
   indices (also beyond the dimension of its two wires), and InvSem.def_holds asks Q.R = A at EVERY wire
   assignment.  Together they are too strong: when a freshly inserted identity node is split afterwards,
   the product of two factors through a finite bond would have to equal the unbounded identity, which is
   impossible (eye_split_unsatisfiable_Z in InvSemRunRange.v), so InvSemRun.run_net_value is vacuous for
   such sequences.  Here both contracts are stated on the index ranges recorded in the store only:
     - eye_atom_in_range: the table of the fresh atom is 1 / 0 on equal / different indices BELOW the
       dimensions of its two wires; nothing is said beyond;
     - def_holds_in_range: Q.R = A at every assignment that is in range on the axes of the input tensor.
   insert_identity preserves the value of the network at every assignment under the first (both wires of
   the identity atom are summed); split_nodes preserves it at every assignment that is in range on the
   open wires of the network under the second (every axis of the split tensor is an open wire of the
   network or a summed edge wire). *)
From Coq Require Import List Arith Bool Lia Permutation.
From PTN Require Import TTN.Store TTN.StoreProofs TTN.Inv TTN.InvProofs TTN.InvNode TTN.InvContract TTN.InvEdit
  TTN.InvBuild TTN.InvSplit TTN.InvRun TTN.InvWires Wire.Sem Wire.SemProofs TTN.InvSem TTN.InvSemProofs TTN.InvSemWfs
  TTN.InvSemValue TTN.InvSemOps TTN.InvSemEye.
Import ListNotations.

(* ---- the contracts ------------------------------------------------------------------------------------------------- *)
(* the assignment gives every wire of ws an index below its recorded dimension *)
Definition in_range (s : store) (ws : list wire) (rho : wire -> nat) : Prop :=
  forall x, In x ws -> rho x < wdim s x.

(* the two-axis atom a of store s is an identity matrix on its index range *)
Definition eye_atom_in_range {R : Type} (zero one : R) (s : store) (tbl : nat -> list nat -> R) (a : nat) : Prop :=
  forall i j, i < wdim s (nth 0 (atom_wires s a) 0) -> j < wdim s (nth 1 (atom_wires s a) 0) ->
    tbl a [i; j] = if Nat.eqb i j then one else zero.

(* the recorded factorisation holds at every assignment that is in range on the axes of its input *)
Definition def_holds_in_range {R : Type} (zero one : R) (add mul : R -> R -> R)
           (s : store) (tbl : nat -> list nat -> R) (d : kdef) : Prop :=
  forall rho, in_range s (axes (kinput d)) rho ->
    sum_upto R zero add (wdim s (kbond d))
      (fun k => mul (atom_val R (atom_wires s) tbl (upd rho (kbond d) k) (kq d))
                    (atom_val R (atom_wires s) tbl (upd rho (kbond d) k) (kr d)))
    = value_s zero one add mul s tbl (kinput d) rho.

(* the contracts required along a run, in-range form (both are stated in the store just produced) *)
Fixpoint contracts_hold_in_range {R : Type} (zero one : R) (add mul : R -> R -> R)
         (tbl : nat -> list nat -> R) (s : store) (ops : list op) : Prop :=
  match ops with
  | [] => True
  | o :: t =>
      match step s o with
      | Some s' =>
          match o with
          | Split _ _ _ _ _ _ _ _ => def_holds_in_range zero one add mul s' tbl (last (defs s') dflt_def)
          | InsertIdentity _ _ _ => eye_atom_in_range zero one s' tbl (next_atom s)
          | _ => True
          end /\ contracts_hold_in_range zero one add mul tbl s' t
      | None => contracts_hold_in_range zero one add mul tbl s t
      end
  end.

(* the in-range contracts are weaker than the unrestricted ones *)
Lemma eye_atom_weaken {R : Type} (zero one : R) s (tbl : nat -> list nat -> R) a :
  eye_atom zero one tbl a -> eye_atom_in_range zero one s tbl a.
Proof. intros H i j _ _. apply H. Qed.

Lemma def_holds_weaken {R : Type} (zero one : R) (add mul : R -> R -> R) s (tbl : nat -> list nat -> R) d :
  def_holds zero one add mul s tbl d -> def_holds_in_range zero one add mul s tbl d.
Proof. intros H rho _. apply H. Qed.

Lemma contracts_hold_weaken {R : Type} (zero one : R) (add mul : R -> R -> R) (tbl : nat -> list nat -> R) :
  forall ops s, contracts_hold zero one add mul tbl s ops -> contracts_hold_in_range zero one add mul tbl s ops.
Proof.
  induction ops as [|o t IH]; intros s H; cbn [contracts_hold contracts_hold_in_range] in *; [exact I|].
  destruct (step s o) as [s'|]; [|apply IH; exact H]. destruct H as [H1 H2]. split; [|apply IH; exact H2].
  destruct o; try exact I; [apply def_holds_weaken; exact H1|apply eye_atom_weaken; exact H1].
Qed.

(* ---- where the axes of a tensor sit in the network diagram --------------------------------------------------------- *)
Lemma total_axes_open_or_bnd s x : wf s -> In x (total_axes s) -> In x (open_wires s) \/ In x (edge_wires s).
Proof.
  intros W Hin.
  rewrite (total_axes_all_lax s W), (wf_all_lax_perm s W), own_wires_split, <- (edge_wires_ew s W) in Hin.
  rewrite !in_app_iff in Hin. tauto.
Qed.

Lemma open_wires_lt s x : wfs s -> In x (open_wires s) -> x < next_wire s.
Proof.
  intros WS Hin. apply (In_total_ends_lt s x WS). rewrite (wf_total_ends s (ws_wf s WS)). apply in_or_app. left. exact Hin.
Qed.

(* ---- bounded sums only look at in-range assignments ----------------------------------------------------------------- *)
Section RangeSum.
  Variable R : Type.
  Variables (zero : R) (add : R -> R -> R).

  Lemma sum_bnd_world_range (dim dim' : wire -> nat) ws (F F' : (wire -> nat) -> R) :
    (forall w, In w ws -> dim w = dim' w) ->
    forall rho,
    (forall r, (forall x, In x ws -> r x < dim x) -> (forall x, ~ In x ws -> r x = rho x) -> F r = F' r) ->
    sum_bnd R zero add dim ws F rho = sum_bnd R zero add dim' ws F' rho.
  Proof.
    intros Hd. induction ws as [|w t IH]; intros rho HF; cbn [sum_bnd].
    - apply HF; [intros x []|reflexivity].
    - rewrite <- (Hd w (or_introl eq_refl)). apply (sum_upto_ext R zero add). intros k Hk.
      apply IH; [intros x Hx; apply Hd; right; exact Hx|].
      intros r Hr Ho. apply HF.
      + intros x [<-|Hx]; [|apply Hr; exact Hx].
        destruct (in_dec Nat.eq_dec w t) as [Hi|Hn]; [apply Hr; exact Hi|].
        rewrite (Ho w Hn). unfold upd. rewrite Nat.eqb_refl. exact Hk.
      + intros x Hx. assert (Hxt : ~ In x t) by (intros Hi; apply Hx; right; exact Hi).
        rewrite (Ho x Hxt). unfold upd. destruct (Nat.eqb_spec x w) as [->|_]; [|reflexivity].
        exfalso. apply Hx. left. reflexivity.
  Qed.
End RangeSum.

(* ---- split_nodes under the in-range kernel contract ------------------------------------------------------------------ *)
Section SplitValueRange.
  Variable R : Type.
  Variables (zero one : R) (add mul : R -> R -> R).
  Hypothesis SR : comm_semiring zero one add mul.
  Variable tbl : nat -> list nat -> R.

  Local Notation net_value := (net_value zero one add mul).
  Local Notation sum_upto := (sum_upto R zero add).

  Theorem split_net_value_in_range s n o i oid iid kind m rbond s' :
    wfs s -> split_nodes s n o i oid iid kind m rbond = Some s' -> spec_ok s n o i -> ids_ok s n oid iid ->
    def_holds_in_range zero one add mul s' tbl (last (defs s') dflt_def) ->
    Permutation (open_wires s') (open_wires s) /\
    forall rho, in_range s (open_wires s) rho -> net_value s' tbl rho = net_value s tbl rho.
  Proof.
    intros WS Hs Hspec Hids Hdef. pose proof (ws_wf s WS) as W.
    pose proof (split_preserves_wf s n o i oid iid kind m rbond s' W Hs Hspec Hids) as W'.
    destruct (split_total_ends s n o i oid iid kind m rbond s' W Hs Hids) as (restE & PE & PE').
    destruct (split_total_atoms s n o i oid iid kind m rbond s' W Hs Hids) as (restA & PA & PA').
    destruct (split_new_def s n o i oid iid kind m rbond s' dflt_def W Hs)
      as (s1 & nd & t & ol & il & bd & Ha & _ & _ & _ & Hpoi & _ & Hlast & _ & _ & _ & _ & _ & _ & _).
    destruct (split_access_facts _ _ _ _ _ W Ha) as (nd0 & t0 & End0 & Et0 & _ & Etr & _ & _ & _ & _ & _ & Hlaxt & Ht0).
    set (b := next_wire s) in *. set (T := tens s n) in *.
    assert (PEE : Permutation (total_ends s' ++ bnd T ++ bnd T) (total_ends s ++ [b] ++ [b])).
    { rewrite PE', PE. unfold sarr_ends. apply (Permutation_count_occ Nat.eq_dec). intros z.
      cbn [app]. rewrite !count_occ_app. cbn [count_occ]. rewrite !count_occ_app. destruct (Nat.eq_dec b z); nlia. }
    destruct (ends_determine_bnd s s' (bnd T) [b] W W' PEE) as [PO PB].
    split; [exact PO|].
    set (X := flat_map (fun kt : id * sarr => bnd (snd kt)) (adel n (tensors s)) ++ edge_wires s).
    assert (ET : aget n (tensors s) = Some T) by (rewrite Ht0; exact Et0).
    assert (PX : Permutation (net_bnd s) (X ++ bnd T)).
    { unfold net_bnd, total_bnd, X. rewrite (flat_map_adel_perm _ n T (tensors s) ET). cbn [snd].
      apply (Permutation_count_occ Nat.eq_dec). intros z. rewrite !count_occ_app. nlia. }
    assert (PX' : Permutation (net_bnd s') (X ++ [b])).
    { apply (Permutation_app_inv_r (bnd T)). rewrite PB, PX.
      apply (Permutation_count_occ Nat.eq_dec). intros z. rewrite !count_occ_app. nlia. }
    assert (HrA : forall a, In a restA -> exists k tk, aget k (tensors s) = Some tk /\ k <> n /\ In a (atoms tk)).
    { intros a Hin. pose proof (ws_atoms_nd s WS) as Hnd. rewrite PA in Hnd. apply NoDup_app_iff in Hnd.
      destruct Hnd as (_ & _ & Hdis).
      assert (Hat : In a (total_atoms s)) by (apply (Permutation_in _ (Permutation_sym PA)); apply in_or_app; right; exact Hin).
      unfold total_atoms in Hat. apply in_flat_map in Hat. destruct Hat as ([k tk] & Hk & Hak). cbn [snd] in Hak.
      apply (In_aget _ _ _ (wf_tnd s W)) in Hk. exists k, tk. split; [exact Hk|]. split; [|exact Hak].
      intros ->. rewrite ET in Hk. injection Hk as <-. apply (Hdis a Hak Hin). }
    assert (Av : atoms_avoid (atom_wires s) restA (bnd T)).
    { intros a Hin. destruct (HrA a Hin) as (k & tk & Ek & Hne & Hak). apply (wfs_atoms_avoid s k tk n T WS Ek ET Hne a Hak). }
    assert (HrAlt : forall a, In a restA -> a < next_atom s).
    { intros a Hin. destruct (HrA a Hin) as (k & tk & Ek & _ & Hak). apply (ws_atoms_lt s WS).
      apply (total_atoms_In s k tk a (aget_In _ _ _ Ek) Hak). }
    assert (Av' : atoms_avoid (atom_wires s') restA [b]).
    { intros a Hin x Hx [<-|[]]. rewrite (split_atom_wires_old _ _ _ _ _ _ _ _ _ _ a Hs (HrAlt a Hin)) in Hx.
      destruct (HrA a Hin) as (k & tk & Ek & _ & Hak). pose proof (aget_In _ _ _ Ek) as Ik.
      destruct (ws_closed s WS k tk Ek a Hak b Hx) as [Hax|Hbn].
      - pose proof (wf_wires s W k tk b Ek Hax). unfold b in *. lia.
      - pose proof (ws_bnd_lt s WS b (total_bnd_In s k tk b Ik Hbn)). unfold b in *. lia. }
    assert (HTat : forall a, In a (atoms T) -> atom_wires s' a = atom_wires s a).
    { intros a Hin. apply (split_atom_wires_old _ _ _ _ _ _ _ _ _ _ a Hs). apply (ws_atoms_lt s WS).
      apply (total_atoms_In s n T a (aget_In _ _ _ ET) Hin). }
    assert (Hnb_lt : forall w, In w (net_bnd s) -> w < next_wire s).
    { intros w Hw. unfold net_bnd in Hw. apply in_app_or in Hw. destruct Hw as [Hw|Hw]; [apply (ws_bnd_lt s WS w Hw)|].
      assert (Hown : In w (own_wires s)) by (rewrite own_wires_split; apply in_or_app; left; exact Hw).
      unfold own_wires in Hown. apply in_flat_map in Hown. destruct Hown as ([k nk] & Hk & Hwk).
      apply (wf_own_bound s k nk w W (In_aget _ _ _ (wf_nd s W) Hk) Hwk). }
    (* the axes of the recorded input are axes of the split tensor: open wires of the network or edge wires *)
    assert (Hin_ax : forall x, In x (axes (s_transpose (ol ++ il) t)) -> In x (total_axes s)).
    { intros x Hx. cbn [s_transpose axes] in Hx. apply (Permutation_in _ (permute_is_perm 0 _ _ Hpoi)) in Hx.
      rewrite Hlaxt in Hx. apply (Permutation_in _ (Permutation_sym (total_axes_all_lax s W))).
      unfold all_lax. apply in_flat_map. exists (n, nd0). split; [apply aget_In; exact End0|exact Hx]. }
    intros rho Hrho. unfold InvSem.net_value, value_s.
    rewrite (value_perm_gen R zero one add mul SR (atom_wires s') (wdim s') tbl (net_diagram s')
               {| axes := []; atoms := [next_atom s; S (next_atom s)] ++ restA; bnd := X ++ [b] |} rho PA' PX').
    rewrite (value_perm_gen R zero one add mul SR (atom_wires s) (wdim s) tbl (net_diagram s)
               {| axes := []; atoms := atoms T ++ restA; bnd := X ++ bnd T |} rho PA PX).
    unfold value. cbn [atoms bnd].
    rewrite (sum_factor R zero one add mul SR tbl (atom_wires s') (wdim s') _ _ _ _ rho Av'),
            (sum_factor R zero one add mul SR tbl (atom_wires s) (wdim s) _ _ _ _ rho Av).
    apply sum_bnd_world_range.
    - intros w Hw. apply (split_wdim_old _ _ _ _ _ _ _ _ _ _ w W Hs). apply Hnb_lt.
      apply (Permutation_in _ (Permutation_sym PX)). apply in_or_app. left. exact Hw.
    - intros r Hr Hout. f_equal.
      + cbn [sum_bnd atoms_val prod_over].
        transitivity (value_s zero one add mul s' tbl (s_transpose (ol ++ il) t) r).
        * unfold def_holds_in_range in Hdef. rewrite Hlast in Hdef. cbn [kq kr kbond kinput] in Hdef. rewrite <- (Hdef r).
          -- apply (sum_upto_ext R zero add). intros k _. rewrite (sr_mul_1_r R zero one add mul SR). reflexivity.
          -- (* r is in range on the axes of the input *)
             intros x Hx. pose proof (Hin_ax x Hx) as HxT.
             assert (Hxlt : x < next_wire s).
             { apply total_axes_In in HxT. destruct HxT as (k & tk & Hk & Hxk).
               apply (wf_wires s W k tk x (In_aget _ _ _ (wf_tnd s W) Hk) Hxk). }
             destruct (in_dec Nat.eq_dec x X) as [HX|HnX]; [apply Hr; exact HX|].
             rewrite (split_wdim_old _ _ _ _ _ _ _ _ _ _ x W Hs Hxlt).
             rewrite (Hout x HnX). apply Hrho.
             destruct (total_axes_open_or_bnd s x W HxT) as [Ho|He]; [exact Ho|].
             exfalso. apply HnX. unfold X. apply in_or_app. right. exact He.
        * unfold value_s. rewrite Etr. unfold value. cbn [s_transpose atoms bnd]. fold T. rewrite <- Ht0. fold T.
          apply sum_bnd_world; [|intros r'; apply atoms_val_world; exact HTat].
          intros w Hw. apply (split_wdim_old _ _ _ _ _ _ _ _ _ _ w W Hs). apply (ws_bnd_lt s WS).
          apply (total_bnd_In s n T w (aget_In _ _ _ ET) Hw).
      + apply atoms_val_world. intros a Hin. apply (split_atom_wires_old _ _ _ _ _ _ _ _ _ _ a Hs (HrAlt a Hin)).
  Qed.
End SplitValueRange.

(* ---- insert_identity under the in-range identity contract -------------------------------------------------------------- *)
Section EyeValueRange.
  Variable R : Type.
  Variables (zero one : R) (add mul : R -> R -> R).
  Hypothesis SR : comm_semiring zero one add mul.
  Variable tbl : nat -> list nat -> R.

  Local Notation net_value := (net_value zero one add mul).
  Local Notation sum_upto := (sum_upto R zero add).
  Local Notation atoms_val := (atoms_val R one mul).

  (* both wires of the identity atom (the child's old parent wire and the fresh wire) are summed within the
     dimension of the old edge, so only in-range entries of its table are read: the value is unchanged at
     EVERY assignment *)
  Theorem insert_identity_net_value_in_range s c p new s' :
    wfs s -> insert_identity s c p new = Some s' -> eye_atom_in_range zero one s' tbl (next_atom s) ->
    open_wires s' = open_wires s /\ forall rho, net_value s' tbl rho = net_value s tbl rho.
  Proof.
    intros WS Hi Heye. pose proof (ws_wf s WS) as W. pose proof (insert_identity_preserves_wf s c p new s' W Hi) as W'.
    pose proof (insert_identity_total_ends s c p new s' W Hi) as PE.
    pose proof (insert_identity_total_atoms s c p new s' W Hi) as EA.
    pose proof (insert_identity_open_wires s c p new s' W Hi) as EO.
    split; [exact EO|].
    destruct (insert_identity_atom_wires s c p new s' WS Hi) as (cn & ct & Ec & Et & Hw1 & Hw2 & Hw3 & _).
    destruct (insert_identity_facts s c p new s' W Hi)
      as (cn' & pn & ct' & pm & L' & Ec' & Ep & Et' & Epar & _ & _ & _ & _ & _ & _ & _ & _ & Hlax & _ & _ & Hcwlt & _ & _ & _ & Hdims & _ & _).
    rewrite Ec in Ec'. injection Ec' as <-. rewrite Et in Et'. injection Et' as <-.
    set (cw := ii_cw cn ct) in *. set (w := next_wire s) in *. set (na := next_atom s) in *.
    assert (Hcww : cw <> w) by (unfold w; lia).
    assert (PB : Permutation (net_bnd s') (net_bnd s ++ [w])).
    { destruct (ends_determine_bnd s s' [] [w] W W') as [_ H2]; [|rewrite app_nil_r in H2; exact H2].
      rewrite PE. cbn. rewrite app_nil_r. apply (Permutation_count_occ Nat.eq_dec). intros z.
      cbn [count_occ]. rewrite count_occ_app. cbn [count_occ]. destruct (Nat.eq_dec w z); nlia. }
    assert (Hcwe : In cw (net_bnd s)).
    { unfold net_bnd. apply in_or_app. right. unfold edge_wires. apply in_flat_map. exists (c, cn).
      split; [apply aget_In; exact Ec|]. apply (node_edge_In s c cn cw W Ec). split; [congruence|].
      unfold ew. rewrite Ec. unfold lax. rewrite (tens_aget _ _ _ Et), Hlax. reflexivity. }
    destruct (in_split _ _ Hcwe) as (Y1 & Y2 & EY). set (Y := Y1 ++ Y2).
    assert (PY : Permutation (net_bnd s) (Y ++ [cw])).
    { rewrite EY. unfold Y. rewrite <- Permutation_middle. symmetry. rewrite <- app_assoc. symmetry.
      apply (Permutation_count_occ Nat.eq_dec). intros z. cbn [count_occ]. rewrite !count_occ_app. cbn [count_occ].
      destruct (Nat.eq_dec cw z); nlia. }
    assert (PY' : Permutation (net_bnd s') (Y ++ [cw; w])).
    { rewrite PB, PY, <- app_assoc. reflexivity. }
    assert (Hwd : forall x, wdim s' x = if Nat.eqb x w then wdim s cw else wdim s x).
    { intros x. apply (wdim_snoc s s' w (wdim s cw) x Hdims). apply aget_None. intros Hin. pose proof (wf_dims s W _ Hin). unfold w in *. lia. }
    (* the contract, read in the dimensions of s *)
    assert (Heye' : forall i j, i < wdim s cw -> j < wdim s cw -> tbl na [i; j] = if Nat.eqb i j then one else zero).
    { intros i j Hi' Hj'. apply Heye; rewrite Hw3; cbn [nth]; rewrite Hwd.
      - destruct (Nat.eqb_spec cw w); [contradiction|exact Hi'].
      - rewrite Nat.eqb_refl. exact Hj'. }
    assert (PA : Permutation (total_atoms s) (atoms ct ++ flat_map (fun kt => atoms (snd kt)) (adel c (tensors s)))).
    { unfold total_atoms. apply (flat_map_adel_perm (fun kt : id * sarr => atoms (snd kt)) c ct (tensors s) Et). }
    set (restA := flat_map (fun kt : id * sarr => atoms (snd kt)) (adel c (tensors s))) in *.
    assert (HinA : forall a, In a (atoms ct) -> In a (total_atoms s)).
    { intros a Ha. apply (Permutation_in _ (Permutation_sym PA)). apply in_or_app. left. exact Ha. }
    assert (HinB : forall a, In a restA -> In a (total_atoms s) /\ ~ In a (atoms ct)).
    { intros a Ha. split; [apply (Permutation_in _ (Permutation_sym PA)); apply in_or_app; right; exact Ha|].
      pose proof (ws_atoms_nd s WS) as Hnd. rewrite PA in Hnd. apply NoDup_app_iff in Hnd. destruct Hnd as (_ & _ & Hd).
      intros Hc. apply (Hd a Hc Ha). }
    assert (Hlt : forall a, In a (total_atoms s) -> forall x, In x (atom_wires s a) -> x <> w).
    { intros a Ha x Hx. pose proof (wfs_atom_wires_lt s a x WS Ha Hx). unfold w. lia. }
    assert (HvalA : forall r, atoms_val (atom_wires s') tbl (atoms ct) r = atoms_val (atom_wires s) tbl (atoms ct) (upd r cw (r w))).
    { intros r. unfold Sem.atoms_val. apply (prod_over_ext R one mul). intros a Ha. unfold atom_val.
      rewrite (Hw1 a Ha), map_map. f_equal. apply map_ext. intros x. unfold ii_sub, upd.
      destruct (Nat.eqb x cw); reflexivity. }
    assert (HvalB : forall r, atoms_val (atom_wires s') tbl restA r = atoms_val (atom_wires s) tbl restA r).
    { intros r. apply atoms_val_world. intros a Ha. destruct (HinB a Ha) as [H1 H2]. apply (Hw2 a H2).
      pose proof (ws_atoms_lt s WS a H1). unfold na. lia. }
    intros rho. unfold InvSem.net_value, value_s.
    rewrite (value_perm_gen R zero one add mul SR (atom_wires s') (wdim s') tbl (net_diagram s')
               {| axes := []; atoms := (atoms ct ++ restA) ++ [na]; bnd := Y ++ [cw; w] |} rho);
      [|cbn [atoms net_diagram]; rewrite EA; apply Permutation_app_tail; exact PA|exact PY'].
    rewrite (value_perm_gen R zero one add mul SR (atom_wires s) (wdim s) tbl (net_diagram s)
               {| axes := []; atoms := atoms ct ++ restA; bnd := Y ++ [cw] |} rho PA PY).
    unfold value. cbn [atoms bnd]. rewrite !(sum_bnd_app R zero add).
    apply sum_bnd_world.
    - intros x Hx. rewrite Hwd. destruct (Nat.eqb_spec x w) as [->|_]; [|reflexivity].
      exfalso. assert (Hin : In w (net_bnd s)) by (rewrite PY; apply in_or_app; left; exact Hx).
      unfold net_bnd in Hin. apply in_app_or in Hin. destruct Hin as [Hin|Hin].
      + pose proof (ws_bnd_lt s WS w Hin). unfold w in *. lia.
      + assert (Hown : In w (own_wires s)) by (rewrite own_wires_split; apply in_or_app; left; exact Hin).
        unfold own_wires in Hown. apply in_flat_map in Hown. destruct Hown as ([k nk] & Hk & Hwk).
        pose proof (wf_own_bound s k nk w W (In_aget _ _ _ (wf_nd s W) Hk) Hwk). unfold w in *. lia.
    - intros r. cbn [sum_bnd]. rewrite !Hwd. rewrite Nat.eqb_refl.
      destruct (Nat.eqb_spec cw w) as [|_]; [contradiction|].
      apply (sum_upto_ext R zero add). intros k Hk.
      transitivity (sum_upto (wdim s cw)
                      (fun k' => mul (mul (atoms_val (atom_wires s) tbl (atoms ct) (upd r cw k'))
                                          (atoms_val (atom_wires s) tbl restA (upd r cw k)))
                                     (if Nat.eqb k k' then one else zero))).
      + apply (sum_upto_ext R zero add). intros k' Hk'.
        rewrite !(atoms_val_app R zero one add mul SR). rewrite HvalA, HvalB. cbn [Sem.atoms_val prod_over].
        rewrite (sr_mul_1_r' R zero one add mul SR). unfold atom_val. rewrite Hw3. cbn [map].
        assert (E1 : upd (upd r cw k) w k' cw = k) by (unfold upd; rewrite Nat.eqb_refl; destruct (Nat.eqb_spec cw w); [contradiction|reflexivity]).
        assert (E2 : upd (upd r cw k) w k' w = k') by (unfold upd; rewrite Nat.eqb_refl; reflexivity).
        rewrite E1, E2, (Heye' k k' Hk Hk'). f_equal. f_equal.
        * apply (atoms_val_agree R one mul tbl). intros a Ha x Hx. pose proof (Hlt a (HinA a Ha) x Hx) as Hxw. unfold upd.
          destruct (Nat.eqb_spec x cw); [reflexivity|]. destruct (Nat.eqb_spec x w); [contradiction|reflexivity].
        * apply (atoms_val_agree R one mul tbl). intros a Ha x Hx. pose proof (Hlt a (proj1 (HinB a Ha)) x Hx) as Hxw. unfold upd.
          destruct (Nat.eqb_spec x w); [contradiction|reflexivity].
      + rewrite (sum_upto_delta R zero one add mul SR). destruct (Nat.ltb_spec k (wdim s cw)); [|lia].
        rewrite (atoms_val_app R zero one add mul SR). reflexivity.
  Qed.
End EyeValueRange.
