(* distance_to_node on structural trees (TTN/CanonTree.v: tstruct): the fuelled DFS of Canon.v
   computes tree distances.  Method: the DFS call (cur, last) enumerates exactly the
   non-backtracking walks that start at cur and whose first step avoids last ([reach]); in a
   tstruct such walks are unique for given end points ([reach_unique], via the "next step
   toward k" relation [twd]), hence simple and shorter than the dictionary (fuel suffices). *)
From Coq Require Import List Arith Bool Lia Permutation.
From PTN Require Import TTN.Store TTN.StoreProofs TTN.Canon TTN.Inv TTN.InvProofs TTN.InvNode TTN.CanonTree.
Import ListNotations.

(* ---- first_min ------------------------------------------------------------------------------------ *)
Lemma first_min_gen_unique d l x : (forall y, In y l -> y <> x -> dget d x < dget d y) ->
  forall b, (b = x \/ (In x l /\ dget d x < dget d b)) -> first_min d l (Some b) = Some x.
Proof.
  induction l as [|y t IH]; intros H b Hb; cbn [first_min].
  - destruct Hb as [->|[[] _]]. reflexivity.
  - assert (Ht : forall z, In z t -> z <> x -> dget d x < dget d z) by (intros z Hz; apply H; right; exact Hz).
    destruct (Nat.ltb_spec (dget d y) (dget d b)) as [Hlt|Hge].
    + apply IH; [exact Ht|]. destruct (Nat.eq_dec y x) as [->|Hne]; [left; reflexivity|].
      pose proof (H y (or_introl eq_refl) Hne) as Hxy. right. destruct Hb as [->|[[->|Hin] Hlt']].
      * lia.
      * congruence.
      * split; [exact Hin|exact Hxy].
    + apply IH; [exact Ht|]. destruct Hb as [->|[[->|Hin] Hlt']]; [left; reflexivity|lia|].
      right. split; assumption.
Qed.

Lemma first_min_unique d l x : In x l -> (forall y, In y l -> y <> x -> dget d x < dget d y) ->
  first_min d l None = Some x.
Proof.
  destruct l as [|y t]; [intros []|]. intros Hin H. cbn.
  apply first_min_gen_unique.
  - intros z Hz. apply H. right. exact Hz.
  - destruct (Nat.eq_dec y x) as [->|Hne]; [left; reflexivity|]. right.
    destruct Hin as [->|Hin]; [congruence|]. split; [exact Hin|]. apply H; [left; reflexivity|exact Hne].
Qed.

Lemma first_min_gen_in d l : forall b x, first_min d l (Some b) = Some x -> x = b \/ In x l.
Proof.
  induction l as [|y t IH]; intros b x; cbn [first_min].
  - intros [= ->]. left. reflexivity.
  - destruct (Nat.ltb (dget d y) (dget d b)); intros H; apply IH in H; destruct H as [->|H]; cbn [In]; auto.
Qed.

Lemma first_min_in d l x : first_min d l None = Some x -> In x l.
Proof.
  destruct l as [|y t]; cbn; [discriminate|]. intros H. apply first_min_gen_in in H. destruct H as [->|H]; auto.
Qed.

Lemma first_min_gen_le d l : forall b x, first_min d l (Some b) = Some x ->
  dget d x <= dget d b /\ forall y, In y l -> dget d x <= dget d y.
Proof.
  induction l as [|y t IH]; intros b x; cbn [first_min].
  - intros [= ->]. split; [lia|intros ? []].
  - destruct (Nat.ltb_spec (dget d y) (dget d b)) as [Hlt|Hge]; intros H; apply IH in H; destruct H as [H1 H2].
    + split; [lia|]. intros z [<-|Hz]; [exact H1|apply H2; exact Hz].
    + split; [exact H1|]. intros z [<-|Hz]; [lia|apply H2; exact Hz].
Qed.

Lemma first_min_le d l x : first_min d l None = Some x -> forall y, In y l -> dget d x <= dget d y.
Proof.
  destruct l as [|z t]; cbn; [discriminate|]. intros H. apply first_min_gen_le in H. destruct H as [H1 H2].
  intros y [<-|Hy]; [exact H1|apply H2; exact Hy].
Qed.

Lemma first_min_gen_some d l : forall b, exists x, first_min d l (Some b) = Some x.
Proof.
  induction l as [|y t IH]; intros b; cbn [first_min]; [eauto|]. destruct (Nat.ltb (dget d y) (dget d b)); apply IH.
Qed.

Lemma first_min_some d l : l <> [] -> exists x, first_min d l None = Some x.
Proof. destruct l as [|y t]; [congruence|]. intros _. cbn. apply first_min_gen_some. Qed.

(* ---- non-backtracking walks ------------------------------------------------------------------------ *)
(* the neighbours a DFS call (cur, last) recurses into *)
Definition nbs_of (last : option id) (n : node) : list id :=
  match last with Some e => remove_first e (neighbouring_nodes n) | None => neighbouring_nodes n end.

(* [reach l last x k prev v]: there is a walk x = x0, x1, ..., xv = k along edges of l that never
   steps back (x_{i+2} <> x_i), whose first step avoids [last]; [prev] is the predecessor of k on
   the walk ([last] itself for the empty walk). *)
Inductive reach (l : list (id * node)) : option id -> id -> id -> option id -> nat -> Prop :=
| reach_0 last x n : aget x l = Some n -> reach l last x x last 0
| reach_S last x n y k prev v : aget x l = Some n -> In y (neighbouring_nodes n) -> Some y <> last ->
    reach l (Some x) y k prev v -> reach l last x k prev (S v).

Lemma reach_in_r l last x k prev v : reach l last x k prev v -> exists nk, aget k l = Some nk.
Proof. induction 1; eauto. Qed.

Lemma reach_in_l l last x k prev v : reach l last x k prev v -> exists nx, aget x l = Some nx.
Proof. destruct 1; eauto. Qed.

Lemma reach_list l last x k prev v : reach l last x k prev v ->
  exists w, length w = S v /\ forall i, i <= v -> exists pv, reach l last x (nth i w 0) pv i.
Proof.
  induction 1 as [last x n E|last x n y k prev v E Hy Hl Hr IH].
  - exists [x]. split; [reflexivity|]. intros i Hi. assert (i = 0) as -> by lia. exists last. cbn. econstructor; eauto.
  - destruct IH as (w & Hlen & Hw). exists (x :: w). split; [cbn; lia|]. intros [|i] Hi.
    + exists last. cbn. econstructor; eauto.
    + destruct (Hw i ltac:(lia)) as [pv Hpv]. exists pv. cbn. econstructor; eauto.
Qed.

Lemma reach_unsnoc l last x k prev v : reach l last x k prev (S v) ->
  exists p np pp, prev = Some p /\ aget p l = Some np /\ In k (neighbouring_nodes np) /\ Some k <> pp /\
                  reach l last x p pp v.
Proof.
  revert last x. induction v as [|v IH]; intros last x H; inversion H as [|? ? n y ? ? ? E Hy Hl Hr]; subst.
  - inversion Hr; subst. exists x, n, last. repeat split; auto. econstructor; eauto.
  - apply IH in Hr. destruct Hr as (p & np & pp & -> & Ep & Hk & Hne & Hr).
    exists p, np, pp. repeat split; auto. econstructor; eauto.
Qed.

Section Tree.
  Variable l : list (id * node).
  Hypothesis T : tstruct l.
  Variable rank : id -> nat.
  Hypothesis Hrank : forall c cn p, aget c l = Some cn -> parent cn = Some p -> rank p < rank c.

  Lemma reach_snoc last x k prev v nk z : reach l last x k prev v -> aget k l = Some nk ->
    In z (neighbouring_nodes nk) -> Some z <> prev -> reach l last x z (Some k) (S v).
  Proof.
    intros H. revert nk z. induction H as [last x n E|last x n y k prev v E Hy Hl Hr IH]; intros nk z Ek Hz Hne.
    - destruct (ts_neighbour_sym _ _ _ _ T Ek Hz) as (zn & Ez & _).
      econstructor; eauto. econstructor; eauto.
    - econstructor; eauto.
  Qed.

  (* x is an ancestor-or-self of k (climbing from k) *)
  Inductive isanc : id -> id -> Prop :=
  | isanc_refl k n : aget k l = Some n -> isanc k k
  | isanc_up x k n p : aget k l = Some n -> parent n = Some p -> isanc x p -> isanc x k.

  Lemma isanc_rank x k : isanc x k -> rank x <= rank k.
  Proof. induction 1 as [|x k n p E Hp H IH]; [lia|]. pose proof (Hrank _ _ _ E Hp). lia. Qed.

  Lemma isanc_parent y k : isanc y k -> forall ny x, aget y l = Some ny -> parent ny = Some x -> isanc x k.
  Proof.
    induction 1 as [k n E|y k n p E Hp H IH]; intros ny x Ey Hy.
    - destruct (ts_par _ T _ _ _ Ey Hy) as (pn & Epn & _).
      eapply isanc_up; eauto. econstructor; eauto.
    - eapply isanc_up; eauto.
  Qed.

  Lemma isanc_chain y k : isanc y k -> forall y', isanc y' k -> isanc y y' \/ isanc y' y.
  Proof.
    induction 1 as [k n E|y k n p E Hp H IH]; intros y' H'.
    - right. exact H'.
    - inversion H' as [? n0 E0|? ? n0 p0 E0 Hp0 H0]; subst.
      + left. exact (isanc_up _ _ _ _ E Hp H).
      + assert (p0 = p) by congruence. subst. apply IH. exact H0.
  Qed.

  Lemma isanc_strict y y' ny' x : isanc y y' -> y <> y' -> aget y' l = Some ny' -> parent ny' = Some x -> isanc y x.
  Proof.
    intros H Hne E Hp. inversion H as [|? ? n p E0 Hp0 H0]; subst; [congruence|].
    assert (p = x) by congruence. subst. exact H0.
  Qed.

  Lemma isanc_siblings y y' k ny ny' x : isanc y k -> isanc y' k ->
    aget y l = Some ny -> aget y' l = Some ny' -> parent ny = Some x -> parent ny' = Some x -> y = y'.
  Proof.
    intros H H' E E' Hp Hp'. destruct (Nat.eq_dec y y') as [|Hne]; [assumption|exfalso].
    pose proof (Hrank _ _ _ E Hp). pose proof (Hrank _ _ _ E' Hp').
    destruct (isanc_chain _ _ H _ H') as [A|A].
    - apply isanc_rank in A as A'. pose proof (isanc_rank _ _ (isanc_strict _ _ _ _ A Hne E' Hp')). lia.
    - pose proof (isanc_rank _ _ (isanc_strict _ _ _ _ A (fun e => Hne (eq_sym e)) E Hp)). lia.
  Qed.

  Lemma isanc_dec_aux m : forall k, rank k < m -> forall x, isanc x k \/ ~ isanc x k.
  Proof.
    induction m as [|m IH]; intros k Hk x; [lia|].
    destruct (aget k l) as [n|] eqn:E.
    - destruct (Nat.eq_dec x k) as [->|Hne]; [left; econstructor; eauto|].
      destruct (parent n) as [p|] eqn:Hp.
      + pose proof (Hrank _ _ _ E Hp). destruct (IH p ltac:(lia) x) as [A|A].
        * left. eapply isanc_up; eauto.
        * right. intros B. inversion B as [|? ? n0 p0 E0 Hp0 H0]; subst; [congruence|].
          apply A. assert (p0 = p) by congruence. subst. exact H0.
      + right. intros B. inversion B; subst; congruence.
    - right. intros B. inversion B; subst; congruence.
  Qed.

  Lemma isanc_dec x k : isanc x k \/ ~ isanc x k.
  Proof. apply (isanc_dec_aux (S (rank k))). lia. Qed.

  (* y is the next node after x on the way to k *)
  Definition twd (k x y : id) : Prop :=
    (exists nx, aget x l = Some nx /\ parent nx = Some y /\ ~ isanc x k) \/
    (exists ny, aget y l = Some ny /\ parent ny = Some x /\ isanc y k).

  Lemma twd_fun k x y y' : twd k x y -> twd k x y' -> y = y'.
  Proof.
    intros [(nx & E & Hp & Hn)|(ny & E & Hp & Ha)] [(nx' & E' & Hp' & Hn')|(ny' & E' & Hp' & Ha')].
    - congruence.
    - exfalso. apply Hn. eapply isanc_parent; eauto.
    - exfalso. apply Hn'. eapply isanc_parent; eauto.
    - eapply isanc_siblings; eauto.
  Qed.

  Lemma twd_dich k x nx y : aget x l = Some nx -> In y (neighbouring_nodes nx) -> twd k x y \/ twd k y x.
  Proof.
    intros E Hy. apply in_neighbouring in Hy. destruct Hy as [Hp|Hc].
    - destruct (isanc_dec x k) as [A|A].
      + right. right. exists nx. auto.
      + left. left. exists nx. auto.
    - destruct (ts_ch _ T _ _ _ E Hc) as (cn & Ec & Hp). destruct (isanc_dec y k) as [A|A].
      + left. right. exists cn. auto.
      + right. left. exists cn. auto.
  Qed.

  Lemma twd_not_k k y x : twd k y x -> y <> k.
  Proof.
    intros [(ny & E & Hp & Hn)|(nx & E & Hp & Ha)] ->.
    - apply Hn. econstructor; eauto.
    - apply isanc_rank in Ha. pose proof (Hrank _ _ _ E Hp). lia.
  Qed.

  Lemma twd_from_k k y : ~ twd k k y.
  Proof.
    intros [(nk & E & Hp & Hn)|(ny & E & Hp & Ha)].
    - apply Hn. econstructor; eauto.
    - apply isanc_rank in Ha. pose proof (Hrank _ _ _ E Hp). lia.
  Qed.

  (* once a non-backtracking walk steps away from k it never meets k again *)
  Lemma reach_stuck k last y k' prev v : reach l last y k' prev v ->
    forall x, last = Some x -> twd k y x -> k' <> k.
  Proof.
    induction 1 as [last y n E|last y n z k' prev v E Hz Hl Hr IH]; intros x -> Ht.
    - eapply twd_not_k; eauto.
    - apply (IH y eq_refl). destruct (twd_dich k _ _ _ E Hz) as [A|A]; [|exact A].
      exfalso. apply Hl. f_equal. eapply twd_fun; eauto.
  Qed.

  Lemma first_step_twd k x n y prev v : aget x l = Some n -> In y (neighbouring_nodes n) ->
    reach l (Some x) y k prev v -> twd k x y.
  Proof.
    intros E Hy Hr. destruct (twd_dich k _ _ _ E Hy) as [A|A]; [exact A|].
    exfalso. exact (reach_stuck k _ _ _ _ _ Hr x eq_refl A eq_refl).
  Qed.

  Lemma first_step_unique k x n y1 y2 p1 v1 p2 v2 : aget x l = Some n ->
    In y1 (neighbouring_nodes n) -> In y2 (neighbouring_nodes n) ->
    reach l (Some x) y1 k p1 v1 -> reach l (Some x) y2 k p2 v2 -> y1 = y2.
  Proof.
    intros E H1 H2 R1 R2. eapply twd_fun; eapply first_step_twd; eauto.
  Qed.

  Lemma reach_unique last x k p v : reach l last x k p v ->
    forall last' p' v', reach l last' x k p' v' -> v = v'.
  Proof.
    induction 1 as [last x n E|last x n y k prev v E Hy Hl Hr IH]; intros last' p' v' H'.
    - inversion H' as [|? ? n0 y0 ? ? v0 E0 Hy0 Hl0 Hr0]; subst; [reflexivity|].
      exfalso. apply (twd_from_k x y0). exact (first_step_twd _ _ _ _ _ _ E0 Hy0 Hr0).
    - inversion H' as [|? ? n0 y0 ? ? v0 E0 Hy0 Hl0 Hr0]; subst.
      + exfalso. apply (twd_from_k k y). exact (first_step_twd _ _ _ _ _ _ E Hy Hr).
      + assert (n0 = n) by congruence. subst.
        assert (y0 = y) by (eapply first_step_unique; eauto). subst.
        f_equal. eapply IH; eauto.
  Qed.

  (* hence walks are simple, and shorter than the dictionary *)
  Lemma reach_bound last x k prev v : reach l last x k prev v -> v < length l.
  Proof.
    intros H. destruct (reach_list _ _ _ _ _ _ H) as (w & Hlen & Hw).
    assert (Hnd : NoDup w).
    { apply (NoDup_nth w 0). intros i j Hi Hj Eij.
      destruct (Hw i ltac:(lia)) as [pi Ri]. destruct (Hw j ltac:(lia)) as [pj Rj].
      rewrite Eij in Ri. eapply reach_unique; eauto. }
    assert (Hinc : incl w (akeys l)).
    { intros z Hz. destruct (In_nth w z 0 Hz) as (i & Hi & <-).
      destruct (Hw i ltac:(lia)) as [pi Ri]. destruct (reach_in_r _ _ _ _ _ _ Ri) as [nz Ez].
      eapply aget_Some_keys; eauto. }
    pose proof (NoDup_incl_length Hnd Hinc) as Hle. unfold akeys in Hle. rewrite map_length in Hle. unfold id, wire in *. lia.
  Qed.

  (* every node is reached from every centre *)
  Lemma reach_nb_closed c k nk z : (exists p v, reach l None c k p v) -> aget k l = Some nk ->
    In z (neighbouring_nodes nk) -> exists p v, reach l None c z p v.
  Proof.
    intros (p & v & H) Ek Hz.
    assert (Hd : Some z = p \/ Some z <> p).
    { destruct p as [q|]; [|right; discriminate]. destruct (Nat.eq_dec z q) as [->|Hne]; [left; reflexivity|right; congruence]. }
    destruct Hd as [<-|Hne].
    - destruct v as [|v]; [inversion H|].
      apply reach_unsnoc in H. destruct H as (q & nq & pp & [= <-] & _ & _ & _ & H). eauto.
    - exists (Some k), (S v). eapply reach_snoc; eauto.
  Qed.

  Lemma reach_root_aux c m : forall x nx, rank x < m -> aget x l = Some nx -> (exists p v, reach l None c x p v) ->
    exists r rn, aget r l = Some rn /\ parent rn = None /\ exists p v, reach l None c r p v.
  Proof.
    induction m as [|m IH]; intros x nx Hm Ex Hx; [lia|].
    destruct (parent nx) as [q|] eqn:Hp; [|exists x, nx; auto].
    destruct (ts_par _ T _ _ _ Ex Hp) as (qn & Eq & _). pose proof (Hrank _ _ _ Ex Hp).
    apply (IH q qn); [lia|exact Eq|]. eapply reach_nb_closed; eauto. apply in_neighbouring. left. exact Hp.
  Qed.

  Lemma reach_down_aux c r rn m : aget r l = Some rn -> parent rn = None -> (exists p v, reach l None c r p v) ->
    forall k nk, rank k < m -> aget k l = Some nk -> exists p v, reach l None c k p v.
  Proof.
    intros Er Hr HR. induction m as [|m IH]; intros k nk Hm Ek; [lia|].
    destruct (parent nk) as [q|] eqn:Hp.
    - destruct (ts_par _ T _ _ _ Ek Hp) as (qn & Eq & Hin). pose proof (Hrank _ _ _ Ek Hp).
      apply (reach_nb_closed c q qn k); [eapply IH; eauto; lia|exact Eq|]. apply in_neighbouring. right. exact Hin.
    - rewrite (ts_root _ T _ _ _ _ Ek Hp Er Hr). exact HR.
  Qed.

  Lemma reach_exists c nc k nk : aget c l = Some nc -> aget k l = Some nk -> exists p v, reach l None c k p v.
  Proof.
    intros Ec Ek.
    destruct (reach_root_aux c (S (rank c)) c nc ltac:(lia) Ec) as (r & rn & Er & Hr & HR).
    { exists None, 0. econstructor; eauto. }
    eapply (reach_down_aux c r rn (S (rank k))); eauto.
  Qed.
End Tree.

(* ---- the DFS enumerates exactly the walks ----------------------------------------------------------- *)
Lemma dist_rec_S f s cur last n : aget cur (nodes s) = Some n ->
  dist_rec (S f) s cur last =
  (cur, 0) :: flat_map (fun nb => map (fun kv => (fst kv, S (snd kv))) (dist_rec f s nb (Some cur))) (nbs_of last n).
Proof. intros E. cbn [dist_rec]. rewrite E. destruct last; reflexivity. Qed.

Lemma In_nbs_of last n y : NoDup (neighbouring_nodes n) ->
  (In y (nbs_of last n) <-> In y (neighbouring_nodes n) /\ Some y <> last).
Proof.
  intros Hnd. destruct last as [e|]; cbn.
  - rewrite (remove_first_filter _ _ Hnd), filter_In. split; intros [H1 H2]; (split; [exact H1|]).
    + apply negb_true_iff, Nat.eqb_neq in H2. congruence.
    + apply negb_true_iff, Nat.eqb_neq. congruence.
  - split; [intros H; split; [exact H|discriminate]|intros [H _]; exact H].
Qed.

Lemma NoDup_nbs_of last n : NoDup (neighbouring_nodes n) -> NoDup (nbs_of last n).
Proof.
  intros Hnd. destruct last as [e|]; cbn; [|exact Hnd]. rewrite (remove_first_filter _ _ Hnd). apply NoDup_filter. exact Hnd.
Qed.

Lemma dist_sound s : tstruct (nodes s) -> forall f cur last k v,
  In (k, v) (dist_rec f s cur last) -> exists prev, reach (nodes s) last cur k prev v.
Proof.
  intros T. induction f as [|f IH]; intros cur last k v Hin; [destruct Hin|].
  destruct (aget cur (nodes s)) as [n|] eqn:E; [|cbn in Hin; rewrite E in Hin; destruct Hin].
  rewrite (dist_rec_S _ _ _ _ _ E) in Hin. destruct Hin as [[= <- <-]|Hin].
  - exists last. econstructor; eauto.
  - apply in_flat_map in Hin. destruct Hin as (y & Hy & Hin). apply in_map_iff in Hin.
    destruct Hin as ([k' v'] & [= <- <-] & Hin). cbn [fst snd].
    apply IH in Hin. destruct Hin as [prev Hr]. exists prev.
    apply (In_nbs_of _ _ _ (ts_neighbours_nodup _ _ _ T E)) in Hy. destruct Hy as [Hy Hl].
    econstructor; eauto.
Qed.

Lemma dist_complete s : tstruct (nodes s) -> forall last cur k prev v, reach (nodes s) last cur k prev v ->
  forall f, v < f -> In (k, v) (dist_rec f s cur last).
Proof.
  intros T. induction 1 as [last x n E|last x n y k prev v E Hy Hl Hr IH]; intros f Hf; (destruct f as [|f]; [lia|]);
    rewrite (dist_rec_S _ _ _ _ _ E).
  - left. reflexivity.
  - right. apply in_flat_map. exists y. split.
    + apply (In_nbs_of _ _ _ (ts_neighbours_nodup _ _ _ T E)). split; assumption.
    + apply in_map_iff. exists (k, v). split; [reflexivity|]. apply IH. lia.
Qed.

Lemma NoDup_flat_map_disj {A B} (h : A -> list B) L : NoDup L -> (forall a, In a L -> NoDup (h a)) ->
  (forall a b z, In a L -> In b L -> In z (h a) -> In z (h b) -> a = b) -> NoDup (flat_map h L).
Proof.
  induction L as [|a L IH]; cbn; intros Hnd H1 H2; [constructor|].
  inversion Hnd as [|? ? Hni Hnd']; subst. apply NoDup_app_iff. split; [apply H1; left; reflexivity|]. split.
  - apply IH; [exact Hnd'|intros; apply H1; right; assumption|].
    intros b c z Hb Hc. apply H2; right; assumption.
  - intros z Hz Hin. apply in_flat_map in Hin. destruct Hin as (b & Hb & Hzb).
    apply Hni. rewrite (H2 a b z); auto.
Qed.

Lemma map_fst_flat_map_shift {A} (h : A -> list (id * nat)) L :
  map fst (flat_map (fun nb => map (fun kv => (fst kv, S (snd kv))) (h nb)) L) = flat_map (fun nb => map fst (h nb)) L.
Proof.
  induction L as [|a L IH]; cbn; [reflexivity|]. rewrite map_app, IH, map_map. reflexivity.
Qed.

Lemma dist_rec_nodup s : tstruct (nodes s) -> forall f cur last, NoDup (map fst (dist_rec f s cur last)).
Proof.
  intros T. destruct (ts_acyc _ T) as [rank Hrank].
  induction f as [|f IH]; intros cur last; [constructor|].
  destruct (aget cur (nodes s)) as [n|] eqn:E; [|cbn; rewrite E; constructor].
  rewrite (dist_rec_S _ _ _ _ _ E). cbn [map fst]. rewrite map_fst_flat_map_shift.
  pose proof (ts_neighbours_nodup _ _ _ T E) as Hnd.
  assert (Hsub : forall y k, In y (nbs_of last n) -> In k (map fst (dist_rec f s y (Some cur))) ->
                 In y (neighbouring_nodes n) /\ Some y <> last /\ exists prev v, reach (nodes s) (Some cur) y k prev v).
  { intros y k Hy Hk. apply (In_nbs_of _ _ _ Hnd) in Hy. destruct Hy as [Hy Hl]. split; [exact Hy|]. split; [exact Hl|].
    apply in_map_iff in Hk. destruct Hk as ([k' v'] & <- & Hin). apply (dist_sound s T) in Hin.
    destruct Hin as [prev Hr]. eauto. }
  constructor.
  - intros Hin. apply in_flat_map in Hin. destruct Hin as (y & Hy & Hk).
    destruct (Hsub _ _ Hy Hk) as (Hy' & Hl & prev & v & Hr).
    assert (R1 : reach (nodes s) last cur cur prev (S v)) by (econstructor; eauto).
    assert (R0 : reach (nodes s) last cur cur last 0) by (econstructor; eauto).
    pose proof (reach_unique _ T rank Hrank _ _ _ _ _ R1 _ _ _ R0). discriminate.
  - apply NoDup_flat_map_disj.
    + apply NoDup_nbs_of. exact Hnd.
    + intros y _. apply IH.
    + intros y1 y2 k Hy1 Hy2 Hk1 Hk2.
      destruct (Hsub _ _ Hy1 Hk1) as (Hy1' & _ & p1 & v1 & R1).
      destruct (Hsub _ _ Hy2 Hk2) as (Hy2' & _ & p2 & v2 & R2).
      eapply (first_step_unique _ T rank Hrank); eauto.
Qed.

(* ---- the specification of distance_to_node ---------------------------------------------------------- *)
Lemma dist_spec s c k prev v : tstruct (nodes s) -> reach (nodes s) None c k prev v ->
  aget k (distance_to_node s c) = Some v.
Proof.
  intros T H. destruct (ts_acyc _ T) as [rank Hrank].
  apply In_aget; [apply (dist_rec_nodup s T)|].
  unfold distance_to_node. eapply dist_complete; eauto. eapply reach_bound; eauto.
Qed.

Lemma dist_spec_inv s c k v : tstruct (nodes s) -> aget k (distance_to_node s c) = Some v ->
  exists prev, reach (nodes s) None c k prev v.
Proof. intros T H. apply aget_In in H. eapply dist_sound; eauto. Qed.

Theorem dist_nodup s c : tstruct (nodes s) -> NoDup (map fst (distance_to_node s c)).
Proof. intros T. apply (dist_rec_nodup s T). Qed.

Theorem dist_cover s c k : tstruct (nodes s) -> amem c (nodes s) = true ->
  (In k (map fst (distance_to_node s c)) <-> In k (akeys (nodes s))).
Proof.
  intros T Hc. destruct (ts_acyc _ T) as [rank Hrank]. apply amem_aget in Hc. destruct Hc as [nc Ec]. split.
  - intros Hin. apply in_map_iff in Hin. destruct Hin as ([k' v] & <- & Hin). apply (dist_sound s T) in Hin.
    destruct Hin as [prev Hr]. destruct (reach_in_r _ _ _ _ _ _ Hr) as [nk Ek]. eapply aget_Some_keys; eauto.
  - intros Hin. apply keys_aget in Hin. destruct Hin as [nk Ek].
    destruct (reach_exists _ T rank Hrank c nc k nk Ec Ek) as (p & v & Hr).
    eapply (aget_Some_keys k v). eapply dist_spec; eauto.
Qed.

Theorem dist_centre s c : amem c (nodes s) = true -> dget (distance_to_node s c) c = 0.
Proof.
  intros Hc. apply amem_aget in Hc. destruct Hc as [nc Ec]. unfold distance_to_node, dget.
  destruct (nodes s) as [|kv t] eqn:El; [discriminate|]. cbn [length]. rewrite <- El in *.
  rewrite (dist_rec_S _ _ _ _ _ Ec). cbn. rewrite Nat.eqb_refl. reflexivity.
Qed.

Lemma dget_reach s c k prev v : tstruct (nodes s) -> reach (nodes s) None c k prev v ->
  dget (distance_to_node s c) k = v.
Proof. intros T H. unfold dget. rewrite (dist_spec _ _ _ _ _ T H). reflexivity. Qed.

Lemma dget_notin s c k : tstruct (nodes s) -> aget k (nodes s) = None -> dget (distance_to_node s c) k = 0.
Proof.
  intros T E. unfold dget. destruct (aget k (distance_to_node s c)) as [v|] eqn:Ed; [|reflexivity].
  apply (dist_spec_inv _ _ _ _ T) in Ed. destruct Ed as [prev Hr].
  destruct (reach_in_r _ _ _ _ _ _ Hr) as [nk Ek]. congruence.
Qed.

(* the walk from the centre to a non-centre node k: its last edge *)
Lemma reach_last_edge s c nc k nk : tstruct (nodes s) -> aget c (nodes s) = Some nc -> aget k (nodes s) = Some nk ->
  k <> c -> exists q pp v, In q (neighbouring_nodes nk) /\ reach (nodes s) None c k (Some q) (S v) /\
                         reach (nodes s) None c q pp v.
Proof.
  intros T Ec Ek Hne. destruct (ts_acyc _ T) as [rank Hrank].
  destruct (reach_exists _ T rank Hrank c nc k nk Ec Ek) as (p & v & Hr).
  destruct v as [|v]; [inversion Hr; subst; congruence|].
  destruct (reach_unsnoc _ _ _ _ _ _ Hr) as (q & nq & pp & -> & Eq & Hk & _ & Hq).
  destruct (ts_neighbour_sym _ _ _ _ T Eq Hk) as (nk' & Ek' & Hq' & _).
  assert (nk' = nk) by congruence. subst. exists q, pp, v. auto.
Qed.

Theorem dist_step s c k n : tstruct (nodes s) -> amem c (nodes s) = true -> aget k (nodes s) = Some n -> k <> c ->
  exists nb, In nb (neighbouring_nodes n) /\
             S (dget (distance_to_node s c) nb) = dget (distance_to_node s c) k /\
             forall x, In x (neighbouring_nodes n) -> x <> nb ->
                       dget (distance_to_node s c) x = S (dget (distance_to_node s c) k).
Proof.
  intros T Hc Ek Hne. apply amem_aget in Hc. destruct Hc as [nc Ec].
  destruct (reach_last_edge s c nc k n T Ec Ek Hne) as (q & pp & v & Hq & Hrk & Hrq).
  exists q. split; [exact Hq|]. rewrite (dget_reach _ _ _ _ _ T Hrk), (dget_reach _ _ _ _ _ T Hrq).
  split; [reflexivity|]. intros x Hx Hxq.
  apply (dget_reach _ _ _ (Some k) _ T). eapply (reach_snoc _ T); eauto. congruence.
Qed.

Corollary dist_pos s c k n : tstruct (nodes s) -> amem c (nodes s) = true -> aget k (nodes s) = Some n -> k <> c ->
  1 <= dget (distance_to_node s c) k.
Proof.
  intros T Hc Ek Hne. destruct (dist_step s c k n T Hc Ek Hne) as (nb & _ & H & _). lia.
Qed.

Theorem dist_centre_nbrs s c n x : tstruct (nodes s) -> aget c (nodes s) = Some n -> In x (neighbouring_nodes n) ->
  dget (distance_to_node s c) x = 1.
Proof.
  intros T Ec Hx. destruct (ts_neighbour_sym _ _ _ _ T Ec Hx) as (xn & Ex & _).
  apply (dget_reach _ _ _ (Some c) _ T). econstructor; eauto; [discriminate|]. econstructor; eauto.
Qed.

(* ---- independence of the child order ------------------------------------------------------------------ *)
Lemma reach_same_tree l l' last x k prev v : same_tree l l' -> reach l last x k prev v -> reach l' last x k prev v.
Proof.
  intros S. induction 1 as [last x n E|last x n y k prev v E Hy Hl Hr IH].
  - destruct (same_tree_some _ _ _ _ S E) as (n' & E' & _). econstructor; eauto.
  - destruct (same_tree_some _ _ _ _ S E) as (n' & E' & _).
    econstructor; eauto. apply (Permutation_in _ (same_tree_neighbours _ _ _ _ _ S E E') Hy).
Qed.

Theorem dist_same_tree s s' c : tstruct (nodes s) -> same_tree (nodes s) (nodes s') -> NoDup (akeys (nodes s')) ->
  amem c (nodes s) = true -> forall k, dget (distance_to_node s c) k = dget (distance_to_node s' c) k.
Proof.
  intros T S Hnd Hc k. pose proof (tstruct_same_tree _ _ T S Hnd) as T'.
  apply amem_aget in Hc. destruct Hc as [nc Ec]. destruct (ts_acyc _ T) as [rank Hrank].
  destruct (aget k (nodes s)) as [nk|] eqn:Ek.
  - destruct (reach_exists _ T rank Hrank c nc k nk Ec Ek) as (p & v & Hr).
    rewrite (dget_reach _ _ _ _ _ T Hr). symmetry. apply (dget_reach _ _ _ p _ T').
    eapply reach_same_tree; eauto.
  - rewrite (dget_notin _ _ _ T Ek). symmetry. apply (dget_notin _ _ _ T').
    destruct S as [_ S]. specialize (S k). rewrite Ek in S. destruct (aget k (nodes s')); [contradiction|reflexivity].
Qed.

(* ---- moving the centre along an edge -------------------------------------------------------------------- *)
Theorem dist_move s a b na k nk nb : tstruct (nodes s) -> aget a (nodes s) = Some na -> In b (neighbouring_nodes na) ->
  aget k (nodes s) = Some nk -> k <> a -> k <> b -> In nb (neighbouring_nodes nk) ->
  S (dget (distance_to_node s a) nb) = dget (distance_to_node s a) k ->
  S (dget (distance_to_node s b) nb) = dget (distance_to_node s b) k.
Proof.
  intros T Ea Hb Ek Hka Hkb Hnb Hs.
  destruct (reach_last_edge s a na k nk T Ea Ek Hka) as (q & pp & v & Hq & Hrk & Hrq).
  assert (nb = q) as ->.
  { destruct (Nat.eq_dec nb q) as [|Hne]; [assumption|exfalso].
    assert (Hr : reach (nodes s) None a nb (Some k) (S (S v))) by (eapply (reach_snoc _ T); eauto; congruence).
    rewrite (dget_reach _ _ _ _ _ T Hr), (dget_reach _ _ _ _ _ T Hrk) in Hs. lia. }
  destruct (ts_neighbour_sym _ _ _ _ T Ea Hb) as (bn & Eb & Hab & _).
  assert (Hw : exists w, reach (nodes s) None b k (Some q) (S w)).
  { inversion Hrk as [|? ? n0 y ? ? ? E0 Hy _ Hr]; subst. assert (n0 = na) by congruence. subst.
    destruct (Nat.eq_dec y b) as [->|Hyb].
    - destruct v as [|v]; [inversion Hr; subst; congruence|].
      inversion Hr as [|? ? n1 z ? ? ? E1 Hz _ Hr']; subst. exists v. econstructor; eauto. discriminate.
    - exists (S v). econstructor; eauto; [discriminate|]. econstructor; eauto. congruence. }
  destruct Hw as [w Hw]. destruct (reach_unsnoc _ _ _ _ _ _ Hw) as (q' & nq & pp' & [= <-] & _ & _ & _ & Hq').
  rewrite (dget_reach _ _ _ _ _ T Hw), (dget_reach _ _ _ _ _ T Hq'). reflexivity.
Qed.
