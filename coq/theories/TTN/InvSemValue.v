(* Proofs about TTN/InvSem.v, part 3: semantic theorems that need the extended invariant.
   - bound wires are private: the freshness side conditions of the variable-elimination theorem
     (Wire/SemProofs.value_tensordot) hold between any two tensors of a wfs store;
   - contract_nodes: the new node's tensor is the sum over the bond of the product of the two old
     tensors;
   - split_nodes: under the kernel contract (Q.R = A over the new bond) the value of the whole network
     is unchanged. *)
From Coq Require Import List Arith Bool Lia Permutation.
From PTN Require Import TTN.Store TTN.StoreProofs TTN.Inv TTN.InvProofs TTN.InvNode TTN.InvContract TTN.InvEdit
  TTN.InvBuild TTN.InvSplit TTN.InvRun TTN.InvWires Wire.Sem Wire.SemProofs TTN.InvSem TTN.InvSemProofs TTN.InvSemWfs.
Import ListNotations.

(* ---- privacy of bound wires ---------------------------------------------------------------------------------- *)
Lemma total_bnd_In s k t w : In (k, t) (tensors s) -> In w (bnd t) -> In w (total_bnd s).
Proof. intros H1 H2. unfold total_bnd. apply in_flat_map. exists (k, t). auto. Qed.

Lemma total_axes_In' s k t w : In (k, t) (tensors s) -> In w (axes t) -> In w (total_axes s).
Proof. intros H1 H2. apply total_axes_In. eauto. Qed.

Lemma total_atoms_In s k t a : In (k, t) (tensors s) -> In a (atoms t) -> In a (total_atoms s).
Proof. intros H1 H2. unfold total_atoms. apply in_flat_map. exists (k, t). auto. Qed.

(* no atom of one tensor touches a wire summed inside another tensor *)
Theorem wfs_atoms_avoid s k1 t1 k2 t2 :
  wfs s -> aget k1 (tensors s) = Some t1 -> aget k2 (tensors s) = Some t2 -> k1 <> k2 ->
  atoms_avoid (atom_wires s) (atoms t1) (bnd t2).
Proof.
  intros WS E1 E2 Hne a Ha x Hx Hb.
  pose proof (aget_In _ _ _ E1) as I1. pose proof (aget_In _ _ _ E2) as I2.
  destruct (ws_closed s WS k1 t1 E1 a Ha x Hx) as [Hax|Hbn].
  - apply (ws_bnd_ax s WS x (total_bnd_In s k2 t2 x I2 Hb)). apply (total_axes_In' s k1 t1 x I1 Hax).
  - pose proof (ws_bnd_nd s WS) as Hnd. unfold total_bnd in Hnd.
    apply (NoDup_flat_map_assoc _ _ (wf_tnd s (ws_wf s WS))) in Hnd. destruct Hnd as [_ Hd].
    apply Hne. apply (Hd k1 t1 k2 t2 x E1 E2 Hbn Hb).
Qed.

(* no atom of the rest of the network touches a wire summed inside tensor k *)
Lemma wfs_rest_avoid s k t :
  wfs s -> aget k (tensors s) = Some t ->
  atoms_avoid (atom_wires s) (flat_map (fun kt => atoms (snd kt)) (adel k (tensors s))) (bnd t).
Proof.
  intros WS E a Ha. apply in_flat_map in Ha. destruct Ha as ([k2 t2] & Hin & Ha). cbn [snd] in Ha.
  pose proof (wf_tnd s (ws_wf s WS)) as Hnd.
  assert (E2 : aget k2 (adel k (tensors s)) = Some t2) by (apply In_aget; [apply NoDup_akeys_adel; exact Hnd|exact Hin]).
  rewrite (aget_adel _ _ _ Hnd) in E2. destruct (Nat.eqb_spec k2 k) as [|Hne]; [discriminate|].
  apply (wfs_atoms_avoid s k2 t2 k t WS E2 E Hne a Ha).
Qed.

Section NodeValue.
  Variable R : Type.
  Variables (zero one : R) (add mul : R -> R -> R).
  Hypothesis SR : comm_semiring zero one add mul.
  Variable tbl : nat -> list nat -> R.

  Local Notation node_value := (node_value zero one add mul).
  Local Notation sum_upto := (sum_upto R zero add).

  (* contract_nodes, node level: the tensor of the new node is the contraction of the two old tensors
     over the edge wire of the child (the one of a, b whose parent is the other) *)
  Theorem contract_node_value s a b new s' :
    wfs s -> contract_nodes s a b new = Some s' -> (new = a \/ new = b \/ ~ In new (akeys (nodes s))) ->
    exists p c cn,
      ((p = a /\ c = b) \/ (p = b /\ c = a)) /\ aget c (nodes s) = Some cn /\ parent cn = Some p /\
      forall rho,
        node_value s' tbl new rho
        = sum_upto (wdim s (ew s c))
            (fun k => mul (node_value s tbl p (upd rho (ew s c) k)) (node_value s tbl c (upd rho (ew s c) k))).
  Proof.
    intros WS H Hn. pose proof (ws_wf s WS) as W.
    destruct (contract_data _ _ _ _ _ H) as (p & c & s1 & pn & pt & s2 & cn & ct & ax & nt & Hpc & (cn0 & Ecn0 & Hpar) & A1 & A2 & Eax & Etd & ET).
    pose proof (access_preserves_wfs _ _ _ _ _ WS A1) as WS1. pose proof (access_preserves_wfs _ _ _ _ _ WS1 A2) as WS2.
    pose proof (ws_wf s1 WS1) as W1. pose proof (ws_wf s2 WS2) as W2.
    destruct (split_access_facts _ _ _ _ _ W A1) as (pn0 & tp0 & Epn0 & Etp0 & _ & Ept & _ & _ & Bt & _ & Kp & _ & Htp).
    destruct (split_access_facts _ _ _ _ _ W1 A2) as (cn1 & tc1 & Ecn1 & Etc1 & _ & Ect & _ & _ & Ct & _ & Kc & Cax & Htc).
    destruct (access_result _ _ _ _ _ A1) as (_ & _ & _ & B4 & _).
    destruct (access_result _ _ _ _ _ A2) as (_ & _ & _ & C4 & _).
    destruct (access_world _ _ _ _ _ A1) as (Ea1 & Ed1 & _). destruct (access_world _ _ _ _ _ A2) as (Ea2 & Ed2 & _).
    destruct (contract_world _ _ _ _ _ H) as (Ea' & Ed' & _).
    assert (Hne : p <> c) by (intros ->; apply (wf_not_self_parent s c cn0 W Ecn0 Hpar)).
    exists p, c, cn0. split; [exact Hpc|]. split; [exact Ecn0|]. split; [exact Hpar|].
    (* the two accessed tensors sit in s2 *)
    assert (Pt2 : aget p (tensors s2) = Some pt) by (rewrite (proj2 (C4 p Hne)); exact Bt).
    (* freshness side conditions in s2 = in s *)
    assert (Av1 : atoms_avoid (atom_wires s) (atoms pt) (bnd ct)).
    { pose proof (wfs_atoms_avoid s2 p pt c ct WS2 Pt2 Ct Hne) as Hav. unfold atom_wires in *. rewrite Ea2, Ea1 in Hav. exact Hav. }
    assert (Av2 : atoms_avoid (atom_wires s) (atoms ct) (bnd pt)).
    { pose proof (wfs_atoms_avoid s2 c ct p pt WS2 Ct Pt2 (not_eq_sym Hne)) as Hav. unfold atom_wires in *. rewrite Ea2, Ea1 in Hav. exact Hav. }
    destruct (value_tensordot R zero one add mul SR (atom_wires s) (wdim s) tbl pt ct ax 0 nt Etd Av1 Av2) as [Hw HV].
    (* the contracted wire is the child's edge wire *)
    assert (Hew : nth ax (axes pt) 0 = ew s c).
    { rewrite <- Hw, Cax. unfold ew. rewrite Ecn0.
      destruct (access_lax s p s1 pn pt c cn0 W A1 Ecn0) as (nk' & E' & _ & _ & L'). rewrite Ecn1 in E'. injection E' as <-.
      rewrite L'. reflexivity. }
    rewrite Hew in HV.
    (* the new tensor *)
    assert (Hnew2 : new = p \/ new = c \/ ~ In new (akeys (nodes s2))).
    { rewrite Kc, Kp. destruct Hpc as [[-> ->]|[-> ->]]; tauto. }
    assert (Tn : tens s' new = nt).
    { unfold tens. rewrite ET, (contract_tensors_aget _ _ _ _ _ _ (wf_tnd s2 W2) (cc_fresh_t s2 p c new W2 Hnew2)), Nat.eqb_refl. reflexivity. }
    assert (Tc : tens s c = tc1).
    { rewrite <- Htc. unfold tens. rewrite (proj2 (B4 c (not_eq_sym Hne))). reflexivity. }
    intros rho. unfold InvSem.node_value, value_s. rewrite Tn, Htp, Tc.
    unfold atom_wires at 1. unfold wdim at 1. rewrite Ea', Ed'. fold (atom_wires s). fold (wdim s).
    rewrite HV. apply sum_upto_ext. intros k _. rewrite Ept, Ect. reflexivity.
  Qed.
End NodeValue.

(* ---- changing the static world (atom table, dimensions) --------------------------------------------------------- *)
Section World.
  Variable R : Type.
  Variables (zero one : R) (add mul : R -> R -> R).
  Variable tbl : nat -> list nat -> R.

  Lemma atoms_val_world (wo wo' : nat -> list wire) atms r :
    (forall a, In a atms -> wo a = wo' a) ->
    atoms_val R one mul wo tbl atms r = atoms_val R one mul wo' tbl atms r.
  Proof.
    intros H. unfold atoms_val. induction atms as [|a t IH]; cbn; [reflexivity|].
    rewrite IH by (intros x Hx; apply H; right; exact Hx). unfold atom_val. rewrite (H a (or_introl eq_refl)). reflexivity.
  Qed.

  Lemma sum_bnd_world (dim dim' : wire -> nat) ws (F F' : (wire -> nat) -> R) :
    (forall w, In w ws -> dim w = dim' w) -> (forall r, F r = F' r) ->
    forall r, sum_bnd R zero add dim ws F r = sum_bnd R zero add dim' ws F' r.
  Proof.
    intros Hd HF. induction ws as [|w t IH]; intros r; cbn; [apply HF|].
    rewrite <- (Hd w (or_introl eq_refl)). apply (sum_upto_ext R zero add). intros k _.
    apply IH. intros x Hx. apply Hd. right. exact Hx.
  Qed.

  Lemma value_world (wo wo' : nat -> list wire) (dim dim' : wire -> nat) d :
    (forall a, In a (atoms d) -> wo a = wo' a) -> (forall w, In w (bnd d) -> dim w = dim' w) ->
    forall r, value R zero one add mul wo dim tbl d r = value R zero one add mul wo' dim' tbl d r.
  Proof.
    intros Ha Hd r. unfold value. apply sum_bnd_world; [exact Hd|]. intros r'. apply atoms_val_world. exact Ha.
  Qed.
End World.

(* ---- facts about a successful split ------------------------------------------------------------------------------- *)
Lemma aget_snoc_other {V} k k' (v : V) l : k <> k' -> aget k (l ++ [(k', v)]) = aget k l.
Proof.
  intros Hne. rewrite InvProofs.aget_app. destruct (aget k l); [reflexivity|]. cbn.
  destruct (Nat.eqb_spec k k'); [congruence|reflexivity].
Qed.

Lemma split_atab s n o i oid iid kind m rbond s' :
  split_nodes s n o i oid iid kind m rbond = Some s' ->
  exists s1 nd t ol il,
    access s n = Some (s1, nd, t) /\ find_leg_values nd o = Some ol /\ find_leg_values nd i = Some il /\
    atab s' = (atab s ++ [(next_atom s, permute 0 ol (axes t) ++ [next_wire s])])
              ++ [(S (next_atom s), next_wire s :: permute 0 il (axes t))].
Proof.
  intros Hs.
  destruct (split_nodes_inv _ _ _ _ _ _ _ _ _ _ Hs) as (s1 & nd & t & ol & il & on2 & in2 & l2 & bd & Ha & _ & I).
  destruct (sp_access_next _ _ _ _ _ Ha) as (Na & Nw & _ & _ & Nt).
  exists s1, nd, t, ol, il. split; [exact Ha|].
  split; [apply (si_ol _ _ _ _ _ _ _ _ _ _ _ _ _ _ _ _ _ I)|]. split; [apply (si_il _ _ _ _ _ _ _ _ _ _ _ _ _ _ _ _ _ I)|].
  rewrite (si_s' _ _ _ _ _ _ _ _ _ _ _ _ _ _ _ _ _ I). cbv zeta.
  destruct (Nat.eqb n oid || Nat.eqb n iid); cbn; rewrite Nt, Na, Nw; reflexivity.
Qed.

(* old atoms keep their wires, old wires keep their dimensions *)
Lemma split_atom_wires_old s n o i oid iid kind m rbond s' a :
  split_nodes s n o i oid iid kind m rbond = Some s' -> a < next_atom s -> atom_wires s' a = atom_wires s a.
Proof.
  intros Hs Ha. destruct (split_atab _ _ _ _ _ _ _ _ _ _ Hs) as (s1 & nd & t & ol & il & _ & _ & _ & E).
  unfold atom_wires. rewrite E, !aget_snoc_other by lia. reflexivity.
Qed.

Lemma split_wdim_old s n o i oid iid kind m rbond s' w :
  wf s -> split_nodes s n o i oid iid kind m rbond = Some s' -> w < next_wire s -> wdim s' w = wdim s w.
Proof.
  intros W Hs Hw. destruct (split_new_def s n o i oid iid kind m rbond s' dflt_def W Hs)
    as (s1 & nd & t & ol & il & bd & _ & _ & _ & _ & _ & _ & _ & _ & _ & _ & _ & _ & Hd & _).
  unfold wdim. rewrite Hd, aget_snoc_other by lia. reflexivity.
Qed.

(* ---- split_nodes preserves the value of the network under the kernel contract -------------------------------------- *)
Section SplitValue.
  Variable R : Type.
  Variables (zero one : R) (add mul : R -> R -> R).
  Hypothesis SR : comm_semiring zero one add mul.
  Variable tbl : nat -> list nat -> R.

  Local Notation net_value := (net_value zero one add mul).
  Local Notation sum_upto := (sum_upto R zero add).

  Lemma sr_mul_1_r x : mul x one = x.
  Proof. rewrite (csr_mul_comm _ _ _ _ SR). apply (csr_mul_1_l _ _ _ _ SR). Qed.

  (* a group of atoms A whose summed wires B the other atoms do not touch factors out as the value of
     the sub-diagram (A, B) *)
  Lemma sum_factor (wo : nat -> list wire) (dim : wire -> nat) A B restA X rho :
    atoms_avoid wo restA B ->
    sum_bnd R zero add dim (X ++ B) (atoms_val R one mul wo tbl (A ++ restA)) rho
    = sum_bnd R zero add dim X
        (fun r => mul (sum_bnd R zero add dim B (atoms_val R one mul wo tbl A) r) (atoms_val R one mul wo tbl restA r)) rho.
  Proof.
    intros Hav. rewrite (sum_bnd_app R zero add dim). apply (sum_bnd_ext_F R zero add dim). intros r.
    pose proof (value_join R zero one add mul SR wo dim tbl A restA B [] r) as J.
    rewrite app_nil_r in J. cbn [sum_bnd] in J. apply J; [intros a _ x _ []|exact Hav].
  Qed.

  Theorem split_net_value s n o i oid iid kind m rbond s' :
    wfs s -> split_nodes s n o i oid iid kind m rbond = Some s' -> spec_ok s n o i -> ids_ok s n oid iid ->
    def_holds zero one add mul s' tbl (last (defs s') dflt_def) ->
    Permutation (open_wires s') (open_wires s) /\ forall rho, net_value s' tbl rho = net_value s tbl rho.
  Proof.
    intros WS Hs Hspec Hids Hdef. pose proof (ws_wf s WS) as W.
    pose proof (split_preserves_wf s n o i oid iid kind m rbond s' W Hs Hspec Hids) as W'.
    destruct (split_total_ends s n o i oid iid kind m rbond s' W Hs Hids) as (restE & PE & PE').
    destruct (split_total_atoms s n o i oid iid kind m rbond s' W Hs Hids) as (restA & PA & PA').
    destruct (split_new_def s n o i oid iid kind m rbond s' dflt_def W Hs)
      as (s1 & nd & t & ol & il & bd & Ha & _ & _ & _ & _ & _ & Hlast & _ & _ & _ & _ & _ & _ & _).
    destruct (split_access_facts _ _ _ _ _ W Ha) as (nd0 & t0 & _ & Et0 & _ & Etr & _ & _ & _ & _ & _ & _ & Ht0).
    set (b := next_wire s) in *. set (T := tens s n) in *.
    (* wire ends: the bound wires of T disappear, the bond b appears *)
    assert (PEE : Permutation (total_ends s' ++ bnd T ++ bnd T) (total_ends s ++ [b] ++ [b])).
    { rewrite PE', PE. unfold sarr_ends. apply (Permutation_count_occ Nat.eq_dec). intros z.
      cbn [app]. rewrite !count_occ_app. cbn [count_occ]. rewrite !count_occ_app. destruct (Nat.eq_dec b z); nlia. }
    destruct (ends_determine_bnd s s' (bnd T) [b] W W' PEE) as [PO PB].
    split; [exact PO|].
    set (X := flat_map (fun kt : id * sarr => bnd (snd kt)) (adel n (tensors s)) ++ edge_wires s).
    assert (ET : aget n (tensors s) = Some T) by (rewrite Ht0; exact Et0).
    assert (PX : Permutation (net_bnd s) (X ++ bnd T)).
    { unfold net_bnd, total_bnd, X. rewrite (flat_map_adel_perm _ n T (tensors s) ET). cbn [snd].
      apply (Permutation_count_occ Nat.eq_dec). intros z. rewrite !count_occ_app. nlia. }
    assert (PX' : Permutation (net_bnd s') (X ++ [b])).
    { apply (Permutation_app_inv_r (bnd T)). rewrite PB, PX.
      apply (Permutation_count_occ Nat.eq_dec). intros z. rewrite !count_occ_app. nlia. }
    (* the other atoms *)
    assert (HrA : forall a, In a restA -> exists k tk, aget k (tensors s) = Some tk /\ k <> n /\ In a (atoms tk)).
    { intros a Hin. pose proof (ws_atoms_nd s WS) as Hnd. rewrite PA in Hnd. apply NoDup_app_iff in Hnd.
      destruct Hnd as (_ & _ & Hdis).
      assert (Hat : In a (total_atoms s)) by (apply (Permutation_in _ (Permutation_sym PA)); apply in_or_app; right; exact Hin).
      unfold total_atoms in Hat. apply in_flat_map in Hat. destruct Hat as ([k tk] & Hk & Hak). cbn [snd] in Hak.
      apply (In_aget _ _ _ (wf_tnd s W)) in Hk. exists k, tk. split; [exact Hk|]. split; [|exact Hak].
      intros ->. rewrite ET in Hk. injection Hk as <-. apply (Hdis a Hak Hin). }
    assert (Av : atoms_avoid (atom_wires s) restA (bnd T)).
    { intros a Hin. destruct (HrA a Hin) as (k & tk & Ek & Hne & Hak). apply (wfs_atoms_avoid s k tk n T WS Ek ET Hne a Hak). }
    assert (HrAlt : forall a, In a restA -> a < next_atom s).
    { intros a Hin. destruct (HrA a Hin) as (k & tk & Ek & _ & Hak). apply (ws_atoms_lt s WS).
      apply (total_atoms_In s k tk a (aget_In _ _ _ Ek) Hak). }
    assert (Av' : atoms_avoid (atom_wires s') restA [b]).
    { intros a Hin x Hx [<-|[]]. rewrite (split_atom_wires_old _ _ _ _ _ _ _ _ _ _ a Hs (HrAlt a Hin)) in Hx.
      destruct (HrA a Hin) as (k & tk & Ek & _ & Hak). pose proof (aget_In _ _ _ Ek) as Ik.
      destruct (ws_closed s WS k tk Ek a Hak b Hx) as [Hax|Hbn].
      - pose proof (wf_wires s W k tk b Ek Hax). unfold b in *. lia.
      - pose proof (ws_bnd_lt s WS b (total_bnd_In s k tk b Ik Hbn)). unfold b in *. lia. }
    assert (HTat : forall a, In a (atoms T) -> atom_wires s' a = atom_wires s a).
    { intros a Hin. apply (split_atom_wires_old _ _ _ _ _ _ _ _ _ _ a Hs). apply (ws_atoms_lt s WS).
      apply (total_atoms_In s n T a (aget_In _ _ _ ET) Hin). }
    assert (Hnb_lt : forall w, In w (net_bnd s) -> w < next_wire s).
    { intros w Hw. unfold net_bnd in Hw. apply in_app_or in Hw. destruct Hw as [Hw|Hw]; [apply (ws_bnd_lt s WS w Hw)|].
      assert (Hown : In w (own_wires s)) by (rewrite own_wires_split; apply in_or_app; left; exact Hw).
      unfold own_wires in Hown. apply in_flat_map in Hown. destruct Hown as ([k nk] & Hk & Hwk).
      apply (wf_own_bound s k nk w W (In_aget _ _ _ (wf_nd s W) Hk) Hwk). }
    intros rho. unfold InvSem.net_value, value_s.
    (* left-hand side, in the world of s' *)
    rewrite (value_perm_gen R zero one add mul SR (atom_wires s') (wdim s') tbl (net_diagram s')
               {| axes := []; atoms := [next_atom s; S (next_atom s)] ++ restA; bnd := X ++ [b] |} rho PA' PX').
    rewrite (value_perm_gen R zero one add mul SR (atom_wires s) (wdim s) tbl (net_diagram s)
               {| axes := []; atoms := atoms T ++ restA; bnd := X ++ bnd T |} rho PA PX).
    unfold value. cbn [atoms bnd].
    rewrite (sum_factor (atom_wires s') (wdim s') _ _ _ _ rho Av'), (sum_factor (atom_wires s) (wdim s) _ _ _ _ rho Av).
    apply sum_bnd_world.
    - intros w Hw. apply (split_wdim_old _ _ _ _ _ _ _ _ _ _ w W Hs). apply Hnb_lt.
      apply (Permutation_in _ (Permutation_sym PX)). apply in_or_app. left. exact Hw.
    - intros r. f_equal.
      + (* Q.R summed over the bond = the split tensor *)
        cbn [sum_bnd atoms_val prod_over].
        transitivity (value_s zero one add mul s' tbl (s_transpose (ol ++ il) t) r).
        * unfold def_holds in Hdef. rewrite Hlast in Hdef. cbn [kq kr kbond kinput] in Hdef. rewrite <- (Hdef r).
          apply (sum_upto_ext R zero add). intros k _. rewrite sr_mul_1_r. reflexivity.
        * unfold value_s. rewrite Etr. unfold value. cbn [s_transpose atoms bnd]. fold T. rewrite <- Ht0. fold T.
          apply sum_bnd_world; [|intros r'; apply atoms_val_world; exact HTat].
          intros w Hw. apply (split_wdim_old _ _ _ _ _ _ _ _ _ _ w W Hs). apply (ws_bnd_lt s WS).
          apply (total_bnd_In s n T w (aget_In _ _ _ ET) Hw).
      + apply atoms_val_world. intros a Hin. apply (split_atom_wires_old _ _ _ _ _ _ _ _ _ _ a Hs (HrAlt a Hin)).
  Qed.
End SplitValue.
