(* Proofs about TTN/InvSem.v, part 8: the run theorem under the IN-RANGE kernel contracts of InvSemEyeRange.v.
   - every editing operation keeps the recorded dimension of every wire that exists, and preserves the value of
     the whole network at every assignment that is in range on the open wires, under the in-range contract of
     the step; hence so does every sequence of editing operations (run_net_value_in_range);
   - the old premises imply the new ones (contracts_hold_weaken), so the new theorem covers every sequence the
     old one covers, at in-range assignments;
   - non-vacuity exactly where InvSemRun.run_net_value is vacuous: a concrete store over Z, the sequence
     [insert_identity; QR split of the inserted identity node] with Q.R = I, all premises of the new theorem hold
     (exr_hyps), while NO table over Z satisfies the premises of the old theorem for this sequence
     (eye_split_unsatisfiable_Z). *)
From Coq Require Import List Arith Bool Lia ZArith Permutation.
From PTN Require Import TTN.Store TTN.StoreProofs TTN.Inv TTN.InvProofs TTN.InvNode TTN.InvContract TTN.InvEdit
  TTN.InvBuild TTN.InvSplit TTN.InvRun TTN.InvWires Wire.Sem Wire.SemProofs Wire.SemEntryProofs Wire.SemInst
  TTN.InvSem TTN.InvSemProofs TTN.InvSemWfs TTN.InvSemValue TTN.InvSemOps TTN.InvSemEye TTN.InvSemRun TTN.InvSemEyeRange.
Import ListNotations.

(* ---- recorded dimensions of existing wires never change ---------------------------------------------------------------- *)
Lemma same_world_wdim s s' x : same_world s s' -> wdim s' x = wdim s x.
Proof. intros (_ & Hd & _). unfold wdim. rewrite Hd. reflexivity. Qed.

Theorem step_wdim_old s o s' x :
  wf s -> is_edit_op o = true -> step s o = Some s' -> x < next_wire s -> wdim s' x = wdim s x.
Proof.
  intros W He Hs Hx. destruct o; cbn [step is_edit_op] in *; try discriminate.
  - exfalso. rewrite (add_root_rejected s n shp (wf_root_some s W)) in Hs. discriminate.
  - apply same_world_wdim. apply (contract_world _ _ _ _ _ Hs).
  - apply (split_wdim_old _ _ _ _ _ _ _ _ _ _ x W Hs Hx).
  - destruct (insert_identity_facts s c p new s' W Hs)
      as (cn & pn & ct & pm & L' & _ & _ & _ & _ & _ & _ & _ & _ & _ & _ & _ & _ & _ & _ & _ & _ & _ & _ & _ & Hdims & _ & _).
    rewrite (wdim_snoc s s' (next_wire s) _ x Hdims).
    + destruct (Nat.eqb_spec x (next_wire s)); [lia|reflexivity].
    + apply aget_None. intros Hin. pose proof (wf_dims s W _ Hin). lia.
  - apply same_world_wdim. apply (rename_world _ _ _ _ Hs).
  - apply same_world_wdim. apply (replace_tensor_world _ _ _ _ _ Hs).
  - destruct (access s n) as [[[s1 nd] t]|] eqn:Ea; [|discriminate]. cbn in Hs. injection Hs as <-.
    apply same_world_wdim. apply (access_world _ _ _ _ _ Ea).
Qed.

Lemma in_range_transport s s' rho :
  Permutation (open_wires s') (open_wires s) -> (forall x, In x (open_wires s) -> wdim s' x = wdim s x) ->
  in_range s (open_wires s) rho -> in_range s' (open_wires s') rho.
Proof.
  intros P Hd Hr x Hx. apply (Permutation_in _ P) in Hx. rewrite (Hd x Hx). apply Hr. exact Hx.
Qed.

(* a multi-index within the shape of the open legs gives an in-range assignment *)
Lemma assign_in_range s rho0 : forall ws idx,
  Forall2 (fun w k => k < wdim s w) ws idx -> in_range s ws (assign rho0 ws idx).
Proof.
  intros ws idx H. induction H as [|w k ws idx Hk _ IH]; [intros x []|].
  intros x Hx. cbn [assign]. unfold upd. destruct (Nat.eqb_spec x w) as [->|Hne]; [exact Hk|].
  destruct Hx as [<-|Hx]; [contradiction|]. apply IH. exact Hx.
Qed.

(* ---- the value of the network along a run, in-range contracts ---------------------------------------------------------- *)
Section RunValueRange.
  Variable R : Type.
  Variables (zero one : R) (add mul : R -> R -> R).
  Hypothesis SR : comm_semiring zero one add mul.
  Variable tbl : nat -> list nat -> R.

  Local Notation net_value := (net_value zero one add mul).
  Local Notation net_entry := (net_entry zero one add mul).

  (* the in-range kernel contract of one step *)
  Definition step_contract_range (s : store) (o : op) (s' : store) : Prop :=
    match o with
    | Split _ _ _ _ _ _ _ _ => def_holds_in_range zero one add mul s' tbl (last (defs s') dflt_def)
    | InsertIdentity _ _ _ => eye_atom_in_range zero one s' tbl (next_atom s)
    | _ => True
    end.

  Theorem step_net_value_in_range s o s' :
    wfs s -> op_ok s o -> is_edit_op o = true -> step s o = Some s' -> step_contract_range s o s' ->
    Permutation (open_wires s') (open_wires s) /\
    forall rho, in_range s (open_wires s) rho -> net_value s' tbl rho = net_value s tbl rho.
  Proof.
    intros WS Hok He Hs Hc.
    assert (Hother : step_contract R zero one add mul tbl s o s' ->
                     Permutation (open_wires s') (open_wires s) /\
                     forall rho, in_range s (open_wires s) rho -> net_value s' tbl rho = net_value s tbl rho).
    { intros Hc'. destruct (step_net_value R zero one add mul SR tbl s o s' WS Hok He Hs Hc') as [P V].
      split; [exact P|]. intros rho _. apply V. }
    destruct o; try (apply Hother; exact I); cbn [step op_ok is_edit_op step_contract_range] in *.
    - destruct Hok as [H1 H2].
      apply (split_net_value_in_range R zero one add mul SR tbl s n o i oid iid kind m rbond s' WS Hs H1 H2 Hc).
    - destruct (insert_identity_net_value_in_range R zero one add mul SR tbl s c p new s' WS Hs Hc) as [E V].
      rewrite E. split; [reflexivity|]. intros rho _. apply V.
  Qed.

  Lemma contracts_hold_in_range_cons s o t :
    contracts_hold_in_range zero one add mul tbl s (o :: t) =
    match step s o with
    | Some s' => step_contract_range s o s' /\ contracts_hold_in_range zero one add mul tbl s' t
    | None => contracts_hold_in_range zero one add mul tbl s t
    end.
  Proof. cbn [contracts_hold_in_range]. destruct (step s o); [|reflexivity]. destruct o; reflexivity. Qed.

  (* any sequence of editing operations under the in-range contracts: invariant kept, same set of open wires
     with the same recorded dimensions, and the same value at every assignment that is in range on the open
     wires (every entry of the denoted tensor) *)
  Theorem run_net_value_in_range : forall ops s,
    wfs s -> ops_ok s ops -> forallb is_edit_op ops = true -> contracts_hold_in_range zero one add mul tbl s ops ->
    wfs (fst (run s ops)) /\
    Permutation (open_wires (fst (run s ops))) (open_wires s) /\
    (forall x, In x (open_wires s) -> wdim (fst (run s ops)) x = wdim s x) /\
    forall rho, in_range s (open_wires s) rho -> net_value (fst (run s ops)) tbl rho = net_value s tbl rho.
  Proof.
    induction ops as [|o t IH]; intros s WS Hok He Hc.
    - cbn. split; [exact WS|]. split; [reflexivity|]. split; reflexivity.
    - rewrite contracts_hold_in_range_cons in Hc. cbn [run ops_ok forallb] in *. apply andb_true_iff in He. destruct He as [He1 He2].
      destruct (step s o) as [s'|] eqn:Es.
      + destruct Hok as [Ho Ht]. destruct Hc as [Hc1 Hc2].
        pose proof (step_preserves_wfs s o s' WS Ho Es) as WS'.
        destruct (step_net_value_in_range s o s' WS Ho He1 Es Hc1) as [P1 V1].
        assert (D1 : forall x, In x (open_wires s) -> wdim s' x = wdim s x).
        { intros x Hx. apply (step_wdim_old s o s' x (ws_wf s WS) He1 Es (open_wires_lt s x WS Hx)). }
        specialize (IH s' WS' Ht He2 Hc2). destruct (run s' t) as [sf oks]. cbn [fst] in *.
        destruct IH as (WSf & P2 & D2 & V2). split; [exact WSf|]. split; [rewrite P2; exact P1|]. split.
        * intros x Hx. rewrite (D2 x (Permutation_in _ (Permutation_sym P1) Hx)). apply D1. exact Hx.
        * intros rho Hr. rewrite (V2 rho (in_range_transport s s' rho P1 D1 Hr)). apply V1. exact Hr.
      + specialize (IH s WS Hok He2 Hc). destruct (run s t) as [sf oks]. exact IH.
  Qed.

  (* entry level: the entries of the denoted tensor at every multi-index within the shape of the open legs *)
  Corollary run_net_entry_in_range ops s rho0 idx idx' :
    wfs s -> ops_ok s ops -> forallb is_edit_op ops = true -> contracts_hold_in_range zero one add mul tbl s ops ->
    Forall2 (fun w k => k < wdim s w) (open_wires s) idx ->
    (forall x, In x (open_wires s) -> assign rho0 (open_wires (fst (run s ops))) idx' x = assign rho0 (open_wires s) idx x) ->
    net_entry (fst (run s ops)) tbl rho0 idx' = net_entry s tbl rho0 idx.
  Proof.
    intros WS Hok He Hc Hidx E. destruct (run_net_value_in_range ops s WS Hok He Hc) as (WSf & P & _ & V).
    rewrite !(net_entry_value R zero one add mul tbl).
    rewrite <- (V _ (assign_in_range s rho0 _ _ Hidx)).
    apply (net_value_supp R zero one add mul tbl _ _ _ WSf). intros x Hx. apply E. apply (Permutation_in _ P Hx).
  Qed.
End RunValueRange.

(* ---- non-vacuity where the unrestricted contracts are unsatisfiable ----------------------------------------------------- *)
(* root 0 of shape (2,3) with child 1 of shape (2,2) on the root's leg 0; an identity node 9 is inserted on
   the edge and then QR-split into node 7 (towards the root) and node 8 (towards the child).
   Atoms: 0 root tensor, 1 child tensor, 2 inserted identity (wires [0; 4]), 3 = Q (wires [0; 5]),
   4 = R (wires [5; 4]); the new bond 5 has dimension 2. *)
Definition exr_s0 : store := fst (run empty_store [AddRoot 0 [2; 3]; AddChild 1 [2; 2] 0 0 0]).
Definition exr_ops : list op :=
  [InsertIdentity 1 0 9;
   Split 9 {| ls_parent := Some 0; ls_children := []; ls_open := []; ls_root := false |}
           {| ls_parent := None; ls_children := [1]; ls_open := []; ls_root := false |} 7 8 0 Reduced 0].

(* entries over Z: arbitrary root and child tensors; the inserted atom is the (unbounded) identity;
   Q = [[1,1],[0,1]], R = [[1,-1],[0,1]] on the index range, junk (7, -5) beyond it *)
Local Open Scope Z_scope.
Definition exr_tbl (a : nat) (idx : list nat) : Z :=
  match a, idx with
  | 0%nat, [i; j] => 1 + Z.of_nat i + 2 * Z.of_nat j
  | 1%nat, [i; j] => 3 + 5 * Z.of_nat i - Z.of_nat j
  | 2%nat, [i; j] => if Nat.eqb i j then 1 else 0
  | 3%nat, [i; k] => match i, k with
                     | 0%nat, 0%nat => 1 | 0%nat, 1%nat => 1 | 1%nat, 0%nat => 0 | 1%nat, 1%nat => 1 | _, _ => 7 end
  | 4%nat, [k; j] => match k, j with
                     | 0%nat, 0%nat => 1 | 0%nat, 1%nat => -1 | 1%nat, 0%nat => 0 | 1%nat, 1%nat => 1 | _, _ => -5 end
  | _, _ => 0
  end.

Example exr_hyps :
  wfsb exr_s0 = true /\ ops_okb exr_s0 exr_ops = true /\ forallb is_edit_op exr_ops = true /\
  snd (run exr_s0 exr_ops) = [true; true] /\
  contracts_hold_in_range 0 1 Z.add Z.mul exr_tbl exr_s0 exr_ops.
Proof.
  split; [vm_compute; reflexivity|]. split; [vm_compute; reflexivity|]. split; [reflexivity|]. split; [vm_compute; reflexivity|].
  unfold exr_ops. rewrite contracts_hold_in_range_cons.
  destruct (step exr_s0 _) as [s1|] eqn:Es1; [|vm_compute in Es1; discriminate].
  vm_compute in Es1. injection Es1 as <-. split.
  - (* the inserted atom is an identity on its index range (here: everywhere) *)
    intros i j _ _. reflexivity.
  - rewrite contracts_hold_in_range_cons.
    match goal with |- match ?X with _ => _ end => destruct X as [s2|] eqn:Es2; [|vm_compute in Es2; discriminate] end.
    vm_compute in Es2. injection Es2 as <-. split; [|exact I].
    (* Q.R = I at every in-range assignment of the two wires 0 and 4 of the inserted identity *)
    intros rho Hr. cbn -[exr_tbl Z.add Z.mul] in Hr.
    assert (H0 : (rho 0%nat < 2)%nat) by (apply (Hr 0%nat); left; reflexivity).
    assert (H4 : (rho 4%nat < 2)%nat) by (apply (Hr 4%nat); right; left; reflexivity).
    cbn -[exr_tbl Z.add Z.mul]. unfold atom_val, atom_wires. cbn -[exr_tbl Z.add Z.mul]. unfold upd. cbn -[exr_tbl Z.add Z.mul].
    destruct (rho 0%nat) as [|[|i]]; [| |lia]; (destruct (rho 4%nat) as [|[|j]]; [| |lia]); reflexivity.
Qed.

Example exr_conclusion : forall rho, in_range exr_s0 (open_wires exr_s0) rho ->
  net_value 0 1 Z.add Z.mul (fst (run exr_s0 exr_ops)) exr_tbl rho = net_value 0 1 Z.add Z.mul exr_s0 exr_tbl rho.
Proof.
  destruct exr_hyps as (H1 & H2 & H3 & _ & H5).
  apply (run_net_value_in_range Z 0 1 Z.add Z.mul Z_csr exr_tbl exr_ops exr_s0 (wfsb_wfs _ H1) (ops_okb_spec _ _ H2) H3 H5).
Qed.

(* independent computation: the six entries of the denoted (3,2) tensor before and after the run *)
Example exr_entries :
  open_wires exr_s0 = [1%nat; 3%nat] /\ open_wires (fst (run exr_s0 exr_ops)) = [1%nat; 3%nat] /\
  map (fun idx => net_entry 0 1 Z.add Z.mul (fst (run exr_s0 exr_ops)) exr_tbl (fun _ => 0%nat) idx)
      [[0; 0]; [0; 1]; [1; 0]; [1; 1]; [2; 0]; [2; 1]]%nat
  = map (fun idx => net_entry 0 1 Z.add Z.mul exr_s0 exr_tbl (fun _ => 0%nat) idx)
      [[0; 0]; [0; 1]; [1; 0]; [1; 1]; [2; 0]; [2; 1]]%nat.
Proof. vm_compute. repeat split. Qed.

(* the unrestricted premises of InvSemRun.run_net_value cannot hold for this sequence, whatever the table:
   eye_atom makes atom 2 the identity at all indices, def_holds (at the assignments giving the two wires of
   the identity the indices 0..2) would factor the 3x3 identity through the bond of dimension 2 *)
Theorem eye_split_unsatisfiable_Z : forall tbl : nat -> list nat -> Z,
  ~ contracts_hold 0 1 Z.add Z.mul tbl exr_s0 exr_ops.
Proof.
  intros tbl H. unfold exr_ops in H. rewrite (contracts_hold_cons Z 0 1 Z.add Z.mul tbl) in H.
  destruct (step exr_s0 _) as [s1|] eqn:Es1; [|vm_compute in Es1; discriminate].
  vm_compute in Es1. injection Es1 as <-. destruct H as [Heye H]. cbn [step_contract] in Heye.
  rewrite (contracts_hold_cons Z 0 1 Z.add Z.mul tbl) in H.
  match type of H with match ?X with _ => _ end => destruct X as [s2|] eqn:Es2; [|vm_compute in Es2; discriminate] end.
  vm_compute in Es2. injection Es2 as <-. destruct H as [Hdef _]. cbn [step_contract] in Hdef.
  assert (E : forall i j : nat,
            tbl 3%nat [i; 0%nat] * tbl 4%nat [0%nat; j] + tbl 3%nat [i; 1%nat] * tbl 4%nat [1%nat; j]
            = if Nat.eqb i j then 1 else 0).
  { intros i j. specialize (Hdef (fun x => if Nat.eqb x 0 then i else j)).
    cbn -[Z.add Z.mul] in Hdef. unfold atom_val, atom_wires in Hdef. cbn -[Z.add Z.mul] in Hdef. unfold upd in Hdef.
    cbn -[Z.add Z.mul] in Hdef. change (next_atom exr_s0) with 2%nat in Heye. rewrite (Heye i j) in Hdef. lia. }
  pose proof (E 0%nat 0%nat) as E00. pose proof (E 0%nat 1%nat) as E01. pose proof (E 0%nat 2%nat) as E02.
  pose proof (E 1%nat 0%nat) as E10. pose proof (E 1%nat 1%nat) as E11. pose proof (E 1%nat 2%nat) as E12.
  pose proof (E 2%nat 0%nat) as E20. pose proof (E 2%nat 1%nat) as E21. pose proof (E 2%nat 2%nat) as E22.
  cbn [Nat.eqb] in *.
  (* the determinant of a 3x3 product through a 2-dimensional bond vanishes identically *)
  assert (D : forall a0 b0 a1 b1 a2 b2 c0 d0 c1 d1 c2 d2 : Z,
            (a0 * c0 + b0 * d0) * ((a1 * c1 + b1 * d1) * (a2 * c2 + b2 * d2) - (a1 * c2 + b1 * d2) * (a2 * c1 + b2 * d1))
            - (a0 * c1 + b0 * d1) * ((a1 * c0 + b1 * d0) * (a2 * c2 + b2 * d2) - (a1 * c2 + b1 * d2) * (a2 * c0 + b2 * d0))
            + (a0 * c2 + b0 * d2) * ((a1 * c0 + b1 * d0) * (a2 * c1 + b2 * d1) - (a1 * c1 + b1 * d1) * (a2 * c0 + b2 * d0)) = 0)
    by (intros; ring).
  specialize (D (tbl 3%nat [0%nat; 0%nat]) (tbl 3%nat [0%nat; 1%nat]) (tbl 3%nat [1%nat; 0%nat]) (tbl 3%nat [1%nat; 1%nat])
                (tbl 3%nat [2%nat; 0%nat]) (tbl 3%nat [2%nat; 1%nat])
                (tbl 4%nat [0%nat; 0%nat]) (tbl 4%nat [1%nat; 0%nat]) (tbl 4%nat [0%nat; 1%nat]) (tbl 4%nat [1%nat; 1%nat])
                (tbl 4%nat [0%nat; 2%nat]) (tbl 4%nat [1%nat; 2%nat])).
  rewrite E00, E01, E02, E10, E11, E12, E20, E21, E22 in D. discriminate D.
Qed.

(* the restriction to in-range assignments in run_net_value_in_range is necessary: the root tensor of
   InvSemRun.exv_s0 (shape (2,2), both legs open) is split into Q = A and R = identity ON THE INDEX RANGE,
   with Q vanishing beyond it while A's table does not; the in-range contract holds, but at an assignment that
   puts the out-of-range index 2 on open wire 0 the two networks differ *)
Definition exo_ops : list op := [hd (Access 0%nat) exv_ops].
Definition exo_tbl (a : nat) (idx : list nat) : Z :=
  match a, idx with
  | 0%nat, [i; j] => 1 + Z.of_nat i + 2 * Z.of_nat j
  | 1%nat, [i; k] => if Nat.ltb i 2 && Nat.ltb k 2 then 1 + Z.of_nat i + 2 * Z.of_nat k else 0
  | 2%nat, [k; j] => if Nat.eqb k j && Nat.ltb j 2 then 1 else 0
  | _, _ => 0
  end.

Example exo_in_range_needed :
  wfsb exv_s0 = true /\ ops_okb exv_s0 exo_ops = true /\ forallb is_edit_op exo_ops = true /\
  contracts_hold_in_range 0 1 Z.add Z.mul exo_tbl exv_s0 exo_ops /\
  net_value 0 1 Z.add Z.mul (fst (run exv_s0 exo_ops)) exo_tbl (fun x => if Nat.eqb x 0%nat then 2%nat else 0%nat)
  <> net_value 0 1 Z.add Z.mul exv_s0 exo_tbl (fun x => if Nat.eqb x 0%nat then 2%nat else 0%nat).
Proof.
  split; [vm_compute; reflexivity|]. split; [vm_compute; reflexivity|]. split; [reflexivity|]. split.
  - unfold exo_ops, exv_ops. cbn [hd]. rewrite contracts_hold_in_range_cons.
    destruct (step exv_s0 _) as [s1|] eqn:Es1; [|vm_compute in Es1; discriminate].
    vm_compute in Es1. injection Es1 as <-. split; [|exact I].
    intros rho Hr. cbn -[exo_tbl Z.add Z.mul] in Hr.
    assert (H0 : (rho 0%nat < 2)%nat) by (apply (Hr 0%nat); left; reflexivity).
    assert (H1 : (rho 1%nat < 2)%nat) by (apply (Hr 1%nat); right; left; reflexivity).
    cbn -[exo_tbl Z.add Z.mul]. unfold atom_val, atom_wires. cbn -[exo_tbl Z.add Z.mul]. unfold upd. cbn -[exo_tbl Z.add Z.mul].
    destruct (rho 0%nat) as [|[|i]]; [| |lia]; (destruct (rho 1%nat) as [|[|j]]; [| |lia]); reflexivity.
  - vm_compute. discriminate.
Qed.
