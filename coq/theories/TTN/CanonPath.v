(* path_from_to on structural trees (TTN/CanonTree.v: tstruct).  Canon.v transcribes
   TreeStructure.path_from_to literally: both paths to the root are concatenated, the elements
   occurring more than once are counted and halved, both paths are cut with Python slices and
   the second one is reversed.  Here: on a tstruct dictionary the result starts at a, ends at b,
   has no repeated node and consecutive nodes are neighbours.
   Method: [chain l k c] = "c is the ancestor chain of k up to the parentless node"; the two
   chains decompose as xa ++ com and xb ++ com with xa, xb, com pairwise disjoint and com the
   (non-empty) chain of the lowest common ancestor ([chain_split]); the slice arithmetic then
   yields xa ++ [hd com] ++ rev xb ([pft_compute]). *)
From Coq Require Import List Arith Bool Lia Permutation.
From PTN Require Import TTN.Store TTN.StoreProofs TTN.Canon TTN.Inv TTN.InvProofs TTN.CanonTree.
Import ListNotations.

(* ---- lists whose consecutive elements are related ------------------------------------------------ *)
Fixpoint linked (R : id -> id -> Prop) (p : list id) : Prop :=
  match p with
  | x :: ((y :: _) as t) => R x y /\ linked R t
  | _ => True
  end.

Lemma linked_impl (R R' : id -> id -> Prop) p : (forall x y, R x y -> R' x y) -> linked R p -> linked R' p.
Proof.
  intros H. induction p as [|a p IH]; [auto|]. destruct p as [|b t]; [auto|].
  intros [H1 H2]. split; [apply H; exact H1|apply IH; exact H2].
Qed.

Lemma linked_snoc R p x y : linked R (p ++ [x]) -> R x y -> linked R (p ++ [x; y]).
Proof.
  intros H Hxy. induction p as [|a p IH].
  - cbn. auto.
  - destruct p as [|b t].
    + cbn in *. destruct H as [H1 _]. auto.
    + cbn [app] in *. destruct H as [H1 H2]. split; [exact H1|apply IH; exact H2].
Qed.

Lemma linked_rev R p : linked R p -> linked (fun x y => R y x) (rev p).
Proof.
  induction p as [|a p IH]; [auto|]. destruct p as [|b t]; [cbn; auto|].
  intros [H1 H2]. specialize (IH H2). cbn [rev] in *. rewrite <- app_assoc. cbn [app].
  apply linked_snoc; assumption.
Qed.

Lemma linked_join R p x q : linked R (p ++ [x]) -> linked R (x :: q) -> linked R (p ++ x :: q).
Proof.
  intros H Hq. induction p as [|a p IH]; [exact Hq|].
  destruct p as [|b t].
  - cbn in *. destruct H as [H1 _]. auto.
  - cbn [app] in *. destruct H as [H1 H2]. split; [exact H1|apply IH; exact H2].
Qed.

Lemma linked_app_l R p q : linked R (p ++ q) -> linked R p.
Proof.
  induction p as [|a p IH]; [cbn; auto|]. destruct p as [|b t]; [cbn; auto|].
  cbn [app]. intros [H1 H2]. split; [exact H1|apply IH; exact H2].
Qed.

Lemma linked_tl R a p : linked R (a :: p) -> linked R p.
Proof. destruct p; [cbn; auto|]. intros [_ H]. exact H. Qed.

Lemma linked_app_r R p q : linked R (p ++ q) -> linked R q.
Proof.
  induction p as [|a p IH]; [cbn; auto|]. intros H. apply IH. cbn [app] in H. eapply linked_tl; eauto.
Qed.

(* ---- the ancestor chain as a relation ------------------------------------------------------------ *)
Inductive chain (l : list (id * node)) : id -> list id -> Prop :=
| chain_root k n : aget k l = Some n -> parent n = None -> chain l k [k]
| chain_step k n p c : aget k l = Some n -> parent n = Some p -> chain l p c -> chain l k (k :: c).

Lemma chain_head l k c : chain l k c -> exists t, c = k :: t.
Proof. intros H. destruct H; eauto. Qed.

Lemma chain_det l k c : chain l k c -> forall c', chain l k c' -> c = c'.
Proof.
  induction 1 as [k n E P|k n p c E P H IH]; intros c' H'.
  - inversion H' as [k' n' E' P'|k' n' p' c0 E' P' H0]; subst; [reflexivity|]. congruence.
  - inversion H' as [k' n' E' P'|k' n' p' c0 E' P' H0]; subst; [congruence|].
    f_equal. apply IH. assert (p' = p) by congruence. subst. exact H0.
Qed.

Lemma chain_suffix l k c x : chain l k c -> In x c -> exists pre c', c = pre ++ c' /\ chain l x c'.
Proof.
  induction 1 as [k n E P|k n p c E P H IH]; intros Hin.
  - destruct Hin as [<-|[]]. exists [], [k]. split; [reflexivity|]. econstructor; eauto.
  - destruct Hin as [<-|Hin].
    + exists [], (k :: c). split; [reflexivity|]. econstructor 2; eauto.
    + destruct (IH Hin) as (pre & c' & -> & Hc). exists (k :: pre), c'. split; [reflexivity|exact Hc].
Qed.

Lemma chain_last_root l k c : chain l k c ->
  exists pre r n, c = pre ++ [r] /\ aget r l = Some n /\ parent n = None.
Proof.
  induction 1 as [k n E P|k n p c E P H IH].
  - exists [], k, n. auto.
  - destruct IH as (pre & r & rn & -> & Er & Pr). exists (k :: pre), r, rn. auto.
Qed.

Lemma chain_ranked l d k c : ranked l d -> chain l k c -> (forall x, In x c -> d x <= d k) /\ NoDup c.
Proof.
  intros Hr. induction 1 as [k n E P|k n p c E P H [IH1 IH2]].
  - split; [intros x [<-|[]]; lia|]. constructor; [intros []|constructor].
  - pose proof (Hr k n p E P) as Hlt. split.
    + intros x [<-|Hx]; [lia|]. apply IH1 in Hx. lia.
    + constructor; [|exact IH2]. intros Hin. apply IH1 in Hin. lia.
Qed.

Definition par_of (l : list (id * node)) (x y : id) : Prop :=
  exists n, aget x l = Some n /\ parent n = Some y.

Lemma chain_up l k c : chain l k c -> linked (par_of l) c.
Proof.
  induction 1 as [k n E P|k n p c E P H IH]; [cbn; auto|].
  destruct (chain_head _ _ _ H) as [t ->]. split; [exists n; auto|exact IH].
Qed.

(* the fuelled climb of the model computes the chain *)
Lemma climbs_chain s f k : climbs (nodes s) f k = true -> chain (nodes s) k (path_to_root f s k).
Proof.
  revert k. induction f as [|f IH]; intros k; cbn; [discriminate|].
  destruct (aget k (nodes s)) as [n|] eqn:E; [|discriminate].
  destruct (parent n) as [p|] eqn:P.
  - intros H. econstructor 2; eauto.
  - intros _. econstructor; eauto.
Qed.

Lemma ts_ranked l : tstruct l -> exists d, ranked l d.
Proof. intros T. destruct (ts_acyc _ T) as [d H]. exists d. exact H. Qed.

Lemma ts_parents_closed l : tstruct l -> parents_closed l.
Proof.
  intros T c cn p E P. destruct (ts_par _ T c cn p E P) as (pn & Ep & _). eapply aget_Some_keys; eauto.
Qed.

Lemma ts_path_to_root_chain s k : tstruct (nodes s) -> amem k (nodes s) = true ->
  chain (nodes s) k (path_to_root (length (nodes s)) s k).
Proof.
  intros T Hk. destruct (ts_ranked _ T) as [d Hd]. apply climbs_chain.
  apply (ranked_climbs _ d); [exact Hd|apply ts_parents_closed; exact T|apply amem_true; exact Hk].
Qed.

(* two chains share exactly the chain of the lowest common ancestor *)
Lemma chain_split l a b ca cb : tstruct l -> chain l a ca -> chain l b cb ->
  exists xa xb com, ca = xa ++ com /\ cb = xb ++ com /\ com <> [] /\ forall x, In x xa -> ~ In x cb.
Proof.
  intros T Ha Hb. induction Ha as [k n E P|k n p c E P H IH].
  - destruct (chain_last_root _ _ _ Hb) as (pre & r & rn & -> & Er & Pr).
    assert (r = k) by (eapply (ts_root _ T r rn k n); eauto). subst r.
    exists [], pre, [k]. repeat split; [discriminate|intros x []].
  - destruct (in_dec Nat.eq_dec k cb) as [Hin|Hni].
    + destruct (chain_suffix _ _ _ _ Hb Hin) as (pre & c' & -> & Hc').
      assert (c' = k :: c) by (eapply chain_det; [exact Hc'|econstructor 2; eauto]). subst c'.
      exists [], pre, (k :: c). repeat split; [discriminate|intros x []].
    + destruct IH as (xa & xb & com & -> & -> & Hne & Hd).
      exists (k :: xa), xb, com. repeat split; [exact Hne|].
      intros x [<-|Hx]; [exact Hni|apply Hd; exact Hx].
Qed.

(* ---- the counting / slicing arithmetic of path_from_to -------------------------------------------- *)
Lemma count_in_app x l1 l2 : count_in x (l1 ++ l2) = count_in x l1 + count_in x l2.
Proof. unfold count_in. rewrite filter_app, app_length. reflexivity. Qed.

Lemma count_in_notin x l : ~ In x l -> count_in x l = 0.
Proof.
  unfold count_in. induction l as [|y t IH]; [reflexivity|]. intros H. cbn.
  destruct (Nat.eqb_spec x y) as [->|Hne]; [exfalso; apply H; left; reflexivity|].
  apply IH. intros Hin. apply H. right. exact Hin.
Qed.

Lemma count_in_nodup x l : NoDup l -> In x l -> count_in x l = 1.
Proof.
  induction l as [|y t IH]; [intros _ []|]. intros Hnd Hin. inversion Hnd as [|? ? Hni Hnd']; subst.
  change (y :: t) with ([y] ++ t). rewrite count_in_app. unfold count_in at 1. cbn.
  destruct (Nat.eqb_spec x y) as [->|Hne].
  - rewrite (count_in_notin y t Hni). reflexivity.
  - destruct Hin as [->|Hin]; [congruence|]. rewrite (IH Hnd' Hin). reflexivity.
Qed.

Lemma filter_none {A} (f : A -> bool) l : (forall x, In x l -> f x = false) -> filter f l = [].
Proof.
  induction l as [|y t IH]; [reflexivity|]. intros H. cbn. rewrite (H y (or_introl eq_refl)).
  apply IH. intros x Hx. apply H. right. exact Hx.
Qed.

Lemma filter_all {A} (f : A -> bool) l : (forall x, In x l -> f x = true) -> filter f l = l.
Proof.
  induction l as [|y t IH]; [reflexivity|]. intros H. cbn. rewrite (H y (or_introl eq_refl)).
  f_equal. apply IH. intros x Hx. apply H. right. exact Hx.
Qed.

Lemma pft_ndup (xa xb com : list id) :
  NoDup (xa ++ com) -> NoDup (xb ++ com) -> (forall x, In x xa -> ~ In x (xb ++ com)) ->
  length (filter (fun j => negb (Nat.eqb (count_in j ((xa ++ com) ++ (xb ++ com))) 1))
                 ((xa ++ com) ++ (xb ++ com))) / 2 = length com.
Proof.
  intros Na Nb Hd.
  apply NoDup_app_iff in Na. destruct Na as (Nxa & Ncom & Dac).
  apply NoDup_app_iff in Nb. destruct Nb as (Nxb & _ & Dbc).
  assert (Dab : forall x, In x xa -> ~ In x xb) by (intros x Hx Hb; apply (Hd x Hx); apply in_or_app; auto).
  assert (Cnt : forall j, count_in j ((xa ++ com) ++ (xb ++ com)) = count_in j xa + count_in j com + (count_in j xb + count_in j com))
    by (intros j; rewrite !count_in_app; reflexivity).
  set (f := fun j => negb (Nat.eqb (count_in j ((xa ++ com) ++ (xb ++ com))) 1)).
  assert (Fa : filter f xa = []).
  { apply filter_none. intros x Hx. unfold f. rewrite Cnt.
    rewrite (count_in_nodup x xa Nxa Hx), (count_in_notin x com (Dac x Hx)), (count_in_notin x xb (Dab x Hx)). reflexivity. }
  assert (Fb : filter f xb = []).
  { apply filter_none. intros x Hx. unfold f. rewrite Cnt.
    rewrite (count_in_nodup x xb Nxb Hx), (count_in_notin x com (Dbc x Hx)), (count_in_notin x xa). reflexivity.
    intros Hxa. exact (Dab x Hxa Hx). }
  assert (Fc : filter f com = com).
  { apply filter_all. intros x Hx. unfold f. rewrite Cnt.
    rewrite (count_in_nodup x com Ncom Hx), (count_in_notin x xa), (count_in_notin x xb). reflexivity.
    - intros Hxb. exact (Dbc x Hxb Hx).
    - intros Hxa. exact (Dac x Hxa Hx). }
  rewrite !filter_app, Fa, Fb, Fc. cbn [app]. rewrite app_length.
  replace (length com + length com) with (length com * 2) by lia. apply Nat.div_mul. discriminate.
Qed.

Lemma pft_compute (xa xb : list id) c0 com' :
  NoDup (xa ++ c0 :: com') -> NoDup (xb ++ c0 :: com') -> (forall x, In x xa -> ~ In x (xb ++ c0 :: com')) ->
  forall ndup, ndup = length (c0 :: com') ->
  (if Nat.eqb ndup 1 then xa ++ c0 :: com' else firstn (length (xa ++ c0 :: com') - (ndup - 1)) (xa ++ c0 :: com'))
  ++ rev (if Nat.eqb ndup 0 then [] else firstn (length (xb ++ c0 :: com') - ndup) (xb ++ c0 :: com'))
  = xa ++ c0 :: rev xb.
Proof.
  intros Na Nb Hd ndup ->. cbn [length]. cbn [Nat.eqb].
  replace (length (xb ++ c0 :: com') - S (length com')) with (length xb + 0) by (rewrite app_length; cbn; lia).
  rewrite firstn_app_2. cbn [firstn]. rewrite app_nil_r.
  replace (xa ++ c0 :: rev xb) with ((xa ++ [c0]) ++ rev xb) by (rewrite <- app_assoc; reflexivity).
  f_equal.
  destruct com' as [|c1 com'']; [reflexivity|]. cbn [length Nat.eqb].
  replace (length (xa ++ c0 :: c1 :: com'') - (S (S (length com'')) - 1)) with (length xa + 1) by (rewrite app_length; cbn; lia).
  rewrite firstn_app_2. reflexivity.
Qed.

(* ---- the shape of the result ----------------------------------------------------------------------- *)
Lemma path_from_to_shape s a b : tstruct (nodes s) -> amem a (nodes s) = true -> amem b (nodes s) = true ->
  a <> b ->
  exists xa xb c0 com',
    chain (nodes s) a (xa ++ c0 :: com') /\ chain (nodes s) b (xb ++ c0 :: com') /\
    NoDup (xa ++ c0 :: com') /\ NoDup (xb ++ c0 :: com') /\
    (forall x, In x xa -> ~ In x (xb ++ c0 :: com')) /\
    path_from_to s a b = xa ++ c0 :: rev xb.
Proof.
  intros T Ha Hb Hab.
  pose proof (ts_path_to_root_chain s a T Ha) as Ca. pose proof (ts_path_to_root_chain s b T Hb) as Cb.
  destruct (ts_ranked _ T) as [d Hd].
  destruct (chain_split _ _ _ _ _ T Ca Cb) as (xa & xb & com & Ea & Eb & Hne & Hdis).
  destruct com as [|c0 com']; [congruence|].
  pose proof (proj2 (chain_ranked _ d _ _ Hd Ca)) as Na. pose proof (proj2 (chain_ranked _ d _ _ Hd Cb)) as Nb.
  exists xa, xb, c0, com'. rewrite Ea in Ca, Na. rewrite Eb in Cb, Nb, Hdis.
  repeat split; try assumption.
  unfold path_from_to. destruct (Nat.eqb_spec a b) as [|_]; [contradiction|]. cbv zeta.
  rewrite Ea, Eb. apply pft_compute; try assumption.
  apply pft_ndup; assumption.
Qed.

(* ---- the deliverables -------------------------------------------------------------------------------- *)
Theorem path_from_to_last s a b d : tstruct (nodes s) -> amem a (nodes s) = true -> amem b (nodes s) = true ->
  last (path_from_to s a b) d = b.
Proof.
  intros T Ha Hb. destruct (Nat.eq_dec a b) as [->|Hab].
  - unfold path_from_to. rewrite Nat.eqb_refl. reflexivity.
  - destruct (path_from_to_shape s a b T Ha Hb Hab) as (xa & xb & c0 & com' & Ca & Cb & Na & Nb & Hd & ->).
    destruct (chain_head _ _ _ Cb) as [t Et].
    destruct xb as [|b' xb'].
    + cbn in Et. injection Et as -> _. cbn [rev]. apply last_last.
    + cbn in Et. injection Et as -> _. cbn [rev].
      change (xa ++ c0 :: rev xb' ++ [b]) with (xa ++ (c0 :: rev xb') ++ [b]). rewrite app_assoc. apply last_last.
Qed.

Theorem path_from_to_head s a b : tstruct (nodes s) -> amem a (nodes s) = true -> amem b (nodes s) = true ->
  exists t, path_from_to s a b = a :: t.
Proof.
  intros T Ha Hb. destruct (Nat.eq_dec a b) as [->|Hab].
  - unfold path_from_to. rewrite Nat.eqb_refl. eauto.
  - destruct (path_from_to_shape s a b T Ha Hb Hab) as (xa & xb & c0 & com' & Ca & Cb & Na & Nb & Hd & ->).
    destruct (chain_head _ _ _ Ca) as [t Et].
    destruct xa as [|a' xa']; cbn in Et; injection Et as -> _; cbn [app]; eauto.
Qed.

Theorem path_from_to_nodup s a b : tstruct (nodes s) -> amem a (nodes s) = true -> amem b (nodes s) = true ->
  NoDup (path_from_to s a b).
Proof.
  intros T Ha Hb. destruct (Nat.eq_dec a b) as [->|Hab].
  - unfold path_from_to. rewrite Nat.eqb_refl. constructor; [intros []|constructor].
  - destruct (path_from_to_shape s a b T Ha Hb Hab) as (xa & xb & c0 & com' & Ca & Cb & Na & Nb & Hd & ->).
    apply NoDup_app_iff in Na. destruct Na as (Nxa & _ & _).
    apply NoDup_app_iff in Nb. destruct Nb as (Nxb & _ & Dbc).
    apply NoDup_app_iff. repeat split.
    + exact Nxa.
    + constructor.
      * intros Hin. apply in_rev in Hin. apply (Dbc c0 Hin). left. reflexivity.
      * apply NoDup_rev. exact Nxb.
    + intros x Hx Hin. apply (Hd x Hx). apply in_or_app. destruct Hin as [<-|Hin].
      * right. left. reflexivity.
      * left. apply in_rev. exact Hin.
Qed.

Fixpoint walk (s : store) (p : list id) : Prop :=
  match p with
  | x :: ((y :: _) as t) => (exists n, aget x (nodes s) = Some n /\ In y (neighbouring_nodes n)) /\ walk s t
  | _ => True
  end.

Definition nbr (s : store) (x y : id) : Prop := exists n, aget x (nodes s) = Some n /\ In y (neighbouring_nodes n).

Lemma walk_linked s p : walk s p <-> linked (nbr s) p.
Proof.
  induction p as [|a p IH]; [cbn; tauto|]. destruct p as [|b t]; [cbn; tauto|].
  change (walk s (a :: b :: t)) with (nbr s a b /\ walk s (b :: t)).
  change (linked (nbr s) (a :: b :: t)) with (nbr s a b /\ linked (nbr s) (b :: t)). tauto.
Qed.

Theorem path_from_to_walk s a b : tstruct (nodes s) -> amem a (nodes s) = true -> amem b (nodes s) = true ->
  walk s (path_from_to s a b).
Proof.
  intros T Ha Hb. destruct (Nat.eq_dec a b) as [->|Hab].
  - unfold path_from_to. rewrite Nat.eqb_refl. exact I.
  - destruct (path_from_to_shape s a b T Ha Hb Hab) as (xa & xb & c0 & com' & Ca & Cb & Na & Nb & Hd & ->).
    apply walk_linked. apply linked_join.
    + (* climbing from a to the common ancestor: child -> parent steps *)
      apply chain_up in Ca. change (xa ++ c0 :: com') with (xa ++ [c0] ++ com') in Ca. rewrite app_assoc in Ca.
      apply linked_app_l in Ca. revert Ca. apply linked_impl.
      intros x y (n & E & P). exists n. split; [exact E|]. apply in_neighbouring. left. exact P.
    + (* descending to b: the reversed climb, parent -> child steps *)
      apply chain_up in Cb. change (xb ++ c0 :: com') with (xb ++ [c0] ++ com') in Cb. rewrite app_assoc in Cb.
      apply linked_app_l in Cb. apply linked_rev in Cb. rewrite rev_app_distr in Cb. cbn [rev app] in Cb.
      revert Cb. apply linked_impl.
      intros x y (n & E & P). destruct (ts_par _ T y n x E P) as (pn & Ep & Hin).
      exists pn. split; [exact Ep|]. apply in_neighbouring. right. exact Hin.
Qed.
