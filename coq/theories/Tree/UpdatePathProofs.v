(* Proofs about the TDVP update path (Tree/UpdatePath.v). *)
From Coq Require Import List Arith Bool Lia Permutation.
From PTN Require Import Tree.RTree Tree.RTreeProofs Tree.Nav Tree.NavProofs Tree.UpdatePath.
Import ListNotations.

(* ================================================================================== *)
(* first_max: the first key with maximal value                                        *)
(* ================================================================================== *)
Lemma first_max_aux_spec : forall al pre bk bv mid,
  (forall k' v', In (k', v') pre -> v' < bv) ->
  (forall k' v', In (k', v') mid -> v' <= bv) ->
  exists l1 v l2, pre ++ (bk, bv) :: mid ++ al = l1 ++ (first_max_aux bk bv al, v) :: l2 /\
                  (forall k' v', In (k', v') l1 -> v' < v) /\ (forall k' v', In (k', v') l2 -> v' <= v).
Proof.
  induction al as [|[k v] r IH]; intros pre bk bv mid Hpre Hmid.
  - exists pre, bv, mid. rewrite app_nil_r. auto.
  - simpl. destruct (Nat.ltb bv v) eqn:E.
    + apply Nat.ltb_lt in E.
      destruct (IH (pre ++ (bk, bv) :: mid) k v []) as [l1 [v0 [l2 [H1 [H2 H3]]]]].
      * intros k' v' Hi. apply in_app_or in Hi. destruct Hi as [Hi|[Hi|Hi]].
        -- apply Hpre in Hi. lia. -- inversion Hi; subst. lia. -- apply Hmid in Hi. lia.
      * intros k' v' [].
      * exists l1, v0, l2. split; auto. rewrite <- H1. rewrite <- app_assoc. reflexivity.
    + apply Nat.ltb_ge in E.
      destruct (IH pre bk bv (mid ++ [(k, v)])) as [l1 [v0 [l2 [H1 [H2 H3]]]]]; auto.
      * intros k' v' Hi. apply in_app_or in Hi. destruct Hi as [Hi|[Hi|[]]]; [eapply Hmid; eauto | inversion Hi; subst; lia].
      * exists l1, v0, l2. split; auto. rewrite <- H1. rewrite <- app_assoc. reflexivity.
Qed.

Theorem first_max_spec : forall al k, first_max al = Some k ->
  exists l1 v l2, al = l1 ++ (k, v) :: l2 /\
                  (forall k' v', In (k', v') l1 -> v' < v) /\ (forall k' v', In (k', v') l2 -> v' <= v).
Proof.
  intros [|[k0 v0] r] k H; [discriminate|]. simpl in H. inversion H; subst.
  destruct (first_max_aux_spec r [] k0 v0 []) as [l1 [v [l2 [H1 [H2 H3]]]]]; try (intros ? ? []).
  exists l1, v, l2. auto.
Qed.

Lemma first_max_Some : forall al, al <> [] -> exists k, first_max al = Some k.
Proof. intros [|[k v] r] H; [congruence|]. simpl. eauto. Qed.

(* ================================================================================== *)
(* branch paths                                                                       *)
(* ================================================================================== *)
(* total version of path_for_branch *)
Definition pfb (t : rtree) (on : list nat) (o : nat) : list nat :=
  match subtree o t with
  | Some s => flat_map linearise (filter (not_on on) (rchildren s)) ++ [o]
  | None => []
  end.

Lemma path_for_branch_pfb : forall t on o, In o (ids t) -> path_for_branch t on o = Some (pfb t on o).
Proof.
  intros t on o H. apply subtree_Some_iff in H. destruct H as [s Hs]. unfold path_for_branch, pfb. rewrite Hs. reflexivity.
Qed.

(* sweeps along a down path q of the tree c; the nodes `on` the path are skipped as children *)
Definition sweep_down (c : rtree) (q : list nat) : list nat := flat_map (pfb c q) q.
Definition sweep_up (c : rtree) (q : list nat) : list nat := flat_map (pfb c q) (rev q).

Lemma subtree_in_child : forall i cs c o, NoDup (ids (RNode i cs)) -> In c cs -> In o (ids c) ->
  subtree o (RNode i cs) = subtree o c.
Proof.
  intros i cs c o Hw Hc Ho. pose proof Ho as Ho'. apply subtree_Some_iff in Ho'. destruct Ho' as [s Hs]. rewrite Hs.
  pose proof (subtree_sound _ _ _ Hs) as [Hr Hsub]. rewrite <- Hr. apply subtree_complete; auto. eapply sub_child; eauto.
Qed.

(* pfb only looks at `on` through the children of the origin *)
Lemma pfb_ext : forall t on on' o,
  (forall s g, subtree o t = Some s -> In g (rchildren s) -> (In (rid g) on <-> In (rid g) on')) ->
  pfb t on o = pfb t on' o.
Proof.
  intros t on on' o H. unfold pfb. destruct (subtree o t) as [s|]; auto. f_equal. f_equal.
  apply filter_ext_in. intros g Hg. unfold not_on. f_equal.
  destruct (mem (rid g) on) eqn:E1, (mem (rid g) on') eqn:E2; auto.
  - apply mem_In in E1. apply (H s g eq_refl Hg) in E1. apply mem_In in E1. congruence.
  - apply mem_In in E2. apply (H s g eq_refl Hg) in E2. apply mem_In in E2. congruence.
Qed.

Lemma pfb_child : forall i cs c on on' o, NoDup (ids (RNode i cs)) -> In c cs -> In o (ids c) ->
  (forall x, In x (ids c) -> (In x on <-> In x on')) ->
  pfb (RNode i cs) on o = pfb c on' o.
Proof.
  intros i cs c on on' o Hw Hc Ho Hon. unfold pfb at 1. rewrite (subtree_in_child i cs c o Hw Hc Ho).
  fold (pfb c on o). apply pfb_ext. intros s g Hs Hg. apply Hon.
  apply subtree_sound in Hs. destruct Hs as [_ Hsub]. eapply is_subtree_ids; eauto.
  eapply is_subtree_ids; [apply is_subtree_child; eauto | apply rid_in_ids].
Qed.

(* the children of the root that are not on a down path (root first, next node y) *)
Lemma filter_not_on_root : forall i cs c q on, NoDup (ids (RNode i cs)) -> In c cs ->
  (forall x, In x (flat_map ids cs) -> (In x on <-> In x q)) ->
  (forall x, In x q -> In x (ids c)) -> In (rid c) q ->
  Permutation (c :: filter (not_on on) cs) cs.
Proof.
  intros i cs c q on Hw Hc Hon Hq Hrc.
  destruct (wf_inv _ _ Hw) as [_ [Hnd _]].
  assert (K : forall g, In g cs -> not_on on g = negb (Nat.eqb (rid g) (rid c))).
  { intros g Hg. unfold not_on. f_equal. destruct (Nat.eqb (rid g) (rid c)) eqn:E.
    - apply Nat.eqb_eq in E. apply mem_In. apply Hon.
      + apply in_flat_map. exists g. split; auto using rid_in_ids.
      + rewrite E. exact Hrc.
    - apply Nat.eqb_neq in E. apply mem_false. intro Hi. apply Hon in Hi.
      + apply Hq in Hi. apply E. f_equal. eapply (wf_children_eq i cs g c (rid g)); eauto using rid_in_ids.
      + apply in_flat_map. exists g. split; auto using rid_in_ids. }
  rewrite (filter_ext_in _ _ _ K).
  apply in_split in Hc. destruct Hc as [l1 [l2 ->]].
  assert (F : forall l, (forall g, In g l -> rid g <> rid c) -> filter (fun g => negb (Nat.eqb (rid g) (rid c))) l = l).
  { intros l Hl. apply filter_all. intros g Hg. apply negb_true_iff. apply Nat.eqb_neq. auto. }
  assert (D : forall g, In g (l1 ++ l2) -> rid g <> rid c).
  { intros g Hg E. apply flat_map_NoDup_split in Hnd. destruct Hnd as [_ [_ Hd]].
    apply (Hd (rid c) (rid_in_ids c)). apply in_flat_map. exists g. split; auto. rewrite <- E. apply rid_in_ids. }
  rewrite filter_app. simpl. rewrite Nat.eqb_refl. simpl.
  rewrite (F l1), (F l2); try (intros; apply D; apply in_or_app; auto).
  apply Permutation_middle.
Qed.

Lemma sweep_down_perm : forall c x q, NoDup (ids c) -> down_path x c = Some q ->
  Permutation (sweep_down c q) (ids c).
Proof.
  induction c as [i cs IH] using rtree_ind2. intros x q Hw Hq. rewrite Forall_forall in IH.
  pose proof (down_path_In _ _ _ Hq) as Hin. pose proof (down_path_NoDup _ _ _ Hw Hq) as Hnd.
  apply down_path_step in Hq. destruct Hq as [[<- ->]|[Hne [c [q' [Hc [Hq' ->]]]]]].
  - unfold sweep_down. simpl. rewrite app_nil_r. unfold pfb. simpl. rewrite Nat.eqb_refl. simpl.
    rewrite filter_all.
    + eapply perm_trans; [apply Permutation_app_comm|]. simpl. constructor. apply flat_map_perm.
      apply Forall_forall. intros; apply linearise_perm.
    + intros g Hg. unfold not_on. apply negb_true_iff. apply mem_false. intros [E|[]].
      eapply (wf_root_notin_child i cs g); eauto. rewrite E. apply rid_in_ids.
  - pose proof (wf_child _ _ _ Hw Hc) as Hwc. inversion Hnd; subst.
    unfold sweep_down. simpl.
    (* the steps below the root are the sweep of the child *)
    assert (E : flat_map (pfb (RNode i cs) (i :: q')) q' = sweep_down c q').
    { unfold sweep_down. apply flat_map_ext_in. intros o Ho. apply pfb_child; auto.
      - eapply down_path_In; eauto.
      - intros y Hy. split; [intros [<-|H]; auto; exfalso; eapply wf_root_notin_child; eauto | intros; right; auto]. }
    rewrite E.
    (* the root step linearises all other children *)
    unfold pfb. simpl subtree. rewrite Nat.eqb_refl. simpl rchildren.
    assert (P : Permutation (c :: filter (not_on (i :: q')) cs) cs).
    { apply (filter_not_on_root i cs c q' (i :: q') Hw Hc).
      - intros y Hy. split; [intros [<-|H]; auto; exfalso; destruct (wf_inv _ _ Hw) as [Hn _]; auto | intros; right; auto].
      - intros y Hy. eapply down_path_In; eauto.
      - destruct (down_path_hd _ _ _ Hq') as [r ->]. left. reflexivity. }
    eapply perm_trans.
    { apply Permutation_app_tail. apply Permutation_app_comm. }
    rewrite <- app_assoc. simpl. constructor.
    eapply perm_trans.
    { apply Permutation_app_comm. }
    eapply perm_trans.
    { apply Permutation_app; [apply (IH c Hc x q' Hwc Hq') | apply flat_map_perm; apply Forall_forall; intros; apply linearise_perm]. }
    change (ids c ++ flat_map ids (filter (not_on (i :: q')) cs)) with (flat_map ids (c :: filter (not_on (i :: q')) cs)).
    exact (Permutation_flat_map ids P).
Qed.

Lemma sweep_up_perm : forall c x q, NoDup (ids c) -> down_path x c = Some q ->
  Permutation (sweep_up c q) (ids c).
Proof.
  intros c x q Hw Hq. eapply perm_trans; [|eapply sweep_down_perm; eauto].
  unfold sweep_up, sweep_down. apply (Permutation_flat_map (pfb c q)). apply Permutation_sym, Permutation_rev.
Qed.

(* the last entry of a downward sweep is the target of the path *)
Lemma sweep_down_last : forall c x q, down_path x c = Some q -> exists l, sweep_down c q = l ++ [x].
Proof.
  intros c x q Hq. pose proof (down_path_target_in _ _ _ Hq) as Hx.
  destruct (down_path_last _ _ _ Hq) as [r ->]. unfold sweep_down. rewrite flat_map_app. simpl. rewrite app_nil_r.
  apply subtree_Some_iff in Hx. destruct Hx as [s Hs]. unfold pfb at 2. rewrite Hs.
  eexists. rewrite app_assoc. reflexivity.
Qed.

(* an upward sweep from a leaf starts at that leaf *)
Lemma sweep_up_head : forall c x q, down_path x c = Some q -> children_ids c x = [] ->
  exists l, sweep_up c q = x :: l.
Proof.
  intros c x q Hq Hleaf. pose proof (down_path_target_in _ _ _ Hq) as Hx.
  destruct (down_path_last _ _ _ Hq) as [r ->]. unfold sweep_up. rewrite rev_app_distr. simpl.
  apply subtree_Some_iff in Hx. destruct Hx as [s Hs]. unfold pfb at 1. rewrite Hs.
  unfold children_ids in Hleaf. rewrite Hs in Hleaf. destruct (rchildren s); [|discriminate]. simpl. eauto.
Qed.

(* ================================================================================== *)
(* depth facts and the start node                                                     *)
(* ================================================================================== *)
Lemma depths_NoDup_keys : forall t d, NoDup (ids t) -> NoDup (map fst (depths d t)).
Proof. intros. rewrite depths_keys. assumption. Qed.

Lemma depths_functional : forall t d k v1 v2, NoDup (ids t) ->
  In (k, v1) (depths d t) -> In (k, v2) (depths d t) -> v1 = v2.
Proof.
  intros t d k v1 v2 Hw H1 H2. pose proof (depths_NoDup_keys t d Hw) as N.
  apply (assoc_NoDup_In _ _ _ N) in H1. apply (assoc_NoDup_In _ _ _ N) in H2. congruence.
Qed.

Lemma down_path_edge : forall t p c q, NoDup (ids t) -> In (p, c) (edges t) ->
  down_path p t = Some q -> down_path c t = Some (q ++ [c]).
Proof.
  intros t p c q Hw He Hq. apply edges_spec in He. destruct He as [s [Hsub [Hr Hc]]].
  apply in_map_iff in Hc. destruct Hc as [g [Eg Hg]]. subst c.
  pose proof (is_subtree_wf _ _ Hsub Hw) as Hws. destruct s as [j gs]. simpl in Hr, Hg. subst j.
  assert (D : down_path (rid g) (RNode p gs) = Some [p; rid g]).
  { rewrite (down_path_child p gs g (rid g) Hws Hg (rid_in_ids g)). rewrite down_path_root. reflexivity. }
  destruct (down_path_subtree _ _ Hsub Hw _ _ D) as [r [H1 H2]]. simpl in H1.
  rewrite Hq in H1. inversion H1; subst q. rewrite H2. rewrite <- app_assoc. reflexivity.
Qed.

Lemma depth_edge : forall t p c v, NoDup (ids t) -> In (p, c) (edges t) ->
  assoc p (depths 0 t) = Some v -> assoc c (depths 0 t) = Some (S v).
Proof.
  intros t p c v Hw He Hv. rewrite depths_assoc in *. destruct (down_path p t) as [q|] eqn:Hq; [|discriminate].
  rewrite (down_path_edge t p c q Hw He Hq). simpl in *. inversion Hv. f_equal. rewrite app_length. simpl.
  destruct (down_path_hd _ _ _ Hq) as [r ->]. simpl. lia.
Qed.

Record start_facts (t : rtree) (st : nat) : Prop := {
  sf_start : start_node t = Some st;
  sf_in : In st (ids t);
  sf_leaf : children_ids t st = [];
  sf_max : forall x vx vs, assoc x (depths 0 t) = Some vx -> assoc st (depths 0 t) = Some vs -> vx <= vs;
  sf_first : exists l1 v l2, depths 0 t = l1 ++ (st, v) :: l2 /\ (forall k' v', In (k', v') l1 -> v' < v)
}.

Lemma start_node_facts : forall t, NoDup (ids t) -> exists st, start_facts t st.
Proof.
  intros t Hw. destruct (first_max_Some (depths 0 t)) as [st Hst].
  { destruct t; simpl; discriminate. }
  exists st. destruct (first_max_spec _ _ Hst) as [l1 [v [l2 [E [H1 H2]]]]].
  assert (Hin : In (st, v) (depths 0 t)) by (rewrite E; apply in_or_app; right; left; reflexivity).
  assert (Hmax : forall k' v', In (k', v') (depths 0 t) -> v' <= v).
  { intros k' v' Hi. rewrite E in Hi. apply in_app_or in Hi. destruct Hi as [Hi|[Hi|Hi]].
    - apply H1 in Hi. lia. - inversion Hi; lia. - eapply H2; eauto. }
  pose proof (depths_NoDup_keys t 0 Hw) as N.
  pose proof (assoc_NoDup_In _ _ _ N Hin) as Hv.
  constructor; auto.
  - rewrite <- (depths_keys t 0). apply in_map_iff. exists (st, v). auto.
  - destruct (children_ids t st) as [|g gs] eqn:Hch; auto. exfalso.
    assert (He : In (st, g) (edges t)) by (apply children_ids_edges; auto; rewrite Hch; left; reflexivity).
    pose proof (depth_edge t st g v Hw He Hv) as Hg. apply assoc_In in Hg. apply Hmax in Hg. lia.
  - intros x vx vs Hx Hs. rewrite Hv in Hs. inversion Hs; subst. apply assoc_In in Hx. eapply Hmax; eauto.
  - eauto.
Qed.

Lemma start_not_root : forall i cs st, NoDup (ids (RNode i cs)) -> cs <> [] -> start_facts (RNode i cs) st -> st <> i.
Proof.
  intros i cs st Hw Hcs F E. subst st. destruct cs as [|c cs]; [congruence|].
  assert (H0 : assoc i (depths 0 (RNode i (c :: cs))) = Some 0) by (simpl; rewrite Nat.eqb_refl; reflexivity).
  assert (H1 : assoc (rid c) (depths 0 (RNode i (c :: cs))) = Some 1).
  { apply (depth_edge _ i (rid c) 0 Hw); auto. apply edges_root. left. reflexivity. }
  pose proof (sf_max _ _ F (rid c) 1 0 H1 H0). lia.
Qed.

(* ================================================================================== *)
(* unfolding find_path                                                                *)
(* ================================================================================== *)
Lemma fold_update_nonroot : forall t main l path, (forall o, In o l -> o <> rid t /\ In o (ids t)) ->
  fold_left (update_step t main) l (Some path) = Some (path ++ flat_map (pfb t main) l).
Proof.
  intros t main l. induction l as [|o l IH]; intros path H; simpl.
  - rewrite app_nil_r. reflexivity.
  - destruct (H o (or_introl eq_refl)) as [Hne Hin]. apply Nat.eqb_neq in Hne. rewrite Hne. simpl.
    rewrite (path_for_branch_pfb t main o Hin). rewrite IH.
    + rewrite <- app_assoc. reflexivity.
    + intros; apply H; right; auto.
Qed.

Lemma update_path_unfold : forall t st dtl, NoDup (ids t) -> start_node t = Some st ->
  down_path st t = Some (rid t :: dtl) ->
  update_path t =
    match path_down_from_root t (rev dtl ++ [rid t]) (flat_map (pfb t (rev dtl ++ [rid t])) (rev dtl)) with
    | Some ext => Some (flat_map (pfb t (rev dtl ++ [rid t])) (rev dtl) ++ ext)
    | None => None
    end.
Proof.
  intros t st dtl Hw Hst Hd. unfold update_path, main_path, path_to_root. rewrite Hst, Hd.
  simpl option_map. simpl rev. cbv iota beta. rewrite fold_left_app.
  rewrite fold_update_nonroot.
  - simpl. rewrite Nat.eqb_refl. simpl. reflexivity.
  - intros o Ho. apply in_rev in Ho. pose proof (down_path_NoDup _ _ _ Hw Hd) as N. inversion N; subst. split.
    + intro E. subst o. contradiction.
    + eapply down_path_In; eauto. right. exact Ho.
Qed.

Lemma concat_opt_map_Some : forall {A B} (g : A -> list B) l,
  concat_opt (map (fun o => Some (g o)) l) = Some (flat_map g l).
Proof. intros. induction l; simpl; auto. rewrite IHl. reflexivity. Qed.

Lemma leaves_nonempty : forall t, exists y, In y (leaves t).
Proof.
  induction t as [i cs IH] using rtree_ind2. destruct cs as [|c cs].
  - exists i. left. reflexivity.
  - inversion IH; subst. destruct H1 as [y Hy]. exists y.
    change (leaves (RNode i (c :: cs))) with (flat_map leaves (c :: cs)). simpl. apply in_or_app. left. exact Hy.
Qed.

Lemma leaves_children : forall i cs y, cs <> [] -> (In y (leaves (RNode i cs)) <-> exists c, In c cs /\ In y (leaves c)).
Proof.
  intros i cs y H. destruct cs as [|c cs]; [congruence|].
  change (leaves (RNode i (c :: cs))) with (flat_map leaves (c :: cs)). apply in_flat_map.
Qed.

Lemma map_rid_NoDup : forall cs, NoDup (flat_map ids cs) -> NoDup (map rid cs).
Proof.
  induction cs as [|c cs IH]; intros H; simpl; [constructor|].
  simpl in H. destruct (NoDup_app_inv _ _ H) as [_ [H2 Hd]]. constructor; auto.
  intro Hi. apply in_map_iff in Hi. destruct Hi as [g [Eg Hg]].
  apply (Hd (rid c) (rid_in_ids c)). apply in_flat_map. exists g. split; auto. rewrite <- Eg. apply rid_in_ids.
Qed.

Lemma perm_remove_rid : forall l c, NoDup (map rid l) -> In c l ->
  Permutation (c :: filter (fun g => negb (Nat.eqb (rid g) (rid c))) l) l.
Proof.
  induction l as [|a l IH]; intros c N Hc; [contradiction|]. simpl in N. inversion N; subst. simpl.
  destruct Hc as [->|Hc].
  - rewrite Nat.eqb_refl. simpl. constructor. rewrite filter_all; auto.
    intros g Hg. apply negb_true_iff. apply Nat.eqb_neq. intro E. apply H1. rewrite <- E. apply in_map. exact Hg.
  - destruct (Nat.eqb (rid a) (rid c)) eqn:E.
    + apply Nat.eqb_eq in E. exfalso. apply H1. rewrite E. apply in_map. exact Hc.
    + simpl. eapply perm_trans; [apply perm_swap|]. constructor. apply IH; auto.
Qed.

Lemma filter_map_rid_NoDup : forall (P : rtree -> bool) l, NoDup (map rid l) -> NoDup (map rid (filter P l)).
Proof.
  intros P l. induction l as [|a l IH]; intros N; simpl; auto. simpl in N. inversion N; subst.
  destruct (P a); simpl; auto. constructor; auto. intro Hi. apply H1.
  apply in_map_iff in Hi. destruct Hi as [g [Eg Hg]]. apply filter_In in Hg. rewrite <- Eg. apply in_map. tauto.
Qed.

(* ================================================================================== *)
(* the shape of the update path                                                       *)
(* ================================================================================== *)
Definition other_children (cs : list rtree) (m d : nat) : list rtree :=
  filter (fun c => negb (Nat.eqb (rid c) m || Nat.eqb (rid c) d)) cs.

Theorem update_path_decomp : forall i cs, NoDup (ids (RNode i cs)) ->
  exists st, start_facts (RNode i cs) st /\
  ((cs = [] /\ st = i /\ update_path (RNode i cs) = Some [i]) \/
   (exists cm dtl, In cm cs /\ down_path st cm = Some dtl /\
     ((cs = [cm] /\ update_path (RNode i cs) = Some (sweep_up cm dtl ++ [i])) \/
      (2 <= length cs /\ exists ce e etl, In ce cs /\ rid ce <> rid cm /\ In e (leaves ce) /\
         down_path e ce = Some etl /\
         update_path (RNode i cs) =
           Some (sweep_up cm dtl ++ (flat_map linearise (other_children cs (rid cm) (rid ce)) ++ [i]) ++ sweep_down ce etl))))).
Proof.
  intros i cs Hw. destruct (start_node_facts _ Hw) as [st F]. exists st. split; auto.
  pose proof (sf_start _ _ F) as Hst. pose proof (sf_in _ _ F) as Hin.
  assert (Hcase : cs = [] \/ cs <> []) by (destruct cs; [left|right]; congruence).
  destruct Hcase as [->|Hcs].
  - left. simpl in Hin. destruct Hin as [<-|[]]. repeat split.
    unfold update_path, main_path. rewrite Hst. unfold path_to_root. simpl. rewrite Nat.eqb_refl. simpl.
    rewrite Nat.eqb_refl. simpl. unfold path_down_from_root, furthest_non_visited_leaf. simpl.
    rewrite Nat.eqb_refl. simpl. unfold path_to_root. simpl. rewrite Nat.eqb_refl. simpl. rewrite Nat.eqb_refl. reflexivity.
  - right. set (t := RNode i cs) in *.
    pose proof (start_not_root i cs st Hw Hcs F) as Hne.
    pose proof Hin as Hd. apply down_path_Some_iff in Hd. destruct Hd as [down Hd].
    pose proof Hd as Hd'. apply down_path_step in Hd'. destruct Hd' as [[E _]|[_ [cm [dtl [Hcm [Hdtl ->]]]]]]; [congruence|].
    exists cm, dtl. split; auto. split; auto.
    pose proof (wf_child _ _ _ Hw Hcm) as Hwm.
    pose proof (update_path_unfold t st dtl Hw Hst Hd) as U. simpl in U.
    (* the ascending part is the upward sweep of cm *)
    assert (A : flat_map (pfb t (rev dtl ++ [i])) (rev dtl) = sweep_up cm dtl).
    { unfold sweep_up. apply flat_map_ext_in. intros o Ho. apply in_rev in Ho. apply pfb_child; auto.
      - eapply down_path_In; eauto.
      - intros x Hx. rewrite in_app_iff, <- in_rev. split; [intros [H|[<-|[]]]; auto | auto].
        exfalso. eapply wf_root_notin_child; eauto. }
    rewrite A in U.
    destruct (down_path_hd _ _ _ Hdtl) as [dr Edr].
    assert (Pm : Permutation (sweep_up cm dtl) (ids cm)) by (eapply sweep_up_perm; eauto).
    destruct (Nat.eq_dec (length cs) 1) as [L1|L1].
    + left. assert (cs = [cm]).
      { destruct cs as [|a [|b r]]; simpl in L1; try discriminate. destruct Hcm as [->|[]]. reflexivity. }
      split; auto. rewrite U. unfold path_down_from_root. simpl rchildren. rewrite L1. reflexivity.
    + right. assert (L2 : 2 <= length cs).
      { destruct cs as [|a [|b r]]; simpl in *; try congruence; lia. }
      split; auto.
      (* another child, with a leaf that has not been visited *)
      assert (exists c', In c' cs /\ rid c' <> rid cm) as [c' [Hc' Hc'ne]].
      { destruct (wf_inv _ _ Hw) as [_ [Hnd _]]. apply map_rid_NoDup in Hnd.
        destruct cs as [|a [|b r]]; simpl in L2; try lia. simpl in Hnd. inversion Hnd; subst.
        destruct (Nat.eq_dec (rid a) (rid cm)) as [Ea|Ea].
        - exists b. split; [right; left; reflexivity|]. intro Eb. apply H1. left. congruence.
        - exists a. split; [left; reflexivity | exact Ea]. }
      set (path := sweep_up cm dtl) in *.
      assert (Hfilter : forall y c, In c cs -> rid c <> rid cm -> In y (leaves c) -> forall v, In (y, v) (depths 0 t) ->
                 In (y, v) (filter (fun kv => mem (fst kv) (leaves t) && negb (mem (fst kv) path)) (depths 0 t))).
      { intros y c Hc Hcne Hy v Hv. apply filter_In. split; auto. simpl. apply andb_true_iff. split.
        - apply mem_In. apply leaves_children; eauto.
        - apply negb_true_iff. apply mem_false. intro Hp. apply (Permutation_in _ Pm) in Hp.
          apply Hcne. f_equal. eapply (wf_children_eq i cs c cm y); eauto. apply leaves_subset; auto. }
      destruct (first_max_Some (filter (fun kv => mem (fst kv) (leaves t) && negb (mem (fst kv) path)) (depths 0 t))) as [e He].
      { destruct (leaves_nonempty c') as [y Hy].
        assert (Hyt : In y (ids t)) by (eapply in_child_ids; eauto; apply leaves_subset; auto).
        rewrite <- (depths_keys t 0) in Hyt. apply in_map_iff in Hyt. destruct Hyt as [[y' v] [Ey Hv]]. simpl in Ey. subst y'.
        intro Hnil. pose proof (Hfilter y c' Hc' Hc'ne Hy v Hv) as Hi. rewrite Hnil in Hi. destruct Hi. }
      destruct (first_max_spec _ _ He) as [l1 [v [l2 [El _]]]].
      assert (Hev : In (e, v) (filter (fun kv => mem (fst kv) (leaves t) && negb (mem (fst kv) path)) (depths 0 t)))
        by (rewrite El; apply in_or_app; right; left; reflexivity).
      apply filter_In in Hev. destruct Hev as [_ Hev]. simpl in Hev. apply andb_true_iff in Hev. destruct Hev as [Hel Hep].
      apply mem_In in Hel. apply negb_true_iff in Hep. apply mem_false in Hep.
      apply leaves_children in Hel; auto. destruct Hel as [ce [Hce Hel]].
      assert (Hcene : rid ce <> rid cm).
      { intro E. assert (ce = cm) by (eapply wf_children_rid; eauto). subst ce. apply Hep.
        apply (Permutation_in _ (Permutation_sym Pm)). apply leaves_subset; auto. }
      pose proof (leaves_subset _ _ Hel) as Hece. pose proof Hece as Hetl. apply down_path_Some_iff in Hetl. destruct Hetl as [etl Hetl].
      exists ce, e, etl. repeat split; auto.
      destruct (down_path_hd _ _ _ Hetl) as [er Eer].
      assert (Hde : down_path e t = Some (i :: etl)).
      { unfold t. rewrite (down_path_child i cs ce e Hw Hce Hece), Hetl. reflexivity. }
      rewrite U. unfold path_down_from_root. simpl rchildren.
      replace (Nat.eqb (length cs) 1) with false by (symmetry; apply Nat.eqb_neq; exact L1).
      fold path. unfold furthest_non_visited_leaf. rewrite He. unfold path_to_root. rewrite Hde. unfold option_map.
      rewrite rev_involutive. simpl map. rewrite Nat.eqb_refl.
      (* the steps below the root *)
      assert (M : map (fun o => if Nat.eqb o i then branch_root t (rev dtl ++ [i]) (i :: etl) else path_for_branch t (i :: etl) o) etl
                  = map (fun o => Some (pfb ce etl o)) etl).
      { apply map_ext_in. intros o Ho. pose proof (down_path_In _ _ _ Hetl o Ho) as Hoc.
        assert (Hoi : o <> i) by (intro; subst o; eapply wf_root_notin_child; eauto).
        apply Nat.eqb_neq in Hoi. rewrite Hoi. rewrite path_for_branch_pfb; [|eapply in_child_ids; eauto].
        f_equal. apply pfb_child; auto. intros x Hx. split; [intros [<-|H]; auto | intros; right; auto].
        exfalso. eapply wf_root_notin_child; eauto. }
      simpl rid. rewrite M.
      (* the root step *)
      assert (B : branch_root t (rev dtl ++ [i]) (i :: etl) =
                  Some (flat_map linearise (other_children cs (rid cm) (rid ce)) ++ [i])).
      { unfold branch_root. simpl rchildren. destruct cs as [|a r] eqn:Ecs'; [congruence|]. rewrite <- Ecs'.
        rewrite rev_app_distr, rev_involutive. simpl rev. rewrite Edr, Eer. simpl. reflexivity. }
      rewrite B. simpl concat_opt. rewrite concat_opt_map_Some. reflexivity.
Qed.

(* ================================================================================== *)
(* consequences                                                                       *)
(* ================================================================================== *)
Lemma filter_filter_and : forall {A} (P Q : A -> bool) l,
  filter P (filter Q l) = filter (fun x => Q x && P x) l.
Proof.
  intros A P Q l. induction l as [|a l IH]; simpl; auto. destruct (Q a); simpl; [destruct (P a)|]; rewrite ?IH; auto.
Qed.

Lemma other_children_perm : forall cs cm ce, NoDup (map rid cs) -> In cm cs -> In ce cs -> rid ce <> rid cm ->
  Permutation (cm :: ce :: other_children cs (rid cm) (rid ce)) cs.
Proof.
  intros cs cm ce N Hcm Hce Hne. eapply perm_trans; [|apply (perm_remove_rid cs cm N Hcm)]. constructor.
  set (cs' := filter (fun g => negb (Nat.eqb (rid g) (rid cm))) cs).
  assert (Hce' : In ce cs') by (apply filter_In; split; auto; apply negb_true_iff; apply Nat.eqb_neq; auto).
  eapply perm_trans; [|apply (perm_remove_rid cs' ce (filter_map_rid_NoDup _ _ N) Hce')].
  constructor. unfold cs', other_children. rewrite filter_filter_and.
  erewrite filter_ext; [reflexivity|]. intros a. simpl. rewrite negb_orb. reflexivity.
Qed.

Theorem update_path_perm : forall t, NoDup (ids t) ->
  exists p, update_path t = Some p /\ Permutation p (ids t).
Proof.
  intros [i cs] Hw.
  destruct (update_path_decomp i cs Hw) as [st [F [[-> [-> U]]|[cm [dtl [Hcm [Hdtl [[-> U]|[L2 [ce [e [etl [Hce [Hne [Hel [Hetl U]]]]]]]]]]]]]]]].
  - exists [i]. split; auto.
  - eexists. split; [exact U|]. simpl. rewrite app_nil_r. eapply perm_trans; [apply Permutation_app_comm|]. simpl.
    constructor. eapply sweep_up_perm; eauto. eapply wf_child; eauto.
  - eexists. split; [exact U|].
    pose proof (wf_child _ _ _ Hw Hcm) as Hwm. pose proof (wf_child _ _ _ Hw Hce) as Hwe.
    destruct (wf_inv _ _ Hw) as [_ [Hnd _]]. pose proof (map_rid_NoDup _ Hnd) as N.
    pose proof (other_children_perm cs cm ce N Hcm Hce Hne) as PP.
    rewrite <- !app_assoc. simpl. apply Permutation_sym.
    rewrite app_assoc. apply Permutation_cons_app.
    eapply perm_trans; [apply (Permutation_flat_map ids (Permutation_sym PP))|]. simpl.
    rewrite <- app_assoc. apply Permutation_app; [apply Permutation_sym; eapply sweep_up_perm; eauto|].
    eapply perm_trans; [apply Permutation_app_comm|]. apply Permutation_app.
    + apply flat_map_perm. apply Forall_forall. intros. apply Permutation_sym, linearise_perm.
    + apply Permutation_sym. eapply sweep_down_perm; eauto.
Qed.

Theorem update_path_start : forall t, NoDup (ids t) ->
  exists st l, start_facts t st /\ update_path t = Some (st :: l).
Proof.
  intros [i cs] Hw.
  destruct (update_path_decomp i cs Hw) as [st [F [[-> [-> U]]|[cm [dtl [Hcm [Hdtl HH]]]]]]].
  - exists i, []. auto.
  - assert (Hl : children_ids cm st = []).
    { pose proof (sf_leaf _ _ F) as L. unfold children_ids in *.
      rewrite (subtree_in_child i cs cm st Hw Hcm) in L; auto. eapply down_path_target_in; eauto. }
    destruct (sweep_up_head cm st dtl Hdtl Hl) as [l El]. rewrite El in HH.
    destruct HH as [[-> U]|[L2 [ce [e [etl [Hce [Hne [Hel [Hetl U]]]]]]]]]; eexists st, _; (split; [exact F|]); rewrite U; reflexivity.
Qed.

Theorem update_path_end : forall t, NoDup (ids t) ->
  exists l x, update_path t = Some (l ++ [x]) /\ degree t x <= 1.
Proof.
  intros [i cs] Hw.
  assert (Droot : degree (RNode i cs) i = length cs).
  { unfold degree, neighbours. pose proof (parent_of_root (RNode i cs) Hw) as PR. simpl rid in PR. rewrite PR. unfold children_ids. simpl.
    rewrite Nat.eqb_refl. simpl. apply map_length. }
  destruct (update_path_decomp i cs Hw) as [st [F [[-> [-> U]]|[cm [dtl [Hcm [Hdtl [[-> U]|[L2 [ce [e [etl [Hce [Hne [Hel [Hetl U]]]]]]]]]]]]]]]].
  - exists [], i. split; auto. rewrite Droot. simpl. lia.
  - eexists _, i. split; [exact U|]. rewrite Droot. simpl. lia.
  - destruct (sweep_down_last ce e etl Hetl) as [l El]. rewrite El in U. eexists _, e. split.
    + rewrite U. rewrite !app_assoc. reflexivity.
    + assert (Hlt : In e (leaves (RNode i cs))).
      { apply leaves_children; eauto. intro; subst; contradiction. }
      pose proof (leaves_subset _ _ Hlt) as Hin. apply is_leaf_spec in Hlt; auto.
      unfold is_leaf in Hlt. unfold degree, neighbours. destruct (children_ids (RNode i cs) e); [|discriminate].
      rewrite app_nil_r. destruct (parent_of e (RNode i cs)); simpl; lia.
Qed.
