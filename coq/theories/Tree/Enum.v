(* Enumeration of all rooted ordered trees with a given number of nodes (pre-order
   labelled 0..n-1), and the executable checkers used by the bounded companions of the
   C17 clauses that are not (yet) proved for all trees.  Definitions only. *)
From Coq Require Import List Arith Bool.
From PTN Require Import Tree.RTree Tree.Nav Tree.UpdatePath Tree.CachePath.
Import ListNotations.

(* ---- enumeration ------------------------------------------------------------------ *)
(* all ordered forests with exactly m nodes (identifiers all 0); fuel >= m suffices *)
Fixpoint forests (fuel m : nat) : list (list rtree) :=
  match fuel with
  | 0 => if Nat.eqb m 0 then [[]] else []
  | S f =>
      if Nat.eqb m 0 then [[]]
      else flat_map (fun k =>            (* the first tree has k nodes, 1 <= k <= m *)
             flat_map (fun cs =>
               map (fun rest => RNode 0 cs :: rest) (forests f (m - k)))
               (forests f (k - 1)))
             (seq 1 m)
  end.

(* all tree shapes with n >= 1 nodes *)
Definition shapes (n : nat) : list rtree :=
  match n with 0 => [] | S m => map (RNode 0) (forests m m) end.

(* pre-order relabelling starting at k; returns the next free label *)
Fixpoint relabel_from (k : nat) (t : rtree) : rtree * nat :=
  match t with
  | RNode _ cs =>
      let '(cs', k') :=
        (fix go (k : nat) (l : list rtree) : list rtree * nat :=
           match l with
           | [] => ([], k)
           | c :: r => let '(c', k1) := relabel_from k c in
                       let '(r', k2) := go k1 r in (c' :: r', k2)
           end) (S k) cs in
      (RNode k cs', k')
  end.

Definition relabel (t : rtree) : rtree := fst (relabel_from 0 t).

(* identifiers erased: the shape of a tree *)
Fixpoint erase (t : rtree) : rtree :=
  match t with RNode _ cs => RNode 0 (map erase cs) end.

Definition trees_of_size (n : nat) : list rtree := map relabel (shapes n).
Definition trees_upto (n : nat) : list rtree := flat_map trees_of_size (seq 1 n).

(* ---- walking the update path ------------------------------------------------------ *)
Fixpoint steps (p : list nat) : list (nat * nat) :=
  match p with
  | a :: ((b :: _) as r) => (a, b) :: steps r
  | _ => []
  end.

(* the edges traversed when going from each entry of p to the next along the tree path *)
Fixpoint walk_edges (t : rtree) (p : list nat) : option (list (nat * nat)) :=
  match p with
  | a :: ((b :: _) as r) =>
      match path_from_to t a b, walk_edges t r with
      | Some q, Some w => Some (steps q ++ w)
      | _, _ => None
      end
  | _ => Some []
  end.

Definition same_edge (e s : nat * nat) : bool :=
  (Nat.eqb (fst e) (fst s) && Nat.eqb (snd e) (snd s)) || (Nat.eqb (fst e) (snd s) && Nat.eqb (snd e) (fst s)).

Definition crossings (e : nat * nat) (w : list (nat * nat)) : nat := length (filter (same_edge e) w).

Definition check_crossings (t : rtree) : bool :=
  match update_path t with
  | Some p => match walk_edges t p with
              | Some w => forallb (fun e => Nat.leb (crossings e w) 2) (edges t)
              | None => false
              end
  | None => false
  end.

(* ---- the cache of a TDVP run ------------------------------------------------------ *)
(* one block per edge: every tree edge is the support of exactly one key, and there are
   no other keys *)
Definition check_cache_edges (t : rtree) (keys : list (nat * nat)) : bool :=
  Nat.eqb (length keys) (length (edges t)) &&
  forallb (fun e => Nat.eqb (crossings e keys) 1) (edges t).

(* every block (n, m) points toward `first`: m is the second node of the path n -> first *)
Definition check_cache_direction (t : rtree) (first : nat) (keys : list (nat * nat)) : bool :=
  forallb (fun k => match path_from_to t (fst k) first with
                    | Some (n :: m :: _) => Nat.eqb n (fst k) && Nat.eqb m (snd k)
                    | _ => false
                    end) keys.

Definition has_pair (p : nat * nat) (l : list (nat * nat)) : bool :=
  existsb (fun q => Nat.eqb (fst p) (fst q) && Nat.eqb (snd p) (snd q)) l.

(* the block (n, m) is contracted from the blocks (j, n) of the other neighbours j of n:
   they must have been created before it *)
Fixpoint check_cache_order (t : rtree) (done keys : list (nat * nat)) : bool :=
  match keys with
  | [] => true
  | (n, m) :: r =>
      forallb (fun j => Nat.eqb j m || has_pair (j, n) done) (neighbours t n) &&
      check_cache_order t ((n, m) :: done) r
  end.

Definition check_cache (t : rtree) : bool :=
  match update_path t, tdvp_cache_keys t with
  | Some (u :: _), Some keys =>
      check_cache_edges t keys && check_cache_direction t u keys && check_cache_order t [] keys
  | _, _ => false
  end.

(* the same for an arbitrary left-out node *)
Definition check_cache_any (t : rtree) : bool :=
  forallb (fun u => match cache_keys t u with
                    | Some keys => check_cache_edges t keys && check_cache_direction t u keys && check_cache_order t [] keys
                    | None => false
                    end) (ids t).

(* ---- distances from an arbitrary centre ------------------------------------------- *)
Definition opt_nat_eqb (a b : option nat) : bool :=
  match a, b with Some x, Some y => Nat.eqb x y | None, None => true | _, _ => false end.

Definition check_distances (t : rtree) : bool :=
  forallb (fun c => match distance_to_node t c with
                    | Some d => Nat.eqb (length d) (size t) &&
                                forallb (fun x => match assoc x d with
                                                  | Some k => opt_nat_eqb (tree_dist t c x) (Some k)
                                                  | None => false
                                                  end) (ids t)
                    | None => false
                    end) (ids t).
