(* Enumeration of all rooted ordered trees with a given number of nodes (pre-order
   labelled 0..n-1), and the executable checker used by the bounded companion of the
   one C17 clause that is not (yet) proved for all trees (edge crossings of the sweep).  Definitions only. *)
From Coq Require Import List Arith Bool.
From PTN Require Import Tree.RTree Tree.Nav Tree.UpdatePath.
Import ListNotations.

(* ---- enumeration ------------------------------------------------------------------ *)
(* all ordered forests with exactly m nodes (identifiers all 0); fuel >= m suffices *)
Fixpoint forests (fuel m : nat) : list (list rtree) :=
  match fuel with
  | 0 => if Nat.eqb m 0 then [[]] else []
  | S f =>
      if Nat.eqb m 0 then [[]]
      else flat_map (fun k =>            (* the first tree has k nodes, 1 <= k <= m *)
             flat_map (fun cs =>
               map (fun rest => RNode 0 cs :: rest) (forests f (m - k)))
               (forests f (k - 1)))
             (seq 1 m)
  end.

(* all tree shapes with n >= 1 nodes *)
Definition shapes (n : nat) : list rtree :=
  match n with 0 => [] | S m => map (RNode 0) (forests m m) end.

(* pre-order relabelling starting at k; returns the next free label *)
Fixpoint relabel_from (k : nat) (t : rtree) : rtree * nat :=
  match t with
  | RNode _ cs =>
      let '(cs', k') :=
        (fix go (k : nat) (l : list rtree) : list rtree * nat :=
           match l with
           | [] => ([], k)
           | c :: r => let '(c', k1) := relabel_from k c in
                       let '(r', k2) := go k1 r in (c' :: r', k2)
           end) (S k) cs in
      (RNode k cs', k')
  end.

Definition relabel (t : rtree) : rtree := fst (relabel_from 0 t).

(* identifiers erased: the shape of a tree *)
Fixpoint erase (t : rtree) : rtree :=
  match t with RNode _ cs => RNode 0 (map erase cs) end.

Definition trees_of_size (n : nat) : list rtree := map relabel (shapes n).
Definition trees_upto (n : nat) : list rtree := flat_map trees_of_size (seq 1 n).

(* ---- walking the update path ------------------------------------------------------ *)
Fixpoint steps (p : list nat) : list (nat * nat) :=
  match p with
  | a :: ((b :: _) as r) => (a, b) :: steps r
  | _ => []
  end.

(* the edges traversed when going from each entry of p to the next along the tree path *)
Fixpoint walk_edges (t : rtree) (p : list nat) : option (list (nat * nat)) :=
  match p with
  | a :: ((b :: _) as r) =>
      match path_from_to t a b, walk_edges t r with
      | Some q, Some w => Some (steps q ++ w)
      | _, _ => None
      end
  | _ => Some []
  end.

Definition same_edge (e s : nat * nat) : bool :=
  (Nat.eqb (fst e) (fst s) && Nat.eqb (snd e) (snd s)) || (Nat.eqb (fst e) (snd s) && Nat.eqb (snd e) (fst s)).

Definition crossings (e : nat * nat) (w : list (nat * nat)) : nat := length (filter (same_edge e) w).

Definition check_crossings (t : rtree) : bool :=
  match update_path t with
  | Some p => match walk_edges t p with
              | Some w => forallb (fun e => Nat.leb (crossings e w) 2) (edges t)
              | None => false
              end
  | None => false
  end.
