(* The enumeration reaches every tree shape; Prop readings of the executable checkers;
   the bounded (finite-domain, kernel-evaluated) companions of the open C17 clauses. *)
From Coq Require Import List Arith Bool Lia.
From PTN Require Import Tree.RTree Tree.RTreeProofs Tree.Nav Tree.UpdatePath Tree.CachePath Tree.Enum.
Import ListNotations.

(* ---- completeness of the enumeration ---------------------------------------------- *)
Definition fsize (cs : list rtree) : nat := list_sum (map size cs).

Lemma forests_complete : forall fuel m cs, fsize cs = m -> m <= fuel -> In (map erase cs) (forests fuel m).
Proof.
  induction fuel as [|f IH]; intros m cs Hs Hm.
  - destruct cs as [|[j gs] r].
    + unfold fsize in Hs. simpl in Hs. subst m. simpl. auto.
    + unfold fsize in Hs. simpl in Hs. lia.
  - destruct cs as [|[j gs] r].
    + unfold fsize in Hs. simpl in Hs. subst m. simpl. auto.
    + unfold fsize in Hs. simpl in Hs. fold (fsize gs) in Hs. fold (fsize r) in Hs.
      simpl forests. destruct (Nat.eqb m 0) eqn:E; [apply Nat.eqb_eq in E; lia|].
      apply in_flat_map. exists (S (fsize gs)). split; [apply in_seq; lia|].
      apply in_flat_map. exists (map erase gs). split.
      * apply IH; lia.
      * simpl. apply in_map_iff. exists (map erase r). split; auto. apply IH; lia.
Qed.

Theorem shapes_complete : forall t, In (erase t) (shapes (size t)).
Proof.
  intros [j cs]. simpl. apply in_map_iff. exists (map erase cs). split; auto.
  apply forests_complete; auto.
Qed.

Theorem trees_upto_complete : forall t n, size t <= n -> In (relabel (erase t)) (trees_upto n).
Proof.
  intros t n H. unfold trees_upto. apply in_flat_map. exists (size t). split.
  - apply in_seq. destruct t; simpl in *. lia.
  - unfold trees_of_size. apply in_map. apply shapes_complete.
Qed.

(* ---- Prop readings of the checkers ------------------------------------------------ *)
Lemma check_crossings_sound : forall t, check_crossings t = true ->
  exists p w, update_path t = Some p /\ walk_edges t p = Some w /\
              forall e, In e (edges t) -> crossings e w <= 2.
Proof.
  intros t H. unfold check_crossings in H. destruct (update_path t) as [p|] eqn:Eu; [|discriminate].
  destruct (walk_edges t p) as [w|] eqn:Ew; [|discriminate]. exists p, w. split; [reflexivity|]. split; [exact Ew|].
  intros e He. rewrite forallb_forall in H. apply Nat.leb_le. auto.
Qed.

Lemma check_distances_sound : forall t, check_distances t = true ->
  forall c, In c (ids t) -> exists d, distance_to_node t c = Some d /\ length d = size t /\
    forall x, In x (ids t) -> exists k, assoc x d = Some k /\ tree_dist t c x = Some k.
Proof.
  intros t H c Hc. unfold check_distances in H. rewrite forallb_forall in H. specialize (H c Hc).
  destruct (distance_to_node t c) as [d|]; [|discriminate]. exists d. apply andb_true_iff in H. destruct H as [H1 H2].
  repeat split; auto. { apply Nat.eqb_eq; auto. }
  intros x Hx. rewrite forallb_forall in H2. specialize (H2 x Hx). destruct (assoc x d) as [k|]; [|discriminate].
  exists k. split; auto. destruct (tree_dist t c x); simpl in H2; [|discriminate]. apply Nat.eqb_eq in H2. congruence.
Qed.

Lemma check_cache_direction_sound : forall t u keys, check_cache_direction t u keys = true ->
  forall n m, In (n, m) keys -> exists r, path_from_to t n u = Some (n :: m :: r).
Proof.
  intros t u keys H n m Hin. unfold check_cache_direction in H. rewrite forallb_forall in H.
  specialize (H (n, m) Hin). simpl in H. destruct (path_from_to t n u) as [[|a [|b r]]|]; try discriminate.
  apply andb_true_iff in H. destruct H as [H1 H2]. apply Nat.eqb_eq in H1. apply Nat.eqb_eq in H2. subst. eauto.
Qed.

Lemma check_cache_edges_sound : forall t keys, check_cache_edges t keys = true ->
  length keys = length (edges t) /\ forall e, In e (edges t) -> crossings e keys = 1.
Proof.
  intros t keys H. unfold check_cache_edges in H. apply andb_true_iff in H. destruct H as [H1 H2].
  split; [apply Nat.eqb_eq; auto|]. intros e He. rewrite forallb_forall in H2. apply Nat.eqb_eq. auto.
Qed.

Lemma has_pair_In : forall p l, has_pair p l = true -> In p l.
Proof.
  intros [a b] l H. unfold has_pair in H. apply existsb_exists in H. destruct H as [[c d] [Hi He]]. simpl in He.
  apply andb_true_iff in He. destruct He as [E1 E2]. apply Nat.eqb_eq in E1. apply Nat.eqb_eq in E2. subst. exact Hi.
Qed.

Lemma check_cache_order_sound : forall t keys done, check_cache_order t done keys = true ->
  forall pre n m post, keys = pre ++ (n, m) :: post ->
  forall j, In j (neighbours t n) -> j <> m -> In (j, n) (pre ++ done).
Proof.
  intros t keys. induction keys as [|[n0 m0] r IH]; intros done H pre n m post E j Hj Hne.
  - destruct pre; discriminate.
  - simpl in H. apply andb_true_iff in H. destruct H as [H1 H2]. destruct pre as [|k pre].
    + simpl in E. inversion E; subst. simpl. rewrite forallb_forall in H1. specialize (H1 j Hj).
      apply orb_true_iff in H1. destruct H1 as [H1|H1]; [apply Nat.eqb_eq in H1; contradiction|]. apply has_pair_In; auto.
    + simpl in E. inversion E; subst. specialize (IH _ H2 pre n m post eq_refl j Hj Hne).
      apply in_app_or in IH. simpl. destruct IH as [IH|[IH|IH]]; auto.
      * right. apply in_or_app. auto.
      * right. apply in_or_app. auto.
Qed.

(* the three cache clauses, in Prop form *)
Definition cache_ok (t : rtree) (u : nat) (keys : list (nat * nat)) : Prop :=
  (length keys = length (edges t) /\ forall e, In e (edges t) -> crossings e keys = 1) /\
  (forall n m, In (n, m) keys -> exists r, path_from_to t n u = Some (n :: m :: r)) /\
  (forall pre n m post, keys = pre ++ (n, m) :: post ->
     forall j, In j (neighbours t n) -> j <> m -> In (j, n) pre).

Lemma check_cache_sound : forall t, check_cache t = true ->
  exists u l keys, update_path t = Some (u :: l) /\ tdvp_cache_keys t = Some keys /\ cache_ok t u keys.
Proof.
  intros t H. unfold check_cache in H. destruct (update_path t) as [[|u l]|]; try discriminate.
  destruct (tdvp_cache_keys t) as [keys|]; [|discriminate].
  apply andb_true_iff in H. destruct H as [H H3]. apply andb_true_iff in H. destruct H as [H1 H2].
  exists u, l, keys. repeat split; auto.
  - apply (check_cache_edges_sound t keys H1).
  - apply (check_cache_edges_sound t keys H1).
  - apply check_cache_direction_sound; auto.
  - intros pre n m post E j Hj Hne. pose proof (check_cache_order_sound t keys [] H3 pre n m post E j Hj Hne) as Hi.
    rewrite app_nil_r in Hi. exact Hi.
Qed.

Lemma check_cache_any_sound : forall t, check_cache_any t = true ->
  forall u, In u (ids t) -> exists keys, cache_keys t u = Some keys /\ cache_ok t u keys.
Proof.
  intros t H u Hu. unfold check_cache_any in H. rewrite forallb_forall in H. specialize (H u Hu).
  destruct (cache_keys t u) as [keys|]; [|discriminate]. exists keys. split; auto.
  apply andb_true_iff in H. destruct H as [H H3]. apply andb_true_iff in H. destruct H as [H1 H2].
  repeat split.
  - apply (check_cache_edges_sound t keys H1).
  - apply (check_cache_edges_sound t keys H1).
  - apply check_cache_direction_sound; auto.
  - intros pre n m post E j Hj Hne. pose proof (check_cache_order_sound t keys [] H3 pre n m post E j Hj Hne) as Hi.
    rewrite app_nil_r in Hi. exact Hi.
Qed.

(* ---- bounded companions (finite domain, evaluated by the kernel) ------------------ *)
Lemma all_crossings_10 : forallb check_crossings (trees_upto 10) = true.
Proof. vm_compute. reflexivity. Qed.

Lemma all_cache_10 : forallb check_cache (trees_upto 10) = true.
Proof. vm_compute. reflexivity. Qed.

Lemma all_cache_any_9 : forallb check_cache_any (trees_upto 9) = true.
Proof. vm_compute. reflexivity. Qed.

Lemma all_distances_9 : forallb check_distances (trees_upto 9) = true.
Proof. vm_compute. reflexivity. Qed.

Theorem crossings_bounded_10 : forall t, In t (trees_upto 10) ->
  exists p w, update_path t = Some p /\ walk_edges t p = Some w /\
              forall e, In e (edges t) -> crossings e w <= 2.
Proof. intros t H. apply check_crossings_sound. exact (proj1 (forallb_forall _ _) all_crossings_10 t H). Qed.

Theorem cache_bounded_10 : forall t, In t (trees_upto 10) ->
  exists u l keys, update_path t = Some (u :: l) /\ tdvp_cache_keys t = Some keys /\ cache_ok t u keys.
Proof. intros t H. apply check_cache_sound. exact (proj1 (forallb_forall _ _) all_cache_10 t H). Qed.

Theorem cache_any_bounded_9 : forall t, In t (trees_upto 9) ->
  forall u, In u (ids t) -> exists keys, cache_keys t u = Some keys /\ cache_ok t u keys.
Proof. intros t H. apply check_cache_any_sound. exact (proj1 (forallb_forall _ _) all_cache_any_9 t H). Qed.

Theorem distances_bounded_9 : forall t, In t (trees_upto 9) ->
  forall c, In c (ids t) -> exists d, distance_to_node t c = Some d /\ length d = size t /\
    forall x, In x (ids t) -> exists k, assoc x d = Some k /\ tree_dist t c x = Some k.
Proof. intros t H. apply check_distances_sound. exact (proj1 (forallb_forall _ _) all_distances_9 t H). Qed.
