(* The enumeration reaches every tree shape; Prop reading of the executable checker;
   the bounded (finite-domain, kernel-evaluated) companion of the open C17 clause. *)
From Coq Require Import List Arith Bool Lia.
From PTN Require Import Tree.RTree Tree.RTreeProofs Tree.Nav Tree.UpdatePath Tree.Enum.
Import ListNotations.

(* ---- completeness of the enumeration ---------------------------------------------- *)
Definition fsize (cs : list rtree) : nat := list_sum (map size cs).

Lemma forests_complete : forall fuel m cs, fsize cs = m -> m <= fuel -> In (map erase cs) (forests fuel m).
Proof.
  induction fuel as [|f IH]; intros m cs Hs Hm.
  - destruct cs as [|[j gs] r].
    + unfold fsize in Hs. simpl in Hs. subst m. simpl. auto.
    + unfold fsize in Hs. simpl in Hs. lia.
  - destruct cs as [|[j gs] r].
    + unfold fsize in Hs. simpl in Hs. subst m. simpl. auto.
    + unfold fsize in Hs. simpl in Hs. fold (fsize gs) in Hs. fold (fsize r) in Hs.
      simpl forests. destruct (Nat.eqb m 0) eqn:E; [apply Nat.eqb_eq in E; lia|].
      apply in_flat_map. exists (S (fsize gs)). split; [apply in_seq; lia|].
      apply in_flat_map. exists (map erase gs). split.
      * apply IH; lia.
      * simpl. apply in_map_iff. exists (map erase r). split; auto. apply IH; lia.
Qed.

Theorem shapes_complete : forall t, In (erase t) (shapes (size t)).
Proof.
  intros [j cs]. simpl. apply in_map_iff. exists (map erase cs). split; auto.
  apply forests_complete; auto.
Qed.

Theorem trees_upto_complete : forall t n, size t <= n -> In (relabel (erase t)) (trees_upto n).
Proof.
  intros t n H. unfold trees_upto. apply in_flat_map. exists (size t). split.
  - apply in_seq. destruct t; simpl in *. lia.
  - unfold trees_of_size. apply in_map. apply shapes_complete.
Qed.

(* ---- Prop readings of the checkers ------------------------------------------------ *)
Lemma check_crossings_sound : forall t, check_crossings t = true ->
  exists p w, update_path t = Some p /\ walk_edges t p = Some w /\
              forall e, In e (edges t) -> crossings e w <= 2.
Proof.
  intros t H. unfold check_crossings in H. destruct (update_path t) as [p|] eqn:Eu; [|discriminate].
  destruct (walk_edges t p) as [w|] eqn:Ew; [|discriminate]. exists p, w. split; [reflexivity|]. split; [exact Ew|].
  intros e He. rewrite forallb_forall in H. apply Nat.leb_le. auto.
Qed.

(* ---- bounded companion (finite domain, evaluated by the kernel) -------------------- *)
Lemma all_crossings_11 : forallb check_crossings (trees_upto 11) = true.
Proof. vm_compute. reflexivity. Qed.

Theorem crossings_bounded_11 : forall t, In t (trees_upto 11) ->
  exists p w, update_path t = Some p /\ walk_edges t p = Some w /\
              forall e, In e (edges t) -> crossings e w <= 2.
Proof. intros t H. apply check_crossings_sound. exact (proj1 (forallb_forall _ _) all_crossings_11 t H). Qed.
