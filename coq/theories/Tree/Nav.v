(* Models of the navigation queries of pytreenet/core/tree_structure.py on an rtree.
   find_path_to_root, path_from_to (LITERAL: two root paths, duplicate counting, the
   [:-n+1] slice and its 0 special case), distance_to_node (dict order = DFS pre-order from
   the centre, parent first), linearise, find_subtree_of_node, leaves_under_node,
   find_subtree_size_of_node, get_leaves, nearest_neighbours.
   `None` = the implementation raises (unknown identifier).  Definitions only. *)
From Coq Require Import List Arith Bool ZArith.
From PTN Require Import Tree.RTree.
Import ListNotations.

(* ---- root paths ------------------------------------------------------------------- *)
(* [root; ...; x] *)
Fixpoint down_path (x : nat) (t : rtree) : option (list nat) :=
  match t with
  | RNode i cs =>
      if Nat.eqb i x then Some [i]
      else option_map (cons i) (first_some (down_path x) cs)
  end.

(* TreeStructure.find_path_to_root: [x; parent x; ...; root] *)
Definition path_to_root (t : rtree) (x : nat) : option (list nat) :=
  option_map (@rev nat) (down_path x t).

(* ---- path_from_to, literally -------------------------------------------------------- *)
(* list.count *)
Definition count (x : nat) (l : list nat) : nat := length (filter (Nat.eqb x) l).

(* Python slice l[:k] for an integer k (negative k counts from the end, clamped) *)
Definition py_upto {A : Type} (k : Z) (l : list A) : list A :=
  if (k <? 0)%Z then firstn (Z.to_nat (Z.of_nat (length l) + k)) l
  else firstn (Z.to_nat k) l.

(* num_of_duplicates = len([j for j in combined if combined.count(j) != 1]) // 2 *)
Definition num_duplicates (comb : list nat) : nat :=
  length (filter (fun j => negb (Nat.eqb (count j comb) 1)) comb) / 2.

(* the body of path_from_to after the two root paths have been found *)
Definition merge_root_paths (pa pb : list nat) : list nat :=
  let nd := num_duplicates (pa ++ pb) in
  let k := (- Z.of_nat nd + 1)%Z in
  let first := if (k =? 0)%Z then pa else py_upto k pa in
  let second := py_upto (- Z.of_nat nd)%Z pb in
  first ++ rev second.

Definition path_from_to (t : rtree) (a b : nat) : option (list nat) :=
  if Nat.eqb a b then Some [a]          (* no existence check in this branch *)
  else
    match path_to_root t a, path_to_root t b with
    | Some pa, Some pb => Some (merge_root_paths pa pb)
    | _, _ => None
    end.

(* number of edges between a and b along the path the code returns *)
Definition tree_dist (t : rtree) (a b : nat) : option nat :=
  option_map (fun p => length p - 1) (path_from_to t a b).

(* ---- distances -------------------------------------------------------------------- *)
(* list.remove(last) on a list of subtrees, by identifier: first occurrence only *)
Fixpoint remove_child (x : nat) (cs : list rtree) : list rtree :=
  match cs with
  | [] => []
  | c :: r => if Nat.eqb (rid c) x then r else c :: remove_child x r
  end.

(* The tree re-rooted at x, every node's neighbours in the order the code visits them:
   the old parent first (neighbouring_nodes), then the children, minus the node we came
   from.  `up` is the already re-rooted part above t. *)
Fixpoint reroot_at (x : nat) (up : option rtree) (t : rtree) : option rtree :=
  match t with
  | RNode i cs =>
      if Nat.eqb i x then Some (RNode i (opt_list up ++ cs))
      else first_some
             (fun c => reroot_at x (Some (RNode i (opt_list up ++ remove_child (rid c) cs))) c)
             cs
  end.

Definition reroot (t : rtree) (x : nat) : option rtree := reroot_at x None t.

(* TreeStructure.distance_to_node as the association list of the returned dict, in dict
   order.  For the root as centre this is `depths 0 t`. *)
Definition distance_to_node (t : rtree) (c : nat) : option (list (nat * nat)) :=
  option_map (depths 0) (reroot t c).

(* ---- linearise -------------------------------------------------------------------- *)
Fixpoint linearise (t : rtree) : list nat :=
  match t with RNode i cs => flat_map linearise cs ++ [i] end.

(* ---- subtree queries -------------------------------------------------------------- *)
(* find_subtree_of_node: keys of the returned dict, in dict order *)
Definition subtree_nodes (t : rtree) (x : nat) : option (list nat) :=
  option_map ids (subtree x t).

(* leaves_under_node: keys in dict order *)
Definition leaves_under (t : rtree) (x : nat) : option (list nat) :=
  option_map leaves (subtree x t).

(* find_subtree_size_of_node(node_id, size=0), literally: a leaf returns 1 *)
Fixpoint sub_size (t : rtree) : nat :=
  match t with
  | RNode _ [] => 1
  | RNode _ cs => 0 + 1 + list_sum (map sub_size cs)
  end.

Definition subtree_size (t : rtree) (x : nat) : option nat :=
  option_map sub_size (subtree x t).

(* ---- queries that iterate the node dictionary ------------------------------------- *)
(* `order` = the key order of TreeStructure._nodes (insertion order; not determined by
   the tree shape, so it is an input) *)
Definition get_leaves (order : list nat) (t : rtree) : list nat :=
  filter (is_leaf t) order.

Definition nearest_neighbours (order : list nat) (t : rtree) : list (nat * nat) :=
  flat_map (fun n => map (fun c => (n, c)) (children_ids t n)) order.
